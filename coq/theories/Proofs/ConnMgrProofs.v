(* C18: the connection manager model (Model/ConnMgr.v) refines the abstract connection map                  *)
(* (Model/ConnMgrSpec.v); keys are unique; every protocol clause of the property; frame / isolation;         *)
(* the receive buffer goes back to the device whatever the packet handler returns.                          *)
(* Last part: transmissions that fail (the outcome of add_notify_wait_pop is an input of cm_step_tx): the    *)
(* refinement of the abstract map under failure (sp_step_tx), what holds at every failure point, and the    *)
(* four points at which the code as it stands is refuted.                                                   *)
From VD Require Import Base.Words Base.ListUpd Model.Queue Model.Owning Model.ConnMgr Model.ConnMgrSpec
  Proofs.QueueInv Proofs.QueueReach Proofs.QueueProps Proofs.OwningProofs.
From Coq Require Import ZArith Lia Permutation.

(* ------------------------------------------------------------------------------------------------ *)
(* the abstraction: a connection's key and the entry it stands for                                   *)
Definition conn_key (c : conn) : key := mk_key (ci_dst (cn_info c)) (ci_src_port (cn_info c)).
Definition entry_of (c : conn) : sentry := mkEntry (cn_est c) (cn_shut c) (cn_buf c) (ci_cr (cn_info c)).

(* what the vector holds for key k, as the code finds it: the FIRST match *)
Fixpoint clookup (k : key) (l : list conn) : option sentry :=
  match l with
  | [] => None
  | c :: t => if key_eqb (conn_key c) k then Some (entry_of c) else clookup k t
  end.

Definition KeysUnique (m : cm) : Prop := NoDup (map conn_key (m_conns m)).

(* the simulation relation: same constants, same map (pointwise), same listening set *)
Record R (m : cm) (s : spec) : Prop := mkR {
  R_cid : m_cid m = sp_cid s;
  R_cap : m_cap m = sp_cap s;
  R_rxsz : m_rxsz m = sp_rxsz s;
  R_tab : forall k, clookup k (m_conns m) = slookup k (sp_tab s);
  R_listen : forall p, memN p (m_listen m) = memN p (sp_listen s) }.

(* the abstract state a manager state stands for *)
Definition abs (m : cm) : spec :=
  mkSpec (m_cid m) (m_cap m) (m_rxsz m) (map (fun c => (conn_key c, entry_of c)) (m_conns m)) (m_listen m).

(* ------------------------------------------------------------------------------------------------ *)
(* keys *)
Lemma key_eqb_spec a b : reflect (a = b) (key_eqb a b).
Proof.
  destruct a as [[a1 a2] a3], b as [[b1 b2] b3]. unfold key_eqb.
  destruct (N.eqb_spec a1 b1), (N.eqb_spec a2 b2), (N.eqb_spec a3 b3); constructor; congruence.
Qed.
Lemma key_eqb_refl a : key_eqb a a = true.
Proof. destruct (key_eqb_spec a a); congruence. Qed.
Lemma key_eqb_sym a b : key_eqb a b = key_eqb b a.
Proof. destruct (key_eqb_spec a b), (key_eqb_spec b a); congruence. Qed.

Lemma get_pred_key peer lp c : get_pred peer lp c = key_eqb (conn_key c) (mk_key peer lp).
Proof. reflexivity. Qed.

Definition ev_key (ev : event) : key := (a_cid (ev_src ev), a_port (ev_src ev), a_port (ev_dst ev)).

Lemma matches_key ev c g :
  matches_connection ev (cn_info c) g = (a_cid (ev_dst ev) =? g) && key_eqb (conn_key c) (ev_key ev).
Proof.
  unfold matches_connection, addr_eqb, conn_key, mk_key, ev_key, key_eqb.
  rewrite (N.eqb_sym (a_cid (ev_src ev))), (N.eqb_sym (a_port (ev_src ev))), (N.eqb_sym (a_port (ev_dst ev))).
  destruct (_ =? a_cid (ev_src ev)), (_ =? a_port (ev_src ev)), (a_cid (ev_dst ev) =? g),
    (_ =? a_port (ev_dst ev)); reflexivity.
Qed.

(* ------------------------------------------------------------------------------------------------ *)
(* find_idx *)
Lemma find_idx_ext {A} (f g : A -> bool) l : (forall x, f x = g x) -> find_idx f l = find_idx g l.
Proof. intros H. induction l as [|x t IH]; [reflexivity|]. cbn [find_idx]. now rewrite H, IH. Qed.

Lemma find_idx_false {A} (l : list A) : find_idx (fun _ => false) l = None.
Proof. induction l as [|x t IH]; [reflexivity|]. cbn [find_idx]. now rewrite IH. Qed.

Definition find_key (k : key) (l : list conn) : option (nat * conn) :=
  find_idx (fun c => key_eqb (conn_key c) k) l.

Lemma find_key_spec k l :
  match find_key k l with
  | None => clookup k l = None
  | Some (i, c) => nth_error l i = Some c /\ conn_key c = k /\ clookup k l = Some (entry_of c)
  end.
Proof.
  unfold find_key. induction l as [|x t IH]; [reflexivity|]. cbn [find_idx clookup].
  destruct (key_eqb_spec (conn_key x) k) as [E|E].
  - cbn [nth_error]. auto.
  - destruct (find_idx _ t) as [[i c]|]; [|exact IH]. cbn [nth_error]. exact IH.
Qed.

Lemma get_connection_key l peer lp : get_connection l peer lp = find_key (mk_key peer lp) l.
Proof. reflexivity. Qed.

Lemma for_event_key l ev g :
  get_connection_for_event l ev g = if a_cid (ev_dst ev) =? g then find_key (ev_key ev) l else None.
Proof.
  unfold get_connection_for_event, find_key.
  destruct (a_cid (ev_dst ev) =? g) eqn:E.
  - apply find_idx_ext. intros c. now rewrite matches_key, E.
  - rewrite <- (find_idx_false l). apply find_idx_ext. intros c. now rewrite matches_key, E.
Qed.

Lemma existsb_clookup peer lp l :
  existsb (get_pred peer lp) l = match clookup (mk_key peer lp) l with Some _ => true | None => false end.
Proof.
  induction l as [|x t IH]; [reflexivity|]. cbn [existsb clookup]. rewrite get_pred_key.
  destruct (key_eqb (conn_key x) (mk_key peer lp)); [reflexivity|exact IH].
Qed.

(* ------------------------------------------------------------------------------------------------ *)
(* clookup and the vector operations *)
Lemma clookup_none_notin k l : clookup k l = None <-> ~ In k (map conn_key l).
Proof.
  induction l as [|x t IH]; cbn [clookup map In]; [tauto|].
  destruct (key_eqb_spec (conn_key x) k) as [E|E].
  - split; [discriminate|]. intros H. exfalso. apply H. now left.
  - rewrite IH. tauto.
Qed.

Lemma clookup_some_in k l e : clookup k l = Some e -> exists c, In c l /\ conn_key c = k /\ entry_of c = e.
Proof.
  induction l as [|x t IH]; cbn [clookup]; [discriminate|].
  destruct (key_eqb_spec (conn_key x) k) as [E|E].
  - intros H. injection H as <-. exists x. split; [now left|auto].
  - intros H. destruct (IH H) as (c & Hin & Hc). exists c. split; [now right|exact Hc].
Qed.

Lemma keys_upd l i c c' :
  nth_error l i = Some c -> conn_key c' = conn_key c -> map conn_key (upd l i c') = map conn_key l.
Proof.
  revert i. induction l as [|x t IH]; intros [|i] H E; cbn in *; try discriminate.
  - injection H as ->. now rewrite E.
  - f_equal. now apply IH.
Qed.

Lemma clookup_upd l i c c' k' :
  NoDup (map conn_key l) -> nth_error l i = Some c -> conn_key c' = conn_key c ->
  clookup k' (upd l i c') = if key_eqb (conn_key c) k' then Some (entry_of c') else clookup k' l.
Proof.
  revert i. induction l as [|x t IH]; intros [|i] Hnd H E; cbn [nth_error upd clookup map] in *; try discriminate.
  - injection H as ->. rewrite E. destruct (key_eqb (conn_key c) k'); reflexivity.
  - inversion Hnd as [|? ? Hnotin Hnd']; subst.
    rewrite (IH i Hnd' H E).
    destruct (key_eqb_spec (conn_key x) k') as [E1|E1]; [|reflexivity].
    destruct (key_eqb_spec (conn_key c) k') as [E2|E2]; [|reflexivity].
    exfalso. apply Hnotin. rewrite E1, <- E2. apply in_map. eapply nth_error_In; eauto.
Qed.

Lemma clookup_app l c k' :
  clookup k' (l ++ [c]) =
  match clookup k' l with
  | Some e => Some e
  | None => if key_eqb (conn_key c) k' then Some (entry_of c) else None
  end.
Proof.
  induction l as [|x t IH]; cbn [app clookup]; [reflexivity|].
  destruct (key_eqb (conn_key x) k'); [reflexivity|exact IH].
Qed.

Lemma keys_app_nodup l c :
  NoDup (map conn_key l) -> clookup (conn_key c) l = None -> NoDup (map conn_key (l ++ [c])).
Proof.
  intros Hnd Hn. rewrite map_app. cbn [map]. apply clookup_none_notin in Hn.
  eapply Permutation_NoDup; [apply Permutation_cons_append|]. constructor; assumption.
Qed.

Lemma upd_upd {A} (l : list A) i a b : upd (upd l i a) i b = upd l i b.
Proof. revert i. induction l as [|x t IH]; intros [|i]; cbn; auto. now rewrite IH. Qed.

Lemma upd_app_last {A} (l : list A) a b : upd (l ++ [a]) (length l) b = l ++ [b].
Proof. induction l as [|x t IH]; cbn; [reflexivity|]. now rewrite IH. Qed.

Lemma nth_error_app_last {A} (l : list A) a : nth_error (l ++ [a]) (length l) = Some a.
Proof. induction l as [|x t IH]; cbn; auto. Qed.

Lemma find_key_upd k l i c c' :
  find_key k l = Some (i, c) -> conn_key c' = k -> find_key k (upd l i c') = Some (i, c').
Proof.
  unfold find_key. revert i. induction l as [|x t IH]; intros i H E; cbn [find_idx] in *; [discriminate|].
  destruct (key_eqb_spec (conn_key x) k) as [E1|E1].
  - injection H as <- <-. cbn [upd find_idx]. rewrite E, key_eqb_refl. reflexivity.
  - destruct (find_idx _ t) as [[j y]|] eqn:F; [|discriminate]. injection H as <- <-.
    cbn [upd find_idx]. destruct (key_eqb_spec (conn_key x) k); [contradiction|].
    now rewrite (IH j eq_refl E).
Qed.

Lemma find_key_app_last k l c :
  clookup k l = None -> conn_key c = k -> find_key k (l ++ [c]) = Some (length l, c).
Proof.
  unfold find_key. intros Hn E. induction l as [|x t IH]; cbn [app find_idx clookup length] in *.
  - now rewrite E, key_eqb_refl.
  - destruct (key_eqb (conn_key x) k); [discriminate|]. now rewrite (IH Hn).
Qed.

(* swap_remove *)
Lemma last_app_one {A} (l : list A) a d : last (l ++ [a]) d = a.
Proof. induction l as [|x t IH]; [reflexivity|]. cbn [app]. destruct (t ++ [a]) eqn:E; [destruct t; discriminate|]. cbn [last]. exact IH. Qed.

Lemma removelast_app_one {A} (l : list A) a : removelast (l ++ [a]) = l.
Proof. rewrite removelast_app by discriminate. cbn. apply app_nil_r. Qed.

Lemma upd_app_l {A} (l r : list A) i a : (i < length l)%nat -> upd (l ++ r) i a = upd l i a ++ r.
Proof. revert i. induction l as [|x t IH]; intros [|i] H; cbn in *; try lia; auto. rewrite IH by lia. reflexivity. Qed.

Lemma swap_remove_snoc {A} (l : list A) (a : A) i :
  swap_remove (l ++ [a]) i = if (i <? length l)%nat then upd l i a else l.
Proof.
  unfold swap_remove. destruct (l ++ [a]) as [|x t] eqn:E; [destruct l; discriminate|]. rewrite <- E.
  rewrite last_app_one.
  destruct (Nat.ltb_spec i (length l)) as [H|H].
  - rewrite upd_app_l by exact H. apply removelast_app_one.
  - assert (Hu : upd (l ++ [a]) i a = l ++ [a]).
    { clear E. revert i H. induction l as [|y u IH]; intros i H.
      - destruct i as [|[|i]]; reflexivity.
      - destruct i as [|i]; [cbn in H; lia|]. cbn [app upd]. f_equal. apply IH. cbn in H. lia. }
    rewrite Hu. apply removelast_app_one.
Qed.

Lemma swap_remove_app_last {A} (l : list A) a : swap_remove (l ++ [a]) (length l) = l.
Proof. rewrite swap_remove_snoc. now rewrite Nat.ltb_irrefl. Qed.

Lemma swap_remove_perm {A} (l : list A) i c :
  nth_error l i = Some c -> Permutation l (c :: swap_remove l i).
Proof.
  intros H.
  assert (Hne : l <> []) by (destruct l; [destruct i; discriminate|discriminate]).
  destruct (exists_last Hne) as (l' & a & ->).
  rewrite swap_remove_snoc.
  destruct (Nat.ltb_spec i (length l')) as [Hi|Hi].
  - rewrite nth_error_app1 in H by exact Hi.
    apply nth_error_split in H. destruct H as (l1 & l2 & -> & Hlen).
    assert (Hu : upd (l1 ++ c :: l2) i a = l1 ++ a :: l2).
    { subst i. clear. induction l1 as [|x t IH]; cbn; [reflexivity|]. now rewrite IH. }
    rewrite Hu. rewrite <- app_assoc. cbn [app].
    apply Permutation_trans with (c :: l1 ++ l2 ++ [a]).
    + apply Permutation_sym, Permutation_middle.
    + constructor. apply Permutation_app_head. apply Permutation_sym.
      change (a :: l2) with ([a] ++ l2). apply Permutation_app_comm.
  - assert (i = length l').
    { assert (i < length (l' ++ [a]))%nat by (apply nth_error_Some; congruence). rewrite app_length in *. cbn in *. lia. }
    subst i. rewrite nth_error_app_last in H. injection H as ->.
    apply Permutation_sym. apply Permutation_cons_append.
Qed.

Lemma clookup_perm l l' k :
  Permutation l l' -> NoDup (map conn_key l) -> clookup k l = clookup k l'.
Proof.
  induction 1 as [|x t t' HP IH|x y t|l1 l2 l3 HP1 IH1 HP2 IH2]; intros Hnd.
  - reflexivity.
  - cbn [clookup]. inversion Hnd; subst. now rewrite IH.
  - cbn [clookup map] in *. inversion Hnd as [|? ? Hn ?]; subst.
    destruct (key_eqb_spec (conn_key y) k) as [E1|E1], (key_eqb_spec (conn_key x) k) as [E2|E2]; try reflexivity.
    exfalso. apply Hn. left. congruence.
  - rewrite IH1 by exact Hnd. apply IH2.
    eapply Permutation_NoDup; [|exact Hnd]. now apply Permutation_map.
Qed.

Lemma keys_swap_remove l i c :
  NoDup (map conn_key l) -> nth_error l i = Some c ->
  NoDup (map conn_key (swap_remove l i)) /\ ~ In (conn_key c) (map conn_key (swap_remove l i)).
Proof.
  intros Hnd H. pose proof (swap_remove_perm l i c H) as HP.
  assert (Hnd' : NoDup (map conn_key (c :: swap_remove l i))).
  { eapply Permutation_NoDup; [|exact Hnd]. now apply Permutation_map. }
  cbn [map] in Hnd'. inversion Hnd'; subst. auto.
Qed.

Lemma clookup_swap_remove l i c k' :
  NoDup (map conn_key l) -> nth_error l i = Some c ->
  clookup k' (swap_remove l i) = if key_eqb (conn_key c) k' then None else clookup k' l.
Proof.
  intros Hnd H. rewrite (clookup_perm _ _ k' (swap_remove_perm l i c H) Hnd). cbn [clookup].
  destruct (key_eqb_spec (conn_key c) k') as [E|E]; [|reflexivity].
  apply clookup_none_notin. rewrite <- E. apply (keys_swap_remove l i c Hnd H).
Qed.

(* the abstract map *)
Lemma slookup_sremove k k' t : slookup k' (sremove k t) = if key_eqb k k' then None else slookup k' t.
Proof.
  induction t as [|[k0 e] t IH]; cbn [sremove filter slookup fst].
  - now destruct (key_eqb k k').
  - fold (sremove k t).
    destruct (key_eqb_spec k k0) as [E0|E0]; cbn [negb].
    + subst k0. rewrite IH. destruct (key_eqb k k'); reflexivity.
    + cbn [slookup]. rewrite IH. destruct (key_eqb_spec k0 k') as [E1|E1]; [|reflexivity].
      destruct (key_eqb_spec k k'); [congruence|reflexivity].
Qed.

Lemma slookup_sset k e k' t : slookup k' (sset k e t) = if key_eqb k k' then Some e else slookup k' t.
Proof.
  unfold sset. cbn [slookup]. destruct (key_eqb k k') eqn:E; [reflexivity|]. now rewrite slookup_sremove, E.
Qed.

Lemma slookup_abs k l : slookup k (map (fun c => (conn_key c, entry_of c)) l) = clookup k l.
Proof. induction l as [|x t IH]; cbn [map slookup clookup]; [reflexivity|]. now rewrite IH. Qed.

Lemma R_abs m : R m (abs m).
Proof. constructor; try reflexivity. intros k. unfold abs. cbn [sp_tab]. now rewrite slookup_abs. Qed.

(* ------------------------------------------------------------------------------------------------ *)
(* building blocks of the simulation *)
Lemma packet_agree c cid op len flags payload :
  (new_header (cn_info c) cid op len flags, payload)
  = sp_packet cid (conn_key c) (ci_cr (cn_info c)) op len flags payload.
Proof. reflexivity. Qed.

Lemma get_sim m s peer lp :
  R m s ->
  match get_connection (m_conns m) peer lp with
  | None => slookup (mk_key peer lp) (sp_tab s) = None
  | Some (i, c) => nth_error (m_conns m) i = Some c /\ conn_key c = mk_key peer lp
                   /\ slookup (mk_key peer lp) (sp_tab s) = Some (entry_of c)
  end.
Proof.
  intros HR. rewrite get_connection_key. pose proof (find_key_spec (mk_key peer lp) (m_conns m)) as H.
  destruct (find_key _ _) as [[i c]|]; rewrite <- (R_tab _ _ HR); exact H.
Qed.

Lemma R_upd m s i c c' k e' :
  KeysUnique m -> R m s -> nth_error (m_conns m) i = Some c -> conn_key c = k -> conn_key c' = k ->
  entry_of c' = e' ->
  R (set_conns m (upd (m_conns m) i c')) (sp_put s k e') /\ KeysUnique (set_conns m (upd (m_conns m) i c')).
Proof.
  intros HK HR Hn Hc Hc' He. split.
  - destruct HR as [H1 H2 H3 H4 H5]. constructor; try assumption.
    intros k'. cbn [set_conns m_conns sp_put sp_with_tab sp_tab].
    rewrite (clookup_upd _ i c c' k' HK Hn) by congruence.
    rewrite slookup_sset, Hc, He, H4. reflexivity.
  - unfold KeysUnique. cbn [set_conns m_conns]. rewrite (keys_upd _ i c c' Hn) by congruence. exact HK.
Qed.

Lemma R_swap m s i c k :
  KeysUnique m -> R m s -> nth_error (m_conns m) i = Some c -> conn_key c = k ->
  R (set_conns m (swap_remove (m_conns m) i)) (sp_del s k) /\ KeysUnique (set_conns m (swap_remove (m_conns m) i)).
Proof.
  intros HK HR Hn Hc. split.
  - destruct HR as [H1 H2 H3 H4 H5]. constructor; try assumption.
    intros k'. cbn [set_conns m_conns sp_del sp_with_tab sp_tab].
    rewrite (clookup_swap_remove _ i c k' HK Hn), slookup_sremove, Hc, H4. reflexivity.
  - unfold KeysUnique. cbn [set_conns m_conns]. apply (keys_swap_remove _ i c HK Hn).
Qed.

Lemma R_ext m s s' :
  R m s -> sp_cid s' = sp_cid s -> sp_cap s' = sp_cap s -> sp_rxsz s' = sp_rxsz s -> sp_listen s' = sp_listen s ->
  (forall k, slookup k (sp_tab s') = slookup k (sp_tab s)) -> R m s'.
Proof.
  intros [H1 H2 H3 H4 H5] E1 E2 E3 E4 E5.
  constructor; [congruence|congruence|congruence|intros k; rewrite E5; apply H4|intros p; rewrite E4; apply H5].
Qed.

Lemma R_swap_upd m s i c c' k :
  KeysUnique m -> R m s -> nth_error (m_conns m) i = Some c -> conn_key c = k -> conn_key c' = k ->
  R (set_conns m (swap_remove (upd (m_conns m) i c') i)) (sp_del s k)
  /\ KeysUnique (set_conns m (swap_remove (upd (m_conns m) i c') i)).
Proof.
  intros HK HR Hn Hc Hc'.
  destruct (R_upd m s i c c' k (entry_of c') HK HR Hn Hc Hc' eq_refl) as [HR1 HK1].
  assert (Hn1 : nth_error (m_conns (set_conns m (upd (m_conns m) i c'))) i = Some c').
  { cbn [set_conns m_conns]. apply nth_error_upd_eq. apply nth_error_Some. congruence. }
  destruct (R_swap _ _ i c' k HK1 HR1 Hn1 Hc') as [HR2 HK2].
  cbn [set_conns m_conns m_cid m_cap m_rxsz m_listen] in *. split; [|exact HK2].
  eapply R_ext; [exact HR2|reflexivity..|].
  intros k'. cbn [sp_del sp_put sp_with_tab sp_tab]. rewrite !slookup_sremove, slookup_sset.
  destruct (key_eqb k k'); reflexivity.
Qed.

Lemma R_push m s c k e :
  KeysUnique m -> R m s -> slookup k (sp_tab s) = None -> conn_key c = k -> entry_of c = e ->
  R (set_conns m (m_conns m ++ [c])) (sp_put s k e) /\ KeysUnique (set_conns m (m_conns m ++ [c])).
Proof.
  intros HK HR Hn Hc He. assert (Hn' : clookup k (m_conns m) = None) by now rewrite (R_tab _ _ HR). split.
  - destruct HR as [H1 H2 H3 H4 H5]. constructor; try assumption.
    intros k'. cbn [set_conns m_conns sp_put sp_with_tab sp_tab]. rewrite clookup_app, slookup_sset, Hc, He, <- H4.
    destruct (key_eqb_spec k k') as [E|E]; [subst k'; now rewrite Hn'|].
    destruct (clookup k' (m_conns m)); reflexivity.
  - unfold KeysUnique. cbn [set_conns m_conns]. apply keys_app_nodup; [exact HK|now rewrite Hc].
Qed.

Lemma memN_app x l y : memN x (l ++ [y]) = memN x l || (x =? y).
Proof. unfold memN. rewrite existsb_app. cbn. now rewrite orb_false_r. Qed.

Lemma memN_filter x l p : memN x (filter (fun q => negb (q =? p)) l) = memN x l && negb (x =? p).
Proof.
  unfold memN. induction l as [|y t IH]; [reflexivity|]. cbn [filter existsb].
  destruct (N.eqb_spec y p) as [E|E]; cbn [negb].
  - rewrite IH. subst y. destruct (N.eqb_spec x p); cbn; [now rewrite andb_false_r|reflexivity].
  - cbn [existsb]. rewrite IH. destruct (N.eqb_spec x y) as [E2|E2]; [|reflexivity].
    subst x. destruct (N.eqb_spec y p); [contradiction|]. cbn. reflexivity.
Qed.

(* is_local_port_used looks at the same set of keys *)
Lemma port_used_sim m s p : R m s -> cm_is_local_port_used m p = sp_port_used s p.
Proof.
  intros HR. unfold cm_is_local_port_used, sp_port_used. rewrite (R_listen _ _ HR).
  destruct (memN p (sp_listen s)); [reflexivity|]. cbn [orb].
  apply eq_true_iff_eq. rewrite !existsb_exists. split.
  - intros (c & Hin & Hp). apply N.eqb_eq in Hp.
    assert (Hl : clookup (conn_key c) (m_conns m) <> None).
    { intros Hn. apply clookup_none_notin in Hn. apply Hn. now apply in_map. }
    rewrite (R_tab _ _ HR) in Hl. destruct (slookup (conn_key c) (sp_tab s)) as [e|] eqn:E; [|congruence].
    clear Hl. revert E. induction (sp_tab s) as [|[k0 e0] t IH]; cbn [slookup]; [discriminate|].
    destruct (key_eqb_spec k0 (conn_key c)) as [E0|E0].
    + intros _. exists (k0, e0). split; [now left|]. cbn [fst]. rewrite E0. unfold conn_key, mk_key. cbn [snd].
      now apply N.eqb_eq.
    + intros E. destruct (IH E) as (x & Hx & Hpx). exists x. split; [now right|exact Hpx].
  - intros ([k0 e0] & Hin & Hp). cbn [fst] in Hp. apply N.eqb_eq in Hp.
    assert (Hl : slookup k0 (sp_tab s) <> None).
    { clear Hp. induction (sp_tab s) as [|[k1 e1] t IH]; [contradiction|]. cbn [slookup].
      destruct (key_eqb_spec k1 k0); [discriminate|]. destruct Hin as [Hin|Hin]; [congruence|]. now apply IH. }
    rewrite <- (R_tab _ _ HR) in Hl. destruct (clookup k0 (m_conns m)) as [e|] eqn:E; [|congruence].
    destruct (clookup_some_in _ _ _ E) as (c & Hc & Hk & _). exists c. split; [exact Hc|].
    apply N.eqb_eq. rewrite <- Hp, <- Hk. reflexivity.
Qed.

(* ------------------------------------------------------------------------------------------------ *)
(* the simulation, operation by operation *)
Definition sim (res : result) (sres : sresult) : Prop :=
  let '(m', o, tx) := res in
  let '(s', o', tx') := sres in
  o = o' /\ tx = tx' /\ R m' s' /\ KeysUnique m'.

Ltac sim_done := cbn [sim]; split; [reflexivity|]; split; [reflexivity|]; split; assumption.

Lemma connect_sim m s peer lp :
  KeysUnique m -> R m s -> sim (cm_connect m peer lp) (sp_connect s (mk_key peer lp)).
Proof.
  intros HK HR. unfold cm_connect, sp_connect. rewrite existsb_clookup, (R_tab _ _ HR).
  destruct (slookup (mk_key peer lp) (sp_tab s)) eqn:E; [sim_done|].
  destruct (R_push m s (conn_new peer lp (m_cap m)) (mk_key peer lp) (entry_new (sp_cap s)) HK HR E eq_refl)
    as [HR1 HK1]; [now rewrite <- (R_cap _ _ HR)|].
  cbn [sim]. split; [reflexivity|]. split; [|split; assumption].
  rewrite packet_agree, (R_cid _ _ HR), (R_cap _ _ HR). reflexivity.
Qed.

Lemma send_sim md m s peer lp data :
  KeysUnique m -> R m s -> sim (cm_send md m peer lp data) (sp_send md s (mk_key peer lp) data).
Proof.
  intros HK HR. unfold cm_send, sp_send, with_entry. pose proof (get_sim m s peer lp HR) as H.
  destruct (get_connection (m_conns m) peer lp) as [[i c]|]; [|rewrite H; sim_done].
  destruct H as (Hn & Hk & Hs). rewrite Hs. cbn [se_shut entry_of se_cr].
  destruct (cn_shut c); [sim_done|].
  destruct (credit_peer_free md (ci_cr (cn_info c))) as [pf|]; [|sim_done].
  destruct (lenN data <=? pf).
  - destruct (credit_add_tx md (ci_cr (cn_info c)) (w32 (lenN data))) as [cr'|]; [|sim_done].
    destruct (R_upd m s i c (set_cr c cr') (mk_key peer lp) (se_with_cr (entry_of c) cr') HK HR Hn Hk Hk eq_refl)
      as [HR1 HK1].
    cbn [sim]. split; [reflexivity|]. split; [|split; assumption].
    rewrite packet_agree, Hk, (R_cid _ _ HR). reflexivity.
  - destruct (cr_pending (ci_cr (cn_info c))); [sim_done|].
    destruct (R_upd m s i c (set_cr c (credit_set_pending (ci_cr (cn_info c)))) (mk_key peer lp)
                (se_with_cr (entry_of c) (credit_set_pending (ci_cr (cn_info c)))) HK HR Hn Hk Hk eq_refl)
      as [HR1 HK1].
    cbn [sim]. split; [reflexivity|]. split; [|split; assumption].
    rewrite packet_agree, Hk, (R_cid _ _ HR). reflexivity.
Qed.

Lemma recv_sim md m s peer lp n :
  KeysUnique m -> R m s -> sim (cm_recv md m peer lp n) (sp_recv md s (mk_key peer lp) n).
Proof.
  intros HK HR. unfold cm_recv, sp_recv, with_entry. pose proof (get_sim m s peer lp HR) as H.
  destruct (get_connection (m_conns m) peer lp) as [[i c]|]; [|rewrite H; sim_done].
  destruct H as (Hn & Hk & Hs). rewrite Hs.
  cbn [se_shut entry_of se_cr se_buf set_buf set_cr cn_info ci_cr cn_buf cn_shut ci_dst ci_src_port].
  set (k := cntN n (cn_buf c)).
  destruct (credit_done_forwarding md (ci_cr (cn_info c)) (lenN (firstn k (cn_buf c)))) as [cr'|].
  - destruct (cn_shut c && (lenN (skipn k (cn_buf c)) =? 0)).
    + destruct (R_swap_upd m s i c (set_cr (set_buf c (skipn k (cn_buf c))) cr') (mk_key peer lp) HK HR Hn Hk Hk)
        as [HR1 HK1].
      cbn [sim]. split; [reflexivity|]. split; [|split; assumption].
      change (mkInfo (ci_dst (cn_info c)) (ci_src_port (cn_info c)) cr')
        with (cn_info (set_cr (set_buf c (skipn k (cn_buf c))) cr')).
      rewrite packet_agree. change (conn_key (set_cr (set_buf c (skipn k (cn_buf c))) cr')) with (conn_key c).
      rewrite Hk, (R_cid _ _ HR). reflexivity.
    + destruct (R_upd m s i c (set_cr (set_buf c (skipn k (cn_buf c))) cr') (mk_key peer lp)
                  (se_with_cr (se_with_buf (entry_of c) (skipn k (cn_buf c))) cr') HK HR Hn Hk Hk eq_refl)
        as [HR1 HK1].
      cbn [sim]. auto.
  - destruct (R_upd m s i c (set_buf c (skipn k (cn_buf c))) (mk_key peer lp)
                (se_with_buf (entry_of c) (skipn k (cn_buf c))) HK HR Hn Hk Hk eq_refl) as [HR1 HK1].
    cbn [sim]. auto.
Qed.

Lemma readonly_sim m s peer lp (f : conn -> outcome rval * list pkt) (g : sentry -> outcome rval * list pkt) :
  KeysUnique m -> R m s ->
  (forall c, conn_key c = mk_key peer lp -> f c = g (entry_of c)) ->
  sim (match get_connection (m_conns m) peer lp with
       | None => (m, NotConnected, [])
       | Some (_, c) => (m, fst (f c), snd (f c))
       end)
      (with_entry s (mk_key peer lp) (fun e => (s, fst (g e), snd (g e)))).
Proof.
  intros HK HR Hfg. unfold with_entry. pose proof (get_sim m s peer lp HR) as H.
  destruct (get_connection (m_conns m) peer lp) as [[i c]|]; [|rewrite H; sim_done].
  destruct H as (Hn & Hk & Hs). rewrite Hs, (Hfg c Hk). sim_done.
Qed.

Lemma avail_sim m s peer lp :
  KeysUnique m -> R m s -> sim (cm_recv_buffer_available_bytes m peer lp) (sp_avail s (mk_key peer lp)).
Proof.
  intros HK HR.
  exact (readonly_sim m s peer lp (fun c => (Ok (VNum (lenN (cn_buf c))), []))
           (fun e => (Ok (VNum (lenN (se_buf e))), [])) HK HR (fun c _ => eq_refl)).
Qed.

Lemma established_sim m s peer lp :
  KeysUnique m -> R m s -> sim (cm_is_connection_established m peer lp) (sp_established s (mk_key peer lp)).
Proof.
  intros HK HR.
  exact (readonly_sim m s peer lp (fun c => (Ok (VNum (b2n (cn_est c))), []))
           (fun e => (Ok (VNum (b2n (se_est e))), [])) HK HR (fun c _ => eq_refl)).
Qed.

Lemma update_credit_sim m s peer lp :
  KeysUnique m -> R m s -> sim (cm_update_credit m peer lp) (sp_update_credit s (mk_key peer lp)).
Proof.
  intros HK HR. unfold cm_update_credit, sp_update_credit, with_entry. pose proof (get_sim m s peer lp HR) as H.
  destruct (get_connection (m_conns m) peer lp) as [[i c]|]; [|rewrite H; sim_done].
  destruct H as (Hn & Hk & Hs). rewrite Hs. cbn [se_shut entry_of se_cr]. destruct (cn_shut c); [sim_done|].
  cbn [sim]. split; [reflexivity|]. split; [|auto]. rewrite packet_agree, Hk, (R_cid _ _ HR). reflexivity.
Qed.

Lemma shutdown_sim m s peer lp :
  KeysUnique m -> R m s -> sim (cm_shutdown m peer lp) (sp_shutdown s (mk_key peer lp)).
Proof.
  intros HK HR. unfold cm_shutdown, sp_shutdown, with_entry. pose proof (get_sim m s peer lp HR) as H.
  destruct (get_connection (m_conns m) peer lp) as [[i c]|]; [|rewrite H; sim_done].
  destruct H as (Hn & Hk & Hs). rewrite Hs. cbn [se_shut entry_of se_cr].
  cbn [sim]. split; [reflexivity|]. split; [|auto]. rewrite packet_agree, Hk, (R_cid _ _ HR). reflexivity.
Qed.

Lemma force_close_sim m s peer lp :
  KeysUnique m -> R m s -> sim (cm_force_close m peer lp) (sp_force_close s (mk_key peer lp)).
Proof.
  intros HK HR. unfold cm_force_close, sp_force_close, with_entry. pose proof (get_sim m s peer lp HR) as H.
  destruct (get_connection (m_conns m) peer lp) as [[i c]|]; [|rewrite H; sim_done].
  destruct H as (Hn & Hk & Hs). rewrite Hs. cbn [se_shut entry_of se_cr].
  destruct (R_swap m s i c (mk_key peer lp) HK HR Hn Hk) as [HR1 HK1].
  cbn [sim]. split; [reflexivity|]. split; [|auto]. rewrite packet_agree, Hk, (R_cid _ _ HR). reflexivity.
Qed.

Lemma listen_sim m s p :
  KeysUnique m -> R m s -> R (cm_listen m p) (sp_with_listen s (p :: sp_listen s)) /\ KeysUnique (cm_listen m p).
Proof.
  intros HK [H1 H2 H3 H4 H5]. unfold cm_listen. destruct (memN p (m_listen m)) eqn:E.
  - split; [|exact HK]. constructor; try assumption. intros q. cbn [sp_with_listen sp_listen].
    unfold memN at 2. cbn [existsb]. fold (memN q (sp_listen s)). rewrite <- H5.
    destruct (N.eqb_spec q p); [subst; now rewrite E|reflexivity].
  - split; [|exact HK]. constructor; try assumption. intros q. cbn [set_listen m_listen sp_with_listen sp_listen].
    rewrite memN_app. unfold memN at 2. cbn [existsb]. fold (memN q (sp_listen s)). rewrite <- H5.
    apply orb_comm.
Qed.

Lemma unlisten_sim m s p :
  KeysUnique m -> R m s ->
  R (cm_unlisten m p) (sp_with_listen s (filter (fun x => negb (x =? p)) (sp_listen s))) /\ KeysUnique (cm_unlisten m p).
Proof.
  intros HK [H1 H2 H3 H4 H5]. split; [|exact HK]. constructor; try assumption. intros q.
  cbn [cm_unlisten set_listen m_listen sp_with_listen sp_listen]. now rewrite !memN_filter, H5.
Qed.

(* ------------------------------------------------------------------------------------------------ *)
(* packets *)
Lemma efh_cases h :
  event_from_header h =
  if vh_op h =? 0 then inr (serr SE_InvalidOperation 0)
  else if 7 <? vh_op h then inr (serr SE_UnknownOperation (vh_op h))
  else if negb (vh_op h =? 5) && negb (vh_len h =? 0) then inr (serr SE_UnexpectedDataInPacket 0)
  else inl (mkEvent (mkAddr (vh_src_cid h) (vh_src_port h)) (mkAddr (vh_dst_cid h) (vh_dst_port h))
                    (vh_buf_alloc h) (vh_fwd_cnt h) (sp_etype (vh_op h) (vh_len h))).
Proof.
  unfold event_from_header, check_data_is_empty, sp_etype,
    VOP_REQUEST, VOP_RESPONSE, VOP_RST, VOP_SHUTDOWN, VOP_RW, VOP_CREDIT_UPDATE, VOP_CREDIT_REQUEST.
  remember (vh_op h) as op eqn:Hop. clear Hop.
  destruct (N.ltb_spec 7 op) as [H|H].
  - destruct (N.eqb_spec op 0); [lia|reflexivity].
  - assert (Hc : op = 0 \/ op = 1 \/ op = 2 \/ op = 3 \/ op = 4 \/ op = 5 \/ op = 6 \/ op = 7) by lia.
    destruct Hc as [->|[->|[->|[->|[->|[->|[->| ->]]]]]]]; cbn [N.eqb Pos.eqb negb andb];
      try reflexivity; destruct (vh_len h =? 0); reflexivity.
Qed.

Definition cm_on_event (m : cm) (ev : event) (body : list N) : result :=
  let '(m1, r) := cm_handler m ev body in
  match r with
  | Ok (Some ev') => cm_after m1 ev'
  | Ok None => (m1, Ok (VEvent None), [])
  | Err e => (m1, Err e, [])
  | Panic => (m1, Panic, [])
  | UB => (m1, UB, [])
  end.

Lemma nth_upd_same {A} (l : list A) i (c c' : A) : nth_error l i = Some c -> nth_error (upd l i c') i = Some c'.
Proof. intros H. apply nth_error_upd_eq. apply nth_error_Some. congruence. Qed.

(* phase 2 on a connection that phase 1 has just updated in place *)
Lemma after_found conns cid ev i c1 :
  a_cid (ev_dst ev) =? cid = true ->
  find_key (ev_key ev) conns = Some (i, c1) ->
  get_connection_for_event conns ev cid = Some (i, c1).
Proof. intros E F. now rewrite for_event_key, E. Qed.

Lemma on_event_sim m s ev body :
  KeysUnique m -> R m s -> sim (cm_on_event m ev body) (sp_on_packet s ev body).
Proof.
  intros HK HR. unfold cm_on_event, cm_handler, sp_on_packet. rewrite for_event_key.
  rewrite (R_cid _ _ HR). change (a_cid (ev_src ev), a_port (ev_src ev), a_port (ev_dst ev)) with (ev_key ev).
  destruct (a_cid (ev_dst ev) =? sp_cid s) eqn:Ecid; cbn [negb].
  2:{ destruct (ev_type ev); sim_done. }
  assert (Ecid' : a_cid (ev_dst ev) =? m_cid m = true) by now rewrite (R_cid _ _ HR).
  pose proof (find_key_spec (ev_key ev) (m_conns m)) as H.
  destruct (find_key (ev_key ev) (m_conns m)) as [[i c]|] eqn:F.
  - (* a known connection *)
    destruct H as (Hn & Hk & Hl). rewrite (R_tab _ _ HR) in Hl. rewrite Hl.
    set (cr1 := credit_update_for_event (ci_cr (cn_info c)) ev).
    assert (Hcr : forall b, ev_type ev <> EtCreditUpdate \/ b = true ->
                  (b = true -> ev_type ev = EtCreditUpdate) ->
                  cr1 = cr_from_packet (se_cr (entry_of c)) (ev_buf_alloc ev) (ev_fwd_cnt ev) b).
    { intros b Hb Hb'. unfold cr1, credit_update_for_event, cr_from_packet. cbn [se_cr entry_of]. f_equal.
      destruct b.
      - now rewrite (Hb' eq_refl).
      - destruct Hb as [Hb|Hb]; [|discriminate]. destruct (ev_type ev); try reflexivity. congruence. }
    assert (Hk1 : forall c', conn_key c' = conn_key c -> conn_key c' = ev_key ev) by (intros; congruence).
    destruct (ev_type ev) eqn:Et.
    + (* request for an existing key *)
      rewrite (Hcr false) in * by (try (left; discriminate); discriminate).
      set (c1 := set_cr c _).
      assert (F1 : find_key (ev_key ev) (upd (m_conns m) i c1) = Some (i, c1)) by (apply (find_key_upd _ _ _ c); auto).
      unfold cm_after. cbn [set_conns m_conns m_cid m_listen].
      rewrite (after_found (upd (m_conns m) i c1) (m_cid m) ev i c1 Ecid' F1), Et, (R_listen _ _ HR).
      destruct (memN (a_port (ev_dst ev)) (sp_listen s)).
      * rewrite upd_upd.
        destruct (R_upd m s i c (set_est c1) (ev_key ev) _ HK HR Hn Hk (Hk1 _ eq_refl) eq_refl) as [HR1 HK1].
        cbn [sim]. split; [reflexivity|]. split; [|split; assumption].
        rewrite packet_agree. change (conn_key c1) with (conn_key c). rewrite Hk, (R_cid _ _ HR). reflexivity.
      * destruct (R_swap_upd m s i c c1 (ev_key ev) HK HR Hn Hk (Hk1 _ eq_refl)) as [HR1 HK1].
        cbn [sim]. split; [reflexivity|]. split; [|split; assumption].
        rewrite packet_agree. change (conn_key c1) with (conn_key c). rewrite Hk, (R_cid _ _ HR). reflexivity.
    + (* response *)
      rewrite (Hcr false) in * by (try (left; discriminate); discriminate).
      set (c1 := set_cr c _).
      assert (F1 : find_key (ev_key ev) (upd (m_conns m) i c1) = Some (i, c1)) by (apply (find_key_upd _ _ _ c); auto).
      unfold cm_after. cbn [set_conns m_conns m_cid m_listen].
      rewrite (after_found (upd (m_conns m) i c1) (m_cid m) ev i c1 Ecid' F1), Et.
      rewrite upd_upd.
      destruct (R_upd m s i c (set_est c1) (ev_key ev) _ HK HR Hn Hk (Hk1 _ eq_refl) eq_refl) as [HR1 HK1].
      cbn [sim]. auto.
    + (* reset / shutdown from the peer *)
      rewrite (Hcr false) in * by (try (left; discriminate); discriminate).
      set (c1 := set_cr c _).
      assert (F1 : find_key (ev_key ev) (upd (m_conns m) i c1) = Some (i, c1)) by (apply (find_key_upd _ _ _ c); auto).
      unfold cm_after. cbn [set_conns m_conns m_cid m_listen].
      rewrite (after_found (upd (m_conns m) i c1) (m_cid m) ev i c1 Ecid' F1), Et.
      change (cn_buf c1) with (cn_buf c). change (se_buf (entry_of c)) with (cn_buf c).
      destruct (lenN (cn_buf c) =? 0).
      * destruct (R_swap_upd m s i c c1 (ev_key ev) HK HR Hn Hk (Hk1 _ eq_refl)) as [HR1 HK1].
        cbn [sim]. split; [reflexivity|]. split; [|split; assumption].
        destruct shutdown; [|reflexivity].
        rewrite packet_agree. change (conn_key c1) with (conn_key c). rewrite Hk, (R_cid _ _ HR). reflexivity.
      * rewrite upd_upd.
        destruct (R_upd m s i c (set_shut c1) (ev_key ev) _ HK HR Hn Hk (Hk1 _ eq_refl) eq_refl) as [HR1 HK1].
        cbn [sim]. auto.
    + (* data *)
      rewrite (Hcr false) in * by (try (left; discriminate); discriminate).
      set (c1 := set_cr c _).
      unfold rb_add. change (cn_buf c1) with (cn_buf c). change (se_buf (entry_of c)) with (cn_buf c).
      rewrite (R_cap _ _ HR).
      destruct (sp_cap s - lenN (cn_buf c) <? lenN body).
      * destruct (R_upd m s i c c1 (ev_key ev) _ HK HR Hn Hk (Hk1 _ eq_refl) eq_refl) as [HR1 HK1].
        cbn [sim]. auto.
      * set (c2 := set_buf c1 (cn_buf c ++ body)).
        assert (F1 : find_key (ev_key ev) (upd (m_conns m) i c2) = Some (i, c2)) by (apply (find_key_upd _ _ _ c); auto).
        unfold cm_after. cbn [set_conns m_conns m_cid m_listen].
        rewrite (after_found (upd (m_conns m) i c2) (m_cid m) ev i c2 Ecid' F1), Et.
        destruct (R_upd m s i c c2 (ev_key ev) _ HK HR Hn Hk (Hk1 _ eq_refl) eq_refl) as [HR1 HK1].
        cbn [sim]. auto.
    + (* credit request *)
      rewrite (Hcr false) in * by (try (left; discriminate); discriminate).
      set (c1 := set_cr c _).
      assert (F1 : find_key (ev_key ev) (upd (m_conns m) i c1) = Some (i, c1)) by (apply (find_key_upd _ _ _ c); auto).
      unfold cm_after. cbn [set_conns m_conns m_cid m_listen].
      rewrite (after_found (upd (m_conns m) i c1) (m_cid m) ev i c1 Ecid' F1), Et.
      destruct (R_upd m s i c c1 (ev_key ev) _ HK HR Hn Hk (Hk1 _ eq_refl) eq_refl) as [HR1 HK1].
      cbn [sim]. split; [reflexivity|]. split; [|split; assumption].
      rewrite packet_agree. change (conn_key c1) with (conn_key c). rewrite Hk, (R_cid _ _ HR). reflexivity.
    + (* credit update *)
      rewrite (Hcr true) in * by auto.
      set (c1 := set_cr c _).
      assert (F1 : find_key (ev_key ev) (upd (m_conns m) i c1) = Some (i, c1)) by (apply (find_key_upd _ _ _ c); auto).
      unfold cm_after. cbn [set_conns m_conns m_cid m_listen].
      rewrite (after_found (upd (m_conns m) i c1) (m_cid m) ev i c1 Ecid' F1), Et.
      destruct (R_upd m s i c c1 (ev_key ev) _ HK HR Hn Hk (Hk1 _ eq_refl) eq_refl) as [HR1 HK1].
      cbn [sim]. auto.
  - (* no such connection *)
    rewrite (R_tab _ _ HR) in H. rewrite H.
    destruct (ev_type ev) eqn:Et; try sim_done.
    set (c0 := conn_new (ev_src ev) (a_port (ev_dst ev)) (m_cap m)).
    rewrite upd_app_last.
    set (c1 := set_cr c0 _).
    assert (Hk1 : conn_key c1 = ev_key ev) by reflexivity.
    assert (Hl : clookup (ev_key ev) (m_conns m) = None) by now rewrite (R_tab _ _ HR).
    unfold cm_after. cbn [set_conns m_conns m_cid m_listen].
    rewrite (after_found (m_conns m ++ [c1]) (m_cid m) ev (length (m_conns m)) c1 Ecid'
               (find_key_app_last _ _ _ Hl Hk1)), Et, (R_listen _ _ HR).
    assert (Hcr : ci_cr (cn_info c1) = cr_from_packet (credit_new (sp_cap s)) (ev_buf_alloc ev) (ev_fwd_cnt ev) false).
    { unfold c1, c0, conn_new, set_cr, credit_update_for_event, cr_from_packet, credit_new.
      cbn [cn_info ci_cr cr_tx_cnt cr_buf_alloc cr_fwd_cnt cr_pending]. rewrite Et, (R_cap _ _ HR). reflexivity. }
    destruct (memN (a_port (ev_dst ev)) (sp_listen s)).
    + rewrite upd_app_last.
      destruct (R_push m s (set_est c1) (ev_key ev) (mkEntry true false [] (ci_cr (cn_info c1))) HK HR H eq_refl eq_refl)
        as [HR1 HK1].
      cbn [sim]. split; [reflexivity|]. rewrite <- Hcr. split; [|split; assumption].
      rewrite packet_agree, Hk1, (R_cid _ _ HR). reflexivity.
    + rewrite swap_remove_app_last.
      cbn [sim]. split; [reflexivity|]. rewrite <- Hcr. split.
      * rewrite packet_agree, Hk1, (R_cid _ _ HR). reflexivity.
      * split; [|exact HK]. destruct HR; constructor; assumption.
Qed.

Lemma poll_sim m s rx : KeysUnique m -> R m s -> sim (cm_poll m rx) (sp_poll s rx).
Proof.
  intros HK HR. unfold cm_poll, sp_poll. destruct rx as [[ulen bytes]|]; [|sim_done].
  rewrite (R_rxsz _ _ HR). destruct (sp_rxsz s <? ulen); [sim_done|].
  unfold cm_rx. destruct (read_header_and_body _) as [[h body]|e]; [|sim_done].
  unfold sp_rx. rewrite efh_cases.
  destruct (vh_op h =? 0); [sim_done|]. destruct (7 <? vh_op h); [sim_done|].
  destruct (negb (vh_op h =? 5) && negb (vh_len h =? 0)); [sim_done|].
  exact (on_event_sim m s _ body HK HR).
Qed.

(* ------------------------------------------------------------------------------------------------ *)
(* C18_refines: one step of the manager is one step of the abstract map, with the same result and the   *)
(* same packets, for every operation, every input and both profiles; unique keys are preserved.        *)
Theorem step_refines md m s o :
  KeysUnique m -> R m s -> sim (cm_step md m o) (sp_step md s o).
Proof.
  intros HK HR. destruct o; cbn [cm_step sp_step].
  - destruct (listen_sim m s p HK HR). sim_done.
  - destruct (unlisten_sim m s p HK HR). sim_done.
  - now apply connect_sim.
  - now apply send_sim.
  - now apply recv_sim.
  - now apply avail_sim.
  - now apply established_sim.
  - now apply update_credit_sim.
  - now apply shutdown_sim.
  - now apply force_close_sim.
  - rewrite (port_used_sim m s p HR). sim_done.
  - now apply poll_sim.
Qed.

Lemma KeysUnique_new cid cap rxsz : KeysUnique (cm_new cid cap rxsz).
Proof. constructor. Qed.
Lemma R_init cid cap rxsz : R (cm_new cid cap rxsz) (sp_new cid cap rxsz).
Proof. constructor; reflexivity. Qed.

(* ... hence for every history *)
Theorem run_refines md ops : forall m s,
  KeysUnique m -> R m s ->
  snd (cm_run md m ops) = snd (sp_run md s ops)
  /\ R (fst (cm_run md m ops)) (fst (sp_run md s ops))
  /\ KeysUnique (fst (cm_run md m ops)).
Proof.
  induction ops as [|o rest IH]; intros m s HK HR; cbn [cm_run sp_run]; [auto|].
  pose proof (step_refines md m s o HK HR) as H.
  destruct (cm_step md m o) as [[m1 r] tx]. destruct (sp_step md s o) as [[s1 r'] tx'].
  cbn [sim] in H. destruct H as (<- & <- & HR1 & HK1).
  specialize (IH m1 s1 HK1 HR1).
  destruct (cm_run md m1 rest) as [m2 outs]. destruct (sp_run md s1 rest) as [s2 outs'].
  cbn [fst snd] in *. destruct IH as (-> & HR2 & HK2). auto.
Qed.

Theorem history_refines md cid cap rxsz ops :
  snd (cm_run md (cm_new cid cap rxsz) ops) = snd (sp_run md (sp_new cid cap rxsz) ops)
  /\ R (fst (cm_run md (cm_new cid cap rxsz) ops)) (fst (sp_run md (sp_new cid cap rxsz) ops)).
Proof.
  destruct (run_refines md ops _ _ (KeysUnique_new cid cap rxsz) (R_init cid cap rxsz)) as (H1 & H2 & _). auto.
Qed.

(* C18_keys_unique: no two connections of the table ever have the same (peer cid, peer port, local port) *)
Theorem keys_unique md cid cap rxsz ops :
  NoDup (map conn_key (m_conns (fst (cm_run md (cm_new cid cap rxsz) ops)))).
Proof.
  destruct (run_refines md ops _ _ (KeysUnique_new cid cap rxsz) (R_init cid cap rxsz)) as (_ & _ & H). exact H.
Qed.

Lemma via_spec md m o m' r tx :
  KeysUnique m -> cm_step md m o = (m', r, tx) ->
  exists s', sp_step md (abs m) o = (s', r, tx) /\ R m' s' /\ KeysUnique m'.
Proof.
  intros HK H. pose proof (step_refines md m (abs m) o HK (R_abs m)) as Hs. rewrite H in Hs.
  destruct (sp_step md (abs m) o) as [[s' r'] tx']. cbn [sim] in Hs. destruct Hs as (-> & -> & HR & HK').
  eauto.
Qed.

(* ------------------------------------------------------------------------------------------------ *)
(* The clauses of the property, on the implementation model. `entry m k` is what the table holds for   *)
(* key k (None: no such connection).                                                                   *)
Definition entry (m : cm) (k : key) : option sentry := clookup k (m_conns m).

Lemma entry_abs m k : slookup k (sp_tab (abs m)) = entry m k.
Proof. apply slookup_abs. Qed.

(* rx carries a completed receive buffer whose framing is sound: header h, body `body` *)
Definition rx_is (m : cm) (rx : option (N * list N)) (h : vhdr) (body : list N) : Prop :=
  exists ulen bytes, rx = Some (ulen, bytes) /\ ulen <= m_rxsz m
                     /\ read_header_and_body (firstn (cntN ulen bytes) bytes) = inl (h, body).

(* one of the seven operations of the specification, data only with OP_RW *)
Definition well_formed (h : vhdr) : Prop := 1 <= vh_op h <= 7 /\ (vh_op h = 5 \/ vh_len h = 0).

Definition hdr_key (h : vhdr) : key := (vh_src_cid h, vh_src_port h, vh_dst_port h).
Definition hdr_event (h : vhdr) : event :=
  mkEvent (mkAddr (vh_src_cid h) (vh_src_port h)) (mkAddr (vh_dst_cid h) (vh_dst_port h))
          (vh_buf_alloc h) (vh_fwd_cnt h) (sp_etype (vh_op h) (vh_len h)).

Lemma sp_poll_rx m rx h body :
  rx_is m rx h body -> well_formed h -> sp_poll (abs m) rx = sp_on_packet (abs m) (hdr_event h) body.
Proof.
  intros (ulen & bytes & -> & Hl & Hr) [[H1 H2] H3]. unfold sp_poll. cbn [abs sp_rxsz].
  destruct (N.ltb_spec (m_rxsz m) ulen); [lia|]. rewrite Hr. unfold sp_rx.
  destruct (N.eqb_spec (vh_op h) 0); [lia|]. destruct (N.ltb_spec 7 (vh_op h)); [lia|].
  replace (negb (vh_op h =? 5) && negb (vh_len h =? 0)) with false; [reflexivity|].
  destruct H3 as [->| ->]; [reflexivity|]. now rewrite andb_false_r.
Qed.

Ltac spec_step HK H :=
  let s' := fresh "s'" in let Hs := fresh "Hs" in let HR' := fresh "HR'" in let HK' := fresh "HK'" in
  destruct (via_spec _ _ _ _ _ _ HK H) as (s' & Hs & HR' & HK'); cbn [sp_step] in Hs.

(* what no operation changes: the guest cid, the buffer capacity, the rx buffer size; and only listen /
   unlisten change the listening ports *)
Lemma poll_constants md m rx m' r tx :
  cm_step md m (OpPoll rx) = (m', r, tx) ->
  m_listen m' = m_listen m /\ m_cid m' = m_cid m /\ m_cap m' = m_cap m /\ m_rxsz m' = m_rxsz m.
Proof.
  intros H. cbn [cm_step] in H. unfold cm_poll in H. destruct rx as [[ulen bytes]|]; [|now inversion H].
  destruct (m_rxsz m <? ulen); [now inversion H|]. unfold cm_rx in H.
  destruct (read_header_and_body _) as [[h0 b0]|]; [|now inversion H].
  destruct (event_from_header h0) as [ev|]; [|now inversion H].
  unfold cm_handler in H.
  destruct (match get_connection_for_event (m_conns m) ev (m_cid m) with Some (i, c) => _ | None => _ end)
    as [[[conns1 i] c]|]; [|now inversion H].
  destruct (ev_type ev) eqn:Et; try destruct (rb_add _ _ _); try (now inversion H);
    unfold cm_after in H; cbn [m_conns set_conns m_cid m_listen] in H;
    destruct (get_connection_for_event _ ev (m_cid m)) as [[j d]|]; try (now inversion H);
    rewrite Et in H; repeat match type of H with context [if ?b then _ else _] => destruct b end;
    now inversion H.
Qed.

Lemma step_constants md m o m' r tx :
  cm_step md m o = (m', r, tx) ->
  m_cid m' = m_cid m /\ m_cap m' = m_cap m /\ m_rxsz m' = m_rxsz m
  /\ (match o with OpListen _ | OpUnlisten _ => True | _ => m_listen m' = m_listen m end).
Proof.
  intros H. destruct o; try (destruct (poll_constants md m rx m' r tx H) as (A & B & C & D); auto);
    cbn [cm_step] in H.
  - unfold cm_listen in H. destruct (memN p (m_listen m)); inversion H; auto.
  - inversion H; auto.
  - unfold cm_connect in H. destruct (existsb _ _); inversion H; auto.
  - unfold cm_send in H. destruct (get_connection _ _ _) as [[i c]|]; [|inversion H; auto].
    destruct (cn_shut c); [inversion H; auto|]. destruct (credit_peer_free _ _); [|inversion H; auto].
    destruct (_ <=? _); [destruct (credit_add_tx _ _ _); inversion H; auto|].
    destruct (cr_pending _); inversion H; auto.
  - unfold cm_recv in H. destruct (get_connection _ _ _) as [[i c]|]; [|inversion H; auto].
    destruct (credit_done_forwarding _ _ _); [|inversion H; auto]. destruct (_ && _); inversion H; auto.
  - unfold cm_recv_buffer_available_bytes in H. destruct (get_connection _ _ _) as [[i c]|]; inversion H; auto.
  - unfold cm_is_connection_established in H. destruct (get_connection _ _ _) as [[i c]|]; inversion H; auto.
  - unfold cm_update_credit in H. destruct (get_connection _ _ _) as [[i c]|]; [|inversion H; auto].
    destruct (cn_shut c); inversion H; auto.
  - unfold cm_shutdown in H. destruct (get_connection _ _ _) as [[i c]|]; inversion H; auto.
  - unfold cm_force_close in H. destruct (get_connection _ _ _) as [[i c]|]; inversion H; auto.
  - inversion H; auto.
Qed.

(* the packet the driver sends for connection k (peer cid, peer port, local port) *)
Definition packet_for (m : cm) (k : key) (op flags buf_alloc fwd_cnt : N) : pkt :=
  let '(pcid, pport, lport) := k in
  (mkHdr (m_cid m) pcid lport pport 0 VSOCK_TYPE_STREAM op flags buf_alloc fwd_cnt, []).

(* --- a connection request for this guest, no such connection yet --- *)
(* ... to a listening port: accepted (entry created, established, empty buffer), a RESPONSE goes out and
   the request is reported *)
Theorem request_listening md m rx h body m' r tx :
  KeysUnique m -> rx_is m rx h body ->
  vh_op h = VOP_REQUEST -> vh_len h = 0 -> vh_dst_cid h = m_cid m ->
  entry m (hdr_key h) = None -> memN (vh_dst_port h) (m_listen m) = true ->
  cm_step md m (OpPoll rx) = (m', r, tx) ->
  r = Ok (VEvent (Some (hdr_event h)))
  /\ tx = [packet_for m (hdr_key h) VOP_RESPONSE 0 (m_cap m) 0]
  /\ exists e, entry m' (hdr_key h) = Some e /\ se_est e = true /\ se_shut e = false /\ se_buf e = []
               /\ cr_buf_alloc (se_cr e) = m_cap m /\ cr_peer_buf_alloc (se_cr e) = vh_buf_alloc h
               /\ cr_peer_fwd_cnt (se_cr e) = vh_fwd_cnt h.
Proof.
  intros HK Hrx Hop Hlen Hcid He Hl H. spec_step HK H.
  rewrite (sp_poll_rx m rx h body Hrx) in Hs by (unfold well_formed, VOP_REQUEST in *; lia).
  unfold sp_on_packet in Hs. cbn [hdr_event ev_dst ev_src a_cid a_port ev_type ev_buf_alloc ev_fwd_cnt] in Hs.
  change (sp_cid (abs m)) with (m_cid m) in Hs. change (sp_listen (abs m)) with (m_listen m) in Hs.
  rewrite Hcid, N.eqb_refl in Hs. cbn [negb] in Hs.
  change (vh_src_cid h, vh_src_port h, vh_dst_port h) with (hdr_key h) in Hs.
  rewrite entry_abs, He, Hop, Hl in Hs. cbn [sp_etype N.eqb Pos.eqb VOP_REQUEST] in Hs.
  injection Hs as <- <- <-. split; [unfold hdr_event; now rewrite Hop|]. split; [reflexivity|].
  unfold entry. rewrite (R_tab _ _ HR'). cbn [sp_put sp_with_tab sp_tab]. rewrite slookup_sset, key_eqb_refl.
  eexists. split; [reflexivity|]. cbn. repeat split; reflexivity.
Qed.

(* ... to a port nobody listens on: a RST goes out, nothing is reported, and the table is exactly as before *)
Theorem request_not_listening md m rx h body m' r tx :
  KeysUnique m -> rx_is m rx h body ->
  vh_op h = VOP_REQUEST -> vh_len h = 0 -> vh_dst_cid h = m_cid m ->
  entry m (hdr_key h) = None -> memN (vh_dst_port h) (m_listen m) = false ->
  cm_step md m (OpPoll rx) = (m', r, tx) ->
  r = Ok (VEvent None)
  /\ tx = [packet_for m (hdr_key h) VOP_RST 0 (m_cap m) 0]
  /\ (forall k, entry m' k = entry m k) /\ m_listen m' = m_listen m.
Proof.
  intros HK Hrx Hop Hlen Hcid He Hl H.
  assert (Hlis : m_listen m' = m_listen m) by (apply (poll_constants md m rx m' r tx H)).
  spec_step HK H.
  rewrite (sp_poll_rx m rx h body Hrx) in Hs by (unfold well_formed, VOP_REQUEST in *; lia).
  unfold sp_on_packet in Hs. cbn [hdr_event ev_dst ev_src a_cid a_port ev_type ev_buf_alloc ev_fwd_cnt] in Hs.
  change (sp_cid (abs m)) with (m_cid m) in Hs. change (sp_listen (abs m)) with (m_listen m) in Hs.
  rewrite Hcid, N.eqb_refl in Hs. cbn [negb] in Hs.
  change (vh_src_cid h, vh_src_port h, vh_dst_port h) with (hdr_key h) in Hs.
  rewrite entry_abs, He, Hop, Hl in Hs. cbn [sp_etype N.eqb Pos.eqb VOP_REQUEST] in Hs.
  injection Hs as <- <- <-. split; [reflexivity|]. split; [reflexivity|]. split; [|exact Hlis].
  intros k. unfold entry. rewrite (R_tab _ _ HR'). apply entry_abs.
Qed.

Ltac packet_step Hs m rx h body Hrx Hwf Hcid :=
  rewrite (sp_poll_rx m rx h body Hrx Hwf) in Hs;
  unfold sp_on_packet in Hs; cbn [hdr_event ev_dst ev_src a_cid a_port ev_type ev_buf_alloc ev_fwd_cnt] in Hs;
  change (sp_cid (abs m)) with (m_cid m) in Hs; change (sp_listen (abs m)) with (m_listen m) in Hs;
  change (sp_cap (abs m)) with (m_cap m) in Hs;
  rewrite Hcid, N.eqb_refl in Hs; cbn [negb] in Hs;
  change (vh_src_cid h, vh_src_port h, vh_dst_port h) with (hdr_key h) in Hs;
  rewrite entry_abs in Hs.

Ltac entry_after HR' := unfold entry; rewrite (R_tab _ _ HR'); cbn [sp_put sp_del sp_with_tab sp_tab];
  rewrite ?slookup_sset, ?slookup_sremove, ?key_eqb_refl.

(* --- a connection request naming an EXISTING connection --- *)
Theorem request_known_connection md m rx h body e m' r tx :
  KeysUnique m -> rx_is m rx h body ->
  vh_op h = VOP_REQUEST -> vh_len h = 0 -> vh_dst_cid h = m_cid m ->
  entry m (hdr_key h) = Some e ->
  cm_step md m (OpPoll rx) = (m', r, tx) ->
  if memN (vh_dst_port h) (m_listen m) then
    r = Ok (VEvent (Some (hdr_event h)))
    /\ tx = [packet_for m (hdr_key h) VOP_RESPONSE 0 (cr_buf_alloc (se_cr e)) (cr_fwd_cnt (se_cr e))]
    /\ exists e', entry m' (hdr_key h) = Some e' /\ se_est e' = true /\ se_buf e' = se_buf e /\ se_shut e' = se_shut e
  else
    r = Ok (VEvent None)
    /\ tx = [packet_for m (hdr_key h) VOP_RST 0 (cr_buf_alloc (se_cr e)) (cr_fwd_cnt (se_cr e))]
    /\ entry m' (hdr_key h) = None.
Proof.
  intros HK Hrx Hop Hlen Hcid He H. spec_step HK H.
  assert (Hwf : well_formed h) by (unfold well_formed, VOP_REQUEST in *; lia).
  packet_step Hs m rx h body Hrx Hwf Hcid. rewrite He, Hop in Hs. cbn [sp_etype N.eqb Pos.eqb VOP_REQUEST] in Hs.
  destruct (memN (vh_dst_port h) (m_listen m)); injection Hs as <- <- <-.
  - split; [unfold hdr_event; now rewrite Hop|]. split; [reflexivity|].
    entry_after HR'. eexists. split; [reflexivity|]. cbn. repeat split; reflexivity.
  - split; [reflexivity|]. split; [reflexivity|]. entry_after HR'. reflexivity.
Qed.

(* --- packets that match no known connection (and are not a request for this guest), or that are addressed
   to another guest: no state is created, nothing is delivered, nothing is sent --- *)
Theorem unmatched_ignored md m rx h body m' r tx :
  KeysUnique m -> rx_is m rx h body -> well_formed h ->
  vh_dst_cid h <> m_cid m \/ (entry m (hdr_key h) = None /\ vh_op h <> VOP_REQUEST) ->
  cm_step md m (OpPoll rx) = (m', r, tx) ->
  r = Ok (VEvent None) /\ tx = [] /\ (forall k, entry m' k = entry m k) /\ m_listen m' = m_listen m.
Proof.
  intros HK Hrx Hwf Hc H.
  assert (Hlis : m_listen m' = m_listen m) by (apply (poll_constants md m rx m' r tx H)).
  spec_step HK H. rewrite (sp_poll_rx m rx h body Hrx Hwf) in Hs. unfold sp_on_packet in Hs.
  cbn [hdr_event ev_dst ev_src a_cid a_port ev_type] in Hs. change (sp_cid (abs m)) with (m_cid m) in Hs.
  assert (Hfin : forall s0, (s0, Ok (VEvent None), @nil pkt) = (s', r, tx) -> s0 = abs m ->
                 r = Ok (VEvent None) /\ tx = [] /\ (forall k, entry m' k = entry m k) /\ m_listen m' = m_listen m).
  { intros s0 E ->. injection E as <- <- <-. repeat split; auto. intros k. unfold entry.
    rewrite (R_tab _ _ HR'). apply entry_abs. }
  destruct (N.eqb_spec (vh_dst_cid h) (m_cid m)) as [Ec|Ec]; cbn [negb] in Hs; [|eapply Hfin; eauto].
  destruct Hc as [Hc|[He Hop]]; [contradiction|].
  change (vh_src_cid h, vh_src_port h, vh_dst_port h) with (hdr_key h) in Hs. rewrite entry_abs, He in Hs.
  destruct (sp_etype (vh_op h) (vh_len h)) eqn:Et; try (eapply Hfin; eauto).
  exfalso. unfold sp_etype in Et. destruct (N.eqb_spec (vh_op h) 1); [contradiction|].
  repeat match type of Et with (if ?b then _ else _) = _ => destruct b end; discriminate.
Qed.

(* --- invalid or unknown operations, short or inconsistent lengths, an oversized used length: an error is
   returned, no state changes, nothing is sent --- *)
Theorem malformed_rejected md m ulen bytes m' r tx :
  KeysUnique m ->
  (m_rxsz m < ulen
   \/ (exists e, read_header_and_body (firstn (cntN ulen bytes) bytes) = inr e)
   \/ (exists h body, read_header_and_body (firstn (cntN ulen bytes) bytes) = inl (h, body) /\ ~ well_formed h)) ->
  cm_step md m (OpPoll (Some (ulen, bytes))) = (m', r, tx) ->
  (exists e, r = Err e) /\ tx = [] /\ (forall k, entry m' k = entry m k) /\ m_listen m' = m_listen m.
Proof.
  intros HK Hc H.
  assert (Hlis : m_listen m' = m_listen m) by (apply (poll_constants md m _ m' r tx H)).
  spec_step HK H. unfold sp_poll in Hs. change (sp_rxsz (abs m)) with (m_rxsz m) in Hs.
  assert (Hfin : forall s0 e, (s0, @Err rval e, @nil pkt) = (s', r, tx) -> s0 = abs m ->
                 (exists e, r = Err e) /\ tx = [] /\ (forall k, entry m' k = entry m k) /\ m_listen m' = m_listen m).
  { intros s0 e E ->. injection E as <- <- <-. repeat split; eauto. intros k. unfold entry.
    rewrite (R_tab _ _ HR'). apply entry_abs. }
  destruct (N.ltb_spec (m_rxsz m) ulen) as [Hl|Hl]; [eapply Hfin; eauto|].
  destruct Hc as [Hc|[(e & Hc)|(h & body & Hc & Hwf)]]; [lia| |]; rewrite Hc in Hs; [eapply Hfin; eauto|].
  unfold sp_rx in Hs.
  destruct (N.eqb_spec (vh_op h) 0); [eapply Hfin; eauto|].
  destruct (N.ltb_spec 7 (vh_op h)); [eapply Hfin; eauto|].
  destruct (N.eqb_spec (vh_op h) 5) as [E5|E5]; cbn [negb andb] in Hs.
  - exfalso. apply Hwf. unfold well_formed. lia.
  - destruct (N.eqb_spec (vh_len h) 0) as [E0|E0]; cbn [negb] in Hs; [|eapply Hfin; eauto].
    exfalso. apply Hwf. unfold well_formed. lia.
Qed.

(* --- local operations --- *)
Theorem connect_exists md m peer lp e m' r tx :
  KeysUnique m -> entry m (mk_key peer lp) = Some e ->
  cm_step md m (OpConnect peer lp) = (m', r, tx) ->
  m' = m /\ r = Err (serr SE_ConnectionExists 0) /\ tx = [].
Proof.
  intros HK He H. cbn [cm_step] in H. unfold cm_connect in H. rewrite existsb_clookup in H.
  unfold entry in He. rewrite He in H. now inversion H.
Qed.

Theorem connect_fresh md m peer lp m' r tx :
  KeysUnique m -> entry m (mk_key peer lp) = None ->
  cm_step md m (OpConnect peer lp) = (m', r, tx) ->
  r = Ok VUnit /\ tx = [packet_for m (mk_key peer lp) VOP_REQUEST 0 (m_cap m) 0]
  /\ entry m' (mk_key peer lp) = Some (entry_new (m_cap m)).
Proof.
  intros HK He H. spec_step HK H. unfold sp_connect in Hs. rewrite entry_abs, He in Hs.
  injection Hs as <- <- <-. split; [reflexivity|]. split; [reflexivity|]. entry_after HR'. reflexivity.
Qed.

(* every operation that names a connection fails with NotConnected, without any effect, when there is none *)
Definition names_connection (o : cop) : bool :=
  match o with
  | OpSend _ _ _ | OpRecv _ _ _ | OpAvail _ _ | OpEstablished _ _ | OpUpdateCredit _ _ | OpShutdown _ _
  | OpForceClose _ _ => true
  | _ => false
  end.

Theorem missing_not_connected md m o k m' r tx :
  names_connection o = true -> op_key (m_cid m) o = Some k -> entry m k = None ->
  cm_step md m o = (m', r, tx) ->
  m' = m /\ r = Err (serr SE_NotConnected 0) /\ tx = [].
Proof.
  intros Hn Hk He H. unfold entry in He.
  destruct o; try discriminate; cbn [op_key] in Hk; injection Hk as <-; cbn [cm_step] in H;
    pose proof (find_key_spec (mk_key peer lp) (m_conns m)) as F; rewrite <- get_connection_key in F.
  - unfold cm_send in H. destruct (get_connection _ _ _) as [[i c]|]; [destruct F as (_ & _ & F); congruence|].
    now inversion H.
  - unfold cm_recv in H. destruct (get_connection _ _ _) as [[i c]|]; [destruct F as (_ & _ & F); congruence|].
    now inversion H.
  - unfold cm_recv_buffer_available_bytes in H.
    destruct (get_connection _ _ _) as [[i c]|]; [destruct F as (_ & _ & F); congruence|]. now inversion H.
  - unfold cm_is_connection_established in H.
    destruct (get_connection _ _ _) as [[i c]|]; [destruct F as (_ & _ & F); congruence|]. now inversion H.
  - unfold cm_update_credit in H.
    destruct (get_connection _ _ _) as [[i c]|]; [destruct F as (_ & _ & F); congruence|]. now inversion H.
  - unfold cm_shutdown in H.
    destruct (get_connection _ _ _) as [[i c]|]; [destruct F as (_ & _ & F); congruence|]. now inversion H.
  - unfold cm_force_close in H.
    destruct (get_connection _ _ _) as [[i c]|]; [destruct F as (_ & _ & F); congruence|]. now inversion H.
Qed.

(* --- the peer closes: OP_SHUTDOWN (4) or OP_RST (3) on a known connection --- *)
(* with an empty buffer the connection is removed at once (a shutdown is answered with a RST); with data still
   buffered the entry stays, its data untouched, marked as shut down by the peer *)
Theorem peer_shutdown md m rx h body e m' r tx :
  KeysUnique m -> rx_is m rx h body ->
  vh_op h = VOP_SHUTDOWN \/ vh_op h = VOP_RST -> vh_len h = 0 -> vh_dst_cid h = m_cid m ->
  entry m (hdr_key h) = Some e ->
  cm_step md m (OpPoll rx) = (m', r, tx) ->
  r = Ok (VEvent (Some (hdr_event h)))
  /\ if lenN (se_buf e) =? 0 then
       entry m' (hdr_key h) = None
       /\ tx = (if vh_op h =? VOP_SHUTDOWN
                then [packet_for m (hdr_key h) VOP_RST 0 (cr_buf_alloc (se_cr e)) (cr_fwd_cnt (se_cr e))] else [])
     else
       tx = []
       /\ exists e', entry m' (hdr_key h) = Some e' /\ se_buf e' = se_buf e /\ se_shut e' = true /\ se_est e' = se_est e.
Proof.
  intros HK Hrx Hop Hlen Hcid He H. spec_step HK H.
  assert (Hwf : well_formed h) by (unfold well_formed, VOP_SHUTDOWN, VOP_RST in *; lia).
  packet_step Hs m rx h body Hrx Hwf Hcid. rewrite He in Hs.
  destruct Hop as [Hop|Hop]; rewrite Hop in Hs; cbn [sp_etype N.eqb Pos.eqb VOP_SHUTDOWN VOP_RST] in Hs;
    (split; [destruct (lenN (se_buf e) =? 0); injection Hs as <- <- <-; unfold hdr_event; now rewrite Hop|]);
    rewrite Hop; cbn [N.eqb Pos.eqb VOP_SHUTDOWN VOP_RST];
    destruct (lenN (se_buf e) =? 0); injection Hs as <- <- <-.
  - split; [entry_after HR'; reflexivity|reflexivity].
  - split; [reflexivity|]. entry_after HR'. eexists. split; [reflexivity|]. cbn. repeat split; reflexivity.
  - split; [entry_after HR'; reflexivity|reflexivity].
  - split; [reflexivity|]. entry_after HR'. eexists. split; [reflexivity|]. cbn. repeat split; reflexivity.
Qed.

(* --- recv: the oldest bytes, in order; after a peer shutdown the data is still readable and the connection
   is closed with a RST (and removed) exactly when the buffer has been drained --- *)
Theorem recv_spec md m peer lp n e cr' m' r tx :
  KeysUnique m -> entry m (mk_key peer lp) = Some e ->
  credit_done_forwarding md (se_cr e) (lenN (firstn (cntN n (se_buf e)) (se_buf e))) = Some cr' ->
  cm_step md m (OpRecv peer lp n) = (m', r, tx) ->
  r = Ok (VBytes (firstn (cntN n (se_buf e)) (se_buf e)))
  /\ if se_shut e && (lenN (skipn (cntN n (se_buf e)) (se_buf e)) =? 0) then
       tx = [packet_for m (mk_key peer lp) VOP_RST 0 (cr_buf_alloc cr') (cr_fwd_cnt cr')]
       /\ entry m' (mk_key peer lp) = None
     else
       tx = []
       /\ entry m' (mk_key peer lp)
          = Some (mkEntry (se_est e) (se_shut e) (skipn (cntN n (se_buf e)) (se_buf e)) cr').
Proof.
  intros HK He Hcr H. spec_step HK H. unfold sp_recv, with_entry in Hs. rewrite entry_abs, He, Hcr in Hs.
  destruct (se_shut e && _); injection Hs as <- <- <-; (split; [reflexivity|]).
  - split; [reflexivity|]. entry_after HR'. reflexivity.
  - split; [reflexivity|]. entry_after HR'. reflexivity.
Qed.

(* in the release profile (wrapping counters) the hypothesis on the counter always holds *)
Lemma done_forwarding_release cr n : exists cr', credit_done_forwarding Release cr n = Some cr'.
Proof. unfold credit_done_forwarding, plus32. eauto. Qed.

(* --- data: appended to the buffer of the connection it names, or refused as a whole --- *)
Theorem data_delivered md m rx h body e m' r tx :
  KeysUnique m -> rx_is m rx h body ->
  vh_op h = VOP_RW -> vh_dst_cid h = m_cid m -> entry m (hdr_key h) = Some e ->
  cm_step md m (OpPoll rx) = (m', r, tx) ->
  tx = []
  /\ exists e', entry m' (hdr_key h) = Some e' /\ se_est e' = se_est e /\ se_shut e' = se_shut e
     /\ if m_cap m - lenN (se_buf e) <? lenN body
        then r = Err (serr SE_OutputBufferTooShort (vh_len h)) /\ se_buf e' = se_buf e
        else r = Ok (VEvent (Some (hdr_event h))) /\ se_buf e' = se_buf e ++ body.
Proof.
  intros HK Hrx Hop Hcid He H. spec_step HK H.
  assert (Hwf : well_formed h) by (unfold well_formed, VOP_RW in *; lia).
  packet_step Hs m rx h body Hrx Hwf Hcid. rewrite He, Hop in Hs. cbn [sp_etype N.eqb Pos.eqb VOP_RW] in Hs.
  destruct (m_cap m - lenN (se_buf e) <? lenN body); injection Hs as <- <- <-; (split; [reflexivity|]);
    entry_after HR'; eexists; (split; [reflexivity|]); cbn; repeat split; try reflexivity;
    unfold hdr_event; now rewrite Hop.
Qed.

(* --- credit update / credit request: only the named connection's view of the peer changes; a request is
   answered with a credit update and not reported --- *)
Theorem credit_packets md m rx h body e m' r tx :
  KeysUnique m -> rx_is m rx h body ->
  vh_op h = VOP_CREDIT_UPDATE \/ vh_op h = VOP_CREDIT_REQUEST -> vh_len h = 0 -> vh_dst_cid h = m_cid m ->
  entry m (hdr_key h) = Some e ->
  cm_step md m (OpPoll rx) = (m', r, tx) ->
  (if vh_op h =? VOP_CREDIT_UPDATE then r = Ok (VEvent (Some (hdr_event h))) /\ tx = []
   else r = Ok (VEvent None)
        /\ tx = [packet_for m (hdr_key h) VOP_CREDIT_UPDATE 0 (cr_buf_alloc (se_cr e)) (cr_fwd_cnt (se_cr e))])
  /\ exists e', entry m' (hdr_key h) = Some e' /\ se_est e' = se_est e /\ se_shut e' = se_shut e
                /\ se_buf e' = se_buf e /\ cr_peer_buf_alloc (se_cr e') = vh_buf_alloc h
                /\ cr_peer_fwd_cnt (se_cr e') = vh_fwd_cnt h.
Proof.
  intros HK Hrx Hop Hlen Hcid He H. spec_step HK H.
  assert (Hwf : well_formed h) by (unfold well_formed, VOP_CREDIT_UPDATE, VOP_CREDIT_REQUEST in *; lia).
  packet_step Hs m rx h body Hrx Hwf Hcid. rewrite He in Hs.
  destruct Hop as [Hop|Hop]; rewrite Hop in Hs |- *;
    cbn [sp_etype N.eqb Pos.eqb VOP_CREDIT_UPDATE VOP_CREDIT_REQUEST] in Hs |- *; injection Hs as <- <- <-.
  - split; [split; [unfold hdr_event; now rewrite Hop|reflexivity]|].
    entry_after HR'. eexists. split; [reflexivity|]. cbn. repeat split; reflexivity.
  - split; [split; reflexivity|].
    entry_after HR'. eexists. split; [reflexivity|]. cbn. repeat split; reflexivity.
Qed.

(* --- force_close / shutdown / update_credit / send on an existing connection --- *)
Theorem force_close_spec md m peer lp e m' r tx :
  KeysUnique m -> entry m (mk_key peer lp) = Some e ->
  cm_step md m (OpForceClose peer lp) = (m', r, tx) ->
  r = Ok VUnit /\ tx = [packet_for m (mk_key peer lp) VOP_RST 0 (cr_buf_alloc (se_cr e)) (cr_fwd_cnt (se_cr e))]
  /\ entry m' (mk_key peer lp) = None.
Proof.
  intros HK He H. spec_step HK H. unfold sp_force_close, with_entry in Hs. rewrite entry_abs, He in Hs.
  injection Hs as <- <- <-. split; [reflexivity|]. split; [reflexivity|]. entry_after HR'. reflexivity.
Qed.

Theorem shutdown_spec md m peer lp e m' r tx :
  KeysUnique m -> entry m (mk_key peer lp) = Some e ->
  cm_step md m (OpShutdown peer lp) = (m', r, tx) ->
  r = Ok VUnit /\ tx = [packet_for m (mk_key peer lp) VOP_SHUTDOWN 3 (cr_buf_alloc (se_cr e)) (cr_fwd_cnt (se_cr e))]
  /\ entry m' (mk_key peer lp) = Some e.
Proof.
  intros HK He H. spec_step HK H. unfold sp_shutdown, with_entry in Hs. rewrite entry_abs, He in Hs.
  injection Hs as <- <- <-. split; [reflexivity|]. split; [reflexivity|].
  unfold entry. rewrite (R_tab _ _ HR'), entry_abs. exact He.
Qed.

(* ------------------------------------------------------------------------------------------------ *)
(* FRAME / ISOLATION: whatever an operation or packet does, it does to the one key it names             *)
Lemma sp_frame md s o s' r tx :
  sp_step md s o = (s', r, tx) ->
  forall k', op_key (sp_cid s) o <> Some k' -> slookup k' (sp_tab s') = slookup k' (sp_tab s).
Proof.
  intros H k' Hk.
  assert (Hput : forall k e, Some k <> Some k' -> slookup k' (sp_tab (sp_put s k e)) = slookup k' (sp_tab s)).
  { intros k e Hne. cbn [sp_put sp_with_tab sp_tab]. rewrite slookup_sset.
    destruct (key_eqb_spec k k'); [congruence|reflexivity]. }
  assert (Hdel : forall k, Some k <> Some k' -> slookup k' (sp_tab (sp_del s k)) = slookup k' (sp_tab s)).
  { intros k Hne. cbn [sp_del sp_with_tab sp_tab]. rewrite slookup_sremove.
    destruct (key_eqb_spec k k'); [congruence|reflexivity]. }
  destruct o; cbn [sp_step op_key] in *;
    try (unfold sp_connect, sp_send, sp_recv, sp_avail, sp_established, sp_update_credit, sp_shutdown,
           sp_force_close, with_entry in H;
         repeat match type of H with
                | context [match ?x with _ => _ end] => destruct x
                end; injection H as <- <- <-; auto).
  (* poll *)
  unfold sp_poll in H. destruct rx as [[ulen bytes]|]; [|now injection H as <- <- <-].
  destruct (sp_rxsz s <? ulen); [now injection H as <- <- <-|].
  destruct (read_header_and_body _) as [[h body]|]; [|now injection H as <- <- <-].
  unfold sp_rx in H.
  destruct (vh_op h =? 0); [now injection H as <- <- <-|]. destruct (7 <? vh_op h); [now injection H as <- <- <-|].
  destruct (_ && _); [now injection H as <- <- <-|].
  unfold sp_on_packet in H. cbn [ev_dst ev_src a_cid a_port ev_type ev_buf_alloc ev_fwd_cnt] in H.
  destruct (vh_dst_cid h =? sp_cid s); cbn [negb] in H; [|now injection H as <- <- <-].
  repeat match type of H with
         | context [match ?x with _ => _ end] => destruct x
         end; injection H as <- <- <-; auto.
Qed.

Theorem isolation md m o m' r tx :
  KeysUnique m -> cm_step md m o = (m', r, tx) ->
  forall k', op_key (m_cid m) o <> Some k' -> entry m' k' = entry m k'.
Proof.
  intros HK H k' Hk. destruct (via_spec _ _ _ _ _ _ HK H) as (s' & Hs & HR' & _).
  unfold entry. rewrite (R_tab _ _ HR'), (sp_frame md _ _ _ _ _ Hs k' Hk). apply entry_abs.
Qed.

(* listen / unlisten / an empty poll touch no connection at all; no other operation changes the listening
   ports; nothing changes the constants *)
Theorem isolation_listen md m o m' r tx :
  KeysUnique m -> cm_step md m o = (m', r, tx) ->
  match o with
  | OpListen p => (forall k, entry m' k = entry m k) /\ (forall q, memN q (m_listen m') = memN q (m_listen m) || (q =? p))
  | OpUnlisten p => (forall k, entry m' k = entry m k)
                    /\ (forall q, memN q (m_listen m') = memN q (m_listen m) && negb (q =? p))
  | OpPoll None | OpPortUsed _ => m' = m
  | _ => m_listen m' = m_listen m
  end.
Proof.
  intros HK H. pose proof (step_constants md m o m' r tx H) as (_ & _ & _ & Hl).
  pose proof H as H0. destruct o; try exact Hl; cbn [cm_step] in H.
  - split; [intros k; apply (isolation md m _ m' r tx HK H0 k); discriminate|].
    injection H as <- _ _. intros q. unfold cm_listen. destruct (memN p (m_listen m)) eqn:E.
    + destruct (N.eqb_spec q p); [subst; now rewrite E|now rewrite orb_false_r].
    + cbn [set_listen m_listen]. apply memN_app.
  - split; [intros k; apply (isolation md m _ m' r tx HK H0 k); discriminate|].
    injection H as <- _ _. intros q. cbn [cm_unlisten set_listen m_listen]. apply memN_filter.
  - now injection H as <- _ _.
  - destruct rx; [exact Hl|]. now injection H as <- _ _.
Qed.

(* ------------------------------------------------------------------------------------------------ *)
(* every received packet, whatever its outcome, returns its receive buffer to the device               *)
Lemma owning_pop_some q bufsz u_idx u_id u_len len token q1 evs :
  owning_pop q bufsz u_idx u_id u_len = (Ok (Some (len, token)), q1, evs) ->
  len = w32 u_len /\ token = w16 u_id /\ q_last_used q <> w16 u_idx.
Proof.
  unfold owning_pop, peek_used, can_pop. destruct (N.eqb_spec (q_last_used q) (w16 u_idx)) as [E|E]; cbn [negb].
  - discriminate.
  - destruct (q_size q <=? w16 u_id); [discriminate|].
    unfold pop_used, can_pop. destruct (N.eqb_spec (q_last_used q) (w16 u_idx)); [contradiction|]. cbn [negb].
    rewrite N.eqb_refl. cbn [negb].
    destruct (recycle q (w16 u_id) _) as [[o s1] evs1]. destruct o; try discriminate.
    destruct (q_event_idx s1); intros H; injection H as <- <- _ _; auto.
Qed.

(* VirtIOSocket::poll over the OwningQueue model, for EVERY handler (any function of the driver state and the
   delivered length: it may succeed, fail, or ignore the packet) and EVERY device behaviour on a queue that is
   stocked: the queue side is exactly OwningQueue::poll's; with nothing pending nothing happens; with a
   completion pending under a valid token the buffer is back in the queue afterwards (fully stocked again,
   C19_poll_stocked) and the caller gets the handler's verdict, or IoError for an oversized used length *)
Theorem rx_buffer_returned {S T : Type} q chains hist bufsz u_idx u_id u_len addr ae uf
    (st : S) (handler : S -> N -> S * outcome T) (nothing : T) st' r q' evs :
  Reach q chains hist -> Stocked q chains bufsz -> bufsz <> 0 -> bufsz < two32 ->
  vsock_rx_poll q bufsz u_idx u_id u_len addr ae uf st handler nothing = (st', r, q', evs) ->
  (exists o, owning_poll q bufsz u_idx u_id u_len addr ae uf 0 = (o, q', evs))
  /\ (q_last_used q = w16 u_idx -> st' = st /\ r = Ok nothing /\ q' = q /\ evs = [])
  /\ (q_last_used q <> w16 u_idx -> w16 u_id < q_size q ->
      (exists chains' hist', Reach q' chains' hist' /\ Stocked q' chains' bufsz)
      /\ (st', r) = if bufsz <? w32 u_len then (st, Err EIoError) else handler st (w32 u_len)).
Proof.
  intros HR Hst Hb0 Hb32 H.
  destruct (owning_poll q bufsz u_idx u_id u_len addr ae uf 0) as [[o0 q0] evs0] eqn:Ho.
  destruct (poll_stocked q chains hist bufsz u_idx u_id u_len addr ae uf 0 o0 q0 evs0 HR Hst Hb0 Hb32 Ho)
    as (PA & PB & PC).
  unfold vsock_rx_poll in H. unfold owning_poll in Ho.
  destruct (owning_pop q bufsz u_idx u_id u_len) as [[o q1] evs1] eqn:Hpop.
  (* in every case but a delivered completion the queue side is owning_pop's, and the three facts about
     owning_poll decide which case we are in *)
  assert (Hcases : q_last_used q = w16 u_idx \/ (q_last_used q <> w16 u_idx /\ q_size q <= w16 u_id)
                   \/ (q_last_used q <> w16 u_idx /\ w16 u_id < q_size q)).
  { destruct (N.eq_dec (q_last_used q) (w16 u_idx)); [now left|]. right.
    destruct (N.lt_ge_cases (w16 u_id) (q_size q)); [right|left]; split; assumption. }
  destruct o as [[[len token]|]|e| |].
  - destruct (owning_pop_some _ _ _ _ _ _ _ _ _ Hpop) as (-> & -> & Hcp).
    destruct (owning_readd q1 bufsz (w16 u_id) addr ae uf) as [[o2 q2] evs2] eqn:Hre.
    destruct (if bufsz <? w32 u_len then (st, Err EIoError) else handler st (w32 u_len)) as [st1 res] eqn:Hh.
    assert (Eq : q0 = q2 /\ evs0 = map OQ evs1 ++ evs2) by (destruct o2; inversion Ho; auto).
    destruct Eq as [-> ->]. injection H as <- <- <- <-.
    split; [eexists; reflexivity|]. split; [intros E; contradiction|]. intros _ Htok.
    destruct (PC Hcp Htok) as (Eo & _ & Hs). split; [exact Hs|].
    destruct o2 as [u|e| |]; inversion Ho as [Ho0]; clear Ho.
    + reflexivity.
    + rewrite <- Ho0 in Eo. destruct (bufsz <? w32 u_len); [|discriminate Eo].
      injection Eo as ->. injection Hh as <- <-. reflexivity.
    + rewrite <- Ho0 in Eo. destruct (bufsz <? w32 u_len); discriminate Eo.
    + rewrite <- Ho0 in Eo. destruct (bufsz <? w32 u_len); discriminate Eo.
  - inversion Ho; subst o0 q0 evs0. injection H as <- <- <- <-.
    split; [eexists; reflexivity|].
    destruct Hcases as [E|[[E1 E2]|[E1 E2]]].
    + destruct (PA E) as (_ & -> & Ee). rewrite Ee. split; [auto|]. intros E'; contradiction.
    + destruct (PB E1 E2) as (Ex & _). discriminate Ex.
    + destruct (PC E1 E2) as (Ex & _). destruct (bufsz <? w32 u_len); discriminate Ex.
  - inversion Ho; subst o0 q0 evs0. injection H as <- <- <- <-.
    split; [eexists; reflexivity|].
    destruct Hcases as [E|[[E1 E2]|[E1 E2]]].
    + destruct (PA E) as (Ex & _). discriminate Ex.
    + split; [intros E; contradiction|]. intros _ Htok. lia.
    + split; [intros E; contradiction|]. intros _ _.
      destruct (PC E1 E2) as (Ex & _ & Hs). split; [exact Hs|].
      destruct (bufsz <? w32 u_len); [|discriminate Ex]. injection Ex as ->. reflexivity.
  - inversion Ho; subst o0 q0 evs0. exfalso.
    destruct Hcases as [E|[[E1 E2]|[E1 E2]]].
    + destruct (PA E) as (Ex & _). discriminate Ex.
    + destruct (PB E1 E2) as (Ex & _). discriminate Ex.
    + destruct (PC E1 E2) as (Ex & _). destruct (bufsz <? w32 u_len); discriminate Ex.
  - inversion Ho; subst o0 q0 evs0. exfalso.
    destruct Hcases as [E|[[E1 E2]|[E1 E2]]].
    + destruct (PA E) as (Ex & _). discriminate Ex.
    + destruct (PB E1 E2) as (Ex & _). discriminate Ex.
    + destruct (PC E1 E2) as (Ex & _). destruct (bufsz <? w32 u_len); discriminate Ex.
Qed.

(* the connection manager's packet handler as such a handler: state = (manager, packets sent so far) *)
Definition cm_rx_handler (bytes : list N) (st : cm * list pkt) (len : N) : (cm * list pkt) * outcome rval :=
  let '(m', r, tx) := cm_rx (fst st) (firstn (cntN len bytes) bytes) in ((m', snd st ++ tx), r).

(* poll of the manager = that composition: whatever the packet (accepted, ignored, refused, malformed,
   oversized), the buffer is back and the queue fully stocked, and the manager's result is cm_poll's *)
Theorem poll_returns_buffer q chains hist u_idx u_id u_len addr ae uf m bytes m' tx r q' evs :
  Reach q chains hist -> Stocked q chains (m_rxsz m) -> m_rxsz m <> 0 -> m_rxsz m < two32 ->
  q_last_used q <> w16 u_idx -> w16 u_id < q_size q ->
  vsock_rx_poll q (m_rxsz m) u_idx u_id u_len addr ae uf (m, []) (cm_rx_handler bytes) (VEvent None)
    = ((m', tx), r, q', evs) ->
  cm_poll m (Some (w32 u_len, bytes)) = (m', r, tx)
  /\ exists chains' hist', Reach q' chains' hist' /\ Stocked q' chains' (m_rxsz m).
Proof.
  intros HR Hst Hb0 Hb32 Hp Htok H.
  destruct (rx_buffer_returned _ _ _ _ _ _ _ _ _ _ _ _ _ _ _ _ _ HR Hst Hb0 Hb32 H) as (_ & _ & H3).
  destruct (H3 Hp Htok) as (Hs & Hr). split; [|exact Hs].
  unfold cm_poll. destruct (m_rxsz m <? w32 u_len).
  - now injection Hr as <- <- <-.
  - unfold cm_rx_handler in Hr. cbn [fst snd app] in Hr.
    destruct (cm_rx m (firstn (cntN (w32 u_len) bytes) bytes)) as [[m1 r1] tx1]. now injection Hr as <- <- <-.
Qed.

(* poll never panics (capacity 0, where `% 0` would, does not arise in this model: the ring buffer is abstract) *)
Theorem poll_no_panic md m rx m' r tx :
  KeysUnique m -> cm_step md m (OpPoll rx) = (m', r, tx) -> r <> Panic /\ r <> UB.
Proof.
  intros HK H. destruct (via_spec _ _ _ _ _ _ HK H) as (s' & Hs & _ & _). cbn [sp_step] in Hs.
  unfold sp_poll in Hs. destruct rx as [[ulen bytes]|]; [|injection Hs as _ <- _; split; discriminate].
  destruct (sp_rxsz (abs m) <? ulen); [injection Hs as _ <- _; split; discriminate|].
  destruct (read_header_and_body _) as [[h body]|]; [|injection Hs as _ <- _; split; discriminate].
  unfold sp_rx in Hs.
  destruct (vh_op h =? 0); [injection Hs as _ <- _; split; discriminate|].
  destruct (7 <? vh_op h); [injection Hs as _ <- _; split; discriminate|].
  destruct (_ && _); [injection Hs as _ <- _; split; discriminate|].
  unfold sp_on_packet in Hs.
  repeat match type of Hs with
         | context [match ?x with _ => _ end] => destruct x
         end; injection Hs as _ <- _; split; discriminate.
Qed.

(* ------------------------------------------------------------------------------------------------ *)
(* the wire format: decoding an encoded header gives the header back (fields within their widths)     *)
Lemma le_value_bytes k v : v < 256 ^ N.of_nat k -> le_value (le_bytes k v) = v.
Proof.
  revert v. induction k as [|k IH]; intros v Hv.
  - cbn in *. lia.
  - cbn [le_bytes le_value]. rewrite IH.
    + pose proof (N.div_mod v 256). lia.
    + rewrite Nat2N.inj_succ, N.pow_succ_r' in Hv. apply N.div_lt_upper_bound; lia.
Qed.

Lemma le_enc_length k v : length (le_bytes k v) = k.
Proof. revert v. induction k; intros v; cbn; auto. Qed.

Definition hdr_in_range (h : vhdr) : Prop :=
  vh_src_cid h < two64 /\ vh_dst_cid h < two64 /\ vh_src_port h < two32 /\ vh_dst_port h < two32
  /\ vh_len h < two32 /\ vh_type h < two16 /\ vh_op h < two16 /\ vh_flags h < two32
  /\ vh_buf_alloc h < two32 /\ vh_fwd_cnt h < two32.

Theorem decode_encode_hdr h tail : hdr_in_range h -> decode_hdr (encode_hdr h ++ tail) = h.
Proof.
  intros (H1 & H2 & H3 & H4 & H5 & H6 & H7 & H8 & H9 & H10). destruct h as [a b c d e f g i j k].
  cbn [vh_src_cid vh_dst_cid vh_src_port vh_dst_port vh_len vh_type vh_op vh_flags vh_buf_alloc vh_fwd_cnt] in *.
  unfold decode_hdr, encode_hdr, le_field.
  cbn [vh_src_cid vh_dst_cid vh_src_port vh_dst_port vh_len vh_type vh_op vh_flags vh_buf_alloc vh_fwd_cnt].
  cbn [le_bytes app skipn firstn].
  f_equal.
  - change (le_value (le_bytes 8 a) = a). apply le_value_bytes. exact H1.
  - change (le_value (le_bytes 8 b) = b). apply le_value_bytes. exact H2.
  - change (le_value (le_bytes 4 c) = c). apply le_value_bytes. exact H3.
  - change (le_value (le_bytes 4 d) = d). apply le_value_bytes. exact H4.
  - change (le_value (le_bytes 4 e) = e). apply le_value_bytes. exact H5.
  - change (le_value (le_bytes 2 f) = f). apply le_value_bytes. exact H6.
  - change (le_value (le_bytes 2 g) = g). apply le_value_bytes. exact H7.
  - change (le_value (le_bytes 4 i) = i). apply le_value_bytes. exact H8.
  - change (le_value (le_bytes 4 j) = j). apply le_value_bytes. exact H9.
  - change (le_value (le_bytes 4 k) = k). apply le_value_bytes. exact H10.
Qed.

(* ------------------------------------------------------------------------------------------------ *)
(* Non-vacuity: concrete reachable states and packets satisfying the hypotheses of every theorem above *)
Definition ex_rx (h : vhdr) (payload : list N) : option (N * list N) :=
  Some (44 + lenN payload, encode_hdr h ++ payload).
(* guest cid 3, per-connection capacity 8, rx buffers of 64 bytes; peer (2, 1000) *)
Definition ex_hdr (op sport dport len : N) : vhdr := mkHdr 2 3 sport dport len 1 op 0 50 7.
Definition ex_peer : vaddr := mkAddr 2 1000.
(* listening on 80; an accepted connection (2,1000)->80 holding the bytes 1 2 3; an outgoing one to (2,1000) from 55 *)
Definition ex_ops : list cop :=
  [OpListen 80; OpPoll (ex_rx (ex_hdr VOP_REQUEST 1000 80 0) []); OpPoll (ex_rx (ex_hdr VOP_RW 1000 80 3) [1; 2; 3]);
   OpConnect ex_peer 55].
Definition ex_m : cm := fst (cm_run Debug (cm_new 3 8 64) ex_ops).

Lemma ex_m_unique : KeysUnique ex_m.
Proof. apply (keys_unique Debug 3 8 64 ex_ops). Qed.

Lemma ex_rx_is m h payload :
  hdr_in_range h -> vh_len h = lenN payload -> 44 + lenN payload <= m_rxsz m ->
  rx_is m (ex_rx h payload) h payload.
Proof.
  intros Hr Hl Hs. exists (44 + lenN payload), (encode_hdr h ++ payload). split; [reflexivity|]. split; [exact Hs|].
  assert (Hlen : length (encode_hdr h) = 44%nat).
  { unfold encode_hdr. rewrite !app_length, !le_enc_length. reflexivity. }
  assert (Hc : cntN (44 + lenN payload) (encode_hdr h ++ payload) = length (encode_hdr h ++ payload)).
  { unfold cntN, lenN. rewrite app_length, Hlen. lia. }
  rewrite Hc, firstn_all. unfold read_header_and_body.
  assert (HL : lenN (encode_hdr h ++ payload) = 44 + lenN payload).
  { unfold lenN. rewrite app_length, Hlen. lia. }
  rewrite HL, (decode_encode_hdr h payload Hr). unfold HDR_SIZE.
  destruct (N.ltb_spec (44 + lenN payload) 44); [lia|].
  destruct (N.ltb_spec (44 + lenN payload) (44 + vh_len h)); [lia|].
  replace (skipn 44 (encode_hdr h ++ payload)) with payload.
  - rewrite Hl. unfold cntN. rewrite N.min_id. unfold lenN. rewrite Nat2N.id, firstn_all. reflexivity.
  - rewrite <- Hlen, skipn_app, skipn_all, Nat.sub_diag. reflexivity.
Qed.

Ltac ex_range := unfold hdr_in_range; vm_compute; repeat split; reflexivity.

Example step_refines_nonvacuous : KeysUnique ex_m /\ R ex_m (abs ex_m).
Proof. split; [apply ex_m_unique|apply R_abs]. Qed.

Example request_listening_nonvacuous :
  let h := ex_hdr VOP_REQUEST 1001 80 0 in
  KeysUnique ex_m /\ rx_is ex_m (ex_rx h []) h [] /\ vh_op h = VOP_REQUEST /\ vh_len h = 0 /\ vh_dst_cid h = m_cid ex_m
  /\ entry ex_m (hdr_key h) = None /\ memN (vh_dst_port h) (m_listen ex_m) = true.
Proof.
  cbv zeta. split; [apply ex_m_unique|]. split; [apply ex_rx_is; [ex_range|reflexivity|vm_compute; discriminate]|].
  vm_compute. auto.
Qed.

Example request_not_listening_nonvacuous :
  let h := ex_hdr VOP_REQUEST 1001 81 0 in
  KeysUnique ex_m /\ rx_is ex_m (ex_rx h []) h [] /\ vh_op h = VOP_REQUEST /\ vh_len h = 0 /\ vh_dst_cid h = m_cid ex_m
  /\ entry ex_m (hdr_key h) = None /\ memN (vh_dst_port h) (m_listen ex_m) = false.
Proof.
  cbv zeta. split; [apply ex_m_unique|]. split; [apply ex_rx_is; [ex_range|reflexivity|vm_compute; discriminate]|].
  vm_compute. auto.
Qed.

(* a request naming the outgoing connection from port 55, on which nobody listens: it is reset *)
Example request_known_connection_nonvacuous :
  let h := ex_hdr VOP_REQUEST 1000 55 0 in
  KeysUnique ex_m /\ rx_is ex_m (ex_rx h []) h [] /\ vh_op h = VOP_REQUEST /\ vh_len h = 0 /\ vh_dst_cid h = m_cid ex_m
  /\ entry ex_m (hdr_key h) = Some (entry_new 8) /\ memN (vh_dst_port h) (m_listen ex_m) = false.
Proof.
  cbv zeta. split; [apply ex_m_unique|]. split; [apply ex_rx_is; [ex_range|reflexivity|vm_compute; discriminate]|].
  vm_compute. auto.
Qed.

(* data for a connection nobody knows; and data for a known one but addressed to another guest *)
Example unmatched_ignored_nonvacuous :
  let h1 := ex_hdr VOP_RW 1234 80 2 in
  let h2 := mkHdr 2 9 1000 80 2 1 VOP_RW 0 50 7 in
  KeysUnique ex_m /\ rx_is ex_m (ex_rx h1 [5; 6]) h1 [5; 6] /\ well_formed h1
  /\ entry ex_m (hdr_key h1) = None /\ vh_op h1 <> VOP_REQUEST
  /\ rx_is ex_m (ex_rx h2 [5; 6]) h2 [5; 6] /\ well_formed h2 /\ vh_dst_cid h2 <> m_cid ex_m.
Proof.
  cbv zeta. split; [apply ex_m_unique|]. split; [apply ex_rx_is; [ex_range|reflexivity|vm_compute; discriminate]|].
  split; [unfold well_formed, ex_hdr, VOP_RW; cbn [vh_op vh_len]; lia|]. split; [vm_compute; reflexivity|]. split; [discriminate|].
  split; [apply ex_rx_is; [ex_range|reflexivity|vm_compute; discriminate]|].
  split; [unfold well_formed, ex_hdr, VOP_RW; cbn [vh_op vh_len]; lia|]. vm_compute. discriminate.
Qed.

(* an unknown operation code, OP_INVALID, a short buffer, an oversized used length *)
Example malformed_rejected_nonvacuous :
  (exists h body, read_header_and_body (firstn (cntN 44 (encode_hdr (ex_hdr 9 1000 80 0))) (encode_hdr (ex_hdr 9 1000 80 0)))
                  = inl (h, body) /\ ~ well_formed h)
  /\ (exists h body, read_header_and_body (firstn (cntN 44 (encode_hdr (ex_hdr 0 1000 80 0))) (encode_hdr (ex_hdr 0 1000 80 0)))
                  = inl (h, body) /\ ~ well_formed h)
  /\ (exists e, read_header_and_body (firstn (cntN 43 (encode_hdr (ex_hdr 1 1000 80 0))) (encode_hdr (ex_hdr 1 1000 80 0))) = inr e)
  /\ m_rxsz ex_m < 65.
Proof.
  split; [do 2 eexists; split; [vm_compute; reflexivity|unfold well_formed, ex_hdr, VOP_RW; cbn [vh_op vh_len]; lia]|].
  split; [do 2 eexists; split; [vm_compute; reflexivity|unfold well_formed, ex_hdr, VOP_RW; cbn [vh_op vh_len]; lia]|].
  split; [eexists; vm_compute; reflexivity|]. vm_compute. reflexivity.
Qed.

Example connect_exists_nonvacuous : entry ex_m (mk_key ex_peer 55) = Some (entry_new 8).
Proof. vm_compute. reflexivity. Qed.
Example connect_fresh_nonvacuous : entry ex_m (mk_key ex_peer 56) = None.
Proof. vm_compute. reflexivity. Qed.
Example missing_not_connected_nonvacuous :
  names_connection (OpRecv ex_peer 56 4) = true /\ op_key (m_cid ex_m) (OpRecv ex_peer 56 4) = Some (mk_key ex_peer 56)
  /\ entry ex_m (mk_key ex_peer 56) = None.
Proof. vm_compute. auto. Qed.

(* peer shutdown while 3 bytes are buffered *)
Example peer_shutdown_nonvacuous :
  let h := ex_hdr VOP_SHUTDOWN 1000 80 0 in
  KeysUnique ex_m /\ rx_is ex_m (ex_rx h []) h [] /\ vh_len h = 0 /\ vh_dst_cid h = m_cid ex_m
  /\ exists e, entry ex_m (hdr_key h) = Some e /\ se_buf e = [1; 2; 3].
Proof.
  cbv zeta. split; [apply ex_m_unique|]. split; [apply ex_rx_is; [ex_range|reflexivity|vm_compute; discriminate]|].
  split; [reflexivity|]. split; [reflexivity|]. eexists. vm_compute. split; reflexivity.
Qed.

(* ... then the data is read in two steps: first 2 bytes (entry stays), then the rest (RST, entry removed) *)
Definition ex_m_shut : cm := fst (cm_run Debug ex_m [OpPoll (ex_rx (ex_hdr VOP_SHUTDOWN 1000 80 0) [])]).
Example recv_spec_nonvacuous :
  exists e cr1 m1 r1 tx1 e1 cr2 m2 r2 tx2,
    KeysUnique ex_m_shut /\ entry ex_m_shut (mk_key ex_peer 80) = Some e /\ se_shut e = true /\ se_buf e = [1; 2; 3]
    /\ credit_done_forwarding Debug (se_cr e) (lenN (firstn (cntN 2 (se_buf e)) (se_buf e))) = Some cr1
    /\ cm_step Debug ex_m_shut (OpRecv ex_peer 80 2) = (m1, r1, tx1)
    /\ r1 = Ok (VBytes [1; 2]) /\ tx1 = [] /\ entry m1 (mk_key ex_peer 80) = Some e1 /\ se_buf e1 = [3]
    /\ credit_done_forwarding Debug (se_cr e1) (lenN (firstn (cntN 9 (se_buf e1)) (se_buf e1))) = Some cr2
    /\ cm_step Debug m1 (OpRecv ex_peer 80 9) = (m2, r2, tx2)
    /\ r2 = Ok (VBytes [3]) /\ entry m2 (mk_key ex_peer 80) = None
    /\ tx2 = [packet_for m1 (mk_key ex_peer 80) VOP_RST 0 8 3].
Proof.
  do 10 eexists. split; [apply (keys_unique Debug 3 8 64 (ex_ops ++ [OpPoll (ex_rx (ex_hdr VOP_SHUTDOWN 1000 80 0) [])]))|].
  vm_compute. repeat split; reflexivity.
Qed.

Example data_delivered_nonvacuous :
  let h := ex_hdr VOP_RW 1000 80 6 in
  KeysUnique ex_m /\ rx_is ex_m (ex_rx h [4; 5; 6; 7; 8; 9]) h [4; 5; 6; 7; 8; 9] /\ vh_op h = VOP_RW
  /\ vh_dst_cid h = m_cid ex_m /\ exists e, entry ex_m (hdr_key h) = Some e.
Proof.
  cbv zeta. split; [apply ex_m_unique|]. split; [apply ex_rx_is; [ex_range|reflexivity|vm_compute; discriminate]|].
  split; [reflexivity|]. split; [reflexivity|]. eexists. vm_compute. reflexivity.
Qed.

Example credit_packets_nonvacuous :
  let h := ex_hdr VOP_CREDIT_REQUEST 1000 80 0 in
  KeysUnique ex_m /\ rx_is ex_m (ex_rx h []) h [] /\ vh_len h = 0 /\ vh_dst_cid h = m_cid ex_m
  /\ exists e, entry ex_m (hdr_key h) = Some e.
Proof.
  cbv zeta. split; [apply ex_m_unique|]. split; [apply ex_rx_is; [ex_range|reflexivity|vm_compute; discriminate]|].
  split; [reflexivity|]. split; [reflexivity|]. eexists. vm_compute. reflexivity.
Qed.

(* isolation: a force_close of the outgoing connection leaves the accepted one (buffer and counters) as it was *)
Example isolation_nonvacuous :
  exists m' r tx e,
    KeysUnique ex_m /\ cm_step Debug ex_m (OpForceClose ex_peer 55) = (m', r, tx)
    /\ op_key (m_cid ex_m) (OpForceClose ex_peer 55) <> Some (mk_key ex_peer 80)
    /\ entry ex_m (mk_key ex_peer 80) = Some e /\ se_buf e = [1; 2; 3] /\ entry m' (mk_key ex_peer 80) = Some e
    /\ entry m' (mk_key ex_peer 55) = None.
Proof.
  do 4 eexists. split; [apply ex_m_unique|]. split; [vm_compute; reflexivity|]. split; [discriminate|].
  vm_compute. repeat split; reflexivity.
Qed.

(* the rx queue: a stocked queue of two 64-byte buffers, a completion pending *)
Example rx_buffer_returned_nonvacuous :
  exists q evs chains, owning_new_loop [100; 200] 0 64 (qnew 2 false false) = (Ok tt, q, evs)
    /\ Reach q chains evs /\ Stocked q chains 64 /\ q_last_used q <> w16 1 /\ w16 0 < q_size q.
Proof.
  destruct (owning_new_stocked 1 false false 64 [100; 200] 0) as (q & evs & chains & Hrun & HR & Hst);
    try (vm_compute; congruence); try reflexivity.
  exists q, evs, chains. split; [exact Hrun|]. split; [exact HR|]. split; [exact Hst|].
  vm_compute in Hrun. injection Hrun as <- _. vm_compute. split; [discriminate|reflexivity].
Qed.

(* a whole history through the real step function: listen, accept, data, shutdown with data buffered, drain *)
Example shutdown_history :
  snd (cm_run Debug (cm_new 3 8 64)
         [OpListen 80;
          OpPoll (ex_rx (ex_hdr VOP_REQUEST 1000 81 0) []);           (* nobody listens on 81: RST, not reported *)
          OpPoll (ex_rx (ex_hdr VOP_REQUEST 1000 80 0) []);           (* accepted *)
          OpPoll (ex_rx (ex_hdr VOP_RW 1000 80 3) [1; 2; 3]);
          OpPoll (ex_rx (ex_hdr VOP_RW 1001 80 1) [9]);               (* no such connection: ignored *)
          OpPoll (ex_rx (ex_hdr VOP_SHUTDOWN 1000 80 0) []);          (* data still buffered *)
          OpSend ex_peer 80 [7];                                      (* refused: the peer has shut down *)
          OpRecv ex_peer 80 2;
          OpRecv ex_peer 80 9;                                        (* drained: RST, removed *)
          OpRecv ex_peer 80 9])
  = [(Ok VUnit, []);
     (Ok (VEvent None), [(mkHdr 3 2 81 1000 0 1 VOP_RST 0 8 0, [])]);
     (Ok (VEvent (Some (mkEvent (mkAddr 2 1000) (mkAddr 3 80) 50 7 EtRequest))), [(mkHdr 3 2 80 1000 0 1 VOP_RESPONSE 0 8 0, [])]);
     (Ok (VEvent (Some (mkEvent (mkAddr 2 1000) (mkAddr 3 80) 50 7 (EtReceived 3)))), []);
     (Ok (VEvent None), []);
     (Ok (VEvent (Some (mkEvent (mkAddr 2 1000) (mkAddr 3 80) 50 7 (EtDisconnected true)))), []);
     (Err (serr SE_PeerSocketShutdown 0), []);
     (Ok (VBytes [1; 2]), []);
     (Ok (VBytes [3]), [(mkHdr 3 2 80 1000 0 1 VOP_RST 0 8 3, [])]);
     (Err (serr SE_NotConnected 0), [])].
Proof. vm_compute. reflexivity. Qed.

(* ================================================================================================ *)
(* TRANSMISSIONS THAT FAIL                                                                          *)
(* ================================================================================================ *)
Definition tx_ok_in (ti : txin) : Prop := tx_err (fst ti) = None /\ tx_err (snd ti) = None.

Lemma tx_ok_err t : tx_err t = None -> t = TxOk.
Proof. destruct t; [reflexivity|discriminate|discriminate]. Qed.

Lemma tx_try_ok ti p : tx_ok_in ti -> tx_try ti p = (None, [p]).
Proof.
  intros [H1 H2]. unfold tx_try, tx_pick. destruct (lenN (snd p) =? 0).
  - rewrite (tx_ok_err _ H1). reflexivity.
  - rewrite (tx_ok_err _ H2). reflexivity.
Qed.

Lemma tx_try_cases ti p :
  (tx_err (tx_pick ti (snd p)) = None /\ tx_try ti p = (None, [p]))
  \/ (exists e, tx_err (tx_pick ti (snd p)) = Some e /\ tx_try ti p = (Some e, tx_seen (tx_pick ti (snd p)) p)).
Proof.
  unfold tx_try. destruct (tx_pick ti (snd p)) as [|e|e]; cbn [tx_err tx_seen]; [left; auto|right; eauto|right; eauto].
Qed.

(* the success paths are the old functions *)
Lemma cm_after_tx_ok ti m ev : tx_ok_in ti -> cm_after_tx ti m ev = cm_after m ev.
Proof.
  intros H. unfold cm_after_tx, cm_after. destruct (get_connection_for_event _ _ _) as [[i c]|]; [|reflexivity].
  destruct (ev_type ev) as [| |sh| | |]; rewrite ?tx_try_ok by exact H; try reflexivity.
  destruct (lenN (cn_buf c) =? 0); [|reflexivity]. destruct sh; rewrite ?tx_try_ok by exact H; reflexivity.
Qed.

Theorem cm_step_tx_ok md m o ti : tx_ok_in ti -> cm_step_tx md m o ti = cm_step md m o.
Proof.
  intros H. destruct o; cbn [cm_step_tx cm_step]; try reflexivity.
  - unfold cm_connect_tx, cm_connect. destruct (existsb _ _); [reflexivity|]. cbv zeta. now rewrite tx_try_ok by exact H.
  - unfold cm_send_tx, cm_send. destruct (get_connection _ _ _) as [[i c]|]; [|reflexivity].
    destruct (cn_shut c); [reflexivity|]. cbv zeta. destruct (credit_peer_free _ _); [|reflexivity].
    destruct (_ <=? _).
    + destruct (credit_add_tx _ _ _); [|reflexivity]. now rewrite tx_try_ok by exact H.
    + destruct (cr_pending _); [reflexivity|]. now rewrite tx_try_ok by exact H.
  - unfold cm_recv_tx, cm_recv. destruct (get_connection _ _ _) as [[i c]|]; [|reflexivity]. cbv zeta.
    destruct (credit_done_forwarding _ _ _); [|reflexivity]. destruct (_ && _); [|reflexivity].
    now rewrite tx_try_ok by exact H.
  - unfold cm_update_credit_tx, cm_update_credit. destruct (get_connection _ _ _) as [[i c]|]; [|reflexivity].
    destruct (cn_shut c); [reflexivity|]. now rewrite tx_try_ok by exact H.
  - unfold cm_shutdown_tx, cm_shutdown. destruct (get_connection _ _ _) as [[i c]|]; [|reflexivity].
    now rewrite tx_try_ok by exact H.
  - unfold cm_force_close_tx, cm_force_close. destruct (get_connection _ _ _) as [[i c]|]; [|reflexivity].
    now rewrite tx_try_ok by exact H.
  - unfold cm_poll_tx, cm_poll. destruct rx as [[ulen bytes]|]; [|reflexivity]. destruct (_ <? _); [reflexivity|].
    unfold cm_rx_tx, cm_rx. destruct (read_header_and_body _) as [[h body]|]; [|reflexivity].
    destruct (event_from_header h); [|reflexivity]. destruct (cm_handler m e body) as [m1 r].
    destruct r as [[ev'|]| | |]; try reflexivity. now apply cm_after_tx_ok.
Qed.

Theorem sp_step_tx_ok md s o ti : tx_ok_in ti -> sp_step_tx md s o ti = sp_step md s o.
Proof.
  intros [H1 H2]. unfold sp_step_tx. destruct (sp_step md s o) as [[s' r] tx]. destruct tx as [|p rest]; [reflexivity|].
  unfold tx_pick. destruct (lenN (snd p) =? 0); [rewrite H1|rewrite H2]; reflexivity.
Qed.

(* ------------------------------------------------------------------------------------------------ *)
(* the abstract side of "this step's transmission fails", and the four points at which the code as it *)
(* stands does not do what sp_step_tx asks for (Theorems *_refuted below)                              *)
Definition tx_fails_at (md : mode) (s : spec) (o : cop) (ti : txin) : bool :=
  match sp_step md s o with
  | (_, _, p :: _) => match tx_err (tx_pick ti (snd p)) with Some _ => true | None => false end
  | _ => false
  end.

(* a packet for this guest: a request for a connection that does not exist, or the shutdown of a drained one *)
Definition ev_open (s : spec) (ev : event) : bool :=
  (a_cid (ev_dst ev) =? sp_cid s)
  && match slookup (ev_key ev) (sp_tab s), ev_type ev with
     | None, EtRequest => true
     | Some e, EtDisconnected true => lenN (se_buf e) =? 0
     | _, _ => false
     end.

Definition tx_open_point (md : mode) (s : spec) (o : cop) : bool :=
  match o with
  | OpSend _ _ _ => match sp_step md s o with (_, Ok _, _ :: _) => true | _ => false end   (* a data packet *)
  | OpRecv _ _ _ => match sp_step md s o with (_, _, _ :: _) => true | _ => false end      (* the closing RST *)
  | OpPoll (Some (ulen, bytes)) =>
      if sp_rxsz s <? ulen then false
      else
        match read_header_and_body (firstn (cntN ulen bytes) bytes) with
        | inl (h, _) => ev_open s (hdr_event h)
        | inr _ => false
        end
  | _ => false
  end.

(* WHAT THE CODE DOES at the open points, as an abstract rule (the other failures as in sp_step_tx): the data packet's
   bytes are counted as sent; the bytes drained by recv are gone and the connection stays; the connection pushed
   for a new request stays, not established; a drained connection that the peer shuts down just stays *)
Definition sp_packet_failed_code (s : spec) (ev : event) : spec :=
  let k : key := ev_key ev in
  if negb (a_cid (ev_dst ev) =? sp_cid s) then s
  else
    match slookup k (sp_tab s) with
    | None =>
        match ev_type ev with
        | EtRequest => sp_put s k (mkEntry false false [] (cr_from_packet (credit_new (sp_cap s)) (ev_buf_alloc ev) (ev_fwd_cnt ev) false))
        | _ => s
        end
    | Some e => sp_put s k (se_with_cr e (cr_from_packet (se_cr e) (ev_buf_alloc ev) (ev_fwd_cnt ev) false))
    end.

Definition sp_code_fail (md : mode) (s : spec) (o : cop) : spec :=
  match o with
  | OpSend _ _ _ => match sp_step md s o with (s', Ok _, _) => s' | _ => s end
  | OpRecv peer lp n =>
      match slookup (mk_key peer lp) (sp_tab s) with
      | Some e =>
          let cnt := cntN n (se_buf e) in
          match credit_done_forwarding md (se_cr e) (lenN (firstn cnt (se_buf e))) with
          | Some cr' => sp_put s (mk_key peer lp) (se_with_cr (se_with_buf e (skipn cnt (se_buf e))) cr')
          | None => s
          end
      | None => s
      end
  | OpPoll (Some (ulen, bytes)) =>
      match read_header_and_body (firstn (cntN ulen bytes) bytes) with
      | inl (h, _) => sp_packet_failed_code s (hdr_event h)
      | inr _ => s
      end
  | _ => s
  end.

(* code = false: the specification; code = true: the code as it stands *)
Definition sp_fail_state (code : bool) (md : mode) (s : spec) (o : cop) : spec :=
  if code then sp_code_fail md s o else match o with OpPoll rx => sp_poll_failed s rx | _ => s end.

Definition sp_step_txg (code : bool) (md : mode) (s : spec) (o : cop) (ti : txin) : sresult :=
  let '(s', r, tx) := sp_step md s o in
  match tx with
  | [] => (s', r, tx)
  | p :: _ =>
      let t := tx_pick ti (snd p) in
      match tx_err t with
      | None => (s', r, tx)
      | Some e => (sp_fail_state code md s o, Err e, tx_seen t p)
      end
  end.

Lemma sp_step_txg_spec md s o ti : sp_step_txg false md s o ti = sp_step_tx md s o ti.
Proof. reflexivity. Qed.

Ltac sim_fail := cbn [sim]; split; [reflexivity|]; split; [reflexivity|]; split; assumption.

Lemma connect_tx_sim code md m s peer lp ti :
  KeysUnique m -> R m s -> sim (cm_connect_tx ti m peer lp) (sp_step_txg code md s (OpConnect peer lp) ti).
Proof.
  intros HK HR. unfold sp_step_txg, sp_fail_state, sp_code_fail. cbn [sp_step]. unfold cm_connect_tx, sp_connect.
  rewrite existsb_clookup, (R_tab _ _ HR).
  destruct (slookup (mk_key peer lp) (sp_tab s)) eqn:E; [sim_done|]. cbv zeta.
  assert (Hp : (new_header (cn_info (conn_new peer lp (m_cap m))) (m_cid m) VOP_REQUEST 0 0, @nil N)
               = sp_packet (sp_cid s) (mk_key peer lp) (se_cr (entry_new (sp_cap s))) VOP_REQUEST 0 0 []).
  { rewrite packet_agree, (R_cid _ _ HR), (R_cap _ _ HR). reflexivity. }
  rewrite Hp. set (p := sp_packet _ _ _ _ _ _ _).
  destruct (tx_try_cases ti p) as [[He Ht]|(e & He & Ht)]; rewrite Ht, He.
  - destruct (R_push m s (conn_new peer lp (m_cap m)) (mk_key peer lp) (entry_new (sp_cap s)) HK HR E eq_refl)
      as [HR1 HK1]; [now rewrite <- (R_cap _ _ HR)|]. sim_fail.
  - destruct code; sim_fail.
Qed.

Lemma send_tx_sim code md m s peer lp data ti :
  KeysUnique m -> R m s ->
  (code = false -> tx_fails_at md s (OpSend peer lp data) ti && tx_open_point md s (OpSend peer lp data) = false) ->
  sim (cm_send_tx md ti m peer lp data) (sp_step_txg code md s (OpSend peer lp data) ti).
Proof.
  intros HK HR Hop. unfold sp_step_txg, sp_fail_state, sp_code_fail, tx_fails_at, tx_open_point in *. cbn [sp_step] in *.
  unfold cm_send_tx, sp_send, with_entry in *. pose proof (get_sim m s peer lp HR) as H.
  destruct (get_connection (m_conns m) peer lp) as [[i c]|]; [|rewrite H in *; sim_done].
  destruct H as (Hn & Hk & Hs). rewrite Hs in *. cbn [se_shut entry_of se_cr] in *.
  destruct (cn_shut c); [sim_done|]. cbv zeta.
  destruct (credit_peer_free md (ci_cr (cn_info c))) as [pf|]; [|sim_done].
  destruct (lenN data <=? pf).
  - destruct (credit_add_tx md (ci_cr (cn_info c)) (w32 (lenN data))) as [cr'|]; [|sim_done].
    rewrite packet_agree, Hk, (R_cid _ _ HR). set (p := sp_packet _ _ _ _ _ _ _) in *.
    destruct (R_upd m s i c (set_cr c cr') (mk_key peer lp) (se_with_cr (entry_of c) cr') HK HR Hn Hk Hk eq_refl)
      as [HR1 HK1].
    destruct (tx_try_cases ti p) as [[He Ht]|(e & He & Ht)]; rewrite Ht; rewrite He in *; [sim_fail|].
    destruct code; [sim_fail|discriminate (Hop eq_refl)].
  - destruct (cr_pending (ci_cr (cn_info c))); [sim_done|].
    rewrite packet_agree, Hk, (R_cid _ _ HR). set (p := sp_packet _ _ _ _ _ _ _) in *.
    destruct (tx_try_cases ti p) as [[He Ht]|(e & He & Ht)]; rewrite Ht, He; [|destruct code; sim_fail].
    destruct (R_upd m s i c (set_cr c (credit_set_pending (ci_cr (cn_info c)))) (mk_key peer lp)
                (se_with_cr (entry_of c) (credit_set_pending (ci_cr (cn_info c)))) HK HR Hn Hk Hk eq_refl)
      as [HR1 HK1]. sim_fail.
Qed.

Lemma recv_tx_sim code md m s peer lp n ti :
  KeysUnique m -> R m s ->
  (code = false -> tx_fails_at md s (OpRecv peer lp n) ti && tx_open_point md s (OpRecv peer lp n) = false) ->
  sim (cm_recv_tx md ti m peer lp n) (sp_step_txg code md s (OpRecv peer lp n) ti).
Proof.
  intros HK HR Hop. unfold sp_step_txg, sp_fail_state, sp_code_fail, tx_fails_at, tx_open_point in *. cbn [sp_step] in *.
  unfold cm_recv_tx, sp_recv, with_entry in *. pose proof (get_sim m s peer lp HR) as H.
  destruct (get_connection (m_conns m) peer lp) as [[i c]|]; [|rewrite H in *; sim_done].
  destruct H as (Hn & Hk & Hs). rewrite Hs in *.
  cbn [se_shut entry_of se_cr se_buf set_buf set_cr cn_info ci_cr cn_buf cn_shut ci_dst ci_src_port] in *.
  set (k := cntN n (cn_buf c)) in *.
  destruct (credit_done_forwarding md (ci_cr (cn_info c)) (lenN (firstn k (cn_buf c)))) as [cr'|].
  - destruct (R_upd m s i c (set_cr (set_buf c (skipn k (cn_buf c))) cr') (mk_key peer lp)
                (se_with_cr (se_with_buf (entry_of c) (skipn k (cn_buf c))) cr') HK HR Hn Hk Hk eq_refl)
      as [HRu HKu].
    destruct (cn_shut c && (lenN (skipn k (cn_buf c)) =? 0)).
    + change (mkInfo (ci_dst (cn_info c)) (ci_src_port (cn_info c)) cr')
        with (cn_info (set_cr (set_buf c (skipn k (cn_buf c))) cr')).
      rewrite packet_agree. change (conn_key (set_cr (set_buf c (skipn k (cn_buf c))) cr')) with (conn_key c).
      rewrite Hk, (R_cid _ _ HR). cbn [set_cr cn_info ci_cr]. set (p := sp_packet _ _ _ _ _ _ _) in *.
      destruct (tx_try_cases ti p) as [[He Ht]|(e & He & Ht)]; rewrite Ht; rewrite He in *.
      * destruct (R_swap_upd m s i c (set_cr (set_buf c (skipn k (cn_buf c))) cr') (mk_key peer lp) HK HR Hn Hk Hk)
          as [HR1 HK1]. sim_fail.
      * destruct code; [sim_fail|discriminate (Hop eq_refl)].
    + cbn [sim]. auto.
  - destruct (R_upd m s i c (set_buf c (skipn k (cn_buf c))) (mk_key peer lp)
                (se_with_buf (entry_of c) (skipn k (cn_buf c))) HK HR Hn Hk Hk eq_refl) as [HR1 HK1].
    cbn [sim]. auto.
Qed.

Lemma update_credit_tx_sim code md m s peer lp ti :
  KeysUnique m -> R m s -> sim (cm_update_credit_tx ti m peer lp) (sp_step_txg code md s (OpUpdateCredit peer lp) ti).
Proof.
  intros HK HR. unfold sp_step_txg, sp_fail_state, sp_code_fail. cbn [sp_step].
  unfold cm_update_credit_tx, sp_update_credit, with_entry. pose proof (get_sim m s peer lp HR) as H.
  destruct (get_connection (m_conns m) peer lp) as [[i c]|]; [|rewrite H; sim_done].
  destruct H as (Hn & Hk & Hs). rewrite Hs. cbn [se_shut entry_of se_cr]. destruct (cn_shut c); [sim_done|].
  rewrite packet_agree, Hk, (R_cid _ _ HR). set (p := sp_packet _ _ _ _ _ _ _).
  destruct (tx_try_cases ti p) as [[He Ht]|(e & He & Ht)]; rewrite Ht, He; [|destruct code]; sim_fail.
Qed.

Lemma shutdown_tx_sim code md m s peer lp ti :
  KeysUnique m -> R m s -> sim (cm_shutdown_tx ti m peer lp) (sp_step_txg code md s (OpShutdown peer lp) ti).
Proof.
  intros HK HR. unfold sp_step_txg, sp_fail_state, sp_code_fail. cbn [sp_step].
  unfold cm_shutdown_tx, sp_shutdown, with_entry. pose proof (get_sim m s peer lp HR) as H.
  destruct (get_connection (m_conns m) peer lp) as [[i c]|]; [|rewrite H; sim_done].
  destruct H as (Hn & Hk & Hs). rewrite Hs. cbn [se_shut entry_of se_cr].
  rewrite packet_agree, Hk, (R_cid _ _ HR). set (p := sp_packet _ _ _ _ _ _ _).
  destruct (tx_try_cases ti p) as [[He Ht]|(e & He & Ht)]; rewrite Ht, He; [|destruct code]; sim_fail.
Qed.

Lemma force_close_tx_sim code md m s peer lp ti :
  KeysUnique m -> R m s -> sim (cm_force_close_tx ti m peer lp) (sp_step_txg code md s (OpForceClose peer lp) ti).
Proof.
  intros HK HR. unfold sp_step_txg, sp_fail_state, sp_code_fail. cbn [sp_step].
  unfold cm_force_close_tx, sp_force_close, with_entry. pose proof (get_sim m s peer lp HR) as H.
  destruct (get_connection (m_conns m) peer lp) as [[i c]|]; [|rewrite H; sim_done].
  destruct H as (Hn & Hk & Hs). rewrite Hs. cbn [se_shut entry_of se_cr].
  rewrite packet_agree, Hk, (R_cid _ _ HR). set (p := sp_packet _ _ _ _ _ _ _).
  destruct (tx_try_cases ti p) as [[He Ht]|(e & He & Ht)]; rewrite Ht, He; [|destruct code; sim_fail].
  destruct (R_swap m s i c (mk_key peer lp) HK HR Hn Hk) as [HR1 HK1]. sim_fail.
Qed.

(* ---- packets whose reply cannot be sent ---- *)
Definition cm_on_event_tx (ti : txin) (m : cm) (ev : event) (body : list N) : result :=
  let '(m1, r) := cm_handler m ev body in
  match r with
  | Ok (Some ev') => cm_after_tx ti m1 ev'
  | Ok None => (m1, Ok (VEvent None), [])
  | Err e => (m1, Err e, [])
  | Panic => (m1, Panic, [])
  | UB => (m1, UB, [])
  end.

Definition sp_on_packet_txg (code : bool) (s : spec) (ev : event) (body : list N) (ti : txin) : sresult :=
  let '(s', r, tx) := sp_on_packet s ev body in
  match tx with
  | [] => (s', r, tx)
  | p :: _ =>
      match tx_err (tx_pick ti (snd p)) with
      | None => (s', r, tx)
      | Some e => (if code then sp_packet_failed_code s ev else sp_packet_failed s ev, Err e, tx_seen (tx_pick ti (snd p)) p)
      end
  end.

Definition ev_fails (s : spec) (ev : event) (body : list N) (ti : txin) : bool :=
  match sp_on_packet s ev body with
  | (_, _, p :: _) => match tx_err (tx_pick ti (snd p)) with Some _ => true | None => false end
  | _ => false
  end.

Lemma on_event_tx_sim code m s ev body ti :
  KeysUnique m -> R m s -> (code = false -> ev_fails s ev body ti && ev_open s ev = false) ->
  sim (cm_on_event_tx ti m ev body) (sp_on_packet_txg code s ev body ti).
Proof.
  intros HK HR Hop.
  unfold cm_on_event_tx, cm_handler, sp_on_packet_txg, ev_fails, ev_open, sp_packet_failed, sp_packet_failed_code, sp_on_packet in *.
  rewrite for_event_key.
  rewrite (R_cid _ _ HR). change (a_cid (ev_src ev), a_port (ev_src ev), a_port (ev_dst ev)) with (ev_key ev) in *.
  destruct (a_cid (ev_dst ev) =? sp_cid s) eqn:Ecid; cbn [negb] in *.
  2:{ destruct (ev_type ev); sim_done. }
  assert (Ecid' : a_cid (ev_dst ev) =? m_cid m = true) by now rewrite (R_cid _ _ HR).
  pose proof (find_key_spec (ev_key ev) (m_conns m)) as H.
  destruct (find_key (ev_key ev) (m_conns m)) as [[i c]|] eqn:F.
  - (* a known connection *)
    destruct H as (Hn & Hk & Hl). rewrite (R_tab _ _ HR) in Hl. rewrite Hl in *.
    set (cr1 := credit_update_for_event (ci_cr (cn_info c)) ev).
    assert (Hcr : forall b, ev_type ev <> EtCreditUpdate \/ b = true ->
                  (b = true -> ev_type ev = EtCreditUpdate) ->
                  cr1 = cr_from_packet (se_cr (entry_of c)) (ev_buf_alloc ev) (ev_fwd_cnt ev) b).
    { intros b Hb Hb'. unfold cr1, credit_update_for_event, cr_from_packet. cbn [se_cr entry_of]. f_equal.
      destruct b.
      - now rewrite (Hb' eq_refl).
      - destruct Hb as [Hb|Hb]; [|discriminate]. destruct (ev_type ev); try reflexivity. congruence. }
    assert (Hk1 : forall c', conn_key c' = conn_key c -> conn_key c' = ev_key ev) by (intros; congruence).
    destruct (ev_type ev) eqn:Et.
    + (* request for an existing key *)
      rewrite (Hcr false) in * by (try (left; discriminate); discriminate).
      set (c1 := set_cr c _) in *.
      assert (F1 : find_key (ev_key ev) (upd (m_conns m) i c1) = Some (i, c1)) by (apply (find_key_upd _ _ _ c); auto).
      unfold cm_after_tx. cbn [set_conns m_conns m_cid m_listen].
      rewrite (after_found (upd (m_conns m) i c1) (m_cid m) ev i c1 Ecid' F1), Et, (R_listen _ _ HR).
      destruct (R_upd m s i c c1 (ev_key ev) _ HK HR Hn Hk (Hk1 _ eq_refl) eq_refl) as [HRf HKf].
      destruct (memN (a_port (ev_dst ev)) (sp_listen s)).
      * rewrite packet_agree. change (conn_key c1) with (conn_key c). rewrite Hk, (R_cid _ _ HR).
        change (ci_cr (cn_info c1)) with (cr_from_packet (se_cr (entry_of c)) (ev_buf_alloc ev) (ev_fwd_cnt ev) false).
        set (p := sp_packet _ _ _ _ _ _ _) in *.
        destruct (tx_try_cases ti p) as [[He Ht]|(e & He & Ht)]; rewrite Ht, He; [|destruct code; sim_fail].
        rewrite upd_upd.
        destruct (R_upd m s i c (set_est c1) (ev_key ev) _ HK HR Hn Hk (Hk1 _ eq_refl) eq_refl) as [HR1 HK1]. sim_fail.
      * rewrite packet_agree. change (conn_key c1) with (conn_key c). rewrite Hk, (R_cid _ _ HR).
        change (ci_cr (cn_info c1)) with (cr_from_packet (se_cr (entry_of c)) (ev_buf_alloc ev) (ev_fwd_cnt ev) false).
        set (p := sp_packet _ _ _ _ _ _ _) in *.
        destruct (tx_try_cases ti p) as [[He Ht]|(e & He & Ht)]; rewrite Ht, He; [|destruct code; sim_fail].
        destruct (R_swap_upd m s i c c1 (ev_key ev) HK HR Hn Hk (Hk1 _ eq_refl)) as [HR1 HK1]. sim_fail.
    + (* response *)
      rewrite (Hcr false) in * by (try (left; discriminate); discriminate).
      set (c1 := set_cr c _).
      assert (F1 : find_key (ev_key ev) (upd (m_conns m) i c1) = Some (i, c1)) by (apply (find_key_upd _ _ _ c); auto).
      unfold cm_after_tx. cbn [set_conns m_conns m_cid m_listen].
      rewrite (after_found (upd (m_conns m) i c1) (m_cid m) ev i c1 Ecid' F1), Et.
      rewrite upd_upd.
      destruct (R_upd m s i c (set_est c1) (ev_key ev) _ HK HR Hn Hk (Hk1 _ eq_refl) eq_refl) as [HR1 HK1].
      cbn [sim]. auto.
    + (* reset / shutdown from the peer *)
      rewrite (Hcr false) in * by (try (left; discriminate); discriminate).
      set (c1 := set_cr c _) in *.
      assert (F1 : find_key (ev_key ev) (upd (m_conns m) i c1) = Some (i, c1)) by (apply (find_key_upd _ _ _ c); auto).
      unfold cm_after_tx. cbn [set_conns m_conns m_cid m_listen].
      rewrite (after_found (upd (m_conns m) i c1) (m_cid m) ev i c1 Ecid' F1), Et.
      change (cn_buf c1) with (cn_buf c). change (se_buf (entry_of c)) with (cn_buf c) in *.
      destruct (R_upd m s i c c1 (ev_key ev) _ HK HR Hn Hk (Hk1 _ eq_refl) eq_refl) as [HRf HKf].
      destruct (lenN (cn_buf c) =? 0).
      * destruct (R_swap_upd m s i c c1 (ev_key ev) HK HR Hn Hk (Hk1 _ eq_refl)) as [HR1 HK1].
        destruct shutdown; [|sim_fail].
        rewrite packet_agree. change (conn_key c1) with (conn_key c). rewrite Hk, (R_cid _ _ HR).
        change (ci_cr (cn_info c1)) with (cr_from_packet (se_cr (entry_of c)) (ev_buf_alloc ev) (ev_fwd_cnt ev) false).
        set (p := sp_packet _ _ _ _ _ _ _) in *.
        destruct (tx_try_cases ti p) as [[He Ht]|(e & He & Ht)]; rewrite Ht; rewrite He in *; [sim_fail|].
        destruct code; [sim_fail|discriminate (Hop eq_refl)].
      * rewrite upd_upd.
        destruct (R_upd m s i c (set_shut c1) (ev_key ev) _ HK HR Hn Hk (Hk1 _ eq_refl) eq_refl) as [HR1 HK1].
        cbn [sim]. auto.
    + (* data *)
      rewrite (Hcr false) in * by (try (left; discriminate); discriminate).
      set (c1 := set_cr c _).
      unfold rb_add. change (cn_buf c1) with (cn_buf c). change (se_buf (entry_of c)) with (cn_buf c).
      rewrite (R_cap _ _ HR).
      destruct (sp_cap s - lenN (cn_buf c) <? lenN body).
      * destruct (R_upd m s i c c1 (ev_key ev) _ HK HR Hn Hk (Hk1 _ eq_refl) eq_refl) as [HR1 HK1].
        cbn [sim]. auto.
      * set (c2 := set_buf c1 (cn_buf c ++ body)).
        assert (F1 : find_key (ev_key ev) (upd (m_conns m) i c2) = Some (i, c2)) by (apply (find_key_upd _ _ _ c); auto).
        unfold cm_after_tx. cbn [set_conns m_conns m_cid m_listen].
        rewrite (after_found (upd (m_conns m) i c2) (m_cid m) ev i c2 Ecid' F1), Et.
        destruct (R_upd m s i c c2 (ev_key ev) _ HK HR Hn Hk (Hk1 _ eq_refl) eq_refl) as [HR1 HK1].
        cbn [sim]. auto.
    + (* credit request *)
      rewrite (Hcr false) in * by (try (left; discriminate); discriminate).
      set (c1 := set_cr c _) in *.
      assert (F1 : find_key (ev_key ev) (upd (m_conns m) i c1) = Some (i, c1)) by (apply (find_key_upd _ _ _ c); auto).
      unfold cm_after_tx. cbn [set_conns m_conns m_cid m_listen].
      rewrite (after_found (upd (m_conns m) i c1) (m_cid m) ev i c1 Ecid' F1), Et.
      destruct (R_upd m s i c c1 (ev_key ev) _ HK HR Hn Hk (Hk1 _ eq_refl) eq_refl) as [HR1 HK1].
      rewrite packet_agree. change (conn_key c1) with (conn_key c). rewrite Hk, (R_cid _ _ HR).
      change (ci_cr (cn_info c1)) with (cr_from_packet (se_cr (entry_of c)) (ev_buf_alloc ev) (ev_fwd_cnt ev) false).
      set (p := sp_packet _ _ _ _ _ _ _) in *.
      destruct (tx_try_cases ti p) as [[He Ht]|(e & He & Ht)]; rewrite Ht, He; [|destruct code]; sim_fail.
    + (* credit update *)
      rewrite (Hcr true) in * by auto.
      set (c1 := set_cr c _).
      assert (F1 : find_key (ev_key ev) (upd (m_conns m) i c1) = Some (i, c1)) by (apply (find_key_upd _ _ _ c); auto).
      unfold cm_after_tx. cbn [set_conns m_conns m_cid m_listen].
      rewrite (after_found (upd (m_conns m) i c1) (m_cid m) ev i c1 Ecid' F1), Et.
      destruct (R_upd m s i c c1 (ev_key ev) _ HK HR Hn Hk (Hk1 _ eq_refl) eq_refl) as [HR1 HK1].
      cbn [sim]. auto.
  - (* no such connection *)
    rewrite (R_tab _ _ HR) in H. rewrite H in *.
    destruct (ev_type ev) eqn:Et; try sim_done.
    set (c0 := conn_new (ev_src ev) (a_port (ev_dst ev)) (m_cap m)).
    rewrite upd_app_last.
    set (c1 := set_cr c0 _).
    assert (Hk1 : conn_key c1 = ev_key ev) by reflexivity.
    assert (Hl : clookup (ev_key ev) (m_conns m) = None) by now rewrite (R_tab _ _ HR).
    unfold cm_after_tx. cbn [set_conns m_conns m_cid m_listen].
    rewrite (after_found (m_conns m ++ [c1]) (m_cid m) ev (length (m_conns m)) c1 Ecid'
               (find_key_app_last _ _ _ Hl Hk1)), Et, (R_listen _ _ HR).
    assert (Hcr : ci_cr (cn_info c1) = cr_from_packet (credit_new (sp_cap s)) (ev_buf_alloc ev) (ev_fwd_cnt ev) false).
    { unfold c1, c0, conn_new, set_cr, credit_update_for_event, cr_from_packet, credit_new.
      cbn [cn_info ci_cr cr_tx_cnt cr_buf_alloc cr_fwd_cnt cr_pending]. rewrite Et, (R_cap _ _ HR). reflexivity. }
    (* the connection the closure has pushed, as it stays behind when the reply cannot be sent *)
    destruct (R_push m s c1 (ev_key ev) (mkEntry false false [] (ci_cr (cn_info c1))) HK HR H eq_refl eq_refl)
      as [HRf HKf].
    rewrite Hcr in HRf.
    destruct (memN (a_port (ev_dst ev)) (sp_listen s)).
    + rewrite packet_agree, Hk1, (R_cid _ _ HR), Hcr. set (p := sp_packet _ _ _ _ _ _ _) in *.
      destruct (tx_try_cases ti p) as [[He Ht]|(e & He & Ht)]; rewrite Ht; rewrite He in *.
      * rewrite upd_app_last.
        destruct (R_push m s (set_est c1) (ev_key ev) (mkEntry true false [] (ci_cr (cn_info c1))) HK HR H eq_refl eq_refl)
          as [HR1 HK1].
        rewrite Hcr in HR1. sim_fail.
      * destruct code; [sim_fail|discriminate (Hop eq_refl)].
    + rewrite packet_agree, Hk1, (R_cid _ _ HR), Hcr. set (p := sp_packet _ _ _ _ _ _ _) in *.
      destruct (tx_try_cases ti p) as [[He Ht]|(e & He & Ht)]; rewrite Ht; rewrite He in *.
      * rewrite swap_remove_app_last.
        cbn [sim]. split; [reflexivity|]. split; [reflexivity|].
        split; [|exact HK]. destruct HR; constructor; assumption.
      * destruct code; [sim_fail|discriminate (Hop eq_refl)].
Qed.

Lemma poll_tx_sim code md m s rx ti :
  KeysUnique m -> R m s -> (code = false -> tx_fails_at md s (OpPoll rx) ti && tx_open_point md s (OpPoll rx) = false) ->
  sim (cm_poll_tx ti m rx) (sp_step_txg code md s (OpPoll rx) ti).
Proof.
  intros HK HR Hop. unfold sp_step_txg, sp_fail_state, sp_code_fail, tx_fails_at, tx_open_point in *. cbn [sp_step] in *.
  unfold cm_poll_tx, sp_poll, sp_poll_failed in *. destruct rx as [[ulen bytes]|]; [|sim_done].
  rewrite (R_rxsz _ _ HR). destruct (sp_rxsz s <? ulen); [sim_done|].
  unfold cm_rx_tx. destruct (read_header_and_body _) as [[h body]|e]; [|sim_done].
  unfold sp_rx in *. rewrite efh_cases.
  destruct (vh_op h =? 0); [sim_done|]. destruct (7 <? vh_op h); [sim_done|].
  destruct (negb (vh_op h =? 5) && negb (vh_len h =? 0)); [sim_done|].
  pose proof (on_event_tx_sim code m s (hdr_event h) body ti HK HR Hop) as Hs.
  unfold cm_on_event_tx, sp_on_packet_txg in Hs. destruct code; exact Hs.
Qed.

(* one step with the fate of its transmission as an input is one step of the abstract map under failure:
   code = false: of the SPECIFICATION sp_step_tx, unless the transmission fails at one of the four open points;
   code = true: of the rule that describes the code as it stands, always *)
Lemma step_txg_refines code md m s o ti :
  KeysUnique m -> R m s -> (code = false -> tx_fails_at md s o ti && tx_open_point md s o = false) ->
  sim (cm_step_tx md m o ti) (sp_step_txg code md s o ti).
Proof.
  intros HK HR Hop. destruct o; cbn [cm_step_tx].
  - unfold sp_step_txg. cbn [sp_step cm_step]. destruct (listen_sim m s p HK HR). sim_done.
  - unfold sp_step_txg. cbn [sp_step cm_step]. destruct (unlisten_sim m s p HK HR). sim_done.
  - now apply connect_tx_sim.
  - now apply send_tx_sim.
  - now apply recv_tx_sim.
  - unfold sp_step_txg. cbn [sp_step cm_step].
    pose proof (avail_sim m s peer lp HK HR) as H. unfold sp_avail, with_entry in *.
    destruct (slookup _ _); exact H.
  - unfold sp_step_txg. cbn [sp_step cm_step].
    pose proof (established_sim m s peer lp HK HR) as H. unfold sp_established, with_entry in *.
    destruct (slookup _ _); exact H.
  - now apply update_credit_tx_sim.
  - now apply shutdown_tx_sim.
  - now apply force_close_tx_sim.
  - unfold sp_step_txg. cbn [sp_step cm_step]. rewrite (port_used_sim m s p HR). sim_done.
  - now apply poll_tx_sim.
Qed.

Theorem step_tx_refines md m s o ti :
  KeysUnique m -> R m s -> tx_fails_at md s o ti && tx_open_point md s o = false ->
  sim (cm_step_tx md m o ti) (sp_step_tx md s o ti).
Proof. intros HK HR Hop. exact (step_txg_refines false md m s o ti HK HR (fun _ => Hop)). Qed.

Theorem step_tx_code_refines md m s o ti :
  KeysUnique m -> R m s -> sim (cm_step_tx md m o ti) (sp_step_txg true md s o ti).
Proof. intros HK HR. apply step_txg_refines; [exact HK|exact HR|discriminate]. Qed.

(* histories with failures: as long as no transmission fails at an open point *)
Fixpoint tx_conforming (md : mode) (s : spec) (ops : list (cop * txin)) : bool :=
  match ops with
  | [] => true
  | (o, ti) :: rest =>
      negb (tx_fails_at md s o ti && tx_open_point md s o)
      && tx_conforming md (fst (fst (sp_step_tx md s o ti))) rest
  end.

Theorem run_tx_refines md ops : forall m s,
  KeysUnique m -> R m s -> tx_conforming md s ops = true ->
  snd (cm_run_tx md m ops) = snd (sp_run_tx md s ops)
  /\ R (fst (cm_run_tx md m ops)) (fst (sp_run_tx md s ops))
  /\ KeysUnique (fst (cm_run_tx md m ops)).
Proof.
  induction ops as [|[o ti] rest IH]; intros m s HK HR Hc; cbn [cm_run_tx sp_run_tx]; [auto|].
  cbn [tx_conforming] in Hc. apply andb_prop in Hc. destruct Hc as [Hc1 Hc2]. apply negb_true_iff in Hc1.
  pose proof (step_tx_refines md m s o ti HK HR Hc1) as H.
  destruct (cm_step_tx md m o ti) as [[m1 r] tx]. destruct (sp_step_tx md s o ti) as [[s1 r'] tx'].
  cbn [sim] in H. destruct H as (<- & <- & HR1 & HK1). cbn [fst] in Hc2.
  specialize (IH m1 s1 HK1 HR1 Hc2).
  destruct (cm_run_tx md m1 rest) as [m2 outs]. destruct (sp_run_tx md s1 rest) as [s2 outs'].
  cbn [fst snd] in *. destruct IH as (-> & HR2 & HK2). auto.
Qed.

(* ------------------------------------------------------------------------------------------------ *)
(* what holds at EVERY failure point, the open ones included (through the rule that describes the code) *)
Lemma via_spec_tx md m o ti m' r tx :
  KeysUnique m -> cm_step_tx md m o ti = (m', r, tx) ->
  exists s', sp_step_txg true md (abs m) o ti = (s', r, tx) /\ R m' s' /\ KeysUnique m'.
Proof.
  intros HK H. pose proof (step_tx_code_refines md m (abs m) o ti HK (R_abs m)) as Hs. rewrite H in Hs.
  destruct (sp_step_txg true md (abs m) o ti) as [[s' r'] tx']. cbn [sim] in Hs. destruct Hs as (-> & -> & HR & HK').
  eauto.
Qed.

(* C18_txfail_keys_unique: the keys stay unique along every history, whatever fails *)
Theorem run_tx_keys md ops : forall m, KeysUnique m -> KeysUnique (fst (cm_run_tx md m ops)).
Proof.
  induction ops as [|[o ti] rest IH]; intros m HK; cbn [cm_run_tx]; [exact HK|].
  destruct (cm_step_tx md m o ti) as [[m1 r] tx] eqn:E.
  destruct (via_spec_tx md m o ti m1 r tx HK E) as (s' & _ & _ & HK1).
  specialize (IH m1 HK1). destruct (cm_run_tx md m1 rest) as [m2 outs]. exact IH.
Qed.

Theorem keys_unique_tx md cid cap rxsz ops :
  NoDup (map conn_key (m_conns (fst (cm_run_tx md (cm_new cid cap rxsz) ops)))).
Proof. exact (run_tx_keys md ops _ (KeysUnique_new cid cap rxsz)). Qed.

Lemma sp_put_other s k e k' : k <> k' -> slookup k' (sp_tab (sp_put s k e)) = slookup k' (sp_tab s).
Proof.
  intros Hne. cbn [sp_put sp_with_tab sp_tab]. rewrite slookup_sset. destruct (key_eqb_spec k k'); [congruence|reflexivity].
Qed.

Lemma sp_packet_failed_frame (code : bool) s ev k' :
  (a_cid (ev_dst ev) =? sp_cid s) = true -> ev_key ev <> k' ->
  slookup k' (sp_tab (if code then sp_packet_failed_code s ev else sp_packet_failed s ev)) = slookup k' (sp_tab s).
Proof.
  intros Ec Hne. unfold sp_packet_failed_code, sp_packet_failed.
  change (a_cid (ev_src ev), a_port (ev_src ev), a_port (ev_dst ev)) with (ev_key ev).
  rewrite Ec. cbn [negb].
  destruct code; destruct (slookup (ev_key ev) (sp_tab s)); try reflexivity; try (apply sp_put_other; exact Hne).
  destruct (ev_type ev); try reflexivity. apply sp_put_other; exact Hne.
Qed.

Lemma sp_packet_failed_foreign (code : bool) s ev :
  (a_cid (ev_dst ev) =? sp_cid s) = false -> (if code then sp_packet_failed_code s ev else sp_packet_failed s ev) = s.
Proof. intros Ec. unfold sp_packet_failed_code, sp_packet_failed. rewrite Ec. destruct code; reflexivity. Qed.

Lemma sp_fail_state_frame code md s o k' :
  op_key (sp_cid s) o <> Some k' -> slookup k' (sp_tab (sp_fail_state code md s o)) = slookup k' (sp_tab s).
Proof.
  intros Hk. unfold sp_fail_state.
  destruct o; try (destruct code; reflexivity).
  - (* send *)
    destruct code; [|reflexivity]. unfold sp_code_fail.
    destruct (sp_step md s (OpSend peer lp data)) as [[s' r] tx] eqn:E. destruct r; try reflexivity.
    exact (sp_frame md s _ s' _ tx E k' Hk).
  - (* recv *)
    destruct code; [|reflexivity]. unfold sp_code_fail. cbn [op_key] in Hk.
    destruct (slookup (mk_key peer lp) (sp_tab s)); [|reflexivity]. cbv zeta.
    destruct (credit_done_forwarding _ _ _); [|reflexivity]. apply sp_put_other. congruence.
  - (* poll *)
    assert (Hgoal : forall ulen bytes, rx = Some (ulen, bytes) ->
              slookup k' (sp_tab (match read_header_and_body (firstn (cntN ulen bytes) bytes) with
                                  | inl (h, _) => if code then sp_packet_failed_code s (hdr_event h) else sp_packet_failed s (hdr_event h)
                                  | inr _ => s end)) = slookup k' (sp_tab s)).
    { intros ulen bytes ->. cbn [op_key] in Hk. destruct (read_header_and_body _) as [[h body]|]; [|reflexivity].
      destruct (vh_dst_cid h =? sp_cid s) eqn:Ec.
      - apply sp_packet_failed_frame; [exact Ec|]. intros E. apply Hk. rewrite <- E. reflexivity.
      - rewrite (sp_packet_failed_foreign code s (hdr_event h) Ec). reflexivity. }
    destruct rx as [[ulen bytes]|]; [|destruct code; reflexivity].
    specialize (Hgoal ulen bytes eq_refl). unfold sp_code_fail, sp_poll_failed.
    destruct code; destruct (read_header_and_body _) as [[h body]|]; exact Hgoal.
Qed.

Lemma sp_txg_frame code md s o ti s' r tx :
  sp_step_txg code md s o ti = (s', r, tx) ->
  forall k', op_key (sp_cid s) o <> Some k' -> slookup k' (sp_tab s') = slookup k' (sp_tab s).
Proof.
  intros H k' Hk. unfold sp_step_txg in H. destruct (sp_step md s o) as [[s0 r0] tx0] eqn:E.
  destruct tx0 as [|p rest].
  - injection H as <- <- <-. exact (sp_frame md s o s0 r0 [] E k' Hk).
  - destruct (tx_err (tx_pick ti (snd p))).
    + injection H as <- <- <-. now apply sp_fail_state_frame.
    + injection H as <- <- <-. exact (sp_frame md s o s0 r0 _ E k' Hk).
Qed.

(* C18_txfail_isolation: whatever fails, at whatever point, for whatever key: every OTHER connection - flags, buffer,
   all counters - is exactly as before, and so are the listening ports *)
Theorem isolation_tx md m o ti m' r tx :
  KeysUnique m -> cm_step_tx md m o ti = (m', r, tx) ->
  forall k', op_key (m_cid m) o <> Some k' -> entry m' k' = entry m k'.
Proof.
  intros HK H k' Hk. destruct (via_spec_tx _ _ _ _ _ _ _ HK H) as (s' & Hs & HR' & _).
  unfold entry. rewrite (R_tab _ _ HR'), (sp_txg_frame true md _ _ _ _ _ _ Hs k' Hk). apply entry_abs.
Qed.

(* ------------------------------------------------------------------------------------------------ *)
(* The clauses, on the implementation model, for every state with unique keys (hence every reachable one) *)

(* C18_txfail_connect: a connect whose request cannot be sent leaves NO connection behind: the manager is exactly as
   before (so the port is free, every operation on the key says NotConnected, packets "for it" match nothing, and
   the connect can be tried again: C18_connect_fresh applies to m' = m) *)
Theorem connect_fail_no_connection md m peer lp ti e m' r tx :
  entry m (mk_key peer lp) = None -> tx_err (fst ti) = Some e ->
  cm_step_tx md m (OpConnect peer lp) ti = (m', r, tx) ->
  m' = m /\ r = Err e /\ entry m' (mk_key peer lp) = None
  /\ tx = tx_seen (fst ti) (packet_for m (mk_key peer lp) VOP_REQUEST 0 (m_cap m) 0).
Proof.
  intros He Hf H. cbn [cm_step_tx] in H. unfold cm_connect_tx in H. rewrite existsb_clookup in H.
  unfold entry in He. rewrite He in H. cbv zeta in H. unfold tx_try, tx_pick in H. cbn [snd lenN length N.of_nat N.eqb] in H.
  rewrite Hf in H. injection H as <- <- <-. repeat split; auto.
Qed.

(* C18_txfail_local: update_credit, shutdown, force_close, connect, and a send that has to ask for credit: when the
   transmission fails the manager is exactly as before and the error is the tx queue's *)
Definition header_only_op (o : cop) : bool :=
  match o with OpConnect _ _ | OpUpdateCredit _ _ | OpShutdown _ _ | OpForceClose _ _ => true | _ => false end.

Theorem local_fail_atomic md m o ti e m' r tx :
  header_only_op o = true -> tx_err (fst ti) = Some e ->
  cm_step_tx md m o ti = (m', r, tx) ->
  m' = m /\ (r = Err e \/ (tx = [] /\ cm_step md m o = (m, r, []))).
Proof.
  intros Ho Hf H. destruct o; try discriminate Ho; cbn [cm_step_tx cm_step] in *.
  - unfold cm_connect_tx, cm_connect in *. destruct (existsb _ _); [injection H as <- <- <-; auto|].
    cbv zeta in H. unfold tx_try, tx_pick in H. cbn [snd lenN length N.of_nat N.eqb] in H. rewrite Hf in H.
    injection H as <- <- <-. auto.
  - unfold cm_update_credit_tx, cm_update_credit in *. destruct (get_connection _ _ _) as [[i c]|]; [|injection H as <- <- <-; auto].
    destruct (cn_shut c); [injection H as <- <- <-; auto|].
    unfold tx_try, tx_pick in H. cbn [snd lenN length N.of_nat N.eqb] in H. rewrite Hf in H. injection H as <- <- <-. auto.
  - unfold cm_shutdown_tx, cm_shutdown in *. destruct (get_connection _ _ _) as [[i c]|]; [|injection H as <- <- <-; auto].
    unfold tx_try, tx_pick in H. cbn [snd lenN length N.of_nat N.eqb] in H. rewrite Hf in H. injection H as <- <- <-. auto.
  - unfold cm_force_close_tx, cm_force_close in *. destruct (get_connection _ _ _) as [[i c]|]; [|injection H as <- <- <-; auto].
    unfold tx_try, tx_pick in H. cbn [snd lenN length N.of_nat N.eqb] in H. rewrite Hf in H. injection H as <- <- <-. auto.
Qed.

(* a send that finds no credit and cannot send its credit request: nothing is marked pending, nothing changes *)
Theorem send_credit_request_fail md m peer lp data ti e c i pf m' r tx :
  get_connection (m_conns m) peer lp = Some (i, c) -> cn_shut c = false ->
  credit_peer_free md (ci_cr (cn_info c)) = Some pf -> pf < lenN data -> cr_pending (ci_cr (cn_info c)) = false ->
  tx_err (fst ti) = Some e ->
  cm_step_tx md m (OpSend peer lp data) ti = (m', r, tx) ->
  m' = m /\ r = Err e.
Proof.
  intros Hg Hs Hpf Hlt Hp Hf H. cbn [cm_step_tx] in H. unfold cm_send_tx in H. rewrite Hg, Hs in H. cbv zeta in H.
  rewrite Hpf in H. destruct (N.leb_spec (lenN data) pf); [lia|]. rewrite Hp in H.
  unfold tx_try, tx_pick in H. cbn [snd lenN length N.of_nat N.eqb] in H. rewrite Hf in H. now injection H as <- <- <-.
Qed.

(* C18_txfail_atomic: at every failure point but the four open ones the table is what the specification says: no
   entry appears or disappears, no flag and no buffered byte changes, nothing of OUR side of the flow control
   (tx_cnt, fwd_cnt, buf_alloc, the pending credit request) changes; all a packet may leave behind is what it says
   about the peer *)
Definition same_but_peer_view (a b : option sentry) : Prop :=
  match a, b with
  | None, None => True
  | Some e, Some e' =>
      se_est e' = se_est e /\ se_buf e' = se_buf e
      /\ cr_tx_cnt (se_cr e') = cr_tx_cnt (se_cr e) /\ cr_fwd_cnt (se_cr e') = cr_fwd_cnt (se_cr e)
      /\ cr_buf_alloc (se_cr e') = cr_buf_alloc (se_cr e) /\ cr_pending (se_cr e') = cr_pending (se_cr e)
  | _, _ => False
  end.

Lemma same_but_peer_view_refl a : same_but_peer_view a a.
Proof. destruct a; cbn; auto 10. Qed.

Lemma sp_poll_failed_view s rx k : same_but_peer_view (slookup k (sp_tab s)) (slookup k (sp_tab (sp_poll_failed s rx))).
Proof.
  unfold sp_poll_failed. destruct rx as [[ulen bytes]|]; [|apply same_but_peer_view_refl].
  destruct (read_header_and_body _) as [[h body]|]; [|apply same_but_peer_view_refl].
  unfold sp_packet_failed. cbn [ev_dst ev_src a_cid a_port ev_type ev_buf_alloc ev_fwd_cnt].
  destruct (negb _); [apply same_but_peer_view_refl|].
  set (k0 := (vh_src_cid h, vh_src_port h, vh_dst_port h)).
  destruct (slookup k0 (sp_tab s)) as [e|] eqn:E; [|apply same_but_peer_view_refl].
  cbn [sp_put sp_with_tab sp_tab]. rewrite slookup_sset.
  destruct (key_eqb_spec k0 k) as [<-|Hne]; [|apply same_but_peer_view_refl].
  rewrite E. destruct (sp_etype _ _) as [| |[|]| | |]; cbn; auto 10.
Qed.

Lemma sp_poll_failed_listen s rx : sp_listen (sp_poll_failed s rx) = sp_listen s.
Proof.
  unfold sp_poll_failed. destruct rx as [[ulen bytes]|]; [|reflexivity].
  destruct (read_header_and_body _) as [[h body]|]; [|reflexivity].
  unfold sp_packet_failed. destruct (negb _); [reflexivity|]. destruct (slookup _ _); reflexivity.
Qed.

Theorem txfail_atomic md m o ti m' r tx :
  KeysUnique m -> tx_fails_at md (abs m) o ti = true -> tx_open_point md (abs m) o = false ->
  cm_step_tx md m o ti = (m', r, tx) ->
  (exists e, r = Err e) /\ (forall p, memN p (m_listen m') = memN p (m_listen m))
  /\ (forall k, same_but_peer_view (entry m k) (entry m' k))
  /\ (match o with OpPoll _ => True | _ => forall k, entry m' k = entry m k end).
Proof.
  intros HK Hf Ho H.
  pose proof (step_tx_refines md m (abs m) o ti HK (R_abs m)) as Hs. rewrite Hf, Ho in Hs. specialize (Hs eq_refl).
  rewrite H in Hs. unfold sp_step_tx, tx_fails_at in *.
  destruct (sp_step md (abs m) o) as [[s0 r0] tx0]. destruct tx0 as [|p rest]; [discriminate Hf|].
  destruct (tx_err (tx_pick ti (snd p))) as [e|]; [|discriminate Hf].
  cbn [sim] in Hs. destruct Hs as (-> & -> & HR' & HK').
  split; [eauto|]. split.
  { intros q. rewrite (R_listen _ _ HR'). destruct o; try reflexivity. now rewrite sp_poll_failed_listen. }
  split.
  - intros k. unfold entry at 2. rewrite (R_tab _ _ HR'), <- (entry_abs m k).
    destruct o; try apply same_but_peer_view_refl. apply sp_poll_failed_view.
  - destruct o; try exact I; intros k; unfold entry; rewrite (R_tab _ _ HR'); apply entry_abs.
Qed.

(* ------------------------------------------------------------------------------------------------ *)
(* THE FOUR OPEN POINTS: the code as it stands does not do what the specification asks for (findings). *)
(* Witnesses on reachable states; the harness shows the same on the real code (the scenarios named c18-finding) *)
Definition tx_hdr (op sport dport len : N) : vhdr := mkHdr 2 3 sport dport len 1 op 0 50 0.
Definition tx_fail_pop : txin := (TxPopFail EWrongToken, TxPopFail EWrongToken).
Definition tx_fail_add : txin := (TxAddFail EQueueFull, TxAddFail EQueueFull).
Definition tx_ops_a : list cop := [OpListen 80; OpPoll (ex_rx (tx_hdr VOP_REQUEST 1000 80 0) [])].
Definition tx_ops_b : list cop :=
  tx_ops_a ++ [OpPoll (ex_rx (tx_hdr VOP_RW 1000 80 3) [1; 2; 3]); OpPoll (ex_rx (tx_hdr VOP_SHUTDOWN 1000 80 0) [])].
Definition ex_a : cm := fst (cm_run Debug (cm_new 3 8 64) tx_ops_a).
Definition ex_b : cm := fst (cm_run Debug (cm_new 3 8 64) tx_ops_b).
Definition ex_c : cm := fst (cm_run Debug (cm_new 3 8 64) [OpListen 80]).

(* A. send: the peer granted 50 bytes; `add` refuses the chain (QueueFull: not a byte has left), yet three bytes of
   the credit are spent *)
Theorem send_fail_keeps_credit_refuted :
  exists m' e e',
    KeysUnique ex_a /\ entry ex_a (mk_key ex_peer 80) = Some e
    /\ cm_step_tx Debug ex_a (OpSend ex_peer 80 [1; 2; 3]) tx_fail_add = (m', Err EQueueFull, [])
    /\ entry m' (mk_key ex_peer 80) = Some e' /\ cr_tx_cnt (se_cr e) = 0 /\ cr_tx_cnt (se_cr e') = 3.
Proof.
  do 3 eexists. split; [apply (keys_unique Debug 3 8 64 tx_ops_a)|]. vm_compute. repeat split; reflexivity.
Qed.

(* B. recv: three bytes buffered, the peer has shut down; the recv that drains them cannot send its RST: it returns the
   error, the three bytes are gone from the buffer and the next recv delivers nothing *)
Theorem recv_fail_keeps_data_refuted :
  exists m' tx e e' m'' tx'',
    KeysUnique ex_b /\ entry ex_b (mk_key ex_peer 80) = Some e /\ se_buf e = [1; 2; 3] /\ se_shut e = true
    /\ cm_step_tx Debug ex_b (OpRecv ex_peer 80 8) tx_fail_pop = (m', Err EWrongToken, tx)
    /\ entry m' (mk_key ex_peer 80) = Some e' /\ se_buf e' = []
    /\ cm_step Debug m' (OpRecv ex_peer 80 8) = (m'', Ok (VBytes []), tx'').
Proof.
  do 6 eexists. split; [apply (keys_unique Debug 3 8 64 tx_ops_b)|]. vm_compute. repeat split; reflexivity.
Qed.

(* C. a request for a NEW connection whose reply cannot be sent - the RESPONSE of a listening port, the RST of a port
   nobody listens on -: not reported, but the connection the closure pushed is in the table *)
Theorem request_fail_no_entry_refuted :
  exists m1 tx1 e1 m2 tx2 e2,
    KeysUnique ex_c /\ entry ex_c (mk_key ex_peer 80) = None /\ entry ex_c (mk_key ex_peer 81) = None
    /\ cm_step_tx Debug ex_c (OpPoll (ex_rx (tx_hdr VOP_REQUEST 1000 80 0) [])) tx_fail_pop = (m1, Err EWrongToken, tx1)
    /\ entry m1 (mk_key ex_peer 80) = Some e1 /\ se_est e1 = false
    /\ cm_step_tx Debug ex_c (OpPoll (ex_rx (tx_hdr VOP_REQUEST 1000 81 0) [])) tx_fail_add = (m2, Err EQueueFull, tx2)
    /\ entry m2 (mk_key ex_peer 81) = Some e2 /\ cm_is_local_port_used m2 81 = true.
Proof.
  do 6 eexists. split; [apply (keys_unique Debug 3 8 64 [OpListen 80])|]. vm_compute. repeat split; reflexivity.
Qed.

(* D. the peer shuts a drained connection down and the RST cannot be sent: the shutdown is forgotten - the connection
   is not marked, and a send goes out to a peer that has shut down *)
Theorem shutdown_fail_remembered_refuted :
  exists m' tx e' m'' tx'',
    KeysUnique ex_a
    /\ cm_step_tx Debug ex_a (OpPoll (ex_rx (tx_hdr VOP_SHUTDOWN 1000 80 0) [])) tx_fail_pop = (m', Err EWrongToken, tx)
    /\ entry m' (mk_key ex_peer 80) = Some e' /\ se_shut e' = false
    /\ cm_step Debug m' (OpSend ex_peer 80 [1]) = (m'', Ok VUnit, tx'').
Proof.
  do 5 eexists. split; [apply (keys_unique Debug 3 8 64 tx_ops_a)|]. vm_compute. repeat split; reflexivity.
Qed.

(* hence the refinement of sp_step_tx cannot hold without the exception of the open points *)
Theorem step_tx_refines_everywhere_refuted :
  ~ (forall md m s o ti, KeysUnique m -> R m s -> sim (cm_step_tx md m o ti) (sp_step_tx md s o ti)).
Proof.
  intros H.
  specialize (H Debug ex_a (abs ex_a) (OpSend ex_peer 80 [1; 2; 3]) tx_fail_add
                (keys_unique Debug 3 8 64 tx_ops_a) (R_abs ex_a)).
  destruct (cm_step_tx Debug ex_a (OpSend ex_peer 80 [1; 2; 3]) tx_fail_add) as [[m' r] tx] eqn:E.
  destruct (sp_step_tx Debug (abs ex_a) (OpSend ex_peer 80 [1; 2; 3]) tx_fail_add) as [[s' r'] tx'] eqn:E'.
  cbn [sim] in H. destruct H as (_ & _ & HR & _). pose proof (R_tab _ _ HR (mk_key ex_peer 80)) as Hk.
  vm_compute in E. injection E as <- _ _. vm_compute in E'. injection E' as <- _ _. vm_compute in Hk. discriminate Hk.
Qed.

(* ------------------------------------------------------------------------------------------------ *)
(* Non-vacuity *)
Example step_tx_refines_nonvacuous :
  KeysUnique ex_a /\ R ex_a (abs ex_a)
  /\ tx_fails_at Debug (abs ex_a) (OpUpdateCredit ex_peer 80) tx_fail_pop = true
  /\ tx_open_point Debug (abs ex_a) (OpUpdateCredit ex_peer 80) = false
  /\ tx_fails_at Debug (abs ex_a) (OpPoll (ex_rx (tx_hdr VOP_CREDIT_REQUEST 1000 80 0) [])) tx_fail_add = true
  /\ tx_open_point Debug (abs ex_a) (OpPoll (ex_rx (tx_hdr VOP_CREDIT_REQUEST 1000 80 0) [])) = false
  /\ tx_fails_at Debug (abs ex_a) (OpPoll (ex_rx (tx_hdr VOP_SHUTDOWN 1000 80 0) [])) tx_fail_add = true
  /\ tx_open_point Debug (abs ex_a) (OpPoll (ex_rx (tx_hdr VOP_SHUTDOWN 1000 80 0) [])) = true.
Proof.
  split; [apply (keys_unique Debug 3 8 64 tx_ops_a)|]. split; [apply R_abs|]. vm_compute. repeat split; reflexivity.
Qed.

Example connect_fail_nonvacuous :
  entry ex_a (mk_key ex_peer 55) = None /\ tx_err (fst tx_fail_pop) = Some EWrongToken
  /\ header_only_op (OpForceClose ex_peer 80) = true.
Proof. vm_compute. auto. Qed.

Example send_credit_request_fail_nonvacuous :
  exists i c, get_connection (m_conns ex_a) ex_peer 80 = Some (i, c) /\ cn_shut c = false
    /\ credit_peer_free Debug (ci_cr (cn_info c)) = Some 50 /\ 50 < lenN (repeat 7 51) /\ cr_pending (ci_cr (cn_info c)) = false.
Proof. do 2 eexists. vm_compute. repeat split; reflexivity. Qed.

(* a whole history with failures through the real step function: a connect that fails (QueueFull) and is tried again, an
   accepted request, a credit request whose reply fails (WrongToken: the device saw the packet), a force_close that fails
   and is tried again; it is conforming, so the abstract map under failure produces the same outputs *)
Definition tx_history : list (cop * txin) :=
  [(OpListen 80, tx_all_ok);
   (OpConnect ex_peer 55, tx_fail_add);
   (OpRecv ex_peer 55 4, tx_all_ok);
   (OpPortUsed 55, tx_all_ok);
   (OpConnect ex_peer 55, tx_all_ok);
   (OpPoll (ex_rx (tx_hdr VOP_REQUEST 1000 80 0) []), tx_all_ok);
   (OpPoll (ex_rx (tx_hdr VOP_CREDIT_REQUEST 1000 80 0) []), tx_fail_pop);
   (OpForceClose ex_peer 80, tx_fail_pop);
   (OpEstablished ex_peer 80, tx_all_ok);
   (OpForceClose ex_peer 80, tx_all_ok);
   (OpEstablished ex_peer 80, tx_all_ok)].

Example tx_history_runs :
  tx_conforming Debug (sp_new 3 8 64) tx_history = true
  /\ snd (cm_run_tx Debug (cm_new 3 8 64) tx_history)
     = [(Ok VUnit, []);
        (Err EQueueFull, []);
        (Err (serr SE_NotConnected 0), []);
        (Ok (VNum 0), []);
        (Ok VUnit, [(mkHdr 3 2 55 1000 0 1 VOP_REQUEST 0 8 0, [])]);
        (Ok (VEvent (Some (mkEvent (mkAddr 2 1000) (mkAddr 3 80) 50 0 EtRequest))), [(mkHdr 3 2 80 1000 0 1 VOP_RESPONSE 0 8 0, [])]);
        (Err EWrongToken, [(mkHdr 3 2 80 1000 0 1 VOP_CREDIT_UPDATE 0 8 0, [])]);
        (Err EWrongToken, [(mkHdr 3 2 80 1000 0 1 VOP_RST 0 8 0, [])]);
        (Ok (VNum 1), []);
        (Ok VUnit, [(mkHdr 3 2 80 1000 0 1 VOP_RST 0 8 0, [])]);
        (Err (serr SE_NotConnected 0), [])].
Proof. vm_compute. split; reflexivity. Qed.
