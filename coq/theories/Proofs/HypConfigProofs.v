(* C13 for the x86-64 pKVM hypercall PCI transport: multi-field reads.                                     *)
(* `impl Transport for HypPciTransport` (src/transport/x86_64.rs) defines seventeen methods and does NOT   *)
(* define read_consistent: the provided method of the trait (src/transport/mod.rs) runs, with the         *)
(* transport's own read_config_generation (ONE byte of the common configuration structure at offset 21,   *)
(* widened: Model/HypPci.v hyp_read_gen, C11_hyp_generation) and its own read_config_space (ONE hypercall  *)
(* of size_of::<T>() bytes).  That is the PCI case of Model/Config.v: `read_consistent fuel TPci` with     *)
(* gen_off TPci = 21, gen_width TPci = 1, gen_mod TPci = 2^8.  This file states                           *)
(*  1. that the generation read of the hypercall transport IS the generation read of that case,           *)
(*  2. that a 1/2/4/8-byte configuration read of the hypercall transport IS the PCI case's read (same      *)
(*     refusals, one access of the same width at the same offset of the region, same value): what makes   *)
(*     correspondence kind 1310 applicable to the hypercall transport for closures of such fields; a       *)
(*     6-byte MAC is ONE hypercall here and 4 + 2 (or 2 + 4) accesses there, the VALUE on one image is the *)
(*     same (eval_net_mac), which is all the snapshot monitors 1311 / 1312 look at,                        *)
(*  3. the untorn-read theorem for the hypercall transport (instance of read_consistent_untorn),           *)
(*  4. that a loop which gives up after a bounded number of attempts and returns the last value (the       *)
(*     seeded change C13-m19) is refuted on a schedule with one update in each of four attempts.           *)
From VD Require Import Base.Words Model.PciBus Model.Pci Model.PciSpec Model.HypPci Proofs.PciProofs Proofs.HypPciProofs.
From VD Require Import Model.Config Model.ConfigSpec Proofs.ConfigProofs.
From Coq Require Import ZArith Lia ZifyBool ZifyN.
Ltac Zify.zify_post_hook ::= Z.div_mod_to_equations.

(* ---- 1. the generation ---- *)
Theorem hyp_generation_is_pci_generation m t ans :
  regions_ok t ->
  hyp_read_gen HFIXED m t ans
  = (Ok (ans8 ans 0), [MR (r_paddr (ht_common t) + gen_off TPci) (gen_width TPci) (ans8 ans 0)])
  /\ ans8 ans 0 < gen_mod TPci
  /\ gen_off TPci = c_config_generation /\ gen_width TPci = 1 /\ gen_mod TPci = 256.
Proof.
  intros H. split; [exact (proj1 (hyp_gen_conform m t ans H))|].
  split; [|repeat split].
  unfold ans8, w8, gen_mod, gen_bits. change (2 ^ 8) with 256. apply N.mod_lt. discriminate.
Qed.

(* ---- 2. one configuration read of 1 / 2 / 4 / 8 bytes ---- *)
Theorem hyp_cfg_read_is_pci_read m t r wl s a off ans :
  ht_cfg t = Some r -> region_fits r -> r_size r = 4 * wl -> wl < 2 ^ 30 -> off < two64 ->
  (s = 1 \/ s = 2 \/ s = 4 \/ s = 8) ->
  let w := mkWin true wl (r_paddr r) in
  fst (hyp_cfg_read m t s a off ans) = fst (Config.cfg_read m TPci w s a off [ans])
  /\ snd (hyp_cfg_read m t s a off ans)
     = map (fun c => MR (r_paddr r + c_off c) (c_width c) (c_val c)) (snd (Config.cfg_read m TPci w s a off [ans])).
Proof.
  intros Ec Hfit Hsz Hwl Hoff Hs. cbv zeta.
  assert (Hcf : cfg_fits t s).
  { intros r' E'. rewrite Ec in E'. inversion E'; subst r'. split; [exact Hfit|left; lia]. }
  rewrite (hyp_cfg_read_complete m t s a off ans Hoff Hcf), Ec.
  rewrite (cfg_read_cases m TPci (mkWin true wl (r_paddr r)) s a off [ans]) by exact Hwl.
  unfold access_verdict, spec_window. cbn [w_present w_len w_base negb].
  destruct (4 <? a); [split; reflexivity|]. cbn [orb].
  destruct (off mod a =? 0); cbn [negb]; [|split; reflexivity].
  rewrite Hsz. destruct (off + s <=? 4 * wl); [|split; reflexivity].
  assert (Hc : chunks (w64 (r_paddr r + off)) off s = [(off, s)])
    by (unfold chunks; destruct Hs as [->|[->|[->| ->]]]; reflexivity).
  rewrite Hc. cbn [ans_trace assemble c_val c_off c_width tl map fst snd].
  rewrite N.sub_diag. change (pow256 0) with 1. rewrite N.mul_1_r, N.add_0_r.
  replace (s <=? 8) with true by lia.
  assert (Hcut : cut s ans = ans mod pow256 s)
    by (unfold cut, pow256; destruct Hs as [->|[->|[->| ->]]]; reflexivity).
  rewrite Hcut. split; reflexivity.
Qed.

(* ---- 3. multi-field reads are never torn ---- *)
(* For EVERY closure (any tree of configuration reads, data-dependent or not), every device state, EVERY
   schedule of configuration updates placed before individual hypercall reads (generation byte or
   device-specific region): if every update bumps the one-byte generation and fewer than 256 updates fall
   inside each attempt, the value read_consistent returns over the hypercall transport is the closure
   evaluated on ONE configuration image the device exposed, which is still the one exposed on return. *)
Theorem hyp_read_consistent_untorn p :
  forall fuel d sc r d' sc' tr,
  d_gen d < 256 ->
  Forall (fun n => n < 256) (attempt_updates fuel TPci p d sc) ->
  read_consistent fuel TPci p d sc = Some (r, d', sc', tr) ->
  is_panic r = false ->
  In (d_cfg d') (history d sc) /\ r = eval p (d_cfg d').
Proof. exact (read_consistent_untorn TPci p ltac:(discriminate)). Qed.

(* and the loop ends as soon as the device stops changing its configuration (no bound on the attempts) *)
Theorem hyp_read_consistent_terminates p : forall fuel d sc,
  d_gen d < 256 -> total_updates sc < N.of_nat fuel ->
  read_consistent fuel TPci p d sc <> None.
Proof. exact (read_consistent_terminates TPci p). Qed.

(* ---- 4. a bounded retry that returns the last attempt's value is not this loop ---- *)
(* the seeded change C13-m19: at most `max` attempts; when the generation still differs after the last one,
   its value is returned *)
Fixpoint read_consistent_bounded (max : nat) (tk : tkind) (p : prog) (d : dev) (sc : sched)
  : option (res * dev * sched * list cacc) :=
  match max with
  | O => None
  | S f =>
      let '(g1, d1, sc1, t1, _) := read_gen tk d sc in
      let '(r, d2, sc2, t2, _) := run_dev tk p d1 sc1 in
      if is_panic r then Some (r, d2, sc2, t1 ++ t2)
      else
        let '(g2, d3, sc3, t3, _) := read_gen tk d2 sc2 in
        if (g1 =? g2) || match f with O => true | _ => false end then Some (r, d3, sc3, t1 ++ t2 ++ t3)
        else match read_consistent_bounded f tk p d3 sc3 with
             | Some (r', d', sc', t') => Some (r', d', sc', t1 ++ t2 ++ t3 ++ t')
             | None => None
             end
  end.

(* block capacity, four attempts, the device resizes itself between capacity_low and capacity_high of each:
   the bounded loop returns low half of image 4, high half of image 5, a capacity the device never exposed;
   the real loop goes on and returns image 5 *)
Definition burst_sched : sched :=
  [[]; []; [img 2]; []; []; []; [img 3]; []; []; []; [img 4]; []; []; []; [img 5]].
Theorem bounded_retry_refuted :
  let w := mkWin true 2 0xfe001000 in
  let p := p_lo_hi Debug TPci w in
  let d := mkDev (img 1) 0xfe in
  (exists d' sc' tr, read_consistent_bounded 4 TPci p d burst_sched = Some (Ok [0x500000004], d', sc', tr))
  /\ (forall i, In i (history d burst_sched) -> eval p i <> Ok [0x500000004])
  /\ Forall (fun n => n < 256) (attempt_updates 6 TPci p d burst_sched)
  /\ (exists tr, read_consistent 6 TPci p d burst_sched = Some (Ok [0x500000005], mkDev (img 5) 2, [], tr))
  /\ some_snapshot_b p (history d burst_sched) (Ok [0x500000004]) = false.
Proof.
  cbv zeta. split; [|split; [|split; [|split]]].
  - do 3 eexists. vm_compute. reflexivity.
  - intros i Hi. cbn in Hi.
    destruct Hi as [<-|[<-|[<-|[<-|[<-|[]]]]]]; vm_compute; intros H; discriminate H.
  - replace (attempt_updates _ _ _ _ _) with [1; 1; 1; 1; 0] by (vm_compute; reflexivity).
    repeat constructor.
  - eexists. vm_compute. reflexivity.
  - vm_compute. reflexivity.
Qed.
