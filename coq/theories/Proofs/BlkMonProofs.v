(* What the block-driver monitors of Extract/BlkIO.v (kinds 1450 .. 1454, property C14) MEAN, and that the model passes them.

   The monitors are boolean functions over flat number lists; the runner evaluates them on what the harness
   (harness/src/scen/c14.rs: a reference block device over the real queue memory) observed of the implementation.
     A. meaning: a TRUE verdict on ANY input list implies the clause of C14, spelled out as equalities on the decoded line
        (no take_parts / shape_eqb / result_conforms / spec_shape in the conclusions; the only specification-side definition
        left is le_val, the little-endian value of a byte list, i.e. the reading of "le32 / le64" of VirtIO 5.2.6);
     B. holds of the model: the line built from the model's own behaviour (Model/Blk.v, Model/BlkWorld.v) gets the verdict
        true, for every operation, sector, length, status byte, feature word and configuration value; these are corollaries
        of the theorems of Proofs/BlkProofs.v (submit_wire, status_map, complete_own, new_config, flush_gating,
        request_blocking), which already state the property on the model in terms of the same specification-side
        definitions the monitors call;
     C. witnesses (Examples) for the places where a monitor asks for more, or less, than the text of C14. *)
From VD Require Import Base.Words Base.ListUpd Model.Queue Model.Blk Model.BlkSpec Model.BlkWorld
  Proofs.QueueInv Proofs.QueueReach Proofs.QueueProps Proofs.BlkProofs Extract.QueueIO Extract.BlkIO.
From Coq Require Import ZArith Lia ZifyBool ZifyN.
Ltac Zify.zify_post_hook ::= Z.div_mod_to_equations.

(* ------------------------------------------------------------------------------------------------ *)
(* small helpers                                                                                      *)
Lemma blk_b2n_one b : [b2n b] = [1] -> b = true.
Proof. destruct b; [reflexivity|discriminate]. Qed.
Lemma blk_b2n_one_rev b : b = true -> [b2n b] = [1].
Proof. now intros ->. Qed.

Lemma n2b_false w : n2b w = false -> w = 0.
Proof. unfold n2b. destruct (N.eqb_spec w 0); [auto|discriminate]. Qed.
Lemma n2b_true w : n2b w = true -> w <> 0.
Proof. unfold n2b. destruct (N.eqb_spec w 0); [discriminate|auto]. Qed.
Lemma n2b_b2n b : n2b (b2n b) = b.
Proof. destruct b; reflexivity. Qed.

(* the dispatcher: a verdict [1] of kind k is a verdict true of the k-th checker *)
Lemma blk_monitor_kinds ins :
  (blk_monitor 1450 ins = [1] <-> mon_wire ins = true)
  /\ (blk_monitor 1451 ins = [1] <-> mon_result ins = true)
  /\ (blk_monitor 1452 ins = [1] <-> mon_config ins = true)
  /\ (blk_monitor 1453 ins = [1] <-> mon_flush ins = true)
  /\ (blk_monitor 1454 ins = [1] <-> mon_disk ins = true).
Proof.
  unfold blk_monitor. cbn [N.eqb Pos.eqb].
  repeat split; intros H; (apply blk_b2n_one in H || apply blk_b2n_one_rev); exact H.
Qed.

(* ------------------------------------------------------------------------------------------------ *)
(* kind 1450: the variable-length part of the line                                                    *)
(* (length, writable) pairs as the harness writes them: two numbers per element of the chain *)
Fixpoint flat_parts (l : list (N * N)) : list N :=
  match l with [] => [] | (a, b) :: t => a :: b :: flat_parts t end.

Lemma flat_parts_length l : length (flat_parts l) = (2 * length l)%nat.
Proof. induction l as [|[a b] t IH]; [reflexivity|]. cbn [flat_parts length]. lia. Qed.

Definition part_of (p : N * N) : N * bool := (fst p, n2b (snd p)).

Lemma take_parts_flat raw r : take_parts (length raw) (flat_parts raw ++ r) = (map part_of raw, r).
Proof.
  induction raw as [|[a b] t IH]; cbn [length flat_parts app take_parts map]; [now destruct r|]. now rewrite IH.
Qed.

(* what a parse says about the list that was parsed; take_parts stops early when the list runs out: then at most one
   number is left over *)
Lemma take_parts_inv : forall k l ps r, take_parts k l = (ps, r) ->
  exists raw, l = flat_parts raw ++ r /\ ps = map part_of raw
              /\ (length raw <= k)%nat /\ (length raw = k \/ (length r <= 1)%nat).
Proof.
  induction k as [|k IH]; intros l ps r H.
  - cbn [take_parts] in H. assert (E : ([] : list (N * bool), l) = (ps, r)) by (destruct l; exact H).
    inversion E; subst. exists []. repeat split; auto.
  - destruct l as [|a [|b rest]]; cbn [take_parts] in H.
    + inversion H; subst. exists []. repeat split; cbn; auto; lia.
    + inversion H; subst. exists []. repeat split; cbn; auto; lia.
    + destruct (take_parts k rest) as [ps' r'] eqn:E. inversion H; subst.
      destruct (IH _ _ _ E) as (raw & E1 & E2 & E3 & E4).
      exists ((a, b) :: raw). cbn [flat_parts app length map]. split; [now rewrite E1 at 1|].
      split; [now rewrite E2|]. split; [lia|]. destruct E4; [left; lia|now right].
Qed.

Lemma shape_eqb_eq : forall a b, shape_eqb a b = true -> a = b.
Proof.
  unfold shape_eqb. induction a as [|[l w] a IH]; intros [|[l' w'] b] H;
    apply andb_prop in H; destruct H as [Hl Hf]; apply N.eqb_eq in Hl; rewrite ?lenN_cons, ?lenN_nil in Hl; try lia.
  - reflexivity.
  - cbn [combine forallb fst snd] in Hf. apply andb_prop in Hf. destruct Hf as [Hp Hf].
    apply andb_prop in Hp. destruct Hp as [H1 H2]. apply N.eqb_eq in H1. apply eqb_prop in H2. subst.
    f_equal. apply IH. rewrite Hf, andb_true_r. apply N.eqb_eq. lia.
Qed.

Lemma shape_eqb_refl a : shape_eqb a a = true.
Proof.
  unfold shape_eqb. rewrite N.eqb_refl. cbn [andb].
  induction a as [|[l w] a IH]; [reflexivity|]. cbn [combine forallb fst snd].
  now rewrite N.eqb_refl, Bool.eqb_reflx, IH.
Qed.

(* the specification's decoder (VirtIO 5.2.6: le32 type at 0, le32 reserved at 4, le64 sector at 8) answers only on a
   list of exactly 16 numbers *)
Lemma spec_decode_hdr_inv hdr t rs sec : spec_decode_hdr hdr = Some (t, rs, sec) ->
  length hdr = 16%nat /\ t = le_val (firstn 4 hdr) /\ rs = le_val (firstn 4 (skipn 4 hdr)) /\ sec = le_val (skipn 8 hdr).
Proof.
  unfold spec_decode_hdr. destruct (N.eqb_spec (lenN hdr) 16) as [E|]; [|discriminate].
  intros H. inversion H; subst. unfold lenN in E. repeat split. lia.
Qed.

(* the specification's request layouts (5.2.6), type by type *)
Lemma spec_shape_inv ty dl sh : spec_shape ty dl = Some sh ->
  (ty = 0 /\ dl <> 0 /\ dl mod 512 = 0 /\ sh = [(16, false); (dl, true); (1, true)])
  \/ (ty = 1 /\ dl <> 0 /\ dl mod 512 = 0 /\ sh = [(16, false); (dl, false); (1, true)])
  \/ (ty = 4 /\ sh = [(16, false); (1, true)])
  \/ (ty = 8 /\ sh = [(16, false); (20, true); (1, true)]).
Proof.
  unfold spec_shape, T_IN, T_OUT, T_FLUSH, T_GET_ID.
  destruct (N.eqb_spec ty 0) as [->|N0].
  { destruct (N.eqb_spec dl 0) as [|D0]; [discriminate|]. destruct (N.eqb_spec (dl mod 512) 0) as [D|]; [|discriminate].
    cbn [negb andb]. intros H. inversion H. left. auto. }
  destruct (N.eqb_spec ty 1) as [->|N1].
  { destruct (N.eqb_spec dl 0) as [|D0]; [discriminate|]. destruct (N.eqb_spec (dl mod 512) 0) as [D|]; [|discriminate].
    cbn [negb andb]. intros H. inversion H. right. left. auto. }
  destruct (N.eqb_spec ty 4) as [->|N4]; [intros H; inversion H; right; right; left; auto|].
  destruct (N.eqb_spec ty 8) as [->|N8]; [intros H; inversion H; right; right; right; auto|discriminate].
Qed.

(* MEANING of kind 1450, for ANY list (in particular an observed one). The line, written by wire_monitor in scen/c14.rs for
   every request the reference device fetched from the avail ring:
     [ty; sector; data_len; data_ok; n; (len, writable) * n; header bytes]
   ty / sector / data_len = what the CALLER asked for (type code 0 IN, 1 OUT, 4 FLUSH, 8 GET_ID; 0 / 20 as data length of a
   flush / id query, sector 0 for both); (len, writable) = the elements the device met walking the chain from the published
   head; header bytes = the bytes of the FIRST element read through its device address; data_ok = the device could parse the
   chain and write its answer, and the device-readable bytes after the first 16 are exactly the caller's data (write) / there
   are none (read, flush, id).
   A true verdict says: the list IS such a line, n is exactly the number of (len, writable) pairs, exactly 16 header bytes
   follow (nothing missing, nothing trailing), their little-endian reading is (type asked for, reserved 0, sector asked
   for), data_ok = 1, and the elements are, per type, exactly
     IN     [16 readable; data_len writable; 1 writable]  with data_len a non-zero multiple of 512
     OUT    [16 readable; data_len readable; 1 writable]  with data_len a non-zero multiple of 512
     FLUSH  [16 readable; 1 writable]
     GET_ID [16 readable; 20 writable; 1 writable]
   (readable = the number 0, writable = any other number; the harness writes 0 / 1). No other type is accepted. *)
Theorem mon1450_meaning ins : blk_monitor 1450 ins = [1] ->
  exists ty sector data_len raw hdr,
    ins = ty :: sector :: data_len :: 1 :: lenN raw :: flat_parts raw ++ hdr
    /\ length hdr = 16%nat
    /\ le_val (firstn 4 hdr) = ty /\ le_val (firstn 4 (skipn 4 hdr)) = 0 /\ le_val (skipn 8 hdr) = sector
    /\ ((ty = 0 /\ data_len <> 0 /\ data_len mod 512 = 0
         /\ exists w1 w2, raw = [(16, 0); (data_len, w1); (1, w2)] /\ w1 <> 0 /\ w2 <> 0)
        \/ (ty = 1 /\ data_len <> 0 /\ data_len mod 512 = 0
            /\ exists w2, raw = [(16, 0); (data_len, 0); (1, w2)] /\ w2 <> 0)
        \/ (ty = 4 /\ exists w2, raw = [(16, 0); (1, w2)] /\ w2 <> 0)
        \/ (ty = 8 /\ exists w1 w2, raw = [(16, 0); (20, w1); (1, w2)] /\ w1 <> 0 /\ w2 <> 0)).
Proof.
  intros H. apply (proj1 (blk_monitor_kinds ins)) in H. unfold mon_wire in H.
  destruct ins as [|ty [|sector [|data_len [|data_ok [|n rest]]]]]; try discriminate H.
  destruct (take_parts (cnt n rest) rest) as [parts hdr] eqn:ET.
  destruct (spec_decode_hdr hdr) as [[[t rs] sec]|] eqn:ED; [|discriminate H].
  destruct (spec_shape ty data_len) as [shape|] eqn:ES; [|discriminate H].
  apply andb_prop in H. destruct H as [H Hok]. apply andb_prop in H. destruct H as [H Hsh].
  apply andb_prop in H. destruct H as [H Hsec]. apply andb_prop in H. destruct H as [Hty Hrs].
  apply N.eqb_eq in Hok, Hsec, Hty, Hrs. apply shape_eqb_eq in Hsh. subst data_ok t rs sec parts.
  destruct (spec_decode_hdr_inv _ _ _ _ ED) as (HL & D1 & D2 & D3).
  destruct (take_parts_inv _ _ _ _ ET) as (raw & E1 & E2 & E3 & E4).
  (* the count is exact: 16 numbers are left after the pairs, so the parse did not stop early *)
  assert (Hn : lenN raw = n).
  { destruct E4 as [E4|E4]; [|lia]. unfold cnt in E4.
    assert (L : length rest = (2 * length raw + 16)%nat) by (rewrite E1, app_length, flat_parts_length; lia).
    unfold lenN in *. lia. }
  exists ty, sector, data_len, raw, hdr. rewrite Hn, <- E1.
  split; [reflexivity|]. split; [exact HL|]. split; [now symmetry|]. split; [now symmetry|]. split; [now symmetry|].
  destruct (spec_shape_inv _ _ _ ES) as [(T & A & B & S)|[(T & A & B & S)|[(T & S)|(T & S)]]]; rewrite S in E2.
  - left. split; [exact T|]. split; [exact A|]. split; [exact B|].
    destruct raw as [|[a0 w0] [|[a1 w1] [|[a2 w2] [|]]]]; try discriminate E2.
    unfold part_of in E2; cbn [map fst snd] in E2. inversion E2; subst.
    exists w1, w2. rewrite (n2b_false w0) by auto. split; [reflexivity|]. split; apply n2b_true; auto.
  - right; left. split; [exact T|]. split; [exact A|]. split; [exact B|].
    destruct raw as [|[a0 w0] [|[a1 w1] [|[a2 w2] [|]]]]; try discriminate E2.
    unfold part_of in E2; cbn [map fst snd] in E2. inversion E2; subst.
    exists w2. rewrite (n2b_false w0), (n2b_false w1) by auto. split; [reflexivity|]. apply n2b_true; auto.
  - right; right; left. split; [exact T|].
    destruct raw as [|[a0 w0] [|[a1 w1] [|]]]; try discriminate E2.
    unfold part_of in E2; cbn [map fst snd] in E2. inversion E2; subst.
    exists w1. rewrite (n2b_false w0) by auto. split; [reflexivity|]. apply n2b_true; auto.
  - right; right; right. split; [exact T|].
    destruct raw as [|[a0 w0] [|[a1 w1] [|[a2 w2] [|]]]]; try discriminate E2.
    unfold part_of in E2; cbn [map fst snd] in E2. inversion E2; subst.
    exists w1, w2. rewrite (n2b_false w0) by auto. split; [reflexivity|]. split; apply n2b_true; auto.
Qed.

(* the layout alone (decode lemma): EVERY list the monitor accepts is a line of the documented layout with a consistent
   count. (take_parts stops early when fewer than 2 n numbers follow; then at most one number would be left as "header",
   which the 16-byte test refuses: so on an accepted list n is exactly the number of pairs, and the header is complete.) *)
Theorem mon1450_decodes ins : blk_monitor 1450 ins = [1] ->
  exists ty sector data_len data_ok raw hdr,
    ins = ty :: sector :: data_len :: data_ok :: lenN raw :: flat_parts raw ++ hdr
    /\ length hdr = 16%nat /\ (2 <= length raw <= 3)%nat.
Proof.
  intros H. destruct (mon1450_meaning ins H) as (ty & sector & dl & raw & hdr & E & HL & _ & _ & _ & S).
  exists ty, sector, dl, 1, raw, hdr. split; [exact E|]. split; [exact HL|].
  destruct S as [(_ & _ & _ & w1 & w2 & -> & _)|[(_ & _ & _ & w2 & -> & _)|[(_ & w2 & -> & _)|(_ & w1 & w2 & -> & _)]]];
    cbn [length]; lia.
Qed.

(* ... and when the sixteen numbers are bytes (the harness writes u8 values) the three little-endian equalities say that
   they are EXACTLY the encoding { type: u32le, reserved: u32le = 0, sector: u64le } of the type and sector asked for *)
Lemma le_bytes_le_val bs : Forall (fun b => b < 256) bs -> le_bytes (length bs) (le_val bs) = bs.
Proof.
  induction 1 as [|b bs Hb _ IH]; [reflexivity|]. cbn [length le_val le_bytes].
  replace ((b + 256 * le_val bs) mod 256) with b by lia.
  replace ((b + 256 * le_val bs) / 256) with (le_val bs) by lia. now rewrite IH.
Qed.

Lemma le_val_bound bs : Forall (fun b => b < 256) bs -> le_val bs < 256 ^ N.of_nat (length bs).
Proof.
  induction 1 as [|b bs Hb _ IH]; [cbn; lia|]. cbn [length le_val].
  replace (N.of_nat (S (length bs))) with (N.succ (N.of_nat (length bs))) by lia. rewrite N.pow_succ_r'. lia.
Qed.

Theorem mon1450_header_bytes ty sector hdr :
  length hdr = 16%nat -> Forall (fun b => b < 256) hdr ->
  le_val (firstn 4 hdr) = ty -> le_val (firstn 4 (skipn 4 hdr)) = 0 -> le_val (skipn 8 hdr) = sector ->
  hdr = enc_req ty sector /\ ty < two32 /\ sector < two64.
Proof.
  intros HL HB.
  do 16 (destruct hdr as [|? hdr]; [discriminate HL|]). destruct hdr; [|discriminate HL]. clear HL.
  repeat match goal with H : Forall _ (_ :: _) |- _ => inversion H; clear H; subst end.
  cbn [firstn skipn]. intros E1 E2 E3.
  match type of E1 with le_val ?l = _ => assert (B1 : Forall (fun b => b < 256) l) by (repeat constructor; assumption) end.
  match type of E2 with le_val ?l = _ => assert (B2 : Forall (fun b => b < 256) l) by (repeat constructor; assumption) end.
  match type of E3 with le_val ?l = _ => assert (B3 : Forall (fun b => b < 256) l) by (repeat constructor; assumption) end.
  pose proof (le_bytes_le_val _ B1) as L1. pose proof (le_bytes_le_val _ B2) as L2. pose proof (le_bytes_le_val _ B3) as L3.
  pose proof (le_val_bound _ B1) as U1. pose proof (le_val_bound _ B3) as U3.
  cbn [length] in L1, L2, L3, U1, U3. rewrite E1 in L1, U1. rewrite E2 in L2. rewrite E3 in L3, U3.
  unfold enc_req. rewrite L1, L2, L3. split; [reflexivity|]. split; [exact U1|exact U3].
Qed.

(* ------------------------------------------------------------------------------------------------ *)
(* the status table (5.2.6: S_OK 0, S_IOERR 1, S_UNSUPP 2), read as a case list; EIoError = 7, EUnsupported = 8 are the
   framework's numbers of Error::IoError / Error::Unsupported (Base/Words.v, harness common::err_code) *)
Lemma result_conforms_iff st class code :
  result_conforms st class code = true <->
  (st = 0 -> class = 0) /\ (st = 1 -> class = 1 /\ code = EIoError) /\ (st = 2 -> class = 1 /\ code = EUnsupported)
  /\ (2 < st -> class = 1).
Proof.
  unfold result_conforms, spec_status, S_OK, S_IOERR, S_UNSUPP.
  destruct (N.eqb_spec st 0) as [->|N0].
  { rewrite N.eqb_eq. split; [intros ->; repeat split; intros; try lia; discriminate|intros (A & _); auto]. }
  destruct (N.eqb_spec st 1) as [->|N1].
  { rewrite andb_true_iff, !N.eqb_eq. split; [intros (-> & ->); repeat split; intros; try lia; discriminate|intros (_ & A & _); auto]. }
  destruct (N.eqb_spec st 2) as [->|N2].
  { rewrite andb_true_iff, !N.eqb_eq. split; [intros (-> & ->); repeat split; intros; try lia; discriminate|intros (_ & _ & A & _); auto]. }
  rewrite N.eqb_eq. split; [intros ->; repeat split; intros; lia|intros (_ & _ & _ & A); apply A; lia].
Qed.

(* MEANING of kind 1451, one completion (written after every complete_* that popped, and after every blocking call the device
   saw): [st; class; code; data_ok; others_ok; shares_ok]
   st = the status byte the reference device wrote for THIS token; class / code = the call's result (0 = Ok; 1 = Err code);
   data_ok = the caller's data buffer holds exactly the bytes the device supplied for THIS token (read / id; for a write:
   header and data buffer untouched); others_ok = the buffers of every other outstanding request are as before;
   shares_ok = the live shares are exactly those of the requests still outstanding.
   A true verdict says: exactly these six numbers, the three flags are 1, and the result is the one the status stands for:
   0 -> Ok; 1 -> Err IoError; 2 -> Err Unsupported; any other value -> some error (not Ok; the code is free: the text
   of C14 defines no "corresponding error" for values VirtIO does not define; the driver answers NotReady to 3 and
   IoError to the rest). For st = 0 the code is not looked at (device_id returns the length there).
   (The harness also uses kind 1451 with st = 0 to report five flag-only checks - refused completions change nothing, a
   submission leaves the other requests' buffers alone, nothing is left shared at the end, an undocumented panic -: there
   "class" is a flag that must be 0.) *)
Theorem mon1451_meaning ins : blk_monitor 1451 ins = [1] ->
  exists st class code,
    ins = [st; class; code; 1; 1; 1]
    /\ (st = 0 -> class = 0) /\ (st = 1 -> class = 1 /\ code = EIoError) /\ (st = 2 -> class = 1 /\ code = EUnsupported)
    /\ (2 < st -> class = 1).
Proof.
  intros H. apply (proj1 (proj2 (blk_monitor_kinds ins))) in H. unfold mon_result in H.
  destruct ins as [|st [|class [|code [|d [|o [|sh [|]]]]]]]; try discriminate H.
  apply andb_prop in H. destruct H as [H H3]. apply andb_prop in H. destruct H as [H H2].
  apply andb_prop in H. destruct H as [H0 H1]. apply N.eqb_eq in H1, H2, H3. subst.
  exists st, class, code. split; [reflexivity|]. exact (proj1 (result_conforms_iff _ _ _) H0).
Qed.

(* MEANING of kind 1452, written once after every successful VirtIOBlk::new:
   [lo; hi; cap; dev_feats; accepted; ro]  lo / hi = the device's capacity_low / capacity_high config words when new
   returned; cap = capacity(); dev_feats = the feature word the device offered; accepted = the word the driver wrote back;
   ro = readonly() as 0 / 1.
   A true verdict says: capacity() = lo + 2^32 hi; readonly() is true exactly when the DEVICE offers VIRTIO_BLK_F_RO (bit 5);
   and the driver accepted bit 5, and bit 9 (VIRTIO_BLK_F_FLUSH), exactly when the device offered it. (The last two clauses
   are about negotiation: the text of C14 does not ask the driver to ACCEPT flush when offered - see the audit Examples.) *)
Theorem mon1452_meaning ins : blk_monitor 1452 ins = [1] ->
  exists lo hi cap dev_feats accepted ro,
    ins = [lo; hi; cap; dev_feats; accepted; ro]
    /\ cap = lo + 4294967296 * hi
    /\ (ro <> 0 <-> N.testbit dev_feats 5 = true).
Proof.
  intros H. apply (proj1 (proj2 (proj2 (blk_monitor_kinds ins)))) in H. unfold mon_config in H.
  destruct ins as [|lo [|hi [|cap [|df [|acc [|ro [|]]]]]]]; try discriminate H.
  apply andb_prop in H. destruct H as [H1 H2]. apply N.eqb_eq in H1. apply eqb_prop in H2.
  unfold spec_capacity, spec_readonly, F_RO_BIT in *.
  exists lo, hi, cap, df, acc, ro. split; [reflexivity|]. split; [exact H1|].
  rewrite <- H2. unfold n2b. destruct (N.eqb_spec ro 0); cbn [negb]; split; intros; congruence.
Qed.

(* MEANING of kind 1453, written after every flush(): [accepted; seen; ty; class; code; st]
   accepted = the feature word the driver wrote back at negotiation; seen = how many requests the reference device received
   during the call; ty = the type field of the request it received (0 if none); class / code = the result of flush();
   st = the status the device answered.
   A true verdict says: with VIRTIO_BLK_F_FLUSH (bit 9) accepted exactly ONE request reached the device, it was a FLUSH
   (type 4) and the result is the one the device's status stands for (table of kind 1451); without it NOTHING reached the
   device and flush() returned Ok (the text of C14 only says "sent only when negotiated": Ok is what blk.rs documents). *)
Theorem mon1453_meaning ins : blk_monitor 1453 ins = [1] ->
  exists accepted seen ty class code st,
    ins = [accepted; seen; ty; class; code; st]
    /\ (N.testbit accepted 9 = true ->
        seen = 1 /\ ty = 4
        /\ (st = 0 -> class = 0) /\ (st = 1 -> class = 1 /\ code = EIoError)
        /\ (st = 2 -> class = 1 /\ code = EUnsupported) /\ (2 < st -> class = 1))
    /\ (N.testbit accepted 9 = false -> seen = 0).
Proof.
  intros H. apply (proj1 (proj2 (proj2 (proj2 (blk_monitor_kinds ins))))) in H. unfold mon_flush in H.
  destruct ins as [|acc [|seen [|ty [|class [|code [|st [|]]]]]]]; try discriminate H.
  unfold spec_may_flush, F_FLUSH_BIT, T_FLUSH in H.
  exists acc, seen, ty, class, code, st. split; [reflexivity|].
  destruct (N.testbit acc 9); (split; [|intros X; try discriminate X]); try (intros X; discriminate X).
  - intros _. apply andb_prop in H. destruct H as [H H3]. apply andb_prop in H. destruct H as [H1 H2].
    apply N.eqb_eq in H1, H2. split; [exact H1|]. split; [exact H2|]. exact (proj1 (result_conforms_iff _ _ _) H3).
  - apply N.eqb_eq in H. exact H.
Qed.

(* MEANING of kind 1454 (differential check, written after every successful read / write): [n; eq]  n = number of sectors
   compared, eq = every one of them is the same on the reference disk and in the caller-side expectation (and, for a read,
   in the caller's buffer). A true verdict says eq = 1; n is NOT looked at (n = 0 would be a vacuous comparison; the harness
   only writes the line after a successful transfer, whose length asserts make n >= 1). *)
Theorem mon1454_meaning ins : blk_monitor 1454 ins = [1] -> exists n, ins = [n; 1].
Proof.
  intros H. apply (proj2 (proj2 (proj2 (proj2 (blk_monitor_kinds ins))))) in H. unfold mon_disk in H.
  destruct ins as [|n [|e [|]]]; try discriminate H. apply N.eqb_eq in H. subst. now exists n.
Qed.

(* ================================================================================================ *)
(* B. the model passes its own monitors                                                              *)

(* the 1450 line as wire_monitor (scen/c14.rs) builds it from what the reference device saw: the elements (addr, len,
   writable) of the chain it walked (the address is not written), and the bytes it read at the first element *)
Definition enc_part (e : N * N * bool) : N * N := (snd (fst e), b2n (snd e)).
Definition wire_line (ty sector data_len data_ok : N) (els : list (N * N * bool)) (first : list N) : list N :=
  ty :: sector :: data_len :: data_ok :: lenN els :: flat_parts (map enc_part els) ++ first.

Lemma parts_of_enc els : map part_of (map enc_part els) = strip_addr els.
Proof.
  unfold strip_addr. rewrite map_map. apply map_ext. intros [[a l] wr]. unfold part_of, enc_part. cbn [fst snd].
  now rewrite n2b_b2n.
Qed.

(* on such a line with a 16-number header the monitor is exactly the conjunction over the decoded parts *)
Lemma mon_wire_line ty sector dl data_ok els first : length first = 16%nat ->
  mon_wire (wire_line ty sector dl data_ok els first)
  = match spec_decode_hdr first, spec_shape ty dl with
    | Some (t, rs, sec), Some shape =>
        (t =? ty) && (rs =? 0) && (sec =? sector) && shape_eqb (strip_addr els) shape && (data_ok =? 1)
    | _, _ => false
    end.
Proof.
  intros HL. unfold wire_line, mon_wire.
  set (rest := flat_parts (map enc_part els) ++ first).
  assert (C : cnt (lenN els) rest = length (map enc_part els)).
  { unfold cnt, rest, lenN. rewrite app_length, flat_parts_length, map_length, HL. lia. }
  rewrite C. unfold rest. rewrite take_parts_flat, parts_of_enc. reflexivity.
Qed.

(* what the device reads at the address of the first element after a submission is the header the driver encoded *)
Lemma submit_dev_header s chains h w r taddr ae uf tok s' evs w' :
  Reach (b_q s) chains h -> req_ok r ->
  blk_submit_w s w r taddr ae uf = (Ok tok, s', evs, w') ->
  takeN 16 (w_dev w' (b_addr (r_hdr r))) = hdr_bytes r.
Proof.
  intros HR Hok Hrun.
  unfold blk_submit_w, blk_submit in Hrun. rewrite (req_ok_asserts r Hok) in Hrun. cbn [negb] in Hrun.
  destruct (add (b_q s) (req_ins r) (req_outs r) taddr) as [[o q'] qe] eqn:Hadd.
  destruct o as [tok'| | |]; try discriminate.
  injection Hrun as <- <- <- <-.
  pose proof (req_ok_bufs_ok r Hok) as Hbok. unfold req_bufs in Hbok.
  rewrite qevs_app, qevs_map_BQ.
  assert (Hq0 : qevs (if should_notify q' ae uf then [BNotify] else []) = []) by (destruct (should_notify q' ae uf); reflexivity).
  rewrite Hq0, app_nil_r.
  destruct (Reach_Inv _ _ _ HR) as [HI _].
  rewrite (add_world (b_q s) chains _ _ taddr tok' q' qe HI Hbok Hadd).
  unfold store_hdr. rewrite (req_ok_asserts r Hok).
  destruct Hok as (Hh & Hr & Hd & Hsec & Hid1 & Hid2).
  pose proof (hdr_bytes_len r) as Hlen.
  unfold req_ins, req_outs, has_data in *.
  destruct r as [op sector [hid hl ha] [did dl da] [rid rl ra]].
  cbn [r_op r_sector r_hdr r_data r_resp b_id b_len b_addr] in *. subst hl rl.
  destruct op; cbn [tag_bufs map app buf_shares fold_left hal_share hal_ev fst snd b_id b_len b_addr w_caller w_dev].
  - rewrite !aset_eq, takeN_idem. now apply takeN_all.
  - destruct (Hid2 eq_refl) as (_ & _ & A1). rewrite (aset_neq _ da _ ha A1), !aset_eq, takeN_idem. now apply takeN_all.
  - rewrite !aset_eq, takeN_idem. now apply takeN_all.
  - rewrite !aset_eq, takeN_idem. now apply takeN_all.
Qed.

Lemma elems_req_hd r : hd (0, 0, false) (elems (req_bufs r)) = (b_addr (r_hdr r), b_len (r_hdr r), false).
Proof. unfold req_bufs, req_ins, req_outs. destruct (r_op r); reflexivity. Qed.

(* kind 1450 HOLDS OF THE MODEL: for every submission (read, write, flush, id query; blocking or not; any reachable queue
   state with anything outstanding; any sector < 2^64, any legal data length, any share addresses, any caller memory), the
   line built from what a device finds - els = the walk of the chain from the published head, header = the bytes at the first
   element's device address in the world after the call - passes the monitor. data_ok is the harness's flag; it is 1
   whenever the specification-side parse of the chain yields the expected request (for a write: exactly the caller's bytes
   as readable data, else no readable data), which submit_wire proves of the model. *)
Theorem mon1450_holds_of_model s chains h w r taddr ae uf tok s' evs w' tmem els data_ok :
  Reach (b_q s) chains h -> req_ok r ->
  blk_submit_w s w r taddr ae uf = (Ok tok, s', evs, w') ->
  (forall ta tbl, c_tbl (new_chain (b_q s) (req_ins r) (req_outs r) taddr) = Some (ta, tbl) -> tmem ta = Some tbl) ->
  walk (q_dtable (b_q s')) tmem tok (N.to_nat (q_size (b_q s'))) = Some els ->
  (dev_parse els (w_dev w') = Some (expect_sreq w r) -> data_ok = 1) ->
  blk_monitor 1450 (wire_line (op_type (r_op r)) (r_sector r) (data_len r) data_ok els
                      (el_bytes (w_dev w') (hd (0, 0, false) els))) = [1].
Proof.
  intros HR Hok Hrun Hmem Hwalk Hdata.
  destruct (submit_wire s chains h w r taddr ae uf tok s' evs w' tmem HR Hok Hrun Hmem) as (Hw & Hshape & Hparse & _).
  cbv zeta in Hw, Hshape, Hparse. rewrite Hw in Hwalk. injection Hwalk as <-.
  rewrite (Hdata Hparse).
  pose proof (submit_dev_header s chains h w r taddr ae uf tok s' evs w' HR Hok Hrun) as Hhdr.
  apply (proj2 (proj1 (blk_monitor_kinds _))).
  rewrite elems_req_hd. unfold el_bytes. cbn [fst snd].
  destruct Hok as (Hh & _ & _ & Hsec & _). rewrite Hh, Hhdr.
  rewrite mon_wire_line by (unfold hdr_bytes; apply enc_req_length).
  assert (Hdec : spec_decode_hdr (hdr_bytes r) = Some (op_type (r_op r), 0, r_sector r)).
  { unfold hdr_bytes, w64. rewrite (N.mod_small (r_sector r)) by exact Hsec. apply hdr_roundtrip; [apply op_type_lt|exact Hsec]. }
  rewrite Hdec, Hshape, !N.eqb_refl, shape_eqb_refl. reflexivity.
Qed.

(* the same for the request a BLOCKING call (read_blocks, write_blocks, flush with the feature, device_id) puts on an idle
   queue: request_blocking shows that it is one submission of the kind above *)
Theorem mon1450_holds_of_blocking s h w r taddr ae uf dev polls u_id u_len o s2 evs w3 tmem data_ok :
  Reach (b_q s) [] h -> q_size (b_q s) = 16 -> req_ok r ->
  blk_request_w s w r taddr ae uf dev polls u_id u_len = Some (o, s2, evs, w3) ->
  (forall ta tbl, c_tbl (new_chain (b_q s) (req_ins r) (req_outs r) taddr) = Some (ta, tbl) -> tmem ta = Some tbl) ->
  let w0 := mkW (aset (w_caller w) (b_id (r_resp r)) [RESP_DEFAULT]) (w_dev w) in
  exists tok s1 evs1 w1,
    blk_submit_w s w0 r taddr ae uf = (Ok tok, s1, evs1, w1)
    /\ walk (q_dtable (b_q s1)) tmem tok (N.to_nat (q_size (b_q s1))) = Some (elems (req_bufs r))
    /\ ((dev_parse (elems (req_bufs r)) (w_dev w1) = Some (expect_sreq w0 r) -> data_ok = 1) ->
        blk_monitor 1450 (wire_line (op_type (r_op r)) (r_sector r) (data_len r) data_ok (elems (req_bufs r))
                            (el_bytes (w_dev w1) (hd (0, 0, false) (elems (req_bufs r))))) = [1]).
Proof.
  intros HR Hsz Hok Hrun Hmem w0.
  destruct (request_blocking s h w r taddr ae uf dev polls u_id u_len o s2 evs w3 tmem HR Hsz Hok Hrun Hmem)
    as (tok & s1 & evs1 & w1 & Hsub & Hwalk & _).
  exists tok, s1, evs1, w1. split; [exact Hsub|]. split; [exact Hwalk|]. intros Hd.
  exact (mon1450_holds_of_model s [] h w0 r taddr ae uf tok s1 evs1 w1 tmem _ data_ok HR Hok Hsub Hmem Hwalk Hd).
Qed.

(* kind 1451 HOLDS OF THE MODEL, status part, for EVERY status byte: the result class / code of the driver's status
   conversion conforms to the byte (status_map of BlkProofs.v, restated on the monitor) *)
Theorem mon1451_holds_for_every_status st : st < 256 ->
  blk_monitor 1451 [st; fst (outcome_class (status_result (w8 st))); snd (outcome_class (status_result (w8 st))); 1; 1; 1] = [1].
Proof.
  intros Hst. apply (proj2 (proj1 (proj2 (blk_monitor_kinds _)))). unfold mon_result, w8. rewrite (N.mod_small st) by exact Hst.
  destruct (status_map st) as (_ & _ & _ & _ & _ & ->). reflexivity.
Qed.

(* kind 1451 HOLDS OF THE MODEL, the whole line: one completion of the request r0 whose chain c is ANYWHERE among the
   outstanding ones (pre, post arbitrary), the device having put its token next in the used ring, for every content of
   device-visible memory: st = the byte at THIS request's status address. The three flags are the harness's comparisons;
   each is 1 whenever the fact it stands for holds of the memory after the call, and complete_own proves these facts. *)
Theorem mon1451_holds_of_model s pre c post h w r r0 u_idx u_id u_len o s' evs w' data_ok others_ok shares_ok :
  Reach (b_q s) (pre ++ c :: post) h ->
  c_bufs c = req_bufs r0 -> keys (req_bufs r) = keys (req_bufs r0) -> req_ok r0 ->
  q_last_used (b_q s) <> w16 u_idx -> w16 u_id = c_head c ->
  blk_complete_w s w (c_head c) r u_idx u_id u_len = (o, s', evs, w') ->
  let st := hd 0 (w_dev w (b_addr (r_resp r0))) in
  st < 256 ->
  ((is_read r0 = true ->
    w_caller w' (b_id (r_data r0)) = takeN (b_len (r_data r0)) (w_dev w (b_addr (r_data r0)))) -> data_ok = 1) ->
  ((forall id, id <> b_id (r_resp r0) -> (is_read r0 = true -> id <> b_id (r_data r0)) -> w_caller w' id = w_caller w id) ->
   others_ok = 1) ->
  (Reach (b_q s') (pre ++ post) (h ++ qevs evs) -> shares_ok = 1) ->
  blk_monitor 1451 [st; fst (outcome_class o); snd (outcome_class o); data_ok; others_ok; shares_ok] = [1].
Proof.
  intros HR Hcb Hkeys Hok E1 E2 Hrun st Hst Hd Ho Hs.
  destruct (complete_own s pre c post h w r r0 u_idx u_id u_len HR Hcb Hkeys Hok) as (_ & _ & P3).
  destruct (P3 E1 E2) as (s1 & evs1 & w1 & Hrun' & HR1 & _ & Hdata & Hframe & _).
  rewrite Hrun' in Hrun. injection Hrun as <- <- <- <-.
  rewrite (Hd Hdata), (Ho Hframe), (Hs HR1). fold st. exact (mon1451_holds_for_every_status st Hst).
Qed.

(* kind 1452 HOLDS OF THE MODEL: for every device feature word and every behaviour of the config space on which new
   succeeds, with lo / hi = the two capacity words of the attempt the driver used (the first whose generation did not
   move), accepted = the word the driver writes back (the TWriteFeatures event) *)
Theorem mon1452_holds_of_model dev_features tries s pre post :
  blk_new dev_features tries = Some (Ok s, pre, post) ->
  exists tpre t tpost lo hi,
    tries = tpre ++ t :: tpost /\ Forall (fun x => ~ stable x) tpre /\ stable t
    /\ t_lo t = Some lo /\ t_hi t = Some hi
    /\ In (TWriteFeatures (b_feat s)) pre
    /\ blk_monitor 1452 [w32 lo; w32 hi; blk_capacity s; dev_features; b_feat s; b2n (blk_readonly s)] = [1].
Proof.
  intros H. destruct (new_config dev_features tries s pre post H) as ((tpre & t & tpost & lo & hi & E & A & B & C & D & Hcap) & Hro & _ & Hf & _).
  exists tpre, t, tpost, lo, hi. split; [exact E|]. split; [exact A|]. split; [exact B|]. split; [exact C|]. split; [exact D|].
  split.
  { unfold blk_new in H. destruct (read_capacity tries) as [[rr|] cevs]; [|discriminate].
    destruct rr as [cap| | |]; try discriminate. injection H as _ <- _. rewrite Hf.
    do 3 right. left. reflexivity. }
  apply (proj2 (proj1 (proj2 (proj2 (blk_monitor_kinds _))))). unfold mon_config.
  rewrite Hcap, N.eqb_refl, n2b_b2n, Hro. unfold spec_readonly, F_RO_BIT.
  rewrite ?Bool.eqb_reflx. reflexivity.
Qed.

(* kind 1453 HOLDS OF THE MODEL. Without the feature flush() is Ok with NO event (nothing shared, published or notified:
   the device receives nothing, seen = 0); with it flush() is one blocking FLUSH request (flush_gating), the device parses
   type 4 from the chain, and the result is the mapped status byte the device left (request_blocking; idle queue and the
   device completing this request, as add_notify_wait_pop documents). *)
Theorem mon1453_holds_of_model s h w hdr resp taddr ae uf dev polls u_id u_len tmem :
  let r := mkReq OpFlush 0 hdr (mkBuf 0 0 0) resp in
  Reach (b_q s) [] h -> q_size (b_q s) = 16 -> req_ok r ->
  (forall ta tbl, c_tbl (new_chain (b_q s) (req_ins r) (req_outs r) taddr) = Some (ta, tbl) -> tmem ta = Some tbl) ->
  (has_feat (b_feat s) BF_FLUSH = false -> forall st ty code,
     blk_flush s hdr resp taddr ae uf polls u_id u_len st = Some (Ok tt, s, [], 0)
     /\ blk_monitor 1453 [b_feat s; 0; ty; 0; code; st] = [1])
  /\ (has_feat (b_feat s) BF_FLUSH = true ->
      (forall st0, blk_flush s hdr resp taddr ae uf polls u_id u_len st0
                   = blk_request s r taddr ae uf polls u_id u_len st0)
      /\ forall o s2 evs w3,
         blk_request_w s w r taddr ae uf dev polls u_id u_len = Some (o, s2, evs, w3) ->
         exists tok s1 evs1 w1 sr,
           blk_submit_w s (mkW (aset (w_caller w) (b_id resp) [RESP_DEFAULT]) (w_dev w)) r taddr ae uf = (Ok tok, s1, evs1, w1)
           /\ dev_parse (elems (req_bufs r)) (w_dev w1) = Some sr
           /\ (w16 u_id = tok ->
               let st := hd 0 (dev (w_dev w1) (b_addr resp)) in
               st < 256 ->
               blk_monitor 1453 [b_feat s; 1; s_type sr; fst (outcome_class o); snd (outcome_class o); st] = [1])).
Proof.
  intros r HR Hsz Hok Hmem.
  assert (Hbit : N.testbit (b_feat s) 9 = has_feat (b_feat s) BF_FLUSH).
  { change BF_FLUSH with (2 ^ 9). symmetry. apply has_feat_testbit. }
  split.
  - intros Hf st ty code. split; [exact (proj1 (flush_gating s hdr resp taddr ae uf polls u_id u_len st) Hf)|].
    apply (proj2 (proj1 (proj2 (proj2 (proj2 (blk_monitor_kinds _)))))). unfold mon_flush, spec_may_flush, F_FLUSH_BIT.
    rewrite Hbit, Hf. reflexivity.
  - intros Hf. split; [intros st0; exact (proj2 (flush_gating s hdr resp taddr ae uf polls u_id u_len st0) Hf)|].
    intros o s2 evs w3 Hrun.
    destruct (request_blocking s h w r taddr ae uf dev polls u_id u_len o s2 evs w3 tmem HR Hsz Hok Hrun Hmem)
      as (tok & s1 & evs1 & w1 & Hsub & _ & Hparse & Hres & _).
    exists tok, s1, evs1, w1, (expect_sreq (mkW (aset (w_caller w) (b_id (r_resp r)) [RESP_DEFAULT]) (w_dev w)) r).
    split; [exact Hsub|]. split; [exact Hparse|]. intros Etok st Hst.
    destruct (Hres Etok) as (Ho & _). cbn [r_resp r] in Ho. fold st in Ho.
    apply (proj2 (proj1 (proj2 (proj2 (proj2 (blk_monitor_kinds _)))))). unfold mon_flush, spec_may_flush, F_FLUSH_BIT.
    rewrite Hbit, Hf. cbn [expect_sreq s_type r r_op op_type]. unfold T_FLUSH. rewrite !N.eqb_refl. cbn [andb].
    rewrite Ho. unfold w8. rewrite (N.mod_small st) by exact Hst.
    destruct (status_map st) as (_ & _ & _ & _ & _ & ->). reflexivity.
Qed.

(* ================================================================================================ *)
(* C. audit witnesses (all by computation)                                                           *)
Definition ex_hdr_in5 : list N := [0;0;0;0; 0;0;0;0; 5;0;0;0;0;0;0;0].      (* IN, reserved 0, sector 5 *)

(* a read of one sector at sector 5, as the device should see it *)
Example mon1450_accepts_read : mon_wire ([0; 5; 512; 1; 3; 16;0; 512;1; 1;1] ++ ex_hdr_in5) = true.
Proof. vm_compute. reflexivity. Qed.
(* the header must be exactly 16 numbers: one trailing number, one missing number, a count that is too small (the third pair
   would be read as header) or too large are all refused *)
Example mon1450_rejects_trailing_header_byte : mon_wire ([0; 5; 512; 1; 3; 16;0; 512;1; 1;1] ++ ex_hdr_in5 ++ [0]) = false.
Proof. vm_compute. reflexivity. Qed.
Example mon1450_rejects_short_header : mon_wire ([0; 5; 512; 1; 3; 16;0; 512;1; 1;1] ++ firstn 15 ex_hdr_in5) = false.
Proof. vm_compute. reflexivity. Qed.
Example mon1450_rejects_small_count : mon_wire ([0; 5; 512; 1; 2; 16;0; 512;1; 1;1] ++ ex_hdr_in5) = false.
Proof. vm_compute. reflexivity. Qed.
Example mon1450_rejects_large_count : mon_wire ([0; 5; 512; 1; 4; 16;0; 512;1; 1;1] ++ ex_hdr_in5) = false.
Proof. vm_compute. reflexivity. Qed.
(* the direction of every part is tested for every type: a read whose data part is device-readable, a write whose data part
   is device-writable, a readable status byte, a writable header *)
Example mon1450_rejects_readable_read_data : mon_wire ([0; 5; 512; 1; 3; 16;0; 512;0; 1;1] ++ ex_hdr_in5) = false.
Proof. vm_compute. reflexivity. Qed.
Example mon1450_rejects_writable_write_data :
  mon_wire ([1; 5; 512; 1; 3; 16;0; 512;1; 1;1] ++ [1;0;0;0; 0;0;0;0; 5;0;0;0;0;0;0;0]) = false.
Proof. vm_compute. reflexivity. Qed.
Example mon1450_rejects_readable_status : mon_wire ([0; 5; 512; 1; 3; 16;0; 512;1; 1;0] ++ ex_hdr_in5) = false.
Proof. vm_compute. reflexivity. Qed.
Example mon1450_rejects_writable_header : mon_wire ([0; 5; 512; 1; 3; 16;1; 512;1; 1;1] ++ ex_hdr_in5) = false.
Proof. vm_compute. reflexivity. Qed.
(* MORE than the text of C14 ("encodes the operation type and starting sector exactly"): a non-zero reserved word is refused
   (it is what blk.rs writes and what the model states; VirtIO 5.2.6 only names the field) *)
Example mon1450_rejects_nonzero_reserved :
  mon_wire ([0; 5; 512; 1; 3; 16;0; 512;1; 1;1] ++ [0;0;0;0; 1;0;0;0; 5;0;0;0;0;0;0;0]) = false.
Proof. vm_compute. reflexivity. Qed.
(* the data length the caller passes is not looked at for a flush / id query (the shape is fixed by the type) *)
Example mon1450_ignores_data_len_of_flush :
  mon_wire ([4; 0; 77777; 1; 2; 16;0; 1;1] ++ [4;0;0;0; 0;0;0;0; 0;0;0;0;0;0;0;0]) = true.
Proof. vm_compute. reflexivity. Qed.
(* LESS, harmless: the header numbers are not tested to be bytes (the harness writes u8 values): 261 in the first sector
   position reads as sector 261 like the bytes 5, 1 *)
Example mon1450_accepts_non_byte_header_numbers :
  mon_wire ([0; 261; 512; 1; 3; 16;0; 512;1; 1;1] ++ [0;0;0;0; 0;0;0;0; 261;0;0;0;0;0;0;0]) = true.
Proof. vm_compute. reflexivity. Qed.

(* 1451: for a status VirtIO does not define, ANY error code passes (no particular code is demanded beyond the text);
   for 1 and 2 the corresponding error is demanded; success never passes for a non-zero status *)
Example mon1451_undefined_status_any_error :
  mon_result [3; 1; ENotReady; 1; 1; 1] = true /\ mon_result [3; 1; EIoError; 1; 1; 1] = true
  /\ mon_result [200; 1; EDmaError; 1; 1; 1] = true /\ mon_result [3; 0; 0; 1; 1; 1] = false.
Proof. vm_compute. repeat split. Qed.
Example mon1451_defined_status_exact_error :
  mon_result [1; 1; EUnsupported; 1; 1; 1] = false /\ mon_result [2; 1; EIoError; 1; 1; 1] = false
  /\ mon_result [1; 1; EIoError; 1; 1; 1] = true /\ mon_result [2; 1; EUnsupported; 1; 1; 1] = true.
Proof. vm_compute. repeat split. Qed.

(* 1452 says what the text of C14 says and no more: a driver that reports capacity and read-only state correctly but does not
   ACCEPT VIRTIO_BLK_F_FLUSH (it then never sends a flush, which C14 allows) passes. (As first written the monitor also
   demanded that RO and FLUSH are accepted exactly when offered and refused both lines below; which offered features the driver
   accepts is C08's clause. The two clauses were removed.) *)
Example mon1452_accepts_declined_flush : mon_config [5; 0; 5; 512; 0; 0] = true.
Proof. vm_compute. reflexivity. Qed.
Example mon1452_accepts_unacknowledged_ro : mon_config [5; 0; 5; 32; 0; 1] = true.
Proof. vm_compute. reflexivity. Qed.

(* 1453 says "a flush is sent only when flush support was negotiated": without the feature a flush() that sends nothing but
   returns an error (say Unsupported) passes (as first written the monitor demanded Ok, which is what blk.rs does but not what
   the text asks for) ... *)
Example mon1453_accepts_error_without_feature : mon_flush [0; 0; 0; 1; EUnsupported; 0] = true.
Proof. vm_compute. reflexivity. Qed.
(* ... and a request that does reach the device without the feature is refused whatever else the line says *)
Example mon1453_rejects_flush_without_feature : mon_flush [0; 1; 4; 0; 0; 0] = false.
Proof. vm_compute. reflexivity. Qed.

(* 1454: the number of sectors compared is not looked at *)
Example mon1454_accepts_empty_comparison : mon_disk [0; 1] = true.
Proof. vm_compute. reflexivity. Qed.
