(* C19: a queue kept stocked with its own buffers (OwningQueue). *)
From VD Require Import Base.Words Base.ListUpd Model.Queue Model.Owning
  Proofs.QueueInv Proofs.QueueReach Proofs.QueueProps.
From Coq Require Import ZArith Lia Permutation.

Definition stock_chain (bufsz : N) (c : chain) : Prop :=
  c_idxs c = [c_head c] /\ c_tbl c = None /\ exists a, c_bufs c = [(obuf (c_head c) bufsz a, true)].

(* every descriptor of the table is posted, as buffer i under token i *)
Definition Stocked (s : qstate) (chains : list chain) (bufsz : N) : Prop :=
  Forall (stock_chain bufsz) chains /\ lenN chains = q_size s.

Lemma InvFl_set_avail s chains fl ai ring :
  InvFl s chains fl -> ai < two16 -> lenN ring = q_size s -> InvFl (set_avail s ai ring) chains fl.
Proof. intros H Ha Hr. unfold InvFl in *. cbn. tauto. Qed.

Lemma add_single_fl s chains x fl' b :
  InvFl s chains (x :: fl') -> b_len b <> 0 -> b_len b < two32 ->
  exists s' evs,
    add s [] [b] 0 = (Ok x, s', evs)
    /\ InvFl s' (chains ++ [mkChain x [x] [(b, true)] None]) fl'
    /\ new_chain s [] [b] 0 = mkChain x [x] [(b, true)] None
    /\ q_size s' = q_size s /\ q_free_head s = x.
Proof.
  intros HI Hb0 Hb32.
  assert (HI' := HI).
  destruct HI' as (Hnd & Hlen & Hrange & Hnu & Hseg & Hch & Hind & Hlsh & Hldt & Hlind & Hlring & Hai & Hav & Hlu & [k [Hk Hpow]]).
  cbn [lseg] in Hseg. destruct Hseg as (Hfh & Hx & _).
  rewrite lenN_app, lenN_cons in Hlen.
  assert (Hok : bufs_ok [(b, true)]) by (constructor; [split; assumption|constructor]).
  destruct (add_direct_invfl s chains (x :: fl') [(b, true)] HI ltac:(discriminate) Hok
              ltac:(rewrite lenN_cons, lenN_nil; lia))
    as (s1 & evs1 & idxs & dl & Hrun & HI1 & Hsame & _ & _ & _ & Hft & _ & _ & _).
  cbn [length free_take skipn] in Hft, HI1. rewrite Hfh in Hft. subst idxs. rewrite Hfh in HI1.
  destruct Hsame as (S1 & S2 & S3 & S4 & S5 & S6 & S7 & S8 & S9).
  unfold add. cbn [tag_bufs map app]. change (lenN [(b, true)]) with 1. cbn [N.eqb Pos.eqb].
  unfold capacity_ok.
  destruct (N.ltb_spec (q_size s) (q_num_used s + 1)); [lia|].
  destruct (N.ltb_spec (q_size s) 1); [lia|]. cbn [orb].
  rewrite andb_false_r. cbn [negb]. change (1 <? 1) with false. rewrite andb_false_r.
  rewrite Hrun. rewrite Hfh.
  eexists; eexists. split; [reflexivity|].
  split. { apply InvFl_set_avail; [exact HI1| |].
           - unfold w16, two16. apply N.mod_lt. discriminate.
           - rewrite lenN_updN, S9, S1. exact Hlring. }
  split. { unfold new_chain. cbn [tag_bufs map app]. change (lenN [(b, true)]) with 1.
           change (1 <? 1) with false. rewrite andb_false_r. cbn [length free_take]. now rewrite Hfh. }
  split; [exact S1|reflexivity].
Qed.

Lemma stock_chain_new x bufsz a : stock_chain bufsz (mkChain x [x] [(obuf x bufsz a, true)] None).
Proof. unfold stock_chain. cbn. repeat split. eauto. Qed.

(* OwningQueue::new: token i for buffer i, and the queue ends up fully stocked *)
Lemma owning_new_loop_spec bufsz : bufsz <> 0 -> bufsz < two32 ->
  forall addrs i s chains h,
  Reach s chains h -> InvFl s chains (seqN i (length addrs)) ->
  Forall (stock_chain bufsz) chains ->
  exists s' evs chains',
    owning_new_loop addrs i bufsz s = (Ok tt, s', evs)
    /\ Reach s' (chains ++ chains') (h ++ evs) /\ InvFl s' (chains ++ chains') []
    /\ Forall (stock_chain bufsz) chains' /\ length chains' = length addrs
    /\ q_size s' = q_size s.
Proof.
  intros Hb0 Hb32. induction addrs as [|a rest IH]; intros i s chains h HR HI Hst.
  - exists s, [], []. cbn [owning_new_loop]. rewrite !app_nil_r. cbn [length seqN] in HI.
    split; [reflexivity|]. split; [exact HR|]. split; [exact HI|]. split; [constructor|]. split; reflexivity.
  - cbn [length seqN] in HI.
    destruct (add_single_fl s chains i (seqN (i + 1) (length rest)) (obuf i bufsz a) HI Hb0 Hb32)
      as (s1 & evs1 & Hadd & HI1 & Hnc & Hsz & Hfh).
    assert (Hok : bufs_ok (tag_bufs [] [obuf i bufsz a])).
    { constructor; [split; assumption|constructor]. }
    pose proof (R_add _ _ _ _ _ _ _ _ _ HR Hok Hadd) as HR1. cbn iota in HR1. rewrite Hnc in HR1.
    assert (Hst1 : Forall (stock_chain bufsz) (chains ++ [mkChain i [i] [(obuf i bufsz a, true)] None])).
    { apply Forall_app. split; [exact Hst|]. constructor; [apply stock_chain_new|constructor]. }
    destruct (IH (i + 1) s1 _ _ HR1 HI1 Hst1) as (s2 & evs2 & chains2 & Hrun & HR2 & HI2 & Hst2 & Hl2 & Hsz2).
    exists s2, (evs1 ++ evs2), (mkChain i [i] [(obuf i bufsz a, true)] None :: chains2).
    split. { cbn [owning_new_loop]. rewrite Hadd, N.eqb_refl, Hrun. reflexivity. }
    rewrite <- app_assoc in HR2, HI2. cbn [app] in HR2, HI2.
    split; [now rewrite app_assoc|]. split; [exact HI2|].
    split; [constructor; [apply stock_chain_new|exact Hst2]|].
    split; [cbn [length]; lia|]. lia.
Qed.

Lemma InvFl_set_indices s chains fl v : InvFl s chains fl -> v < two16 -> InvFl (qset_indices s v) chains fl.
Proof. intros H Hv. unfold InvFl in *. cbn. tauto. Qed.

(* v: where the free-running indices start (0 for a real queue; any value, to cover the wrap-around) *)
Theorem owning_new_stocked k ind ev bufsz addrs v :
  k <= 15 -> bufsz <> 0 -> bufsz < two32 -> lenN addrs = 2 ^ k -> v < two16 ->
  exists s evs chains,
    owning_new_loop addrs 0 bufsz (qset_indices (qnew (2 ^ k) ind ev) v) = (Ok tt, s, evs)
    /\ Reach s chains evs /\ Stocked s chains bufsz.
Proof.
  intros Hk Hb0 Hb32 Hl Hv.
  assert (HR0 : Reach (qset_indices (qnew (2 ^ k) ind ev) v) [] []) by (apply R_new; assumption).
  assert (HI0 : InvFl (qset_indices (qnew (2 ^ k) ind ev) v) [] (seqN 0 (length addrs))).
  { apply InvFl_set_indices; [|exact Hv].
    replace (length addrs) with (N.to_nat (2 ^ k)) by (unfold lenN in Hl; lia).
    (* the witness chosen in qnew_inv *)
    pose proof (qnew_inv k ind ev Hk) as [fl Hfl].
    assert (fl = seqN 0 (N.to_nat (2 ^ k))); [|subst; exact Hfl].
    destruct Hfl as (Hnd & Hlen & Hrange & _ & Hseg & _).
    unfold all_idxs in *. cbn [map concat] in *. rewrite app_nil_r in *.
    (* both are the free list threaded from head 0 through the initial table *)
    cbn [qnew q_shadow q_free_head q_size] in *.
    assert (Hgen : forall m fl i, lseg (init_table 0 (N.to_nat (2 ^ k))) i fl -> length fl = m ->
                     N.of_nat m + i = 2 ^ k -> fl = seqN i m).
    { induction m as [|m IHm]; intros fl0 i Hs Hm Hsum.
      - destruct fl0; [reflexivity|discriminate].
      - destruct fl0 as [|x fl0]; [discriminate|]. cbn [lseg] in Hs. destruct Hs as (-> & Hx & Hs).
        cbn [seqN]. f_equal. apply IHm; [|simpl in Hm; lia|lia].
        unfold nxt in Hs. rewrite init_table_spec in Hs by lia. cbn [d_next] in Hs.
        destruct m as [|m'].
        + simpl in Hm. destruct fl0; [exact I|discriminate].
        + destruct (N.eqb_spec (x + 1) (N.of_nat (N.to_nat (2 ^ k)))); [lia|].
          replace (0 + x + 1) with (x + 1) in Hs by lia. exact Hs. }
    apply Hgen; [exact Hseg| |lia]. unfold lenN in Hlen. lia. }
  destruct (owning_new_loop_spec bufsz Hb0 Hb32 addrs 0 _ [] [] HR0 HI0 ltac:(constructor))
    as (s & evs & chains & Hrun & HR & HI & Hst & Hlen & Hsz).
  exists s, evs, chains. cbn [app] in *. split; [exact Hrun|]. split; [exact HR|].
  split; [exact Hst|]. rewrite Hsz. cbn [qset_indices qnew q_size]. unfold lenN in *. lia.
Qed.

(* in a fully stocked queue every token below SIZE heads an outstanding chain *)
Lemma stocked_has_chain s chains h bufsz t :
  Reach s chains h -> Stocked s chains bufsz -> t < q_size s ->
  exists pre c post, chains = pre ++ c :: post /\ c_head c = t.
Proof.
  intros HR [Hst Hlen] Ht.
  destruct (chains_disjoint _ _ _ HR) as (Hnd & Hrange & _ & _).
  assert (Hall : all_idxs chains = map c_head chains).
  { clear - Hst. induction Hst as [|c l [Hc _] _ IH]; [reflexivity|].
    unfold all_idxs in *. cbn [map concat]. rewrite Hc, IH. reflexivity. }
  rewrite Hall in *.
  assert (Hin : In t (map c_head chains)).
  { assert (Hincl : incl (seqN 0 (N.to_nat (q_size s))) (map c_head chains)).
    { apply NoDup_length_incl; [exact Hnd| |].
      - rewrite seqN_length, map_length. unfold lenN in Hlen. lia.
      - intros x Hx. apply seqN_in. specialize (Hrange x Hx). lia. }
    apply Hincl. apply seqN_in. lia. }
  apply in_map_iff in Hin. destruct Hin as (c & Hc & Hin).
  apply in_split in Hin. destruct Hin as (pre & post & ->). eauto.
Qed.

(* OwningQueue::poll, for every device behaviour: the used-ring view (u_idx, u_id, u_len), the share
   answer for the re-posted buffer and the suppression data are arbitrary *)
Theorem poll_stocked s chains h bufsz u_idx u_id u_len addr ae uf hres o s' evs :
  Reach s chains h -> Stocked s chains bufsz -> bufsz <> 0 -> bufsz < two32 ->
  owning_poll s bufsz u_idx u_id u_len addr ae uf hres = (o, s', evs) ->
  (* nothing pending, or an id outside the queue: nothing changes *)
  (q_last_used s = w16 u_idx -> o = Ok None /\ s' = s /\ evs = [])
  /\ (q_last_used s <> w16 u_idx -> q_size s <= w16 u_id -> o = Err EWrongToken /\ s' = s /\ evs = [])
  (* otherwise the completion at the head of the used ring is consumed: the handler sees exactly
     (recorded length, token) if the length fits the buffer, an oversized length is an IoError, and in
     EVERY case - whatever the handler answers - the buffer is posted again and the queue is stocked *)
  /\ (q_last_used s <> w16 u_idx -> w16 u_id < q_size s ->
       o = (if bufsz <? w32 u_len then Err EIoError else handler_result hres (w32 u_len) (w16 u_id))
       /\ q_last_used s' = w16 (q_last_used s + 1)
       /\ exists chains' h', Reach s' chains' h' /\ Stocked s' chains' bufsz).
Proof.
  intros HR Hst Hb0 Hb32 Hrun.
  unfold owning_poll, owning_pop, peek_used, can_pop in Hrun.
  destruct (N.eqb_spec (q_last_used s) (w16 u_idx)) as [E1|E1]; cbn [negb] in Hrun.
  { inversion Hrun; subst. split; [auto|]. split; intros; contradiction. }
  destruct (N.leb_spec (q_size s) (w16 u_id)) as [E2|E2].
  { inversion Hrun; subst. split; [intros; contradiction|]. split; [auto|]. intros; lia. }
  split; [intros; contradiction|]. split; [intros; lia|]. intros _ _.
  destruct (stocked_has_chain s chains h bufsz (w16 u_id) HR Hst E2) as (pre & c & post & -> & Hhead).
  destruct Hst as [Hst Hlen].
  assert (Hc : stock_chain bufsz c).
  { rewrite Forall_forall in Hst. apply Hst. apply in_or_app. right. now left. }
  destruct Hc as (Hci & Hct & a & Hcb).
  assert (Hkeys : keys (tag_bufs [] [obuf (w16 u_id) bufsz 0]) = keys (c_bufs c)).
  { rewrite Hcb, Hhead. reflexivity. }
  destruct (pop_refines s pre c post h [] [obuf (w16 u_id) bufsz 0] u_idx u_id u_len HR Hkeys) as (_ & _ & P3).
  destruct (P3 E1 (eq_sym Hhead)) as (s1 & evs1 & Hpop & HR1 & Hlu & Hfh & Hnu & _ & _ & _ & _ & Hsz & _).
  rewrite Hhead in Hpop. rewrite Hpop in Hrun.
  assert (Hst1 : Forall (stock_chain bufsz) (pre ++ post)).
  { apply Forall_app in Hst. destruct Hst as [A B]. inversion B; subst. apply Forall_app. split; assumption. }
  assert (Hlen1 : lenN (pre ++ post) + 1 = q_size s1).
  { rewrite Hsz, <- Hlen, !lenN_app, lenN_cons. lia. }
  (* re-post, whatever the length was and whatever the handler answered *)
  unfold owning_readd in Hrun. rewrite Hsz in Hrun.
  destruct (N.leb_spec (q_size s) (w16 u_id)) as [E4|_]; [lia|].
  destruct (lifo_token s pre c post h [] [obuf (w16 u_id) bufsz 0] u_idx u_id u_len s1 evs1
              (obuf (w16 u_id) bufsz addr) true 0 HR Hkeys
              ltac:(rewrite Hhead; exact Hpop) Hb0 Hb32) as (s2 & evs2 & Hadd).
  cbn iota in Hadd. rewrite Hhead in Hadd. rewrite Hadd in Hrun. rewrite N.eqb_refl in Hrun.
  assert (Hok : bufs_ok (tag_bufs [] [obuf (w16 u_id) bufsz addr])).
  { constructor; [split; assumption|constructor]. }
  destruct (add_publishes s1 (pre ++ post) _ [] [obuf (w16 u_id) bufsz addr] 0 _ _ _ (fun _ => None) HR1 Hok Hadd)
    as (_ & Hch & Hcbufs & _ & _ & _ & _ & _ & Htbl & _ & _ & HR2).
  { intros ta tbl Et. exfalso.
    unfold new_chain in Et. cbn [tag_bufs map app] in Et. change (lenN [(obuf (w16 u_id) bufsz addr, true)]) with 1 in Et.
    change (1 <? 1) with false in Et. rewrite andb_false_r in Et. discriminate. }
  assert (Hsz2 : q_size s2 = q_size s1 /\ q_last_used s2 = q_last_used s1).
  { destruct (add_cases s1 (pre ++ post) [] [obuf (w16 u_id) bufsz addr] 0 (proj1 (Reach_Inv _ _ _ HR1)) Hok)
      as [[_ E]|[(_ & _ & E)|(Hne & Hcap & _)]]; try (rewrite E in Hadd; discriminate).
    destruct (add_ok s1 (pre ++ post) [] [obuf (w16 u_id) bufsz addr] 0 (proj1 (Reach_Inv _ _ _ HR1)) Hne Hok Hcap)
      as (sx & ex & cx & Hr & _ & _ & _ & _ & _ & _ & Hl & Hs & _).
    rewrite Hr in Hadd. inversion Hadd; subst. split; assumption. }
  destruct Hsz2 as [Hsz2 Hlu2].
  set (nc := new_chain s1 [] [obuf (w16 u_id) bufsz addr] 0) in *.
  assert (Hstock2 : exists chains' h', Reach s2 chains' h' /\ Stocked s2 chains' bufsz).
  { exists ((pre ++ post) ++ [nc]). eexists. split; [exact HR2|]. split.
    - apply Forall_app. split; [exact Hst1|]. constructor; [|constructor].
      unfold stock_chain. subst nc. unfold new_chain. cbn [tag_bufs map app].
      change (lenN [(obuf (w16 u_id) bufsz addr, true)]) with 1. change (1 <? 1) with false.
      rewrite andb_false_r. cbn [length free_take c_idxs c_head c_tbl c_bufs].
      rewrite Hfh, Hhead. repeat split. exists addr. reflexivity.
    - rewrite lenN_app, lenN_cons, lenN_nil, Hsz2. lia. }
  set (result := if bufsz <? w32 u_len then Err EIoError else handler_result hres (w32 u_len) (w16 u_id)) in *.
  destruct result eqn:Er; inversion Hrun; subst o s' evs; clear Hrun;
    (split; [reflexivity|]; split; [now rewrite Hlu2|exact Hstock2]).
Qed.

(* Before the repair a completion carrying a length above BUFFER_SIZE left its buffer un-posted. A device
   that then names the same buffer again makes the old code call pop_used for a token that heads no
   outstanding chain - outside pop_used's contract - and the platform is asked to unshare device address 0,
   which was never the answer of a share. *)
Example poll_prefix_refuted :
  exists s0 evs0 s1 evs1 s2 evs2,
    owning_new_loop [100; 200] 0 8 (qnew 2 false false) = (Ok tt, s0, evs0)
    /\ owning_poll_prefix s0 8 1 0 9 300 0 0 = (Err EIoError, s1, evs1)
    /\ owning_poll_prefix s1 8 2 0 4 400 0 0 = (Ok (Some (4, 0)), s2, evs2)
    /\ In (OQ (QUnshare 0 0 8 true)) evs2
    /\ ~ In (ShBuf 0 0 8 true) (shares_of evs0).
Proof.
  do 6 eexists. split; [vm_compute; reflexivity|]. split; [vm_compute; reflexivity|].
  split; [vm_compute; reflexivity|]. split; [vm_compute; tauto|].
  vm_compute. intros [H|[H|[]]]; discriminate H.
Qed.

(* ... while the repaired code keeps the queue stocked on the same device behaviour *)
Example poll_fixed_on_witness :
  exists s0 evs0 s1 evs1 s2 evs2,
    owning_new_loop [100; 200] 0 8 (qnew 2 false false) = (Ok tt, s0, evs0)
    /\ owning_poll s0 8 1 0 9 300 0 0 0 = (Err EIoError, s1, evs1)
    /\ owning_poll s1 8 2 0 4 400 0 0 0 = (Ok (Some (4, 0)), s2, evs2)
    /\ In (OQ (QUnshare 300 0 8 true)) evs2 /\ q_num_used s2 = 2.
Proof.
  do 6 eexists. split; [vm_compute; reflexivity|]. split; [vm_compute; reflexivity|].
  split; [vm_compute; reflexivity|]. split; [vm_compute; tauto|]. vm_compute. reflexivity.
Qed.
