(* What the queue-core monitors of Extract/QueueMon.v (kinds 149 .. 168) MEAN, and that the central ones hold of the model.

   The monitors are boolean functions over flat number lists; the runner evaluates them on what the harness observed of the
   implementation.  Here each of them is tied to the statement it stands for:
     A. soundness ("meaning"): a TRUE verdict on ANY input list implies the clause of the property, spelled out as facts about
        the decoded observation (no reference to the monitor's own helper functions in the conclusions);
     B. completeness for the central ones: the input the harness would build from the MODEL's own device-visible state after a
        successful `add` (enc_publish), in every reachable state, gets the verdict true (no false alarm on code that behaves
        like the model); likewise kinds 168, 163, 149 from counts_exact / add_refusals / add_alloc_failure. *)
From VD Require Import Base.Words Base.ListUpd Model.Queue Proofs.QueueInv Proofs.QueueReach Proofs.QueueProps Extract.QueueMon.
From Coq Require Import ZArith Lia ZifyBool ZifyN Permutation.
Ltac Zify.zify_post_hook ::= Z.div_mod_to_equations.

(* ------------------------------------------------------------------------------------------------ *)
(* flat encodings as the harness writes them (scen/qrig.rs)                                          *)
Fixpoint flat2 (l : list (N * N)) : list N :=
  match l with [] => [] | (a, b) :: t => a :: b :: flat2 t end.
Fixpoint flat5 (l : list (N * N * N * N * N)) : list N :=
  match l with [] => [] | (a, b, c, d, e) :: t => a :: b :: c :: d :: e :: flat5 t end.
(* the table index of a raw walk entry (idx, addr, len, flags, next) *)
Definition e_idx (e : N * N * N * N * N) : N := match e with (i, _, _, _, _) => i end.

Lemma lenN_flat2 l : lenN (flat2 l) = 2 * lenN l.
Proof. induction l as [|[a b] t IH]; [reflexivity|]. cbn [flat2]. rewrite !lenN_cons, IH. lia. Qed.
Lemma lenN_flat5 l : lenN (flat5 l) = 5 * lenN l.
Proof. induction l as [|[[[[a b] c] d] e] t IH]; [reflexivity|]. cbn [flat5]. rewrite !lenN_cons, IH. lia. Qed.

Lemma take2_flat2 l r : take2 (length l) (flat2 l ++ r) = (l, r).
Proof.
  induction l as [|[a b] t IH]; cbn [length flat2 app take2]; [now destruct r|]. now rewrite IH.
Qed.
Lemma take5_flat5 l r : take5 (length l) (flat5 l ++ r) = (l, r).
Proof.
  induction l as [|[[[[a b] c] d] e] t IH]; cbn [length flat5 app take5]; [now destruct r|]. now rewrite IH.
Qed.
Lemma takeN_app l r : takeN (length l) (l ++ r) = (l, r).
Proof. induction l as [|a t IH]; cbn [length app takeN]; [now destruct r|]. now rewrite IH. Qed.

Lemma cnt_exact k (l : list N) : k <= lenN l -> cnt k l = N.to_nat k.
Proof. unfold cnt. intros H. now rewrite N.min_l. Qed.
Lemma cnt_len {A} (x : list A) (l : list N) : lenN x <= lenN l -> cnt (lenN x) l = length x.
Proof. intros H. rewrite cnt_exact by exact H. unfold lenN. apply Nat2N.id. Qed.

(* the other direction: what a successful parse says about the list that was parsed *)
Lemma take2_inv : forall k l x y, take2 k l = (x, y) ->
  l = flat2 x ++ y /\ (length x <= k)%nat /\ (length x = k \/ (length y <= 1)%nat).
Proof.
  induction k as [|k IH]; intros l x y H.
  - cbn [take2] in H. assert (E : ([] : list (N * N), l) = (x, y)) by (destruct l; exact H).
    inversion E; subst. repeat split; auto.
  - destruct l as [|a [|b r]]; cbn [take2] in H.
    + inversion H; subst. repeat split; cbn; auto; lia.
    + inversion H; subst. repeat split; cbn; auto; lia.
    + destruct (take2 k r) as [x' y'] eqn:E. inversion H; subst. destruct (IH _ _ _ E) as (E1 & E2 & E3).
      cbn [flat2 app length]. split; [now rewrite E1 at 1|]. split; [lia|]. destruct E3; [left; lia|now right].
Qed.
Lemma take5_inv : forall k l x y, take5 k l = (x, y) -> l = flat5 x ++ y /\ (length x <= k)%nat.
Proof.
  induction k as [|k IH]; intros l x y H.
  - cbn [take5] in H. assert (E : ([] : list (N * N * N * N * N), l) = (x, y)) by (destruct l; exact H).
    inversion E; subst. split; auto.
  - destruct l as [|a [|b [|c [|d [|e r]]]]]; cbn [take5] in H; try (inversion H; subst; split; cbn; auto; lia).
    destruct (take5 k r) as [x' y'] eqn:E. inversion H; subst. destruct (IH _ _ _ E) as (E1 & E2).
    cbn [flat5 app length]. split; [now rewrite E1 at 1|lia].
Qed.
Lemma takeN_inv : forall k l x y, takeN k l = (x, y) -> l = x ++ y /\ length x = Nat.min k (length l).
Proof.
  induction k as [|k IH]; intros l x y H.
  - cbn [takeN] in H. assert (E : ([] : list N, l) = (x, y)) by (destruct l; exact H).
    inversion E; subst. split; auto.
  - destruct l as [|a r]; cbn [takeN] in H; [inversion H; subst; split; auto|].
    destruct (takeN k r) as [x' y'] eqn:E. inversion H; subst. destruct (IH _ _ _ E) as (E1 & E2).
    cbn [app length]. split; [now rewrite E1 at 1|lia].
Qed.

(* ------------------------------------------------------------------------------------------------ *)
(* the helper functions of monitor 150, read as statements about the walk                           *)
Lemma existsb_eqb_in x l : existsb (N.eqb x) l = true <-> In x l.
Proof.
  rewrite existsb_exists. split.
  - intros (y & Hy & E). apply N.eqb_eq in E. now subst.
  - intros H. exists x. split; [exact H|apply N.eqb_refl].
Qed.

Lemma nodupb_iff l : nodupb l = true <-> NoDup l.
Proof.
  induction l as [|x t IH]; cbn [nodupb].
  - split; [constructor|reflexivity].
  - rewrite andb_true_iff, negb_true_iff, IH. split.
    + intros [H1 H2]. constructor; [|exact H2]. intro Hi. apply existsb_eqb_in in Hi. congruence.
    + intros H. inversion H as [|? ? Hn Hd]; subst. split; [|exact Hd].
      apply not_true_is_false. intro E. apply Hn. now apply existsb_eqb_in.
Qed.

Lemma linked_sound size : forall es, linked size es = true ->
  forall k i a l f nx, nth_error es k = Some (i, a, l, f, nx) ->
    i < size /\ has_flag f F_INDIRECT = false
    /\ match nth_error es (S k) with
       | Some (j, _, _, _, _) => has_flag f F_NEXT = true /\ nx = j
       | None => has_flag f F_NEXT = false
       end.
Proof.
  induction es as [|[[[[i0 a0] l0] f0] nx0] rest IH]; intros H k i a l f nx Hk; [discriminate H|].
  destruct rest as [|[[[[j aj] lj] fj] nxj] rest'].
  - cbn [linked] in H. destruct k as [|k]; [|destruct k; discriminate Hk].
    cbn [nth_error] in Hk. inversion Hk; subst. cbn [nth_error].
    apply andb_prop in H. destruct H as [H H3]. apply andb_prop in H. destruct H as [H1 H2].
    apply N.ltb_lt in H1. apply negb_true_iff in H2. apply negb_true_iff in H3. auto.
  - change (linked size ((i0, a0, l0, f0, nx0) :: (j, aj, lj, fj, nxj) :: rest'))
      with ((i0 <? size) && has_flag f0 F_NEXT && negb (has_flag f0 F_INDIRECT) && (nx0 =? j)
            && linked size ((j, aj, lj, fj, nxj) :: rest')) in H.
    apply andb_prop in H. destruct H as [H H5]. apply andb_prop in H. destruct H as [H H4].
    apply andb_prop in H. destruct H as [H H3]. apply andb_prop in H. destruct H as [H1 H2].
    destruct k as [|k].
    + cbn [nth_error] in Hk. inversion Hk; subst. cbn [nth_error].
      apply N.ltb_lt in H1. apply negb_true_iff in H3. apply N.eqb_eq in H4. auto.
    + cbn [nth_error] in Hk. change (nth_error ((i0, a0, l0, f0, nx0) :: (j, aj, lj, fj, nxj) :: rest') (S (S k)))
        with (nth_error ((j, aj, lj, fj, nxj) :: rest') (S k)).
      exact (IH H5 k i a l f nx Hk).
Qed.

Lemma linked_head size es : linked size es = true -> exists e, nth_error es 0 = Some e.
Proof. destruct es as [|e t]; [discriminate|]. intros _. now exists e. Qed.

Lemma table_linked_sound : forall es k0, table_linked k0 es = true ->
  forall k i a l f nx, nth_error es k = Some (i, a, l, f, nx) ->
    i = k0 + N.of_nat k /\ has_flag f F_INDIRECT = false
    /\ match nth_error es (S k) with
       | Some _ => has_flag f F_NEXT = true /\ nx = k0 + N.of_nat k + 1
       | None => has_flag f F_NEXT = false
       end.
Proof.
  induction es as [|[[[[i0 a0] l0] f0] nx0] rest IH]; intros k0 H k i a l f nx Hk; [discriminate H|].
  destruct rest as [|e2 rest'].
  - cbn [table_linked] in H. destruct k as [|k]; [|destruct k; discriminate Hk].
    cbn [nth_error] in Hk. inversion Hk; subst. cbn [nth_error].
    apply andb_prop in H. destruct H as [H H3]. apply andb_prop in H. destruct H as [H1 H2].
    apply N.eqb_eq in H1. apply negb_true_iff in H2. apply negb_true_iff in H3. split; [lia|auto].
  - change (table_linked k0 ((i0, a0, l0, f0, nx0) :: e2 :: rest'))
      with ((i0 =? k0) && has_flag f0 F_NEXT && negb (has_flag f0 F_INDIRECT) && (nx0 =? k0 + 1)
            && table_linked (k0 + 1) (e2 :: rest')) in H.
    apply andb_prop in H. destruct H as [H H5]. apply andb_prop in H. destruct H as [H H4].
    apply andb_prop in H. destruct H as [H H3]. apply andb_prop in H. destruct H as [H1 H2].
    destruct k as [|k].
    + cbn [nth_error] in Hk. inversion Hk; subst. cbn [nth_error].
      apply N.eqb_eq in H1. apply negb_true_iff in H3. apply N.eqb_eq in H4. split; [lia|]. split; [auto|]. split; [auto|lia].
    + cbn [nth_error] in Hk. change (nth_error ((i0, a0, l0, f0, nx0) :: e2 :: rest') (S (S k)))
        with (nth_error (e2 :: rest') (S k)).
      destruct (IH (k0 + 1) H5 k i a l f nx Hk) as (A & B & C). split; [lia|]. split; [exact B|].
      destruct (nth_error (e2 :: rest') (S k)); [destruct C as [C1 C2]; split; [exact C1|lia] | exact C].
Qed.

Lemma elems_match_sound : forall es exp c, elems_match es exp c = true ->
  length es = length exp
  /\ forall k i a l f nx ea el, nth_error es k = Some (i, a, l, f, nx) -> nth_error exp k = Some (ea, el) ->
       a = ea /\ l = el /\ ((k < c)%nat -> has_flag f F_WRITE = false) /\ ((c <= k)%nat -> has_flag f F_WRITE = true).
Proof.
  induction es as [|[[[[i0 a0] l0] f0] nx0] rest IH]; intros exp c H.
  - destruct exp; [|discriminate H]. split; [reflexivity|]. intros k; destruct k; discriminate.
  - destruct exp as [|[ea0 el0] exp']; [discriminate H|]. cbn [elems_match] in H.
    apply andb_prop in H. destruct H as [H H4]. apply andb_prop in H. destruct H as [H H3].
    apply andb_prop in H. destruct H as [H1 H2]. apply N.eqb_eq in H1. apply N.eqb_eq in H2. apply eqb_prop in H3.
    destruct (IH _ _ H4) as [IL IE]. split; [cbn [length]; now rewrite IL|].
    intros k i a l f nx ea el Hk He. destruct k as [|k].
    + cbn [nth_error] in Hk, He. inversion Hk; inversion He; subst.
      split; [reflexivity|]. split; [reflexivity|]. destruct c; split; intros; (lia || assumption).
    + cbn [nth_error] in Hk, He. destruct (IE k i a l f nx ea el Hk He) as (A & B & C & D).
      split; [exact A|]. split; [exact B|]. split; intros; [apply C|apply D]; lia.
Qed.

(* ------------------------------------------------------------------------------------------------ *)
(* kind 150 (C01): the verdict on a well-formed line, as one conjunction over the decoded parts       *)
Definition publish_core (size indirect old_idx tok ring_val aidx_now : N) (n_in n : N) (exp : list (N * N))
  (others : list N) (is_ind bad hflags hlen : N) (es : list (N * N * N * N * N)) : bool :=
  let idxs := if is_ind =? 1 then [tok] else map e_idx es in
  (ring_val =? tok) && (aidx_now =? w16 (old_idx + 1)) && (bad =? 0) && (lenN es =? n) && (tok <? size)
  && (if is_ind =? 1
      then (indirect =? 1) && (1 <? n) && (hflags =? F_INDIRECT) && (hlen =? 16 * n) && table_linked 0 es
      else linked size es
           && match es with (i, _, _, _, _) :: _ => i =? tok | [] => false end)
  && elems_match es exp (N.to_nat n_in)
  && nodupb (idxs ++ others).

(* the line layout of scen/qrig.rs Rig::add:
   [N; indirect; old_idx; tok; ring_val; aidx_now; n_in; n_out; (addr,len)*; n_others; others*; is_ind; bad; hflags; hlen; m;
    (idx,addr,len,flags,next)*m] (anything after the walk is ignored) *)
Lemma mon_publish_enc size indirect old_idx tok ring_val aidx_now n_in n_out exp others is_ind bad hflags hlen es rest :
  lenN exp = n_in + n_out ->
  mon_publish (size :: indirect :: old_idx :: tok :: ring_val :: aidx_now :: n_in :: n_out :: flat2 exp
               ++ lenN others :: others ++ is_ind :: bad :: hflags :: hlen :: lenN es :: flat5 es ++ rest)
  = publish_core size indirect old_idx tok ring_val aidx_now n_in (n_in + n_out) exp others is_ind bad hflags hlen es.
Proof.
  intros Hn. unfold mon_publish. cbn [app].
  set (r4 := flat5 es ++ rest).
  set (r2 := others ++ is_ind :: bad :: hflags :: hlen :: lenN es :: r4).
  set (r0 := flat2 exp ++ lenN others :: r2).
  assert (L0 : lenN r0 = 2 * lenN exp + 1 + lenN r2).
  { unfold r0. rewrite lenN_app, lenN_flat2, lenN_cons. lia. }
  assert (C0 : cnt (n_in + n_out) r0 = length exp).
  { rewrite <- Hn. apply cnt_len. lia. }
  assert (C1 : cnt n_in r0 = N.to_nat n_in) by (apply cnt_exact; lia).
  cbv zeta. rewrite C0, C1. unfold r0 at 1. rewrite take2_flat2.
  assert (C2 : cnt (lenN others) r2 = length others).
  { apply cnt_len. unfold r2. rewrite lenN_app. lia. }
  rewrite C2. unfold r2 at 1. rewrite takeN_app.
  assert (C4 : cnt (lenN es) r4 = length es).
  { apply cnt_len. unfold r4. rewrite lenN_app, lenN_flat5. lia. }
  rewrite C4. unfold r4. rewrite take5_flat5.
  reflexivity.
Qed.

(* MEANING of a true verdict of monitor 150, for any observation laid out as the harness lays it out (and every accepted
   line is laid out like that: mon_publish_decodes below).
     exp    = the (device address, length) pairs of the buffers the caller supplied, the first n_in of them readable
     others = the descriptor indices of every other outstanding chain
     es     = the raw entries (index, addr, len, flags, next) the device meets when it follows the new ring entry: the
              descriptors of the main table for a direct chain, the entries of the indirect table (numbered by position)
              for an indirect one, in which case hflags / hlen are flags and length of the head descriptor *)
Theorem mon_publish_sound size indirect old_idx tok ring_val aidx_now n_in n_out exp others is_ind bad hflags hlen es rest :
  lenN exp = n_in + n_out ->
  mon_publish (size :: indirect :: old_idx :: tok :: ring_val :: aidx_now :: n_in :: n_out :: flat2 exp
               ++ lenN others :: others ++ is_ind :: bad :: hflags :: hlen :: lenN es :: flat5 es ++ rest) = true ->
  let n := n_in + n_out in
  let used := if is_ind =? 1 then [tok] else map e_idx es in
  (* the ring slot designated by the previous index holds the token, the visible index is the previous one plus one
     modulo 2^16, the token is a descriptor of the table *)
  ring_val = tok /\ aidx_now = (old_idx + 1) mod 65536 /\ tok < size
  (* the walk could be resolved and has exactly as many elements as buffers were supplied *)
  /\ bad = 0 /\ length es = length exp
  (* element k carries exactly address and length of buffer k; readable for k < n_in, writable from n_in on *)
  /\ (forall k i a l f nx ea el, nth_error es k = Some (i, a, l, f, nx) -> nth_error exp k = Some (ea, el) ->
        a = ea /\ l = el
        /\ (N.of_nat k < n_in -> has_flag f F_WRITE = false) /\ (n_in <= N.of_nat k -> has_flag f F_WRITE = true))
  (* a direct chain (on any queue): starts at the token; every
     index inside the table, no INDIRECT inside, NEXT set and `next` = index of the following entry on all but the last *)
  /\ (is_ind <> 1 ->
        (exists a l f nx, nth_error es 0 = Some (tok, a, l, f, nx))
        /\ forall k i a l f nx, nth_error es k = Some (i, a, l, f, nx) ->
             i < size /\ has_flag f F_INDIRECT = false
             /\ match nth_error es (S k) with
                | Some (j, _, _, _, _) => has_flag f F_NEXT = true /\ nx = j
                | None => has_flag f F_NEXT = false
                end)
  (* an indirect chain: only on a queue with indirect descriptors and for more than one buffer; the head carries exactly
     INDIRECT and the byte length of the table; the table entries are 0, 1, .. chained k -> k+1, the last without NEXT,
     no nested INDIRECT *)
  /\ (is_ind = 1 ->
        indirect = 1 /\ 1 < n /\ hflags = F_INDIRECT /\ hlen = 16 * n
        /\ forall k i a l f nx, nth_error es k = Some (i, a, l, f, nx) ->
             i = N.of_nat k /\ has_flag f F_INDIRECT = false
             /\ match nth_error es (S k) with
                | Some _ => has_flag f F_NEXT = true /\ nx = N.of_nat k + 1
                | None => has_flag f F_NEXT = false
                end)
  (* the descriptors of the main table the chain occupies (the head only, for an indirect chain) are pairwise distinct and
     belong to no other outstanding chain (whose descriptors are pairwise distinct as well) *)
  /\ NoDup used /\ (forall i, In i used -> ~ In i others) /\ NoDup others.
Proof.
  intros Hn H n used. rewrite (mon_publish_enc _ _ _ _ _ _ _ _ _ _ _ _ _ _ _ _ Hn) in H.
  unfold publish_core in H. fold n in H. cbv zeta in H.
  apply andb_prop in H. destruct H as [H Hnd]. apply andb_prop in H. destruct H as [H Hem].
  apply andb_prop in H. destruct H as [H Hshape]. apply andb_prop in H. destruct H as [H Htok].
  apply andb_prop in H. destruct H as [H Hm]. apply andb_prop in H. destruct H as [H Hbad].
  apply andb_prop in H. destruct H as [Hring Haidx].
  apply N.eqb_eq in Hring. apply N.eqb_eq in Haidx. apply N.eqb_eq in Hbad. apply N.eqb_eq in Hm. apply N.ltb_lt in Htok.
  destruct (elems_match_sound _ _ _ Hem) as [Hlen Helems].
  apply nodupb_iff in Hnd. fold used in Hnd.
  split; [exact Hring|]. split; [exact Haidx|]. split; [exact Htok|]. split; [exact Hbad|]. split; [exact Hlen|].
  split.
  { intros k i a l f nx ea el Hk He. destruct (Helems k i a l f nx ea el Hk He) as (A & B & C & D).
    split; [exact A|]. split; [exact B|]. split; intros; [apply C|apply D]; lia. }
  split.
  { intros Hi. destruct (N.eqb_spec is_ind 1) as [|_]; [contradiction|].
    apply andb_prop in Hshape. destruct Hshape as [Hl Hhd].
    split. { destruct es as [|[[[[i a] l] f] nx] t]; [discriminate Hhd|]. apply N.eqb_eq in Hhd. subst i.
             now exists a, l, f, nx. }
    exact (linked_sound size es Hl). }
  split.
  { intros Hi. destruct (N.eqb_spec is_ind 1) as [_|]; [|contradiction].
    apply andb_prop in Hshape. destruct Hshape as [Hs Htl]. apply andb_prop in Hs. destruct Hs as [Hs Hhl].
    apply andb_prop in Hs. destruct Hs as [Hs Hhf]. apply andb_prop in Hs. destruct Hs as [Hq Hn1].
    apply N.eqb_eq in Hq. apply N.ltb_lt in Hn1. apply N.eqb_eq in Hhf. apply N.eqb_eq in Hhl.
    split; [exact Hq|]. split; [exact Hn1|]. split; [exact Hhf|]. split; [exact Hhl|].
    intros k i a l f nx Hk. exact (table_linked_sound es 0 Htl k i a l f nx Hk). }
  split; [eapply NoDup_app_l; exact Hnd|].
  split; [intros i Hi Ho; eapply NoDup_app_disj; eauto|].
  eapply NoDup_app_remove_l; exact Hnd.
Qed.

Lemma elems_match_length es exp c : elems_match es exp c = true -> length es = length exp.
Proof. intros H. exact (proj1 (elems_match_sound _ _ _ H)). Qed.

(* ... and EVERY list the monitor accepts is such a line: the hypotheses of mon_publish_sound lose nothing *)
Theorem mon_publish_decodes ins : mon_publish ins = true ->
  exists size indirect old_idx tok ring_val aidx_now n_in n_out exp others is_ind bad hflags hlen es rest,
    ins = size :: indirect :: old_idx :: tok :: ring_val :: aidx_now :: n_in :: n_out :: flat2 exp
          ++ lenN others :: others ++ is_ind :: bad :: hflags :: hlen :: lenN es :: flat5 es ++ rest
    /\ lenN exp = n_in + n_out.
Proof.
  intros H. unfold mon_publish in H.
  destruct ins as [|size [|indirect [|old_idx [|tok [|ring_val [|aidx_now [|n_in [|n_out r0]]]]]]]]; try discriminate H.
  cbv zeta in H.
  destruct (take2 (cnt (n_in + n_out) r0) r0) as [exp r1] eqn:E2.
  destruct r1 as [|n_others r2]; [discriminate H|].
  destruct (takeN (cnt n_others r2) r2) as [others r3] eqn:EN.
  destruct r3 as [|is_ind [|bad [|hflags [|hlen [|m r4]]]]]; try discriminate H.
  destruct (take5 (cnt m r4) r4) as [es rest] eqn:E5.
  apply andb_prop in H. destruct H as [H _]. apply andb_prop in H. destruct H as [H Hem].
  apply andb_prop in H. destruct H as [H _]. apply andb_prop in H. destruct H as [H _].
  apply andb_prop in H. destruct H as [_ Hm]. apply N.eqb_eq in Hm.
  apply elems_match_length in Hem.
  destruct (take2_inv _ _ _ _ E2) as (A1 & A2 & A3).
  destruct (takeN_inv _ _ _ _ EN) as (B1 & B2).
  destruct (take5_inv _ _ _ _ E5) as (C1 & C2).
  (* the expected list is complete: otherwise at most one number would be left after it *)
  assert (Lexp : lenN exp = n_in + n_out).
  { destruct A3 as [A3|A3]; [|cbn [length] in A3; rewrite B1, app_length in A3; cbn [length] in A3; lia].
    unfold cnt in A3. assert (L0 : lenN r0 = 2 * lenN exp + lenN (n_others :: r2)).
    { rewrite A1 at 1. rewrite lenN_app, lenN_flat2. reflexivity. }
    rewrite lenN_cons in L0. unfold lenN in *. lia. }
  assert (Loth : lenN others = n_others).
  { unfold cnt in B2. assert (L2 : length r2 = (length others + length (is_ind :: bad :: hflags :: hlen :: m :: r4))%nat).
    { rewrite B1 at 1. apply app_length. }
    cbn [length] in L2. unfold lenN in *. lia. }
  assert (Les : lenN es = m).
  { unfold lenN in *. lia. }
  exists size, indirect, old_idx, tok, ring_val, aidx_now, n_in, n_out, exp, others, is_ind, bad, hflags, hlen, es, rest.
  split; [|exact Lexp]. rewrite Loth, Les, <- C1, <- B1, <- A1. reflexivity.
Qed.

(* ------------------------------------------------------------------------------------------------ *)
(* the other list-shaped monitors                                                                    *)
Lemma b2n_one b : [b2n b] = [1] -> b = true.
Proof. destruct b; [reflexivity|discriminate]. Qed.
Lemma b2n_one_rev b : b = true -> [b2n b] = [1].
Proof. now intros ->. Qed.

Lemma all_pairs_sound sel l : all_pairs sel l = true -> forall p, In p l -> sel p = 1.
Proof.
  induction l as [|q t IH]; intros H p Hp; [contradiction|]. cbn [all_pairs] in H.
  apply andb_prop in H. destruct H as [H1 H2]. destruct Hp as [<-|Hp]; [now apply N.eqb_eq|now apply IH].
Qed.

(* kind 152 (C04), written after every pop_used of the honest histories:
   [the pop succeeded; number of writable buffers; per writable buffer (it holds exactly the bytes the device wrote, it is
    as it was before the call); the device had completed the chain].
   ANY accepted list has that shape, and: after a successful pop the chain had been completed and every writable buffer
   holds the device's bytes; after an unsuccessful one every writable buffer is untouched. *)
Theorem mon_data_sound ins : mon_data ins = true ->
  exists success n ps completed,
    ins = success :: n :: flat2 ps ++ [completed] /\ lenN ps <= n
    /\ (success = 1 -> completed = 1 /\ forall matches_device unchanged, In (matches_device, unchanged) ps -> matches_device = 1)
    /\ (success <> 1 -> forall matches_device unchanged, In (matches_device, unchanged) ps -> unchanged = 1).
Proof.
  intros H. unfold mon_data in H. destruct ins as [|success [|n r]]; try discriminate H.
  destruct (take2 (cnt n r) r) as [ps r1] eqn:E2. destruct r1 as [|completed [|? ?]]; try discriminate H.
  destruct (take2_inv _ _ _ _ E2) as (A1 & A2 & _).
  exists success, n, ps, completed. split; [now rewrite A1|].
  split. { unfold cnt in A2. unfold lenN. lia. }
  destruct (N.eqb_spec success 1) as [E|E].
  - apply andb_prop in H. destruct H as [H1 H2]. apply N.eqb_eq in H1. split; [|intros; contradiction].
    intros _. split; [exact H1|]. intros md un Hi. exact (all_pairs_sound fst ps H2 (md, un) Hi).
  - split; [intros; contradiction|]. intros _ md un Hi. exact (all_pairs_sound snd ps H (md, un) Hi).
Qed.

(* the same for a line as the harness writes it *)
Theorem mon_data_sound_line success ps completed :
  mon_data (success :: lenN ps :: flat2 ps ++ [completed]) = true ->
  (success = 1 -> completed = 1 /\ forall matches_device unchanged, In (matches_device, unchanged) ps -> matches_device = 1)
  /\ (success <> 1 -> forall matches_device unchanged, In (matches_device, unchanged) ps -> unchanged = 1).
Proof.
  intros H. unfold mon_data in H.
  rewrite cnt_len in H by (rewrite lenN_app, lenN_flat2; lia). rewrite take2_flat2 in H.
  destruct (N.eqb_spec success 1) as [E|E].
  - apply andb_prop in H. destruct H as [H1 H2]. apply N.eqb_eq in H1. split; [|intros; contradiction].
    intros _. split; [exact H1|]. intros md un Hi. exact (all_pairs_sound fst ps H2 (md, un) Hi).
  - split; [intros; contradiction|]. intros _ md un Hi. exact (all_pairs_sound snd ps H (md, un) Hi).
Qed.

(* kind 156 (C05), one round of add_notify_wait_pop against the co-simulated device:
   [event_idx; the device's event index; its flags; available index before; after; notifications the device received;
    the helper was found waiting on an idle device that was neither told nor polling; outcome class; policy; spins] *)
Theorem mon_cosim_sound eidx ev uflags old new notified gave_up class pol spins :
  mon_cosim [eidx; ev; uflags; old; new; notified; gave_up; class; pol; spins] = true ->
  let required := if eidx =? 1 then need_event ev new old else N.land uflags 1 =? 0 in
  (* no lost wake-up: the helper was never waiting on a device that was not told; it returned Ok *)
  gave_up = 0 /\ class = 0
  (* the device was notified when the specification's predicate (event index / clear flag) requires it *)
  /\ (required = true -> 1 <= notified)
  (* and not at all when it had set its suppression flag (event index off) *)
  /\ (eidx = 0 -> required = false -> notified = 0).
Proof.
  intros H required. unfold mon_cosim in H. fold required in H. cbv zeta in H.
  apply andb_prop in H. destruct H as [H H4]. apply andb_prop in H. destruct H as [H H3].
  apply andb_prop in H. destruct H as [H1 H2]. apply N.eqb_eq in H1. apply N.eqb_eq in H2.
  split; [exact H1|]. split; [exact H2|]. split.
  - intros R. rewrite R in H3. now apply N.leb_le.
  - intros E R. rewrite R in H4. subst eidx. cbn [N.eqb andb negb] in H4. now apply N.eqb_eq.
Qed.

(* kind 164 (C05 at driver level) *)
Definition round_required (r : N * N * N * N * N) : bool :=
  match r with (eidx, new, old, ev, uf) => if eidx =? 1 then need_event ev new old else N.land uf 1 =? 0 end.

Lemma all_required_flat rounds rest : (length rest < 5)%nat ->
  all_required (length rounds) (flat5 rounds ++ rest) = forallb round_required rounds.
Proof.
  intros Hr. induction rounds as [|[[[[eidx new] old] ev] uf] t IH].
  - cbn [length flat5 app all_required forallb]. reflexivity.
  - cbn [length flat5 app all_required forallb round_required]. now rewrite IH.
Qed.

(* [the operation was found waiting in vain; policy of the device (0 serves on notification only, 1 polls, 2 serves late);
    number of rounds; per round in which the operation made buffers available (event_idx; new; old; event index; flags)]:
   the blocking operation never waits in vain on a device that polls or serves late, nor on a notification-driven device
   when every round was one the specification wants announced *)
Theorem mon_blocking_sound gave_up pol rounds :
  mon_blocking (gave_up :: pol :: lenN rounds :: flat5 rounds) = true ->
  (pol <> 0 -> gave_up = 0)
  /\ (pol = 0 ->
      (forall eidx new old ev uf, In (eidx, new, old, ev, uf) rounds ->
         (if eidx =? 1 then need_event ev new old else N.land uf 1 =? 0) = true) ->
      gave_up = 0).
Proof.
  intros H. unfold mon_blocking in H.
  rewrite cnt_len in H by (rewrite lenN_flat5; lia).
  rewrite <- (app_nil_r (flat5 rounds)) in H. rewrite all_required_flat in H by (cbn; lia).
  split.
  - intros Hp. destruct (N.eqb_spec pol 0) as [|_]; [contradiction|]. cbn [andb] in H. now apply N.eqb_eq.
  - intros Hp Hall. assert (F : forallb round_required rounds = true).
    { apply forallb_forall. intros [[[[eidx new] old] ev] uf] Hi. exact (Hall _ _ _ _ _ Hi). }
    rewrite F in H. cbn [negb] in H. rewrite andb_false_r in H. now apply N.eqb_eq.
Qed.

(* kind 160 (C07): one queue operation under an adversarial device
   [outcome class (0 result, 1 error, 2 clean panic; 3 and more: the process died); the delivered length stays within the
    buffer; contract violations the instrumented platform has seen (unshare / dealloc without matching live share /
    allocation)] *)
Theorem mon_safe_sound class len_ok viol rest :
  mon_safe (class :: len_ok :: viol :: rest) = true -> class <= 2 /\ len_ok = 1 /\ viol = 0.
Proof.
  unfold mon_safe. intros H. apply andb_prop in H. destruct H as [H H3]. apply andb_prop in H. destruct H as [H1 H2].
  apply N.leb_le in H1. apply N.eqb_eq in H2. apply N.eqb_eq in H3. auto.
Qed.

(* kind 165 (C07, driver level): the call ended in a result, an error or a clean panic; the slice handed out or filled does not
   exceed its backing buffer; no unshare / dealloc without a matching live share / allocation; no free of memory the device
   still owns *)
Theorem mon_drv_safe_sound drv op class detail ret cap viol frees :
  mon_drv_safe [drv; op; class; detail; ret; cap; viol; frees] = true ->
  class <= 2 /\ ret <= cap /\ viol = 0 /\ frees = 0.
Proof.
  unfold mon_drv_safe. intros H. apply andb_prop in H. destruct H as [H H4]. apply andb_prop in H. destruct H as [H H3].
  apply andb_prop in H. destruct H as [H1 H2].
  apply N.leb_le in H1. apply N.leb_le in H2. apply N.eqb_eq in H3. apply N.eqb_eq in H4. auto.
Qed.

(* kind 166 (C07, driver level): the caller-visible results with and without scribbling are equal *)
Theorem mon_drv_indep_sound drv equal n first : mon_drv_indep [drv; equal; n; first] = true -> equal = 1.
Proof. unfold mon_drv_indep. intros H. now apply N.eqb_eq. Qed.

(* ------------------------------------------------------------------------------------------------ *)
(* the inline kinds of queue_monitor                                                                 *)
Ltac open_mon H := unfold queue_monitor in H; cbn [N.eqb Pos.eqb] in H; apply b2n_one in H.

(* kind 168 (C03): [available_desc(); queue size; descriptors held by the outstanding chains; indirect queue]: the free count is
   exact: size - held on a direct queue; on an indirect queue SIZE while a descriptor is free, 0 when none is *)
Theorem mon168_sound free size held ind :
  queue_monitor 168 [free; size; held; ind] = [1] ->
  (ind = 1 -> free = (if held =? size then 0 else size)) /\ (ind <> 1 -> free + held = size).
Proof.
  intros H. open_mon H. destruct (N.eqb_spec ind 1) as [E|E]; apply N.eqb_eq in H; split; intros; (contradiction || assumption).
Qed.

(* kind 167 (C04): add_notify_wait_pop refused because an earlier chain completed first: the refusal is an error, namely
   WrongToken; nothing is unshared by the refused call; the buffers were shared exactly once (shares = expected); the later
   pop of the helper's own chain succeeds and unshares each exactly once; no platform-contract violation *)
Theorem mon167_sound class wrong un1 sh esh class2 un2 viol :
  queue_monitor 167 [class; wrong; un1; sh; esh; class2; un2; viol] = [1] ->
  class = 1 /\ wrong = 1 /\ un1 = 0 /\ sh = esh /\ class2 = 0 /\ un2 = esh /\ viol = 0.
Proof.
  intros H. open_mon H.
  repeat (apply andb_prop in H; let X := fresh "X" in destruct H as [H X]; apply N.eqb_eq in X).
  apply N.eqb_eq in H. repeat split; assumption.
Qed.

(* kind 163 (C03 / C04): [buffers; queue size; outcome class; the error is QueueFull; shares during the call; private and
   device-visible state unchanged]: a chain longer than the queue is refused with QueueFull, shares nothing, changes nothing *)
Theorem mon163_sound n size class full shares same :
  queue_monitor 163 [n; size; class; full; shares; same] = [1] ->
  size < n -> class = 1 /\ full = 1 /\ shares = 0 /\ same = 1.
Proof.
  intros H Hlt. open_mon H. apply N.ltb_lt in Hlt. rewrite Hlt in H. cbn [implb] in H.
  repeat (apply andb_prop in H; let X := fresh "X" in destruct H as [H X]; apply N.eqb_eq in X).
  apply N.eqb_eq in H. repeat split; assumption.
Qed.

(* kind 149 (C01 / C03 / C04 / C07): an add during which the heap refused the indirect table
   [buffers; queue size; outcome class; the refused allocation was reached; shares; private and device-visible state unchanged;
    every other outstanding chain still reads as before]: when the allocation was reached, either the call ended in an error
   or a clean panic with nothing shared and nothing changed, or it was accepted and no outstanding chain was touched *)
Theorem mon149_sound n size class hit shares same others :
  queue_monitor 149 [n; size; class; hit; shares; same; others] = [1] ->
  hit = 1 -> ((class = 1 \/ class = 2) /\ shares = 0 /\ same = 1) \/ (class = 0 /\ others = 1).
Proof.
  intros H Hh. open_mon H. subst hit. cbn [N.eqb Pos.eqb implb] in H.
  apply orb_prop in H. destruct H as [H|H].
  - left. apply andb_prop in H. destruct H as [H H3]. apply andb_prop in H. destruct H as [H1 H2].
    apply N.eqb_eq in H2. apply N.eqb_eq in H3. split; [|auto].
    apply orb_prop in H1. destruct H1 as [H1|H1]; apply N.eqb_eq in H1; auto.
  - right. apply andb_prop in H. destruct H as [H1 H2]. apply N.eqb_eq in H1. apply N.eqb_eq in H2. auto.
Qed.

(* kind 161 (C03): [a completion is pending at the driver's cursor; the used element names the presented token; the
   submission whose buffers are presented is the token's; the pop consumed it]: a published completion for the presented token
   is consumed *)
Theorem mon161_sound pend names own ok :
  queue_monitor 161 [pend; names; own; ok] = [1] -> pend = 1 -> names = 1 -> own = 1 -> ok = 1.
Proof.
  intros H -> -> ->. open_mon H. cbn [N.eqb Pos.eqb andb implb] in H. now apply N.eqb_eq.
Qed.

(* kind 162 (C03): [pending; id of the used element at the cursor; can_pop(); peek_used() is Some; the peeked token]: what the
   device has published is visible: can_pop iff pending, peek_used is Some iff pending and then names id mod 2^16 *)
Theorem mon162_sound pend uid cp pk tok :
  queue_monitor 162 [pend; uid; cp; pk; tok] = [1] -> cp = pend /\ pk = pend /\ (pend = 1 -> tok = uid mod 65536).
Proof.
  intros H. open_mon H. apply andb_prop in H. destruct H as [H H3]. apply andb_prop in H. destruct H as [H1 H2].
  apply N.eqb_eq in H1. apply N.eqb_eq in H2. split; [exact H1|]. split; [exact H2|].
  intros ->. cbn [N.eqb Pos.eqb implb] in H3. now apply N.eqb_eq.
Qed.

(* kind 159 (C03): after a poll that was refused (NotReady / WrongToken): the private state is unchanged and the call had no
   effect on the platform or the device-visible memory (no event) *)
Theorem mon159_sound same nev : queue_monitor 159 [same; nev] = [1] -> same = 1 /\ nev = 0.
Proof.
  intros H. open_mon H. apply andb_prop in H. destruct H as [H1 H2]. apply N.eqb_eq in H1. apply N.eqb_eq in H2. auto.
Qed.

(* kind 158 (C02): [instants checked; instants at which an entry below the visible index was incomplete] *)
Theorem mon158_sound checks viol : queue_monitor 158 [checks; viol] = [1] -> viol = 0.
Proof. intros H. open_mon H. now apply N.eqb_eq. Qed.

(* kind 157 (C05): after a consumed completion on an event-index queue the used-event index the device reads is the driver's
   next used index: a specification-following device interrupts for the next completion *)
Theorem mon157_sound used_event last_used : queue_monitor 157 [used_event; last_used] = [1] -> used_event = last_used.
Proof. intros H. open_mon H. now apply N.eqb_eq. Qed.

(* kind 153 (C05): without event index the flag the device reads is exactly the setting (0 = interrupts wanted) *)
Theorem mon153_sound en fl : queue_monitor 153 [en; fl] = [1] -> fl = (if en =? 1 then 0 else 1).
Proof. intros H. open_mon H. now apply N.eqb_eq. Qed.

(* kind 154 (C04): at the end of a history the live shares are exactly the buffers and tables of the outstanding chains *)
Theorem mon154_sound live expect : queue_monitor 154 [live; expect] = [1] -> live = expect.
Proof. intros H. open_mon H. now apply N.eqb_eq. Qed.

(* the list-shaped monitors as kinds of queue_monitor *)
Lemma queue_monitor_kinds ins :
  queue_monitor 150 ins = [b2n (mon_publish ins)] /\ queue_monitor 152 ins = [b2n (mon_data ins)]
  /\ queue_monitor 155 ins = [b2n (mon_notify ins)] /\ queue_monitor 156 ins = [b2n (mon_cosim ins)]
  /\ queue_monitor 164 ins = [b2n (mon_blocking ins)] /\ queue_monitor 160 ins = [b2n (mon_safe ins)]
  /\ queue_monitor 165 ins = [b2n (mon_drv_safe ins)] /\ queue_monitor 166 ins = [b2n (mon_drv_indep ins)].
Proof. repeat split. Qed.

(* ------------------------------------------------------------------------------------------------ *)
(* B. completeness: the short ones                                                                   *)
Definition result_class {A} (o : outcome A) : N := match o with Ok _ => 0 | Err _ => 1 | Panic => 2 | UB => 3 end.
Definition is_queue_full {A} (o : outcome A) : bool := match o with Err e => e =? EQueueFull | _ => false end.

(* kind 168 holds in every reachable model state: `held` is what the outstanding chains occupy *)
Theorem mon168_complete s chains h :
  Reach s chains h ->
  queue_monitor 168 [available_desc s; q_size s; lenN (all_idxs chains); b2n (q_indirect s)] = [1].
Proof.
  intros HR. destruct (counts_exact _ _ _ HR) as (Hnu & Hle & Hav).
  unfold queue_monitor. cbn [N.eqb Pos.eqb]. apply b2n_one_rev. rewrite Hav.
  destruct (q_indirect s); cbn [b2n N.eqb Pos.eqb].
  - rewrite Hnu. apply N.eqb_refl.
  - apply N.eqb_eq. rewrite Hnu in Hle. lia.
Qed.

(* kind 163 holds of every add of the model in a reachable state (`same` = the harness's comparison of private and
   device-visible state before and after: 1 whenever the state is unchanged) *)
Theorem mon163_complete s chains h ins outs taddr o s' evs same :
  Reach s chains h -> bufs_ok (tag_bufs ins outs) ->
  add s ins outs taddr = (o, s', evs) -> (s' = s -> same = 1) ->
  queue_monitor 163 [lenN (tag_bufs ins outs); q_size s; result_class o; b2n (is_queue_full o); lenN (shares_of evs); same] = [1].
Proof.
  intros HR Hok Hadd Hsame. unfold queue_monitor. cbn [N.eqb Pos.eqb]. apply b2n_one_rev.
  destruct (N.ltb_spec (q_size s) (lenN (tag_bufs ins outs))) as [Hlt|_]; [|reflexivity]. cbn [implb].
  destruct (add_refusals s chains h ins outs taddr HR Hok) as (_ & Hfull & _).
  assert (Hne : tag_bufs ins outs <> []) by (intro E; rewrite E, lenN_nil in Hlt; lia).
  assert (Hcap : capacity_ok s (lenN (tag_bufs ins outs)) = false).
  { unfold capacity_ok. apply N.ltb_lt in Hlt. rewrite Hlt. cbn [orb]. now rewrite orb_true_r. }
  rewrite (Hfull Hne Hcap) in Hadd. inversion Hadd; subst o s' evs. rewrite (Hsame eq_refl). reflexivity.
Qed.

(* kind 149 holds of the model's add under a refusing heap (add_af .. false), in ANY state: `hit` = the table was wanted *)
Theorem mon149_complete s ins outs taddr o s' evs same others :
  add_af s ins outs taddr false = (o, s', evs) -> (s' = s -> same = 1) ->
  queue_monitor 149 [lenN (tag_bufs ins outs); q_size s; result_class o; b2n (add_wants_table s ins outs);
                     lenN (shares_of evs); same; others] = [1].
Proof.
  intros Hadd Hsame. unfold queue_monitor. cbn [N.eqb Pos.eqb]. apply b2n_one_rev.
  destruct (add_alloc_failure s ins outs taddr) as (Hp & _).
  destruct (add_wants_table s ins outs) eqn:E; cbn [b2n N.eqb Pos.eqb implb]; [|reflexivity].
  rewrite (Hp eq_refl) in Hadd. inversion Hadd; subst o s' evs. rewrite (Hsame eq_refl). reflexivity.
Qed.

(* ------------------------------------------------------------------------------------------------ *)
(* B. completeness of monitor 150: the line the harness would write from the model's own device-visible state *)

(* Rig::device_walk of scen/qrig.rs on model memory: `dt` the descriptor table, `mem` what can be read at a device address as
   an indirect table; result (is_indirect, unresolvable, head flags, head len, raw entries) *)
Definition desc_entry (i : N) (d : desc) : N * N * N * N * N := (i, d_addr d, d_len d, d_flags d, d_next d).

(* the direct branch: follow `next` while NEXT is set; an index outside the table is unresolvable; at most fuel + 1 entries *)
Fixpoint raw_direct (dt : list desc) (size cur : N) (fuel : nat) : N * list (N * N * N * N * N) :=
  match fuel with
  | O => if size <=? cur then (1, []) else
         match nthN_error dt cur with None => (1, []) | Some d => (0, [desc_entry cur d]) end
  | S f => if size <=? cur then (1, []) else
           match nthN_error dt cur with
           | None => (1, [])
           | Some d => if has_flag (d_flags d) F_NEXT
                       then let '(bad, es) := raw_direct dt size (d_next d) f in (bad, desc_entry cur d :: es)
                       else (0, [desc_entry cur d])
           end
  end.

(* the entries of an indirect table, numbered by position *)
Fixpoint numbered (k : N) (tbl : list desc) : list (N * N * N * N * N) :=
  match tbl with [] => [] | d :: t => desc_entry k d :: numbered (k + 1) t end.

Definition dev_walk (dt : list desc) (mem : N -> option (list desc)) (size head : N)
  : N * N * N * N * list (N * N * N * N * N) :=
  let direct := let '(bad, es) := raw_direct dt size head (N.to_nat size) in (0, bad, 0, 0, es) in
  match (if head <? size then nthN_error dt head else None) with
  | Some d =>
      if has_flag (d_flags d) F_INDIRECT then
        match mem (d_addr d) with
        | Some tbl => if d_len d / 16 <=? lenN tbl
                      then (1, 0, d_flags d, d_len d, numbered 0 (firstn (N.to_nat (d_len d / 16)) tbl))
                      else (1, 1, d_flags d, d_len d, [])
        | None => (1, 1, d_flags d, d_len d, [])
        end
      else direct
  | None => direct
  end.

(* the (device address, length) pairs of the caller's buffers *)
Definition exp_of (bufs : list (ubuf * bool)) : list (N * N) := map (fun bw => (b_addr (fst bw), b_len (fst bw))) bufs.

(* [N; indirect; old_idx; tok; ring_val; aidx_now; n_in; n_out; (addr,len)*; n_others; others*; is_ind; bad; hflags; hlen; m;
    (idx,addr,len,flags,next)*m], every observed part read from the state s' after the call: the ring value in the slot
   designated by the previous index, the visible index, the walk from that ring value; `others` = the descriptors of the
   chains that were outstanding before the call *)
Definition enc_publish (s s' : qstate) (chains : list chain) (ins outs : list ubuf) (tok : N)
  (mem : N -> option (list desc)) : list N :=
  let old_idx := q_avail_idx s in
  let ring_val := nthN (q_aring s') (old_idx mod q_size s) 0 in
  match dev_walk (q_dtable s') mem (q_size s) ring_val with
  | (is_ind, bad, hflags, hlen, es) =>
      q_size s :: b2n (q_indirect s) :: old_idx :: tok :: ring_val :: q_aidx s' :: lenN ins :: lenN outs
      :: flat2 (exp_of (tag_bufs ins outs))
      ++ lenN (all_idxs chains) :: all_idxs chains ++ is_ind :: bad :: hflags :: hlen :: lenN es :: flat5 es
  end.

(* entry and buffer agree on address, length and direction *)
Definition elem_rel (e : N * N * N * N * N) (bw : ubuf * bool) : Prop :=
  match e with (_, a, l, f, _) => a = b_addr (fst bw) /\ l = b_len (fst bw) /\ has_flag f F_WRITE = snd bw end.

Lemma elems_match_outs : forall outs es,
  Forall2 elem_rel es (map (fun b => (b, true)) outs) ->
  elems_match es (exp_of (map (fun b => (b, true)) outs)) 0 = true.
Proof.
  induction outs as [|b outs IH]; intros es H; inversion H as [|e bw es' l' He Hr]; subst; [reflexivity|].
  destruct e as [[[[i a] l] f] nx]. destruct He as (-> & -> & Hf). cbn [fst snd] in *.
  cbn [map exp_of elems_match fst snd]. rewrite !N.eqb_refl, Hf. cbn [andb Bool.eqb pred]. now apply IH.
Qed.

Lemma elems_match_tag : forall ins outs es,
  Forall2 elem_rel es (tag_bufs ins outs) ->
  elems_match es (exp_of (tag_bufs ins outs)) (length ins) = true.
Proof.
  unfold tag_bufs. induction ins as [|b ins IH]; intros outs es H; [now apply elems_match_outs|].
  cbn [map app] in H. inversion H as [|e bw es' l' He Hr]; subst.
  destruct e as [[[[i a] l] f] nx]. destruct He as (-> & -> & Hf). cbn [fst snd] in *.
  cbn [map app exp_of elems_match fst snd length]. rewrite !N.eqb_refl, Hf. cbn [andb Bool.eqb pred].
  exact (IH outs es' Hr).
Qed.

Lemma raw_direct_dchain size : forall idxs bufs dt fuel,
  dchain dt idxs bufs -> (forall i, In i idxs -> i < size) -> (length idxs <= S fuel)%nat ->
  exists es, raw_direct dt size (hd 0 idxs) fuel = (0, es) /\ map e_idx es = idxs /\ linked size es = true
             /\ Forall2 elem_rel es bufs.
Proof.
  induction idxs as [|i rest IH]; intros bufs dt fuel Hc Hr Hf; [simpl in Hc; contradiction|].
  assert (Hi : i < size) by (apply Hr; now left).
  destruct rest as [|j rest].
  - destruct bufs as [|[b w] [|? ?]]; simpl in Hc; try contradiction. destruct Hc as [nx Hd].
    exists [desc_entry i (bufdesc b w false nx)].
    assert (Hn : has_flag (d_flags (bufdesc b w false nx)) F_NEXT = false) by apply flag_next_last.
    split.
    { cbn [hd]. destruct fuel as [|fuel]; cbn [raw_direct];
        (destruct (N.leb_spec size i) as [|_]; [lia|]); rewrite Hd; [reflexivity|]. now rewrite Hn. }
    split; [reflexivity|]. split.
    { cbn [linked desc_entry]. rewrite Hn. unfold bufdesc. cbn [d_flags]. rewrite (flag_ind_buf false w).
      apply N.ltb_lt in Hi. now rewrite Hi. }
    constructor; [|constructor]. cbn [elem_rel desc_entry bufdesc d_addr d_len d_flags fst snd].
    split; [reflexivity|]. split; [reflexivity|]. apply (flag_write_buf false).
  - destruct bufs as [|[b w] bufs]; simpl in Hc; try contradiction. destruct Hc as [Hd Hc].
    destruct fuel as [|fuel]; [cbn [length] in Hf; lia|].
    destruct (IH bufs dt fuel Hc (fun x Hx => Hr x (or_intror Hx)) ltac:(cbn [length] in *; lia))
      as (es & Hrun & Hmap & Hlk & Hrel).
    cbn [hd] in Hrun.
    exists (desc_entry i (bufdesc b w true j) :: es).
    assert (Hn : has_flag (d_flags (bufdesc b w true j)) F_NEXT = true) by apply flag_next_more.
    split.
    { cbn [hd raw_direct]. destruct (N.leb_spec size i) as [|_]; [lia|]. rewrite Hd, Hn.
      cbn [bufdesc d_next]. now rewrite Hrun. }
    split; [cbn [map e_idx desc_entry]; now rewrite Hmap|]. split.
    { destruct es as [|[[[[j' aj] lj] fj] nj] es']; [discriminate Hmap|].
      cbn [map e_idx] in Hmap. injection Hmap as Ej _. subst j'.
      change (linked size (desc_entry i (bufdesc b w true j) :: (j, aj, lj, fj, nj) :: es'))
        with ((i <? size) && has_flag (d_flags (bufdesc b w true j)) F_NEXT
              && negb (has_flag (d_flags (bufdesc b w true j)) F_INDIRECT) && (d_next (bufdesc b w true j) =? j)
              && linked size ((j, aj, lj, fj, nj) :: es')).
      rewrite Hn, Hlk. unfold bufdesc. cbn [d_flags d_next]. rewrite (flag_ind_buf true w), N.eqb_refl.
      apply N.ltb_lt in Hi. now rewrite Hi. }
    constructor; [|exact Hrel]. cbn [elem_rel desc_entry bufdesc d_addr d_len d_flags fst snd].
    split; [reflexivity|]. split; [reflexivity|]. apply (flag_write_buf true).
Qed.

Lemma numbered_ind_table : forall bufs k, bufs <> [] ->
  table_linked k (numbered k (ind_table bufs k)) = true /\ Forall2 elem_rel (numbered k (ind_table bufs k)) bufs.
Proof.
  induction bufs as [|[b w] bufs IH]; intros k Hne; [congruence|].
  destruct bufs as [|bw bufs].
  - cbn [ind_table numbered table_linked desc_entry d_flags]. rewrite N.eqb_refl, flag_w_next, flag_w_ind.
    split; [reflexivity|]. constructor; [|constructor].
    cbn [elem_rel d_addr d_len fst snd]. split; [reflexivity|]. split; [reflexivity|]. apply flag_w_write.
  - change (ind_table ((b, w) :: bw :: bufs) k)
      with (mkDesc (b_addr b) (b_len b) (F_NEXT + wflag w) (k + 1) :: ind_table (bw :: bufs) (k + 1)).
    destruct (IH (k + 1) ltac:(discriminate)) as [Ht Hr].
    cbn [numbered]. split.
    + destruct (numbered (k + 1) (ind_table (bw :: bufs) (k + 1))) as [|e2 t] eqn:E; [discriminate Ht|].
      change (table_linked k (desc_entry k (mkDesc (b_addr b) (b_len b) (F_NEXT + wflag w) (k + 1)) :: e2 :: t))
        with ((k =? k) && has_flag (F_NEXT + wflag w) F_NEXT && negb (has_flag (F_NEXT + wflag w) F_INDIRECT)
              && (k + 1 =? k + 1) && table_linked (k + 1) (e2 :: t)).
      rewrite !N.eqb_refl, flag_next_more, (flag_ind_buf true w), Ht. reflexivity.
    + constructor; [|exact Hr]. cbn [elem_rel desc_entry d_addr d_len d_flags fst snd].
      split; [reflexivity|]. split; [reflexivity|]. apply (flag_write_buf true).
Qed.

Lemma mon_publish_enc_nil size indirect old_idx tok ring_val aidx_now n_in n_out exp others is_ind bad hflags hlen es :
  lenN exp = n_in + n_out ->
  mon_publish (size :: indirect :: old_idx :: tok :: ring_val :: aidx_now :: n_in :: n_out :: flat2 exp
               ++ lenN others :: others ++ is_ind :: bad :: hflags :: hlen :: lenN es :: flat5 es)
  = publish_core size indirect old_idx tok ring_val aidx_now n_in (n_in + n_out) exp others is_ind bad hflags hlen es.
Proof.
  intros Hn. rewrite <- (app_nil_r (flat5 es)). now apply mon_publish_enc.
Qed.

Lemma Forall2_len {A B} (R : A -> B -> Prop) l1 l2 : Forall2 R l1 l2 -> length l1 = length l2.
Proof. induction 1 as [|? ? ? ? _ _ IH]; [reflexivity|]. cbn [length]. now rewrite IH. Qed.

Lemma nthN_error_nthN {A} (l : list A) i x d : nthN_error l i = Some x -> nthN l i d = x.
Proof. unfold nthN_error, nthN. apply nth_error_nth. Qed.

Lemma lenN_tag ins outs : lenN (tag_bufs ins outs) = lenN ins + lenN outs.
Proof. unfold tag_bufs. now rewrite lenN_app, !lenN_map. Qed.

Lemma lenN_exp_of bufs : lenN (exp_of bufs) = lenN bufs.
Proof. apply lenN_map. Qed.

Lemma firstn_lenN {A} (l : list A) : firstn (N.to_nat (lenN l)) l = l.
Proof. unfold lenN. rewrite Nat2N.id. apply firstn_all. Qed.

Theorem mon_publish_complete s chains h ins outs taddr head s' evs mem :
  Reach s chains h -> bufs_ok (tag_bufs ins outs) ->
  add s ins outs taddr = (Ok head, s', evs) ->
  (forall ta tbl, c_tbl (new_chain s ins outs taddr) = Some (ta, tbl) -> mem ta = Some tbl) ->
  mon_publish (enc_publish s s' chains ins outs head mem) = true.
Proof.
  intros HR Hok Hadd Hmem.
  destruct (add_publishes s chains h ins outs taddr head s' evs mem HR Hok Hadd Hmem)
    as (Hhead & Hch & Hcb & _ & _ & Hring & Hai & Haidx & Htbl & _ & Hdisj & HR').
  set (c := new_chain s ins outs taddr) in *.
  destruct (Reach_Inv _ _ _ HR) as [(fl0 & _ & _ & _ & _ & _ & _ & _ & _ & _ & _ & Hlr0 & _ & _ & _ & [k0 [Hk0 Hpow]]) _].
  destruct (Reach_Inv _ _ _ HR') as [(fl & Hnd & Hlen & Hrange & _ & _ & Hchs & _ & _ & Hldt & _ & Hlr & _) _].
  assert (Hsz : q_size s' = q_size s) by (rewrite <- Hlr, Hring, lenN_updN; exact Hlr0).
  assert (Hslot : q_avail_idx s mod q_size s < q_size s).
  { apply N.mod_lt. rewrite Hpow. apply N.pow_nonzero. discriminate. }
  assert (Hrv : nthN (q_aring s') (q_avail_idx s mod q_size s) 0 = head).
  { rewrite Hring. apply nthN_error_nthN. apply nthN_updN_eq. lia. }
  apply Forall_app in Hchs. destruct Hchs as [_ Hc]. inversion Hc as [|? ? Hcok _]; subst. clear Hc.
  set (hd0 := q_free_head s) in *.
  assert (Hin : In hd0 (c_idxs c)) by (rewrite <- Hch; eapply chain_head_in; eauto).
  rewrite all_idxs_snoc in Hnd, Hrange, Hlen.
  assert (Hhlt : hd0 < q_size s).
  { rewrite <- Hsz. apply Hrange. apply in_or_app. right. apply in_or_app. now right. }
  assert (Hndc : NoDup (c_idxs c ++ all_idxs chains)).
  { apply NoDup_app_remove_l in Hnd. eapply Permutation_NoDup; [apply Permutation_app_comm|exact Hnd]. }
  assert (Hn : lenN (exp_of (tag_bufs ins outs)) = lenN ins + lenN outs) by (rewrite lenN_exp_of; apply lenN_tag).
  unfold enc_publish. rewrite Hrv.
  unfold chain_ok in Hcok. destruct (c_tbl c) as [[ta tbl]|] eqn:Et.
  - destruct Hcok as (Hi & Ht & Hn1 & [nx Hs] & Hd & _). rewrite Hch in *. rewrite Hs in Hd.
    assert (Hw : dev_walk (q_dtable s') mem (q_size s) hd0
                 = (1, 0, F_INDIRECT, 16 * lenN (c_bufs c), numbered 0 (ind_table (c_bufs c) 0))).
    { unfold dev_walk. apply N.ltb_lt in Hhlt. rewrite Hhlt, Hd. cbn [d_flags d_addr d_len].
      change (has_flag F_INDIRECT F_INDIRECT) with true. cbv iota.
      rewrite (Hmem ta tbl eq_refl).
      assert (El : lenN tbl = lenN (c_bufs c)) by (subst tbl; unfold lenN; now rewrite ind_table_length).
      replace (16 * lenN (c_bufs c) / 16) with (lenN tbl) by (rewrite El, N.mul_comm, N.div_mul; [reflexivity|discriminate]).
      rewrite N.leb_refl, firstn_lenN. now subst tbl. }
    rewrite Hw.
    assert (Hne : c_bufs c <> []) by (intro E; rewrite E in Hn1; cbn in Hn1; lia).
    destruct (numbered_ind_table (c_bufs c) 0 Hne) as [Htl Hrel].
    set (es := numbered 0 (ind_table (c_bufs c) 0)) in *.
    assert (Hles : lenN es = lenN ins + lenN outs).
    { rewrite <- lenN_tag, <- Hcb. unfold lenN. now rewrite (Forall2_len _ _ _ Hrel). }
    assert (Hq : q_indirect s = true /\ (1 < length (tag_bufs ins outs))%nat) by (apply Htbl; discriminate).
    destruct Hq as [Hq1 Hq2].
    rewrite (mon_publish_enc_nil _ _ _ _ _ _ _ _ _ _ _ _ _ _ _ Hn). unfold publish_core.
    change (1 =? 1) with true. cbv iota. rewrite Hq1. cbn [b2n].
    rewrite !andb_true_iff. repeat split.
    + apply N.eqb_refl.
    + rewrite Haidx, Hai. apply N.eqb_refl.
    + now apply N.eqb_eq.
    + now apply N.ltb_lt.
    + apply N.ltb_lt. rewrite <- lenN_tag. unfold lenN. lia.
    + apply N.eqb_eq. now rewrite Hcb, lenN_tag.
    + exact Htl.
    + unfold lenN at 1. rewrite Nat2N.id. rewrite Hcb in Hrel. now apply elems_match_tag.
    + apply nodupb_iff. now rewrite <- Hi.
  - destruct Hcok as (Hd & Hh & Hcells).
    assert (Hdt : dchain (q_dtable s') (c_idxs c) (c_bufs c)).
    { eapply dchain_ext; [|exact Hd]. intros i Hi. now destruct (Hcells i Hi). }
    assert (Hr : forall i, In i (c_idxs c) -> i < q_size s).
    { intros i Hi. rewrite <- Hsz. apply Hrange. apply in_or_app. right. apply in_or_app. now right. }
    assert (Hfuel : (length (c_idxs c) <= S (N.to_nat (q_size s)))%nat).
    { assert (lenN (c_idxs c) <= q_size s); [|unfold lenN in *; lia].
      rewrite <- Hsz, <- Hlen, !lenN_app. lia. }
    destruct (raw_direct_dchain (q_size s) (c_idxs c) (c_bufs c) (q_dtable s') (N.to_nat (q_size s)) Hdt Hr Hfuel)
      as (es & Hrun & Hmap & Hlk & Hrel).
    rewrite <- Hh, Hch in Hrun.
    (* the head descriptor carries no INDIRECT *)
    assert (Hhd : exists d, nthN_error (q_dtable s') hd0 = Some d /\ has_flag (d_flags d) F_INDIRECT = false).
    { rewrite <- Hch, Hh. destruct (c_idxs c) as [|i [|j l]]; [contradiction| |].
      - destruct (c_bufs c) as [|[b w] [|? ?]]; simpl in Hdt; try contradiction. destruct Hdt as [nx Hx].
        eexists; split; [exact Hx|]. apply (flag_ind_buf false).
      - destruct (c_bufs c) as [|[b w] ?]; simpl in Hdt; try contradiction. destruct Hdt as [Hx _].
        eexists; split; [exact Hx|]. apply (flag_ind_buf true). }
    destruct Hhd as (d & Hd0 & Hf0).
    assert (Hw : dev_walk (q_dtable s') mem (q_size s) hd0 = (0, 0, 0, 0, es)).
    { unfold dev_walk. apply N.ltb_lt in Hhlt. rewrite Hhlt, Hd0, Hf0, Hrun. reflexivity. }
    rewrite Hw.
    assert (Hles : lenN es = lenN ins + lenN outs).
    { rewrite <- lenN_tag, <- Hcb. unfold lenN. now rewrite (Forall2_len _ _ _ Hrel). }
    assert (Hq : q_indirect s = false \/ lenN ins + lenN outs = 1).
    { destruct (q_indirect s) eqn:Eq; [right|now left].
      destruct (dchain_length _ _ _ Hd) as [Hl Hne].
      assert (~ (1 < length (tag_bufs ins outs))%nat).
      { intro H1. apply (proj2 Htbl (conj eq_refl H1)). reflexivity. }
      rewrite <- lenN_tag. rewrite <- Hcb in *. destruct (c_idxs c); [congruence|]. cbn [length] in Hl. unfold lenN. lia. }
    rewrite (mon_publish_enc_nil _ _ _ _ _ _ _ _ _ _ _ _ _ _ _ Hn). unfold publish_core.
    change (0 =? 1) with false. cbv iota.
    assert (Hfirst : match es with (i, _, _, _, _) :: _ => i =? hd0 | [] => false end = true).
    { rewrite <- Hch, Hh, <- Hmap. destruct es as [|[[[[i a] l] f] nx] t]; [discriminate Hlk|].
      cbn [map e_idx hd]. apply N.eqb_refl. }
    rewrite !andb_true_iff. repeat split.
    + apply N.eqb_refl.
    + rewrite Haidx, Hai. apply N.eqb_refl.
    + now apply N.eqb_eq.
    + now apply N.ltb_lt.
    + exact Hlk.
    + exact Hfirst.
    + unfold lenN at 1. rewrite Nat2N.id. rewrite Hcb in Hrel. now apply elems_match_tag.
    + apply nodupb_iff. now rewrite Hmap.
Qed.

(* ------------------------------------------------------------------------------------------------ *)
(* the inline kinds accept only lines of their own arity: the explicit lists in the monXXX_sound statements lose nothing *)
Ltac arity H ins :=
  unfold queue_monitor in H; cbn [N.eqb Pos.eqb] in H;
  do 9 (destruct ins as [|? ins]; [first [discriminate H | reflexivity]|]); discriminate H.

Lemma inline_monitor_arity ins :
  (queue_monitor 168 ins = [1] -> length ins = 4%nat) /\ (queue_monitor 167 ins = [1] -> length ins = 8%nat)
  /\ (queue_monitor 163 ins = [1] -> length ins = 6%nat) /\ (queue_monitor 149 ins = [1] -> length ins = 7%nat)
  /\ (queue_monitor 161 ins = [1] -> length ins = 4%nat) /\ (queue_monitor 162 ins = [1] -> length ins = 5%nat)
  /\ (queue_monitor 159 ins = [1] -> length ins = 2%nat) /\ (queue_monitor 158 ins = [1] -> length ins = 2%nat)
  /\ (queue_monitor 157 ins = [1] -> length ins = 2%nat) /\ (queue_monitor 153 ins = [1] -> length ins = 2%nat)
  /\ (queue_monitor 154 ins = [1] -> length ins = 2%nat).
Proof. repeat split; intros H; arity H ins. Qed.

Lemma list_monitor_arity ins :
  (mon_cosim ins = true -> length ins = 10%nat) /\ (mon_drv_safe ins = true -> length ins = 8%nat)
  /\ (mon_drv_indep ins = true -> length ins = 4%nat) /\ (mon_safe ins = true -> (3 <= length ins)%nat).
Proof.
  repeat split; intros H.
  - unfold mon_cosim in H. do 11 (destruct ins as [|? ins]; [first [discriminate H | reflexivity]|]). discriminate H.
  - unfold mon_drv_safe in H. do 9 (destruct ins as [|? ins]; [first [discriminate H | reflexivity]|]). discriminate H.
  - unfold mon_drv_indep in H. do 5 (destruct ins as [|? ins]; [first [discriminate H | reflexivity]|]). discriminate H.
  - unfold mon_safe in H. do 3 (destruct ins as [|? ins]; [discriminate H|]). cbn [length]. lia.
Qed.

(* ------------------------------------------------------------------------------------------------ *)
(* two observations made while proving the above (neither is a defect with respect to the model; see the report) *)

(* (1) monitor 150 accepts a well-formed DIRECT chain on any queue: the property says "indirect tables ... used only when
   enabled for the queue", not that they must be used whenever they could be.  (As first written the monitor was STRICTER
   than the property text here: it wanted an indirect table whenever the queue has indirect descriptors and more than one
   buffer is submitted - what `add` does, add_publishes "indirect iff" - and gave the verdict false to the first line below.
   That clause was removed from the monitor; the model's own choice is still compared by the kind-110 correspondence.) *)
Example mon_publish_direct_chain_on_indirect_queue :
  mon_publish [4; 1; 0; 0; 0; 1; 1; 1; 100; 8; 200; 16; 0; 0; 0; 0; 0; 2; 0; 100; 8; 1; 1; 1; 200; 16; 2; 2] = true
  /\ mon_publish [4; 0; 0; 0; 0; 1; 1; 1; 100; 8; 200; 16; 0; 0; 0; 0; 0; 2; 0; 100; 8; 1; 1; 1; 200; 16; 2; 2] = true.
Proof. split; reflexivity. Qed.

(* (2) the count fields are upper bounds, not exact: a line whose count exceeds the items present is parsed up to its end
   (mon_data_sound says `lenN ps <= n`; monitor 164 treats the missing rounds as announced).  The harness always writes
   the exact count. *)
Example mon_data_count_is_an_upper_bound : mon_data [1; 5; 1; 1; 1] = true.
Proof. reflexivity. Qed.
