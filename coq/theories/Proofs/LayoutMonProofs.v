(* What the generic monitors decided inline in Extract/Dispatch.v `step_alloc` MEAN, and that they hold of the model:
     kind 1   ledger line: platform-contract violations the instrumented Hal has seen (C04 and every other property)
     kind 2   ledger line: DMA regions / shares still live at a point where nothing may be
     kind 612 (C06 / C04) the areas a queue registers with the transport against the live DMA regions of the platform
     kind 613 (C06) refusal allocates and registers nothing; a successful creation registers the requested size
   A. meaning: a line the runner accepts (expected = observed) states the clause, in plain arithmetic, for ANY input list;
   B. completeness: the line written from the MODEL's own behaviour (Model/Layout.v queue_new) is accepted. *)
From VD Require Import Base.Words Base.ListUpd Model.Layout Proofs.LayoutProofs Extract.Dispatch.
From Coq Require Import ZArith Lia ZifyBool ZifyN.
Ltac Zify.zify_post_hook ::= Z.div_mod_to_equations.

Lemma b2n_is_one b : [b2n b] = [1] -> b = true.
Proof. destruct b; [reflexivity|discriminate]. Qed.

(* ------------------------------------------------------------------------------------------------ *)
(* kinds 1 and 2: the expected output is the constant [0] whatever the model state (alloc-less scenarios included) and
   whatever stands on the input side; the runner accepts the line iff the observed output equals it.  So an accepted
   line `1 | v` says v = 0 violations of the platform contract (unshare / dealloc without matching live share /
   allocation, share of an overlapping range, a buffer modified while the device owned it ...), an accepted line `2 | r`
   says r = 0 regions / shares still live. *)
Theorem mon_ledger_expected st k ins : k = 1 \/ k = 2 -> snd (step st k ins) = [0].
Proof.
  intros [->| ->]; destruct st; try reflexivity.
Qed.

(* the same as a statement about an accepted line: `obs` the numbers the harness observed *)
Theorem mon_ledger_meaning st k ins obs : k = 1 \/ k = 2 -> snd (step st k ins) = obs -> obs = [0] /\ is_monitor k = true.
Proof.
  intros Hk H. rewrite (mon_ledger_expected st k ins Hk) in H. split; [now symmetry|].
  destruct Hk as [->| ->]; reflexivity.
Qed.

(* the state is not touched by a ledger line *)
Theorem mon_ledger_state st k ins : k = 1 \/ k = 2 -> fst (step_alloc st k ins) = st.
Proof. intros [->| ->]; reflexivity. Qed.

(* ------------------------------------------------------------------------------------------------ *)
(* kind 612 *)
Lemma step612 st legacy n desc drv dev a1 p1 a2 p2 d1 d2 :
  step_alloc st 612 [legacy; n; desc; drv; dev; a1; p1; a2; p2; d1; d2]
  = (st, [b2n (regions_ok_b (n2b legacy) n desc drv dev a1 p1 a2 p2 && dir_reads d1 && dir_writes d2)]).
Proof. reflexivity. Qed.

(* every list accepted by kind 612 has eleven numbers *)
Theorem mon612_decodes st ins : snd (step_alloc st 612 ins) = [1] ->
  exists legacy n desc drv dev a1 p1 a2 p2 d1 d2, ins = [legacy; n; desc; drv; dev; a1; p1; a2; p2; d1; d2].
Proof.
  intros H. change (snd (step_alloc st 612 ins))
    with (match ins with
          | [legacy; n; desc; drv; dev; a1; p1; a2; p2; d1; d2] =>
              [b2n (regions_ok_b (n2b legacy) n desc drv dev a1 p1 a2 p2 && dir_reads d1 && dir_writes d2)]
          | _ => bad end) in H.
  destruct ins as [|x0 [|x1 [|x2 [|x3 [|x4 [|x5 [|x6 [|x7 [|x8 [|x9 [|x10 [|x11 r]]]]]]]]]]]]; try discriminate H.
  now exists x0, x1, x2, x3, x4, x5, x6, x7, x8, x9, x10.
Qed.

(* MEANING of a true verdict of 612.
     legacy       : the transport requires the legacy layout (0 = no)
     n            : queue size
     desc drv dev : the three addresses the transport was given (queue_set)
     (a1, p1, d1) : start, page count and direction of the live DMA region that holds the first byte of the descriptor area
     (a2, p2, d2) : the same for the device area
   direction codes: 0 to the device, 1 from the device, 2 both *)
Theorem mon612_meaning st legacy n desc drv dev a1 p1 a2 p2 d1 d2 :
  snd (step_alloc st 612 [legacy; n; desc; drv; dev; a1; p1; a2; p2; d1; d2]) = [1] ->
  (* alignment 16 / 2 / 4 *)
  desc mod 16 = 0 /\ drv mod 2 = 0 /\ dev mod 4 = 0
  (* the three areas (16 n, 2 (3 + n) and 6 + 8 n bytes) are pairwise disjoint *)
  /\ (desc + 16 * n <= drv \/ drv + 2 * (3 + n) <= desc)
  /\ (desc + 16 * n <= dev \/ dev + (6 + 8 * n) <= desc)
  /\ (drv + 2 * (3 + n) <= dev \/ dev + (6 + 8 * n) <= drv)
  (* descriptor and driver area lie wholly inside the first region, which the device may read *)
  /\ (a1 <= desc /\ desc + 16 * n <= a1 + p1 * 4096)
  /\ (a1 <= drv /\ drv + 2 * (3 + n) <= a1 + p1 * 4096)
  /\ (d1 = 0 \/ d1 = 2)
  (* the device area lies wholly inside the second region, which the device may write *)
  /\ (d2 = 1 \/ d2 = 2)
  /\ (legacy = 0 -> a2 <= dev /\ dev + (6 + 8 * n) <= a2 + p2 * 4096)
  (* legacy: one page-aligned region holds all three; the available ring follows the table, the used ring stands at the
     next page boundary after the available ring counted from the start of the region *)
  /\ (legacy <> 0 ->
        (a1 <= dev /\ dev + (6 + 8 * n) <= a1 + p1 * 4096) /\ a1 mod 4096 = 0 /\ drv = desc + 16 * n
        /\ dev = a1 + (16 * n + 2 * (3 + n) + 4095) / 4096 * 4096).
Proof.
  rewrite step612. cbn [snd]. intros H. apply b2n_is_one in H.
  unfold regions_ok_b, inside, disjoint, dir_reads, dir_writes, desc_size, avail_size, used_size, ALIGN, PAGE, n2b in H.
  destruct (N.eqb_spec legacy 0) as [E|E]; cbn [negb] in H.
  - repeat split; try lia.
  - repeat split; try lia.
Qed.

(* COMPLETENESS: the line the harness would write from the model's own queue_new (as Rig / c06.rs write it: r1 = the
   region of the descriptor area, r2 = the region of the device area, which for the legacy layout is the first one
   again) is accepted, under the hypotheses of C06_regions (the sixteen sizes; the platform returns page-aligned,
   non-overlapping regions). *)
Definition enc612 (legacy : bool) (n : N) (l : layout) : list N :=
  [b2n legacy; n; desc_paddr l; driver_paddr l; device_paddr l; l_a1 l; l_p1 l;
   if legacy then l_a1 l else l_a2 l; if legacy then l_p1 l else l_p2 l;
   if legacy then DIR_BOTH else DIR_TO_DEV; if legacy then DIR_BOTH else DIR_FROM_DEV].

Lemma regions_ok_b_legacy_any n desc drv dev a1 p1 a2 p2 a2' p2' :
  regions_ok_b true n desc drv dev a1 p1 a2 p2 = regions_ok_b true n desc drv dev a1 p1 a2' p2'.
Proof. reflexivity. Qed.

Theorem mon612_holds_of_model st legacy n idx maxsz a1 a2 l evs :
  In n sizes -> a1 mod PAGE = 0 -> a2 mod PAGE = 0 ->
  (legacy = false ->
     a1 + pages (desc_size n + avail_size n) * PAGE <= a2 \/ a2 + pages (used_size n) * PAGE <= a1) ->
  queue_new legacy n idx false maxsz a1 a2 = (Ok l, evs) ->
  snd (step_alloc st 612 (enc612 legacy n l)) = [1]
  (* ... and the directions in the line are those of the allocations the model made *)
  /\ (if legacy then In (EvAlloc (l_p1 l) DIR_BOTH (l_a1 l)) evs
      else In (EvAlloc (l_p1 l) DIR_TO_DEV (l_a1 l)) evs /\ In (EvAlloc (l_p2 l) DIR_FROM_DEV (l_a2 l)) evs).
Proof.
  intros Hn H1 H2 Hd H. pose proof (regions_ok legacy n idx maxsz a1 a2 l evs Hn H1 H2 Hd H) as R.
  destruct (new_ok_shape legacy n idx maxsz a1 a2 l evs H) as (_ & _ & _ & _ & Ea1 & Eevs & Ep).
  split.
  - unfold enc612. rewrite step612. cbn [snd].
    destruct legacy; cbn [b2n].
    + change (n2b 1) with true. rewrite (regions_ok_b_legacy_any _ _ _ _ _ _ _ _ (l_a2 l) (l_p2 l)), R. reflexivity.
    + change (n2b 0) with false. rewrite R. reflexivity.
  - destruct legacy.
    + rewrite Eevs, Ep, Ea1. cbn. auto.
    + destruct Ep as (Ep1 & Ea2 & Ep2). rewrite Eevs, Ep1, Ep2, Ea1, Ea2. cbn. auto.
Qed.

(* AUDIT witnesses (see the report): *)
(* (a) legacy: the verdict does not ask that the descriptor table starts the region (the legacy transport hands the
   device a page NUMBER): a table 16 bytes into the region is accepted *)
Example mon612_legacy_desc_not_at_region_start st :
  snd (step_alloc st 612 [1; 8; 4112; 4240; 8192; 4096; 2; 4096; 2; 2; 2]) = [1].
Proof. vm_compute. reflexivity. Qed.
(* (b) modern: the driver area is only looked for in the region that holds the descriptor area; a driver area inside some
   OTHER live region (three separate allocations) cannot be expressed in the line and gets the verdict false *)
Example mon612_driver_area_in_third_region st :
  snd (step_alloc st 612 [0; 8; 4096; 12288; 8192; 4096; 1; 8192; 1; 0; 1]) = [0].
Proof. vm_compute. reflexivity. Qed.

(* ------------------------------------------------------------------------------------------------ *)
(* kind 613 *)
Lemma step613 st forbid cls na ns rsz n :
  step_alloc st 613 [forbid; cls; na; ns; rsz; n]
  = (st, [b2n (if forbid =? 1 then (cls =? 1) && (na =? 0) && (ns =? 0)
               else implb (cls =? 0) ((ns =? 1) && (rsz =? n)))]).
Proof. reflexivity. Qed.

Theorem mon613_decodes st ins : snd (step_alloc st 613 ins) = [1] ->
  exists forbid cls na ns rsz n, ins = [forbid; cls; na; ns; rsz; n].
Proof.
  intros H. change (snd (step_alloc st 613 ins))
    with (match ins with
          | [forbid; cls; na; ns; rsz; n] =>
              [b2n (if forbid =? 1 then (cls =? 1) && (na =? 0) && (ns =? 0)
                    else implb (cls =? 0) ((ns =? 1) && (rsz =? n)))]
          | _ => bad end) in H.
  destruct ins as [|x0 [|x1 [|x2 [|x3 [|x4 [|x5 [|x6 r]]]]]]]; try discriminate H.
  now exists x0, x1, x2, x3, x4, x5.
Qed.

(* MEANING: [the transport's answers forbid the creation (queue in use, or smaller than requested); outcome class (0 = Ok,
   1 = error, 2 = panic); dma_alloc calls; queue_set calls; the size given to queue_set; the requested size] *)
Theorem mon613_meaning st forbid cls na ns rsz n :
  snd (step_alloc st 613 [forbid; cls; na; ns; rsz; n]) = [1] ->
  (* a forbidden creation is refused with an error, having allocated nothing and registered nothing *)
  (forbid = 1 -> cls = 1 /\ na = 0 /\ ns = 0)
  (* a successful creation has registered exactly one queue, of the requested size *)
  /\ (forbid <> 1 -> cls = 0 -> ns = 1 /\ rsz = n).
Proof.
  rewrite step613. cbn [snd]. intros H. apply b2n_is_one in H.
  destruct (N.eqb_spec forbid 1) as [E|E].
  - split; [intros _; lia|intros; contradiction].
  - split; [intros; contradiction|]. intros _ Hc. subst cls. cbn [N.eqb implb] in H. lia.
Qed.

(* COMPLETENESS: the line of c06.rs built from the model's queue_new, for EVERY size, layout, transport answer and
   platform answer *)
Definition n_allocs (l : list ev) : N := lenN (filter (fun e => match e with EvAlloc _ _ _ => true | _ => false end) l).
Definition reg_size (l : list ev) : N :=
  match queue_sets l with EvQueueSet _ s _ _ _ :: _ => s | _ => 0 end.
Definition res_class {A} (o : outcome A) : N := match o with Ok _ => 0 | Err _ => 1 | Panic => 2 | UB => 3 end.

Theorem mon613_holds_of_model st legacy n idx in_use maxsz a1 a2 :
  let r := queue_new legacy n idx in_use maxsz a1 a2 in
  snd (step_alloc st 613 [b2n (in_use || (maxsz <? n)); res_class (fst r); n_allocs (snd r); lenN (queue_sets (snd r));
                          reg_size (snd r); n]) = [1].
Proof.
  cbv zeta. rewrite step613. cbn [snd]. unfold queue_new.
  destruct in_use; [reflexivity|]. cbn [orb].
  destruct (N.ltb maxsz n); [reflexivity|]. cbn [b2n N.eqb].
  unfold allocate. destruct legacy.
  - destruct (N.eqb a1 0); [reflexivity|]. cbn. now rewrite N.eqb_refl.
  - destruct (N.eqb a1 0); [reflexivity|]. destruct (N.eqb a2 0); [reflexivity|]. cbn. now rewrite N.eqb_refl.
Qed.
