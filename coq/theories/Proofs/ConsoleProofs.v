(* C15: the console byte stream.  The driver model (Model/Console.v) composed with the abstract    *)
(* console device (Model/ConsoleSpec.v): an invariant of the product system preserved by every    *)
(* operation of the receive API and every device action, for every interleaving.                  *)
From VD Require Import Base.Words Base.ListUpd Model.Queue Model.Console Model.ConsoleSpec
  Proofs.QueueInv Proofs.QueueReach Proofs.QueueProps.
From Coq Require Import ZArith Lia ZifyBool ZifyN.
Ltac Zify.zify_post_hook ::= Z.div_mod_to_equations.

(* ------------------------------------------------------------------------------------------ *)
(* small facts                                                                                  *)
Lemma land1 x : N.land x 1 = x mod 2.
Proof. change 1 with (2 ^ 1 - 1) at 1. rewrite land_mask. reflexivity. Qed.

Lemma w16_small x : x < two16 -> w16 x = x.
Proof. unfold w16, two16. intros H. apply N.mod_small. exact H. Qed.

Lemma w16_lt x : w16 x < two16.
Proof. unfold w16, two16. apply N.mod_lt. discriminate. Qed.

Lemma w16_succ_neq x : x < two16 -> w16 (x + 1) <> x.
Proof. unfold w16, two16. intros H. lia. Qed.

Lemma w32_small x : x < two32 -> w32 x = x.
Proof. unfold w32, two32. intros H. apply N.mod_small. exact H. Qed.

Lemma nthN_of_error {A} (l : list A) i x d : nthN_error l i = Some x -> nthN l i d = x.
Proof. unfold nthN_error, nthN. intros H. now apply nth_error_nth. Qed.

Lemma nthN_updN_same {A} (l : list A) i x d : i < lenN l -> nthN (updN l i x) i d = x.
Proof. intros H. apply nthN_of_error. now apply nthN_updN_eq. Qed.

Lemma skipn_all_len {A} (l : list A) n : (length l <= n)%nat -> skipn n l = [].
Proof. intros H. apply skipn_all2. exact H. Qed.

Lemma skipn_cons_nth {A} (l : list A) n d : (n < length l)%nat -> skipn n l = nth n l d :: skipn (S n) l.
Proof.
  revert n. induction l as [|x l IH]; intros [|n] H; simpl in *; try lia; [reflexivity|].
  apply IH. lia.
Qed.

Lemma skipn_add {A} (l : list A) a b : skipn (a + b) l = skipn b (skipn a l).
Proof.
  revert l. induction a as [|a IH]; intros l; [reflexivity|].
  destruct l as [|x l]; [now rewrite !skipn_nil|]. simpl. apply IH.
Qed.

Lemma firstn_full {A} (l : list A) n : (length l <= n)%nat -> firstn n l = l.
Proof. intros H. now apply firstn_all2. Qed.

(* what Reach gives about the fields the console and the device look at *)
Lemma reach_basic s chains h : Reach s chains h ->
  q_aidx s = q_avail_idx s /\ q_avail_idx s < two16 /\ q_last_used s < two16
  /\ lenN (q_aring s) = q_size s.
Proof.
  intros HR. destruct (Reach_Inv _ _ _ HR) as [(fl & HI) _].
  destruct HI as (_ & _ & _ & _ & _ & _ & _ & _ & _ & _ & Hring & Hai & Hav & Hlu & _).
  auto.
Qed.

(* ------------------------------------------------------------------------------------------ *)
(* the receive-side invariant of the product system                                            *)
Definition rx_chain (t : N) (ch : chain) : Prop :=
  c_head ch = t /\ c_tbl ch = None /\ exists a, c_bufs ch = [(rxbuf a, true)].

Definition Jrx (c : cstate) (d : dev) (infl : list N) : Prop :=
  exists chains h,
    Reach (c_rxq c) chains h /\ q_size (c_rxq c) = 2
    /\ c_cursor c <= c_pending c /\ c_pending c <= PAGE /\ lenN (c_buf c) = c_pending c
    /\ d_used d < two16 /\ d_seen d = d_used d /\ lenN (d_ring d) = 2
    /\ match c_token c with
       | None => chains = [] /\ infl = []
                 /\ q_avail_idx (c_rxq c) = d_seen d /\ q_last_used (c_rxq c) = d_used d
       | Some t =>
           t < 2 /\ c_cursor c = c_pending c
           /\ exists ch, chains = [ch] /\ rx_chain t ch
           /\ ((infl = [] /\ q_avail_idx (c_rxq c) = w16 (d_seen d + 1)
                /\ nthN (q_aring (c_rxq c)) (d_seen d mod 2) 0 = t
                /\ q_last_used (c_rxq c) = d_used d)
               \/ (1 <= lenN infl <= PAGE /\ q_avail_idx (c_rxq c) = d_seen d
                   /\ d_used d = w16 (q_last_used (c_rxq c) + 1)
                   /\ nthN (d_ring d) (q_last_used (c_rxq c) mod 2) (0, 0) = (t, lenN infl)
                   /\ d_mem d = infl))
       end.

(* Jrx only looks at the receive half of the driver state *)
Lemma Jrx_ext c c' d infl :
  c_rxq c' = c_rxq c -> c_buf c' = c_buf c -> c_cursor c' = c_cursor c -> c_pending c' = c_pending c ->
  c_token c' = c_token c -> Jrx c d infl -> Jrx c' d infl.
Proof. unfold Jrx. intros -> -> -> -> ->. auto. Qed.

Lemma unread_ext c c' : c_buf c' = c_buf c -> c_cursor c' = c_cursor c -> unread c' = unread c.
Proof. unfold unread. now intros -> ->. Qed.

(* with a request outstanding nothing is unread *)
Lemma Jrx_token_unread c d infl t : Jrx c d infl -> c_token c = Some t -> unread c = [].
Proof.
  intros (chains & h & _ & _ & Hcp & Hp & Hlen & _ & _ & _ & Htok) E. rewrite E in Htok.
  destruct Htok as (_ & Hcur & _). unfold unread. apply skipn_all_len.
  unfold lenN, PAGE in *. lia.
Qed.

Lemma Jrx_unread_len c d infl : Jrx c d infl -> lenN (unread c) = c_pending c - c_cursor c.
Proof.
  intros (chains & h & _ & _ & Hcp & Hp & Hlen & _). unfold unread, lenN in *. rewrite skipn_length.
  unfold PAGE in *. lia.
Qed.

Lemma keys_rx a : keys (tag_bufs [] [rxbuf 0]) = keys [(rxbuf a, true)].
Proof. reflexivity. Qed.

(* ------------------------------------------------------------------------------------------ *)
(* finish_receive against the device's current view                                            *)
Lemma finish_spec c d infl : Jrx c d infl ->
  ((c_token c = None \/ infl = []) /\ finish_receive c (dev_view d) = (Ok false, c, []))
  \/ (exists t c' evs,
        c_token c = Some t /\ infl <> []
        /\ finish_receive c (dev_view d) = (Ok true, c', evs)
        /\ c_buf c' = infl /\ c_cursor c' = 0 /\ c_pending c' = lenN infl /\ c_token c' = None
        /\ c_txq c' = c_txq c /\ c_feats c' = c_feats c
        /\ q_last_used (c_rxq c') <> q_last_used (c_rxq c)
        /\ Jrx c' d []).
Proof.
  intros (chains & h & HR & Hsz & Hcp & Hp & Hlen & Hdu & Hds & Hring & Htok).
  destruct (reach_basic _ _ _ HR) as (Haidx & Hav & Hlu & Har).
  unfold finish_receive.
  destruct (c_token c) as [t|] eqn:Etok.
  2:{ left. split; [now left|reflexivity]. }
  destruct Htok as (Ht & Hcur & ch & -> & (Hhead & Htbl & a & Hbufs) & [Hun|Hfi]).
  - (* posted, not filled: the used index has not moved *)
    destruct Hun as (-> & Hai & Hslot & Hl).
    left. split; [now right|].
    destruct (used_elem (c_rxq c) (dev_view d)) as [uid ulen].
    unfold peek_used, can_pop. cbn [dev_view v_uidx].
    rewrite (w16_small (d_used d) Hdu), Hl, N.eqb_refl. reflexivity.
  - destruct Hfi as (Hil & Hai & Hdused & Helem & Hmem).
    right.
    assert (Hne : infl <> []) by (intros ->; rewrite lenN_nil in Hil; lia).
    unfold used_elem. cbn [dev_view v_ring v_uidx v_data]. rewrite Hsz. change (2 - 1) with 1.
    rewrite land1, Helem.
    unfold peek_used, can_pop. rewrite (w16_small (d_used d) Hdu).
    assert (Hneq : q_last_used (c_rxq c) <> d_used d).
    { rewrite Hdused. intros E. symmetry in E. revert E. now apply w16_succ_neq. }
    destruct (N.eqb_spec (q_last_used (c_rxq c)) (d_used d)) as [E|_]; [contradiction|].
    cbn [negb]. assert (Hwt : w16 t = t) by (apply w16_small; unfold two16; lia).
    rewrite Hwt, N.eqb_refl. cbn [negb].
    assert (Hkeys : keys (tag_bufs [] [rxbuf 0]) = keys (c_bufs ch)) by (rewrite Hbufs; apply keys_rx).
    destruct (pop_refines (c_rxq c) [] ch [] h [] [rxbuf 0] (d_used d) t (lenN infl) HR Hkeys) as (_ & _ & P3).
    rewrite (w16_small (d_used d) Hdu), Hwt in P3.
    destruct (P3 Hneq (eq_sym Hhead)) as (s' & evs & Hpop & HR' & Hlu' & _ & _ & Hav' & _ & _ & _ & Hsz' & _).
    rewrite Hhead in Hpop. rewrite Hpop.
    assert (Hw32 : w32 (lenN infl) = lenN infl) by (apply w32_small; unfold two32, PAGE in *; lia).
    rewrite Hw32.
    destruct (N.eqb_spec (lenN infl) 0) as [E0|_]; [lia|].
    exists t. eexists. eexists. split; [reflexivity|]. split; [exact Hne|]. split; [reflexivity|].
    cbn [c_buf c_cursor c_pending c_token c_txq c_feats c_rxq].
    split; [exact Hmem|]. split; [reflexivity|]. split; [reflexivity|]. split; [reflexivity|].
    split; [reflexivity|]. split; [reflexivity|].
    split. { rewrite Hlu'. now apply w16_succ_neq. }
    exists [], (h ++ evs). cbn [c_rxq c_cursor c_pending c_buf c_token].
    split; [exact HR'|]. split; [now rewrite Hsz'|]. split; [lia|]. split; [lia|].
    split; [now rewrite Hmem|]. split; [exact Hdu|]. split; [exact Hds|]. split; [exact Hring|].
    split; [reflexivity|]. split; [reflexivity|]. split; [now rewrite Hav'|].
    now rewrite Hlu', Hdused.
Qed.

(* ------------------------------------------------------------------------------------------ *)
(* poll_retrieve                                                                               *)
Lemma poll_spec c d infl addr ae uf : Jrx c d infl ->
  exists c' evs,
    poll_retrieve c addr ae uf = (Ok tt, c', evs) /\ Jrx c' d infl
    /\ c_buf c' = c_buf c /\ c_cursor c' = c_cursor c /\ c_pending c' = c_pending c
    /\ q_last_used (c_rxq c') = q_last_used (c_rxq c)
    /\ c_txq c' = c_txq c /\ c_feats c' = c_feats c
    /\ (c_cursor c' = c_pending c' -> c_token c' <> None)
    /\ (c_token c <> None -> c' = c).
Proof.
  intros HJ. assert (HJ0 := HJ).
  destruct HJ as (chains & h & HR & Hsz & Hcp & Hp & Hlen & Hdu & Hds & Hring & Htok).
  unfold poll_retrieve.
  destruct (c_token c) as [t|] eqn:Etok.
  { exists c, []. split; [reflexivity|]. split; [exact HJ0|]. repeat split; auto. rewrite Etok. discriminate. }
  destruct (N.eqb_spec (c_cursor c) (c_pending c)) as [Ecur|Ecur].
  2:{ exists c, []. split; [reflexivity|]. split; [exact HJ0|]. repeat split; auto; try contradiction. }
  destruct Htok as (-> & -> & Hai & Hl).
  destruct (reach_basic _ _ _ HR) as (Haidx & Hav & Hlu & Har).
  set (s := c_rxq c) in *.
  assert (Hok : bufs_ok (tag_bufs [] [rxbuf addr])).
  { constructor; [|constructor]. cbn. unfold PAGE, two32. split; [discriminate|reflexivity]. }
  assert (Hne : tag_bufs [] [rxbuf addr] <> []) by discriminate.
  destruct (chains_disjoint _ _ _ HR) as (_ & _ & Hnu & _). cbn in Hnu.
  assert (Hcap : capacity_ok s (lenN (tag_bufs [] [rxbuf addr])) = true).
  { change (lenN (tag_bufs [] [rxbuf addr])) with 1. unfold capacity_ok. rewrite Hnu, Hsz.
    cbn. now rewrite andb_false_r. }
  destruct (Reach_Inv _ _ _ HR) as [HI _].
  destruct (add_ok s [] [] [rxbuf addr] 0 HI Hne Hok Hcap)
    as (s' & evs & c1 & Hadd & _ & _ & _ & _ & _ & _ & Hlu' & Hsz' & _).
  destruct (add_publishes s [] h [] [rxbuf addr] 0 _ s' evs (fun _ => None) HR Hok Hadd)
    as (_ & Hch & Hcb & _ & _ & Hring' & Hai' & _ & Htbl & _ & _ & HR').
  { intros ta tbl Et. exfalso. unfold new_chain in Et. cbn [tag_bufs map app] in Et.
    change (lenN [(rxbuf addr, true)]) with 1 in Et. change (1 <? 1) with false in Et.
    rewrite andb_false_r in Et. discriminate. }
  set (ch := new_chain s [] [rxbuf addr] 0) in *. cbn [app] in HR'.
  rewrite Hadd.
  (* the token is a descriptor index of a queue of two *)
  assert (Ht : q_free_head s < 2).
  { destruct (chains_disjoint _ _ _ HR') as (_ & Hrange & _).
    rewrite <- Hsz, <- Hsz'. apply Hrange.
    destruct (Reach_Inv _ _ _ HR') as [(fl & _ & _ & _ & _ & _ & Hchs & _) _].
    inversion Hchs as [|? ? Hc0 _]; subst.
    apply chain_head_in in Hc0. unfold all_idxs. cbn [map concat]. rewrite app_nil_r.
    now rewrite Hch in Hc0. }
  eexists. eexists. split; [reflexivity|].
  split.
  { exists [ch], (h ++ evs). cbn [set_rx c_rxq c_cursor c_pending c_buf c_token].
    split; [exact HR'|]. split; [now rewrite Hsz'|]. split; [exact Hcp|]. split; [exact Hp|].
    split; [exact Hlen|]. split; [exact Hdu|]. split; [exact Hds|]. split; [exact Hring|].
    split; [exact Ht|]. split; [exact Ecur|].
    exists ch. split; [reflexivity|].
    split.
    { split; [exact Hch|]. split.
      - destruct (c_tbl ch) eqn:E; [|reflexivity]. exfalso.
        destruct (proj1 Htbl ltac:(discriminate)) as [_ Hx]. cbn in Hx. lia.
      - exists addr. exact Hcb. }
    left. split; [reflexivity|]. split; [now rewrite Hai', Hai|].
    split.
    { rewrite Hring', Hai, Hsz. apply nthN_updN_same. rewrite Har, Hsz.
      apply N.mod_lt. discriminate. }
    now rewrite Hlu'. }
  cbn [set_rx c_buf c_cursor c_pending c_rxq c_txq c_feats c_token].
  repeat split; auto; try discriminate. intros Hx. now elim Hx.
Qed.

(* ------------------------------------------------------------------------------------------ *)
(* the device                                                                                  *)
Lemma chain_holds_rx s h ch t n : Reach s [ch] h -> q_size s = 2 -> rx_chain t ch ->
  chain_holds s t n = (n <=? PAGE).
Proof.
  intros HR Hsz (Hhead & Htbl & a & Hbufs).
  assert (Hm : mem_has_tables (fun _ => None) [ch]).
  { intros c0 ta tbl [<-|[]] E. rewrite Htbl in E. discriminate. }
  pose proof (all_chains_walk s [ch] h (fun _ => None) HR Hm) as Hw.
  inversion Hw as [|? ? Hw0 _]; subst. unfold chain_holds. rewrite Hsz.
  change (N.to_nat (N.min 2 32768)) with (N.to_nat 2). rewrite Hsz in Hw0. rewrite Hw0, Hbufs.
  reflexivity.
Qed.

Lemma fill_spec c d infl chunk : Jrx c d infl ->
  (dev_can_fill (c_rxq c) d chunk = true ->
     (exists t, c_token c = Some t) /\ infl = [] /\ 1 <= lenN chunk <= PAGE
     /\ Jrx c (dev_fill (c_rxq c) d chunk) chunk)
  /\ (c_token c = None \/ infl <> [] -> dev_can_fill (c_rxq c) d chunk = false)
  /\ (c_token c <> None -> infl = [] -> 1 <= lenN chunk <= PAGE -> dev_can_fill (c_rxq c) d chunk = true).
Proof.
  intros (chains & h & HR & Hsz & Hcp & Hp & Hlen & Hdu & Hds & Hring & Htok).
  destruct (reach_basic _ _ _ HR) as (Haidx & Hav & Hlu & Har).
  assert (Hseen : d_seen d < two16) by (rewrite Hds; exact Hdu).
  unfold dev_can_fill. rewrite Haidx.
  destruct (c_token c) as [t|] eqn:Etok.
  2:{ destruct Htok as (-> & -> & Hai & Hl). rewrite Hai, N.eqb_refl. cbn [negb andb].
      split; [discriminate|]. split; [reflexivity|]. intros Hx. now elim Hx. }
  destruct Htok as (Ht & Hcur & ch & -> & Hrx & [Hun|Hfi]).
  - destruct Hun as (-> & Hai & Hslot & Hl).
    assert (Hhd : dev_head (c_rxq c) d = t).
    { unfold dev_head. rewrite Hsz. change (2 - 1) with 1. now rewrite land1. }
    rewrite Hhd, (chain_holds_rx _ _ _ _ _ HR Hsz Hrx).
    destruct (N.eqb_spec (d_seen d) (q_avail_idx (c_rxq c))) as [E|_].
    { exfalso. rewrite Hai in E. symmetry in E. revert E. now apply w16_succ_neq. }
    cbn [negb andb].
    split.
    { intros Hc. assert (Hr : 1 <= lenN chunk <= PAGE) by lia.
      split; [eauto|]. split; [reflexivity|]. split; [exact Hr|].
      unfold dev_fill, dev_can_fill. rewrite Haidx, Hhd, (chain_holds_rx _ _ _ _ _ HR Hsz Hrx).
      destruct (N.eqb_spec (d_seen d) (q_avail_idx (c_rxq c))) as [E|_].
      { exfalso. rewrite Hai in E. symmetry in E. revert E. now apply w16_succ_neq. }
      cbn [negb andb]. rewrite Hc.
      exists [ch], h. cbn [d_used d_seen d_ring d_mem]. rewrite Etok.
      split; [exact HR|]. split; [exact Hsz|]. split; [exact Hcp|]. split; [exact Hp|]. split; [exact Hlen|].
      split; [apply w16_lt|]. split; [now rewrite Hds|].
      split; [now rewrite lenN_updN|].
      split; [exact Ht|]. split; [exact Hcur|]. exists ch. split; [reflexivity|]. split; [exact Hrx|].
      right. split; [exact Hr|]. split; [exact Hai|]. split; [now rewrite Hl|].
      split; [|reflexivity].
      rewrite Hsz. change (2 - 1) with 1. rewrite land1, Hl. apply nthN_updN_same.
      rewrite Hring. apply N.mod_lt. discriminate. }
    split; [intros [Hx|Hx]; [discriminate|now elim Hx]|].
    intros _ _ Hr. lia.
  - destruct Hfi as (Hil & Hai & Hdused & Helem & Hmem).
    rewrite Hai, N.eqb_refl. cbn [negb andb].
    split; [discriminate|]. split; [reflexivity|].
    intros _ -> _. rewrite lenN_nil in Hil. lia.
Qed.

(* ------------------------------------------------------------------------------------------ *)
(* the stream equation through the driver's operations                                         *)
Lemma Jrx_none_infl c d infl : Jrx c d infl -> c_token c = None -> infl = [].
Proof.
  intros (chains & h & _ & _ & _ & _ & _ & _ & _ & _ & Htok) E. rewrite E in Htok. tauto.
Qed.

Lemma Jrx_unread_some c d infl : Jrx c d infl -> c_cursor c <> c_pending c -> c_token c = None.
Proof.
  intros (chains & h & _ & _ & _ & _ & _ & _ & _ & _ & Htok) Hne.
  destruct (c_token c); [|reflexivity]. destruct Htok as (_ & E & _). contradiction.
Qed.

Lemma Jrx_bounds c d infl : Jrx c d infl ->
  c_cursor c <= c_pending c /\ c_pending c <= PAGE /\ lenN (c_buf c) = c_pending c.
Proof. intros (chains & h & _ & _ & A & B & C & _). auto. Qed.

Lemma infl_after_same c infl : infl_after c c infl = infl.
Proof. unfold infl_after. now rewrite N.eqb_refl. Qed.

Lemma infl_after_ext c c1 c2 infl :
  q_last_used (c_rxq c2) = q_last_used (c_rxq c1) -> infl_after c c2 infl = infl_after c c1 infl.
Proof. unfold infl_after. now intros ->. Qed.

Lemma infl_after_ext_l c0 c1 c2 infl :
  q_last_used (c_rxq c0) = q_last_used (c_rxq c1) -> infl_after c0 c2 infl = infl_after c1 c2 infl.
Proof. unfold infl_after. now intros ->. Qed.

Lemma infl_after_popped c c' infl :
  q_last_used (c_rxq c') <> q_last_used (c_rxq c) -> infl_after c c' infl = [].
Proof.
  unfold infl_after. intros H.
  destruct (N.eqb_spec (q_last_used (c_rxq c)) (q_last_used (c_rxq c'))) as [E|_]; [congruence|reflexivity].
Qed.

(* changing the cursor when nothing is outstanding *)
Lemma Jrx_set_cursor c d cu : Jrx c d [] -> c_token c = None -> cu <= c_pending c -> Jrx (set_cursor c cu) d [].
Proof.
  intros (chains & h & HR & Hsz & Hcp & Hp & Hlen & Hdu & Hds & Hring & Htok) E Hcu.
  exists chains, h. cbn [set_cursor c_rxq c_cursor c_pending c_buf c_token]. rewrite E in *.
  repeat (split; [assumption|]). exact Htok.
Qed.

Lemma finish_J c d infl D W : Jrx c d infl -> D ++ unread c ++ infl = W ->
  exists b c' evs, finish_receive c (dev_view d) = (Ok b, c', evs)
    /\ Jrx c' d [] /\ infl_after c c' infl = [] /\ D ++ unread c' = W
    /\ c_txq c' = c_txq c /\ c_feats c' = c_feats c
    /\ (b = false -> c' = c).
Proof.
  intros HJ HS. destruct (finish_spec c d infl HJ) as [[Hno E]|(t & c' & evs & Etok & Hne & E & Hb & Hc & Hp & Ht & Htx & Hf & Hlu & HJ')].
  - assert (Hi : infl = []) by (destruct Hno as [Hn|Hn]; [eapply Jrx_none_infl; eauto|exact Hn]). subst infl.
    exists false, c, []. split; [exact E|]. split; [exact HJ|]. split; [apply infl_after_same|].
    rewrite app_nil_r in HS. auto.
  - exists true, c', evs. split; [exact E|]. split; [exact HJ'|]. split; [now apply infl_after_popped|].
    split.
    { rewrite (Jrx_token_unread c d infl t HJ Etok) in HS. cbn [app] in HS.
      unfold unread. rewrite Hb, Hc. exact HS. }
    split; [exact Htx|]. split; [exact Hf|]. discriminate.
Qed.

Lemma uadd_small m a b : a + b < two64 -> uadd m a b = Ok (a + b).
Proof. unfold uadd. intros H. destruct (N.ltb_spec (a + b) two64); [reflexivity|lia]. Qed.

Lemma usub_small m a b : b <= a -> usub m a b = Ok (a - b).
Proof. unfold usub. intros H. destruct (N.leb_spec b a); [reflexivity|lia]. Qed.

Lemma unread_split c d infl k : Jrx c d infl -> k <= c_pending c - c_cursor c ->
  unread c = buf_slice c (c_cursor c) k ++ unread (set_cursor c (c_cursor c + k)).
Proof.
  intros HJ Hk. destruct (Jrx_bounds _ _ _ HJ) as (Hcp & Hp & Hlen).
  unfold unread, buf_slice. cbn [set_cursor c_cursor c_buf].
  rewrite !N.min_l by (unfold PAGE in *; lia).
  replace (N.to_nat (c_cursor c + k)) with (N.to_nat (c_cursor c) + N.to_nat k)%nat by lia.
  rewrite skipn_add. symmetry. apply firstn_skipn.
Qed.

Lemma buf_slice_len c d infl k : Jrx c d infl -> k <= c_pending c - c_cursor c ->
  lenN (buf_slice c (c_cursor c) k) = k.
Proof.
  intros HJ Hk. destruct (Jrx_bounds _ _ _ HJ) as (Hcp & Hp & Hlen).
  unfold buf_slice, lenN in *. rewrite !N.min_l by (unfold PAGE in *; lia).
  rewrite firstn_length, skipn_length. lia.
Qed.

(* recv *)
Lemma recv_spec m c d infl D W pop addr ae uf : Jrx c d infl -> D ++ unread c ++ infl = W ->
  exists r c' evs, recv m c pop (dev_view d) addr ae uf = (Ok r, c', evs)
    /\ Jrx c' d [] /\ infl_after c c' infl = []
    /\ match r with
       | None => D ++ unread c' = W /\ unread c' = []
       | Some b => if pop then (D ++ [b]) ++ unread c' = W
                   else D ++ unread c' = W /\ exists rest, unread c' = b :: rest
       end.
Proof.
  intros HJ HS. unfold recv.
  destruct (finish_J c d infl D W HJ HS) as (b & c1 & e1 & E & HJ1 & Hia & HS1 & _ & _ & _).
  rewrite E. cbn [bind].
  destruct (Jrx_bounds _ _ _ HJ1) as (Hcp & Hp & Hlen).
  destruct (N.eqb_spec (c_cursor c1) (c_pending c1)) as [Ecur|Ecur].
  { exists None, c1, (e1 ++ []). split; [reflexivity|]. split; [exact HJ1|]. split; [exact Hia|].
    split; [exact HS1|]. unfold unread. apply skipn_all_len. unfold lenN, PAGE in *. lia. }
  assert (Hlt : c_cursor c1 < c_pending c1) by lia.
  unfold buf_at. destruct (N.leb_spec PAGE (c_cursor c1)) as [Hx|_]; [lia|].
  set (ch := nth (N.to_nat (c_cursor c1)) (c_buf c1) 0).
  assert (Hun : unread c1 = ch :: unread (set_cursor c1 (c_cursor c1 + 1))).
  { unfold unread. cbn [set_cursor c_cursor c_buf]. rewrite !N.min_l by (unfold PAGE in *; lia).
    replace (N.to_nat (c_cursor c1 + 1)) with (S (N.to_nat (c_cursor c1))) by lia.
    apply skipn_cons_nth. unfold lenN in Hlen. lia. }
  destruct pop.
  - rewrite (uadd_small m (c_cursor c1) 1) by (unfold two64, PAGE in *; lia).
    assert (Etok : c_token c1 = None) by (eapply Jrx_unread_some; eauto).
    assert (HJ2 : Jrx (set_cursor c1 (c_cursor c1 + 1)) d []) by (apply Jrx_set_cursor; auto; lia).
    destruct (poll_spec _ d [] addr ae uf HJ2) as (c3 & e3 & Ep & HJ3 & Hb3 & Hc3 & Hp3 & Hl3 & _).
    rewrite Ep. cbn [bind].
    exists (Some ch), c3. eexists. split; [reflexivity|]. split; [exact HJ3|].
    split. { rewrite (infl_after_ext c c1 c3); [exact Hia|]. rewrite Hl3. reflexivity. }
    rewrite (unread_ext (set_cursor c1 (c_cursor c1 + 1)) c3 Hb3 Hc3).
    rewrite <- HS1, Hun, <- app_assoc. reflexivity.
  - exists (Some ch), c1, (e1 ++ []). split; [reflexivity|]. split; [exact HJ1|]. split; [exact Hia|].
    split; [exact HS1|]. eauto.
Qed.

(* a recv(pop) that hands out a byte and leaves nothing unread has posted the receive buffer again -
   whatever the suppression words say, wherever the indices stand *)
Lemma recv_reposts m c d infl addr ae uf b c' evs :
  Jrx c d infl -> recv m c true (dev_view d) addr ae uf = (Ok (Some b), c', evs) ->
  c_cursor c' = c_pending c' -> c_token c' <> None.
Proof.
  intros HJ E Hdr. unfold recv in E.
  destruct (finish_J c d infl [] (unread c ++ infl) HJ eq_refl) as (fb & c1 & e1 & Ef & HJ1 & _ & _ & _ & _ & _).
  rewrite Ef in E. cbn [bind] in E.
  destruct (Jrx_bounds _ _ _ HJ1) as (Hcp & Hp & Hlen).
  destruct (N.eqb_spec (c_cursor c1) (c_pending c1)) as [Ecur|Ecur]; [discriminate E|].
  unfold buf_at in E. destruct (N.leb_spec PAGE (c_cursor c1)) as [Hx|_]; [lia|].
  rewrite (uadd_small m (c_cursor c1) 1) in E by (unfold two64, PAGE in *; lia).
  assert (Etok : c_token c1 = None) by (eapply Jrx_unread_some; eauto).
  assert (HJ2 : Jrx (set_cursor c1 (c_cursor c1 + 1)) d []) by (apply Jrx_set_cursor; auto; lia).
  destruct (poll_spec _ d [] addr ae uf HJ2) as (c3 & e3 & Ep & _ & _ & _ & _ & _ & _ & _ & Hpost & _).
  rewrite Ep in E. cbn [bind] in E. inversion E; subst c'. exact (Hpost Hdr).
Qed.

Lemma read_ready_spec c d infl D W : Jrx c d infl -> D ++ unread c ++ infl = W ->
  exists b c' evs, read_ready c (dev_view d) = (Ok b, c', evs)
    /\ Jrx c' d [] /\ infl_after c c' infl = [] /\ D ++ unread c' = W
    /\ (b = false -> unread c' = []) /\ (b = true -> unread c' <> []).
Proof.
  intros HJ HS. unfold read_ready.
  destruct (finish_J c d infl D W HJ HS) as (b & c1 & e1 & E & HJ1 & Hia & HS1 & _ & _ & _).
  rewrite E. cbn [bind].
  exists (negb (c_cursor c1 =? c_pending c1)), c1, (e1 ++ []).
  split; [reflexivity|]. split; [exact HJ1|]. split; [exact Hia|]. split; [exact HS1|].
  pose proof (Jrx_unread_len _ _ _ HJ1) as Hl. destruct (Jrx_bounds _ _ _ HJ1) as (Hcp & _).
  destruct (N.eqb_spec (c_cursor c1) (c_pending c1)) as [Ecur|Ecur]; cbn [negb].
  - split; [|discriminate]. intros _. destruct (unread c1); [reflexivity|]. rewrite lenN_cons in Hl. lia.
  - split; [discriminate|]. intros _ Hx. rewrite Hx, lenN_nil in Hl. lia.
Qed.

Lemma ack_spec c d infl D W isr : Jrx c d infl -> D ++ unread c ++ infl = W ->
  exists b c' evs, ack_interrupt c isr (dev_view d) = (Ok b, c', evs)
    /\ Jrx c' d (infl_after c c' infl) /\ D ++ unread c' ++ infl_after c c' infl = W.
Proof.
  intros HJ HS. unfold ack_interrupt.
  destruct (N.land isr 1 =? 0).
  - exists false, c, [CAckIntr]. rewrite infl_after_same. auto.
  - destruct (finish_J c d infl D W HJ HS) as (b & c1 & e1 & E & HJ1 & Hia & HS1 & _).
    rewrite E. exists b, c1, (CAckIntr :: e1). rewrite Hia, app_nil_r. auto.
Qed.

(* ------------------------------------------------------------------------------------------ *)
(* the busy-wait                                                                               *)
Lemma wait_loop_idle c v views spins acc :
  c_cursor c = c_pending c -> finish_receive c v = (Ok false, c, []) ->
  wait_loop c (v :: views) spins acc = wait_loop c views (spins + 1) acc.
Proof.
  intros Hc Hf. cbn [wait_loop]. rewrite Hc, N.eqb_refl, Hf, app_nil_r.
  destruct views; cbn [wait_loop]; rewrite Hc; reflexivity.
Qed.

Lemma wait_loop_repeat c v n views spins acc :
  c_cursor c = c_pending c -> finish_receive c v = (Ok false, c, []) ->
  wait_loop c (repeat v n ++ views) spins acc = wait_loop c views (spins + N.of_nat n) acc.
Proof.
  intros Hc Hf. revert spins. induction n as [|n IH]; intros spins.
  - cbn [repeat app]. now rewrite N.add_0_r.
  - cbn [repeat app]. rewrite wait_loop_idle by assumption. rewrite IH. f_equal. lia.
Qed.

Lemma wait_loop_done c views spins acc :
  c_cursor c <> c_pending c -> wait_loop c views spins acc = (Some (Ok spins), c, acc).
Proof.
  intros Hc. destruct views; cbn [wait_loop]; destruct (N.eqb_spec (c_cursor c) (c_pending c)); congruence.
Qed.

(* wait_for_receive while the device is idle for `idle` iterations and then tries to deliver `chunk` *)
Lemma wait_spec c d infl D W addr ae uf idle chunk c1 e1 :
  Jrx c d infl -> D ++ unread c ++ infl = W ->
  poll_retrieve c addr ae uf = (Ok tt, c1, e1) ->
  let can := dev_can_fill (c_rxq c1) d chunk in
  let d' := dev_fill (c_rxq c1) d chunk in
  exists o c' evs,
    wait_for_receive c addr ae uf (wait_views d d' idle) = (o, c', evs)
    /\ match o with
       | Some (Ok spins) =>
           let fired := (N.of_nat idle <? spins) && can in
           c_cursor c' <> c_pending c'
           /\ Jrx c' (if fired then d' else d) []
           /\ infl_after c c' (if fired then chunk else infl) = []
           /\ D ++ unread c' = W ++ (if fired then chunk else [])
       | None =>
           can = false /\ ~ (1 <= lenN chunk <= PAGE) /\ c' = c1 /\ Jrx c1 d infl
           /\ infl_after c c1 infl = infl /\ D ++ unread c1 ++ infl = W
       | Some _ => False
       end.
Proof.
  intros HJ HS Ep can d'.
  destruct (poll_spec c d infl addr ae uf HJ) as (c1' & e1' & Ep' & HJ1 & Hb1 & Hc1 & Hp1 & Hl1 & _ & _ & Hpost & _).
  rewrite Ep in Ep'. inversion Ep'; subst c1' e1'. clear Ep'.
  assert (HS1 : D ++ unread c1 ++ infl = W) by (rewrite (unread_ext c c1 Hb1 Hc1); exact HS).
  unfold wait_for_receive. rewrite Ep.
  destruct (N.eq_dec (c_cursor c1) (c_pending c1)) as [Ecur|Ecur].
  2:{ (* data already there: the loop body never runs *)
    rewrite wait_loop_done by exact Ecur.
    eexists. eexists. eexists. split; [reflexivity|]. cbv beta iota zeta.
    assert (Hf : (N.of_nat idle <? 0) = false) by (apply N.ltb_ge; lia). rewrite Hf. cbn [andb].
    assert (Etok : c_token c1 = None) by (eapply Jrx_unread_some; eauto).
    assert (Hi : infl = []) by (eapply Jrx_none_infl; eauto). subst infl.
    split; [exact Ecur|]. split; [exact HJ1|].
    split. { rewrite (infl_after_ext c c c1) by exact Hl1. apply infl_after_same. }
    rewrite !app_nil_r in *. exact HS1. }
  assert (Htok : c_token c1 <> None) by (apply Hpost; exact Ecur).
  destruct (c_token c1) as [t|] eqn:Etok; [clear Htok|congruence].
  destruct (fill_spec c1 d infl chunk HJ1) as (F1 & F2 & F3).
  destruct (finish_spec c1 d infl HJ1) as [[Hno E]|(t' & c2 & evs2 & _ & Hne & E & Hb & Hc & Hp & Ht & _ & _ & Hlu & HJ2)].
  - (* posted, not yet filled *)
    assert (Hi : infl = []) by (destruct Hno as [Hn|Hn]; [congruence|exact Hn]). subst infl.
    unfold wait_views.
    rewrite (wait_loop_repeat c1 (dev_view d) (S idle)) by assumption.
    destruct can eqn:Ecan.
    + destruct (F1 Ecan) as (_ & _ & Hr & HJf). fold d' in HJf.
      destruct (finish_spec c1 d' chunk HJf) as [[[Hn|Hn] _]|(t' & c2 & evs2 & _ & Hne & E2 & Hb & Hc & Hp & Ht & _ & _ & Hlu & HJ2)];
        [congruence|subst chunk; rewrite lenN_nil in Hr; lia|].
      cbn [app wait_loop]. rewrite Ecur, N.eqb_refl, E2.
      assert (Hcp2 : c_cursor c2 <> c_pending c2) by (rewrite Hc, Hp; lia).
      destruct (N.eqb_spec (c_cursor c2) (c_pending c2)) as [Ex|_]; [contradiction|].
      eexists. eexists. eexists. split; [reflexivity|]. cbv beta iota zeta.
      assert (Hf : (N.of_nat idle <? 0 + N.of_nat (S idle) + 1) = true) by (apply N.ltb_lt; lia).
      rewrite Hf. cbn [andb].
      split; [exact Hcp2|]. split; [exact HJ2|].
      split. { apply infl_after_popped. rewrite <- Hl1. exact Hlu. }
      rewrite (Jrx_token_unread c1 d [] t HJ1 Etok) in HS1. cbn [app] in HS1. rewrite app_nil_r in HS1.
      unfold unread. rewrite Hb, Hc. cbn. now rewrite HS1.
    + assert (Hd : d' = d) by (unfold d', dev_fill; fold can; now rewrite Ecan). rewrite Hd.
      cbn [app]. rewrite wait_loop_idle by assumption.
      cbn [wait_loop]. rewrite Ecur, N.eqb_refl.
      eexists. eexists. eexists. split; [reflexivity|]. cbv beta iota zeta.
      split; [reflexivity|].
      split. { intros Hr. assert (Hx : can = true) by (apply F3; [rewrite Etok; discriminate|reflexivity|exact Hr]). congruence. }
      split; [reflexivity|]. split; [exact HJ1|].
      split. { rewrite (infl_after_ext c c c1) by exact Hl1. apply infl_after_same. }
      exact HS1.
  - (* a chunk is already in flight: the first iteration takes it *)
    assert (Ecan : can = false) by (apply F2; now right).
    unfold wait_views. cbn [repeat app wait_loop]. rewrite Ecur, N.eqb_refl, E.
    assert (Hcp2 : c_cursor c2 <> c_pending c2).
    { rewrite Hc, Hp. destruct infl; [congruence|]. rewrite lenN_cons. lia. }
    rewrite wait_loop_done by exact Hcp2.
    eexists. eexists. eexists. split; [reflexivity|]. cbv beta iota zeta. rewrite Ecan, andb_false_r.
    split; [exact Hcp2|]. split; [exact HJ2|].
    split. { apply infl_after_popped. rewrite <- Hl1. exact Hlu. }
    rewrite (Jrx_token_unread c1 d infl t HJ1 Etok) in HS1. cbn [app] in HS1.
    unfold unread. rewrite Hb, Hc. cbn. now rewrite app_nil_r.
Qed.

(* Read::read *)
Lemma read_spec m c d infl D W n addr ae uf idle chunk c1 e1 :
  Jrx c d infl -> D ++ unread c ++ infl = W -> n <> 0 ->
  poll_retrieve c addr ae uf = (Ok tt, c1, e1) ->
  let can := dev_can_fill (c_rxq c1) d chunk in
  let d' := dev_fill (c_rxq c1) d chunk in
  exists o c' evs,
    read m c n addr ae uf (wait_views d d' idle) = (o, c', evs)
    /\ match o with
       | Some (Ok (spins, bytes)) =>
           let fired := (N.of_nat idle <? spins) && can in
           bytes <> [] /\ lenN bytes <= n
           /\ Jrx c' (if fired then d' else d) []
           /\ infl_after c c' (if fired then chunk else infl) = []
           /\ (D ++ bytes) ++ unread c' = W ++ (if fired then chunk else [])
       | None => can = false /\ ~ (1 <= lenN chunk <= PAGE) /\ Jrx c' d infl
                 /\ infl_after c c' infl = infl /\ D ++ unread c' ++ infl = W
       | Some _ => False
       end.
Proof.
  intros HJ HS Hn Ep can d'. unfold read.
  destruct (N.eqb_spec n 0) as [E0|_]; [contradiction|].
  destruct (wait_spec c d infl D W addr ae uf idle chunk c1 e1 HJ HS Ep) as (o & c2 & e2 & Ew & Hpost).
  fold can d' in Ew, Hpost. rewrite Ew.
  destruct o as [[spins| | |]|]; try contradiction.
  - cbv beta iota zeta in Hpost.
    set (fired := (N.of_nat idle <? spins) && can) in *.
    set (dd := if fired then d' else d) in *.
    destruct Hpost as (Hcur & HJ2 & Hia & HS2).
    destruct (Jrx_bounds _ _ _ HJ2) as (Hcp & Hp & Hlen).
    rewrite usub_small by exact Hcp.
    set (k := N.min n (c_pending c2 - c_cursor c2)).
    assert (Hk : 1 <= k /\ k <= n /\ k <= c_pending c2 - c_cursor c2) by (unfold k; lia).
    rewrite uadd_small by (unfold two64, PAGE in *; lia).
    destruct (N.ltb_spec (c_cursor c2 + k) (c_cursor c2)) as [Hx|_]; [lia|].
    destruct (N.ltb_spec PAGE (c_cursor c2 + k)) as [Hx|_]; [lia|]. cbn [orb].
    eexists. eexists. eexists. split; [reflexivity|]. cbv beta iota zeta. fold fired. fold dd.
    pose proof (buf_slice_len c2 dd [] k HJ2 ltac:(lia)) as Hbl.
    split. { intros Hx. rewrite Hx, lenN_nil in Hbl. lia. }
    split; [lia|].
    split. { apply Jrx_set_cursor; [exact HJ2|eapply Jrx_unread_some; eauto|lia]. }
    split. { rewrite (infl_after_ext c c2); [exact Hia|reflexivity]. }
    rewrite <- HS2, (unread_split c2 dd [] k HJ2 ltac:(lia)), <- !app_assoc. reflexivity.
  - destruct Hpost as (Hcan & Hbad & -> & HJ1 & Hia & HS1).
    eexists. eexists. eexists. split; [reflexivity|]. cbv beta iota. auto.
Qed.

Lemma buf_slice_all c d infl : Jrx c d infl ->
  buf_slice c (c_cursor c) (c_pending c - c_cursor c) = unread c.
Proof.
  intros HJ. destruct (Jrx_bounds _ _ _ HJ) as (Hcp & Hp & Hlen).
  unfold buf_slice, unread. apply firstn_full. rewrite skipn_length.
  unfold lenN, PAGE in *. lia.
Qed.

(* BufRead::fill_buf *)
Lemma fill_buf_spec c d infl D W addr ae uf idle chunk c1 e1 :
  Jrx c d infl -> D ++ unread c ++ infl = W ->
  poll_retrieve c addr ae uf = (Ok tt, c1, e1) ->
  let can := dev_can_fill (c_rxq c1) d chunk in
  let d' := dev_fill (c_rxq c1) d chunk in
  exists o c' evs,
    fill_buf c addr ae uf (wait_views d d' idle) = (o, c', evs)
    /\ match o with
       | Some (Ok (spins, bytes)) =>
           let fired := (N.of_nat idle <? spins) && can in
           bytes <> [] /\ bytes = unread c'
           /\ Jrx c' (if fired then d' else d) []
           /\ infl_after c c' (if fired then chunk else infl) = []
           /\ D ++ unread c' = W ++ (if fired then chunk else [])
       | None => can = false /\ ~ (1 <= lenN chunk <= PAGE) /\ Jrx c' d infl
                 /\ infl_after c c' infl = infl /\ D ++ unread c' ++ infl = W
       | Some _ => False
       end.
Proof.
  intros HJ HS Ep can d'. unfold fill_buf.
  destruct (wait_spec c d infl D W addr ae uf idle chunk c1 e1 HJ HS Ep) as (o & c2 & e2 & Ew & Hpost).
  fold can d' in Ew, Hpost. rewrite Ew.
  destruct o as [[spins| | |]|]; try contradiction.
  - cbv beta iota zeta in Hpost.
    set (fired := (N.of_nat idle <? spins) && can) in *.
    set (dd := if fired then d' else d) in *.
    destruct Hpost as (Hcur & HJ2 & Hia & HS2).
    destruct (Jrx_bounds _ _ _ HJ2) as (Hcp & Hp & Hlen).
    destruct (N.ltb_spec (c_pending c2) (c_cursor c2)) as [Hx|_]; [lia|].
    destruct (N.ltb_spec PAGE (c_pending c2)) as [Hx|_]; [lia|]. cbn [orb].
    eexists. eexists. eexists. split; [reflexivity|]. cbv beta iota zeta. fold fired. fold dd.
    rewrite (buf_slice_all c2 dd [] HJ2).
    pose proof (Jrx_unread_len _ _ _ HJ2) as Hul.
    split. { intros Hx. rewrite Hx, lenN_nil in Hul. lia. }
    auto.
  - destruct Hpost as (Hcan & Hbad & -> & HJ1 & Hia & HS1).
    eexists. eexists. eexists. split; [reflexivity|]. cbv beta iota. auto.
Qed.

(* BufRead::consume *)
Lemma Jrx_set_cursor_gen c d infl cu :
  Jrx c d infl -> cu <= c_pending c -> (c_token c <> None -> cu = c_cursor c) -> Jrx (set_cursor c cu) d infl.
Proof.
  intros (chains & h & HR & Hsz & Hcp & Hp & Hlen & Hdu & Hds & Hring & Htok) Hcu Hsame.
  exists chains, h. cbn [set_cursor c_rxq c_cursor c_pending c_buf c_token].
  repeat (split; [assumption|]).
  destruct (c_token c) as [t|]; [|exact Htok].
  rewrite (Hsame ltac:(discriminate)). exact Htok.
Qed.

Definition consume_result (c : cstate) (d : dev) (infl D W : list N) (amt : N)
  (res : outcome unit * cstate) : Prop :=
  (amt <= c_pending c - c_cursor c
   /\ exists c', res = (Ok tt, c') /\ Jrx c' d infl
      /\ (D ++ firstn (N.to_nat (N.min amt PAGE)) (unread c)) ++ unread c' ++ infl = W)
  \/ (c_pending c - c_cursor c < amt /\ res = (Panic, c)).

Lemma consume_ok_case c d infl D W amt :
  Jrx c d infl -> D ++ unread c ++ infl = W -> amt <= c_pending c - c_cursor c ->
  Jrx (set_cursor c (c_cursor c + amt)) d infl
  /\ (D ++ firstn (N.to_nat (N.min amt PAGE)) (unread c)) ++ unread (set_cursor c (c_cursor c + amt)) ++ infl = W.
Proof.
  intros HJ HS Ha. destruct (Jrx_bounds _ _ _ HJ) as (Hcp & Hp & Hlen).
  split.
  - apply Jrx_set_cursor_gen; [exact HJ|lia|].
    intros Ht. destruct (c_token c) as [t|] eqn:Etok; [|congruence].
    destruct HJ as (chains & h & _ & _ & _ & _ & _ & _ & _ & _ & Htok). rewrite Etok in Htok.
    destruct Htok as (_ & Hc & _). lia.
  - rewrite <- HS. change (firstn (N.to_nat (N.min amt PAGE)) (unread c)) with (buf_slice c (c_cursor c) amt).
    rewrite (unread_split c d infl amt HJ Ha) at 1. now rewrite <- !app_assoc.
Qed.

Lemma consume_spec m c d infl D W amt :
  Jrx c d infl -> D ++ unread c ++ infl = W -> consume_result c d infl D W amt (consume m c amt).
Proof.
  intros HJ HS. destruct (Jrx_bounds _ _ _ HJ) as (Hcp & Hp & Hlen).
  unfold consume. rewrite usub_small by exact Hcp.
  destruct (N.leb_spec amt (c_pending c - c_cursor c)) as [Ha|Ha].
  - left. split; [exact Ha|]. rewrite uadd_small by (unfold two64, PAGE in *; lia).
    eexists. split; [reflexivity|]. now apply consume_ok_case.
  - right. auto.
Qed.

(* the code before the repair behaves the same as long as cursor + amt does not wrap *)
Lemma consume_prefix_spec m c d infl D W amt :
  Jrx c d infl -> D ++ unread c ++ infl = W -> m = Debug \/ amt + PAGE < two64 ->
  consume_result c d infl D W amt (consume_prefix m c amt).
Proof.
  intros HJ HS Hm. destruct (Jrx_bounds _ _ _ HJ) as (Hcp & Hp & Hlen).
  unfold consume_prefix, uadd.
  destruct (N.ltb_spec (c_cursor c + amt) two64) as [Hs|Hs].
  - destruct (N.leb_spec (c_cursor c + amt) (c_pending c)) as [Ha|Ha].
    + left. split; [lia|]. eexists. split; [reflexivity|]. apply consume_ok_case; auto. lia.
    + right. split; [lia|reflexivity].
  - destruct Hm as [->|Hm]; [|lia]. right. split; [unfold two64, PAGE in *; lia|reflexivity].
Qed.

(* ------------------------------------------------------------------------------------------ *)
(* the product system                                                                          *)
Definition St (s : sys) : Prop := s_delivered s ++ unread (s_c s) ++ s_infl s = s_written s.
Definition J (s : sys) : Prop := Jrx (s_c s) (s_d s) (s_infl s) /\ St s.

(* which operations the statement covers: everything for the repaired consume; for the code as it
   stood, consume amounts that cannot make cursor + amt wrap (or the debug profile, which panics) *)
Definition op_ok (fixedc : bool) (m : mode) (o : op) : Prop :=
  match o with
  | OConsume amt => fixedc = true \/ m = Debug \/ amt + PAGE < two64
  | _ => True
  end.

(* what each call hands back, in terms of the two histories *)
Definition call_post (s : sys) (o : op) (s' : sys) (r : ret) : Prop :=
  match o with
  | OFill chunk =>
      s_delivered s' = s_delivered s
      /\ ((r_val r = 1 /\ 1 <= lenN chunk <= PAGE /\ s_written s' = s_written s ++ chunk)
          \/ (r_val r = 0 /\ s' = s))
  | ORecv pop _ _ _ =>
      r_class r = 0 /\ s_written s' = s_written s
      /\ s_delivered s' = s_delivered s ++ (if pop then r_bytes r else [])
      /\ (r_val r = 0 -> r_bytes r = [] /\ s_delivered s' = s_written s')
      /\ (r_val r <> 0 -> exists b, r_bytes r = [b])
      /\ (exists rest, s_written s' = s_delivered s ++ r_bytes r ++ rest)
  | OReadReady =>
      r_class r = 0 /\ s_written s' = s_written s /\ s_delivered s' = s_delivered s
      /\ (r_val r = 0 <-> s_delivered s' = s_written s')
  | OAck _ => r_class r = 0 /\ s_written s' = s_written s /\ s_delivered s' = s_delivered s
  | ORead n _ _ _ _ chunk =>
      (n = 0 -> s' = s /\ r_class r = 0 /\ r_bytes r = [])
      /\ (n <> 0 ->
          (r_class r = 0 /\ r_bytes r <> [] /\ lenN (r_bytes r) <= n
           /\ s_delivered s' = s_delivered s ++ r_bytes r
           /\ exists rest, s_written s' = s_delivered s ++ r_bytes r ++ rest)
          \/ (r_class r = 4 /\ ~ (1 <= lenN chunk <= PAGE)
              /\ s_delivered s' = s_delivered s /\ s_written s' = s_written s))
  | OFillBuf _ _ _ _ chunk =>
      (r_class r = 0 /\ r_bytes r <> [] /\ r_bytes r = unread (s_c s')
       /\ s_delivered s' = s_delivered s /\ s_written s' = s_delivered s ++ r_bytes r)
      \/ (r_class r = 4 /\ ~ (1 <= lenN chunk <= PAGE)
          /\ s_delivered s' = s_delivered s /\ s_written s' = s_written s)
  | OConsume amt =>
      s_written s' = s_written s
      /\ ((r_class r = 0 /\ amt <= lenN (unread (s_c s))
           /\ s_delivered s' = s_delivered s ++ firstn (N.to_nat amt) (unread (s_c s)))
          \/ (r_class r = 2 /\ lenN (unread (s_c s)) < amt /\ s' = s))
  | _ => s_written s' = s_written s /\ s_delivered s' = s_delivered s
  end.

Lemma step_wait_ok s addr ae uf idle chunk
  (call : list view -> option (outcome (N * list N)) * cstate * list cev) (consuming : bool) :
  J s ->
  (forall c1 e1, poll_retrieve (s_c s) addr ae uf = (Ok tt, c1, e1) ->
     let can := dev_can_fill (c_rxq c1) (s_d s) chunk in
     let d' := dev_fill (c_rxq c1) (s_d s) chunk in
     exists o c' evs,
       call (wait_views (s_d s) d' idle) = (o, c', evs)
       /\ match o with
          | Some (Ok (spins, bytes)) =>
              let fired := (N.of_nat idle <? spins) && can in
              bytes <> []
              /\ Jrx c' (if fired then d' else s_d s) []
              /\ infl_after (s_c s) c' (if fired then chunk else s_infl s) = []
              /\ (s_delivered s ++ (if consuming then bytes else [])) ++ unread c'
                 = s_written s ++ (if fired then chunk else [])
          | None => can = false /\ ~ (1 <= lenN chunk <= PAGE) /\ Jrx c' (s_d s) (s_infl s)
                    /\ infl_after (s_c s) c' (s_infl s) = s_infl s
                    /\ s_delivered s ++ unread c' ++ s_infl s = s_written s
          | Some _ => False
          end) ->
  let s' := fst (step_wait s addr ae uf idle chunk call consuming) in
  let r := snd (step_wait s addr ae uf idle chunk call consuming) in
  J s'
  /\ ((r_class r = 0 /\ r_bytes r <> []
       /\ s_delivered s' = s_delivered s ++ (if consuming then r_bytes r else [])
       /\ s_infl s' = []
       /\ (s_delivered s ++ (if consuming then r_bytes r else [])) ++ unread (s_c s') = s_written s')
      \/ (r_class r = 4 /\ ~ (1 <= lenN chunk <= PAGE)
          /\ s_delivered s' = s_delivered s /\ s_written s' = s_written s)).
Proof.
  intros [HJ HS] Hcall. unfold step_wait.
  destruct (poll_spec (s_c s) (s_d s) (s_infl s) addr ae uf HJ) as (c1 & e1 & Ep & _).
  rewrite Ep. specialize (Hcall c1 e1 Ep). cbv zeta in Hcall.
  destruct Hcall as (o & c' & evs & Ec & Hpost). rewrite Ec.
  destruct o as [[[spins bytes]| | |]|]; try contradiction.
  - cbv beta iota zeta in Hpost. cbv beta iota zeta. cbn [fst snd ret_of r_bytes r_class].
    set (fired := (N.of_nat idle <? spins) && dev_can_fill (c_rxq c1) (s_d s) chunk) in *.
    destruct Hpost as (Hne & HJ' & Hia & HS').
    split.
    { split; cbn [s_c s_d s_infl s_written s_delivered]; rewrite Hia; [exact HJ'|].
      unfold St. cbn [s_c s_d s_infl s_written s_delivered]. rewrite app_nil_r.
      rewrite <- HS'. now rewrite <- app_assoc. }
    left. cbn [s_c s_d s_infl s_written s_delivered].
    split; [reflexivity|]. split; [exact Hne|]. split; [reflexivity|]. split; [exact Hia|]. exact HS'.
  - destruct Hpost as (Hcan & Hbad & HJ' & Hia & HS').
    cbv beta iota zeta. rewrite Hcan, andb_false_r. cbn [fst snd ret_hang r_bytes r_class].
    split.
    { split; cbn [s_c s_d s_infl s_written s_delivered]; rewrite Hia; [exact HJ'|].
      unfold St. cbn [s_c s_d s_infl s_written s_delivered]. rewrite !app_nil_r.
      destruct consuming; rewrite ?app_nil_r; exact HS'. }
    right. cbn [s_c s_d s_infl s_written s_delivered]. rewrite !app_nil_r.
    split; [reflexivity|]. split; [exact Hbad|]. destruct consuming; rewrite ?app_nil_r; auto.
Qed.

Theorem step_ok fixedc m s o :
  J s -> op_ok fixedc m o ->
  J (fst (sys_step fixedc m s o)) /\ call_post s o (fst (sys_step fixedc m s o)) (snd (sys_step fixedc m s o)).
Proof.
  intros HJs Hok. assert (HJs0 := HJs). destruct HJs as [HJ HS]. unfold St in HS.
  destruct o as [chunk|pop addr ae uf| |isr|n addr ae uf idle chunk|addr ae uf idle chunk|amt|len addr ae uf obs v|rounds|chr res];
    cbn [sys_step call_post].
  - (* the device delivers a chunk between two calls *)
    destruct (fill_spec (s_c s) (s_d s) (s_infl s) chunk HJ) as (F1 & _ & _).
    destruct (dev_can_fill (c_rxq (s_c s)) (s_d s) chunk) eqn:Ecan; cbn [fst snd r_val].
    + destruct (F1 eq_refl) as ((t & Etok) & Hi & Hr & HJ').
      split.
      { split; cbn [s_c s_d s_infl s_written s_delivered]; [exact HJ'|].
        unfold St. cbn [s_c s_d s_infl s_written s_delivered].
        rewrite Hi in HS. rewrite <- HS.
        rewrite (Jrx_token_unread _ _ _ t HJ Etok). cbn [app]. now rewrite app_nil_r. }
      cbn [s_delivered s_written]. split; [reflexivity|]. left. auto.
    + split; [exact HJs0|]. split; [reflexivity|]. right. auto.
  - (* recv *)
    destruct (recv_spec m (s_c s) (s_d s) (s_infl s) (s_delivered s) (s_written s) pop addr ae uf HJ HS)
      as (r & c' & evs & E & HJ' & Hia & Hr).
    rewrite E. cbn [fst snd ret_of r_class r_val r_bytes s_c s_d s_infl s_written s_delivered].
    rewrite Hia.
    destruct r as [b|].
    + destruct pop.
      * split. { split; cbn [s_c s_d s_infl s_written s_delivered]; [exact HJ'|].
                 unfold St. cbn [s_c s_d s_infl s_written s_delivered]. now rewrite app_nil_r. }
        split; [reflexivity|]. split; [reflexivity|]. split; [reflexivity|].
        split; [discriminate|]. split; [eauto|]. exists (unread c'). rewrite <- Hr. now rewrite <- app_assoc.
      * destruct Hr as (Hr & rest & Hun).
        split. { split; cbn [s_c s_d s_infl s_written s_delivered]; [exact HJ'|].
                 unfold St. cbn [s_c s_d s_infl s_written s_delivered]. now rewrite !app_nil_r. }
        split; [reflexivity|]. split; [reflexivity|]. split; [now rewrite app_nil_r|].
        split; [discriminate|]. split; [eauto|]. exists rest. rewrite <- Hr, Hun. reflexivity.
    + destruct Hr as (Hr & Hun).
      split. { split; cbn [s_c s_d s_infl s_written s_delivered]; [exact HJ'|].
               unfold St. cbn [s_c s_d s_infl s_written s_delivered].
               destruct pop; rewrite !app_nil_r; exact Hr. }
      split; [reflexivity|]. split; [reflexivity|]. split; [now destruct pop|].
      split. { intros _. split; [reflexivity|]. rewrite Hun, app_nil_r in Hr. destruct pop; rewrite ?app_nil_r; exact Hr. }
      split. { intros Hx. now elim Hx. }
      exists (unread c'). exact (eq_sym Hr).
  - (* read_ready *)
    destruct (read_ready_spec (s_c s) (s_d s) (s_infl s) (s_delivered s) (s_written s) HJ HS)
      as (b & c' & evs & E & HJ' & Hia & Hr & Hf & Ht).
    rewrite E. cbn [fst snd ret_of r_class r_val s_c s_d s_infl s_written s_delivered]. rewrite Hia.
    split. { split; cbn [s_c s_d s_infl s_written s_delivered]; [exact HJ'|].
             unfold St. cbn [s_c s_d s_infl s_written s_delivered]. now rewrite app_nil_r. }
    split; [reflexivity|]. split; [reflexivity|]. split; [reflexivity|].
    destruct b; cbn [b2n].
    + split; [discriminate|]. intros Hx. exfalso. apply (Ht eq_refl).
      rewrite <- Hx in Hr. rewrite <- (app_nil_r (s_delivered s)) in Hr at 2. now apply app_inv_head in Hr.
    + split; [|reflexivity]. intros _. rewrite (Hf eq_refl), app_nil_r in Hr. exact Hr.
  - (* ack_interrupt *)
    destruct (ack_spec (s_c s) (s_d s) (s_infl s) (s_delivered s) (s_written s) isr HJ HS)
      as (b & c' & evs & E & HJ' & Hr).
    rewrite E. cbn [fst snd ret_of r_class s_c s_d s_infl s_written s_delivered].
    split; [split; [exact HJ'|exact Hr]|]. auto.
  - (* read *)
    destruct (N.eqb_spec n 0) as [En|En]; cbn [fst snd r_class r_bytes].
    { split; [exact HJs0|]. split; [auto|]. intros Hx. contradiction. }
    pose proof (step_wait_ok s addr ae uf idle chunk (read m (s_c s) n addr ae uf) true HJs0) as Hw.
    cbv zeta in Hw. destruct Hw as (HJ' & Hres).
    { intros c1 e1 Ep.
      destruct (read_spec m (s_c s) (s_d s) (s_infl s) (s_delivered s) (s_written s) n addr ae uf idle chunk c1 e1 HJ HS En Ep)
        as (o & c' & evs & E & Hpost).
      exists o, c', evs. split; [exact E|].
      destruct o as [[[spins bytes]| | |]|]; try contradiction; cbv beta iota zeta in Hpost |- *; tauto. }
    split; [exact HJ'|]. split; [intros Hx; contradiction|]. intros _.
    destruct Hres as [(Hc & Hne & Hd & Hi & Hs)|Hh]; [left|right; exact Hh].
    split; [exact Hc|]. split; [exact Hne|].
    split.
    { (* at most n bytes: from the model-level statement *)
      destruct (poll_spec (s_c s) (s_d s) (s_infl s) addr ae uf HJ) as (c1 & e1 & Ep & _).
      destruct (read_spec m (s_c s) (s_d s) (s_infl s) (s_delivered s) (s_written s) n addr ae uf idle chunk c1 e1 HJ HS En Ep)
        as (o & c' & evs & E & Hpost).
      revert Hc Hne. unfold step_wait. rewrite Ep, E.
      destruct o as [[[spins bytes]| | |]|]; try contradiction; cbn [snd ret_of ret_hang r_class r_bytes]; try discriminate.
      intros _ _. cbv beta iota zeta in Hpost. tauto. }
    split; [exact Hd|].
    destruct HJ' as [_ HS']. unfold St in HS'. rewrite Hi, app_nil_r in HS'.
    exists (unread (s_c (fst (step_wait s addr ae uf idle chunk (read m (s_c s) n addr ae uf) true)))).
    rewrite <- Hs. now rewrite <- app_assoc.
  - (* fill_buf *)
    pose proof (step_wait_ok s addr ae uf idle chunk (fill_buf (s_c s) addr ae uf) false HJs0) as Hw.
    cbv zeta in Hw. destruct Hw as (HJ' & Hres).
    { intros c1 e1 Ep.
      destruct (fill_buf_spec (s_c s) (s_d s) (s_infl s) (s_delivered s) (s_written s) addr ae uf idle chunk c1 e1 HJ HS Ep)
        as (o & c' & evs & E & Hpost).
      exists o, c', evs. split; [exact E|].
      destruct o as [[[spins bytes]| | |]|]; try contradiction; cbv beta iota zeta in Hpost |- *; [|tauto].
      rewrite app_nil_r. tauto. }
    split; [exact HJ'|].
    destruct Hres as [(Hc & Hne & Hd & Hi & Hs)|Hh]; [left|right; exact Hh].
    rewrite app_nil_r in Hd, Hs.
    split; [exact Hc|]. split; [exact Hne|].
    split.
    { destruct (poll_spec (s_c s) (s_d s) (s_infl s) addr ae uf HJ) as (c1 & e1 & Ep & _).
      destruct (fill_buf_spec (s_c s) (s_d s) (s_infl s) (s_delivered s) (s_written s) addr ae uf idle chunk c1 e1 HJ HS Ep)
        as (o & c' & evs & E & Hpost).
      revert Hc. unfold step_wait. rewrite Ep, E.
      destruct o as [[[spins bytes]| | |]|]; try contradiction; cbn [fst snd ret_of ret_hang r_class r_bytes s_c]; try discriminate.
      intros _. cbv beta iota zeta in Hpost. tauto. }
    split; [exact Hd|].
    (* everything written and not yet handed over is exactly what fill_buf returned *)
    destruct (poll_spec (s_c s) (s_d s) (s_infl s) addr ae uf HJ) as (c1 & e1 & Ep & _).
    destruct (fill_buf_spec (s_c s) (s_d s) (s_infl s) (s_delivered s) (s_written s) addr ae uf idle chunk c1 e1 HJ HS Ep)
      as (o & c' & evs & E & Hpost).
    revert Hc Hs. unfold step_wait. rewrite Ep, E.
    destruct o as [[[spins bytes]| | |]|]; try contradiction; cbn [fst snd ret_of ret_hang r_class r_bytes s_c s_written]; try discriminate.
    intros _ Hs. cbv beta iota zeta in Hpost. destruct Hpost as (_ & Hb & _). rewrite Hb. exact (eq_sym Hs).
  - (* consume *)
    assert (Hres : consume_result (s_c s) (s_d s) (s_infl s) (s_delivered s) (s_written s) amt
                     ((if fixedc then consume else consume_prefix) m (s_c s) amt)).
    { destruct fixedc; [apply consume_spec; assumption|].
      apply consume_prefix_spec; try assumption. cbn in Hok. destruct Hok as [Hx|Hx]; [discriminate|exact Hx]. }
    pose proof (Jrx_unread_len _ _ _ HJ) as Hul. destruct (Jrx_bounds _ _ _ HJ) as (Hcp & Hp & _).
    destruct Hres as [(Ha & c' & E & HJ' & HS')|(Ha & E)]; rewrite E;
      cbn [fst snd ret_of r_class s_c s_d s_infl s_written s_delivered].
    + split; [split; [exact HJ'|exact HS']|]. split; [reflexivity|]. left.
      split; [reflexivity|]. split; [lia|]. rewrite N.min_l by (unfold PAGE in *; lia). reflexivity.
    + split.
      { split; cbn [s_c s_d s_infl s_written s_delivered]; [exact HJ|].
        unfold St. cbn [s_c s_d s_infl s_written s_delivered]. now rewrite app_nil_r. }
      split; [reflexivity|]. right. split; [reflexivity|]. split; [lia|].
      destruct s. cbn. now rewrite app_nil_r.
  - (* a send only touches the transmit queue *)
    destruct (send_bytes (s_c s) len addr ae uf obs v) as [[r c'] evs] eqn:E.
    cbn [fst snd s_c s_d s_infl s_written s_delivered].
    assert (Hc' : c_rxq c' = c_rxq (s_c s) /\ c_buf c' = c_buf (s_c s) /\ c_cursor c' = c_cursor (s_c s)
                  /\ c_pending c' = c_pending (s_c s) /\ c_token c' = c_token (s_c s)).
    { revert E. unfold send_bytes.
      destruct (add (c_txq (s_c s)) [txbuf len addr] [] 0) as [[o1 q1] ev1].
      destruct o1; try (intros E; inversion E; subst; cbn; auto).
      revert E. destruct (tx_wait q1 obs 0); [|intros E; inversion E; subst; cbn; auto].
      destruct (used_elem q1 v) as [uid ulen].
      destruct (pop_used q1 a [txbuf len 0] [] (v_uidx v) uid ulen) as [[o3 q3] ev3].
      destruct o3; intros E; inversion E; subst; cbn; auto. }
    destruct Hc' as (H1 & H2 & H3 & H4 & H5).
    split; [|auto].
    split; cbn [s_c s_d s_infl s_written s_delivered].
    + eapply Jrx_ext; eauto.
    + unfold St. cbn [s_c s_d s_infl s_written s_delivered]. rewrite (unread_ext (s_c s) c' H2 H3). exact HS.
  - cbn [fst snd]. auto.
  - cbn [fst snd]. auto.
Qed.

(* ------------------------------------------------------------------------------------------ *)
(* every history                                                                               *)
Lemma reach_new ind ev : Reach (qnew 2 ind ev) [] [].
Proof.
  change (qnew 2 ind ev) with (qset_indices (qnew (2 ^ 1) ind ev) 0).
  apply R_new; [lia|reflexivity].
Qed.

Lemma init_J df addr ae uf : J (sys_init df addr ae uf).
Proof.
  unfold sys_init, console_new.
  set (f := N.land df SUPPORTED_FEATURES).
  set (c0 := mkC f (qnew QSIZE (has_flag f FEAT_INDIRECT) (has_flag f FEAT_EVENT_IDX))
                 (qnew QSIZE (has_flag f FEAT_INDIRECT) (has_flag f FEAT_EVENT_IDX)) [] 0 0 None).
  assert (HJ0 : Jrx c0 dev_init []).
  { exists [], []. cbn [c0 c_rxq c_cursor c_pending c_buf c_token].
    split; [apply reach_new|]. split; [reflexivity|]. split; [lia|]. split; [unfold PAGE; lia|].
    split; [reflexivity|]. split; [reflexivity|]. split; [reflexivity|]. split; [reflexivity|].
    repeat split; reflexivity. }
  destruct (poll_spec c0 dev_init [] addr ae uf HJ0) as (c' & evs & E & HJ' & Hb & Hc & _).
  rewrite E. split; cbn [s_c s_d s_infl s_written s_delivered]; [exact HJ'|].
  unfold St. cbn [s_c s_d s_infl s_written s_delivered]. rewrite (unread_ext c0 c' Hb Hc).
  unfold unread. cbn [c0 c_buf]. now rewrite skipn_nil.
Qed.

(* the same with every free-running index (both queues, the device's copies) standing at any 16-bit value *)
Lemma reach_new_at ind ev v : v < two16 -> Reach (qset_indices (qnew 2 ind ev) v) [] [].
Proof.
  intros Hv. change (qnew 2 ind ev) with (qnew (2 ^ 1) ind ev). apply R_new; [lia|exact Hv].
Qed.

Lemma init_J_at start df addr ae uf : start < two16 -> J (sys_init_at start df addr ae uf).
Proof.
  intros Hst. unfold sys_init_at, console_new_at.
  set (f := N.land df SUPPORTED_FEATURES).
  set (c0 := mkC f (qset_indices (qnew QSIZE (has_flag f FEAT_INDIRECT) (has_flag f FEAT_EVENT_IDX)) start)
                 (qset_indices (qnew QSIZE (has_flag f FEAT_INDIRECT) (has_flag f FEAT_EVENT_IDX)) start) [] 0 0 None).
  assert (HJ0 : Jrx c0 (dev_init_at start) []).
  { exists [], []. cbn [c0 c_rxq c_cursor c_pending c_buf c_token].
    split; [apply reach_new_at; exact Hst|]. split; [reflexivity|]. split; [lia|]. split; [unfold PAGE; lia|].
    split; [reflexivity|]. split; [exact Hst|]. split; [reflexivity|]. split; [reflexivity|].
    repeat split; reflexivity. }
  destruct (poll_spec c0 (dev_init_at start) [] addr ae uf HJ0) as (c' & evs & E & HJ' & Hb & Hc & _).
  rewrite E. split; cbn [s_c s_d s_infl s_written s_delivered]; [exact HJ'|].
  unfold St. cbn [s_c s_d s_infl s_written s_delivered]. rewrite (unread_ext c0 c' Hb Hc).
  unfold unread. cbn [c0 c_buf]. now rewrite skipn_nil.
Qed.

Lemma sys_init_at_0 df addr ae uf : sys_init_at 0 df addr ae uf = sys_init df addr ae uf.
Proof. reflexivity. Qed.

Lemma run_J fixedc m s ops : J s -> Forall (op_ok fixedc m) ops -> J (sys_run fixedc m s ops).
Proof.
  revert s. induction ops as [|o ops IH]; intros s HJ Hok; [exact HJ|].
  inversion Hok as [|? ? Ho Hrest]; subst. cbn [sys_run]. apply IH; [|exact Hrest].
  exact (proj1 (step_ok fixedc m s o HJ Ho)).
Qed.

Lemma all_ops_ok m ops : Forall (op_ok true m) ops.
Proof. apply Forall_forall. intros o _. destruct o; cbn; auto. Qed.

(* The invariant of the product system holds after VirtIOConsole::new and after every history:
   every list of calls (any kind, any arguments, any order), the device delivering chunks of any
   legal size between calls or at any iteration of a wait, in both profiles. *)
Theorem console_invariant m df addr ae uf ops : J (sys_run true m (sys_init df addr ae uf) ops).
Proof. apply run_J; [apply init_J|apply all_ops_ok]. Qed.

(* nothing lost, duplicated or reordered *)
Theorem stream_exact m df addr ae uf ops :
  let s := sys_run true m (sys_init df addr ae uf) ops in
  s_delivered s ++ unread (s_c s) ++ s_infl s = s_written s.
Proof. exact (proj2 (console_invariant m df addr ae uf ops)). Qed.

(* what every call returns, at every point of every history *)
Theorem calls_exact m df addr ae uf ops o :
  let s := sys_run true m (sys_init df addr ae uf) ops in
  call_post s o (fst (sys_step true m s o)) (snd (sys_step true m s o)).
Proof.
  cbv zeta. apply step_ok; [apply console_invariant|]. destruct o; cbn; auto.
Qed.

(* at most one receive request is outstanding; while one is, nothing received is unread; without
   one nothing is in flight; the device sees avail - used in {0, 1} *)
Lemma one_buffer_of_J s : J s ->
  let q := c_rxq (s_c s) in
  exists chains h,
    Reach q chains h /\ (length chains <= 1)%nat
    /\ (c_token (s_c s) = None <-> chains = [])
    /\ (forall t, c_token (s_c s) = Some t ->
          unread (s_c s) = []
          /\ exists ch a, chains = [ch] /\ c_head ch = t /\ c_bufs ch = [(rxbuf a, true)]
                          /\ walk (q_dtable q) (fun _ => None) t 2 = Some [(a, PAGE, true)])
    /\ (c_token (s_c s) = None -> s_infl s = [])
    /\ sub16 (q_aidx q) (q_last_used q) <= 1
    /\ sub16 (q_aidx q) (d_used (s_d s)) <= 1.
Proof.
  cbv zeta. intros [HJ _].
  assert (HJ0 := HJ).
  destruct HJ as (chains & h & HR & Hsz & Hcp & Hp & Hlen & Hdu & Hds & Hring & Htok).
  destruct (reach_basic _ _ _ HR) as (Haidx & Hav & Hlu & Har).
  exists chains, h. split; [exact HR|].
  destruct (c_token (s_c s)) as [t|] eqn:Etok.
  - destruct Htok as (Ht & Hcur & ch & -> & Hrx & Hcase).
    split; [cbn; lia|]. split; [split; discriminate|].
    split.
    { intros t' Et. inversion Et; subst t'. split; [eapply Jrx_token_unread; eauto|].
      destruct Hrx as (Hh & Htbl & a & Hb). exists ch, a. split; [reflexivity|]. split; [exact Hh|].
      split; [exact Hb|].
      assert (Hm : mem_has_tables (fun _ => None) [ch]).
      { intros c0 ta tbl [<-|[]] E. rewrite Htbl in E. discriminate. }
      pose proof (all_chains_walk _ [ch] h (fun _ => None) HR Hm) as Hw.
      apply Forall_inv in Hw. rewrite Hsz, Hh, Hb in Hw. exact Hw. }
    split; [discriminate|].
    rewrite Haidx. unfold sub16, w16, two16 in *.
    destruct Hcase as [(_ & Hai & _ & Hl)|(_ & Hai & Hdused & _)]; rewrite Hai.
    + rewrite Hds, <- Hl. split; lia.
    + rewrite Hds, Hdused. split; lia.
  - destruct Htok as (-> & Hi & Hai & Hl).
    split; [cbn; lia|]. split; [split; reflexivity|]. split; [discriminate|]. split; [auto|].
    rewrite Haidx, Hai, Hds, Hl. unfold sub16, w16, two16 in *. split; lia.
Qed.

Theorem one_buffer m df addr ae uf ops :
  let s := sys_run true m (sys_init df addr ae uf) ops in
  let q := c_rxq (s_c s) in
  exists chains h,
    Reach q chains h /\ (length chains <= 1)%nat
    /\ (c_token (s_c s) = None <-> chains = [])
    /\ (forall t, c_token (s_c s) = Some t ->
          unread (s_c s) = []
          /\ exists ch a, chains = [ch] /\ c_head ch = t /\ c_bufs ch = [(rxbuf a, true)]
                          /\ walk (q_dtable q) (fun _ => None) t 2 = Some [(a, PAGE, true)])
    /\ (c_token (s_c s) = None -> s_infl s = [])
    /\ sub16 (q_aidx q) (q_last_used q) <= 1
    /\ sub16 (q_aidx q) (d_used (s_d s)) <= 1.
Proof. exact (one_buffer_of_J _ (console_invariant m df addr ae uf ops)). Qed.

(* ------------------------------------------------------------------------------------------ *)
(* the same statements wherever the 16-bit ring indices stand (in particular across the wrap)   *)
(* and for every suppression word the device may have written (ae, uf are arguments of every    *)
(* operation that can publish a buffer, universally quantified in `ops`)                        *)
Theorem console_invariant_at m start df addr ae uf ops :
  start < two16 -> J (sys_run true m (sys_init_at start df addr ae uf) ops).
Proof. intros Hst. apply run_J; [apply init_J_at; exact Hst|apply all_ops_ok]. Qed.

Theorem stream_exact_at m start df addr ae uf ops :
  start < two16 ->
  let s := sys_run true m (sys_init_at start df addr ae uf) ops in
  s_delivered s ++ unread (s_c s) ++ s_infl s = s_written s.
Proof. intros Hst. exact (proj2 (console_invariant_at m start df addr ae uf ops Hst)). Qed.

Theorem calls_exact_at m start df addr ae uf ops o :
  start < two16 ->
  let s := sys_run true m (sys_init_at start df addr ae uf) ops in
  call_post s o (fst (sys_step true m s o)) (snd (sys_step true m s o)).
Proof.
  intros Hst. cbv zeta. apply step_ok; [apply console_invariant_at; exact Hst|]. destruct o; cbn; auto.
Qed.

Theorem one_buffer_at m start df addr ae uf ops :
  start < two16 ->
  let s := sys_run true m (sys_init_at start df addr ae uf) ops in
  let q := c_rxq (s_c s) in
  exists chains h,
    Reach q chains h /\ (length chains <= 1)%nat
    /\ (c_token (s_c s) = None <-> chains = [])
    /\ (forall t, c_token (s_c s) = Some t ->
          unread (s_c s) = []
          /\ exists ch a, chains = [ch] /\ c_head ch = t /\ c_bufs ch = [(rxbuf a, true)]
                          /\ walk (q_dtable q) (fun _ => None) t 2 = Some [(a, PAGE, true)])
    /\ (c_token (s_c s) = None -> s_infl s = [])
    /\ sub16 (q_aidx q) (q_last_used q) <= 1
    /\ sub16 (q_aidx q) (d_used (s_d s)) <= 1.
Proof. intros Hst. exact (one_buffer_of_J _ (console_invariant_at m start df addr ae uf ops Hst)). Qed.

(* The receive buffer comes back.  From ANY state satisfying the invariant (hence after every history,
   from every start index, see repost_delivers_at): when a recv(pop) hands out a byte and leaves nothing
   unread, then - whatever the suppression words e1 u1 are (notification asked for or not, EVENT_IDX or
   not) - the driver has recorded an outstanding request, nothing is in flight, the device sees EXACTLY
   one available buffer (avail index - used index = 1 in device-visible memory), the device can deliver
   any legal chunk into it, and the first receive call after that delivery returns the first byte of
   that chunk. *)
Theorem repost_delivers m s a1 e1 u1 chunk pop a2 e2 u2 :
  J s ->
  let s1 := fst (sys_step true m s (ORecv true a1 e1 u1)) in
  let r1 := snd (sys_step true m s (ORecv true a1 e1 u1)) in
  r_val r1 <> 0 -> unread (s_c s1) = [] ->
  c_token (s_c s1) <> None /\ s_infl s1 = []
  /\ sub16 (q_aidx (c_rxq (s_c s1))) (d_used (s_d s1)) = 1
  /\ (1 <= lenN chunk <= PAGE ->
      dev_can_fill (c_rxq (s_c s1)) (s_d s1) chunk = true
      /\ let s2 := fst (sys_step true m s1 (OFill chunk)) in
         r_bytes (snd (sys_step true m s2 (ORecv pop a2 e2 u2))) = firstn 1 chunk).
Proof.
  intros HJs. cbv zeta. intros Hval Hdr.
  destruct (step_ok true m s (ORecv true a1 e1 u1) HJs I) as [HJ1 _].
  set (s1 := fst (sys_step true m s (ORecv true a1 e1 u1))) in *.
  assert (Htok_infl : c_token (s_c s1) <> None /\ s_infl s1 = []).
  { destruct HJs as [HJ HS]. unfold St in HS. subst s1. revert Hval Hdr. cbn [sys_step].
    destruct (recv_spec m (s_c s) (s_d s) (s_infl s) (s_delivered s) (s_written s) true a1 e1 u1 HJ HS)
      as (r & c' & evs & E & HJ' & Hia & _).
    rewrite E. cbn [fst snd ret_of r_val s_c s_infl]. intros Hval Hdr.
    split; [|exact Hia].
    destruct r as [b|]; [|now elim Hval].
    apply (recv_reposts m (s_c s) (s_d s) (s_infl s) a1 e1 u1 b c' evs HJ E).
    pose proof (Jrx_unread_len _ _ _ HJ') as Hl. rewrite Hdr in Hl. cbn in Hl.
    destruct (Jrx_bounds _ _ _ HJ') as (Hcp & _). lia. }
  destruct Htok_infl as [Htok Hinfl].
  split; [exact Htok|]. split; [exact Hinfl|].
  destruct HJ1 as [HJ1 HS1]. unfold St in HS1.
  split.
  { destruct HJ1 as (chains & h & HR & Hsz & Hcp & Hp & Hlen & Hdu & Hds & Hring & Ht).
    destruct (reach_basic _ _ _ HR) as (Haidx & Hav & Hlu & Har).
    destruct (c_token (s_c s1)) as [t|]; [|now elim Htok].
    destruct Ht as (_ & _ & ch & _ & _ & [(_ & Hai & _)|(Hbad & _)]).
    - rewrite Haidx, Hai, Hds. unfold sub16, w16, two16 in *. lia.
    - rewrite Hinfl in Hbad. cbn in Hbad. lia. }
  intros Hlegal.
  destruct (fill_spec (s_c s1) (s_d s1) (s_infl s1) chunk HJ1) as (_ & _ & Fcan).
  pose proof (Fcan Htok Hinfl Hlegal) as Ecan. split; [exact Ecan|].
  assert (HJ1' : J s1) by (split; assumption).
  destruct (step_ok true m s1 (OFill chunk) HJ1' I) as [HJ2 Hp2].
  cbn [call_post] in Hp2. destruct Hp2 as (Hd2 & [(_ & _ & Hw2)|(_ & Hsame)]).
  2:{ exfalso. revert Hsame. cbn [sys_step]. rewrite Ecan. cbn [fst]. intros Hsame.
      apply (f_equal s_written) in Hsame. cbn [s_written] in Hsame.
      assert (Hc : chunk = []).
      { apply (app_inv_head (s_written s1)). now rewrite app_nil_r. }
      rewrite Hc in Hlegal. unfold lenN in Hlegal. cbn in Hlegal. lia. }
  set (s2 := fst (sys_step true m s1 (OFill chunk))) in *.
  destruct (step_ok true m s2 (ORecv pop a2 e2 u2) HJ2 I) as [_ Hp3].
  cbn [call_post] in Hp3. destruct Hp3 as (_ & Hw3 & Hd3 & Hzero & Hnz & (rest & Hrest)).
  rewrite Hdr, Hinfl in HS1. cbn [app] in HS1. rewrite app_nil_r in HS1.
  rewrite Hw3, Hw2, Hd2, HS1 in Hrest. apply app_inv_head in Hrest.
  remember (snd (sys_step true m s2 (ORecv pop a2 e2 u2))) as r3 eqn:Er3. clear Er3.
  destruct (N.eq_dec (r_val r3) 0) as [Ez|Enz].
  - exfalso. destruct (Hzero Ez) as (Hb & Hall). rewrite Hb in Hd3.
    rewrite Hd3, Hw3, Hw2, Hd2, HS1 in Hall.
    assert (Hc : chunk = []).
    { apply (app_inv_head (s_written s1)). rewrite app_nil_r. destruct pop; rewrite ?app_nil_r in Hall; now symmetry. }
    rewrite Hc in Hlegal. unfold lenN in Hlegal. cbn in Hlegal. lia.
  - destruct (Hnz Enz) as (b & Hb). rewrite Hb in *. rewrite Hrest. reflexivity.
Qed.

(* ... and this holds at every point of every history from every start index *)
Theorem repost_delivers_at m start df addr ae uf ops a1 e1 u1 chunk pop a2 e2 u2 :
  start < two16 ->
  let s := sys_run true m (sys_init_at start df addr ae uf) ops in
  let s1 := fst (sys_step true m s (ORecv true a1 e1 u1)) in
  let r1 := snd (sys_step true m s (ORecv true a1 e1 u1)) in
  r_val r1 <> 0 -> unread (s_c s1) = [] ->
  c_token (s_c s1) <> None /\ s_infl s1 = []
  /\ sub16 (q_aidx (c_rxq (s_c s1))) (d_used (s_d s1)) = 1
  /\ (1 <= lenN chunk <= PAGE ->
      dev_can_fill (c_rxq (s_c s1)) (s_d s1) chunk = true
      /\ let s2 := fst (sys_step true m s1 (OFill chunk)) in
         r_bytes (snd (sys_step true m s2 (ORecv pop a2 e2 u2))) = firstn 1 chunk).
Proof.
  intros Hst. exact (repost_delivers m _ a1 e1 u1 chunk pop a2 e2 u2 (console_invariant_at m start df addr ae uf ops Hst)).
Qed.

(* the transmit queue of the any-index system is an idle reachable queue of size 2: send_publishes
   below applies to it (and to the queue it leaves behind, so to every honest history of sends) *)
Lemma tx_idle_at start df addr ae uf :
  start < two16 ->
  let c := s_c (sys_init_at start df addr ae uf) in
  Reach (c_txq c) [] [] /\ q_size (c_txq c) = 2
  /\ q_avail_idx (c_txq c) = start /\ q_last_used (c_txq c) = start.
Proof.
  intros Hst. cbv zeta. unfold sys_init_at, console_new_at.
  set (f := N.land df SUPPORTED_FEATURES).
  set (c0 := mkC f (qset_indices (qnew QSIZE (has_flag f FEAT_INDIRECT) (has_flag f FEAT_EVENT_IDX)) start)
                 (qset_indices (qnew QSIZE (has_flag f FEAT_INDIRECT) (has_flag f FEAT_EVENT_IDX)) start) [] 0 0 None).
  assert (HJ0 : Jrx c0 (dev_init_at start) []).
  { exists [], []. cbn [c0 c_rxq c_cursor c_pending c_buf c_token].
    split; [apply reach_new_at; exact Hst|]. split; [reflexivity|]. split; [lia|]. split; [unfold PAGE; lia|].
    split; [reflexivity|]. split; [exact Hst|]. split; [reflexivity|]. split; [reflexivity|].
    repeat split; reflexivity. }
  destruct (poll_spec c0 (dev_init_at start) [] addr ae uf HJ0) as (c' & evs & E & _ & _ & _ & _ & _ & Htx & _).
  rewrite E. cbn [s_c]. rewrite Htx. cbn [c0 c_txq].
  split; [apply reach_new_at; exact Hst|]. repeat split; reflexivity.
Qed.

(* ------------------------------------------------------------------------------------------ *)
(* the transmit side                                                                           *)
Lemma keys_tx len a : keys (tag_bufs [txbuf len 0] []) = keys [(txbuf len a, false)].
Proof. reflexivity. Qed.

(* send / send_bytes / Write::write on an idle transmit queue: exactly the caller's buffer is shared,
   readable, and it is the whole chain the device reaches from the new ring entry; once the device
   has used that chain the call returns Ok, has unshared the same buffer, and the queue is idle again *)
Theorem send_publishes c h len addr ae uf obs v :
  Reach (c_txq c) [] h -> q_size (c_txq c) = 2 -> len <> 0 -> len < two32 ->
  let q := c_txq c in
  let head := q_free_head q in
  exists q1 evs1,
    add q [txbuf len addr] [] 0 = (Ok head, q1, evs1)
    /\ shares_of evs1 = [ShBuf addr 1 len false] /\ unshares_of evs1 = []
    /\ walk (q_dtable q1) (fun _ => None) head 2 = Some [(addr, len, false)]
    /\ q_aring q1 = updN (q_aring q) (q_avail_idx q mod 2) head
    /\ q_aidx q1 = w16 (q_avail_idx q + 1)
    /\ (forall spins ulen,
          tx_wait q1 obs 0 = Some spins ->
          v_uidx v = w16 (q_last_used q1 + 1) -> used_elem q1 v = (head, ulen) ->
          exists c' evs3 h',
            send_bytes c len addr ae uf obs v
              = (Some (Ok spins), c',
                 map (CQ TXQ) evs1 ++ (if should_notify q1 ae uf then [CNotify TXQ] else []) ++ map (CQ TXQ) evs3)
            /\ shares_of evs3 = [] /\ unshares_of evs3 = [ShBuf addr 1 len false]
            /\ Reach (c_txq c') [] h' /\ q_size (c_txq c') = 2
            /\ c_rxq c' = c_rxq c /\ c_buf c' = c_buf c /\ c_cursor c' = c_cursor c
            /\ c_pending c' = c_pending c /\ c_token c' = c_token c).
Proof.
  intros HR Hsz Hl0 Hl32 q head. fold q in HR, Hsz.
  assert (Hok : bufs_ok (tag_bufs [txbuf len addr] [])).
  { constructor; [|constructor]. cbn. auto. }
  assert (Hne : tag_bufs [txbuf len addr] [] <> []) by discriminate.
  destruct (chains_disjoint _ _ _ HR) as (_ & _ & Hnu & _). cbn in Hnu.
  assert (Hcap : capacity_ok q (lenN (tag_bufs [txbuf len addr] [])) = true).
  { change (lenN (tag_bufs [txbuf len addr] [])) with 1. unfold capacity_ok.
    rewrite Hnu, Hsz. cbn. now rewrite andb_false_r. }
  destruct (Reach_Inv _ _ _ HR) as [HI _].
  destruct (add_ok q [] [txbuf len addr] [] 0 HI Hne Hok Hcap)
    as (q1 & evs1 & ch0 & Hadd & _ & _ & _ & _ & _ & _ & Hlu1 & Hsz1 & _ & _ & _ & _ & _ & _ & evs0 & Hevs & _ & Hch0 & Hsh & Hun).
  destruct (add_publishes q [] h [txbuf len addr] [] 0 _ q1 evs1 (fun _ => None) HR Hok Hadd)
    as (_ & Hch & Hcb & Hwalk & _ & Hring' & Hai' & Haidx' & Htbl & _ & _ & HR').
  { intros ta tbl Et. exfalso. unfold new_chain in Et. cbn [tag_bufs map app] in Et.
    change (lenN [(txbuf len addr, false)]) with 1 in Et. change (1 <? 1) with false in Et.
    rewrite andb_false_r in Et. discriminate. }
  set (ch := new_chain q [txbuf len addr] [] 0) in *. cbn [app] in HR'.
  assert (Htn : c_tbl ch = None).
  { destruct (c_tbl ch) eqn:E; [|reflexivity]. exfalso.
    destruct (proj1 Htbl ltac:(discriminate)) as [_ Hx]. cbn in Hx. lia. }
  assert (Hshares : chain_shares ch = [ShBuf addr 1 len false]).
  { unfold chain_shares. rewrite Htn, Hcb. reflexivity. }
  exists q1, evs1. split; [exact Hadd|].
  split. { rewrite Hevs, shares_of_app, Hsh, Hch0, Hshares. reflexivity. }
  split. { rewrite Hevs, unshares_of_app, Hun. reflexivity. }
  split. { rewrite Hsz1, Hsz in Hwalk. exact Hwalk. }
  split. { rewrite Hring'. now rewrite Hsz. }
  split. { now rewrite Haidx', Hai'. }
  intros spins ulen Hwait Hvi Hel.
  unfold send_bytes. fold q. rewrite Hadd, Hwait, Hel.
  assert (Hkeys : keys (tag_bufs [txbuf len 0] []) = keys (c_bufs ch)) by (rewrite Hcb; apply keys_tx).
  destruct (reach_basic _ _ _ HR') as (_ & _ & Hlu1' & _).
  destruct (pop_refines q1 [] ch [] (h ++ evs1) [txbuf len 0] [] (v_uidx v) head ulen HR' Hkeys) as (_ & _ & P3).
  assert (Hhd : head < 2).
  { destruct (chains_disjoint _ _ _ HR') as (_ & Hrange & _).
    rewrite <- Hsz, <- Hsz1. apply Hrange.
    destruct (Reach_Inv _ _ _ HR') as [(fl & _ & _ & _ & _ & _ & Hchs & _) _].
    inversion Hchs as [|? ? Hc0 _]; subst.
    apply chain_head_in in Hc0. unfold all_idxs. cbn [map concat]. rewrite app_nil_r.
    now rewrite Hch in Hc0. }
  assert (Hwh : w16 head = head) by (apply w16_small; unfold two16; lia).
  destruct (P3 ltac:(rewrite Hvi, w16_small by apply w16_lt; intros E; symmetry in E; revert E; now apply w16_succ_neq)
               ltac:(now rewrite Hwh))
    as (q3 & evs3 & Hpop & HR3 & _ & _ & _ & _ & _ & _ & _ & Hsz3 & _ & _ & _ & _ & Hevs3).
  rewrite Hch in Hpop. rewrite Hpop.
  destruct (Reach_Inv _ _ _ HR') as [HI' _].
  destruct (ledger_pop_evs q1 [ch] ch (tag_bufs [txbuf len 0] []) (q_free_head q1) HI' ltac:(now left) Hkeys) as [Hperm Hnosh].
  exists (set_tx c q3), evs3, ((h ++ evs1) ++ evs3).
  split; [reflexivity|].
  assert (Htail : forall b : bool, shares_of (if b then [QStoreUsedEvent (w16 (q_last_used q1 + 1))] else []) = []
                                   /\ unshares_of (if b then [QStoreUsedEvent (w16 (q_last_used q1 + 1))] else []) = [])
    by (intros []; split; reflexivity).
  split. { rewrite Hevs3, shares_of_app, Hnosh, (proj1 (Htail _)). reflexivity. }
  split. { rewrite Hevs3, unshares_of_app, (proj2 (Htail _)), app_nil_r.
           rewrite Hshares in Hperm. apply Permutation.Permutation_sym in Hperm.
           now apply Permutation.Permutation_length_1_inv in Hperm. }
  cbn [set_tx c_txq c_rxq c_buf c_cursor c_pending c_token].
  split; [exact HR3|]. split; [now rewrite Hsz3, Hsz1|]. repeat split; reflexivity.
Qed.

(* ------------------------------------------------------------------------------------------ *)
(* the code as it stood before the repair of BufRead::consume                                  *)
Definition wit_prefix : list op :=
  [OFill [1; 2; 3]; ORead 2 2000 0 0 0 []; OConsume 18446744073709551615; ORead 5 0 0 0 0 []].

(* release profile: cursor + usize::MAX wraps to cursor - 1, the assertion passes, the cursor moves
   BACK by one and the bytes 2 3 are handed out a second time *)
Theorem stream_prefix_refuted :
  exists ops,
    let s := sys_run false Release (sys_init 0 1000 0 0) ops in
    s_written s = [1; 2; 3] /\ s_delivered s = [1; 2; 3; 2; 3]
    /\ s_delivered s ++ unread (s_c s) ++ s_infl s <> s_written s.
Proof. exists wit_prefix. vm_compute. split; [reflexivity|]. split; [reflexivity|]. discriminate. Qed.

(* strongest true statement about that code: the whole invariant (hence the stream equation) in the
   debug profile for every history, and in the release profile for every history whose consume
   amounts stay below 2^64 - 4096 *)
Theorem stream_prefix_partial m df addr ae uf ops :
  Forall (op_ok false m) ops ->
  let s := sys_run false m (sys_init df addr ae uf) ops in
  J s /\ s_delivered s ++ unread (s_c s) ++ s_infl s = s_written s.
Proof.
  intros Hok. cbv zeta. assert (HJ : J (sys_run false m (sys_init df addr ae uf) ops)) by (apply run_J; [apply init_J|exact Hok]).
  split; [exact HJ|exact (proj2 HJ)].
Qed.

(* the repaired code on the same history: the oversized consume panics, nothing is duplicated *)
Example stream_fixed_on_witness :
  let s := sys_run true Release (sys_init 0 1000 0 0) wit_prefix in
  s_written s = [1; 2; 3] /\ s_delivered s = [1; 2; 3]
  /\ r_class (snd (sys_step true Release (sys_run true Release (sys_init 0 1000 0 0) (firstn 2 wit_prefix))
                            (OConsume 18446744073709551615))) = 2.
Proof. vm_compute. repeat split; reflexivity. Qed.

(* ------------------------------------------------------------------------------------------ *)
(* An observation outside the property (liveness, recorded because formalisation surfaced it): *)
(* read / consume do not re-post the receive buffer.  Once everything received has been taken   *)
(* through them, no buffer is outstanding, the device cannot deliver, and recv, read_ready and   *)
(* ack_interrupt never post one: a caller polling with read_ready() before read() waits forever. *)
Definition stalled (c : cstate) : Prop := c_token c = None /\ c_cursor c = c_pending c.

Definition keeps_stall (o : op) : Prop :=
  match o with
  | ORead n _ _ _ _ _ => n = 0
  | OFillBuf _ _ _ _ _ => False
  | OConsume _ | OSend _ _ _ _ _ _ => False
  | _ => True
  end.

Lemma stall_stable fixedc m s o : J s -> stalled (s_c s) -> keeps_stall o ->
  let s' := fst (sys_step fixedc m s o) in
  stalled (s_c s') /\ s_written s' = s_written s /\ s_delivered s' = s_delivered s /\ s_d s' = s_d s
  /\ match o with OReadReady | ORecv _ _ _ _ => r_val (snd (sys_step fixedc m s o)) = 0 | _ => True end.
Proof.
  intros [HJ _] [Etok Ecur] Hk. cbv zeta.
  assert (Hfin : forall v, finish_receive (s_c s) v = (Ok false, s_c s, [])) by (intros v; unfold finish_receive; now rewrite Etok).
  destruct o as [chunk|pop addr ae uf| |isr|n addr ae uf idle chunk|addr ae uf idle chunk|amt|len addr ae uf obs v|rounds|chr res];
    cbn [keeps_stall] in Hk; try contradiction; cbn [sys_step].
  - destruct (fill_spec (s_c s) (s_d s) (s_infl s) chunk HJ) as (_ & F2 & _).
    rewrite (F2 (or_introl Etok)). cbn [fst]. repeat split; auto.
  - unfold recv. rewrite Hfin. cbn [bind]. rewrite Ecur, N.eqb_refl.
    cbn [fst snd ret_of r_val r_bytes s_c s_d s_written s_delivered].
    repeat split; auto. destruct pop; now rewrite app_nil_r.
  - unfold read_ready. rewrite Hfin. cbn [bind]. rewrite Ecur, N.eqb_refl.
    cbn [fst snd ret_of r_val negb b2n s_c s_d s_written s_delivered]. repeat split; auto.
  - unfold ack_interrupt. rewrite Hfin. destruct (N.land isr 1 =? 0);
      cbn [fst snd s_c s_d s_written s_delivered]; repeat split; auto.
  - subst n. cbn [N.eqb fst]. repeat split; auto.
  - cbn [fst]. repeat split; auto.
  - cbn [fst]. repeat split; auto.
Qed.

(* the stalled state is reached by the call pattern of the crate's own `read` test *)
Example stall_reachable :
  let s := sys_run true Debug (sys_init 0 1000 0 0) [OFill [42; 43; 44]; ORead 3 0 0 0 0 []] in
  stalled (s_c s) /\ s_delivered s = [42; 43; 44]
  /\ dev_can_fill (c_rxq (s_c s)) (s_d s) [45] = false.
Proof. vm_compute. repeat split; reflexivity. Qed.

(* ------------------------------------------------------------------------------------------ *)
(* non-vacuity: concrete reachable states in which every part of the equation is non-trivial   *)
Example stream_nonvacuous :
  let s := sys_run true Release (sys_init 0 1000 0 0)
             [OFill [1; 2; 3]; ORead 2 0 0 0 0 []; ORecv false 0 0 0; ORecv true 2000 0 0;
              OFill [7; 8]; OFillBuf 0 0 0 1 [9]; OConsume 1] in
  s_written s = [1; 2; 3; 7; 8] /\ s_delivered s = [1; 2; 3; 7] /\ unread (s_c s) = [8] /\ s_infl s = []
  /\ c_token (s_c s) = None.
Proof. vm_compute. repeat split; reflexivity. Qed.

Example stream_nonvacuous_inflight :
  let s := sys_run true Debug (sys_init 536870912 1000 0 0)
             [OFill [1]; ORecv true 2000 0 0; OFill [5; 6]; OAck 2; OFill [9]] in
  s_written s = [1; 5; 6] /\ s_delivered s = [1] /\ unread (s_c s) = [] /\ s_infl s = [5; 6]
  /\ c_token (s_c s) = Some 0.
Proof. vm_compute. repeat split; reflexivity. Qed.

(* a wait during which the device delivers at the third iteration returns that chunk *)
Example wait_nonvacuous :
  let s0 := sys_init 0 1000 0 0 in
  snd (sys_step true Debug s0 (ORead 2 0 0 0 2 [4; 5; 6])) = mkRet 0 2 [4; 5]
  /\ snd (sys_step true Debug s0 (OFillBuf 0 0 0 0 [4; 5; 6])) = mkRet 0 3 [4; 5; 6]
  /\ r_class (snd (sys_step true Debug s0 (ORead 2 0 0 0 2 []))) = 4.
Proof. vm_compute. repeat split; reflexivity. Qed.

Example send_nonvacuous :
  let c := s_c (sys_init 0 1000 0 0) in
  Reach (c_txq c) [] [] /\ q_size (c_txq c) = 2
  /\ fst (fst (send_bytes c 3 5000 0 0 [0; 0; 1] (mkView 1 [(0, 0); (0, 0)] []))) = Some (Ok 2)
  /\ tx_wait (snd (fst (add (c_txq c) [txbuf 3 5000] [] 0))) [0; 0; 1] 0 = Some 2.
Proof.
  cbv zeta. split; [exact (reach_new false false)|]. vm_compute. repeat split; reflexivity.
Qed.

Example prefix_partial_nonvacuous :
  Forall (op_ok false Release) [OFill [1; 2; 3]; OFillBuf 0 0 0 0 []; OConsume 2; OConsume 18446744073709547519].
Proof.
  apply Forall_cons; [exact I|]. apply Forall_cons; [exact I|].
  apply Forall_cons; [right; right; reflexivity|]. apply Forall_cons; [right; right; reflexivity|]. constructor.
Qed.

(* ------------------------------------------------------------------------------------------ *)
(* non-vacuity of the any-index statements: a history that takes avail, used and last_used of  *)
(* the receive queue across 65535 -> 0 (EVENT_IDX negotiated, the device asking / not asking)   *)
Example wrap_nonvacuous :
  let s := sys_run true Debug (sys_init_at 65535 536870912 1000 65535 1)
             [OFill [1]; ORecv true 2000 40000 1; OFill [5; 6]; ORecv false 0 0 0; ORecv true 0 0 0;
              ORecv true 3000 0 1; OFill [9]] in
  65535 < two16
  /\ s_written s = [1; 5; 6; 9] /\ s_delivered s = [1; 5; 6] /\ s_infl s = [9]
  /\ q_avail_idx (c_rxq (s_c s)) = 2 /\ d_used (s_d s) = 2 /\ q_last_used (c_rxq (s_c s)) = 1
  /\ c_token (s_c s) = Some 0.
Proof. vm_compute. repeat split; reflexivity. Qed.

Definition has_notify (evs : list cev) : bool :=
  existsb (fun e => match e with CNotify _ => true | _ => false end) evs.

(* the hypotheses of repost_delivers are satisfiable with the notification suppressed: the recv(pop)
   that takes the last byte re-posts the buffer WITHOUT notifying (EVENT_IDX with avail_event far
   ahead; no EVENT_IDX with used.flags = 1) and still records the request; with avail_event at the
   index being published it notifies *)
Example repost_nonvacuous :
  let s := sys_run true Release (sys_init_at 65535 536870912 1000 0 0) [OFill [7]] in
  let st := sys_step true Release s (ORecv true 2000 16384 1) in
  let s' := sys_run true Release (sys_init_at 65535 0 1000 0 0) [OFill [7]] in
  let st' := sys_step true Release s' (ORecv true 2000 0 1) in
  r_val (snd st) <> 0 /\ unread (s_c (fst st)) = [] /\ c_token (s_c (fst st)) = Some 0
  /\ has_notify (snd (recv Release (s_c s) true (dev_view (s_d s)) 2000 16384 1)) = false
  /\ has_notify (snd (recv Release (s_c s) true (dev_view (s_d s)) 2000 0 1)) = true
  /\ r_val (snd st') <> 0 /\ unread (s_c (fst st')) = [] /\ c_token (s_c (fst st')) = Some 0
  /\ has_notify (snd (recv Release (s_c s') true (dev_view (s_d s')) 2000 0 1)) = false
  /\ has_notify (snd (recv Release (s_c s') true (dev_view (s_d s')) 2000 0 0)) = true.
Proof. vm_compute. repeat split; try reflexivity; discriminate. Qed.

(* ------------------------------------------------------------------------------------------ *)
(* the suppression words decide the notification and nothing else                              *)
Lemma has_notify_cq q evs : has_notify (map (CQ q) evs) = false.
Proof. induction evs as [|e evs IH]; [reflexivity|exact IH]. Qed.

Lemma has_notify_app a b : has_notify (a ++ b) = has_notify a || has_notify b.
Proof. unfold has_notify. apply existsb_app. Qed.

(* poll_retrieve (the only place where the driver publishes a receive buffer: from new, recv(pop), read,
   fill_buf): for ANY two pairs of suppression words, in ANY driver state, the result and the new driver
   state (the recorded token included) are the same and the effects differ at most in the notification;
   and the notification is sent exactly when the queue's should_notify says so for the words given. *)
Theorem poll_words c addr ae uf ae' uf' :
  fst (poll_retrieve c addr ae uf) = fst (poll_retrieve c addr ae' uf')
  /\ filter (fun e => negb (has_notify [e])) (snd (poll_retrieve c addr ae uf))
     = filter (fun e => negb (has_notify [e])) (snd (poll_retrieve c addr ae' uf'))
  /\ (forall tok, fst (fst (add (c_rxq c) [] [rxbuf addr] 0)) = Ok tok ->
      c_token c = None -> c_cursor c = c_pending c ->
      c_token (snd (fst (poll_retrieve c addr ae uf))) = Some tok
      /\ has_notify (snd (poll_retrieve c addr ae uf))
         = should_notify (snd (fst (add (c_rxq c) [] [rxbuf addr] 0))) ae uf).
Proof.
  unfold poll_retrieve.
  destruct (c_token c) as [t|]; [split; [reflexivity|]; split; [reflexivity|]; intros tok _ Hx; discriminate Hx|].
  destruct (c_cursor c =? c_pending c) eqn:Ecur.
  2:{ split; [reflexivity|]. split; [reflexivity|]. intros tok _ _ Hx. apply N.eqb_neq in Ecur. now elim Ecur. }
  destruct (add (c_rxq c) [] [rxbuf addr] 0) as [[o q] evs]. cbn [fst snd].
  destruct o as [tok|e| |]; cbn [fst snd].
  - split; [reflexivity|]. split.
    + rewrite !filter_app.
      assert (Hn : forall b : bool, filter (fun e => negb (has_notify [e])) (if b then [CNotify RXQ] else []) = []).
      { intros [|]; reflexivity. }
      now rewrite !Hn.
    + intros tok' Ht _ _. inversion Ht; subst tok'. cbn [set_rx c_token]. split; [reflexivity|].
      rewrite has_notify_app, has_notify_cq. cbn [orb].
      destruct (should_notify q ae uf); reflexivity.
  - split; [reflexivity|]. split; [reflexivity|]. intros tok Hx. discriminate Hx.
  - split; [reflexivity|]. split; [reflexivity|]. intros tok Hx. discriminate Hx.
  - split; [reflexivity|]. split; [reflexivity|]. intros tok Hx. discriminate Hx.
Qed.
