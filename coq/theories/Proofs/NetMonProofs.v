(* What the network-driver monitors of Extract/NetIO.v (kinds 1650 .. 1658, property C16) MEAN, and that they hold of the model.

   The monitors are boolean functions over flat number lists; the runner evaluates them on what the harness
   (harness/src/scen/c16.rs: a reference NIC that reads and writes only through device addresses) observed of the
   implementation.  Here each of them is tied to the clause of C16 it stands for:
     A. meaning: a verdict [1] on ANY input list implies that the list is a line of the documented layout (with consistent
        counts and nothing after it) and the clause of the property, spelled out as equalities / In / NoDup / arithmetic facts
        about the decoded observation (no reference to the monitor's helper functions or to the boolean checkers of
        Model/NetSpec.v in the conclusions).  For the list-shaped kinds the statement about a well-formed line is an
        EQUIVALENCE (.._line_iff): the monitor demands exactly what is written there, no more.
     B. holds of the model: the line built from the MODEL's own behaviour (Model/Net.v: send_payload, fill_buffer_header,
        receive_complete, rx_packet, vnet_receive, vnet_recycle, raw_can_send, poll_receive, net_negotiate) gets the verdict [1],
        in every state the theorems of Proofs/NetProofs.v cover (NetInv / Reach).
     C. audit witnesses (Examples at the end): inputs on which a monitor accepts or rejects something the property text does
        not mention.
   Reused from Proofs/NetProofs.v: tx_monitor_sound, tx_wire, tx_monitor_accepts_model (1650), ownership_monitor_sound and
   netinv_exactly_one_place (1652), hdr_size_is_spec / hdr_size_negotiated (1655, 1658), fill_buffer_header_spec,
   receive_complete_spec, vnet_receive_cases (1651, 1656, 1657), vnet_recycle_ok (1654), can_recv_spec / can_send_spec (1653). *)
From VD Require Import Base.Words Base.ListUpd Model.Queue Model.Net Model.NetSpec
  Proofs.QueueInv Proofs.QueueReach Proofs.QueueProps Proofs.NetProofs Extract.QueueIO Extract.NetIO.
From Coq Require Import ZArith Lia ZifyBool ZifyN Permutation.
Ltac Zify.zify_post_hook ::= Z.div_mod_to_equations.

(* ------------------------------------------------------------------------------------------------ *)
(* small helpers                                                                                     *)
Lemma nb2n_one b : [b2n b] = [1] -> b = true.
Proof. destruct b; [reflexivity|discriminate]. Qed.
Lemma nb2n_one_rev b : b = true -> [b2n b] = [1].
Proof. now intros ->. Qed.
Lemma n2b_b2n b : n2b (b2n b) = b.
Proof. destruct b; reflexivity. Qed.
Lemma n2b_false n : n2b n = false <-> n = 0.
Proof. unfold n2b. destruct (N.eqb_spec n 0); cbn [negb]; split; intros H; congruence. Qed.
Lemma n2b_true n : n2b n = true <-> n <> 0.
Proof. unfold n2b. destruct (N.eqb_spec n 0); cbn [negb]; split; intros H; congruence. Qed.

Lemma n2b_is n b : n2b n = b <-> (n <> 0 <-> b = true).
Proof.
  destruct b.
  - rewrite n2b_true. split; [intros H; split; [reflexivity|intros _; exact H] | intros [_ H]; now apply H].
  - rewrite n2b_false. split.
    + intros ->. split; [intros X; now elim X|discriminate].
    + intros [H _]. destruct (N.eq_dec n 0) as [E|E]; [exact E|]. specialize (H E). discriminate.
Qed.

(* the counted blocks of a line: `take k l` splits off the first k numbers (all of l if it is shorter) *)
Lemma take_inv k l x y : take k l = (x, y) -> l = x ++ y /\ lenN x = N.min k (lenN l).
Proof.
  unfold take, cnt. intros H. inversion H; subst. split; [symmetry; apply firstn_skipn|].
  unfold lenN. rewrite firstn_length. lia.
Qed.

Lemma take_app (x r : list N) : take (lenN x) (x ++ r) = (x, r).
Proof.
  unfold take, cnt. rewrite lenN_app.
  replace (N.to_nat (N.min (lenN x) (lenN x + lenN r))) with (length x) by (unfold lenN; lia).
  f_equal.
  - induction x as [|a x IH]; [now destruct r|]. cbn [length app firstn]. now rewrite IH.
  - induction x as [|a x IH]; [reflexivity|]. cbn [length app skipn]. exact IH.
Qed.

Lemma take_all (x : list N) : take (lenN x) x = (x, []).
Proof. rewrite <- (app_nil_r x) at 2. apply take_app. Qed.

Lemma hdr_len_nat neg :
  N.to_nat (spec_hdr_len neg) = (if N.testbit neg 32 || N.testbit neg 15 then 12 else 10)%nat.
Proof. unfold spec_hdr_len, VIRTIO_F_VERSION_1, VIRTIO_NET_F_MRG_RXBUF. now destruct (_ || _). Qed.
Lemma hdr_len_plain neg : spec_hdr_len neg = (if N.testbit neg 32 || N.testbit neg 15 then 12 else 10).
Proof. reflexivity. Qed.

Ltac open_net H := unfold net_monitor in H; cbn [N.eqb Pos.eqb] in H.

(* the named monitors as kinds of net_monitor *)
Lemma net_monitor_kinds ins :
  net_monitor 1650 ins = [b2n (mon_tx ins)] /\ net_monitor 1651 ins = [b2n (mon_rx ins)]
  /\ net_monitor 1652 ins = [b2n (mon_own ins)] /\ net_monitor 1653 ins = [b2n (mon_ready ins)]
  /\ net_monitor 1654 ins = [b2n (mon_recycle ins)] /\ net_monitor 1655 ins = [b2n (mon_hdr ins)]
  /\ net_monitor 1656 ins = [b2n (mon_receive ins)] /\ net_monitor 1657 ins = [b2n (mon_complete ins)].
Proof. repeat split. Qed.

(* ================================================================================================ *)
(* A. MEANING                                                                                        *)

(* ------------------------------------------------------------------------------------------------ *)
(* kind 1650 (C16, transmit).  Line written by tx_lines of scen/c16.rs for every chain the reference NIC took from the
   transmit queue:
     [neg; nl; lens(nl); anyw; nw; wire(nw); nf; frame(nf)]
   neg   = the feature word the driver wrote back (negotiated features)
   lens  = the length field of every element of the chain in the order the device walked it
   anyw  = some element was device-writable (or the chain could not be resolved / read)
   wire  = the bytes the device read from the readable elements, back to back
   frame = the bytes the caller asked to send *)

(* the boolean checker of Model/NetSpec.v as a statement: an equivalence, so it demands nothing else *)
Lemma spec_tx_ok_b_iff neg lens anyw wire frame :
  spec_tx_ok_b neg lens anyw wire frame = true <->
  anyw = false /\ (forall l, In l lens -> l <> 0) /\ fold_right N.add 0 lens = lenN wire
  /\ wire = repeat 0 (N.to_nat (spec_hdr_len neg)) ++ frame.
Proof.
  split.
  - intros H. assert (H0 := H). unfold spec_tx_ok_b in H.
    apply andb_prop in H. destruct H as [H _]. apply andb_prop in H. destruct H as [H H3].
    apply andb_prop in H. destruct H as [H1 H2]. apply negb_true_iff in H1. subst anyw.
    split; [reflexivity|]. split.
    { intros l Hl. rewrite forallb_forall in H2. specialize (H2 l Hl). apply negb_true_iff in H2. now apply N.eqb_neq. }
    split; [now apply N.eqb_eq|]. exact (tx_monitor_sound neg lens wire frame H0).
  - intros (-> & Hnz & Hsum & ->). unfold spec_tx_ok_b.
    destruct (tx_wire neg frame) as (Hc & Hs & _). cbv zeta in Hc, Hs. rewrite Hc in Hs. rewrite Hs, list_eqb_refl.
    cbn [negb andb]. rewrite andb_true_r. apply andb_true_intro. split; [|now apply N.eqb_eq].
    apply forallb_forall. intros l Hl. apply negb_true_iff. apply N.eqb_neq. now apply Hnz.
Qed.

(* a line of the documented layout is judged by the checker on its parts *)
Lemma mon_tx_line neg lens anyw wire frame :
  mon_tx (neg :: lenN lens :: lens ++ anyw :: lenN wire :: wire ++ lenN frame :: frame)
  = spec_tx_ok_b neg lens (n2b anyw) wire frame.
Proof.
  unfold mon_tx. rewrite take_app. cbv beta iota zeta. rewrite take_app. cbv beta iota zeta. rewrite take_all.
  cbv beta iota zeta. now rewrite !N.eqb_refl.
Qed.

(* ... and EVERY list the monitor accepts is such a line (counts consistent, nothing after the frame) *)
Lemma mon_tx_decodes ins : mon_tx ins = true ->
  exists neg lens anyw wire frame,
    ins = neg :: lenN lens :: lens ++ anyw :: lenN wire :: wire ++ lenN frame :: frame.
Proof.
  intros H. unfold mon_tx in H. destruct ins as [|neg [|nl r0]]; try discriminate H.
  destruct (take nl r0) as [lens r1] eqn:E1. cbv beta iota zeta in H.
  destruct r1 as [|anyw [|nw r2]]; try discriminate H.
  destruct (take nw r2) as [wire r3] eqn:E2. cbv beta iota zeta in H.
  destruct r3 as [|nf r4]; try discriminate H.
  destruct (take nf r4) as [frame r5] eqn:E3. cbv beta iota zeta in H.
  apply andb_prop in H. destruct H as [H _]. apply andb_prop in H. destruct H as [H H4].
  apply andb_prop in H. destruct H as [H H3]. apply andb_prop in H. destruct H as [H1 H2].
  apply N.eqb_eq in H1. apply N.eqb_eq in H2. apply N.eqb_eq in H3. destruct r5; [|discriminate H4].
  destruct (take_inv _ _ _ _ E1) as [A1 _]. destruct (take_inv _ _ _ _ E2) as [A2 _]. destruct (take_inv _ _ _ _ E3) as [A3 _].
  rewrite app_nil_r in A3. subst. now exists neg, lens, anyw, wire, frame.
Qed.

(* MEANING of monitor 1650 on any list: the list is a transmit line and
   - no element of the chain was device-writable, none had length 0 (VirtIO 2.7.4 - NOT in the text of C16, see the audit),
   - the element lengths add up to the number of bytes the device read,
   - what the device read is h zero bytes followed by exactly the caller's frame, h = 12 if VERSION_1 (bit 32) or MRG_RXBUF
     (bit 15) is among the negotiated features, else 10.
   Nothing is said about how many elements the chain has or where it is cut. *)
Theorem mon1650_meaning ins : net_monitor 1650 ins = [1] ->
  exists neg lens anyw wire frame,
    ins = neg :: lenN lens :: lens ++ anyw :: lenN wire :: wire ++ lenN frame :: frame
    /\ anyw = 0
    /\ (forall l, In l lens -> l <> 0)
    /\ fold_right N.add 0 lens = lenN wire
    /\ wire = repeat 0 (if N.testbit neg 32 || N.testbit neg 15 then 12 else 10)%nat ++ frame.
Proof.
  intros H. open_net H. apply nb2n_one in H.
  destruct (mon_tx_decodes ins H) as (neg & lens & anyw & wire & frame & ->).
  rewrite mon_tx_line in H. apply spec_tx_ok_b_iff in H. destruct H as (H1 & H2 & H3 & H4).
  exists neg, lens, anyw, wire, frame. split; [reflexivity|]. split; [now apply n2b_false|].
  split; [exact H2|]. split; [exact H3|]. now rewrite <- hdr_len_nat.
Qed.

(* on a line of the layout the monitor says exactly this *)
Theorem mon1650_line_iff neg lens anyw wire frame :
  net_monitor 1650 (neg :: lenN lens :: lens ++ anyw :: lenN wire :: wire ++ lenN frame :: frame) = [1] <->
  anyw = 0 /\ (forall l, In l lens -> l <> 0) /\ fold_right N.add 0 lens = lenN wire
  /\ wire = repeat 0 (if N.testbit neg 32 || N.testbit neg 15 then 12 else 10)%nat ++ frame.
Proof.
  rewrite <- hdr_len_nat. split.
  - intros H. open_net H. apply nb2n_one in H. rewrite mon_tx_line in H. apply spec_tx_ok_b_iff in H.
    destruct H as (H1 & H2 & H3 & H4). apply n2b_false in H1. auto.
  - intros (H1 & H2 & H3 & H4). unfold net_monitor. cbn [N.eqb Pos.eqb]. apply nb2n_one_rev.
    rewrite mon_tx_line. apply spec_tx_ok_b_iff. apply n2b_false in H1. auto.
Qed.

(* ------------------------------------------------------------------------------------------------ *)
(* kind 1651 (C16, receive).  Line written by rx_monitor of scen/c16.rs after every receive that returned Ok:
     [neg; used_len; hdr_ret; plen_ret; nw; written(nw); np; packet(np)]
   used_len = the length the device put into the used element;  written = the bytes the device wrote into the buffer
   hdr_ret, plen_ret = the (header length, packet length) the driver returned;  packet = the packet bytes it handed out *)

Lemma spec_rx_ok_b_iff neg used_len written hdr_ret plen_ret packet :
  spec_rx_ok_b neg used_len written hdr_ret plen_ret packet = true <->
  spec_hdr_len neg <= used_len /\ used_len <= lenN written
  /\ hdr_ret = spec_hdr_len neg /\ plen_ret = used_len - spec_hdr_len neg
  /\ packet = firstn (N.to_nat (used_len - spec_hdr_len neg)) (skipn (N.to_nat (spec_hdr_len neg)) written).
Proof.
  unfold spec_rx_ok_b, spec_rx_frame. set (h := spec_hdr_len neg).
  destruct (N.ltb_spec used_len h) as [A|A]; cbn [orb].
  { split; [discriminate|]. intros (B & _). lia. }
  destruct (N.ltb_spec (lenN written) used_len) as [B|B].
  { split; [discriminate|]. intros (_ & C & _). lia. }
  rewrite N.min_l by lia.
  assert (Lf : lenN (firstn (N.to_nat (used_len - h)) (skipn (N.to_nat h) written)) = used_len - h).
  { unfold lenN in *. rewrite firstn_length, skipn_length. lia. }
  split.
  - intros H. apply andb_prop in H. destruct H as [H H4]. apply andb_prop in H. destruct H as [H H3].
    apply andb_prop in H. destruct H as [H1 H2]. apply N.eqb_eq in H1. apply N.eqb_eq in H2. apply N.eqb_eq in H3.
    apply list_eqb_eq in H4. repeat split; try assumption; lia.
  - intros (_ & _ & -> & -> & ->). rewrite Lf, !N.eqb_refl, list_eqb_refl.
    replace (used_len - h + h =? used_len) with true by (symmetry; apply N.eqb_eq; lia). reflexivity.
Qed.

Lemma mon_rx_line neg used_len hdr_ret plen_ret written packet :
  mon_rx (neg :: used_len :: hdr_ret :: plen_ret :: lenN written :: written ++ lenN packet :: packet)
  = spec_rx_ok_b neg used_len written hdr_ret plen_ret packet.
Proof.
  unfold mon_rx. rewrite take_app. cbv beta iota zeta. rewrite take_all. cbv beta iota zeta. now rewrite !N.eqb_refl.
Qed.

Lemma mon_rx_decodes ins : mon_rx ins = true ->
  exists neg used_len hdr_ret plen_ret written packet,
    ins = neg :: used_len :: hdr_ret :: plen_ret :: lenN written :: written ++ lenN packet :: packet.
Proof.
  intros H. unfold mon_rx in H. destruct ins as [|neg [|used_len [|hdr_ret [|plen_ret [|nw r0]]]]]; try discriminate H.
  destruct (take nw r0) as [written r1] eqn:E1. cbv beta iota zeta in H.
  destruct r1 as [|np r2]; try discriminate H.
  destruct (take np r2) as [packet r3] eqn:E2. cbv beta iota zeta in H.
  apply andb_prop in H. destruct H as [H _]. apply andb_prop in H. destruct H as [H H3].
  apply andb_prop in H. destruct H as [H1 H2]. apply N.eqb_eq in H1. apply N.eqb_eq in H2. destruct r3; [|discriminate H3].
  destruct (take_inv _ _ _ _ E1) as [A1 _]. destruct (take_inv _ _ _ _ E2) as [A2 _].
  rewrite app_nil_r in A2. subst. now exists neg, used_len, hdr_ret, plen_ret, written, packet.
Qed.

(* the packet as a piece of what the device wrote *)
Lemma cut_at_header (written : list N) h k :
  h + k <= lenN written ->
  exists hb tail, written = hb ++ firstn (N.to_nat k) (skipn (N.to_nat h) written) ++ tail /\ lenN hb = h.
Proof.
  intros Hle. exists (firstn (N.to_nat h) written), (skipn (N.to_nat k) (skipn (N.to_nat h) written)).
  split.
  - rewrite firstn_skipn. now rewrite firstn_skipn.
  - unfold lenN in *. rewrite firstn_length. lia.
Qed.

Lemma cut_unique (hb packet tail : list N) h k :
  lenN hb = h -> lenN packet = k ->
  firstn (N.to_nat k) (skipn (N.to_nat h) (hb ++ packet ++ tail)) = packet.
Proof.
  intros Hh Hk.
  replace (N.to_nat h) with (length hb + 0)%nat by (unfold lenN in Hh; lia).
  rewrite skipn_app, Nat.add_comm. rewrite skipn_all2 by lia. cbn [app].
  replace (0 + length hb - length hb)%nat with 0%nat by lia. cbn [skipn].
  replace (N.to_nat k) with (length packet + 0)%nat by (unfold lenN in Hk; lia).
  rewrite firstn_app_2. cbn [firstn]. apply app_nil_r.
Qed.

(* MEANING of monitor 1651 on any list: the list is a receive line and, with h = 12 if VERSION_1 or MRG_RXBUF was negotiated,
   else 10:
   - the used length is at least h (NO line with used_len < h is accepted: a driver that answers Ok to such a completion is
     flagged) and the device wrote at least used_len bytes,
   - the header length returned is h, the packet length returned is used_len - h,
   - the packet handed out has that length and is exactly what the device wrote behind the first h bytes:
     written = hb ++ packet ++ tail with hb of length h. *)
Theorem mon1651_meaning ins : net_monitor 1651 ins = [1] ->
  exists neg used_len hdr_ret plen_ret written packet,
    ins = neg :: used_len :: hdr_ret :: plen_ret :: lenN written :: written ++ lenN packet :: packet
    /\ let h := if N.testbit neg 32 || N.testbit neg 15 then 12 else 10 in
       h <= used_len /\ used_len <= lenN written
       /\ hdr_ret = h /\ plen_ret = used_len - h /\ lenN packet = used_len - h
       /\ exists hb tail, written = hb ++ packet ++ tail /\ lenN hb = h.
Proof.
  intros H. open_net H. apply nb2n_one in H.
  destruct (mon_rx_decodes ins H) as (neg & used_len & hdr_ret & plen_ret & written & packet & ->).
  rewrite mon_rx_line in H. apply spec_rx_ok_b_iff in H. rewrite hdr_len_plain in H.
  exists neg, used_len, hdr_ret, plen_ret, written, packet. split; [reflexivity|]. cbv zeta.
  set (h := if N.testbit neg 32 || N.testbit neg 15 then 12 else 10) in *.
  destruct H as (H1 & H2 & H3 & H4 & H5).
  split; [exact H1|]. split; [exact H2|]. split; [exact H3|]. split; [exact H4|].
  split. { rewrite H5. unfold lenN in *. rewrite firstn_length, skipn_length. lia. }
  rewrite H5. apply cut_at_header. lia.
Qed.

(* on a line of the layout the monitor says exactly this *)
Theorem mon1651_line_iff neg used_len hdr_ret plen_ret written packet :
  net_monitor 1651 (neg :: used_len :: hdr_ret :: plen_ret :: lenN written :: written ++ lenN packet :: packet) = [1] <->
  let h := if N.testbit neg 32 || N.testbit neg 15 then 12 else 10 in
  h <= used_len /\ used_len <= lenN written /\ hdr_ret = h /\ plen_ret = used_len - h /\ lenN packet = used_len - h
  /\ exists hb tail, written = hb ++ packet ++ tail /\ lenN hb = h.
Proof.
  split.
  - intros H. destruct (mon1651_meaning _ H) as (neg' & u' & hr' & pr' & w' & p' & E & M).
    injection E as -> -> -> -> E1 E2.
    assert (Ew : written = w').
    { apply (f_equal (firstn (length written))) in E2. rewrite firstn_app in E2.
      rewrite Nat.sub_diag, firstn_all in E2. cbn [firstn] in E2. rewrite app_nil_r in E2.
      assert (L : length written = length w') by (unfold lenN in E1; lia).
      rewrite L, firstn_app, Nat.sub_diag, firstn_all in E2. cbn [firstn] in E2. now rewrite app_nil_r in E2. }
    subst w'. apply app_inv_head in E2. injection E2 as _ ->. exact M.
  - cbv zeta. rewrite <- hdr_len_plain. intros (H1 & H2 & H3 & H4 & H5 & hb & tail & H6 & H7).
    unfold net_monitor. cbn [N.eqb Pos.eqb]. apply nb2n_one_rev. rewrite mon_rx_line. apply spec_rx_ok_b_iff.
    repeat split; try assumption. rewrite H6. symmetry. now apply cut_unique.
Qed.

(* ------------------------------------------------------------------------------------------------ *)
(* kind 1652 (C16, ownership).  Line written after every step of a history of the buffer-managing driver with a conforming
   device:  [size; np; posted(np); nc; pending(nc); no; owned(no)]
   size    = queue size = number of receive buffers
   posted  = identities of the buffers the device finds posted (one writable descriptor each, not yet completed)
   pending = identities of the buffers the device has completed and the driver has not yet received
   owned   = identities of the RxBuffers the caller holds *)

Lemma count_occ_N_notin l x : ~ In x l -> count_occ_N l x = 0.
Proof.
  induction l as [|y l IH]; intros H; [reflexivity|]. cbn [count_occ_N].
  destruct (N.eqb_spec x y) as [E|E]; [exfalso; apply H; now left|]. rewrite IH; [reflexivity|]. intro Hi. apply H. now right.
Qed.

Lemma count_occ_N_nodup l x : NoDup l -> In x l -> count_occ_N l x = 1.
Proof.
  induction 1 as [|y l Hn Hd IH]; intros Hi; [contradiction|]. cbn [count_occ_N].
  destruct (N.eqb_spec x y) as [E|E].
  - subst. now rewrite count_occ_N_notin.
  - destruct Hi as [Hi|Hi]; [congruence|]. now rewrite IH.
Qed.

(* the checker as a statement (equivalence) *)
Lemma spec_ownership_ok_b_iff size posted pending owned :
  spec_ownership_ok_b size posted pending owned = true <->
  NoDup (posted ++ pending ++ owned) /\ (forall i, i < size <-> In i (posted ++ pending ++ owned)).
Proof.
  split.
  - intros H. destruct (ownership_monitor_sound _ _ _ _ H) as (A & B & _). now split.
  - unfold spec_ownership_ok_b, each_once_b. set (ids := posted ++ pending ++ owned). intros [Hnd Hin].
    assert (Hp : Permutation ids (seqN 0 (N.to_nat size))).
    { apply NoDup_Permutation; [exact Hnd|apply seqN_nodup|]. intros x. rewrite seqN_in, <- Hin. lia. }
    apply Permutation_length in Hp. rewrite seqN_length in Hp.
    apply andb_true_intro. split; [apply N.eqb_eq; unfold lenN; lia|].
    apply forallb_forall. intros x Hx. apply andb_true_intro. split.
    + apply N.ltb_lt. now apply Hin.
    + apply N.eqb_eq. now apply count_occ_N_nodup.
Qed.

Lemma mon_own_line size posted pending owned :
  mon_own (size :: lenN posted :: posted ++ lenN pending :: pending ++ lenN owned :: owned)
  = spec_ownership_ok_b size posted pending owned.
Proof.
  unfold mon_own. rewrite take_app. cbv beta iota zeta. rewrite take_app. cbv beta iota zeta. rewrite take_all.
  cbv beta iota zeta. now rewrite !N.eqb_refl.
Qed.

Lemma mon_own_decodes ins : mon_own ins = true ->
  exists size posted pending owned,
    ins = size :: lenN posted :: posted ++ lenN pending :: pending ++ lenN owned :: owned.
Proof.
  intros H. unfold mon_own in H. destruct ins as [|size [|np r0]]; try discriminate H.
  destruct (take np r0) as [posted r1] eqn:E1. cbv beta iota zeta in H.
  destruct r1 as [|nc r2]; try discriminate H.
  destruct (take nc r2) as [pending r3] eqn:E2. cbv beta iota zeta in H.
  destruct r3 as [|no r4]; try discriminate H.
  destruct (take no r4) as [owned r5] eqn:E3. cbv beta iota zeta in H.
  apply andb_prop in H. destruct H as [H _]. apply andb_prop in H. destruct H as [H H4].
  apply andb_prop in H. destruct H as [H H3]. apply andb_prop in H. destruct H as [H1 H2].
  apply N.eqb_eq in H1. apply N.eqb_eq in H2. apply N.eqb_eq in H3. destruct r5; [|discriminate H4].
  destruct (take_inv _ _ _ _ E1) as [A1 _]. destruct (take_inv _ _ _ _ E2) as [A2 _]. destruct (take_inv _ _ _ _ E3) as [A3 _].
  rewrite app_nil_r in A3. subst. now exists size, posted, pending, owned.
Qed.

Lemma exactly_one_of_three (posted pending owned : list N) i :
  NoDup (posted ++ pending ++ owned) -> In i (posted ++ pending ++ owned) ->
  (In i posted /\ ~ In i pending /\ ~ In i owned)
  \/ (~ In i posted /\ In i pending /\ ~ In i owned)
  \/ (~ In i posted /\ ~ In i pending /\ In i owned).
Proof.
  intros Hnd Hi.
  assert (D1 : In i posted -> In i (pending ++ owned) -> False) by apply (NoDup_app_disj _ _ i Hnd).
  assert (D2 : In i pending -> In i owned -> False) by apply (NoDup_app_disj _ _ i (NoDup_app_remove_l _ _ Hnd)).
  apply in_app_or in Hi. destruct Hi as [Hi|Hi].
  - left. split; [exact Hi|]. split; intro X; apply (D1 Hi); apply in_or_app; auto.
  - apply in_app_or in Hi. destruct Hi as [Hi|Hi].
    + right. left. split; [intro X; apply (D1 X); apply in_or_app; auto|]. split; [exact Hi|]. intro X. exact (D2 Hi X).
    + right. right. split; [intro X; apply (D1 X); apply in_or_app; auto|]. split; [intro X; exact (D2 X Hi)|exact Hi].
Qed.

(* MEANING of monitor 1652 on any list: the list is an ownership line and the identities found in the three places are,
   together, each of 0 .. size-1 exactly once: no identity occurs twice (within a place or in two places), every identity below
   size occurs, nothing else occurs; hence every buffer is in EXACTLY ONE of posted / pending / owned, and the three counts add
   up to size (so with nothing pending and nothing owned the number of posted buffers is the queue size). *)
Theorem mon1652_meaning ins : net_monitor 1652 ins = [1] ->
  exists size posted pending owned,
    ins = size :: lenN posted :: posted ++ lenN pending :: pending ++ lenN owned :: owned
    /\ NoDup (posted ++ pending ++ owned)
    /\ (forall i, i < size <-> In i (posted ++ pending ++ owned))
    /\ lenN posted + lenN pending + lenN owned = size
    /\ (forall i, i < size ->
          (In i posted /\ ~ In i pending /\ ~ In i owned)
          \/ (~ In i posted /\ In i pending /\ ~ In i owned)
          \/ (~ In i posted /\ ~ In i pending /\ In i owned)).
Proof.
  intros H. open_net H. apply nb2n_one in H.
  destruct (mon_own_decodes ins H) as (size & posted & pending & owned & ->).
  rewrite mon_own_line in H. destruct (ownership_monitor_sound _ _ _ _ H) as (A & B & C).
  exists size, posted, pending, owned. split; [reflexivity|]. split; [exact A|]. split; [exact B|]. split; [exact C|].
  intros i Hi. apply exactly_one_of_three; [exact A|]. now apply B.
Qed.

Theorem mon1652_line_iff size posted pending owned :
  net_monitor 1652 (size :: lenN posted :: posted ++ lenN pending :: pending ++ lenN owned :: owned) = [1] <->
  NoDup (posted ++ pending ++ owned) /\ (forall i, i < size <-> In i (posted ++ pending ++ owned)).
Proof.
  unfold net_monitor. cbn [N.eqb Pos.eqb]. rewrite mon_own_line, <- spec_ownership_ok_b_iff.
  split; [apply nb2n_one|apply nb2n_one_rev].
Qed.

(* ------------------------------------------------------------------------------------------------ *)
(* kind 1653 (C16, readiness):
     [can_recv observed; the device's used index (receive queue); completions the driver has consumed;
      can_send observed; queue size; descriptors of the transmit queue in flight; the queue uses indirect descriptors]
   MEANING: can_recv is true exactly when the device's used index differs from the number of consumed completions modulo 2^16;
   can_send is true exactly when a header + frame chain fits: on a direct queue at least two descriptors are free, on an
   indirect queue at least one is free and the queue has at least two entries. (An equivalence: nothing else is demanded.) *)
Theorem mon1653_meaning ins : net_monitor 1653 ins = [1] <->
  exists cr dui consumed cs size inflight ind,
    ins = [cr; dui; consumed; cs; size; inflight; ind]
    /\ (cr <> 0 <-> dui mod 65536 <> consumed mod 65536)
    /\ (ind = 0 -> (cs <> 0 <-> inflight + 2 <= size))
    /\ (ind <> 0 -> (cs <> 0 <-> inflight < size /\ 2 <= size)).
Proof.
  unfold net_monitor. cbn [N.eqb Pos.eqb]. split.
  - intros H. apply nb2n_one in H. unfold mon_ready in H.
    destruct ins as [|cr [|dui [|consumed [|cs [|size [|inflight [|ind [|? ?]]]]]]]]; try discriminate H.
    exists cr, dui, consumed, cs, size, inflight, ind. split; [reflexivity|].
    apply andb_prop in H. destruct H as [H1 H2]. apply eqb_prop in H1. apply eqb_prop in H2.
    unfold spec_can_recv, w16 in H1. unfold spec_can_send in H2. apply n2b_is in H1.
    split; [rewrite H1, negb_true_iff, N.eqb_neq; reflexivity|].
    split.
    + intros ->. cbn [n2b N.eqb negb] in H2. apply n2b_is in H2. rewrite H2, N.leb_le. reflexivity.
    + intros Hi. apply n2b_true in Hi. rewrite Hi in H2. apply n2b_is in H2.
      rewrite H2, andb_true_iff, N.ltb_lt, N.leb_le. reflexivity.
  - intros (cr & dui & consumed & cs & size & inflight & ind & -> & H1 & H2 & H3).
    apply nb2n_one_rev. unfold mon_ready. apply andb_true_intro. split; apply eqb_true_iff; apply n2b_is.
    + unfold spec_can_recv, w16. rewrite H1, negb_true_iff, N.eqb_neq. reflexivity.
    + unfold spec_can_send. destruct (N.eq_dec ind 0) as [E|E].
      * subst ind. cbn [n2b N.eqb negb]. rewrite (H2 eq_refl), N.leb_le. reflexivity.
      * assert (Hi := E). apply n2b_true in Hi. rewrite Hi. rewrite (H3 E), andb_true_iff, N.ltb_lt, N.leb_le. reflexivity.
Qed.

(* ------------------------------------------------------------------------------------------------ *)
(* kind 1654 (C16, recycle): [outcome class of recycle_rx_buffer (0 Ok, 1 Err, 2 panic); error code]
   written when the caller gives back a buffer it holds (conforming device).  MEANING: the call returned Ok.  The second number
   is not looked at: with class 0 there is no error code (the harness writes 0). *)
Theorem mon1654_meaning ins : net_monitor 1654 ins = [1] <-> exists code, ins = [0; code].
Proof.
  unfold net_monitor. cbn [N.eqb Pos.eqb]. split.
  - intros H. apply nb2n_one in H. unfold mon_recycle in H.
    destruct ins as [|class [|code [|? ?]]]; try discriminate H. apply N.eqb_eq in H. subst. now exists code.
  - intros (code & ->). reflexivity.
Qed.

(* ------------------------------------------------------------------------------------------------ *)
(* kind 1655 (C16, header size): [negotiated features; the header length the driver used (fill_buffer_header's result, the
   first component of receive_complete's result, the offset of RxBuffer::packet)].  MEANING: it is the length VirtIO 1.2
   5.1.6 / 5.1.6.1 prescribes for the negotiated bits: 12 with VERSION_1 or MRG_RXBUF, else 10. *)
Theorem mon1655_meaning ins : net_monitor 1655 ins = [1] <->
  exists neg h, ins = [neg; h] /\ h = (if N.testbit neg 32 || N.testbit neg 15 then 12 else 10).
Proof.
  unfold net_monitor. cbn [N.eqb Pos.eqb]. split.
  - intros H. apply nb2n_one in H. unfold mon_hdr in H.
    destruct ins as [|neg [|h [|? ?]]]; try discriminate H. apply N.eqb_eq in H. exists neg, h. now split.
  - intros (neg & h & -> & ->). apply nb2n_one_rev. unfold mon_hdr. rewrite hdr_len_plain. apply N.eqb_refl.
Qed.

(* ------------------------------------------------------------------------------------------------ *)
(* kind 1656 (C16, delivery), written after every VirtIONet::receive with a conforming device:
     [a completion is pending (device side); outcome class; error code; identity of the buffer returned;
      identity of the buffer of the oldest pending completion]
   MEANING: with a completion pending the call returned Ok and handed out exactly the buffer of the oldest pending completion;
   with none pending it returned the error NotReady (code 2). *)
Theorem mon1656_meaning ins : net_monitor 1656 ins = [1] <->
  exists p class code idr ide,
    ins = [p; class; code; idr; ide]
    /\ (p <> 0 -> class = 0 /\ idr = ide)
    /\ (p = 0 -> class = 1 /\ code = 2).
Proof.
  unfold net_monitor. cbn [N.eqb Pos.eqb]. split.
  - intros H. apply nb2n_one in H. unfold mon_receive in H.
    destruct ins as [|p [|class [|code [|idr [|ide [|? ?]]]]]]; try discriminate H.
    exists p, class, code, idr, ide. split; [reflexivity|]. unfold spec_receive_ok_b in H. split.
    + intros Hp. apply n2b_true in Hp. rewrite Hp in H. apply andb_prop in H. destruct H as [H1 H2].
      apply N.eqb_eq in H1. apply N.eqb_eq in H2. now split.
    + intros ->. cbn [n2b N.eqb negb] in H. apply andb_prop in H. destruct H as [H1 H2].
      apply N.eqb_eq in H1. apply N.eqb_eq in H2. now split.
  - intros (p & class & code & idr & ide & -> & H1 & H2). apply nb2n_one_rev. unfold mon_receive, spec_receive_ok_b.
    destruct (N.eq_dec p 0) as [E|E].
    + subst p. cbn [n2b N.eqb negb]. destruct (H2 eq_refl) as [-> ->]. reflexivity.
    + assert (Hp := E). apply n2b_true in Hp. rewrite Hp. destruct (H1 E) as [-> ->]. cbn [N.eqb andb]. apply N.eqb_refl.
Qed.

(* ------------------------------------------------------------------------------------------------ *)
(* kind 1657 (C16, raw completion), written after every transmit_complete / receive_complete of the raw driver:
     [the token presented is the one at the head of the used ring; outcome class]
   MEANING: the call returned Ok exactly when the presented token is the one the device completed next.  (For the other case
   ANY class different from 0 is accepted - an error, but also a panic: see the audit.) *)
Theorem mon1657_meaning ins : net_monitor 1657 ins = [1] <->
  exists e class, ins = [e; class] /\ (e <> 0 -> class = 0) /\ (e = 0 -> class <> 0).
Proof.
  unfold net_monitor. cbn [N.eqb Pos.eqb]. split.
  - intros H. apply nb2n_one in H. unfold mon_complete in H.
    destruct ins as [|e [|class [|? ?]]]; try discriminate H. exists e, class. split; [reflexivity|].
    unfold spec_complete_ok_b in H. apply eqb_prop in H. split.
    + intros He. apply n2b_true in He. rewrite He in H. now apply N.eqb_eq.
    + intros ->. cbn [n2b N.eqb negb] in H. now apply N.eqb_neq.
  - intros (e & class & -> & H1 & H2). apply nb2n_one_rev. unfold mon_complete, spec_complete_ok_b.
    destruct (N.eq_dec e 0) as [E|E].
    + subst e. cbn [n2b N.eqb negb]. apply N.eqb_neq in H2; [|reflexivity]. now rewrite H2.
    + assert (He := E). apply n2b_true in He. rewrite He, (H1 E). reflexivity.
Qed.

(* ------------------------------------------------------------------------------------------------ *)
(* kind 1658 (C16, feature negotiation; inline clause of net_monitor), written once per driver instance:
     [feature word offered by the device; feature word the driver wrote back]
   MEANING: every accepted bit was offered, and VIRTIO_NET_F_MRG_RXBUF (bit 15) was not accepted.  (Neither clause is in the text
   of C16: see the audit.) *)
Theorem mon1658_meaning ins : net_monitor 1658 ins = [1] <->
  exists off neg, ins = [off; neg]
    /\ (forall i, N.testbit neg i = true -> N.testbit off i = true) /\ N.testbit neg 15 = false.
Proof.
  unfold net_monitor. cbn [N.eqb Pos.eqb]. split.
  - intros H. destruct ins as [|off [|neg [|? ?]]]; try discriminate H. apply nb2n_one in H.
    exists off, neg. split; [reflexivity|]. apply andb_prop in H. destruct H as [H1 H2].
    apply N.eqb_eq in H1. apply negb_true_iff in H2. split; [|exact H2].
    intros i Hi. rewrite <- H1, N.land_spec in Hi. now apply andb_prop in Hi.
  - intros (off & neg & -> & H1 & H2). apply nb2n_one_rev. rewrite H2. cbn [negb]. rewrite andb_true_r.
    apply N.eqb_eq. apply N.bits_inj. intros i. rewrite N.land_spec.
    destruct (N.testbit neg i) eqn:E; [|reflexivity]. now rewrite (H1 i E).
Qed.

(* ================================================================================================ *)
(* B. THE MONITORS HOLD OF THE MODEL                                                                  *)

(* outcome class and error code as the harness writes them (unit_res / pair_res of scen/c16.rs) *)
Definition oclass {A} (o : outcome A) : N := match o with Ok _ => 0 | Err _ => 1 | Panic => 2 | UB => 3 end.
Definition ocode {A} (o : outcome A) : N := match o with Err e => e | _ => 0 end.

(* ------------------------------------------------------------------------------------------------ *)
(* kind 1650, send (raw and buffer-managing driver): for EVERY negotiated word and EVERY frame (the empty one included) the
   buffers the model hands to the queue - send_payload; by C16_send (net_send_spec) and the last clause of C16_tx (tx_wire) the
   device reaches exactly these, device-readable, with these lengths - make a line the monitor accepts:
   lens = their lengths, anyw = 0, wire = their bytes back to back *)
Theorem mon1650_holds_of_model neg frame :
  let bufs := send_payload (legacy_header neg) frame in
  net_monitor 1650 (neg :: lenN (map lenN bufs) :: map lenN bufs ++ 0 :: lenN (concat bufs) :: concat bufs
                    ++ lenN frame :: frame) = [1].
Proof.
  cbv zeta. unfold net_monitor. cbn [N.eqb Pos.eqb]. apply nb2n_one_rev. rewrite mon_tx_line.
  apply tx_monitor_accepts_model.
Qed.

Lemma skipn_repeat_app {A} (x : A) n (l : list A) : skipn n (repeat x n ++ l) = l.
Proof. induction n as [|n IH]; [reflexivity|]. cbn [repeat app skipn]. exact IH. Qed.

(* kind 1650, raw transmit_begin: the caller's buffer after fill_buffer_header (C16_fill_buffer_header), handed to the queue
   as ONE readable descriptor (C16_transmit_begin); the frame is what follows the header in that buffer *)
Theorem mon1650_holds_of_model_raw neg s buf h buf' :
  n_legacy s = legacy_header neg ->
  fill_buffer_header s buf = (Ok h, buf') ->
  net_monitor 1650 (neg :: 1 :: [lenN buf'] ++ 0 :: lenN buf' :: buf'
                    ++ lenN (skipn (N.to_nat h) buf') :: skipn (N.to_nat h) buf') = [1].
Proof.
  intros Hleg Hf.
  destruct (fill_buffer_header_spec s buf) as [F1 F2]. cbv zeta in F1, F2.
  destruct (N.lt_ge_cases (lenN buf) (hdr_size (n_legacy s))) as [Hlt|Hge].
  { rewrite (F1 Hlt) in Hf. discriminate Hf. }
  destruct (F2 Hge) as [E Hlen]. rewrite E in Hlen. cbn [snd] in Hlen. rewrite E in Hf. inversion Hf; subst h buf'. clear Hf.
  set (hs := hdr_size (n_legacy s)) in *.
  assert (Hhs : hs = spec_hdr_len neg) by (unfold hs; rewrite Hleg; apply hdr_size_is_spec).
  rewrite skipn_repeat_app.
  change 1 with (lenN [lenN (repeat 0 (N.to_nat hs) ++ skipn (N.to_nat hs) buf)]).
  apply mon1650_line_iff. split; [reflexivity|]. split.
  - intros l [<-|[]]. assert (10 <= hs) by (unfold hs; destruct (n_legacy s); cbn [hdr_size]; lia). lia.
  - split; [cbn [fold_right]; lia|]. rewrite <- hdr_len_nat, <- Hhs. reflexivity.
Qed.

(* ------------------------------------------------------------------------------------------------ *)
(* kind 1651 *)
Lemma mon_rx_accepts_packet neg used written rest pl p :
  spec_hdr_len neg <= used -> pl = used - spec_hdr_len neg -> lenN written = used ->
  rx_packet (legacy_header neg) (written ++ rest) pl = Ok p ->
  mon_rx (neg :: used :: spec_hdr_len neg :: pl :: lenN written :: written ++ lenN p :: p) = true.
Proof.
  intros Hh -> Hw Hp. rewrite mon_rx_line. apply spec_rx_ok_b_iff.
  split; [exact Hh|]. split; [lia|]. split; [reflexivity|]. split; [reflexivity|].
  unfold rx_packet in Hp. rewrite hdr_size_is_spec in Hp. set (h := spec_hdr_len neg) in *.
  destruct (N.ltb_spec (lenN (written ++ rest)) (h + (used - h))) as [|Hfit]; [discriminate Hp|]. injection Hp as <-.
  rewrite lenN_app in *. rewrite N.min_l by lia.
  rewrite skipn_app. replace (N.to_nat h - length written)%nat with 0%nat by (unfold lenN in *; lia). cbn [skipn].
  rewrite firstn_app.
  replace (N.to_nat (used - h) - length (skipn (N.to_nat h) written))%nat with 0%nat
    by (rewrite skipn_length; unfold lenN in *; lia).
  cbn [firstn]. apply app_nil_r.
Qed.

Lemma pop_used_ok_inv s token ins outs ui uid ulen len s' evs :
  pop_used s token ins outs ui uid ulen = (Ok len, s', evs) -> len = w32 ulen.
Proof.
  unfold pop_used. destruct (negb (can_pop s ui)); [intros X; discriminate X|].
  destruct (negb (w16 uid =? token)); [intros X; discriminate X|].
  destruct (recycle s (w16 uid) (tag_bufs ins outs)) as [[o s1] e]. destruct o; try (intros X; discriminate X).
  destruct (q_event_idx s1); intros H; inversion H; reflexivity.
Qed.

Lemma receive_complete_ok_inv s token b ui uid ulen hl pl s' evs :
  receive_complete s token b ui uid ulen = (Ok (hl, pl), s', evs) ->
  hl = hdr_size (n_legacy s) /\ hl <= w32 ulen /\ pl = w32 ulen - hl.
Proof.
  unfold receive_complete. destruct (pop_used (n_rx s) token [] [b] ui uid ulen) as [[o q1] e] eqn:E.
  destruct o as [len|?| |]; try (intros X; discriminate X).
  apply pop_used_ok_inv in E. subst len.
  destruct (N.ltb_spec (w32 ulen) (hdr_size (n_legacy s))); intros X; [discriminate X|]. inversion X; subst. auto.
Qed.

(* kind 1651, raw receive_complete (in ANY state: the result alone fixes the numbers), device conforming to 5.1.6.4: it wrote
   `written` into the buffer and reports its length; `rest` is what the buffer held behind that; the packet is what
   RxBuffer::packet / the caller's slice [hl .. hl + pl] yields (rx_packet) *)
Theorem mon1651_holds_of_model neg s token b ui uid ulen hl pl s' evs written rest p :
  n_legacy s = legacy_header neg ->
  receive_complete s token b ui uid ulen = (Ok (hl, pl), s', evs) ->
  lenN written = w32 ulen ->
  rx_packet (n_legacy s) (written ++ rest) pl = Ok p ->
  net_monitor 1651 (neg :: w32 ulen :: hl :: pl :: lenN written :: written ++ lenN p :: p) = [1].
Proof.
  intros Hleg Hrc Hw Hp. destruct (receive_complete_ok_inv _ _ _ _ _ _ _ _ _ _ Hrc) as (-> & Hle & ->).
  rewrite Hleg in *. rewrite hdr_size_is_spec in *.
  unfold net_monitor. cbn [N.eqb Pos.eqb]. apply nb2n_one_rev. now apply (mon_rx_accepts_packet neg (w32 ulen) written rest).
Qed.

(* kind 1651, VirtIONet::receive in every state of every history (NetInv, C16_ownership), same device hypothesis; the header
   length reported is the offset of RxBuffer::packet = hdr_size *)
Theorem mon1651_holds_of_model_vnet neg L v owned ui uid ulen b v' evs written rest p :
  NetInv L v owned -> n_legacy (v_raw v) = legacy_header neg ->
  vnet_receive v ui uid ulen = (Ok b, v', evs) ->
  lenN written = w32 ulen ->
  rx_packet (n_legacy (v_raw v)) (written ++ rest) (rb_plen b) = Ok p ->
  net_monitor 1651 (neg :: w32 ulen :: hdr_size (n_legacy (v_raw v)) :: rb_plen b :: lenN written :: written
                    ++ lenN p :: p) = [1].
Proof.
  intros HN Hleg Hrun Hw Hp.
  destruct (vnet_receive_cases L v owned ui uid ulen _ v' evs HN Hrun) as [(_ & Hle & _ & Hpl & _) _]. cbv zeta in *.
  rewrite Hleg in *. rewrite hdr_size_is_spec in *.
  unfold net_monitor. cbn [N.eqb Pos.eqb]. apply nb2n_one_rev.
  apply (mon_rx_accepts_packet neg (w32 ulen) written rest); [exact Hle|lia|exact Hw|exact Hp].
Qed.

(* ------------------------------------------------------------------------------------------------ *)
(* kind 1652: in every state of every history of the buffer-managing driver (NetInv = C16_ownership), whichever way the device
   has split the buffers sitting in the driver's slots (all of them posted, C16_exactly_one_place) into "not yet completed"
   and "completed, not yet received", the line of identities passes *)
Theorem mon1652_holds_of_model L v owned posted pending :
  NetInv L v owned ->
  Permutation (posted ++ pending) (map rb_id (slot_bufs (v_slots v))) ->
  net_monitor 1652 (q_size (n_rx (v_raw v)) :: lenN posted :: posted ++ lenN pending :: pending
                    ++ lenN (map rb_id owned) :: map rb_id owned) = [1].
Proof.
  intros HN Hp. apply mon1652_line_iff.
  destruct (netinv_exactly_one_place L v owned HN) as (Hnd & Hin & _).
  assert (P : Permutation (posted ++ pending ++ map rb_id owned) (map rb_id (owned ++ slot_bufs (v_slots v)))).
  { rewrite map_app, app_assoc. eapply perm_trans; [apply Permutation_app_tail; exact Hp|]. apply Permutation_app_comm. }
  split.
  - eapply Permutation_NoDup; [apply Permutation_sym; exact P|exact Hnd].
  - intros i. rewrite Hin. split; intros X.
    + eapply Permutation_in; [apply Permutation_sym; exact P|exact X].
    + eapply Permutation_in; [exact P|exact X].
Qed.

(* ------------------------------------------------------------------------------------------------ *)
(* kind 1653: the raw driver in every state whose two queues are reachable under the queue contract; `consumed` is the
   driver's own used-ring cursor, `in flight` the descriptors of the outstanding transmit chains *)
Theorem mon1653_holds_of_model s crx hrx ctx htx ui uid :
  Reach (n_rx s) crx hrx -> Reach (n_tx s) ctx htx ->
  net_monitor 1653 [b2n (match poll_receive s ui uid with Some _ => true | None => false end); ui; q_last_used (n_rx s);
                    b2n (raw_can_send s); q_size (n_tx s); lenN (all_idxs ctx); b2n (q_indirect (n_tx s))] = [1].
Proof.
  intros HRr HRt. unfold net_monitor. cbn [N.eqb Pos.eqb]. apply nb2n_one_rev. unfold mon_ready. rewrite !n2b_b2n.
  destruct (can_send_spec s ctx htx HRt) as (Hcs & _). rewrite <- Hcs, (eqb_reflx (raw_can_send s)), andb_true_r.
  apply eqb_true_iff. unfold poll_receive, peek_used, can_pop, spec_can_recv.
  destruct (Reach_Inv _ _ _ HRr) as [[fl HI] _]. destruct HI as (_&_&_&_&_&_&_&_&_&_&_&_&_&Hlu&_).
  assert (W : w16 (q_last_used (n_rx s)) = q_last_used (n_rx s)) by (unfold w16; apply N.mod_small; exact Hlu).
  rewrite W, (N.eqb_sym (w16 ui)). destruct (q_last_used (n_rx s) =? w16 ui); reflexivity.
Qed.

(* the buffer-managing driver: can_recv / can_send in every state of every history *)
Theorem mon1653_holds_of_model_vnet L v owned ctx htx ui :
  NetInv L v owned -> Reach (n_tx (v_raw v)) ctx htx ->
  net_monitor 1653 [b2n (vnet_can_recv v ui); ui; q_last_used (n_rx (v_raw v));
                    b2n (vnet_can_send v); q_size (n_tx (v_raw v)); lenN (all_idxs ctx);
                    b2n (q_indirect (n_tx (v_raw v)))] = [1].
Proof.
  intros (chains & h & HR & _) HRt. exact (mon1653_holds_of_model (v_raw v) chains h ctx htx ui 0 HR HRt).
Qed.

(* ------------------------------------------------------------------------------------------------ *)
(* kind 1654: recycling a buffer the caller holds, in every state of every history (C16_recycle) *)
Theorem mon1654_holds_of_model L v owned1 b owned2 addr ae uf o v' evs :
  NetInv L v (owned1 ++ b :: owned2) -> vnet_recycle v b addr ae uf = (o, v', evs) ->
  net_monitor 1654 (enc_unit_outcome o) = [1].
Proof.
  intros HN Hr. destruct (vnet_recycle_ok L v owned1 b owned2 addr ae uf HN) as (v1 & e1 & E & _).
  rewrite E in Hr. inversion Hr; subst. reflexivity.
Qed.

(* ------------------------------------------------------------------------------------------------ *)
(* kind 1655: the header size the model selects, for every negotiated word; as returned by fill_buffer_header and by
   receive_complete *)
Theorem mon1655_holds_of_model neg : net_monitor 1655 [neg; hdr_size (legacy_header neg)] = [1].
Proof.
  apply mon1655_meaning. exists neg, (hdr_size (legacy_header neg)). split; [reflexivity|].
  rewrite hdr_size_is_spec. apply hdr_len_plain.
Qed.

Theorem mon1655_holds_of_model_fill neg s buf h buf' :
  n_legacy s = legacy_header neg -> fill_buffer_header s buf = (Ok h, buf') -> net_monitor 1655 [neg; h] = [1].
Proof.
  intros Hleg Hf. unfold fill_buffer_header in Hf.
  destruct (lenN buf <? hdr_size (n_legacy s)); inversion Hf; subst. rewrite Hleg. apply mon1655_holds_of_model.
Qed.

Theorem mon1655_holds_of_model_rx neg s token b ui uid ulen hl pl s' evs :
  n_legacy s = legacy_header neg -> receive_complete s token b ui uid ulen = (Ok (hl, pl), s', evs) ->
  net_monitor 1655 [neg; hl] = [1].
Proof.
  intros Hleg Hrc. destruct (receive_complete_ok_inv _ _ _ _ _ _ _ _ _ _ Hrc) as (-> & _). rewrite Hleg.
  apply mon1655_holds_of_model.
Qed.

(* ------------------------------------------------------------------------------------------------ *)
(* kind 1656: VirtIONet::receive in every state of every history, device conforming: when it has published a completion, the
   used element names a buffer that is posted (identity ide) and a length of at least a header *)
Theorem mon1656_holds_of_model L v owned ui uid ulen o v' evs ide :
  NetInv L v owned -> vnet_receive v ui uid ulen = (o, v', evs) ->
  (q_last_used (n_rx (v_raw v)) <> w16 ui ->
     hdr_size (n_legacy (v_raw v)) <= w32 ulen
     /\ exists b0, nthN_error (v_slots v) (w16 uid) = Some (Some b0) /\ rb_id b0 = ide) ->
  net_monitor 1656 [b2n (negb (q_last_used (n_rx (v_raw v)) =? w16 ui)); oclass o; ocode o;
                    match o with Ok b => rb_id b | _ => 0 end; ide] = [1].
Proof.
  intros HN Hrun Hconf. apply mon1656_meaning.
  eexists _, _, _, _, _. split; [reflexivity|].
  destruct (N.eqb_spec (q_last_used (n_rx (v_raw v))) (w16 ui)) as [E|E]; cbn [negb b2n].
  - split; [intros X; now elim X|]. intros _.
    unfold vnet_receive, poll_receive, peek_used, can_pop in Hrun. rewrite E, N.eqb_refl in Hrun. cbn [negb] in Hrun.
    inversion Hrun; subst. split; reflexivity.
  - split; [|discriminate]. intros _.
    destruct (Hconf E) as (Hlen & b0 & Hslot & Hid).
    destruct (vnet_receive_cases L v owned ui uid ulen o v' evs HN Hrun) as [Hc _]. cbv zeta in Hc.
    destruct o as [b|e| |]; cbn [oclass].
    + split; [reflexivity|]. destruct Hc as (_ & _ & (b1 & Hs1 & ->) & _). rewrite Hslot in Hs1. injection Hs1 as <-.
      exact Hid.
    + exfalso. destruct Hc as [(_ & X & _)|[(_ & _ & X & _)|(_ & _ & X)]]; [contradiction|congruence|lia].
    + exfalso. destruct Hc as [_ X]. destruct HN as (chains & h & _ & (_ & Hl & _) & _). cbv zeta in Hl.
      apply nthN_some_lt in Hslot. lia.
    + contradiction.
Qed.

(* ------------------------------------------------------------------------------------------------ *)
(* kind 1657: raw receive_complete / transmit_complete with the token of an outstanding chain and its own buffer (the caller
   contract of the raw interface), in every reachable queue state, for every used-ring view; receive side: device lengths of at
   least a header (a shorter one makes receive_complete return IoError although the token was the right one) *)
Theorem mon1657_holds_of_model_rx s pre c post h b ui uid ulen o s' evs :
  Reach (n_rx s) (pre ++ c :: post) h -> keys (tag_bufs [] [b]) = keys (c_bufs c) ->
  receive_complete s (c_head c) b ui uid ulen = (o, s', evs) ->
  hdr_size (n_legacy s) <= w32 ulen ->
  net_monitor 1657 [b2n (negb (q_last_used (n_rx s) =? w16 ui) && (w16 uid =? c_head c)); oclass o] = [1].
Proof.
  intros HR Hk Hrun Hlen.
  destruct (receive_complete_spec s pre c post h b ui uid ulen o s' evs HR Hk Hrun) as (_ & _ & Hc). cbv zeta in Hc.
  destruct (N.eqb_spec (q_last_used (n_rx s)) (w16 ui)) as [E1|E1]; cbn [negb andb];
    [|destruct (N.eqb_spec (w16 uid) (c_head c)) as [E2|E2]]; cbn [b2n];
    destruct Hc as [(X1 & -> & _)|[(X1 & X2 & -> & _)|(X1 & X2 & _ & _ & [(X3 & ->)|(X3 & ->)])]];
    try contradiction; try reflexivity; lia.
Qed.

Theorem mon1657_holds_of_model_tx s pre c post h b ui uid ulen o s' evs :
  Reach (n_tx s) (pre ++ c :: post) h -> keys (tag_bufs [b] []) = keys (c_bufs c) ->
  transmit_complete s (c_head c) b ui uid ulen = (o, s', evs) ->
  net_monitor 1657 [b2n (negb (q_last_used (n_tx s) =? w16 ui) && (w16 uid =? c_head c)); oclass o] = [1].
Proof.
  intros HR Hk Hrun. unfold transmit_complete in Hrun.
  destruct (pop_refines _ pre c post h [b] [] ui uid ulen HR Hk) as (P1 & P2 & P3).
  destruct (N.eqb_spec (q_last_used (n_tx s)) (w16 ui)) as [E1|E1]; cbn [negb andb].
  - destruct (P1 E1) as [Hp _]. rewrite Hp in Hrun. inversion Hrun; subst. reflexivity.
  - destruct (N.eqb_spec (w16 uid) (c_head c)) as [E2|E2].
    + destruct (P3 E1 E2) as (q1 & e1 & Hp & _). rewrite Hp in Hrun. inversion Hrun; subst. reflexivity.
    + destruct (P2 E1 E2) as [Hp _]. rewrite Hp in Hrun. inversion Hrun; subst. reflexivity.
Qed.

(* ------------------------------------------------------------------------------------------------ *)
(* kind 1658: negotiation, for EVERY 64-bit (indeed every) feature word the device offers *)
Theorem mon1658_holds_of_model devf : net_monitor 1658 [devf; net_negotiate devf] = [1].
Proof.
  apply mon1658_meaning. exists devf, (net_negotiate devf). split; [reflexivity|]. split.
  - intros i Hi. rewrite negotiate_bit in Hi. now apply andb_prop in Hi.
  - destruct (hdr_size_negotiated devf) as [A _]. exact A.
Qed.

(* ================================================================================================ *)
(* C. AUDIT WITNESSES: where a monitor says more, or less, than the text of C16                        *)

(* 1650 does NOT constrain the number of descriptors or where the chain is cut: a 10-byte header and the frame 7 8 9 spread
   over three elements of 4 + 6 + 3 bytes pass ... *)
Example mon1650_accepts_any_cut :
  net_monitor 1650 [0; 3; 4; 6; 3; 0; 13; 0; 0; 0; 0; 0; 0; 0; 0; 0; 0; 7; 8; 9; 3; 7; 8; 9] = [1].
Proof. vm_compute. reflexivity. Qed.

(* ... but it demands MORE than the text in one respect: an element of length 0 is refused (VirtIO 2.7.4; QEMU stops on a
   zero-sized buffer), although the device still reads "a zeroed header followed by exactly the caller's bytes": the empty
   frame sent as header + empty second element is rejected, sent as the header alone it passes *)
Example mon1650_rejects_zero_length_element :
  net_monitor 1650 [0; 2; 10; 0; 0; 10; 0; 0; 0; 0; 0; 0; 0; 0; 0; 0; 0] = [0]
  /\ net_monitor 1650 [0; 1; 10; 0; 10; 0; 0; 0; 0; 0; 0; 0; 0; 0; 0; 0] = [1].
Proof. split; vm_compute; reflexivity. Qed.

(* 1651 with a used length below the header size: no line whatsoever is accepted (the driver must not answer Ok) *)
Theorem mon1651_rejects_short_completion neg used_len hdr_ret plen_ret written packet :
  used_len < (if N.testbit neg 32 || N.testbit neg 15 then 12 else 10) ->
  net_monitor 1651 (neg :: used_len :: hdr_ret :: plen_ret :: lenN written :: written ++ lenN packet :: packet) <> [1].
Proof. intros Hs H. apply mon1651_line_iff in H. cbv zeta in H. destruct H as (H & _). lia. Qed.

(* 1651 also refuses a line on which the device reports more bytes than it wrote (used 14, 13 written): on such a device "the
   bytes the device wrote" and "used length minus header" cannot both be met; the harness never writes the line then *)
Example mon1651_rejects_overreporting_device :
  net_monitor 1651 [0; 14; 10; 4; 13; 1; 1; 1; 1; 1; 1; 1; 1; 1; 1; 7; 8; 9; 3; 7; 8; 9] = [0]
  /\ net_monitor 1651 [0; 13; 10; 3; 13; 1; 1; 1; 1; 1; 1; 1; 1; 1; 1; 7; 8; 9; 3; 7; 8; 9] = [1].
Proof. split; vm_compute; reflexivity. Qed.

(* 1653: the can_send threshold is "a TWO-buffer chain fits".  On a direct queue of 4 with 3 descriptors in flight the answer
   must be false (an empty frame, sent as the header alone, would still fit); on an indirect queue one free descriptor is
   enough but a queue of a single entry must answer false; the used index is compared modulo 2^16 *)
Example mon1653_thresholds :
  net_monitor 1653 [0; 0; 0; 1; 4; 3; 0] = [0] /\ net_monitor 1653 [0; 0; 0; 0; 4; 3; 0] = [1]
  /\ net_monitor 1653 [0; 0; 0; 1; 4; 3; 1] = [1]
  /\ net_monitor 1653 [0; 0; 0; 1; 1; 0; 1] = [0] /\ net_monitor 1653 [0; 0; 0; 0; 1; 0; 1] = [1]
  /\ net_monitor 1653 [0; 65536; 0; 1; 4; 0; 0] = [1] /\ net_monitor 1653 [1; 65536; 0; 1; 4; 0; 0] = [0].
Proof. repeat split; vm_compute; reflexivity. Qed.

(* 1654 does not look at the code (harmless: with class 0 there is none) *)
Example mon1654_ignores_code : net_monitor 1654 [0; 5] = [1] /\ net_monitor 1654 [1; 3] = [0].
Proof. split; vm_compute; reflexivity. Qed.

(* 1656 insists on ONE error code when nothing is pending: NotReady (2) passes, any other error (here WrongToken, 3) is
   flagged, although C16 does not name the error; with a completion pending the code is not looked at (harmless) *)
Example mon1656_insists_on_not_ready :
  net_monitor 1656 [0; 1; 2; 0; 0] = [1] /\ net_monitor 1656 [0; 1; 3; 0; 0] = [0] /\ net_monitor 1656 [1; 0; 99; 5; 5] = [1].
Proof. repeat split; vm_compute; reflexivity. Qed.

(* 1657 demands LESS than "anything else is refused": with the wrong token (or nothing pending) a PANIC (class 2), and even the
   class the harness uses for a dead process (3), count as a refusal *)
Example mon1657_accepts_panic_as_refusal :
  net_monitor 1657 [0; 1] = [1] /\ net_monitor 1657 [0; 2] = [1] /\ net_monitor 1657 [0; 3] = [1] /\ net_monitor 1657 [0; 0] = [0].
Proof. repeat split; vm_compute; reflexivity. Qed.

(* 1658 demands MORE than the text of C16 (which speaks of "the negotiated features" without restricting them): a driver that
   accepts an offered MRG_RXBUF is flagged, as is one that accepts a bit the device did not offer (that is C08's matter) *)
Example mon1658_rejects_mrg_rxbuf :
  net_monitor 1658 [2 ^ 32 + 2 ^ 15; 2 ^ 32 + 2 ^ 15] = [0] /\ net_monitor 1658 [2 ^ 32 + 2 ^ 15; 2 ^ 32] = [1]
  /\ net_monitor 1658 [2 ^ 32; 2 ^ 32 + 2 ^ 5] = [0].
Proof. repeat split; vm_compute; reflexivity. Qed.

(* net_is_monitor claims one kind more than net_monitor defines *)
Example kind_1659_has_no_definition : net_is_monitor 1659 = true /\ forall ins, net_monitor 1659 ins = [77777].
Proof. split; reflexivity. Qed.
