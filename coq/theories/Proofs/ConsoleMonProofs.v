(* What the console monitors of Extract/ConsoleIO.v (kinds 1550 .. 1560, `mon_step`) MEAN, and that they hold of the model.
   The monitors are stateful: the state is (m_q, m_posted) = (bytes the device wrote that the caller has not been given yet,
   a receive buffer is visible to the device and not yet filled).
     A. meaning: (1) over ANY sequence of lines whose verdicts are all true, bytes written by the device = bytes taken by the
        caller ++ m_q (so m_q IS "written and not yet handed over"), each taking line taking the NEXT bytes of the stream:
        nothing lost, duplicated or reordered; (2) per kind, what a true verdict states in a given monitor state;
     B. completeness (partial, see the end of the file): the lines written from the model's own behaviour
        (Model/ConsoleSpec.v sys_step over every history) are accepted - from ConsoleProofs.step_ok / calls_exact /
        one_buffer / recv_reposts. *)
From VD Require Import Base.Words Base.ListUpd Model.Queue Model.Console Model.ConsoleSpec
  Proofs.QueueInv Proofs.QueueReach Proofs.QueueProps Proofs.ConsoleProofs Extract.QueueIO Extract.ConsoleIO.
From Coq Require Import ZArith Lia ZifyBool ZifyN ZifyNat.
Ltac Zify.zify_post_hook ::= Z.div_mod_to_equations.

(* ------------------------------------------------------------------------------------------------ *)
(* helpers of the monitor, read as statements                                                        *)
Lemma prefix_b_iff : forall a b, prefix_b a b = true <-> exists rest, b = a ++ rest.
Proof.
  induction a as [|x a IH]; intros b; cbn [prefix_b].
  - split; [intros _; now exists b|reflexivity].
  - destruct b as [|y b]; [split; [discriminate|intros (r & H); discriminate H]|].
    rewrite andb_true_iff, N.eqb_eq, IH. split.
    + intros (-> & r & ->). now exists r.
    + intros (r & H). inversion H; subst. split; [reflexivity|now exists r].
Qed.
Lemma eq_b_iff : forall a b, eq_b a b = true <-> a = b.
Proof.
  induction a as [|x a IH]; intros [|y b]; cbn [eq_b]; split; intros H; try reflexivity; try discriminate.
  - apply andb_prop in H. destruct H as [H1 H2]. apply N.eqb_eq in H1. apply IH in H2. now subst.
  - inversion H; subst. rewrite N.eqb_refl. cbn [andb]. now apply IH.
Qed.
Lemma is_nil_iff (l : list N) : is_nil l = true <-> l = [].
Proof. destruct l; cbn; split; intros H; try reflexivity; discriminate. Qed.
Lemma skipn_app_len {A} (a b : list A) : skipn (length a) (a ++ b) = b.
Proof. induction a as [|x a IH]; [reflexivity|exact IH]. Qed.

(* ------------------------------------------------------------------------------------------------ *)
(* A.1 the stream                                                                                    *)
(* what a line adds to / takes from the stream, given the monitor state it meets:
     1551 ins           the device wrote the chunk `ins`
     1552 (c :: bs)     the API handed `bs` to the caller, consuming them iff c <> 0 (recv(pop), read) or not (recv(peek))
     1553 [amt]         consume(amt) returned: the next amt unread bytes are taken *)
Definition line_writes (k : N) (ins : list N) : list N := if k =? 1551 then ins else [].
Definition line_takes (mo : cmon) (k : N) (ins : list N) : list N :=
  if k =? 1552 then match ins with c :: bs => if n2b c then bs else [] | [] => [] end
  else if k =? 1553 then match ins with [amt] => firstn (cnt amt (m_q mo)) (m_q mo) | _ => [] end
  else [].

(* one accepted line: unread ++ written-by-this-line = taken-by-this-line ++ unread afterwards *)
Lemma mon_step_stream mo k ins mo' :
  mon_step mo k ins = (mo', true) -> m_q mo ++ line_writes k ins = line_takes mo k ins ++ m_q mo'.
Proof.
  unfold mon_step, line_writes, line_takes.
  destruct (k =? 1550) eqn:E0.
  { apply N.eqb_eq in E0. subst k. cbn [N.eqb Pos.eqb]. destruct ins as [|a [|b [|c r]]]; intros H; inversion H; subst; cbn [m_q]; now rewrite app_nil_r. }
  destruct (k =? 1551) eqn:E1.
  { apply N.eqb_eq in E1. subst k. cbn [N.eqb Pos.eqb]. intros H. inversion H; subst. reflexivity. }
  destruct (k =? 1552) eqn:E2.
  { destruct ins as [|c bs]; [intros H; discriminate H|]. intros H. inversion H as [[Hm Hv]]. clear H.
    apply andb_prop in Hv. destruct Hv as [Hp _]. apply prefix_b_iff in Hp. destruct Hp as (rest & Hq).
    destruct (n2b c); cbn [m_q]; rewrite app_nil_r; [|reflexivity]. rewrite Hq at 2. now rewrite skipn_app_len. }
  destruct (k =? 1553) eqn:E3.
  { destruct ins as [|amt [|x r]]; intros H; try discriminate H. inversion H; subst. cbn [m_q].
    rewrite app_nil_r. symmetry. apply firstn_skipn. }
  destruct (k =? 1554); [intros H; inversion H; subst; now rewrite app_nil_r|].
  destruct (k =? 1555); [destruct ins as [|f [|x r]]; intros H; inversion H; subst; now rewrite app_nil_r|].
  destruct (k =? 1556).
  { destruct ins as [|n rest]; [intros H; discriminate H|]. destruct (take n rest) as [a r1].
    destruct r1 as [|m rest2]; [intros H; discriminate H|]. destruct (take m rest2) as [b r2].
    intros H; inversion H; subst; now rewrite app_nil_r. }
  destruct (k =? 1557); [destruct ins as [|a [|b [|c r]]]; intros H; inversion H; subst; now rewrite app_nil_r|].
  destruct (k =? 1558); [destruct ins as [|a [|b [|c r]]]; intros H; inversion H; subst; now rewrite app_nil_r|].
  destruct (k =? 1559); [destruct ins as [|a [|b [|c r]]]; intros H; inversion H; subst; now rewrite app_nil_r|].
  destruct (k =? 1560); [destruct ins as [|a [|b [|c r]]]; intros H; inversion H; subst; now rewrite app_nil_r|].
  intros H; discriminate H.
Qed.

(* a run of lines from a monitor state; `mon_run` returns the final state, whether every verdict was true, everything the
   device wrote and everything the caller took *)
Fixpoint mon_run (mo : cmon) (ls : list (N * list N)) : cmon * bool * list N * list N :=
  match ls with
  | [] => (mo, true, [], [])
  | (k, ins) :: t =>
      let '(mo1, b) := mon_step mo k ins in
      let '(mo2, b2, w, tk) := mon_run mo1 t in
      (mo2, b && b2, line_writes k ins ++ w, line_takes mo k ins ++ tk)
  end.

(* THE STREAM: for ANY list of lines, if every verdict is true then
       (what the device had written and the caller not taken before) ++ written = taken ++ (the same afterwards);
   from the start of a scenario (mon_init): written = taken ++ m_q.  Every taking line takes a PREFIX of what is unread at
   that moment, so the bytes taken, in the order taken, are a prefix of the bytes written: none lost, duplicated, reordered *)
Theorem mon_run_stream : forall ls mo mo' w tk,
  mon_run mo ls = (mo', true, w, tk) -> m_q mo ++ w = tk ++ m_q mo'.
Proof.
  induction ls as [|[k ins] t IH]; intros mo mo' w tk H.
  - cbn [mon_run] in H. inversion H; subst. now rewrite app_nil_r.
  - cbn [mon_run] in H. destruct (mon_step mo k ins) as [mo1 b] eqn:E1.
    destruct (mon_run mo1 t) as [[[mo2 b2] w2] tk2] eqn:E2. inversion H; subst. clear H.
    assert (Hb : b = true /\ b2 = true) by (destruct b, b2; auto; discriminate). destruct Hb as [-> ->].
    pose proof (mon_step_stream _ _ _ _ E1) as S1. pose proof (IH _ _ _ _ E2) as S2.
    rewrite app_assoc, S1, <- app_assoc, S2, app_assoc. reflexivity.
Qed.

Theorem mon_run_stream_init ls mo' w tk :
  mon_run mon_init ls = (mo', true, w, tk) -> w = tk ++ m_q mo'.
Proof. intros H. exact (mon_run_stream ls mon_init mo' w tk H). Qed.

(* ------------------------------------------------------------------------------------------------ *)
(* A.2 per kind: a true verdict in monitor state mo                                                   *)
(* 1550: a new receive buffer has become visible to the device: [available index; the device's used index].  It is posted
   only when everything written so far has been handed to the caller and no other buffer is posted and unfilled; the device
   then sees exactly one available buffer *)
Theorem mon1550_meaning mo ai ui mo' :
  mon_step mo 1550 [ai; ui] = (mo', true) ->
  m_q mo = [] /\ m_posted mo = 0 /\ (ai + 65536 - ui mod 65536) mod 65536 = 1
  /\ m_q mo' = m_q mo /\ m_posted mo' = 1.
Proof.
  unfold mon_step. cbn [N.eqb Pos.eqb]. intros H. inversion H as [[Hm Hv]]. clear H.
  apply andb_prop in Hv. destruct Hv as [Hv H3]. apply andb_prop in Hv. destruct Hv as [H1 H2].
  apply is_nil_iff in H1. apply N.eqb_eq in H2. apply N.eqb_eq in H3. unfold sub16, w16, two16 in H3. auto.
Qed.

(* 1551: the reference device wrote a chunk: only into a posted buffer, 1 .. 4096 bytes *)
Theorem mon1551_meaning mo chunk mo' :
  mon_step mo 1551 chunk = (mo', true) ->
  m_posted mo = 1 /\ 1 <= lenN chunk <= 4096 /\ m_q mo' = m_q mo ++ chunk /\ m_posted mo' = 0.
Proof.
  unfold mon_step. cbn [N.eqb Pos.eqb]. intros H. inversion H as [[Hm Hv]]. clear H.
  apply andb_prop in Hv. destruct Hv as [Hv H3]. apply andb_prop in Hv. destruct Hv as [H1 H2].
  apply N.eqb_eq in H1. unfold PAGE in H3. cbn [m_q m_posted]. repeat split; auto; lia.
Qed.

(* 1552: the API handed bytes to the caller: at least one, and they are the NEXT bytes of the stream *)
Theorem mon1552_meaning mo c bs mo' :
  mon_step mo 1552 (c :: bs) = (mo', true) ->
  bs <> [] /\ exists rest, m_q mo = bs ++ rest /\ m_q mo' = (if c =? 0 then m_q mo else rest) /\ m_posted mo' = m_posted mo.
Proof.
  unfold mon_step. cbn [N.eqb Pos.eqb]. intros H. inversion H as [[Hm Hv]]. clear H.
  apply andb_prop in Hv. destruct Hv as [H1 H2]. apply prefix_b_iff in H1. destruct H1 as (rest & Hq).
  split; [intro E; rewrite E in H2; cbn in H2; discriminate H2|]. exists rest. split; [exact Hq|].
  unfold n2b. destruct (c =? 0); cbn [negb m_q m_posted]; [auto|]. split; [|reflexivity]. rewrite Hq. apply skipn_app_len.
Qed.

(* 1553: consume(amt) returned normally: amt does not exceed what is unread, exactly amt bytes are skipped *)
Theorem mon1553_meaning mo amt mo' :
  mon_step mo 1553 [amt] = (mo', true) ->
  amt <= lenN (m_q mo) /\ m_q mo = firstn (N.to_nat amt) (m_q mo) ++ m_q mo' /\ m_posted mo' = m_posted mo.
Proof.
  unfold mon_step. cbn [N.eqb Pos.eqb]. intros H. inversion H as [[Hm Hv]]. clear H. apply N.leb_le in Hv.
  split; [exact Hv|]. cbn [m_q m_posted]. unfold cnt. rewrite N.min_l by exact Hv. split; [|reflexivity].
  symmetry. apply firstn_skipn.
Qed.

(* 1554: fill_buf returned exactly the unread bytes, and at least one *)
Theorem mon1554_meaning mo bs mo' :
  mon_step mo 1554 bs = (mo', true) -> bs = m_q mo /\ bs <> [] /\ mo' = mo.
Proof.
  unfold mon_step. cbn [N.eqb Pos.eqb]. intros H. inversion H as [[Hm Hv]]. clear H.
  apply andb_prop in Hv. destruct Hv as [H1 H2]. apply eq_b_iff in H1. split; [exact H1|]. split; [|reflexivity].
  intro E; rewrite E in H2; cbn in H2; discriminate H2.
Qed.

(* 1555: recv / read_ready reported data available exactly when something is unread *)
Theorem mon1555_meaning mo flag mo' :
  mon_step mo 1555 [flag] = (mo', true) -> (flag <> 0 <-> m_q mo <> []) /\ mo' = mo.
Proof.
  unfold mon_step. cbn [N.eqb Pos.eqb]. intros H. inversion H as [[Hm Hv]]. clear H. split; [|reflexivity].
  unfold n2b in Hv. destruct (N.eqb_spec flag 0) as [E|E]; cbn [negb] in Hv.
  - apply is_nil_iff in Hv. split; [intros; contradiction|]. intros Hq. now elim Hq.
  - apply negb_true_iff in Hv. split; [|auto]. intros _ Hq. rewrite Hq in Hv. discriminate Hv.
Qed.

(* 1556: a send that returned Ok: [n; the caller's n bytes; m; the m bytes the device read from the published chain;
   elements of the chain; writable elements]: the device read exactly the caller's bytes, from one readable element *)
Lemma take_app (a r : list N) : take (lenN a) (a ++ r) = (a, r).
Proof.
  unfold take, cnt. rewrite N.min_l by (rewrite lenN_app; lia). unfold lenN. rewrite Nat2N.id.
  rewrite firstn_app, Nat.sub_diag, firstn_all. cbn [firstn]. rewrite app_nil_r. now rewrite skipn_app_len.
Qed.
Theorem mon1556_meaning mo a b nel nw mo' :
  mon_step mo 1556 (lenN a :: a ++ lenN b :: b ++ [nel; nw]) = (mo', true) ->
  b = a /\ a <> [] /\ nel = 1 /\ nw = 0 /\ mo' = mo.
Proof.
  unfold mon_step. cbn [N.eqb Pos.eqb]. rewrite take_app, take_app. intros H. inversion H as [[Hm Hv]]. clear H.
  apply andb_prop in Hv. destruct Hv as [Hv H6]. apply andb_prop in Hv. destruct Hv as [Hv H5].
  apply andb_prop in Hv. destruct Hv as [Hv H4]. apply andb_prop in Hv. destruct Hv as [Hv _].
  apply andb_prop in Hv. destruct Hv as [H1 _]. apply eq_b_iff in H1.
  apply N.eqb_eq in H4. apply N.eqb_eq in H5. apply negb_true_iff in H6. apply N.eqb_neq in H6.
  repeat split; auto. intro E. apply H6. rewrite E. reflexivity.
Qed.
(* every accepted 1556 list has that layout *)
Theorem mon1556_decodes mo ins mo' : mon_step mo 1556 ins = (mo', true) ->
  exists a b, ins = lenN a :: a ++ lenN b :: b ++ [1; 0].
Proof.
  unfold mon_step. cbn [N.eqb Pos.eqb]. destruct ins as [|n rest]; [intros H; discriminate H|].
  unfold take. set (a := firstn (cnt n rest) rest). set (r1 := skipn (cnt n rest) rest).
  destruct r1 as [|m rest2] eqn:E1; [intros H; discriminate H|].
  set (b := firstn (cnt m rest2) rest2). set (r2 := skipn (cnt m rest2) rest2).
  destruct r2 as [|nel [|nw [|x r]]] eqn:E2; intros H; inversion H as [[Hm Hv]]; try discriminate Hv. clear H.
  apply andb_prop in Hv. destruct Hv as [Hv H6]. apply andb_prop in Hv. destruct Hv as [Hv H5].
  apply andb_prop in Hv. destruct Hv as [Hv H4]. apply andb_prop in Hv. destruct Hv as [Hv H3].
  apply andb_prop in Hv. destruct Hv as [_ H2].
  apply N.eqb_eq in H2. apply N.eqb_eq in H3. apply N.eqb_eq in H4. apply N.eqb_eq in H5. subst nel nw.
  exists a, b. rewrite H2, H3. f_equal.
  rewrite <- (firstn_skipn (cnt n rest) rest) at 1. fold a. fold r1. rewrite E1. f_equal. f_equal.
  rewrite <- (firstn_skipn (cnt m rest2) rest2) at 1. fold b. fold r2. rewrite E2. reflexivity.
Qed.

(* 1557: at most one receive buffer outstanding: available index - used index (mod 2^16) is 0 or 1 *)
Theorem mon1557_meaning mo ai ui mo' :
  mon_step mo 1557 [ai; ui] = (mo', true) -> (ai + 65536 - ui mod 65536) mod 65536 <= 1 /\ mo' = mo.
Proof.
  unfold mon_step. cbn [N.eqb Pos.eqb]. intros H. inversion H as [[Hm Hv]]. apply N.leb_le in Hv.
  unfold sub16, w16, two16 in Hv. auto.
Qed.

(* 1558 / 1560: a blocking receive whose data the device supplied / a send of a non-empty buffer to a device that serves the
   transmit queue: the call was not found waiting in vain and returned Ok *)
Theorem mon1558_meaning mo k g cl mo' : k = 1558 \/ k = 1560 ->
  mon_step mo k [g; cl] = (mo', true) -> g = 0 /\ cl = 0 /\ mo' = mo.
Proof.
  intros [-> | ->]; unfold mon_step; cbn [N.eqb Pos.eqb]; intros H; inversion H as [[Hm Hv]];
    apply andb_prop in Hv; destruct Hv as [H1 H2]; apply N.eqb_eq in H1; apply N.eqb_eq in H2; auto.
Qed.

(* 1559: after a recv(pop) that handed out a byte: [available index; used index] in device-visible memory: if that was the
   last byte the device had written, exactly one receive buffer is posted; otherwise none *)
Theorem mon1559_meaning mo ai ui mo' :
  mon_step mo 1559 [ai; ui] = (mo', true) ->
  (m_q mo = [] -> (ai + 65536 - ui mod 65536) mod 65536 = 1)
  /\ (m_q mo <> [] -> (ai + 65536 - ui mod 65536) mod 65536 = 0) /\ mo' = mo.
Proof.
  unfold mon_step. cbn [N.eqb Pos.eqb]. intros H. inversion H as [[Hm Hv]]. apply N.eqb_eq in Hv.
  unfold sub16, w16, two16 in Hv. split; [|split; [|reflexivity]].
  - intros E. rewrite E in Hv. exact Hv.
  - intros E. destruct (m_q mo'); [now elim E|]. exact Hv.
Qed.

(* how the kinds reach mon_step, and that no other kind in the monitor range is ever accepted *)
Theorem console_monitor_step st k ins : console_is_monitor k = true ->
  snd (console_step st k ins)
  = [b2n (snd (mon_step (io_mon (match st with Some io => io | None => cio_init end)) k ins))].
Proof.
  intros Hk. unfold console_step. rewrite Hk. destruct (mon_step _ k ins) as [mo b]. reflexivity.
Qed.
Theorem mon_step_unknown_kind mo k ins : k < 1550 \/ 1560 < k -> snd (mon_step mo k ins) = false.
Proof.
  intros Hk. unfold mon_step.
  replace (k =? 1550) with false by lia. replace (k =? 1551) with false by lia. replace (k =? 1552) with false by lia.
  replace (k =? 1553) with false by lia. replace (k =? 1554) with false by lia. replace (k =? 1555) with false by lia.
  replace (k =? 1556) with false by lia. replace (k =? 1557) with false by lia. replace (k =? 1558) with false by lia.
  replace (k =? 1559) with false by lia. replace (k =? 1560) with false by lia. reflexivity.
Qed.

(* ------------------------------------------------------------------------------------------------ *)
(* B. completeness: the lines written from the model's own behaviour                                 *)
(* The model side is the product system of Model/ConsoleSpec.v (driver x abstract device x the two ghost histories) in ANY
   state satisfying the invariant J of ConsoleProofs - hence (console_invariant_at) at every point of every history of
   operations from every start of the ring indices.  The monitor state is tied to it by
       Sim:    bytes handed over ++ m_q = bytes written            (what mon_run_stream maintains on the monitor's side)
       Posted: m_posted = 1  iff  a receive request is outstanding and not yet filled. *)
Definition Sim (s : sys) (mo : cmon) : Prop := s_delivered s ++ m_q mo = s_written s.
Definition Posted (s : sys) (mo : cmon) : Prop :=
  m_posted mo = 1 <-> (c_token (s_c s) <> None /\ s_infl s = []).

Lemma Sim_unread s mo : J s -> Sim s mo -> m_q mo = unread (s_c s) ++ s_infl s.
Proof. intros [_ HS] H. unfold St in HS. unfold Sim in H. rewrite <- HS in H. now apply app_inv_head in H. Qed.

Lemma Sim_init df addr ae uf start : Sim (sys_init_at start df addr ae uf) mon_init.
Proof. unfold Sim, sys_init_at. destruct (console_new_at start df addr ae uf) as [[o c] e]. reflexivity. Qed.

(* ---- 1557 holds at every point of every history, from every start of the indices, in any monitor state ---- *)
Theorem mon1557_holds_of_model m start df addr ae uf ops mo :
  start < two16 ->
  let s := sys_run true m (sys_init_at start df addr ae uf) ops in
  mon_step mo 1557 [q_aidx (c_rxq (s_c s)); d_used (s_d s)] = (mo, true).
Proof.
  intros Hst. cbv zeta. destruct (one_buffer_at m start df addr ae uf ops Hst) as (chains & h & _ & _ & _ & _ & _ & _ & H).
  unfold mon_step. cbn [N.eqb Pos.eqb]. f_equal. now apply N.leb_le.
Qed.

(* ---- recv (peek and pop): lines 1555 and 1552 ---- *)
Theorem mon_recv_lines_hold m s pop a e u mo :
  J s -> Sim s mo ->
  let s' := fst (sys_step true m s (ORecv pop a e u)) in
  let r := snd (sys_step true m s (ORecv pop a e u)) in
  (r_val r = 0 -> mon_step mo 1555 [0] = (mo, true) /\ Sim s' mo)
  /\ (r_val r <> 0 -> exists b mo',
        r_bytes r = [b] /\ mon_step mo 1555 [1] = (mo, true)
        /\ mon_step mo 1552 [b2n pop; b] = (mo', true) /\ Sim s' mo' /\ m_posted mo' = m_posted mo
        /\ m_q mo = b :: (if pop then m_q mo' else tl (m_q mo'))).
Proof.
  intros HJ HS. cbv zeta. destruct (step_ok true m s (ORecv pop a e u) HJ I) as [_ P]. cbn [call_post] in P.
  set (s' := fst (sys_step true m s (ORecv pop a e u))) in *. set (r := snd (sys_step true m s (ORecv pop a e u))) in *.
  destruct P as (_ & Hw & Hd & Hz & Hnz & rest & Hrest). unfold Sim in *. split.
  - intros E. destruct (Hz E) as (Hb & Hall). rewrite Hb in Hd. assert (Hd' : s_delivered s' = s_delivered s) by (rewrite Hd; destruct pop; apply app_nil_r).
    assert (Hq : m_q mo = []).
    { rewrite Hd', Hw in Hall. rewrite <- Hall in HS. rewrite <- (app_nil_r (s_delivered s)) in HS at 2. now apply app_inv_head in HS. }
    split; [|now rewrite Hd', Hw]. unfold mon_step. cbn [N.eqb Pos.eqb n2b negb]. now rewrite Hq.
  - intros E. destruct (Hnz E) as (b & Hb). rewrite Hb in *.
    assert (Hq : m_q mo = b :: rest).
    { rewrite Hw, <- HS in Hrest. now apply app_inv_head in Hrest. }
    exists b, (if pop then mkMon rest (m_posted mo) else mo). split; [reflexivity|].
    split. { unfold mon_step. cbn [N.eqb Pos.eqb]. rewrite Hq. reflexivity. }
    split. { unfold mon_step. cbn [N.eqb Pos.eqb]. rewrite Hq. cbn [prefix_b is_nil negb andb length skipn]. rewrite N.eqb_refl.
             destruct pop; reflexivity. }
    split. { rewrite Hd. destruct pop; cbn [m_q]; [rewrite <- app_assoc; symmetry; exact Hrest|rewrite app_nil_r, Hw; exact HS]. }
    split; [destruct pop; reflexivity|]. destruct pop; cbn [m_q]; [exact Hq|rewrite Hq; reflexivity].
Qed.

(* ---- read_ready: line 1555 ---- *)
Theorem mon_read_ready_line_holds m s mo :
  J s -> Sim s mo ->
  let s' := fst (sys_step true m s OReadReady) in
  let r := snd (sys_step true m s OReadReady) in
  mon_step mo 1555 [r_val r] = (mo, true) /\ Sim s' mo.
Proof.
  intros HJ HS. cbv zeta. destruct (step_ok true m s OReadReady HJ I) as [_ P]. cbn [call_post] in P.
  destruct P as (_ & Hw & Hd & Hiff). unfold Sim in *. split; [|now rewrite Hd, Hw].
  unfold mon_step. cbn [N.eqb Pos.eqb]. f_equal. unfold n2b.
  destruct (N.eqb_spec (r_val (snd (sys_step true m s OReadReady))) 0) as [E|E]; cbn [negb].
  - apply Hiff in E. rewrite Hd, Hw in E. rewrite <- E in HS. rewrite <- (app_nil_r (s_delivered s)) in HS at 2.
    apply app_inv_head in HS. now rewrite HS.
  - destruct (m_q mo) eqn:Eq; [|reflexivity]. exfalso. apply E. apply Hiff. rewrite Hd, Hw, <- HS. now rewrite app_nil_r.
Qed.

(* ---- ack_interrupt: no line; the relation is kept ---- *)
Theorem mon_ack_keeps_sim m s isr mo : J s -> Sim s mo -> Sim (fst (sys_step true m s (OAck isr))) mo.
Proof.
  intros HJ HS. destruct (step_ok true m s (OAck isr) HJ I) as [_ P]. cbn [call_post] in P.
  destruct P as (_ & Hw & Hd). unfold Sim in *. now rewrite Hd, Hw.
Qed.

(* ---- consume: line 1553, written when the call returned ---- *)
Theorem mon_consume_line_holds m s amt mo :
  J s -> Sim s mo ->
  let s' := fst (sys_step true m s (OConsume amt)) in
  let r := snd (sys_step true m s (OConsume amt)) in
  (r_class r = 0 -> exists mo', mon_step mo 1553 [amt] = (mo', true) /\ Sim s' mo' /\ m_posted mo' = m_posted mo)
  /\ (r_class r <> 0 -> s' = s).
Proof.
  intros HJ HS. cbv zeta. pose proof (Sim_unread s mo HJ HS) as Hq.
  destruct (step_ok true m s (OConsume amt) HJ ltac:(cbn; auto)) as [_ P]. cbn [call_post] in P.
  destruct P as (Hw & [(Hc & Ha & Hd)|(Hc & _ & Hs)]).
  2:{ split; [intros E; rewrite Hc in E; discriminate E|intros _; exact Hs]. }
  split; [|intros E; now elim E]. intros _.
  assert (Hle : amt <= lenN (m_q mo)) by (rewrite Hq, lenN_app; lia).
  exists (mkMon (skipn (cnt amt (m_q mo)) (m_q mo)) (m_posted mo)).
  split. { unfold mon_step. cbn [N.eqb Pos.eqb]. f_equal. now apply N.leb_le. }
  split; [|reflexivity]. unfold Sim in *. cbn [m_q]. rewrite Hd, Hw, <- HS, <- app_assoc. f_equal.
  unfold cnt. rewrite N.min_l by exact Hle.
  assert (F : firstn (N.to_nat amt) (unread (s_c s)) = firstn (N.to_nat amt) (m_q mo)).
  { rewrite Hq, firstn_app. replace (N.to_nat amt - length (unread (s_c s)))%nat with 0%nat by (unfold lenN in Ha; lia).
    cbn [firstn]. now rewrite app_nil_r. }
  rewrite F. apply firstn_skipn.
Qed.

(* ---- the device delivers a chunk between two calls: line 1551 ---- *)
Theorem mon_fill_line_holds m s chunk mo :
  J s -> Sim s mo -> Posted s mo ->
  let s' := fst (sys_step true m s (OFill chunk)) in
  let r := snd (sys_step true m s (OFill chunk)) in
  (r_val r = 1 -> exists mo', mon_step mo 1551 chunk = (mo', true) /\ Sim s' mo' /\ Posted s' mo')
  /\ (r_val r <> 1 -> s' = s).
Proof.
  intros HJ HS HP. cbv zeta. destruct (step_ok true m s (OFill chunk) HJ I) as [_ P]. cbn [call_post] in P.
  destruct P as (Hd & [(Hv & Hlen & Hw)|(Hv & Hs)]).
  2:{ split; [intros E; rewrite Hv in E; discriminate E|intros _; exact Hs]. }
  split; [|intros E; now elim E]. intros _.
  (* the device could fill: a request was outstanding and unfilled *)
  assert (Hcan : dev_can_fill (c_rxq (s_c s)) (s_d s) chunk = true).
  { revert Hv. cbn [sys_step]. destruct (dev_can_fill (c_rxq (s_c s)) (s_d s) chunk); [reflexivity|]. cbn [snd r_val]. discriminate. }
  destruct HJ as [HJr _]. destruct (fill_spec (s_c s) (s_d s) (s_infl s) chunk HJr) as (F1 & _ & _).
  destruct (F1 Hcan) as ((t & Et) & Hi & _ & _).
  assert (Hp1 : m_posted mo = 1) by (apply HP; split; [rewrite Et; discriminate|exact Hi]).
  exists (mkMon (m_q mo ++ chunk) 0).
  split. { unfold mon_step. cbn [N.eqb Pos.eqb]. rewrite Hp1. f_equal. unfold PAGE in *. cbn [N.eqb Pos.eqb andb]. lia. }
  split. { unfold Sim in *. cbn [m_q]. rewrite Hd, Hw, <- HS, app_assoc. reflexivity. }
  unfold Posted. cbn [m_posted]. split; [discriminate|]. intros (_ & Hinf). exfalso.
  revert Hinf. cbn [sys_step]. rewrite Hcan. cbn [fst s_infl]. intros ->. unfold lenN in Hlen. cbn in Hlen. lia.
Qed.

(* ---- read / fill_buf: what the device wrote during the wait, then lines 1552 / 1554 ---- *)
Lemma wait_written s addr ae uf idle chunk call consuming :
  exists fired : bool, s_written (fst (step_wait s addr ae uf idle chunk call consuming))
                       = s_written s ++ (if fired then chunk else []).
Proof.
  unfold step_wait. destruct (poll_retrieve (s_c s) addr ae uf) as [[o1 c1] e1].
  destruct (call _) as [[o c'] e']. cbn [fst s_written]. eexists. reflexivity.
Qed.

(* read(n), n > 0, that returned: if the device delivered `chunk` during the wait the harness first writes its 1551 line
   (monitor state mkMon (m_q ++ chunk) 0), then 1552 with the bytes returned: accepted, and the relation holds afterwards *)
Theorem mon_read_lines_hold m s n a e u idle chunk mo :
  J s -> Sim s mo -> n <> 0 ->
  let s' := fst (sys_step true m s (ORead n a e u idle chunk)) in
  let r := snd (sys_step true m s (ORead n a e u idle chunk)) in
  r_class r = 0 ->
  exists fired : bool, s_written s' = s_written s ++ (if fired then chunk else [])
    /\ let mo1 := if fired then mkMon (m_q mo ++ chunk) 0 else mo in
       exists mo', mon_step mo1 1552 (1 :: r_bytes r) = (mo', true) /\ Sim s' mo' /\ lenN (r_bytes r) <= n.
Proof.
  intros HJ HS Hn. cbv zeta. intros Hc.
  destruct (step_ok true m s (ORead n a e u idle chunk) HJ I) as [_ P]. cbn [call_post] in P. destruct P as (_ & P).
  destruct (P Hn) as [(_ & Hne & Hlen & Hd & rest & Hrest)|(Hc4 & _)]; [|rewrite Hc4 in Hc; discriminate Hc].
  assert (Hfw : exists fired : bool, s_written (fst (sys_step true m s (ORead n a e u idle chunk)))
                                     = s_written s ++ (if fired then chunk else [])).
  { cbn [sys_step]. replace (n =? 0) with false by lia. apply wait_written. }
  destruct Hfw as (fired & Hfw). exists fired. split; [exact Hfw|]. cbv zeta.
  set (mo1 := if fired then mkMon (m_q mo ++ chunk) 0 else mo).
  assert (H1 : s_delivered s ++ m_q mo1 = s_written (fst (sys_step true m s (ORead n a e u idle chunk)))).
  { rewrite Hfw. unfold Sim in HS. rewrite <- HS. unfold mo1. destruct fired; cbn [m_q]; [now rewrite app_assoc|now rewrite app_nil_r]. }
  assert (Hq : m_q mo1 = r_bytes (snd (sys_step true m s (ORead n a e u idle chunk))) ++ rest).
  { rewrite Hrest in H1. now apply app_inv_head in H1. }
  eexists. split.
  - unfold mon_step. cbn [N.eqb Pos.eqb n2b negb]. f_equal. rewrite Hq.
    assert (Hp : prefix_b (r_bytes (snd (sys_step true m s (ORead n a e u idle chunk))))
                          (r_bytes (snd (sys_step true m s (ORead n a e u idle chunk))) ++ rest) = true)
      by (apply prefix_b_iff; now exists rest).
    rewrite Hp. destruct (r_bytes (snd (sys_step true m s (ORead n a e u idle chunk)))); [now elim Hne|reflexivity].
  - split; [|exact Hlen]. unfold Sim. cbn [m_q]. rewrite Hd, Hrest, Hq, skipn_app_len, <- app_assoc. reflexivity.
Qed.

Theorem mon_fill_buf_lines_hold m s a e u idle chunk mo :
  J s -> Sim s mo ->
  let s' := fst (sys_step true m s (OFillBuf a e u idle chunk)) in
  let r := snd (sys_step true m s (OFillBuf a e u idle chunk)) in
  r_class r = 0 ->
  exists fired : bool, s_written s' = s_written s ++ (if fired then chunk else [])
    /\ let mo1 := if fired then mkMon (m_q mo ++ chunk) 0 else mo in
       mon_step mo1 1554 (r_bytes r) = (mo1, true) /\ Sim s' mo1.
Proof.
  intros HJ HS. cbv zeta. intros Hc.
  destruct (step_ok true m s (OFillBuf a e u idle chunk) HJ I) as [_ P]. cbn [call_post] in P.
  destruct P as [(_ & Hne & _ & Hd & Hw)|(Hc4 & _)]; [|rewrite Hc4 in Hc; discriminate Hc].
  assert (Hfw : exists fired : bool, s_written (fst (sys_step true m s (OFillBuf a e u idle chunk)))
                                     = s_written s ++ (if fired then chunk else [])).
  { cbn [sys_step]. apply wait_written. }
  destruct Hfw as (fired & Hfw). exists fired. split; [exact Hfw|]. cbv zeta.
  set (mo1 := if fired then mkMon (m_q mo ++ chunk) 0 else mo).
  assert (H1 : s_delivered s ++ m_q mo1 = s_written (fst (sys_step true m s (OFillBuf a e u idle chunk)))).
  { rewrite Hfw. unfold Sim in HS. rewrite <- HS. unfold mo1. destruct fired; cbn [m_q]; [now rewrite app_assoc|now rewrite app_nil_r]. }
  assert (Hq : m_q mo1 = r_bytes (snd (sys_step true m s (OFillBuf a e u idle chunk)))).
  { rewrite Hw in H1. now apply app_inv_head in H1. }
  split.
  - unfold mon_step. cbn [N.eqb Pos.eqb]. f_equal. rewrite Hq.
    assert (Hp : eq_b (r_bytes (snd (sys_step true m s (OFillBuf a e u idle chunk))))
                      (r_bytes (snd (sys_step true m s (OFillBuf a e u idle chunk)))) = true) by now apply eq_b_iff.
    rewrite Hp. destruct (r_bytes (snd (sys_step true m s (OFillBuf a e u idle chunk)))); [now elim Hne|reflexivity].
  - unfold Sim. now rewrite Hd.
Qed.

(* ---- 1559: after a recv(pop) that handed out a byte, in the monitor state reached after its 1552 line ---- *)
Theorem mon1559_holds_of_model m s a e u mo1 :
  J s ->
  let s1 := fst (sys_step true m s (ORecv true a e u)) in
  let r1 := snd (sys_step true m s (ORecv true a e u)) in
  r_val r1 <> 0 -> Sim s1 mo1 ->
  mon_step mo1 1559 [q_aidx (c_rxq (s_c s1)); d_used (s_d s1)] = (mo1, true).
Proof.
  intros HJ. cbv zeta. intros Hv HS.
  destruct (step_ok true m s (ORecv true a e u) HJ I) as [HJ1 _].
  pose proof (Sim_unread _ _ HJ1 HS) as Hq.
  (* recv always takes the in-flight chunk in: nothing is in flight afterwards *)
  assert (Hinfl : s_infl (fst (sys_step true m s (ORecv true a e u))) = []).
  { destruct HJ as [HJr HSt]. unfold St in HSt. cbn [sys_step].
    destruct (recv_spec m (s_c s) (s_d s) (s_infl s) (s_delivered s) (s_written s) true a e u HJr HSt)
      as (r & c' & evs & E & _ & Hia & _). rewrite E. cbn [fst s_infl]. exact Hia. }
  rewrite Hinfl, app_nil_r in Hq.
  unfold mon_step. cbn [N.eqb Pos.eqb]. f_equal.
  destruct (unread (s_c (fst (sys_step true m s (ORecv true a e u))))) as [|x xs] eqn:Eu.
  - destruct (repost_delivers m s a e u [] true 0 0 0 HJ Hv Eu) as (_ & _ & H1 & _). rewrite Hq, H1. reflexivity.
  - rewrite Hq. cbn [is_nil]. apply N.eqb_eq.
    destruct HJ1 as [HJr _]. pose proof (Jrx_unread_len _ _ _ HJr) as Hl. rewrite Eu, lenN_cons in Hl.
    assert (Etok : c_token (s_c (fst (sys_step true m s (ORecv true a e u)))) = None) by (apply (Jrx_unread_some _ _ _ HJr); lia).
    destruct HJr as (chains & h & HR & _ & _ & _ & _ & Hdu & Hds & _ & Ht). rewrite Etok in Ht.
    destruct Ht as (_ & _ & Hai & _). destruct (reach_basic _ _ _ HR) as (Haidx & _).
    rewrite Haidx, Hai, Hds. unfold sub16, w16, two16 in *. lia.
Qed.

(* ------------------------------------------------------------------------------------------------ *)
(* AUDIT witnesses (machine-checked; discussed in the builder's report)                              *)
(* 1559 demands the receive buffer back IMMEDIATELY after the last byte was popped; the property text only says when it may
   NOT be re-posted.  A driver that re-posts at the next call is rejected here (the model re-posts at once: C15_buffer_comes_back) *)
Example mon1559_rejects_lazy_repost : snd (mon_step (mkMon [] 0) 1559 [5; 5]) = false.
Proof. reflexivity. Qed.
(* 1556 demands ONE readable element: the caller's bytes spread over two readable elements are rejected *)
Example mon1556_rejects_two_elements : snd (mon_step mon_init 1556 [2; 1; 2; 2; 1; 2; 2; 0]) = false.
Proof. reflexivity. Qed.
(* 1554 demands that fill_buf returns ALL unread bytes: a non-empty prefix (which, followed by consume, keeps the stream
   intact) is rejected *)
Example mon1554_rejects_prefix : snd (mon_step (mkMon [1; 2] 0) 1554 [1]) = false.
Proof. reflexivity. Qed.
(* 1555 demands that recv / read_ready report data as soon as the device has written it *)
Example mon1555_rejects_late_report : snd (mon_step (mkMon [7] 0) 1555 [0]) = false.
Proof. reflexivity. Qed.
