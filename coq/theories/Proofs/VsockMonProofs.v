(* What the VSOCK credit / ring-buffer monitors of Extract/VsockIO.v (kinds 1751 .. 1753, 1760 .. 1771, property C17) MEAN,
   and that they hold of the model.

   The monitors are branches of the stateful `vsock_step`: the runner feeds them what the harness (harness/src/scen/c17.rs)
   observed of the implementation, the expected answer is the constant [1].  Two pieces of specification-side state are
   threaded through the lines of a scenario: a bounded FIFO (vs_qcap, vs_q: kinds 1751 .. 1753) and the reference observer
   of one stream connection (vs_spec : sspec of Model/VsockSpec.v: kinds 1760 .. 1766).  Here each kind is tied to the
   statement it stands for:
     A. meaning: `vsock_step (Some s) kind ins = (st', [1])` for ANY list `ins` implies that `ins` is laid out as documented,
        the clause of the property spelled out as plain facts about the decoded observation, and what the specification's
        bookkeeping becomes (st');
     B. holds of the model: the line the harness would write from the MODEL's own behaviour (rb_add / rb_drain / send /
        done_forwarding / enc_hdr / vsend / poll_packet / recv / vupdate_credit of Model/Vsock.v) gets the verdict [1], from the
        theorems of Proofs/VsockProofs.v (rb_add_refines, rb_drain_refines, send_ok_spec, send_refused_spec, hdr_on_wire,
        send_header, step_send, step_peer_ctrl, step_peer_data, step_recv, step_update_credit, Rel_init), which are reused, not
        repeated;
     A'. what a history ALL of whose observer lines were accepted means for the byte stream (mon_stream_lossless_meaning: read ++
        unread = delivered by the peer, in order), derived from the meaning theorems alone;
     C. witnesses (Examples by vm_compute) for the places where a monitor asks for more, or for less, than the property text.

   The fields of the observer's record `sspec`, as they appear in the conclusions (Model/VsockSpec.v, written from VirtIO 1.2
   5.10.6.3, all counters UNBOUNDED):
     s_guest_cid, s_peer_cid, s_peer_port, s_local_port : the addressing of the connection
     s_cap        the receive buffer space the driver has for the connection (its buf_alloc)
     s_rx_base    the driver's fwd_cnt field at the start of the history      s_tx_base  the peer's fwd_cnt field at the start
     s_sent       S: payload bytes of the peer the driver has accepted         s_delivered  D: bytes the application has read
     s_fifo       the S - D bytes in between, oldest first
     s_adv_alloc, s_adv_fwd : buf_alloc / fwd_cnt of the last packet the driver sent (what the peer bases its credit on)
     s_tx_total   T: payload bytes the driver has sent          s_peer_fwd  F: how many of them the peer reported consumed
     s_peer_alloc the peer's buf_alloc as last reported         s_req  a credit request is out, no credit update since
   and its three field setters (no checks in them): `saw sp h` = sp with s_adv_alloc, s_adv_fwd := h_buf_alloc h, h_fwd_cnt h;
   `set_tx sp t f a r` = sp with s_tx_total, s_peer_fwd, s_peer_alloc, s_req := t, f, a, r;
   `set_rx sp s d q` = sp with s_sent, s_delivered, s_fifo := s, d, q (setters_fields below). *)
From VD Require Import Base.Words Base.ListUpd Model.Vsock Model.VsockSpec Proofs.VsockProofs Extract.VsockIO.
From Coq Require Import ZArith Lia ZifyBool ZifyN.
Ltac Zify.zify_post_hook ::= Z.div_mod_to_equations.

(* ------------------------------------------------------------------------------------------------ *)
(* small helpers                                                                                     *)
Lemma vb2n_one b : b2n b = 1 -> b = true.
Proof. destruct b; [reflexivity|discriminate]. Qed.

Lemma list_eqb_eq : forall a b, list_eqb a b = true -> a = b.
Proof.
  unfold list_eqb. induction a as [|x a IH]; intros b H; destruct b as [|y b]; try reflexivity;
    try (apply andb_prop in H; destruct H as [H _]; apply N.eqb_eq in H; rewrite ?lenN_cons, ?lenN_nil in H; lia).
  apply andb_prop in H. destruct H as [Hl Hf]. cbn [combine forallb fst snd] in Hf.
  apply andb_prop in Hf. destruct Hf as [Hx Hf]. apply N.eqb_eq in Hx. subst y. f_equal. apply IH.
  apply N.eqb_eq in Hl. rewrite !lenN_cons in Hl. rewrite Hf, andb_true_r. apply N.eqb_eq. lia.
Qed.

Lemma vk_set_spec_id s : vk_set_spec s (vs_spec s) = s.
Proof. now destruct s. Qed.
Lemma vk_set_q_id s : vk_set_q s (vs_qcap s) (vs_q s) = s.
Proof. now destruct s. Qed.

(* the three setters of the observer only move the named fields *)
Lemma setters_fields sp h t f a r s d q :
  saw sp h = mkS (s_guest_cid sp) (s_peer_cid sp) (s_peer_port sp) (s_local_port sp) (s_cap sp) (s_rx_base sp) (s_sent sp)
                 (s_delivered sp) (s_fifo sp) (h_buf_alloc h) (h_fwd_cnt h) (s_tx_base sp) (s_tx_total sp) (s_peer_fwd sp)
                 (s_peer_alloc sp) (s_req sp)
  /\ set_tx sp t f a r = mkS (s_guest_cid sp) (s_peer_cid sp) (s_peer_port sp) (s_local_port sp) (s_cap sp) (s_rx_base sp)
                 (s_sent sp) (s_delivered sp) (s_fifo sp) (s_adv_alloc sp) (s_adv_fwd sp) (s_tx_base sp) t f a r
  /\ set_rx sp s d q = mkS (s_guest_cid sp) (s_peer_cid sp) (s_peer_port sp) (s_local_port sp) (s_cap sp) (s_rx_base sp)
                 s d q (s_adv_alloc sp) (s_adv_fwd sp) (s_tx_base sp) (s_tx_total sp) (s_peer_fwd sp) (s_peer_alloc sp) (s_req sp).
Proof. repeat split. Qed.

(* a verdict of an observer monitor: the judgement was true, the observer's state is the one the judgement returns *)
Lemma vk_mon_inv r s st' : vk_mon r s = (st', [1]) -> snd r = true /\ st' = Some (vk_set_spec s (fst r)).
Proof. unfold vk_mon. intros H. injection H as H1 H2. split; [now destruct (snd r)|now symmetry]. Qed.

(* ------------------------------------------------------------------------------------------------ *)
(* the branches of vsock_step, one equation per monitor kind (all by computation of the kind tests)  *)
Definition vk_bad (st : option vstate) : option vstate * list N := (st, [77777]).

Lemma step1751 st ins : vsock_step st 1751 ins =
  match ins with [cap] => (Some (vk_set_q (vk_get st) cap []), [1]) | _ => vk_bad st end.
Proof. reflexivity. Qed.
Lemma step1752 st ins : vsock_step st 1752 ins =
  match ins with
  | ok :: bytes =>
      if 1 <? ok then (st, [0])
      else let '(q, b) := mon_fifo_add (vs_qcap (vk_get st)) (vs_q (vk_get st)) bytes (n2b ok) in
           (Some (vk_set_q (vk_get st) (vs_qcap (vk_get st)) q), [b2n b])
  | _ => vk_bad st end.
Proof. reflexivity. Qed.
Lemma step1753 st ins : vsock_step st 1753 ins =
  match ins with
  | out_len :: n :: bytes =>
      let '(q, b) := mon_fifo_drain (vs_q (vk_get st)) out_len n bytes in (Some (vk_set_q (vk_get st) (vs_qcap (vk_get st)) q), [b2n b])
  | _ => vk_bad st end.
Proof. reflexivity. Qed.
Lemma step1760 st ins : vsock_step st 1760 ins =
  match ins with
  | [guest; pc; pp; lp; cap; rxb; txb; infl; alloc; req] =>
      (Some (vk_set_spec (vk_get st) (spec_init guest pc pp lp cap rxb txb infl alloc (n2b req))), [1])
  | _ => vk_bad st end.
Proof. reflexivity. Qed.
Lemma step1761 st ins : vsock_step st 1761 ins =
  match ins with
  | len :: class :: code :: r => vk_mon (mon_send (vs_spec (vk_get st)) len class code (vk_dec_opkts r)) (vk_get st)
  | _ => vk_bad st end.
Proof. reflexivity. Qed.
Lemma step1762 st ins : vsock_step st 1762 ins =
  match ins with
  | op :: alloc :: kk :: class :: has :: r =>
      vk_mon (mon_peer_ctrl (vs_spec (vk_get st)) op alloc kk class (n2b has) (vk_dec_opkts r)) (vk_get st)
  | _ => vk_bad st end.
Proof. reflexivity. Qed.
Lemma step1763 st ins : vsock_step st 1763 ins =
  match ins with
  | alloc :: kk :: class :: n :: r =>
      let '(bytes, r') := vk_takeN n r in
      vk_mon (mon_peer_data (vs_spec (vk_get st)) bytes alloc kk class (vk_dec_opkts r')) (vk_get st)
  | _ => vk_bad st end.
Proof. reflexivity. Qed.
Lemma step1764 st ins : vsock_step st 1764 ins =
  match ins with
  | out_len :: class :: n :: r =>
      let '(bytes, r') := vk_takeN n r in
      vk_mon (mon_recv (vs_spec (vk_get st)) out_len class n bytes (vk_dec_opkts r')) (vk_get st)
  | _ => vk_bad st end.
Proof. reflexivity. Qed.
Lemma step1765 st ins : vsock_step st 1765 ins =
  match ins with
  | class :: r => vk_mon (mon_update_credit (vs_spec (vk_get st)) class (vk_dec_opkts r)) (vk_get st)
  | _ => vk_bad st end.
Proof. reflexivity. Qed.
Lemma step1766 st ins : vsock_step st 1766 ins =
  match vk_dec_opkts ins with
  | [p] => vk_mon (mon_other_pkt (vs_spec (vk_get st)) p) (vk_get st)
  | _ => (st, [0]) end.
Proof. reflexivity. Qed.
Lemma step1767 st ins : vsock_step st 1767 ins =
  match ins with
  | f1 :: f2 :: f3 :: f4 :: f5 :: f6 :: f7 :: f8 :: f9 :: f10 :: bytes =>
      (st, [b2n match spec_dec bytes with
                | Some h => list_eqb (vk_enc_hdr_fields h) [f1; f2; f3; f4; f5; f6; f7; f8; f9; f10] && (lenN bytes =? 44)
                | None => false end])
  | _ => vk_bad st end.
Proof. reflexivity. Qed.
Lemma step1770 st ins : vsock_step st 1770 ins =
  match ins with
  | [pba; pfc; tx; pend; len; class; code; tx'; pend'; npkts; op; hlen; plen] =>
      let free := pba - sub32 tx pfc in
      (st, [b2n (if len <=? free
                 then (class =? 0) && (tx' =? add32 tx len) && (pend' =? pend) && (npkts =? 1) && (op =? OP_RW) && (hlen =? len) && (plen =? len)
                 else (class =? 1) && (code =? SE_InsufficientBufferSpaceInPeer) && (tx' =? tx) && (pend' =? 1)
                      && (if pend =? 0 then (npkts =? 1) && (op =? OP_CREDIT_REQUEST) && (hlen =? 0) && (plen =? 0) else npkts =? 0))])
  | _ => vk_bad st end.
Proof. reflexivity. Qed.
Lemma step1771 st ins : vsock_step st 1771 ins =
  match ins with
  | [fwd; n; class; fwd'] => (st, [b2n ((class =? 0) && (fwd' =? add32 fwd (w32 n)))])
  | _ => vk_bad st end.
Proof. reflexivity. Qed.

Lemma vk_bad_not_one st st' : vk_bad st = (st', [1]) -> False.
Proof. unfold vk_bad. intros H. injection H as _ H. discriminate H. Qed.

(* every kind of vsock_is_monitor is one of the above *)
Lemma vsock_monitor_kinds k : vsock_is_monitor k = true ->
  k = 1751 \/ k = 1752 \/ k = 1753 \/ k = 1760 \/ k = 1761 \/ k = 1762 \/ k = 1763 \/ k = 1764 \/ k = 1765 \/ k = 1766
  \/ k = 1767 \/ k = 1768 \/ k = 1769 \/ k = 1770 \/ k = 1771.
Proof. unfold vsock_is_monitor. intros H. lia. Qed.

(* ================================================================================================ *)
(* A. MEANING                                                                                        *)
(* ================================================================================================ *)

(* ------------------------------------------------------------------------------------------------ *)
(* kinds 1751 .. 1753: the stand-alone RingBuffer against a bounded FIFO byte queue                  *)
(* The specification state is (vs_qcap s, vs_q s) = (capacity, the bytes the buffer has to hold, oldest first).  *)

(* kind 1751, written after RingBuffer::new(cap): [cap].  The queue of the specification becomes the empty queue of that
   capacity; nothing is judged. *)
Theorem mon1751_meaning s ins st' :
  vsock_step (Some s) 1751 ins = (st', [1]) -> exists cap, ins = [cap] /\ st' = Some (vk_set_q s cap []).
Proof.
  rewrite step1751. cbn [vk_get]. destruct ins as [|cap [|? ?]]; intros H; try (now apply vk_bad_not_one in H).
  injection H as H. exists cap. split; [reflexivity|now symmetry].
Qed.

(* kind 1752, written after every RingBuffer::add(bytes): [ok; bytes...] with ok = 1 when add returned true, 0 when it
   returned false (2 when it panicked: then the verdict is [0]).  A true verdict says: the call returned (ok <= 1); the bytes were
   ACCEPTED exactly when they fit the free space of the specification's queue, and then the queue has them appended; they were
   REFUSED exactly when they do not fit, and then the queue is unchanged.  (`-` is truncated; mon_fifo_bounded below shows
   that the queue never outgrows the capacity, so `cap - lenN q` is the free space.) *)
Theorem mon1752_meaning s ins st' :
  vsock_step (Some s) 1752 ins = (st', [1]) ->
  exists ok bytes,
    ins = ok :: bytes /\ ok <= 1
    /\ (lenN bytes <= vs_qcap s - lenN (vs_q s) -> ok = 1 /\ st' = Some (vk_set_q s (vs_qcap s) (vs_q s ++ bytes)))
    /\ (vs_qcap s - lenN (vs_q s) < lenN bytes -> ok = 0 /\ st' = Some s).
Proof.
  rewrite step1752. cbn [vk_get]. destruct ins as [|ok bytes]; intros H; [now apply vk_bad_not_one in H|].
  exists ok, bytes. split; [reflexivity|].
  destruct (N.ltb_spec 1 ok) as [Hk|Hk]; [injection H as _ H; discriminate H|].
  split; [exact Hk|].
  unfold mon_fifo_add, fifo_add in H.
  destruct (N.leb_spec (lenN bytes) (vs_qcap s - lenN (vs_q s))) as [Hfit|Hfit];
    injection H as H1 H2; apply vb2n_one in H2; (split; intros Hc; [|]); try lia.
  - split; [|now symmetry]. unfold n2b in H2. apply negb_true_iff in H2. apply N.eqb_neq in H2. lia.
  - split; [|rewrite vk_set_q_id in H1; now symmetry].
    apply negb_true_iff in H2. unfold n2b in H2. apply negb_false_iff in H2. now apply N.eqb_eq in H2.
Qed.

(* kind 1753, written after every RingBuffer::drain(out) with |out| = out_len: [out_len; n; bytes...] with n the count
   drain returned and bytes = out[..n].  A true verdict says: n = min(out_len, length of the queue), the bytes handed out are
   exactly the n OLDEST bytes of the specification's queue, and the queue keeps the rest, in order. *)
Theorem mon1753_meaning s ins st' :
  vsock_step (Some s) 1753 ins = (st', [1]) ->
  exists out_len n bytes rest,
    ins = out_len :: n :: bytes /\ n = N.min out_len (lenN (vs_q s)) /\ lenN bytes = n
    /\ vs_q s = bytes ++ rest /\ st' = Some (vk_set_q s (vs_qcap s) rest).
Proof.
  rewrite step1753. cbn [vk_get]. destruct ins as [|out_len [|n bytes]]; intros H; try (now apply vk_bad_not_one in H).
  unfold mon_fifo_drain, fifo_drain in H. injection H as H1 H2. apply vb2n_one in H2.
  apply andb_prop in H2. destruct H2 as [Hn Hb]. apply N.eqb_eq in Hn. apply list_eqb_eq in Hb.
  set (k := N.to_nat (N.min out_len (lenN (vs_q s)))) in *.
  assert (Hk : lenN (firstn k (vs_q s)) = N.min out_len (lenN (vs_q s))).
  { unfold lenN in *. rewrite firstn_length. lia. }
  exists out_len, n, bytes, (skipn k (vs_q s)).
  split; [reflexivity|]. split; [lia|]. split; [rewrite Hb; lia|].
  split; [rewrite Hb; symmetry; apply firstn_skipn|now symmetry].
Qed.

(* the queue of the specification never outgrows its capacity (so `vs_qcap s - lenN (vs_q s)` above is its free space) *)
Theorem mon_fifo_bounded s k ins st' :
  k = 1751 \/ k = 1752 \/ k = 1753 -> lenN (vs_q s) <= vs_qcap s ->
  vsock_step (Some s) k ins = (st', [1]) -> exists s', st' = Some s' /\ lenN (vs_q s') <= vs_qcap s'.
Proof.
  intros [-> | [-> | ->]] Hb H.
  - destruct (mon1751_meaning _ _ _ H) as (cap & _ & ->). eexists. split; [reflexivity|]. cbn. lia.
  - destruct (mon1752_meaning _ _ _ H) as (ok & bytes & _ & _ & Ha & Hr).
    destruct (N.leb_spec (lenN bytes) (vs_qcap s - lenN (vs_q s))) as [Hc|Hc].
    + destruct (Ha Hc) as (_ & ->). eexists. split; [reflexivity|]. cbn [vk_set_q vs_q vs_qcap]. rewrite lenN_app. lia.
    + destruct (Hr Hc) as (_ & ->). eexists. split; [reflexivity|exact Hb].
  - destruct (mon1753_meaning _ _ _ H) as (out_len & n & bytes & rest & _ & _ & _ & Hq & ->).
    eexists. split; [reflexivity|]. cbn [vk_set_q vs_q vs_qcap]. rewrite Hq, lenN_app in Hb. lia.
Qed.

(* ------------------------------------------------------------------------------------------------ *)
(* kinds 1767, 1770, 1771: stateless judgements on one call                                          *)

(* kind 1767: [the ten header fields asked for: src_cid; dst_cid; src_port; dst_port; len; type; op; flags; buf_alloc; fwd_cnt]
   ++ the header bytes as the device read them from the transmit queue (or, in the read_header_and_body scenario, the fields the
   crate decoded ++ the first 44 received bytes).  A true verdict says: there are EXACTLY 44 header bytes (a longer or a shorter
   byte string is rejected) and, read by the offsets of struct virtio_vsock_hdr in VirtIO 1.2 5.10.6 (spec_dec of
   Model/VsockSpec.v is that table: little-endian src_cid at 0..8, dst_cid 8..16, src_port 16..20, dst_port 20..24, len 24..28,
   type 28..30, op 30..32, flags 32..36, buf_alloc 36..40, fwd_cnt 40..44), they are the ten fields asked for.  The state is
   not touched (these lines also occur before any state exists). *)
Theorem mon1767_meaning st ins st' :
  vsock_step st 1767 ins = (st', [1]) ->
  exists f1 f2 f3 f4 f5 f6 f7 f8 f9 f10 bytes,
    ins = f1 :: f2 :: f3 :: f4 :: f5 :: f6 :: f7 :: f8 :: f9 :: f10 :: bytes
    /\ length bytes = 44%nat /\ spec_dec bytes = Some (mkHdr f1 f2 f3 f4 f5 f6 f7 f8 f9 f10) /\ st' = st.
Proof.
  rewrite step1767.
  do 10 (destruct ins as [|? ins]; [intros H; now apply vk_bad_not_one in H|]).
  intros H. injection H as H1 H2. apply vb2n_one in H2.
  destruct (spec_dec ins) as [h|] eqn:E; [|discriminate H2].
  apply andb_prop in H2. destruct H2 as [Hf Hl]. apply list_eqb_eq in Hf. apply N.eqb_eq in Hl.
  unfold vk_enc_hdr_fields in Hf. injection Hf as <- <- <- <- <- <- <- <- <- <-.
  do 11 eexists. split; [reflexivity|]. split; [unfold lenN in Hl; lia|]. split; [|now symmetry].
  rewrite E. now destruct h.
Qed.

(* ... spelled out: each field asked for is the little-endian number at its offset *)
Theorem mon1767_fields st ins st' :
  vsock_step st 1767 ins = (st', [1]) ->
  exists f1 f2 f3 f4 f5 f6 f7 f8 f9 f10 bytes,
    ins = f1 :: f2 :: f3 :: f4 :: f5 :: f6 :: f7 :: f8 :: f9 :: f10 :: bytes /\ length bytes = 44%nat
    /\ f1 = le_num (firstn 8 bytes) /\ f2 = le_num (firstn 8 (skipn 8 bytes))
    /\ f3 = le_num (firstn 4 (skipn 16 bytes)) /\ f4 = le_num (firstn 4 (skipn 20 bytes))
    /\ f5 = le_num (firstn 4 (skipn 24 bytes)) /\ f6 = le_num (firstn 2 (skipn 28 bytes))
    /\ f7 = le_num (firstn 2 (skipn 30 bytes)) /\ f8 = le_num (firstn 4 (skipn 32 bytes))
    /\ f9 = le_num (firstn 4 (skipn 36 bytes)) /\ f10 = le_num (firstn 4 (skipn 40 bytes)).
Proof.
  intros H. destruct (mon1767_meaning _ _ _ H) as (f1 & f2 & f3 & f4 & f5 & f6 & f7 & f8 & f9 & f10 & bytes & E & Hl & Hd & _).
  exists f1, f2, f3, f4, f5, f6, f7, f8, f9, f10, bytes. split; [exact E|]. split; [exact Hl|].
  unfold spec_dec in Hd. destruct (lenN bytes <? 44); [discriminate Hd|]. injection Hd as <- <- <- <- <- <- <- <- <- <-.
  repeat split.
Qed.

(* kind 1770, written after VirtIOSocket::send of `len` bytes on a ConnectionInfo with preset counters:
   [peer_buf_alloc; peer_fwd_cnt; tx_cnt; credit request pending (before); len; outcome class (0 Ok, 1 Err, 2 panic); error code;
    tx_cnt after; pending after; packets put on the transmit queue; op / header len / payload bytes of the first of them].
   With in_flight = (tx_cnt - peer_fwd_cnt) mod 2^32 (sub32: the free-running 32-bit counters) and
   free = peer_buf_alloc - in_flight truncated at 0 (nothing is free once the peer has shrunk its buffer below the bytes in
   flight), a true verdict says:
     - if the payload fits: the send succeeded, tx_cnt advanced by len modulo 2^32, the pending flag kept, exactly one packet:
       a RW packet whose header states len and that carries len payload bytes;
     - if it does not fit: the send was refused with InsufficientBufferSpaceInPeer, tx_cnt unchanged, a request is pending
       afterwards, and exactly one packet went out - a credit request without payload - when none was pending, NO packet at all
       when one was. *)
Theorem mon1770_meaning st ins st' :
  vsock_step st 1770 ins = (st', [1]) ->
  exists pba pfc tx pend len class code tx' pend' npkts op hlen plen,
    ins = [pba; pfc; tx; pend; len; class; code; tx'; pend'; npkts; op; hlen; plen] /\ st' = st
    /\ let in_flight := sub32 tx pfc in
       (len <= pba - in_flight ->
          class = 0 /\ tx' = (tx + len) mod 4294967296 /\ pend' = pend /\ npkts = 1 /\ op = OP_RW /\ hlen = len /\ plen = len)
       /\ (pba - in_flight < len ->
          class = 1 /\ code = SE_InsufficientBufferSpaceInPeer /\ tx' = tx /\ pend' = 1
          /\ (pend = 0 -> npkts = 1 /\ op = OP_CREDIT_REQUEST /\ hlen = 0 /\ plen = 0)
          /\ (pend <> 0 -> npkts = 0)).
Proof.
  rewrite step1770.
  do 13 (destruct ins as [|? ins]; [intros H; now apply vk_bad_not_one in H|]).
  destruct ins; intros H; [|now apply vk_bad_not_one in H].
  cbv zeta in H. injection H as H1 H2. apply vb2n_one in H2.
  do 13 eexists. split; [reflexivity|]. split; [now symmetry|]. cbv zeta.
  destruct (N.leb_spec n3 (n - sub32 n1 n0)) as [Hfit|Hfit]; (split; intros Hc; [|]); try lia.
  - repeat (apply andb_prop in H2; let X := fresh "X" in destruct H2 as [H2 X]; apply N.eqb_eq in X).
    apply N.eqb_eq in H2. unfold add32, w32 in *. repeat split; assumption.
  - apply andb_prop in H2. destruct H2 as [H2 Hp].
    repeat (apply andb_prop in H2; let X := fresh "X" in destruct H2 as [H2 X]; apply N.eqb_eq in X).
    apply N.eqb_eq in H2. split; [assumption|]. split; [assumption|]. split; [assumption|]. split; [assumption|].
    destruct (N.eqb_spec n2 0) as [E|E]; split; intros Hq; try contradiction.
    + repeat (apply andb_prop in Hp; let X := fresh "X" in destruct Hp as [Hp X]; apply N.eqb_eq in X).
      apply N.eqb_eq in Hp. repeat split; assumption.
    + now apply N.eqb_eq.
Qed.

(* ... hence the clause of the property: on 32-bit counters, after a send of a non-empty payload that the monitor accepted the
   payload bytes in flight, (tx_cnt' - peer_fwd_cnt) mod 2^32, have grown by len and do not exceed the space the peer last
   advertised - also when tx_cnt + len crosses 2^32 and when tx_cnt has already wrapped and peer_fwd_cnt has not *)
Theorem mon1770_in_flight_bounded st st' pba pfc tx pend len class code tx' pend' npkts op hlen plen :
  vsock_step st 1770 [pba; pfc; tx; pend; len; class; code; tx'; pend'; npkts; op; hlen; plen] = (st', [1]) ->
  pba < two32 -> pfc < two32 -> tx < two32 -> class = 0 -> 0 < len ->
  sub32 tx' pfc = sub32 tx pfc + len /\ sub32 tx' pfc <= pba.
Proof.
  intros H Ha Hf Ht Hc Hl.
  destruct (mon1770_meaning _ _ _ H) as (? & ? & ? & ? & ? & ? & ? & ? & ? & ? & ? & ? & ? & E & _ & Hfit & Hno).
  injection E as <- <- <- <- <- <- <- <- <- <- <- <- <-. cbv zeta in Hfit, Hno.
  destruct (N.leb_spec len (pba - sub32 tx pfc)) as [Hle|Hgt].
  - destruct (Hfit Hle) as (_ & -> & _). unfold sub32, w32, two32 in *. lia.
  - destruct (Hno Hgt) as (Hc1 & _). lia.
Qed.

(* kind 1771, written after ConnectionInfo::done_forwarding(n): [fwd_cnt before; n (a usize); outcome class; fwd_cnt after]:
   the call returned and fwd_cnt advanced by n modulo 2^32 (free-running: no panic, no saturation at the wrap) *)
Theorem mon1771_meaning st ins st' :
  vsock_step st 1771 ins = (st', [1]) ->
  exists fwd n class fwd', ins = [fwd; n; class; fwd'] /\ class = 0 /\ fwd' = (fwd + n) mod 4294967296 /\ st' = st.
Proof.
  rewrite step1771.
  do 4 (destruct ins as [|? ins]; [intros H; now apply vk_bad_not_one in H|]).
  destruct ins; intros H; [|now apply vk_bad_not_one in H].
  injection H as H1 H2. apply vb2n_one in H2. apply andb_prop in H2. destruct H2 as [Hc Hf].
  apply N.eqb_eq in Hc. apply N.eqb_eq in Hf.
  do 4 eexists. split; [reflexivity|]. split; [exact Hc|]. split; [|now symmetry].
  rewrite Hf. unfold add32, w32. lia.
Qed.

(* kind 1760, written when a connection is set up (and again when the harness pre-sets the counters):
   [guest cid; peer cid; peer port; local port; capacity; driver's fwd_cnt; peer's fwd_cnt; bytes in flight; peer's buf_alloc;
    credit request pending].  Nothing is judged; the observer starts with: nothing received or delivered, the peer believing
   buf_alloc = capacity and fwd_cnt = the driver's counter (mod 2^32), `inflight` bytes sent of which none is reported consumed. *)
Theorem mon1760_meaning s ins st' :
  vsock_step (Some s) 1760 ins = (st', [1]) ->
  exists guest pc pp lp cap rxb txb infl alloc req,
    ins = [guest; pc; pp; lp; cap; rxb; txb; infl; alloc; req]
    /\ st' = Some (vk_set_spec s (mkS guest pc pp lp cap rxb 0 0 [] cap (rxb mod 4294967296) txb infl 0 alloc (negb (req =? 0)))).
Proof.
  rewrite step1760.
  do 10 (destruct ins as [|? ins]; [intros H; now apply vk_bad_not_one in H|]).
  destruct ins; intros H; [|now apply vk_bad_not_one in H].
  injection H as H. do 10 eexists. split; [reflexivity|]. now symmetry.
Qed.

(* ------------------------------------------------------------------------------------------------ *)
(* the observed packets of a line (enc_opkts of scen/c17.rs): [count] ++ per packet (44 header bytes, payload length,
   1 when the header had 44 bytes and the payload bytes on the transmit queue are the caller's bytes)                          *)

(* one packet as written: (header bytes, payload length, intact flag) *)
Definition wpkt : Type := (list N * N * N)%type.
Fixpoint flatw (ws : list wpkt) : list N :=
  match ws with [] => [] | (b, plen, i) :: t => b ++ plen :: i :: flatw t end.
Definition hdr44 (w : wpkt) : Prop := match w with (b, _, _) => length b = 44%nat end.
Definition w_obs (w : wpkt) : opkt := match w with (b, plen, i) => (b, plen, n2b i) end.

(* `r` is a packet list as documented, holding the packets ws: either nothing at all, or a count followed by the packets one
   after the other, each with exactly 44 header bytes; the count is at least the number of packets present (the harness writes
   the exact count and no trailing numbers; see vk_dec_opkts_count_is_upper_bound at the end) *)
Definition opkts_layout (r : list N) (ws : list wpkt) : Prop :=
  Forall hdr44 ws /\ ((r = [] /\ ws = []) \/ exists n junk, r = n :: flatw ws ++ junk /\ lenN ws <= n).

Lemma vk_take_opkts_S k l : vk_take_opkts (S k) l =
  match skipn 44 l with
  | plen :: intact :: r => let '(ps, rest) := vk_take_opkts k r in ((firstn 44 l, plen, n2b intact) :: ps, rest)
  | _ => ([], []) end.
Proof. reflexivity. Qed.

Lemma skipn_nonempty_firstn {A} n (l : list A) : skipn n l <> [] -> length (firstn n l) = n.
Proof.
  intros H. rewrite firstn_length. destruct (Nat.le_gt_cases n (length l)) as [|Hlt]; [lia|].
  exfalso. apply H. apply skipn_all2. lia.
Qed.

Lemma vk_take_opkts_inv : forall k l ps rest, vk_take_opkts k l = (ps, rest) ->
  exists ws junk, l = flatw ws ++ junk /\ ps = map w_obs ws /\ Forall hdr44 ws /\ (length ws <= k)%nat.
Proof.
  induction k as [|k IH]; intros l ps rest H.
  - cbn [vk_take_opkts] in H. injection H as <- <-. exists [], l. repeat split; auto.
  - rewrite vk_take_opkts_S in H. destruct (skipn 44 l) as [|plen [|intact r]] eqn:E.
    + injection H as <- <-. exists [], l. repeat split; auto. cbn. lia.
    + injection H as <- <-. exists [], l. repeat split; auto. cbn. lia.
    + destruct (vk_take_opkts k r) as [ps' rest'] eqn:E'. injection H as <- <-.
      destruct (IH _ _ _ E') as (ws & junk & E1 & E2 & E3 & E4).
      exists ((firstn 44 l, plen, intact) :: ws), junk. split; [|split; [|split]].
      * cbn [flatw]. rewrite <- app_assoc. cbn [app]. rewrite <- E1, <- E. symmetry. apply firstn_skipn.
      * cbn [map w_obs]. now rewrite E2.
      * constructor; [|exact E3]. cbn [hdr44]. apply skipn_nonempty_firstn. rewrite E. discriminate.
      * cbn [length]. lia.
Qed.

Lemma lenN_flatw ws : Forall hdr44 ws -> lenN (flatw ws) = 46 * lenN ws.
Proof.
  induction 1 as [|[[b plen] i] t Hb _ IH]; [reflexivity|]. cbn [flatw hdr44] in *.
  rewrite lenN_app, !lenN_cons, IH. unfold lenN at 1. rewrite Hb. lia.
Qed.

Lemma vk_take_opkts_flat : forall ws junk, Forall hdr44 ws ->
  vk_take_opkts (length ws) (flatw ws ++ junk) = (map w_obs ws, junk).
Proof.
  induction ws as [|[[b plen] i] t IH]; intros junk H; [reflexivity|].
  inversion H as [|? ? Hb Ht]; subst. cbn [hdr44] in Hb.
  cbn [length flatw]. rewrite vk_take_opkts_S. rewrite <- app_assoc. cbn [app].
  rewrite (skipn_app_len b _ 44 Hb), (firstn_app_len b _ 44 Hb), (IH junk Ht). reflexivity.
Qed.

(* every list decodes as a documented packet list ... *)
Lemma vk_dec_opkts_layout r : exists ws, opkts_layout r ws /\ vk_dec_opkts r = map w_obs ws.
Proof.
  destruct r as [|n r]; [exists []; split; [split; [constructor|left; auto]|reflexivity]|].
  unfold vk_dec_opkts. destruct (vk_take_opkts (vcnt n r) r) as [ps rest] eqn:E.
  destruct (vk_take_opkts_inv _ _ _ _ E) as (ws & junk & E1 & E2 & E3 & E4).
  exists ws. split; [|exact E2]. split; [exact E3|]. right. exists n, junk. split; [now rewrite E1|].
  unfold vcnt, lenN in *. lia.
Qed.

(* ... and a line as the harness writes it (exact count, nothing after the packets) decodes to its packets *)
Lemma vk_dec_opkts_line ws : Forall hdr44 ws -> vk_dec_opkts (lenN ws :: flatw ws) = map w_obs ws.
Proof.
  intros H. unfold vk_dec_opkts.
  assert (C : vcnt (lenN ws) (flatw ws) = length ws).
  { unfold vcnt. rewrite (lenN_flatw ws H). unfold lenN. lia. }
  rewrite C, <- (app_nil_r (flatw ws)), vk_take_opkts_flat by exact H. reflexivity.
Qed.

Lemma map_w_obs_nil ws : map w_obs ws = [] -> ws = [].
Proof. now destruct ws. Qed.
Lemma map_w_obs_one ws p : map w_obs ws = [p] -> exists w, ws = [w] /\ p = w_obs w.
Proof. destruct ws as [|w [|? ?]]; try discriminate. intros H. injection H as <-. now exists w. Qed.

(* the byte count of kinds 1763 / 1764: the first min(n, what is there) numbers *)
Lemma vk_takeN_inv n r bytes r' : vk_takeN n r = (bytes, r') -> r = bytes ++ r' /\ lenN bytes = N.min n (lenN r).
Proof.
  unfold vk_takeN, vcnt. intros H. injection H as <- <-. split; [symmetry; apply firstn_skipn|].
  unfold lenN. rewrite firstn_length. lia.
Qed.
Lemma vk_takeN_app bytes r' : vk_takeN (lenN bytes) (bytes ++ r') = (bytes, r').
Proof.
  unfold vk_takeN, vcnt. rewrite lenN_app.
  replace (N.to_nat (N.min (lenN bytes) (lenN bytes + lenN r'))) with (length bytes) by (unfold lenN; lia).
  now rewrite (firstn_app_len bytes r' _ eq_refl), (skipn_app_len bytes r' _ eq_refl).
Qed.

(* ------------------------------------------------------------------------------------------------ *)
(* what the observer checks of EVERY packet of the connection (pkt_fields_ok of Model/VsockSpec.v), as a statement:
   the addressing of the connection, type = stream, buf_alloc = the driver's buffer space, fwd_cnt = the driver's forwarded
   count (the counter it started with plus the bytes the application has read, modulo 2^32), and the credit a peer computes from
   these two fields by VirtIO 1.2 5.10.6.3 - buf_alloc - (peer's tx_cnt - fwd_cnt) on 32-bit values, its tx_cnt being the
   start value plus the bytes it has sent - does not exceed the free receive space (capacity minus bytes buffered) *)
Definition pkt_carries (sp : sspec) (h : hdr) : Prop :=
  h_src_cid h = s_guest_cid sp /\ h_dst_cid h = s_peer_cid sp /\ h_src_port h = s_local_port sp /\ h_dst_port h = s_peer_port sp
  /\ h_type h = TYPE_STREAM
  /\ h_buf_alloc h = s_cap sp /\ h_fwd_cnt h = w32 (s_rx_base sp + s_delivered sp)
  /\ h_buf_alloc h - sub32 (w32 (s_rx_base sp + s_sent sp)) (h_fwd_cnt h) <= s_cap sp - lenN (s_fifo sp).

Lemma pkt_fields_ok_iff sp h : pkt_fields_ok sp h = true <-> pkt_carries sp h.
Proof.
  unfold pkt_fields_ok, pkt_carries. rewrite !andb_true_iff, !N.eqb_eq, N.leb_le. tauto.
Qed.

(* an observed control packet: decodes (by the specification's offsets) to h, passes the checks of every packet, has the
   given op, states no payload and carries none *)
Definition ctrl_pkt (sp : sspec) (w : wpkt) (op : N) (h : hdr) : Prop :=
  match w with (b, plen, _) => spec_dec b = Some h /\ pkt_carries sp h /\ h_op h = op /\ h_len h = 0 /\ plen = 0 end.

Lemma ctrl_ok_some sp w op h : ctrl_ok sp (w_obs w) op = Some h -> ctrl_pkt sp w op h.
Proof.
  destruct w as [[b plen] i]. unfold ctrl_ok, w_obs, ctrl_pkt. destruct (spec_dec b) as [h'|]; [|discriminate].
  destruct (pkt_fields_ok sp h' && (h_op h' =? op) && (h_len h' =? 0) && (plen =? 0)) eqn:E; [|discriminate].
  intros H. injection H as ->. rewrite !andb_true_iff, !N.eqb_eq, pkt_fields_ok_iff in E. tauto.
Qed.
Lemma ctrl_ok_intro sp w op h : ctrl_pkt sp w op h -> ctrl_ok sp (w_obs w) op = Some h.
Proof.
  destruct w as [[b plen] i]. unfold ctrl_ok, w_obs, ctrl_pkt. intros (-> & Hc & Ho & Hl & Hp).
  apply pkt_fields_ok_iff in Hc. rewrite Hc, Ho, Hl, Hp, !N.eqb_refl. reflexivity.
Qed.

(* ------------------------------------------------------------------------------------------------ *)
(* the judgements of the reference observer, inverted (auxiliary: stated on decoded packets `opkt`;
   the theorems on whole lines follow)                                                               *)
Ltac split_if H E :=
  match type of H with context [if ?c then _ else _] => destruct c eqn:E end.

Lemma mon_send_true sp len class code ps sp' :
  mon_send sp len class code ps = (sp', true) ->
  (len <= s_peer_alloc sp - (s_tx_total sp - s_peer_fwd sp) ->
     class = 0 /\ exists b plen h,
       ps = [(b, plen, true)] /\ spec_dec b = Some h /\ pkt_carries sp h /\ h_op h = OP_RW /\ h_len h = len /\ plen = len
       /\ sp' = set_tx (saw sp h) (s_tx_total sp + len) (s_peer_fwd sp) (s_peer_alloc sp) (s_req sp))
  /\ (s_peer_alloc sp - (s_tx_total sp - s_peer_fwd sp) < len ->
     class = 1 /\ code = SE_InsufficientBufferSpaceInPeer
     /\ (s_req sp = true -> ps = [] /\ sp' = sp)
     /\ (s_req sp = false -> exists p h, ps = [p] /\ ctrl_ok sp p OP_CREDIT_REQUEST = Some h
           /\ sp' = set_tx (saw sp h) (s_tx_total sp) (s_peer_fwd sp) (s_peer_alloc sp) true)).
Proof.
  unfold mon_send, tx_free. intros H.
  destruct (N.leb_spec len (s_peer_alloc sp - (s_tx_total sp - s_peer_fwd sp))) as [Hfit|Hfit]; (split; intros Hc; [|]); try lia.
  - destruct ps as [|[[b plen] intact] [|? ?]]; try discriminate H.
    destruct (spec_dec b) as [h|] eqn:Eh; [|discriminate H]. cbv zeta in H.
    split_if H E; [|discriminate H]. injection H as <-.
    rewrite !andb_true_iff, !N.eqb_eq, pkt_fields_ok_iff in E. destruct E as (((((E1 & E2) & E3) & E4) & E5) & E6). subst intact.
    split; [exact E1|]. exists b, plen, h. split; [reflexivity|]. split; [exact Eh|]. split; [exact E2|].
    split; [exact E3|]. split; [exact E4|]. split; [exact E5|reflexivity].
  - split_if H E; [|discriminate H]. rewrite andb_true_iff, !N.eqb_eq in E. destruct E as [E1 E2].
    split; [exact E1|]. split; [exact E2|].
    destruct (s_req sp); (split; intros Hr; [|]); try discriminate Hr.
    + destruct ps; [|discriminate H]. injection H as <-. auto.
    + destruct ps as [|p [|? ?]]; try discriminate H.
      destruct (ctrl_ok sp p OP_CREDIT_REQUEST) as [h|] eqn:Ec; [|discriminate H]. injection H as <-.
      exists p, h. auto.
Qed.

Lemma mon_peer_ctrl_true sp op alloc k class has ps sp' :
  mon_peer_ctrl sp op alloc k class has ps = (sp', true) ->
  let st1 := set_tx sp (s_tx_total sp) (s_peer_fwd sp + k) alloc (if op =? OP_CREDIT_UPDATE then false else s_req sp) in
  class = 0
  /\ (op = OP_CREDIT_REQUEST -> has = false /\ exists p h, ps = [p] /\ ctrl_ok st1 p OP_CREDIT_UPDATE = Some h /\ sp' = saw st1 h)
  /\ (op <> OP_CREDIT_REQUEST -> has = true /\ ps = [] /\ sp' = st1).
Proof.
  intros H st1. unfold mon_peer_ctrl, peer_reports in H. fold st1 in H.
  destruct (N.eqb_spec op OP_CREDIT_REQUEST) as [Eo|Eo].
  - destruct ps as [|p [|? ?]]; try discriminate H.
    destruct (ctrl_ok st1 p OP_CREDIT_UPDATE) as [h|] eqn:Ec; [|discriminate H].
    injection H as <- H. rewrite andb_true_iff, N.eqb_eq, negb_true_iff in H. destruct H as [H1 H2].
    split; [exact H1|]. split; [|intros; contradiction]. intros _. split; [exact H2|]. exists p, h. auto.
  - injection H as <- H. rewrite !andb_true_iff, N.eqb_eq in H. destruct H as [[H1 H2] H3].
    split; [exact H1|]. split; [intros; contradiction|]. intros _. split; [exact H2|]. split; [|reflexivity].
    now destruct ps.
Qed.

Lemma mon_peer_data_true sp bytes alloc k class ps sp' :
  mon_peer_data sp bytes alloc k class ps = (sp', true) ->
  let st1 := set_tx sp (s_tx_total sp) (s_peer_fwd sp + k) alloc (s_req sp) in
  (lenN bytes <= s_adv_alloc sp - sub32 (w32 (s_rx_base sp + s_sent sp)) (s_adv_fwd sp) -> class = 0 /\ ps = [])
  /\ (class = 0 -> sp' = set_rx st1 (s_sent sp + lenN bytes) (s_delivered sp) (s_fifo sp ++ bytes))
  /\ (class <> 0 -> sp' = st1).
Proof.
  intros H st1. unfold mon_peer_data, peer_reports, peer_credit in H. fold st1 in H. injection H as Hs Hv.
  split; [|split].
  - intros Hh. apply N.leb_le in Hh. rewrite Hh in Hv. rewrite andb_true_iff, N.eqb_eq in Hv. destruct Hv as [Hc Hp].
    split; [exact Hc|now destruct ps].
  - intros ->. now rewrite <- Hs.
  - intros Hc. apply N.eqb_neq in Hc. now rewrite Hc in Hs.
Qed.

Lemma mon_recv_true sp out_len class n bytes ps sp' :
  mon_recv sp out_len class n bytes ps = (sp', true) ->
  class = 0 /\ n = N.min out_len (lenN (s_fifo sp)) /\ lenN bytes = n /\ ps = []
  /\ exists rest, s_fifo sp = bytes ++ rest /\ sp' = set_rx sp (s_sent sp) (s_delivered sp + n) rest.
Proof.
  unfold mon_recv, fifo_drain. cbv zeta. intros H.
  set (kk := N.to_nat (N.min out_len (lenN (s_fifo sp)))) in *.
  split_if H E; [|discriminate H]. injection H as <-.
  rewrite !andb_true_iff, !N.eqb_eq in E. destruct E as [[[E1 E2] E3] E4]. apply list_eqb_eq in E3.
  assert (Hk : lenN (firstn kk (s_fifo sp)) = N.min out_len (lenN (s_fifo sp))).
  { unfold lenN in *. rewrite firstn_length. lia. }
  split; [exact E1|]. split; [lia|]. split; [rewrite E3; lia|]. split; [now destruct ps|].
  exists (skipn kk (s_fifo sp)). split; [rewrite E3; symmetry; apply firstn_skipn|reflexivity].
Qed.

Lemma mon_update_credit_true sp class ps sp' :
  mon_update_credit sp class ps = (sp', true) ->
  class = 0 /\ exists p h, ps = [p] /\ ctrl_ok sp p OP_CREDIT_UPDATE = Some h /\ sp' = saw sp h.
Proof.
  unfold mon_update_credit. intros H. destruct ps as [|p [|? ?]]; try discriminate H.
  destruct (ctrl_ok sp p OP_CREDIT_UPDATE) as [h|] eqn:Ec; [|discriminate H].
  injection H as <- H. apply N.eqb_eq in H. split; [exact H|]. exists p, h. auto.
Qed.

Lemma mon_other_pkt_true sp w sp' :
  mon_other_pkt sp (w_obs w) = (sp', true) ->
  exists h, ctrl_pkt sp w (h_op h) h /\ sp' = saw sp h.
Proof.
  destruct w as [[b plen] i]. unfold mon_other_pkt, w_obs, ctrl_pkt. destruct (spec_dec b) as [h|]; [|discriminate].
  intros H. injection H as <- H. rewrite !andb_true_iff, !N.eqb_eq, pkt_fields_ok_iff in H. destruct H as [[H1 H2] H3].
  exists h. split; [|reflexivity]. split; [reflexivity|]. split; [exact H1|]. auto.
Qed.

Lemma n2b_true i : n2b i = true -> i <> 0.
Proof. unfold n2b. intros H. apply negb_true_iff in H. now apply N.eqb_neq. Qed.
Lemma n2b_false i : n2b i = false -> i = 0.
Proof. unfold n2b. intros H. apply negb_false_iff in H. now apply N.eqb_eq. Qed.

(* ------------------------------------------------------------------------------------------------ *)
(* kinds 1761 .. 1766: one operation of a whole connection, judged by the reference observer         *)
(* Throughout, sp = vs_spec s is the observer's state BEFORE the operation, and `opkts_layout r ws` says that the tail r of
   the line is the list of the packets ws the device found on the transmit queue during the operation, each
   (44 header bytes, payload bytes following the header, payload-intact flag).                                            *)

(* kind 1761, written after VsockConnectionManager::send of len bytes: [len; outcome class; error code] ++ packets.
   A true verdict says, with free = peer_buf_alloc - (T - F) the space the peer last advertised minus the payload bytes in
   flight (unbounded counters of the observer):
     - the payload fits: the send SUCCEEDED with exactly one packet; its 44 bytes decode by the specification's offsets to a
       header h with the connection's addressing, type stream, the driver's current buf_alloc and fwd_cnt, a credit that does not
       overstate the free receive space (pkt_carries), op = RW, len field = len; len payload bytes follow and they are the
       caller's bytes.  Hence (for a non-empty payload) the bytes in flight AFTER the send still fit what the peer advertised.
       The observer records T + len bytes sent and h's buf_alloc / fwd_cnt as what the peer now knows;
     - it does not fit: the send was REFUSED with InsufficientBufferSpaceInPeer; if a credit request was already out, NOTHING
       was sent and the observer's state is unchanged; otherwise exactly one packet went out, a credit request (op 7, no
       payload) that passes the checks of every packet, and the observer records that a request is out. *)
Theorem mon1761_meaning s ins st' :
  vsock_step (Some s) 1761 ins = (st', [1]) ->
  exists len class code r ws,
    ins = len :: class :: code :: r /\ opkts_layout r ws
    /\ let sp := vs_spec s in
       let free := s_peer_alloc sp - (s_tx_total sp - s_peer_fwd sp) in
       (len <= free ->
          class = 0
          /\ exists b plen intact h,
               ws = [(b, plen, intact)] /\ spec_dec b = Some h /\ pkt_carries sp h
               /\ h_op h = OP_RW /\ h_len h = len /\ plen = len /\ intact <> 0
               /\ (0 < len -> s_tx_total sp + len - s_peer_fwd sp <= s_peer_alloc sp)
               /\ st' = Some (vk_set_spec s (set_tx (saw sp h) (s_tx_total sp + len) (s_peer_fwd sp) (s_peer_alloc sp) (s_req sp))))
       /\ (free < len ->
          class = 1 /\ code = SE_InsufficientBufferSpaceInPeer
          /\ (s_req sp = true -> ws = [] /\ st' = Some s)
          /\ (s_req sp = false ->
                exists w h, ws = [w] /\ ctrl_pkt sp w OP_CREDIT_REQUEST h
                  /\ st' = Some (vk_set_spec s (set_tx (saw sp h) (s_tx_total sp) (s_peer_fwd sp) (s_peer_alloc sp) true)))).
Proof.
  rewrite step1761. cbn [vk_get]. destruct ins as [|len [|class [|code r]]]; intros H; try (now apply vk_bad_not_one in H).
  apply vk_mon_inv in H. destruct H as [Hb ->].
  destruct (vk_dec_opkts_layout r) as (ws & Hl & Hd). rewrite Hd in *.
  exists len, class, code, r, ws. split; [reflexivity|]. split; [exact Hl|]. cbv zeta.
  destruct (mon_send (vs_spec s) len class code (map w_obs ws)) as [sp' b] eqn:E. cbn [fst snd] in *. subst b.
  destruct (mon_send_true _ _ _ _ _ _ E) as [Hfit Hno]. split.
  - intros Hc. destruct (Hfit Hc) as (Hcl & b & plen & h & Hps & Hdec & Hcar & Hop & Hlen & Hpl & ->).
    split; [exact Hcl|]. apply map_w_obs_one in Hps. destruct Hps as ([[b' plen'] i] & -> & Hw).
    cbn [w_obs] in Hw. injection Hw as <- <- Hi. symmetry in Hi. apply n2b_true in Hi.
    exists b, plen, i, h. split; [reflexivity|]. do 6 (split; [assumption|]). split; [intros Hpos; lia|reflexivity].
  - intros Hc. destruct (Hno Hc) as (Hcl & Hco & Hreq & Hnoreq). split; [exact Hcl|]. split; [exact Hco|]. split.
    + intros Hr. destruct (Hreq Hr) as (Hps & ->). apply map_w_obs_nil in Hps. split; [exact Hps|]. now rewrite vk_set_spec_id.
    + intros Hr. destruct (Hnoreq Hr) as (p & h & Hps & Hck & ->). apply map_w_obs_one in Hps. destruct Hps as (w & -> & ->).
      exists w, h. split; [reflexivity|]. split; [now apply ctrl_ok_some|reflexivity].
Qed.

(* kind 1762, written after poll() consumed a CONTROL packet of the peer (op 2 response, 6 credit update, 7 credit request)
   that reports buf_alloc = alloc and k more bytes consumed: [op; alloc; k; outcome class of poll; poll returned an event] ++
   packets.  The observer first books the report (sp1: F + k consumed, the new buf_alloc, and a credit update clears the
   "request is out" mark).  A true verdict says: poll returned Ok, and
     - a credit request was ANSWERED: no event for the application, exactly one packet: a credit update (op 6, no payload)
       carrying the connection's addressing and the driver's current buf_alloc / fwd_cnt (pkt_carries: the receive-side fields of
       sp1 are those of sp); the observer records its two numbers as what the peer now knows;
     - any other control packet is reported as an event and nothing is sent. *)
Theorem mon1762_meaning s ins st' :
  vsock_step (Some s) 1762 ins = (st', [1]) ->
  exists op alloc k class has r ws,
    ins = op :: alloc :: k :: class :: has :: r /\ opkts_layout r ws
    /\ let sp := vs_spec s in
       let sp1 := set_tx sp (s_tx_total sp) (s_peer_fwd sp + k) alloc (if op =? OP_CREDIT_UPDATE then false else s_req sp) in
       class = 0
       /\ (op = OP_CREDIT_REQUEST ->
             has = 0 /\ exists w h, ws = [w] /\ ctrl_pkt sp w OP_CREDIT_UPDATE h /\ st' = Some (vk_set_spec s (saw sp1 h)))
       /\ (op <> OP_CREDIT_REQUEST -> has <> 0 /\ ws = [] /\ st' = Some (vk_set_spec s sp1)).
Proof.
  rewrite step1762. cbn [vk_get]. destruct ins as [|op [|alloc [|k [|class [|has r]]]]]; intros H; try (now apply vk_bad_not_one in H).
  apply vk_mon_inv in H. destruct H as [Hb ->].
  destruct (vk_dec_opkts_layout r) as (ws & Hl & Hd). rewrite Hd in *.
  exists op, alloc, k, class, has, r, ws. split; [reflexivity|]. split; [exact Hl|]. cbv zeta.
  destruct (mon_peer_ctrl (vs_spec s) op alloc k class (n2b has) (map w_obs ws)) as [sp' b] eqn:E. cbn [fst snd] in *. subst b.
  destruct (mon_peer_ctrl_true _ _ _ _ _ _ _ _ E) as (Hcl & Hreq & Hoth). cbv zeta in Hreq, Hoth.
  split; [exact Hcl|]. split.
  - intros Ho. destruct (Hreq Ho) as (Hh & p & h & Hps & Hck & ->). apply n2b_false in Hh. split; [exact Hh|].
    apply map_w_obs_one in Hps. destruct Hps as (w & -> & ->). exists w, h. split; [reflexivity|]. split; [|reflexivity].
    apply ctrl_ok_some in Hck. destruct w as [[b plen] i]. exact Hck.
  - intros Ho. destruct (Hoth Ho) as (Hh & Hps & ->). apply n2b_true in Hh. apply map_w_obs_nil in Hps. auto.
Qed.

(* kind 1763, written after poll() consumed a DATA packet of the peer with the payload `bytes`, reporting buf_alloc = alloc
   and k more bytes consumed: [alloc; k; outcome class of poll; n] ++ the n payload bytes ++ packets.
   A true verdict says: IF the peer stayed within the credit of the last packet it saw from the driver (5.10.6.3 on the
   32-bit fields: buf_alloc - (its tx_cnt - fwd_cnt), its tx_cnt being its start value plus the S bytes sent so far), THEN the
   packet was accepted (poll returned Ok) and nothing was sent: a peer that honours the advertised credit is never refused.
   (Nothing is demanded of a packet beyond the credit.)  The observer books the report of the peer and, when poll returned Ok,
   appends the payload to the byte stream the application has still to read. *)
Theorem mon1763_meaning s ins st' :
  vsock_step (Some s) 1763 ins = (st', [1]) ->
  exists alloc k class n bytes r ws,
    ins = alloc :: k :: class :: n :: bytes ++ r /\ lenN bytes = N.min n (lenN (bytes ++ r)) /\ opkts_layout r ws
    /\ let sp := vs_spec s in
       let sp1 := set_tx sp (s_tx_total sp) (s_peer_fwd sp + k) alloc (s_req sp) in
       (lenN bytes <= s_adv_alloc sp - sub32 (w32 (s_rx_base sp + s_sent sp)) (s_adv_fwd sp) -> class = 0 /\ ws = [])
       /\ (class = 0 ->
             st' = Some (vk_set_spec s (set_rx sp1 (s_sent sp + lenN bytes) (s_delivered sp) (s_fifo sp ++ bytes))))
       /\ (class <> 0 -> st' = Some (vk_set_spec s sp1)).
Proof.
  rewrite step1763. cbn [vk_get]. destruct ins as [|alloc [|k [|class [|n r0]]]]; intros H; try (now apply vk_bad_not_one in H).
  destruct (vk_takeN n r0) as [bytes r] eqn:Et. destruct (vk_takeN_inv _ _ _ _ Et) as [-> Hn].
  apply vk_mon_inv in H. destruct H as [Hb ->].
  destruct (vk_dec_opkts_layout r) as (ws & Hl & Hd). rewrite Hd in *.
  exists alloc, k, class, n, bytes, r, ws. split; [reflexivity|]. split; [exact Hn|]. split; [exact Hl|]. cbv zeta.
  destruct (mon_peer_data (vs_spec s) bytes alloc k class (map w_obs ws)) as [sp' b] eqn:E. cbn [fst snd] in *. subst b.
  destruct (mon_peer_data_true _ _ _ _ _ _ _ E) as (Hh & Hok & Hno). cbv zeta in Hok, Hno.
  split; [|split].
  - intros Hc. destruct (Hh Hc) as [Hcl Hps]. apply map_w_obs_nil in Hps. auto.
  - intros Hc. now rewrite (Hok Hc).
  - intros Hc. now rewrite (Hno Hc).
Qed.

(* kind 1764, written after VsockConnectionManager::recv into a buffer of out_len bytes: [out_len; outcome class; n] ++ the n
   bytes returned ++ packets.  A true verdict says: recv returned Ok(n) with n = min(out_len, bytes buffered); the bytes
   returned are exactly the n OLDEST bytes the peer sent that the application has not read yet (s_fifo = bytes ++ rest), in
   order; nothing was sent.  The observer books n more bytes delivered, `rest` still to be read. *)
Theorem mon1764_meaning s ins st' :
  vsock_step (Some s) 1764 ins = (st', [1]) ->
  exists out_len class n bytes r rest,
    ins = out_len :: class :: n :: bytes ++ r /\ opkts_layout r []
    /\ let sp := vs_spec s in
       class = 0 /\ n = N.min out_len (lenN (s_fifo sp)) /\ lenN bytes = n /\ s_fifo sp = bytes ++ rest
       /\ st' = Some (vk_set_spec s (set_rx sp (s_sent sp) (s_delivered sp + n) rest)).
Proof.
  rewrite step1764. cbn [vk_get]. destruct ins as [|out_len [|class [|n r0]]]; intros H; try (now apply vk_bad_not_one in H).
  destruct (vk_takeN n r0) as [bytes r] eqn:Et. destruct (vk_takeN_inv _ _ _ _ Et) as [-> Hn].
  apply vk_mon_inv in H. destruct H as [Hb ->].
  destruct (vk_dec_opkts_layout r) as (ws & Hl & Hd). rewrite Hd in *.
  destruct (mon_recv (vs_spec s) out_len class n bytes (map w_obs ws)) as [sp' b] eqn:E. cbn [fst snd] in *. subst b.
  destruct (mon_recv_true _ _ _ _ _ _ _ E) as (Hcl & Hmin & Hlen & Hps & rest & Hf & ->).
  apply map_w_obs_nil in Hps. subst ws.
  exists out_len, class, n, bytes, r, rest. split; [reflexivity|]. split; [exact Hl|]. cbv zeta. auto.
Qed.

(* kind 1765, written after VsockConnectionManager::update_credit: [outcome class] ++ packets.  A true verdict says: the call
   returned Ok and exactly one packet went out, a credit update (op 6, no payload) with the connection's addressing and the
   driver's current buf_alloc / fwd_cnt, its credit not overstating the free receive space; the observer records the two
   numbers as what the peer now knows. *)
Theorem mon1765_meaning s ins st' :
  vsock_step (Some s) 1765 ins = (st', [1]) ->
  exists class r w h,
    ins = class :: r /\ opkts_layout r [w] /\ class = 0
    /\ ctrl_pkt (vs_spec s) w OP_CREDIT_UPDATE h /\ st' = Some (vk_set_spec s (saw (vs_spec s) h)).
Proof.
  rewrite step1765. cbn [vk_get]. destruct ins as [|class r]; intros H; try (now apply vk_bad_not_one in H).
  apply vk_mon_inv in H. destruct H as [Hb ->].
  destruct (vk_dec_opkts_layout r) as (ws & Hl & Hd). rewrite Hd in *.
  destruct (mon_update_credit (vs_spec s) class (map w_obs ws)) as [sp' b] eqn:E. cbn [fst snd] in *. subst b.
  destruct (mon_update_credit_true _ _ _ _ E) as (Hcl & p & h & Hps & Hck & ->).
  apply map_w_obs_one in Hps. destruct Hps as (w & -> & ->).
  exists class, r, w, h. split; [reflexivity|]. split; [exact Hl|]. split; [exact Hcl|]. split; [now apply ctrl_ok_some|reflexivity].
Qed.

(* kind 1766, written after connect and after shutdown: the packets of the operation, nothing else.  A true verdict says:
   there was exactly ONE packet; it decodes to a header h with the connection's addressing, type stream, the driver's current
   buf_alloc / fwd_cnt, a credit that does not overstate the free receive space, it states no payload and carries none (its op and
   flags are not looked at); the observer records its two numbers as what the peer now knows. *)
Theorem mon1766_meaning s ins st' :
  vsock_step (Some s) 1766 ins = (st', [1]) ->
  exists w h, opkts_layout ins [w] /\ ctrl_pkt (vs_spec s) w (h_op h) h /\ st' = Some (vk_set_spec s (saw (vs_spec s) h)).
Proof.
  rewrite step1766. cbn [vk_get].
  destruct (vk_dec_opkts_layout ins) as (ws & Hl & Hd). rewrite Hd.
  destruct ws as [|w [|? ?]]; cbn [map]; intros H; try (injection H as _ H; discriminate H).
  apply vk_mon_inv in H. destruct H as [Hb ->].
  destruct (mon_other_pkt (vs_spec s) (w_obs w)) as [sp' b] eqn:E. cbn [fst snd] in *. subst b.
  destruct (mon_other_pkt_true _ _ _ E) as (h & Hck & ->). exists w, h. auto.
Qed.

(* ------------------------------------------------------------------------------------------------ *)
(* a scenario starts without a state (None), which stands for the state vs0: the theorems above, stated for `Some s`, cover
   the first line of a scenario as well - an accepted stateful line from None is the same line accepted from Some vs0 *)
Ltac from_none_tac ins :=
  repeat match goal with
         | |- _ = _ -> _ => first [ solve [ let H := fresh in intro H; first [exact H | exfalso; exact (vk_bad_not_one _ _ H)] ]
                                  | destruct ins as [|? ins] ]
         end.

Theorem vsock_step_from_none k ins st' :
  k = 1751 \/ k = 1752 \/ k = 1753 \/ k = 1760 \/ k = 1761 \/ k = 1762 \/ k = 1763 \/ k = 1764 \/ k = 1765 \/ k = 1766 ->
  vsock_step None k ins = (st', [1]) -> vsock_step (Some vs0) k ins = (st', [1]).
Proof.
  intros [-> | [-> | [-> | [-> | [-> | [-> | [-> | [-> | [-> | ->]]]]]]]]].
  - rewrite !step1751. cbn [vk_get]. from_none_tac ins.
  - rewrite !step1752. cbn [vk_get]. destruct ins as [|ok bytes]; [intros H; exfalso; exact (vk_bad_not_one _ _ H)|].
    destruct (1 <? ok); [intros H; injection H as _ H; discriminate H|]. now intros H.
  - rewrite !step1753. cbn [vk_get]. from_none_tac ins.
  - rewrite !step1760. cbn [vk_get]. from_none_tac ins.
  - rewrite !step1761. cbn [vk_get]. from_none_tac ins.
  - rewrite !step1762. cbn [vk_get]. from_none_tac ins.
  - rewrite !step1763. cbn [vk_get]. from_none_tac ins.
  - rewrite !step1764. cbn [vk_get]. from_none_tac ins.
  - rewrite !step1765. cbn [vk_get]. from_none_tac ins.
  - rewrite !step1766. cbn [vk_get]. destruct (vk_dec_opkts ins) as [|p [|? ?]]; intros H; try (injection H as _ H; discriminate H).
    exact H.
Qed.

(* ================================================================================================ *)
(* B. THE MODEL PASSES ITS MONITORS                                                                  *)
(* ================================================================================================ *)

(* ------------------------------------------------------------------------------------------------ *)
(* 1751 .. 1753 from the ring-buffer refinement theorems (rb_new_spec, rb_add_refines, rb_drain_refines).  The hypothesis is
   that the specification's queue IS the abstraction of the ring buffer; each theorem re-establishes it for the next line. *)

Theorem mon1751_holds_of_model s cap :
  1 <= cap ->
  vsock_step (Some s) 1751 [cap] = (Some (vk_set_q s (rb_cap (rb_new cap)) (rb_abs (rb_new cap))), [1]) /\ rb_wf (rb_new cap).
Proof.
  intros H. destruct (rb_new_spec cap H) as (Hw & -> & ->). split; [reflexivity|exact Hw].
Qed.

(* the line of scen/c17.rs for RingBuffer::add: [1 when add returned true, 0 when false, 2 when it panicked] ++ bytes *)
Definition enc1752 (o : outcome bool) (bytes : list N) : list N :=
  match o with Ok b => b2n b | _ => 2 end :: bytes.

Theorem mon1752_holds_of_model s rb bytes :
  rb_wf rb -> vs_qcap s = rb_cap rb -> vs_q s = rb_abs rb ->
  let '(o, rb') := rb_add rb bytes in
  vsock_step (Some s) 1752 (enc1752 o bytes) = (Some (vk_set_q s (rb_cap rb') (rb_abs rb')), [1]) /\ rb_wf rb'.
Proof.
  intros Hwf Hc Hq. pose proof (rb_add_refines rb bytes Hwf) as H.
  destruct (fifo_add (rb_cap rb) (rb_abs rb) bytes) as [q'|] eqn:Ef.
  - destruct H as (rb' & -> & Ha & Hw' & Hc' & _). split; [|exact Hw'].
    rewrite step1752. cbn [enc1752 b2n vk_get]. change (1 <? 1) with false. cbv iota.
    unfold mon_fifo_add. rewrite Hc, Hq, Ef. rewrite Ha, Hc'. reflexivity.
  - rewrite H. split; [|exact Hwf].
    rewrite step1752. cbn [enc1752 b2n vk_get]. change (1 <? 0) with false. cbv iota.
    unfold mon_fifo_add. rewrite Hc, Hq, Ef. reflexivity.
Qed.

(* the line for RingBuffer::drain(out), |out| = out_len: [out_len; count returned] ++ the bytes written to out *)
Theorem mon1753_holds_of_model s rb out_len :
  rb_wf rb -> vs_qcap s = rb_cap rb -> vs_q s = rb_abs rb ->
  let '(o, rb') := rb_drain rb out_len in
  exists bytes, o = Ok bytes
    /\ vsock_step (Some s) 1753 (out_len :: lenN bytes :: bytes) = (Some (vk_set_q s (rb_cap rb') (rb_abs rb')), [1]) /\ rb_wf rb'.
Proof.
  intros Hwf Hc Hq. destruct (rb_drain_refines rb out_len Hwf) as (rb' & -> & Ha & Hw' & Hc' & _).
  eexists. split; [reflexivity|]. split; [|exact Hw'].
  rewrite step1753. cbn [vk_get]. unfold mon_fifo_drain. rewrite Hq, Hc.
  destruct (fifo_drain (rb_abs rb) out_len) as [exp q'] eqn:Ed. cbn [fst snd] in *.
  rewrite N.eqb_refl, list_eqb_refl, Ha, Hc'. reflexivity.
Qed.

(* ------------------------------------------------------------------------------------------------ *)
(* 1771, 1770, 1767 from done_forwarding / send_ok_spec / send_refused_spec / hdr_on_wire / send_header                        *)

(* done_forwarding never fails (class 0): for EVERY counter value and every usize length, also across 2^32 *)
Theorem mon1771_holds_of_model st c n :
  vsock_step st 1771 [c_fwd_cnt c; n; 0; c_fwd_cnt (done_forwarding c n)] = (st, [1]).
Proof.
  rewrite step1771. unfold done_forwarding, set_fwd_cnt. cbn [c_fwd_cnt]. now rewrite !N.eqb_refl.
Qed.

(* the line send_case of scen/c17.rs writes from one `send`: counters before, the result, counters after, number of packets
   and op / len field / payload length of the first one (zeros when there is none) *)
Definition enc1770 (c : conn) (len : N) (r : outcome unit * conn * list pkt) : list N :=
  match r with
  | (o, c', p) =>
      [c_peer_buf_alloc c; c_peer_fwd_cnt c; c_tx_cnt c; b2n (c_pending c); len; class_of o; code_of o;
       c_tx_cnt c'; b2n (c_pending c'); lenN p]
      ++ match p with Pkt h n :: _ => [h_op h; h_len h; n] | [] => [0; 0; 0] end
  end.

(* for EVERY value of tx_cnt / peer_fwd_cnt (no hypothesis on them: wrapped or not), every pending flag and every usize length;
   peer_buf_alloc is a u32 *)
Theorem mon1770_holds_of_model st c src len :
  c_peer_buf_alloc c < two32 -> vsock_step st 1770 (enc1770 c len (send c src len)) = (st, [1]).
Proof.
  intros Ha. destruct (N.leb_spec len (c_peer_buf_alloc c - in_flight c)) as [H|H].
  - destruct (proj2 (send_accepts_iff c src len) H) as (c1 & p1 & E1). rewrite E1.
    destruct (send_ok_spec _ _ _ _ _ E1) as (_ & -> & ->).
    assert (Hw : w32 len = len) by (unfold w32; apply N.mod_small; unfold two32 in *; lia).
    rewrite Hw. unfold enc1770. cbn [class_of code_of set_tx_cnt c_tx_cnt c_pending lenN length with_op_len h_op h_len app].
    rewrite step1770. cbv zeta. fold (in_flight c). apply N.leb_le in H. rewrite H.
    change (N.of_nat 1) with 1. now rewrite !N.eqb_refl.
  - rewrite (send_refused_spec c src len H). unfold enc1770. rewrite step1770.
    destruct (c_pending c) eqn:Ep; cbn [class_of code_of c_tx_cnt c_pending set_pending lenN length with_op new_header h_op h_len app b2n];
      cbv zeta; fold (in_flight c); (destruct (N.leb_spec len (c_peer_buf_alloc c - in_flight c)) as [?|_]; [lia|]);
      rewrite ?Ep, !N.eqb_refl; reflexivity.
Qed.

(* the header encoder round trip: the 44 bytes the crate emits for h, judged against h's own fields *)
Theorem mon1767_holds_of_model st h :
  hdr_wf h -> vsock_step st 1767 (vk_enc_hdr_fields h ++ enc_hdr h) = (st, [1]).
Proof.
  intros Hwf. unfold vk_enc_hdr_fields. cbn [app]. rewrite step1767, (hdr_on_wire h Hwf).
  fold (vk_enc_hdr_fields h). now rewrite list_eqb_refl, enc_hdr_length.
Qed.

(* ... and with the fields asked for computed as send_case computes them, from the connection and the call and NOT from the
   packet (only the choice between the two admissible packet kinds follows the observed op): every packet `send` puts on the
   queue passes *)
Theorem mon1767_holds_of_send st c src len o c' p h n :
  ids_wf c src -> conn_wf c -> send c src len = (o, c', p) -> In (Pkt h n) p ->
  vsock_step st 1767
    ([src; c_dst_cid c; c_src_port c; c_dst_port c; (if h_op h =? OP_RW then len else 0); 1;
      (if h_op h =? OP_RW then OP_RW else OP_CREDIT_REQUEST); 0; c_buf_alloc c; c_fwd_cnt c] ++ enc_hdr h) = (st, [1]).
Proof.
  intros Hi Hw E Hin. destruct (send_header c src len o c' p Hi Hw E) as (Hall & _).
  rewrite Forall_forall in Hall. specialize (Hall _ Hin). cbv beta iota in Hall.
  destruct Hall as ((Hdec & H1 & H2 & H3 & H4 & H5 & H6 & H7 & H8) & Hk).
  cbn [app]. rewrite step1767, Hdec, enc_hdr_length. unfold vk_enc_hdr_fields.
  rewrite H1, H2, H3, H4, H5, H6, H7, H8.
  destruct Hk as [(_ & Ho & Hl & _)|(_ & Ho & Hl & _)]; rewrite Ho, Hl; cbn [N.eqb Pos.eqb OP_RW OP_CREDIT_REQUEST];
    now rewrite list_eqb_refl.
Qed.

(* ------------------------------------------------------------------------------------------------ *)
(* 1761 .. 1766 from the step theorems of Proofs/VsockProofs.v (step_send, step_peer_ctrl, step_peer_data, step_recv,
   step_update_credit): in every state related (Rel) to the observer's, the line written from the model's own operation gets the
   verdict [1], and the relation holds again between the model's new state and the observer's new state - so the lines of a whole
   history written from the model are all accepted (sys_run_ok is that induction).                                            *)

(* the packets of the model as the harness writes observed packets (enc_opkts of scen/c17.rs): the count, then per packet the
   44 bytes of the header, the payload length, 1 (header complete and the payload is the caller's: the model's packet IS
   (header, the caller's payload)) *)
Definition enc_opkts (ps : list pkt) : list N :=
  lenN ps :: flatw (map (fun p => match p with Pkt h n => (enc_hdr h, n, 1) end) ps).

Lemma vk_dec_enc_opkts ps : vk_dec_opkts (enc_opkts ps) = obs_pkts ps.
Proof.
  unfold enc_opkts. rewrite <- (lenN_map (fun p => match p with Pkt h n => (enc_hdr h, n, 1) end) ps).
  rewrite vk_dec_opkts_line.
  - unfold obs_pkts. rewrite map_map. apply map_ext. now intros [h n].
  - apply Forall_forall. intros w Hw. apply in_map_iff in Hw. destruct Hw as ([h n] & <- & _).
    cbn [hdr44]. pose proof (enc_hdr_length h) as L. unfold lenN in L. lia.
Qed.

Theorem mon1761_holds_of_model s v len :
  Rel v (vs_spec s) ->
  let '(o, v', p) := vsend v (s_guest_cid (vs_spec s)) len in
  exists sp', vsock_step (Some s) 1761 (len :: class_of o :: code_of o :: enc_opkts p) = (Some (vk_set_spec s sp'), [1])
              /\ Rel v' sp'.
Proof.
  intros R. destruct (step_send v (vs_spec s) len R) as (v' & st' & E & R' & _). cbn [sys_step] in E.
  destruct (vsend v (s_guest_cid (vs_spec s)) len) as [[o v1] p].
  destruct (mon_send (vs_spec s) len (class_of o) (code_of o) (obs_pkts p)) as [st1 b] eqn:Em.
  injection E as -> -> ->. exists st'. split; [|exact R'].
  rewrite step1761, vk_dec_enc_opkts. cbn [vk_get]. rewrite Em. reflexivity.
Qed.

(* the peer's control packet is the environment: op one of response / credit update / credit request, a 32-bit buf_alloc, and
   k <= bytes in flight (env_ok); the line carries what poll returned and sent *)
Theorem mon1762_holds_of_model s v op alloc k :
  Rel v (vs_spec s) -> env_ok (vs_spec s) (SPeerCtrl op alloc k) = true ->
  exists o v' p sp',
    poll_packet v (s_guest_cid (vs_spec s)) (enc_hdr (peer_hdr (vs_spec s) op alloc k 0)) = Some (o, v', p)
    /\ vsock_step (Some s) 1762 (op :: alloc :: k :: class_of o :: b2n (has_ev o) :: enc_opkts p) = (Some (vk_set_spec s sp'), [1])
    /\ Rel v' sp'.
Proof.
  intros R He. destruct (step_peer_ctrl v (vs_spec s) op alloc k R He) as (v' & st' & E & R' & _). cbn [sys_step] in E.
  destruct (poll_packet v (s_guest_cid (vs_spec s)) (enc_hdr (peer_hdr (vs_spec s) op alloc k 0))) as [[[o v1] p]|]; [|discriminate E].
  destruct (mon_peer_ctrl (vs_spec s) op alloc k (class_of o) (has_ev o) (obs_pkts p)) as [st1 b] eqn:Em.
  injection E as -> -> ->. exists o, v', p, st'. split; [reflexivity|]. split; [|exact R'].
  rewrite step1762, vk_dec_enc_opkts. cbn [vk_get].
  replace (n2b (b2n (has_ev o))) with (has_ev o) by (now destruct (has_ev o)). rewrite Em. reflexivity.
Qed.

(* a data packet of a peer that honours the advertised credit (env_ok: its payload fits buf_alloc - (tx_cnt - fwd_cnt) of the
   last packet it saw) *)
Theorem mon1763_holds_of_model s v bytes alloc k :
  Rel v (vs_spec s) -> env_ok (vs_spec s) (SPeerData bytes alloc k) = true ->
  exists o v' p sp',
    poll_packet v (s_guest_cid (vs_spec s)) (enc_hdr (peer_hdr (vs_spec s) OP_RW alloc k (lenN bytes)) ++ bytes) = Some (o, v', p)
    /\ vsock_step (Some s) 1763 (alloc :: k :: class_of o :: lenN bytes :: bytes ++ enc_opkts p) = (Some (vk_set_spec s sp'), [1])
    /\ Rel v' sp'.
Proof.
  intros R He. destruct (step_peer_data v (vs_spec s) bytes alloc k R He) as (v' & st' & E & R' & _). cbn [sys_step] in E.
  destruct (poll_packet v (s_guest_cid (vs_spec s)) (enc_hdr (peer_hdr (vs_spec s) OP_RW alloc k (lenN bytes)) ++ bytes))
    as [[[o v1] p]|]; [|discriminate E].
  destruct (mon_peer_data (vs_spec s) bytes alloc k (class_of o) (obs_pkts p)) as [st1 b] eqn:Em.
  injection E as -> -> ->. exists o, v', p, st'. split; [reflexivity|]. split; [|exact R'].
  rewrite step1763, vk_takeN_app, vk_dec_enc_opkts. cbn [vk_get]. rewrite Em. reflexivity.
Qed.

(* recv into a buffer of out_len bytes: the line carries the class, the count and the bytes handed out; recv sends nothing *)
Theorem mon1764_holds_of_model s v out_len :
  Rel v (vs_spec s) ->
  let '(o, v') := recv v out_len in
  exists bytes sp',
    o = Ok bytes
    /\ vsock_step (Some s) 1764 (out_len :: class_of o :: lenN bytes :: bytes ++ enc_opkts []) = (Some (vk_set_spec s sp'), [1])
    /\ Rel v' sp'.
Proof.
  intros R. destruct (step_recv v (vs_spec s) out_len R) as (v' & st' & bytes & E & R' & _). cbn [sys_step] in E.
  destruct (recv v out_len) as [o v1] eqn:Er.
  assert (Ho : o = Ok (match o with Ok b => b | _ => [] end)).
  { unfold recv in Er. destruct (rb_drain_refines (v_rb v) out_len (R_wf _ _ R)) as (rb' & Ed & _). rewrite Ed in Er.
    injection Er as <- _. reflexivity. }
  destruct (mon_recv (vs_spec s) out_len (class_of o) (lenN match o with Ok b => b | _ => [] end)
              match o with Ok b => b | _ => [] end []) as [st1 b] eqn:Em.
  injection E as -> -> -> Hb. exists bytes, st'. rewrite Hb in Ho. split; [exact Ho|]. split; [|exact R'].
  rewrite step1764, vk_takeN_app. cbn [vk_get]. change (vk_dec_opkts (enc_opkts [])) with (@nil opkt).
  rewrite <- Hb, Em. reflexivity.
Qed.

Theorem mon1765_holds_of_model s v :
  Rel v (vs_spec s) ->
  exists sp', vsock_step (Some s) 1765 (0 :: enc_opkts (vupdate_credit v (s_guest_cid (vs_spec s)))) = (Some (vk_set_spec s sp'), [1])
              /\ Rel v sp'.
Proof.
  intros R. destruct (step_update_credit v (vs_spec s) R) as (st' & E & R' & _). cbn [sys_step] in E.
  destruct (mon_update_credit (vs_spec s) 0 (obs_pkts (vupdate_credit v (s_guest_cid (vs_spec s))))) as [st1 b] eqn:Em.
  injection E as -> ->. exists st'. split; [|exact R'].
  rewrite step1765, vk_dec_enc_opkts. cbn [vk_get]. rewrite Em. reflexivity.
Qed.

(* 1760: the observer state a line 1760 sets up is related to the model's connection with the same numbers (Rel_init): the
   hypothesis `Rel` of the theorems above holds at the start of a history, for ANY 32-bit start values of the counters *)
Theorem mon1760_holds_of_model s guest pc pp lp cap rxb txb alloc :
  guest < two64 -> pc < two64 -> pp < two32 -> lp < two32 -> 1 <= cap -> cap < two32 ->
  rxb < two32 -> txb < two32 -> alloc < two32 ->
  exists sp', vsock_step (Some s) 1760 [guest; pc; pp; lp; cap; rxb; txb; 0; alloc; 0] = (Some (vk_set_spec s sp'), [1])
              /\ Rel (mkV (mkConn pc pp lp alloc txb txb cap rxb false) (rb_new cap)) sp'.
Proof.
  intros. eexists. split; [rewrite step1760; reflexivity|]. now apply Rel_init.
Qed.

(* 1766: connect / shutdown themselves belong to the connection manager model of C18; what C17's model has is the header every
   such packet is built from (new_header: addressing, type, current buf_alloc / fwd_cnt).  ANY packet without payload built on
   it - whatever op and flags are then filled in - passes, and the relation is kept. *)
Theorem mon1766_holds_of_model s v op flags :
  Rel v (vs_spec s) -> op < two16 -> flags < two32 ->
  let c := v_info v in
  let h := mkHdr (s_guest_cid (vs_spec s)) (c_dst_cid c) (c_src_port c) (c_dst_port c) 0 TYPE_STREAM op flags
                 (c_buf_alloc c) (c_fwd_cnt c) in
  exists sp', vsock_step (Some s) 1766 (enc_opkts [Pkt h 0]) = (Some (vk_set_spec s sp'), [1]) /\ Rel v sp'.
Proof.
  intros R Hop Hfl c h. set (st := vs_spec s) in *.
  destruct (Rel_conn_wf _ _ R) as ((_ & _ & _ & C4 & C5) & (I1 & I2 & I3 & I4)).
  assert (Hwf : hdr_wf h).
  { unfold hdr_wf, h, TYPE_STREAM. cbn [h_src_cid h_dst_cid h_src_port h_dst_port h_len h_type h_op h_flags h_buf_alloc h_fwd_cnt].
    repeat split; try assumption; reflexivity. }
  destruct (Rel_fields v st OP_CREDIT_UPDATE 0 R ltac:(vm_compute; reflexivity) ltac:(vm_compute; reflexivity)) as (_ & Hok & _ & _).
  change (pkt_fields_ok st (with_op_len (new_header (v_info v) (s_guest_cid st)) OP_CREDIT_UPDATE 0))
    with (pkt_fields_ok st h) in Hok.
  exists (saw st h). split.
  - rewrite step1766, vk_dec_enc_opkts. cbn [obs_pkts map vk_get]. unfold mon_other_pkt. fold st.
    rewrite (hdr_on_wire h Hwf), Hok. reflexivity.
  - pose proof (Rel_fifo_len v st R).
    destruct R. constructor; cbn; try assumption; try reflexivity.
    exists (s_delivered st). split; [lia|]. split; [assumption|]. rewrite R_sent. lia.
Qed.

(* ================================================================================================ *)
(* A'. WHAT A FULLY ACCEPTED HISTORY MEANS (from the meaning theorems alone)                          *)
(* ================================================================================================ *)
(* "Consequently a peer that honours the advertised credit never loses data: the bytes read from a connection are exactly the
   bytes the peer sent, in order, for any packetisation and read sizes."  On the observation side: if EVERY observer line of a
   history of one connection got the verdict [1], then the bytes the application was handed by its recv calls, one after the
   other, followed by what the observer still holds as unread, are the payloads of the data packets poll accepted, one after the
   other - whatever the sizes of packets and reads. *)

(* a history of monitor lines (kind, numbers) all of which were accepted, threading the specification state *)
Inductive accepted : vstate -> list (N * list N) -> vstate -> Prop :=
| acc_nil s : accepted s [] s
| acc_cons s k ins s' t s'' :
    vsock_step (Some s) k ins = (Some s', [1]) -> accepted s' t s'' -> accepted s ((k, ins) :: t) s''.

(* the n numbers that follow a count n on a line (all that is there, if fewer) *)
Definition line_bytes (n : N) (r : list N) : list N := firstn (N.to_nat (N.min n (lenN r))) r.
(* the payload of an accepted data packet of the peer: line 1763 [alloc; k; class; n] ++ bytes ++ .. with class 0 *)
Definition peer_bytes_of (l : N * list N) : list N :=
  match l with
  | (k, ins) => if k =? 1763 then match ins with _ :: _ :: class :: n :: r => if class =? 0 then line_bytes n r else [] | _ => [] end
                else [] end.
(* the bytes a recv call handed to the application: line 1764 [out_len; class; n] ++ bytes ++ .. *)
Definition read_bytes_of (l : N * list N) : list N :=
  match l with
  | (k, ins) => if k =? 1764 then match ins with _ :: _ :: n :: r => line_bytes n r | _ => [] end else [] end.

(* one accepted line: unread ++ what the peer delivered on this line = what was read on this line ++ unread afterwards;
   and the observer's count S of bytes received stays D + unread *)
Lemma accepted_line s k ins s' :
  1761 <= k <= 1766 -> vsock_step (Some s) k ins = (Some s', [1]) ->
  s_fifo (vs_spec s) ++ peer_bytes_of (k, ins) = read_bytes_of (k, ins) ++ s_fifo (vs_spec s')
  /\ (s_sent (vs_spec s) = s_delivered (vs_spec s) + lenN (s_fifo (vs_spec s)) ->
      s_sent (vs_spec s') = s_delivered (vs_spec s') + lenN (s_fifo (vs_spec s'))).
Proof.
  intros Hk H.
  assert (Ek : k = 1761 \/ k = 1762 \/ k = 1763 \/ k = 1764 \/ k = 1765 \/ k = 1766) by lia.
  destruct Ek as [-> | [-> | [-> | [-> | [-> | ->]]]]].
  - destruct (mon1761_meaning _ _ _ H) as (len & class & code & r & ws & -> & _ & Hfit & Hno). cbv zeta in Hfit, Hno.
    cbn [peer_bytes_of read_bytes_of N.eqb Pos.eqb]. rewrite app_nil_r. cbn [app].
    destruct (N.leb_spec len (s_peer_alloc (vs_spec s) - (s_tx_total (vs_spec s) - s_peer_fwd (vs_spec s)))) as [Hc|Hc].
    + destruct (Hfit Hc) as (_ & b & plen & i & h & _ & _ & _ & _ & _ & _ & _ & _ & E). injection E as ->. auto.
    + destruct (Hno Hc) as (_ & _ & Hr1 & Hr0). destruct (s_req (vs_spec s)) eqn:Er.
      * destruct (Hr1 eq_refl) as [_ E]. injection E as ->. auto.
      * destruct (Hr0 eq_refl) as (w & h & _ & _ & E). injection E as ->. auto.
  - destruct (mon1762_meaning _ _ _ H) as (op & alloc & k & class & has & r & ws & -> & _ & _ & Hreq & Hoth). cbv zeta in Hreq, Hoth.
    cbn [peer_bytes_of read_bytes_of N.eqb Pos.eqb]. rewrite app_nil_r. cbn [app].
    destruct (N.eq_dec op OP_CREDIT_REQUEST) as [Eo|Eo].
    + destruct (Hreq Eo) as (_ & w & h & _ & _ & E). injection E as ->. auto.
    + destruct (Hoth Eo) as (_ & _ & E). injection E as ->. auto.
  - destruct (mon1763_meaning _ _ _ H) as (alloc & k & class & n & bytes & r & ws & -> & Hn & _ & _ & Hok & Hnok). cbv zeta in Hok, Hnok.
    cbn [peer_bytes_of read_bytes_of N.eqb Pos.eqb]. cbn [app].
    destruct (N.eqb_spec class 0) as [Ec|Ec].
    + assert (Hb : line_bytes n (bytes ++ r) = bytes).
      { unfold line_bytes. rewrite <- Hn. apply firstn_app_len. unfold lenN. lia. }
      rewrite Hb. pose proof (Hok Ec) as E. injection E as ->. cbn. split; [reflexivity|]. intros ->. rewrite lenN_app. lia.
    + pose proof (Hnok Ec) as E. injection E as ->. rewrite app_nil_r. auto.
  - destruct (mon1764_meaning _ _ _ H) as (out_len & class & n & bytes & r & rest & -> & _ & Hcl & Hmin & Hlen & Hf & E). cbv zeta in *.
    cbn [peer_bytes_of read_bytes_of N.eqb Pos.eqb]. rewrite app_nil_r.
    assert (Hb : line_bytes n (bytes ++ r) = bytes).
    { unfold line_bytes. rewrite <- Hlen. replace (N.min (lenN bytes) (lenN (bytes ++ r))) with (lenN bytes) by (rewrite lenN_app; lia).
      apply firstn_app_len. unfold lenN. lia. }
    rewrite Hb. injection E as ->. cbn. split; [exact Hf|]. intros ->. rewrite Hf, lenN_app. lia.
  - destruct (mon1765_meaning _ _ _ H) as (class & r & w & h & -> & _ & _ & _ & E). injection E as ->.
    cbn [peer_bytes_of read_bytes_of N.eqb Pos.eqb]. rewrite app_nil_r. cbn [app]. auto.
  - destruct (mon1766_meaning _ _ _ H) as (w & h & _ & _ & E). injection E as ->.
    cbn [peer_bytes_of read_bytes_of N.eqb Pos.eqb]. rewrite app_nil_r. cbn [app]. auto.
Qed.

Theorem mon_stream_lossless_meaning s l s' :
  accepted s l s' -> Forall (fun x => 1761 <= fst x <= 1766) l ->
  s_fifo (vs_spec s) ++ concat (map peer_bytes_of l) = concat (map read_bytes_of l) ++ s_fifo (vs_spec s').
Proof.
  induction 1 as [s|s k ins s1 t s2 Hstep _ IH]; intros Hall.
  - cbn [map concat]. now rewrite app_nil_r.
  - inversion Hall as [|? ? Hk Ht]; subst. cbn [fst] in Hk.
    destruct (accepted_line _ _ _ _ Hk Hstep) as [Hl _].
    cbn [map concat]. rewrite app_assoc, Hl, <- app_assoc, (IH Ht), app_assoc. reflexivity.
Qed.

(* in particular from the start of a connection (line 1760: nothing unread): everything read so far, followed by what is still
   unread, is everything the peer delivered; and the observer's counts stay consistent, so that in pkt_carries the bound
   `capacity - bytes buffered` is `capacity - (S - D)` *)
Theorem mon_stream_lossless_from_start s0 ins0 s l s' :
  vsock_step (Some s0) 1760 ins0 = (Some s, [1]) ->
  accepted s l s' -> Forall (fun x => 1761 <= fst x <= 1766) l ->
  concat (map peer_bytes_of l) = concat (map read_bytes_of l) ++ s_fifo (vs_spec s')
  /\ s_sent (vs_spec s') = s_delivered (vs_spec s') + lenN (s_fifo (vs_spec s')).
Proof.
  intros H0 Hacc Hall.
  destruct (mon1760_meaning _ _ _ H0) as (guest & pc & pp & lp & cap & rxb & txb & infl & alloc & req & _ & E). injection E as ->.
  split.
  - now rewrite <- (mon_stream_lossless_meaning _ _ _ Hacc Hall).
  - clear H0. set (s := vk_set_spec s0 _) in Hacc.
    assert (Hinv : s_sent (vs_spec s) = s_delivered (vs_spec s) + lenN (s_fifo (vs_spec s))) by reflexivity.
    clearbody s. induction Hacc as [s|s k ins s1 t s2 Hstep _ IH]; [exact Hinv|].
    inversion Hall as [|? ? Hk Ht]; subst. cbn [fst] in Hk.
    apply (IH Ht). exact (proj2 (accepted_line _ _ _ _ Hk Hstep) Hinv).
Qed.

(* ================================================================================================ *)
(* C. WITNESSES                                                                                      *)
(* ================================================================================================ *)
(* the verdicts of a list of lines from the initial state *)
Definition c17x_run (l : list (N * list N)) : list (list N) :=
  snd (fold_left (fun acc x => match acc with (st, outs) =>
                                 match vsock_step st (fst x) (snd x) with (st', o) => (st', outs ++ [o]) end end) l (None, [])).
(* an observed packet of guest 66 port 4321 to peer 2 port 1234, buf_alloc 64: 44 header bytes, payload length, intact *)
Definition c17x_hdr (len op fwd : N) : hdr := mkHdr 66 2 4321 1234 len 1 op 0 64 fwd.
Definition c17x_pkt (h : hdr) (plen : N) : list N := enc_hdr h ++ [plen; 1].
(* capacity 64, the driver's fwd_cnt starts at 2^32 - 1, the peer's at 0, nothing in flight, the peer advertises 10 bytes *)
Definition c17x_init : N * list N := (1760, [66; 2; 1234; 4321; 64; 4294967295; 0; 0; 10; 0]).

(* non-vacuity of the meaning theorems: a history every line of which is accepted - connection request; a send within the
   credit; a refused send with its credit request; a second refused send with nothing sent; 3 bytes from the peer; a read of 2
   (fwd_cnt crosses 2^32); update_credit; a credit request of the peer answered; a credit update of the peer; a read of the rest *)
Example c17x_accepted_history :
  c17x_run [c17x_init;
            (1766, 1 :: c17x_pkt (c17x_hdr 0 1 4294967295) 0);
            (1761, 4 :: 0 :: 0 :: 1 :: c17x_pkt (c17x_hdr 4 5 4294967295) 4);
            (1761, 7 :: 1 :: 1110 :: 1 :: c17x_pkt (c17x_hdr 0 7 4294967295) 0);
            (1761, [7; 1; 1110; 0]);
            (1763, [10; 0; 0; 3; 7; 8; 9; 0]);
            (1764, [2; 0; 2; 7; 8; 0]);
            (1765, 0 :: 1 :: c17x_pkt (c17x_hdr 0 6 1) 0);
            (1762, 7 :: 10 :: 4 :: 0 :: 0 :: 1 :: c17x_pkt (c17x_hdr 0 6 1) 0);
            (1762, [6; 10; 0; 0; 1; 0]);
            (1764, [5; 0; 1; 9; 0])]
  = [[1]; [1]; [1]; [1]; [1]; [1]; [1]; [1]; [1]; [1]; [1]].
Proof. vm_compute. reflexivity. Qed.

(* (1) FALSE-ALARM RISK: 1770 and 1761 insist on the error code InsufficientBufferSpaceInPeer (1110) where the property only
   says "the send is refused": the same refusal (nothing sent but the one credit request, no counter moved) reported with
   another error code gets the verdict 0.  (The model's code is compared anyway by the correspondence kinds 1701 / 1710.) *)
Example mon1770_insists_on_error_code :
  c17x_run [(1770, [10; 0; 20; 0; 5; 1; 1110; 20; 1; 1; 7; 0; 0]); (1770, [10; 0; 20; 0; 5; 1; 1101; 20; 1; 1; 7; 0; 0])] = [[1]; [0]].
Proof. vm_compute. reflexivity. Qed.
Example mon1761_insists_on_error_code :
  c17x_run [c17x_init; (1761, 11 :: 1 :: 1110 :: 1 :: c17x_pkt (c17x_hdr 0 7 4294967295) 0)] = [[1]; [1]]
  /\ c17x_run [c17x_init; (1761, 11 :: 1 :: 1101 :: 1 :: c17x_pkt (c17x_hdr 0 7 4294967295) 0)] = [[1]; [0]].
Proof. split; vm_compute; reflexivity. Qed.

(* (2) 1770 / 1761 read "never exceed ... (otherwise the send is refused ...)" as an IFF (as the theorem send_accepts_iff does): a
   send that is refused although the credit suffices (100 bytes free, 5 to send) gets the verdict 0.  The property text does not
   literally forbid a spurious refusal. *)
Example mon1770_demands_acceptance_when_credit_suffices :
  c17x_run [(1770, [100; 0; 0; 0; 5; 1; 1110; 0; 1; 1; 7; 0; 0])] = [[0]].
Proof. vm_compute. reflexivity. Qed.

(* (3) 1770 on free-running counters: tx_cnt has wrapped (4), peer_fwd_cnt has not (2^32 - 6): 10 bytes are in flight, the
   peer advertises 10: a send of 1 byte with a request already pending must be refused and send NOTHING (npkts = 0); a send of 0
   bytes is accepted *)
Example mon1770_wrapped_counters :
  c17x_run [(1770, [10; 4294967290; 4; 1; 1; 1; 1110; 4; 1; 0; 0; 0; 0]); (1770, [10; 4294967290; 4; 1; 0; 0; 0; 4; 1; 1; 5; 0; 0]);
            (1770, [10; 4294967290; 4; 1; 1; 1; 1110; 4; 1; 1; 7; 0; 0])] = [[1]; [1]; [0]].
Proof. vm_compute. reflexivity. Qed.

(* (4) FALSE-ALARM RISK: 1764 (and 1763, 1762 for packets that are no credit request) demand that NOTHING is sent during the
   operation; the property only constrains the packets that are sent.  A recv that also sent a perfectly correct credit update
   (the same packet is accepted on an update_credit line) gets the verdict 0. *)
Example mon1764_rejects_any_packet_during_recv :
  c17x_run [c17x_init; (1764, 0 :: 0 :: 0 :: 1 :: c17x_pkt (c17x_hdr 0 6 4294967295) 0);
            (1765, 0 :: 1 :: c17x_pkt (c17x_hdr 0 6 4294967295) 0)] = [[1]; [0]; [1]].
Proof. vm_compute. reflexivity. Qed.

(* (5) FALSE-ALARM RISK: 1762 fixes whether poll reports an event (none for an answered credit request, one for every other
   control packet); the property does not speak about events (kind 1702 compares them with the model anyway) *)
Example mon1762_insists_on_event_reporting :
  c17x_run [c17x_init; (1762, 7 :: 10 :: 0 :: 0 :: 1 :: 1 :: c17x_pkt (c17x_hdr 0 6 4294967295) 0); (1762, [6; 10; 0; 0; 0; 0])]
  = [[1]; [0]; [0]].
Proof. vm_compute. reflexivity. Qed.

(* (6) 1766 wants EXACTLY one packet from connect / shutdown: none, or two correct ones, get the verdict 0 (the property says
   what every packet carries, not how many there are); a count of 2 with one packet present is accepted (see (7)) *)
Example mon1766_exactly_one_packet :
  c17x_run [c17x_init; (1766, [0]); (1766, 2 :: c17x_pkt (c17x_hdr 0 1 4294967295) 0 ++ c17x_pkt (c17x_hdr 0 1 4294967295) 0);
            (1766, 2 :: c17x_pkt (c17x_hdr 0 1 4294967295) 0)] = [[1]; [0]; [0]; [1]].
Proof. vm_compute. reflexivity. Qed.

(* (7) MISS RISK (robustness only: the harness writes exact counts): the packet count of a line is an upper bound and numbers
   after the packets are ignored (opkts_layout: lenN ws <= n, junk).  A line that announces 3 packets and shows none is read as
   "nothing was sent"; a missing packet list altogether is read the same way *)
Example vk_dec_opkts_count_is_upper_bound :
  c17x_run [c17x_init; (1765, 0 :: 5 :: c17x_pkt (c17x_hdr 0 6 4294967295) 0);
            (1765, 0 :: 1 :: c17x_pkt (c17x_hdr 0 6 4294967295) 0 ++ [9; 9; 9])] = [[1]; [1]; [1]]
  /\ c17x_run [(1760, [66; 2; 1234; 4321; 64; 4294967295; 0; 0; 10; 1]); (1761, [11; 1; 1110; 3]); (1761, [11; 1; 1110])]
     = [[1]; [1]; [1]].
Proof. split; vm_compute; reflexivity. Qed.

(* (8) 1767 accepts exactly 44 header bytes: one byte more is rejected (no trailing junk) *)
Example mon1767_exactly_44_bytes :
  c17x_run [(1767, vk_enc_hdr_fields (c17x_hdr 3 5 7) ++ enc_hdr (c17x_hdr 3 5 7));
            (1767, vk_enc_hdr_fields (c17x_hdr 3 5 7) ++ enc_hdr (c17x_hdr 3 5 7) ++ [0])] = [[1]; [0]].
Proof. vm_compute. reflexivity. Qed.

(* (9) 1763 demands nothing once the payload exceeds the credit the peer was given - not even that poll returns: 65 bytes into
   a 64-byte allowance with outcome class 2 (panic) is accepted.  (C17 only promises something for a peer that honours the
   credit; the harness writes 1763 lines for its honest peer only.) *)
Example mon1763_silent_beyond_the_credit :
  c17x_run [c17x_init; (1763, 10 :: 0 :: 2 :: 65 :: repeat 1 65 ++ [0])] = [[1]; [1]].
Proof. vm_compute. reflexivity. Qed.

(* (10) 1752: a panicking add (ok = 2) is a violation whatever the bytes; kinds 1768 / 1769 are listed by vsock_is_monitor but
   have no definition: a line of such a kind could never be accepted (the harness writes none) *)
Example mon1752_panic_and_undefined_kinds :
  c17x_run [(1751, [2]); (1752, [1; 5; 6]); (1752, [0; 7]); (1753, [1; 1; 5]); (1752, [2]); (1768, []); (1769, [])]
  = [[1]; [1]; [1]; [1]; [0]; [77777]; [77777]].
Proof. vm_compute. reflexivity. Qed.
