(* C07: the driver never reads the device-visible areas it writes (descriptor table, available ring,
   flags, used_event): results, events and the private state of every operation are the same whatever
   those areas contain. *)
From VD Require Import Base.Words Model.Queue.
From Coq Require Import Lia.

(* the private part of the state *)
Definition priv (s : qstate) :=
  (q_size s, q_indirect s, q_event_idx s, q_num_used s, q_free_head s, q_avail_idx s, q_last_used s,
   q_shadow s, q_ind s).

(* overwrite everything the device could scribble on *)
Definition scribble (s : qstate) (dt : list desc) (fl ai ue : N) (ring : list N) : qstate :=
  mkQ (q_size s) (q_indirect s) (q_event_idx s) (q_num_used s) (q_free_head s) (q_avail_idx s)
      (q_last_used s) (q_shadow s) (q_ind s) dt fl ai ue ring.

Lemma priv_scribble s dt fl ai ue ring : priv (scribble s dt fl ai ue ring) = priv s.
Proof. reflexivity. Qed.

Lemma priv_fields t1 t2 : priv t1 = priv t2 ->
  q_size t1 = q_size t2 /\ q_indirect t1 = q_indirect t2 /\ q_event_idx t1 = q_event_idx t2
  /\ q_num_used t1 = q_num_used t2 /\ q_free_head t1 = q_free_head t2 /\ q_avail_idx t1 = q_avail_idx t2
  /\ q_last_used t1 = q_last_used t2 /\ q_shadow t1 = q_shadow t2 /\ q_ind t1 = q_ind t2.
Proof. unfold priv. intros H. inversion H. repeat split; assumption. Qed.

Definition proj4 (r : outcome (list desc * list desc * N * N) * list qev) :=
  (match fst r with Ok (sh, _, fh, last) => Ok (sh, fh, last) | Err e => Err e | Panic => Panic | UB => UB end, snd r).

Lemma add_direct_loop_indep : forall bufs sh dt1 dt2 fh last,
  proj4 (add_direct_loop bufs sh dt1 fh last) = proj4 (add_direct_loop bufs sh dt2 fh last).
Proof.
  induction bufs as [|[b w] rest IH]; intros sh dt1 dt2 fh last; [reflexivity|].
  cbn [add_direct_loop]. destruct (b_len b =? 0); [reflexivity|].
  destruct (nthN_error sh fh) as [d|]; [|reflexivity].
  destruct (two32 <=? b_len b); [reflexivity|].
  set (d' := mkDesc (b_addr b) (b_len b) (F_NEXT + wflag w) (d_next d)).
  specialize (IH (updN sh fh d') (updN dt1 fh d') (updN dt2 fh d') (d_next d) fh).
  destruct (add_direct_loop rest (updN sh fh d') (updN dt1 fh d') (d_next d) fh) as [o1 e1].
  destruct (add_direct_loop rest (updN sh fh d') (updN dt2 fh d') (d_next d) fh) as [o2 e2].
  unfold proj4 in *. cbn [fst snd] in *. inversion IH; subst. rewrite H0. reflexivity.
Qed.

Definition proj3 (r : outcome (list desc * list desc * N) * list qev) :=
  (match fst r with Ok (sh, _, nu) => Ok (sh, nu) | Err e => Err e | Panic => Panic | UB => UB end, snd r).

Lemma recycle_loop_indep : forall bufs sh dt1 dt2 next orig nu,
  proj3 (recycle_loop bufs sh dt1 next orig nu) = proj3 (recycle_loop bufs sh dt2 next orig nu).
Proof.
  induction bufs as [|[b w] rest IH]; intros sh dt1 dt2 next orig nu.
  - cbn [recycle_loop]. destruct next; reflexivity.
  - cbn [recycle_loop]. destruct (b_len b =? 0); [reflexivity|].
    destruct next as [i|]; [|reflexivity].
    destruct (nthN_error sh i) as [d|]; [|reflexivity].
    destruct (nu =? 0); [reflexivity|].
    set (nx := if has_flag (d_flags d) F_NEXT then Some (d_next d) else None).
    set (d2 := match nx with None => set_next (unset_buf d) orig | Some _ => unset_buf d end).
    specialize (IH (updN sh i d2) (updN dt1 i d2) (updN dt2 i d2) nx orig (nu - 1)).
    destruct (recycle_loop rest (updN sh i d2) (updN dt1 i d2) nx orig (nu - 1)) as [o1 e1].
    destruct (recycle_loop rest (updN sh i d2) (updN dt2 i d2) nx orig (nu - 1)) as [o2 e2].
    unfold proj3 in *. cbn [fst snd] in *. inversion IH; subst. rewrite H0. reflexivity.
Qed.

Definition res3 {A} (r : outcome A * qstate * list qev) := (fst (fst r), priv (snd (fst r)), snd r).

Lemma add_direct_indep s1 s2 bufs : priv s1 = priv s2 -> res3 (add_direct s1 bufs) = res3 (add_direct s2 bufs).
Proof.
  unfold priv. intros H. injection H as E1 E2 E3 E4 E5 E6 E7 E8 E9.
  unfold add_direct. rewrite E5, E8.
  pose proof (add_direct_loop_indep bufs (q_shadow s2) (q_dtable s1) (q_dtable s2) (q_free_head s2) (q_free_head s2)) as HI.
  destruct (add_direct_loop bufs (q_shadow s2) (q_dtable s1) (q_free_head s2) (q_free_head s2)) as [o1 e1].
  destruct (add_direct_loop bufs (q_shadow s2) (q_dtable s2) (q_free_head s2) (q_free_head s2)) as [o2 e2].
  unfold proj4 in HI. cbn [fst snd] in HI.
  destruct o1 as [[[[sh1 dta] fh1] l1]|e|?|?], o2 as [[[[sh2 dtb] fh2] l2]|e'|?|?]; inversion HI; subst;
    unfold res3, priv; cbn; try (rewrite ?E1, ?E2, ?E3, ?E4, ?E5, ?E6, ?E7, ?E8, ?E9; reflexivity).
  destruct (nthN_error sh2 l2); unfold res3, priv; cbn; rewrite ?E1, ?E2, ?E3, ?E4, ?E5, ?E6, ?E7, ?E8, ?E9; reflexivity.
Qed.

Lemma add_indirect_indep s1 s2 bufs ta :
  priv s1 = priv s2 -> res3 (add_indirect s1 bufs ta) = res3 (add_indirect s2 bufs ta).
Proof.
  unfold priv. intros H. injection H as E1 E2 E3 E4 E5 E6 E7 E8 E9.
  unfold add_indirect. rewrite E5, E8, E9.
  destruct (existsb _ bufs); [unfold res3, priv; cbn; rewrite ?E1, ?E2, ?E3, ?E4, ?E5, ?E6, ?E7, ?E8, ?E9; reflexivity|].
  destruct (nthN_error (q_ind s2) (q_free_head s2)) as [[t|]|];
    try (unfold res3, priv; cbn; rewrite ?E1, ?E2, ?E3, ?E4, ?E5, ?E6, ?E7, ?E8, ?E9; reflexivity).
  destruct (nthN_error (q_shadow s2) (q_free_head s2));
    unfold res3, priv; cbn; rewrite ?E1, ?E2, ?E3, ?E4, ?E5, ?E6, ?E7, ?E8, ?E9; reflexivity.
Qed.

Theorem add_indep s1 s2 ins outs ta :
  priv s1 = priv s2 -> res3 (add s1 ins outs ta) = res3 (add s2 ins outs ta).
Proof.
  intros H. assert (H' := H). unfold priv in H'. injection H' as E1 E2 E3 E4 E5 E6 E7 E8 E9.
  unfold add. destruct (lenN (tag_bufs ins outs) =? 0).
  { unfold res3. cbn. now rewrite H. }
  unfold capacity_ok. rewrite E1, E2, E4.
  destruct (negb (negb _)).
  { unfold res3. cbn. now rewrite H. }
  destruct (q_indirect s2 && (1 <? lenN (tag_bufs ins outs))).
  - pose proof (add_indirect_indep s1 s2 (tag_bufs ins outs) ta H) as HI.
    destruct (add_indirect s1 (tag_bufs ins outs) ta) as [[o1 t1] e1].
    destruct (add_indirect s2 (tag_bufs ins outs) ta) as [[o2 t2] e2].
    unfold res3 in HI. cbn [fst snd] in HI.
    assert (Ho : o1 = o2) by congruence. assert (He : e1 = e2) by congruence.
    assert (Hp : priv t1 = priv t2) by congruence. subst o1 e1. clear HI.
    destruct (priv_fields _ _ Hp) as (P1 & P2 & P3 & P4 & P5 & P6 & P7 & P8 & P9).
    destruct o2; unfold res3, priv; cbn; rewrite ?P1, ?P2, ?P3, ?P4, ?P5, ?P6, ?P7, ?P8, ?P9; reflexivity.
  - pose proof (add_direct_indep s1 s2 (tag_bufs ins outs) H) as HI.
    destruct (add_direct s1 (tag_bufs ins outs)) as [[o1 t1] e1].
    destruct (add_direct s2 (tag_bufs ins outs)) as [[o2 t2] e2].
    unfold res3 in HI. cbn [fst snd] in HI.
    assert (Ho : o1 = o2) by congruence. assert (He : e1 = e2) by congruence.
    assert (Hp : priv t1 = priv t2) by congruence. subst o1 e1. clear HI.
    destruct (priv_fields _ _ Hp) as (P1 & P2 & P3 & P4 & P5 & P6 & P7 & P8 & P9).
    destruct o2; unfold res3, priv; cbn; rewrite ?P1, ?P2, ?P3, ?P4, ?P5, ?P6, ?P7, ?P8, ?P9; reflexivity.
Qed.

Lemma recycle_indep s1 s2 head bufs : priv s1 = priv s2 -> res3 (recycle s1 head bufs) = res3 (recycle s2 head bufs).
Proof.
  intros H. assert (H' := H). unfold priv in H'. injection H' as E1 E2 E3 E4 E5 E6 E7 E8 E9.
  unfold recycle. rewrite E8, E9, E5, E4.
  destruct (nthN_error (q_shadow s2) head) as [hd|]; [|unfold res3; cbn; now rewrite H].
  destruct (has_flag (d_flags hd) F_INDIRECT).
  - destruct (nthN_error (q_ind s2) head) as [[tbl|]|]; try (unfold res3; cbn; now rewrite H).
    destruct (q_num_used s2 =? 0); [unfold res3; cbn; now rewrite H|].
    destruct (negb (lenN tbl =? lenN bufs)).
    + unfold res3, priv; cbn. rewrite ?E1, ?E2, ?E3, ?E4, ?E5, ?E6, ?E7, ?E8, ?E9; reflexivity.
    + destruct (unshare_ind bufs tbl) as [o evs]. unfold res3, priv; cbn.
      rewrite ?E1, ?E2, ?E3, ?E4, ?E5, ?E6, ?E7, ?E8, ?E9; reflexivity.
  - pose proof (recycle_loop_indep bufs (q_shadow s2) (q_dtable s1) (q_dtable s2) (Some head) (q_free_head s2) (q_num_used s2)) as HI.
    destruct (recycle_loop bufs (q_shadow s2) (q_dtable s1) (Some head) (q_free_head s2) (q_num_used s2)) as [o1 e1].
    destruct (recycle_loop bufs (q_shadow s2) (q_dtable s2) (Some head) (q_free_head s2) (q_num_used s2)) as [o2 e2].
    unfold proj3 in HI. cbn [fst snd] in HI.
    destruct o1 as [[[sh1 dta] n1]|e|?|?], o2 as [[[sh2 dtb] n2]|e'|?|?]; inversion HI; subst;
      unfold res3, priv; cbn; rewrite ?E1, ?E2, ?E3, ?E4, ?E5, ?E6, ?E7, ?E8, ?E9; reflexivity.
Qed.

Theorem pop_indep s1 s2 token ins outs u_idx u_id u_len :
  priv s1 = priv s2 ->
  res3 (pop_used s1 token ins outs u_idx u_id u_len) = res3 (pop_used s2 token ins outs u_idx u_id u_len).
Proof.
  intros H. assert (H' := H). unfold priv in H'. injection H' as E1 E2 E3 E4 E5 E6 E7 E8 E9.
  unfold pop_used, can_pop. rewrite E7.
  destruct (negb (negb _)); [unfold res3; cbn; now rewrite H|].
  destruct (negb (w16 u_id =? token)); [unfold res3; cbn; now rewrite H|].
  pose proof (recycle_indep s1 s2 (w16 u_id) (tag_bufs ins outs) H) as HI.
  destruct (recycle s1 (w16 u_id) (tag_bufs ins outs)) as [[o1 t1] e1].
  destruct (recycle s2 (w16 u_id) (tag_bufs ins outs)) as [[o2 t2] e2].
  unfold res3 in HI. cbn [fst snd] in HI.
  assert (Ho : o1 = o2) by congruence. assert (He : e1 = e2) by congruence.
  assert (Hp : priv t1 = priv t2) by congruence. subst o1 e1. clear HI.
  destruct (priv_fields _ _ Hp) as (P1 & P2 & P3 & P4 & P5 & P6 & P7 & P8 & P9).
  destruct o2; try (unfold res3, priv; cbn; rewrite ?P1, ?P2, ?P3, ?P4, ?P5, ?P6, ?P7, ?P8, ?P9; reflexivity).
  rewrite P3, P7. destruct (q_event_idx t2) eqn:Ee;
    unfold res3, priv; cbn; rewrite ?P1, ?P2, ?P3, ?P4, ?P5, ?P6, ?P7, ?P8, ?P9, ?Ee; reflexivity.
Qed.

Theorem queries_indep s1 s2 :
  priv s1 = priv s2 ->
  (forall a f, should_notify s1 a f = should_notify s2 a f)
  /\ (forall u, can_pop s1 u = can_pop s2 u)
  /\ (forall u i, peek_used s1 u i = peek_used s2 u i)
  /\ available_desc s1 = available_desc s2.
Proof.
  intros H. unfold priv in H. injection H as E1 E2 E3 E4 E5 E6 E7 E8 E9.
  unfold should_notify, can_pop, peek_used, available_desc, can_pop.
  rewrite E1, E2, E3, E4, E6, E7. repeat split; reflexivity.
Qed.
