(* C11: proofs about Model/Pci.v (the PCI transport) against Model/PciSpec.v (VirtIO 1.2, 4.1.4).   *)
(*  1. arithmetic of the bounds check; get_bar_region (region_check): sound, complete, never panics;  *)
(*     the code before the repair F4 refuted, with the strongest true statement                      *)
(*  2. bytes and words of configuration space; the capability scan = the specification's selection   *)
(*  3. PciTransport::new: windows of the transport it returns, its errors, no panic, function intact *)
(*  4. the reference function's truth (slot_truth) and bar_info; the `new` monitor holds of the model *)
(*  5. the operations: every access inside the windows, the operation monitor holds of the model,    *)
(*     exact traces; drop; whole sessions                                                            *)
(*  6. the code before the repairs F13 / F14 refuted                                                  *)
From VD Require Import Base.Words Base.ListUpd Model.PciBus Model.Pci Model.PciSpec Proofs.PciBusProofs.
From Coq Require Import ZArith Lia ZifyBool ZifyN.
Ltac Zify.zify_post_hook ::= Z.div_mod_to_equations.

(* ===================== 1. get_bar_region ===================== *)
Lemma add_w_some bound m a b r : add_w bound m a b = Some r -> r = (a + b) mod bound /\ (m = Debug -> a + b < bound).
Proof.
  unfold add_w. destruct (a + b <? bound) eqn:E.
  - intros H. inversion H. split; [symmetry; apply N.mod_small; lia|intros _; lia].
  - destruct m; intros H; inversion H. split; [reflexivity|discriminate].
Qed.
Lemma add_w_small bound m a b : a + b < bound -> add_w bound m a b = Some (a + b).
Proof. intros H. unfold add_w. replace (a + b <? bound) with true by lia. reflexivity. Qed.

(* what a successful get_bar_region guarantees, whatever bar_info answered *)
Definition window_in (bi : outcome (option barinfo)) (info : capinfo) (need align vaddr : N) : Prop :=
  exists ty pf a bsz,
    bi = Ok (Some (BarMem ty pf a bsz)) /\ a <> 0
    /\ ci_off info + ci_len info <= bsz
    /\ need <= ci_len info
    /\ vaddr mod align = 0.

Theorem region_check_sound fx m bi info need align v vaddr rq :
  fx_sum64 fx = true ->
  region_check fx m bi info need align v = (GOk vaddr, rq) ->
  vaddr = v /\ window_in bi info need align v
  /\ rq = [((bar_addr (match bi with Ok x => x | _ => None end) + ci_off info) mod two64, ci_len info)]
  /\ (m = Debug -> bar_addr (match bi with Ok x => x | _ => None end) + ci_off info < two64).
Proof.
  intros Hfx. unfold region_check. rewrite Hfx.
  destruct bi as [[[ty pf a bsz|a bsz]|]|e| |]; try discriminate.
  destruct (a =? 0) eqn:Ea; [discriminate|].
  destruct ((bsz <? ci_off info + ci_len info) || (ci_len info <? need)) eqn:Eb; [discriminate|].
  destruct (add_u64 m a (ci_off info)) as [paddr|] eqn:Ep; [|discriminate].
  destruct (v mod align =? 0) eqn:Eal; cbn [negb]; [|discriminate].
  intros H. inversion H; subst. apply add_w_some in Ep. destruct Ep as [Ep1 Ep2].
  split; [reflexivity|]. split.
  - exists ty, pf, a, bsz. repeat split; try lia.
  - cbn [bar_addr]. split; [rewrite Ep1; reflexivity|exact Ep2].
Qed.

(* a BAR that does not wrap the address space (every well-formed BAR: size-aligned address):
   the physical window is [a + off, a + off + len), inside [a, a + size) *)
Theorem region_check_inside fx m ty pf a bsz info need align v vaddr rq :
  fx_sum64 fx = true -> a + bsz <= two64 -> 0 < need ->
  region_check fx m (Ok (Some (BarMem ty pf a bsz))) info need align v = (GOk vaddr, rq) ->
  rq = [(a + ci_off info, ci_len info)]
  /\ a <= a + ci_off info /\ a + ci_off info + ci_len info <= a + bsz /\ a + ci_off info + ci_len info <= two64
  /\ need <= ci_len info /\ vaddr mod align = 0 /\ a <> 0.
Proof.
  intros Hfx Hw Hneed H. apply region_check_sound in H; [|exact Hfx].
  destruct H as (-> & (ty' & pf' & a' & b' & E & Ha & Hs & Hn & Hal) & Hrq & _).
  inversion E; subst a' b'. cbn [bar_addr] in Hrq.
  rewrite N.mod_small in Hrq by (unfold two64 in *; lia).
  repeat split; try assumption; try lia.
Qed.

(* every outcome of the repaired check, by cases on what bar_info answered *)
Theorem region_check_complete m bi info need align v :
  region_check FIXED m bi info need align v =
  match bi with
  | Err e => (GErr PE_Pci e 0, [])
  | Panic | UB => (GPanic, [])
  | Ok None => (GErr PE_BarNotAllocated (ci_bar info) 0, [])
  | Ok (Some (BarIO _ _)) => (GErr PE_UnexpectedIoBar 0 0, [])
  | Ok (Some (BarMem _ _ a bsz)) =>
      if a =? 0 then (GErr PE_BarNotAllocated (ci_bar info) 0, [])
      else if (bsz <? ci_off info + ci_len info) || (ci_len info <? need) then (GErr PE_BarOffsetOutOfRange 0 0, [])
      else if two64 <=? a + ci_off info then
        match m with Debug => (GPanic, [])
                   | Release => if v mod align =? 0 then (GOk v, [((a + ci_off info) mod two64, ci_len info)])
                                else (GErr PE_Misaligned v align, [((a + ci_off info) mod two64, ci_len info)]) end
      else if v mod align =? 0 then (GOk v, [(a + ci_off info, ci_len info)])
      else (GErr PE_Misaligned v align, [(a + ci_off info, ci_len info)])
  end.
Proof.
  unfold region_check. cbn [fx_sum64 FIXED].
  destruct bi as [[[ty pf a bsz|a bsz]|]|e| |]; try reflexivity.
  destruct (a =? 0); [reflexivity|].
  destruct ((bsz <? ci_off info + ci_len info) || (ci_len info <? need)); [reflexivity|].
  unfold add_u64, add_w.
  destruct (N.leb_spec two64 (a + ci_off info)) as [H|H].
  - replace (a + ci_off info <? two64) with false by lia. destruct m; [reflexivity|].
    destruct (v mod align =? 0); reflexivity.
  - replace (a + ci_off info <? two64) with true by lia. destruct (v mod align =? 0); reflexivity.
Qed.

(* with a BAR that does not wrap the address space, the repaired check never panics: it returns the
   window or one of the documented errors, in both profiles *)
Theorem region_check_no_panic m bi info need align v :
  (forall ty pf a bsz, bi = Ok (Some (BarMem ty pf a bsz)) -> a + bsz <= two64) ->
  bi <> Panic -> bi <> UB -> 0 < need ->
  fst (region_check FIXED m bi info need align v) <> GPanic.
Proof.
  intros Hw Hb1 Hb2 Hneed. rewrite region_check_complete.
  destruct bi as [[[ty pf a bsz|a bsz]|]|e| |]; cbn [fst]; try discriminate;
    try congruence.
  specialize (Hw ty pf a bsz eq_refl).
  destruct (a =? 0); [discriminate|].
  destruct ((bsz <? ci_off info + ci_len info) || (ci_len info <? need)) eqn:E; [discriminate|].
  replace (two64 <=? a + ci_off info) with false by (unfold two64 in *; lia).
  destruct (v mod align =? 0); discriminate.
Qed.

(* ---- F4: the code before the repair, `u64::from(offset + length)` with the sum in u32 ---- *)
Definition FX_F4 : fixes := mkFx false true true.
Definition f4_bar : outcome (option barinfo) := Ok (Some (BarMem 0 false 0xfe000000 0x4000)).
Definition f4_info : capinfo := mkCap 0 0xfffffff0 0x48.
(* release: accepted, and the window requested from the platform starts 4 GiB beyond the BAR;
   debug: neither a window nor an error *)
Theorem region_check_prefix_refuted :
  region_check FX_F4 Release f4_bar f4_info COMMON_SIZE COMMON_ALIGN 0x1000
    = (GOk 0x1000, [(0x1fdfffff0, 0x48)])
  /\ ~ (ci_off f4_info + ci_len f4_info <= 0x4000)
  /\ region_check FX_F4 Debug f4_bar f4_info COMMON_SIZE COMMON_ALIGN 0x1000 = (GPanic, [])
  /\ region_check FIXED Release f4_bar f4_info COMMON_SIZE COMMON_ALIGN 0x1000 = (GErr PE_BarOffsetOutOfRange 0 0, [])
  /\ region_check FIXED Debug f4_bar f4_info COMMON_SIZE COMMON_ALIGN 0x1000 = (GErr PE_BarOffsetOutOfRange 0 0, []).
Proof. vm_compute. repeat split; try reflexivity. intros H; exact (H eq_refl). Qed.

(* what IS true of the old check: it coincides with the repaired one whenever offset + length < 2^32,
   and in the debug profile a returned window is always inside (a wrapping sum panics instead) *)
Theorem region_check_prefix_partial fx m bi info need align v :
  fx_sum64 fx = false -> ci_off info + ci_len info < two32 ->
  region_check fx m bi info need align v = region_check FIXED m bi info need align v.
Proof.
  intros Hfx Hs. unfold region_check. rewrite Hfx. cbn [fx_sum64 FIXED].
  unfold add_u32. rewrite (add_w_small two32 m _ _ Hs). reflexivity.
Qed.
Theorem region_check_prefix_partial_debug fx bi info need align v vaddr rq :
  region_check fx Debug bi info need align v = (GOk vaddr, rq) ->
  window_in bi info need align v.
Proof.
  unfold region_check.
  destruct bi as [[[ty pf a bsz|a bsz]|]|e| |]; try discriminate.
  destruct (a =? 0) eqn:Ea; [discriminate|].
  destruct (if fx_sum64 fx then Some (ci_off info + ci_len info) else add_u32 Debug (ci_off info) (ci_len info))
    as [sum|] eqn:Es; [|discriminate].
  assert (Hsum : sum = ci_off info + ci_len info).
  { destruct (fx_sum64 fx); [inversion Es; reflexivity|].
    apply add_w_some in Es. destruct Es as [E1 E2]. specialize (E2 eq_refl).
    rewrite E1. apply N.mod_small. exact E2. }
  subst sum.
  destruct ((bsz <? ci_off info + ci_len info) || (ci_len info <? need)) eqn:Eb; [discriminate|].
  destruct (add_u64 Debug a (ci_off info)) as [paddr|] eqn:Ep; [|discriminate].
  destruct (v mod align =? 0) eqn:Eal; cbn [negb]; [|discriminate].
  intros _. exists ty, pf, a, bsz. repeat split; try lia.
Qed.

(* ===================== 2. bytes, words, the capability scan ===================== *)
Lemma byte_at_aligned rd o j : o mod 4 = 0 -> j < 4 -> byte_at rd (o + j) = (rd o / 2 ^ (8 * j)) mod 256.
Proof.
  intros Ho Hj. unfold byte_at.
  replace (4 * ((o + j) / 4)) with o by lia. replace ((o + j) mod 4) with j by lia. reflexivity.
Qed.
Lemma byte0 rd o : o mod 4 = 0 -> byte_at rd o = rd o mod 256.
Proof.
  intros Ho. rewrite <- (N.add_0_r o) at 1. rewrite (byte_at_aligned rd o 0 Ho) by lia.
  change (2 ^ (8 * 0)) with 1. rewrite N.div_1_r. reflexivity.
Qed.
Lemma byte1 rd o : o mod 4 = 0 -> byte_at rd (o + 1) = (rd o / 256) mod 256.
Proof. intros Ho. rewrite (byte_at_aligned rd o 1 Ho) by lia. reflexivity. Qed.
Lemma byte2 rd o : o mod 4 = 0 -> byte_at rd (o + 2) = (rd o / 65536) mod 256.
Proof. intros Ho. rewrite (byte_at_aligned rd o 2 Ho) by lia. reflexivity. Qed.
Lemma byte3 rd o : o mod 4 = 0 -> byte_at rd (o + 3) = (rd o / 16777216) mod 256.
Proof. intros Ho. rewrite (byte_at_aligned rd o 3 Ho) by lia. reflexivity. Qed.
(* a little-endian 32-bit member at a 4-aligned offset is the configuration word *)
Lemma le32_aligned rd a : a mod 4 = 0 -> le32_at rd a = rdw rd a.
Proof.
  intros Ha. unfold le32_at, rdw, w32.
  rewrite (byte0 rd a Ha), (byte1 rd a Ha), (byte2 rd a Ha), (byte3 rd a Ha).
  generalize (rd a). intros x. lia.
Qed.

(* the fields of struct virtio_pci_cap as the code extracts them from the words it reads *)
Lemma header_bytes rd o : o mod 4 = 0 ->
  byte_at rd (o + V_cap_vndr) = w8 (rd o)
  /\ byte_at rd (o + V_cap_len) = w8 (w16 (N.shiftr (rd o) 16))
  /\ byte_at rd (o + V_cfg_type) = w8 (N.shiftr (w16 (N.shiftr (rd o) 16)) 8).
Proof.
  intros Ho. unfold V_cap_vndr, V_cap_len, V_cfg_type. rewrite N.add_0_r.
  rewrite (byte0 rd o Ho), (byte2 rd o Ho), (byte3 rd o Ho).
  rewrite !N.shiftr_div_pow2. change (2 ^ 16) with 65536. change (2 ^ 8) with 256.
  unfold w8, w16. generalize (rd o). intros x. repeat split; lia.
Qed.
Lemma info_bytes rd o : o mod 4 = 0 ->
  vcap_info rd o = mkCap (w8 (rdw rd (o + 4))) (rdw rd (o + 8)) (rdw rd (o + 12)).
Proof.
  intros Ho. unfold vcap_info, V_bar, V_offset, V_length.
  rewrite (byte0 rd (o + 4)) by lia. rewrite (le32_aligned rd (o + 8)), (le32_aligned rd (o + 12)) by lia.
  f_equal. unfold rdw, w8, w32. generalize (rd (o + 4)). intros x. lia.
Qed.

(* the specification's view of one loop iteration: a structure is taken iff it is usable and no
   structure of its type has been taken before *)
Definition upd_spec (rd : N -> N) (f : found) (o : N) : found :=
  if vcap_usable rd CFG_COMMON o && is_none (fd_common f) then
    mkFound (Some (vcap_info rd o)) (fd_notify f) (fd_mult f) (fd_isr f) (fd_device f)
  else if vcap_usable rd CFG_NOTIFY o && is_none (fd_notify f) then
    mkFound (fd_common f) (Some (vcap_info rd o)) (le32_at rd (o + V_notify_off_multiplier)) (fd_isr f) (fd_device f)
  else if vcap_usable rd CFG_ISR o && is_none (fd_isr f) then
    mkFound (fd_common f) (fd_notify f) (fd_mult f) (Some (vcap_info rd o)) (fd_device f)
  else if vcap_usable rd CFG_DEVICE o && is_none (fd_device f) then
    mkFound (fd_common f) (fd_notify f) (fd_mult f) (fd_isr f) (Some (vcap_info rd o))
  else f.

Lemma usable_unfold rd ty o : o mod 4 = 0 ->
  vcap_usable rd ty o =
  (w8 (rd o) =? 9) && (w8 (N.shiftr (w16 (N.shiftr (rd o) 16)) 8) =? ty)
  && (struct_len ty <=? w8 (w16 (N.shiftr (rd o) 16)))
  && (o + w8 (w16 (N.shiftr (rd o) 16)) <=? 256) && (w8 (rdw rd (o + 4)) <=? 5).
Proof.
  intros Ho. unfold vcap_usable, CONFIG_SPACE_BYTES. destruct (header_bytes rd o Ho) as (E1 & E2 & E3).
  rewrite E1, E2, E3. unfold V_bar. rewrite (byte0 rd (o + 4)) by lia.
  do 4 f_equal. unfold rdw, w8, w32. generalize (rd (o + 4)). intros x. lia.
Qed.

(* the repaired loop body computes the specification's update, and never overflows *)
Lemma scan_cap_spec m rd o f : o mod 4 = 0 ->
  fst (scan_cap FIXED m rd o (w8 (rd o)) (w16 (N.shiftr (rd o) 16)) f) = Some (upd_spec rd f o).
Proof.
  intros Ho. unfold upd_spec.
  rewrite !(usable_unfold rd _ o Ho), (info_bytes rd o Ho).
  unfold V_notify_off_multiplier. rewrite (le32_aligned rd (o + 16)) by lia.
  change (struct_len CFG_COMMON) with 16. change (struct_len CFG_NOTIFY) with 20.
  change (struct_len CFG_ISR) with 16. change (struct_len CFG_DEVICE) with 16.
  unfold scan_cap, PCI_CAP_ID_VNDR, CAP_BAR_OFFSET, CAP_BAR_OFFSET_OFFSET, CAP_LENGTH_OFFSET,
    CAP_NOTIFY_OFF_MULTIPLIER_OFFSET, VIRTIO_PCI_CAP_COMMON_CFG, VIRTIO_PCI_CAP_NOTIFY_CFG,
    VIRTIO_PCI_CAP_ISR_CFG, VIRTIO_PCI_CAP_DEVICE_CFG, CFG_COMMON, CFG_NOTIFY, CFG_ISR, CFG_DEVICE.
  cbn [fx_fit fx_bar FIXED andb ci_bar].
  set (id := w8 (rd o)). set (cl := w8 (w16 (N.shiftr (rd o) 16))).
  set (ct := w8 (N.shiftr (w16 (N.shiftr (rd o) 16)) 8)).
  clearbody id cl ct.
  destruct (id =? 9) eqn:Eid; cbn [negb andb]; [|reflexivity].
  destruct (cl <? 16) eqn:Ecl.
  { replace (16 <=? cl) with false by lia. replace (20 <=? cl) with false by lia.
    rewrite !andb_false_r. cbn [andb]. reflexivity. }
  destruct (256 <? o + cl) eqn:Efit.
  { replace (o + cl <=? 256) with false by lia. rewrite !andb_false_r. cbn [andb]. reflexivity. }
  replace (o + cl <=? 256) with true by lia. replace (16 <=? cl) with true by lia.
  unfold add_u8. rewrite !add_w_small by lia. cbn [ci_bar].
  set (bar := w8 (rdw rd (o + 4))). set (w8' := rdw rd (o + 8)). set (w12 := rdw rd (o + 12)).
  clearbody bar w8' w12.
  destruct (5 <? bar) eqn:Ebar.
  { replace (bar <=? 5) with false by lia. rewrite !andb_false_r. cbn [andb]. reflexivity. }
  replace (bar <=? 5) with true by lia. rewrite !andb_true_r.
  destruct (ct =? 1) eqn:E1; cbn [andb].
  { replace (ct =? 2) with false by lia. replace (ct =? 3) with false by lia. replace (ct =? 4) with false by lia.
    cbn [andb]. destruct (is_none (fd_common f)); reflexivity. }
  destruct (ct =? 2) eqn:E2; cbn [andb].
  { replace (ct =? 3) with false by lia. replace (ct =? 4) with false by lia. cbn [andb].
    destruct (20 <=? cl) eqn:E20; cbn [andb]; [|reflexivity].
    destruct (is_none (fd_notify f)); [|reflexivity].
    rewrite add_w_small by lia. reflexivity. }
  destruct (ct =? 3) eqn:E3; cbn [andb].
  { replace (ct =? 4) with false by lia. cbn [andb]. destruct (is_none (fd_isr f)); reflexivity. }
  destruct (ct =? 4) eqn:E4; cbn [andb]; [|reflexivity].
  destruct (is_none (fd_device f)); reflexivity.
Qed.

(* ---- the loop ---- *)
Definition cap_off (c : N * N * N) : N := fst (fst c).
Definition aligned_opt (cur : option N) : Prop := forall o, cur = Some o -> o mod 4 = 0.

Lemma cap_next_some rd o :
  cap_next rd (Some o) =
  (Some (o, w8 (rd o), w16 (N.shiftr (rd o) 16)),
   let nx := w8 (N.shiftr (rd o) 8) in
   if nx =? 0 then None else if (nx <? 64) || negb (N.land nx 3 =? 0) then None else Some nx).
Proof. reflexivity. Qed.
Lemma cap_next_aligned rd o : aligned_opt (snd (cap_next rd (Some o))).
Proof.
  rewrite cap_next_some. cbn [snd]. cbv zeta. set (nx := w8 (N.shiftr (rd o) 8)).
  intros x. destruct (nx =? 0); [discriminate|].
  destruct (nx <? 64); cbn [orb]; [discriminate|].
  destruct (N.land nx 3 =? 0) eqn:E; cbn [negb]; [|discriminate].
  intros H. inversion H; subst x. apply N.eqb_eq in E.
  change 3 with (N.ones 2) in E. rewrite N.land_ones in E. exact E.
Qed.

(* the repaired scan loop against the C12 capability walk: same items, the specification's update
   for each; it diverges exactly when the walk runs out of fuel *)
Lemma scan_loop_spec m rd : forall fuel cur f, aligned_opt cur ->
  fst (scan_loop FIXED fuel m rd cur f) =
  (if snd (caps_collect fuel rd cur)
   then SFound (fold_left (upd_spec rd) (map cap_off (fst (caps_collect fuel rd cur))) f)
   else SDiverge).
Proof.
  induction fuel as [|k IH]; intros cur f Hal.
  - destruct cur; reflexivity.
  - destruct cur as [o|]; [|reflexivity].
    pose proof (Hal o eq_refl) as Ho.
    cbn [scan_loop caps_collect]. rewrite cap_next_some. cbv zeta.
    pose proof (cap_next_aligned rd o) as Hnx. rewrite cap_next_some in Hnx. cbn [snd] in Hnx. cbv zeta in Hnx.
    set (nx := (if w8 (N.shiftr (rd o) 8) =? 0 then None
                else if (w8 (N.shiftr (rd o) 8) <? 64) || negb (N.land (w8 (N.shiftr (rd o) 8)) 3 =? 0) then None
                else Some (w8 (N.shiftr (rd o) 8)))) in *.
    pose proof (scan_cap_spec m rd o f Ho) as Hs.
    destruct (scan_cap FIXED m rd o (w8 (rd o)) (w16 (N.shiftr (rd o) 16)) f) as [[f'|] rds]; cbn [fst] in Hs; [|discriminate].
    inversion Hs; subst f'.
    specialize (IH nx (upd_spec rd f o) Hnx).
    destruct (scan_loop FIXED k m rd nx (upd_spec rd f o)) as [r t]. cbn [fst] in IH |- *.
    destruct (caps_collect k rd nx) as [l fin]. cbn [fst snd] in IH |- *. exact IH.
Qed.

(* ---- folding the update = the first usable structure of each type ---- *)
Lemma usable_type rd t1 t2 o : vcap_usable rd t1 o = true -> vcap_usable rd t2 o = true -> t1 = t2.
Proof. unfold vcap_usable. intros H1 H2. lia. Qed.

Ltac usable_cases rd o :=
  destruct (vcap_usable rd CFG_COMMON o) eqn:U1; destruct (vcap_usable rd CFG_NOTIFY o) eqn:U2;
  destruct (vcap_usable rd CFG_ISR o) eqn:U3; destruct (vcap_usable rd CFG_DEVICE o) eqn:U4;
  try (pose proof (usable_type rd _ _ o U1 U2) as X; discriminate X);
  try (pose proof (usable_type rd _ _ o U1 U3) as X; discriminate X);
  try (pose proof (usable_type rd _ _ o U1 U4) as X; discriminate X);
  try (pose proof (usable_type rd _ _ o U2 U3) as X; discriminate X);
  try (pose proof (usable_type rd _ _ o U2 U4) as X; discriminate X);
  try (pose proof (usable_type rd _ _ o U3 U4) as X; discriminate X).

Definition first_some {A} (a b : option A) : option A := match a with Some x => Some x | None => b end.

Lemma upd_spec_fields rd f o :
  fd_common (upd_spec rd f o) = first_some (fd_common f) (if vcap_usable rd CFG_COMMON o then Some (vcap_info rd o) else None)
  /\ fd_notify (upd_spec rd f o) = first_some (fd_notify f) (if vcap_usable rd CFG_NOTIFY o then Some (vcap_info rd o) else None)
  /\ fd_isr (upd_spec rd f o) = first_some (fd_isr f) (if vcap_usable rd CFG_ISR o then Some (vcap_info rd o) else None)
  /\ fd_device (upd_spec rd f o) = first_some (fd_device f) (if vcap_usable rd CFG_DEVICE o then Some (vcap_info rd o) else None)
  /\ fd_mult (upd_spec rd f o) = (if is_none (fd_notify f) && vcap_usable rd CFG_NOTIFY o
                                   then le32_at rd (o + V_notify_off_multiplier) else fd_mult f).
Proof.
  unfold upd_spec. destruct f as [c n mu i dv]. cbn [fd_common fd_notify fd_mult fd_isr fd_device].
  usable_cases rd o; cbn [andb]; destruct c, n, i, dv; cbn; repeat split; reflexivity.
Qed.

Lemma fold_upd_spec rd : forall offs f,
  let g := fold_left (upd_spec rd) offs f in
  fd_common g = first_some (fd_common f) (option_map (vcap_info rd) (select rd offs CFG_COMMON))
  /\ fd_notify g = first_some (fd_notify f) (option_map (vcap_info rd) (select rd offs CFG_NOTIFY))
  /\ fd_isr g = first_some (fd_isr f) (option_map (vcap_info rd) (select rd offs CFG_ISR))
  /\ fd_device g = first_some (fd_device f) (option_map (vcap_info rd) (select rd offs CFG_DEVICE))
  /\ fd_mult g = (if is_none (fd_notify f)
                  then match select rd offs CFG_NOTIFY with
                       | Some o => le32_at rd (o + V_notify_off_multiplier) | None => fd_mult f end
                  else fd_mult f).
Proof.
  induction offs as [|o t IH]; intros f g.
  - subst g. cbn. destruct (fd_common f), (fd_notify f), (fd_isr f), (fd_device f); repeat split; reflexivity.
  - subst g. cbn [fold_left]. destruct (IH (upd_spec rd f o)) as (A & B & C & D & E). cbv zeta in *.
    destruct (upd_spec_fields rd f o) as (A' & B' & C' & D' & E').
    rewrite A, B, C, D, E, A', B', C', D', E'. unfold select. cbn [find].
    repeat split.
    + destruct (fd_common f); cbn; [reflexivity|]. destruct (vcap_usable rd CFG_COMMON o); reflexivity.
    + destruct (fd_notify f); cbn; [reflexivity|]. destruct (vcap_usable rd CFG_NOTIFY o); reflexivity.
    + destruct (fd_isr f); cbn; [reflexivity|]. destruct (vcap_usable rd CFG_ISR o); reflexivity.
    + destruct (fd_device f); cbn; [reflexivity|]. destruct (vcap_usable rd CFG_DEVICE o); reflexivity.
    + destruct (fd_notify f); cbn; [reflexivity|]. destruct (vcap_usable rd CFG_NOTIFY o); reflexivity.
Qed.

Lemma found_eta f : f = mkFound (fd_common f) (fd_notify f) (fd_mult f) (fd_isr f) (fd_device f).
Proof. destruct f; reflexivity. Qed.

Lemma fold_upd_spec_found0 rd offs : fold_left (upd_spec rd) offs found0 = spec_found rd offs.
Proof.
  destruct (fold_upd_spec rd offs found0) as (A & B & C & D & E). cbv zeta in *.
  rewrite (found_eta (fold_left (upd_spec rd) offs found0)), A, B, C, D, E. reflexivity.
Qed.

Lemma cap_ptr_aligned rd : aligned_opt (capabilities_offset rd).
Proof.
  unfold capabilities_offset. intros o. destruct (_ =? 0); [discriminate|]. intros H. inversion H; subst o.
  change 252 with (N.shiftl (N.ones 6) 2). rewrite land_field.
  change (2 ^ 2) with 4. change (2 ^ 6) with 64. unfold w8. lia.
Qed.

(* C11, first clause: the scan of the repaired code selects, for each structure type, the FIRST
   capability of the list that the specification calls usable (vendor-specific, of that type, long
   enough for the structure, inside configuration space, bar 0..5), decodes its fields as the
   specification lays them out, and takes the multiplier of the selected notify capability; it cannot
   panic; it fails to terminate exactly when the capability walk does (a cyclic list) *)
Theorem scan_spec m rd :
  fst (scan FIXED m rd) =
  (if snd (capabilities 65 rd)
   then SFound (spec_found rd (map cap_off (fst (capabilities 65 rd))))
   else SDiverge).
Proof.
  unfold scan, capabilities, SCAN_FUEL.
  pose proof (scan_loop_spec m rd 65 (capabilities_offset rd) found0 (cap_ptr_aligned rd)) as H.
  destruct (scan_loop FIXED 65 m rd (capabilities_offset rd) found0) as [r t]. cbn [fst] in *.
  rewrite H. destruct (snd (caps_collect 65 rd (capabilities_offset rd))); [|reflexivity].
  rewrite fold_upd_spec_found0. reflexivity.
Qed.

(* the selected structure is the first usable one: nothing usable of that type precedes it *)
Theorem select_first rd offs ty o :
  select rd offs ty = Some o ->
  exists pre post, offs = pre ++ o :: post /\ vcap_usable rd ty o = true
                   /\ forall x, In x pre -> vcap_usable rd ty x = false.
Proof.
  unfold select. induction offs as [|h t IH]; cbn [find]; [discriminate|].
  destruct (vcap_usable rd ty h) eqn:E.
  - intros H. inversion H; subst h. exists [], t. repeat split; auto. intros x [].
  - intros H. destruct (IH H) as (pre & post & -> & U & P).
    exists (h :: pre), post. repeat split; auto. intros x [<-|Hin]; auto.
Qed.
Theorem select_none rd offs ty :
  select rd offs ty = None -> forall x, In x offs -> vcap_usable rd ty x = false.
Proof. unfold select. intros H x Hin. apply (find_none _ _ H x Hin). Qed.

(* ===================== 3. PciTransport::new ===================== *)
(* the reference function is in a state the C12 theorems speak about *)
Definition fn_ok (d : pcifn) : Prop := lenN (f_bars d) = 6 /\ f_cmd d < 65536 /\ bars_lt32 d.
(* what bar_info answers for register i of d *)
Definition bar_of (m : mode) (d : pcifn) (i : N) : outcome (option barinfo) := fst (fst (bar_info m d i)).

Lemma get_bar_region_eq fx m s info need al v :
  fn_ok (n_fn s) -> ci_bar info < 6 ->
  get_bar_region fx m s info need al v =
  (fst (region_check fx m (bar_of m (n_fn s) (ci_bar info)) info need al v),
   mkNst (n_fn s) (n_log s ++ snd (bar_info m (n_fn s) (ci_bar info)))
         (n_reqs s ++ snd (region_check fx m (bar_of m (n_fn s) (ci_bar info)) info need al v))).
Proof.
  intros (Hlen & Hc & Hv) Hi. unfold get_bar_region, bar_of.
  destruct (bar_info_no_side_effects m (n_fn s) (ci_bar info) Hlen Hi Hc Hv) as (r & tr & E & _).
  rewrite E. cbn [fst snd]. destruct (region_check fx m r info need al v) as [g rq]. reflexivity.
Qed.

(* PciTransport::new as a function of the SPECIFICATION's reading of configuration space: the
   structures are `spec_found` of the capability list, each window is the bounds check applied to what
   bar_info reports for the structure's BAR *)
Definition win (m : mode) (d : pcifn) (info : capinfo) (need al v : N) : gres * list (N * N) :=
  region_check FIXED m (bar_of m d (ci_bar info)) info need al v.

Definition new_pure (m : mode) (d : pcifn) (v0 v1 v2 v3 : N) : nres * list (N * N) :=
  let rd := cfg_read d in
  let dv := rdw rd 0 in
  if negb (w16 dv =? VIRTIO_VENDOR_ID) then (NErr PE_InvalidVendorId (w16 dv) 0, [])
  else match device_type (w16 (N.shiftr dv 16)) with
  | None => (NErr PE_InvalidDeviceId (w16 (N.shiftr dv 16)) 0, [])
  | Some dt =>
  if negb (snd (capabilities 65 rd)) then (NDiverge, [])
  else
  let f := spec_found rd (map cap_off (fst (capabilities 65 rd))) in
  match fd_common f with
  | None => (NErr PE_MissingCommonConfig 0 0, [])
  | Some ic =>
  match win m d ic COMMON_SIZE COMMON_ALIGN v0 with
  | (GErr c p q, r0) => (NErr c p q, r0)
  | (GPanic, r0) => (NPanic, r0)
  | (GOk cv, r0) =>
  match fd_notify f with
  | None => (NErr PE_MissingNotifyConfig 0 0, r0)
  | Some inn =>
  if negb (fd_mult f mod 2 =? 0) then (NErr PE_InvalidNotifyOffMultiplier (fd_mult f) 0, r0)
  else
  match win m d inn 2 2 v1 with
  | (GErr c p q, r1) => (NErr c p q, r0 ++ r1)
  | (GPanic, r1) => (NPanic, r0 ++ r1)
  | (GOk nv, r1) =>
  match fd_isr f with
  | None => (NErr PE_MissingIsrConfig 0 0, r0 ++ r1)
  | Some ii =>
  match win m d ii 1 1 v2 with
  | (GErr c p q, r2) => (NErr c p q, r0 ++ r1 ++ r2)
  | (GPanic, r2) => (NPanic, r0 ++ r1 ++ r2)
  | (GOk iv, r2) =>
  match fd_device f with
  | None => (NOk (mkT dt cv nv (ci_len inn / 2) (fd_mult f) iv None), r0 ++ r1 ++ r2)
  | Some idv =>
  match win m d idv 4 4 v3 with
  | (GErr c p q, r3) => (NErr c p q, r0 ++ r1 ++ r2 ++ r3)
  | (GPanic, r3) => (NPanic, r0 ++ r1 ++ r2 ++ r3)
  | (GOk dv', r3) =>
      (NOk (mkT dt cv nv (ci_len inn / 2) (fd_mult f) iv (Some (dv', ci_len idv / 4))), r0 ++ r1 ++ r2 ++ r3)
  end end end end end end end end end.

(* every structure the specification selects names a BAR register *)
Lemma spec_found_bars rd offs :
  let f := spec_found rd offs in
  (forall c, fd_common f = Some c -> ci_bar c <= 5) /\ (forall c, fd_notify f = Some c -> ci_bar c <= 5)
  /\ (forall c, fd_isr f = Some c -> ci_bar c <= 5) /\ (forall c, fd_device f = Some c -> ci_bar c <= 5).
Proof.
  cbv zeta. unfold spec_found. cbn [fd_common fd_notify fd_isr fd_device].
  assert (G : forall ty c, option_map (vcap_info rd) (select rd offs ty) = Some c -> ci_bar c <= 5).
  { intros ty c H. destruct (select rd offs ty) as [o|] eqn:E; [|discriminate].
    cbn in H. inversion H; subst c. destruct (select_first rd offs ty o E) as (_ & _ & _ & U & _).
    unfold vcap_usable in U. unfold vcap_info. cbn [ci_bar]. lia. }
  repeat split; intros c; apply G.
Qed.

(* C11: the repaired `new` run against the reference function IS new_pure: same result, same
   mmio_phys_to_virt requests, and the PCI function is left exactly as it was *)
Theorem new_refines m d v0 v1 v2 v3 :
  fn_ok d ->
  fst (new FIXED m d v0 v1 v2 v3) = fst (new_pure m d v0 v1 v2 v3)
  /\ n_reqs (snd (new FIXED m d v0 v1 v2 v3)) = snd (new_pure m d v0 v1 v2 v3)
  /\ n_fn (snd (new FIXED m d v0 v1 v2 v3)) = d.
Proof.
  intros Hok. unfold new, new_pure. cbv zeta.
  destruct (negb (w16 (rdw (cfg_read d) 0) =? VIRTIO_VENDOR_ID)); [cbn; auto|].
  destruct (device_type (w16 (N.shiftr (rdw (cfg_read d) 0) 16))) as [dt|]; [|cbn; auto].
  rewrite (scan_spec m (cfg_read d)).
  destruct (snd (capabilities 65 (cfg_read d))); cbn [negb]; [|cbn; auto].
  set (f := spec_found (cfg_read d) (map cap_off (fst (capabilities 65 (cfg_read d))))).
  destruct (spec_found_bars (cfg_read d) (map cap_off (fst (capabilities 65 (cfg_read d))))) as (B1 & B2 & B3 & B4).
  fold f in B1, B2, B3, B4.
  set (s1 := log_reads (log_reads (mkNst d [] []) [0]) (snd (scan FIXED m (cfg_read d)))).
  assert (H1 : n_fn s1 = d /\ n_reqs s1 = []) by (split; reflexivity).
  destruct (fd_common f) as [ic|] eqn:Ec; [|cbn; auto].
  unfold win.
  rewrite (get_bar_region_eq FIXED m s1 ic) by (first [exact Hok | specialize (B1 ic eq_refl); lia]).
  destruct H1 as [F1 R1]. rewrite F1, R1. cbn [app].
  destruct (region_check FIXED m (bar_of m d (ci_bar ic)) ic COMMON_SIZE COMMON_ALIGN v0) as [[cv|c p q|] r0];
    cbn [fst snd n_fn n_reqs]; auto.
  destruct (fd_notify f) as [inn|] eqn:En; [|cbn; auto].
  destruct (negb (fd_mult f mod 2 =? 0)); [cbn; auto|].
  match goal with |- context [get_bar_region FIXED m ?s inn 2 2 v1] => set (s2 := s) end.
  rewrite (get_bar_region_eq FIXED m s2 inn) by (first [exact Hok | specialize (B2 inn eq_refl); lia]).
  subst s2. cbn [n_fn n_reqs n_log].
  destruct (region_check FIXED m (bar_of m d (ci_bar inn)) inn 2 2 v1) as [[nv|c p q|] r1];
    cbn [fst snd n_fn n_reqs]; auto.
  destruct (fd_isr f) as [ii|] eqn:Ei; [|cbn; auto].
  match goal with |- context [get_bar_region FIXED m ?s ii 1 1 v2] => set (s3 := s) end.
  rewrite (get_bar_region_eq FIXED m s3 ii) by (first [exact Hok | specialize (B3 ii eq_refl); lia]).
  subst s3. cbn [n_fn n_reqs n_log].
  destruct (region_check FIXED m (bar_of m d (ci_bar ii)) ii 1 1 v2) as [[iv|c p q|] r2];
    cbn [fst snd n_fn n_reqs]; rewrite <- ?app_assoc; auto.
  destruct (fd_device f) as [idv|] eqn:Ed; [|cbn; auto].
  match goal with |- context [get_bar_region FIXED m ?s idv 4 4 v3] => set (s4 := s) end.
  rewrite (get_bar_region_eq FIXED m s4 idv) by (first [exact Hok | specialize (B4 idv eq_refl); lia]).
  subst s4. cbn [n_fn n_reqs n_log].
  destruct (region_check FIXED m (bar_of m d (ci_bar idv)) idv 4 4 v3) as [[dv'|c p q|] r3];
    cbn [fst snd n_fn n_reqs]; rewrite <- ?app_assoc; auto.
Qed.

(* ---- the transport that `new` returns ---- *)
Definition win_ok (m : mode) (d : pcifn) (info : capinfo) (need al v : N) : Prop :=
  ci_bar info <= 5 /\ window_in (bar_of m d (ci_bar info)) info need al v.
(* the request made for a structure: the BAR's address plus the offset, in u64 *)
Definition req_of (m : mode) (d : pcifn) (info : capinfo) : N * N :=
  ((bar_addr (match bar_of m d (ci_bar info) with Ok x => x | _ => None end) + ci_off info) mod two64, ci_len info).

Lemma win_sound m d info need al v vaddr rq :
  ci_bar info <= 5 -> win m d info need al v = (GOk vaddr, rq) ->
  vaddr = v /\ win_ok m d info need al v /\ rq = [req_of m d info].
Proof.
  intros Hb H. unfold win in H. apply region_check_sound in H; [|reflexivity].
  destruct H as (E & W & R & _). repeat split; auto.
Qed.

Theorem new_pure_windows m d v0 v1 v2 v3 t rq :
  new_pure m d v0 v1 v2 v3 = (NOk t, rq) ->
  let rd := cfg_read d in
  let f := spec_found rd (map cap_off (fst (capabilities 65 rd))) in
  snd (capabilities 65 rd) = true
  /\ w16 (rdw rd 0) = VIRTIO_VENDOR_ID
  /\ device_type (w16 (N.shiftr (rdw rd 0) 16)) = Some (t_devtype t)
  /\ exists ic inn ii,
      fd_common f = Some ic /\ fd_notify f = Some inn /\ fd_isr f = Some ii
      /\ fd_mult f mod 2 = 0
      /\ win_ok m d ic COMMON_SIZE COMMON_ALIGN v0 /\ win_ok m d inn 2 2 v1 /\ win_ok m d ii 1 1 v2
      /\ t_common t = v0 /\ t_notify t = v1 /\ t_notify_len t = ci_len inn / 2
      /\ t_mult t = fd_mult f /\ t_isr t = v2
      /\ match fd_device f with
         | None => t_cfg t = None /\ rq = [req_of m d ic; req_of m d inn; req_of m d ii]
         | Some idv => win_ok m d idv 4 4 v3 /\ t_cfg t = Some (v3, ci_len idv / 4)
                       /\ rq = [req_of m d ic; req_of m d inn; req_of m d ii; req_of m d idv]
         end.
Proof.
  unfold new_pure. cbv zeta.
  destruct (w16 (rdw (cfg_read d) 0) =? VIRTIO_VENDOR_ID) eqn:Ev; cbn [negb]; [|discriminate].
  destruct (device_type (w16 (N.shiftr (rdw (cfg_read d) 0) 16))) as [dt|] eqn:Edt; [|discriminate].
  destruct (snd (capabilities 65 (cfg_read d))) eqn:Efin; cbn [negb]; [|discriminate].
  set (f := spec_found (cfg_read d) (map cap_off (fst (capabilities 65 (cfg_read d))))).
  destruct (spec_found_bars (cfg_read d) (map cap_off (fst (capabilities 65 (cfg_read d))))) as (B1 & B2 & B3 & B4).
  fold f in B1, B2, B3, B4. clearbody f.
  destruct (fd_common f) as [ic|] eqn:Ec; [|discriminate].
  destruct (win m d ic COMMON_SIZE COMMON_ALIGN v0) as [[cv|c p q|] r0] eqn:W0; try discriminate.
  destruct (fd_notify f) as [inn|] eqn:En; [|discriminate].
  destruct (fd_mult f mod 2 =? 0) eqn:Em; cbn [negb]; [|discriminate].
  destruct (win m d inn 2 2 v1) as [[nv|c p q|] r1] eqn:W1; try discriminate.
  destruct (fd_isr f) as [ii|] eqn:Ei; [|discriminate].
  destruct (win m d ii 1 1 v2) as [[iv|c p q|] r2] eqn:W2; try discriminate.
  apply win_sound in W0; [|apply B1; reflexivity]. destruct W0 as (-> & K0 & ->).
  apply win_sound in W1; [|apply B2; reflexivity]. destruct W1 as (-> & K1 & ->).
  apply win_sound in W2; [|apply B3; reflexivity]. destruct W2 as (-> & K2 & ->).
  apply N.eqb_eq in Ev, Em.
  destruct (fd_device f) as [idv|] eqn:Ed.
  - destruct (win m d idv 4 4 v3) as [[dv'|c p q|] r3] eqn:W3; try discriminate.
    apply win_sound in W3; [|apply B4; reflexivity]. destruct W3 as (-> & K3 & ->).
    intros H. injection H as Ht Hrq. subst t rq. cbn [t_devtype t_common t_notify t_notify_len t_mult t_isr t_cfg app].
    split; [reflexivity|]. split; [exact Ev|]. split; [first [exact Edt | reflexivity]|].
    exists ic, inn, ii. destruct K0, K1, K2, K3. repeat split; auto.
  - intros H. injection H as Ht Hrq. subst t rq. cbn [t_devtype t_common t_notify t_notify_len t_mult t_isr t_cfg app].
    split; [reflexivity|]. split; [exact Ev|]. split; [first [exact Edt | reflexivity]|].
    exists ic, inn, ii. destruct K0, K1, K2. repeat split; auto.
Qed.

(* ---- well-formed BARs: what bar_info answers (C12) and why the physical window cannot wrap ---- *)
Lemma bar_of_placed m d i s : fn_ok d -> spec_ok s -> placed d i s -> bar_of m d i = Ok (spec_truth s).
Proof.
  intros (Hlen & Hc & _) Hs Hp. unfold bar_of.
  destruct (bar_info_correct m d i s Hlen Hc Hs Hp) as (tr & E & _). rewrite E. reflexivity.
Qed.

Lemma aligned_room a k n : a mod 2 ^ k = 0 -> a < 2 ^ n -> k <= n -> a + 2 ^ k <= 2 ^ n.
Proof.
  intros Ha Hlt Hk.
  assert (Hp : 2 ^ n = 2 ^ (n - k) * 2 ^ k) by (rewrite <- N.pow_add_r; f_equal; lia).
  assert (Hk0 : 2 ^ k <> 0) by (apply N.pow_nonzero; discriminate).
  pose proof (N.div_mod a (2 ^ k) Hk0) as D. rewrite Ha, N.add_0_r in D.
  set (q := a / 2 ^ k) in *. rewrite Hp in *.
  assert (Hq : q < 2 ^ (n - k)).
  { apply N.mul_lt_mono_pos_l with (2 ^ k); [lia|]. rewrite <- D. rewrite N.mul_comm. exact Hlt. }
  rewrite D. replace (2 ^ k * q + 2 ^ k) with ((q + 1) * 2 ^ k) by lia.
  apply N.mul_le_mono_r. lia.
Qed.

(* a memory BAR of the specification: 2^k bytes at a size-aligned address, ending inside the 64-bit space *)
Lemma spec_truth_mem s ty pf a sz : spec_ok s -> spec_truth s = Some (BarMem ty pf a sz) ->
  exists k, sz = 2 ^ k /\ 4 <= k <= 63 /\ a mod 2 ^ k = 0 /\ a + sz <= two64.
Proof.
  intros Hok H. destruct s as [|k mm a'|ty' pf' k mm a'|pf' k mm a']; cbn in H; try discriminate; inversion H; subst;
    cbn [spec_ok] in Hok.
  - destruct Hok as (Hty & Hk & Hkm & Hm & Ha & Hlt). exists k. repeat split; try lia.
    assert (Hlt32 : a < 2 ^ 32) by (apply N.lt_le_trans with (2 ^ mm); [exact Hlt|apply N.pow_le_mono_r; lia]).
    pose proof (aligned_room a k 32 Ha Hlt32 ltac:(lia)) as R. change (2 ^ 32) with 4294967296 in R. unfold two64. lia.
  - destruct Hok as (Hk & Hkm & Hm & Ha & Hlt). exists k. repeat split; try lia.
    assert (Hlt64 : a < 2 ^ 64) by (apply N.lt_le_trans with (2 ^ mm); [exact Hlt|apply N.pow_le_mono_r; lia]).
    pose proof (aligned_room a k 64 Ha Hlt64 ltac:(lia)) as R. exact R.
Qed.

(* a structure names a well-formed BAR when its bar field is the index of the first register of one *)
Definition names_bar (d : pcifn) (c : capinfo) : Prop := exists s, spec_ok s /\ placed d (ci_bar c) s.
Definition selected (f : found) (c : capinfo) : Prop :=
  fd_common f = Some c \/ fd_notify f = Some c \/ fd_isr f = Some c \/ fd_device f = Some c.

(* the window in the terms of the property: inside an allocated memory BAR, natural-number sums *)
Definition window_spec (d : pcifn) (c : capinfo) (need al v : N) (rq : N * N) : Prop :=
  exists s ty pf a k,
    spec_ok s /\ placed d (ci_bar c) s /\ spec_truth s = Some (BarMem ty pf a (2 ^ k)) /\ a <> 0
    /\ ci_off c + ci_len c <= 2 ^ k
    /\ rq = (a + ci_off c, ci_len c) /\ a + ci_off c + ci_len c <= a + 2 ^ k /\ a + 2 ^ k <= two64
    /\ need <= ci_len c /\ v mod al = 0.

Lemma win_ok_spec m d c need al v :
  fn_ok d -> names_bar d c -> 0 < need -> win_ok m d c need al v -> window_spec d c need al v (req_of m d c).
Proof.
  intros Hok (s & Hs & Hp) Hneed (Hb & ty & pf & a & bsz & E & Ha & Hsum & Hn & Hal).
  pose proof (bar_of_placed m d (ci_bar c) s Hok Hs Hp) as Eb. rewrite Eb in E. inversion E as [Et].
  destruct (spec_truth_mem s ty pf a bsz Hs Et) as (k & -> & Hk & Ham & Hw).
  exists s, ty, pf, a, k. repeat split; auto; try lia.
  unfold req_of. rewrite Eb, Et. cbn [bar_addr]. rewrite N.mod_small by (unfold two64 in *; lia). reflexivity.
Qed.

(* C11_windows: the transport the repaired `new` returns.  For EVERY configuration space (reference
   function in any state), every capability list, every offset / length / multiplier, both profiles:
   the PCI function is unchanged; the structures are the specification's selection (first usable of
   each type); the multiplier is even; and each window whose structure names a well-formed BAR lies,
   as natural numbers, inside that allocated memory BAR, is requested at bar address + offset with its
   length, is long enough for its use and mapped at an address aligned for it *)
Theorem new_windows m d v0 v1 v2 v3 t s :
  fn_ok d ->
  new FIXED m d v0 v1 v2 v3 = (NOk t, s) ->
  let rd := cfg_read d in
  let f := spec_found rd (map cap_off (fst (capabilities 65 rd))) in
  n_fn s = d
  /\ snd (capabilities 65 rd) = true
  /\ device_type (w16 (N.shiftr (rdw rd 0) 16)) = Some (t_devtype t)
  /\ exists ic inn ii,
      fd_common f = Some ic /\ fd_notify f = Some inn /\ fd_isr f = Some ii
      /\ fd_mult f mod 2 = 0 /\ t_mult t = fd_mult f
      /\ t_common t = v0 /\ t_notify t = v1 /\ t_notify_len t = ci_len inn / 2 /\ t_isr t = v2
      /\ (names_bar d ic -> window_spec d ic COMMON_SIZE COMMON_ALIGN v0 (req_of m d ic))
      /\ (names_bar d inn -> window_spec d inn 2 2 v1 (req_of m d inn))
      /\ (names_bar d ii -> window_spec d ii 1 1 v2 (req_of m d ii))
      /\ match fd_device f with
         | None => t_cfg t = None /\ n_reqs s = [req_of m d ic; req_of m d inn; req_of m d ii]
         | Some idv => t_cfg t = Some (v3, ci_len idv / 4)
                       /\ n_reqs s = [req_of m d ic; req_of m d inn; req_of m d ii; req_of m d idv]
                       /\ (names_bar d idv -> window_spec d idv 4 4 v3 (req_of m d idv))
         end.
Proof.
  intros Hok H. cbv zeta.
  destruct (new_refines m d v0 v1 v2 v3 Hok) as (R1 & R2 & R3). rewrite H in R1, R2, R3. cbn [fst snd] in R1, R2, R3.
  destruct (new_pure m d v0 v1 v2 v3) as [r rq] eqn:Ep. cbn [fst snd] in R1, R2. subst r rq.
  apply new_pure_windows in Ep. cbv zeta in Ep.
  destruct Ep as (Hfin & Hv & Hdt & ic & inn & ii & Ec & En & Ei & Hm & K0 & K1 & K2 & T1 & T2 & T3 & T4 & T5 & Hd).
  split; [exact R3|]. split; [exact Hfin|]. split; [exact Hdt|].
  set (F := spec_found (cfg_read d) (map cap_off (fst (capabilities 65 (cfg_read d))))) in *. clearbody F.
  clear Hfin Hv Hdt H.
  exists ic, inn, ii.
  split; [exact Ec|]. split; [exact En|]. split; [exact Ei|]. split; [exact Hm|]. split; [exact T4|].
  split; [exact T1|]. split; [exact T2|]. split; [exact T3|]. split; [exact T5|].
  split; [|split; [|split]].
  - intros Hn. apply (win_ok_spec m d ic); auto. reflexivity.
  - intros Hn. apply (win_ok_spec m d inn); auto. reflexivity.
  - intros Hn. apply (win_ok_spec m d ii); auto. reflexivity.
  - destruct (fd_device _) as [idv|].
    + destruct Hd as (K3 & T6 & Hrq). repeat split; auto.
      intros Hn. apply (win_ok_spec m d idv); auto. reflexivity.
    + exact Hd.
Qed.

(* "either fails with an error or yields ...": under the same reading (every selected structure names
   a well-formed BAR) the repaired `new` never panics, in either profile, whatever the offsets, lengths,
   multiplier and mapping addresses are; it does not terminate only on a cyclic capability list *)
Theorem new_total m d v0 v1 v2 v3 :
  fn_ok d ->
  (forall c, selected (spec_found (cfg_read d) (map cap_off (fst (capabilities 65 (cfg_read d))))) c -> names_bar d c) ->
  match fst (new FIXED m d v0 v1 v2 v3) with
  | NOk _ | NErr _ _ _ => snd (capabilities 65 (cfg_read d)) = true \/ True
  | NDiverge => snd (capabilities 65 (cfg_read d)) = false
  | NPanic => False
  end.
Proof.
  intros Hok Hnb. destruct (new_refines m d v0 v1 v2 v3 Hok) as (R1 & _). rewrite R1. clear R1.
  unfold new_pure. cbv zeta.
  destruct (negb (w16 (rdw (cfg_read d) 0) =? VIRTIO_VENDOR_ID)); cbn [fst]; [auto|].
  destruct (device_type _) as [dt|]; cbn [fst]; [|auto].
  destruct (snd (capabilities 65 (cfg_read d))) eqn:Efin; cbn [negb fst]; [|reflexivity].
  set (f := spec_found (cfg_read d) (map cap_off (fst (capabilities 65 (cfg_read d))))) in *.
  assert (NP : forall c need al v, selected f c -> 0 < need -> fst (win m d c need al v) <> GPanic).
  { intros c need al v Hsel Hneed. destruct (Hnb c Hsel) as (s & Hs & Hp).
    unfold win. rewrite (bar_of_placed m d (ci_bar c) s Hok Hs Hp).
    apply region_check_no_panic; try discriminate; auto.
    intros ty pf a bsz E. inversion E as [Et].
    destruct (spec_truth_mem s ty pf a bsz Hs Et) as (k & _ & _ & _ & Hw). exact Hw. }
  destruct (fd_common f) as [ic|] eqn:Ec; cbn [fst]; [|auto].
  pose proof (NP ic COMMON_SIZE COMMON_ALIGN v0 (or_introl Ec) eq_refl) as P0.
  destruct (win m d ic COMMON_SIZE COMMON_ALIGN v0) as [[cv|c p q|] r0]; cbn [fst] in *; auto; try congruence.
  destruct (fd_notify f) as [inn|] eqn:En; cbn [fst]; [|auto].
  destruct (negb (fd_mult f mod 2 =? 0)); cbn [fst]; [auto|].
  pose proof (NP inn 2 2 v1 (or_intror (or_introl En)) eq_refl) as P1.
  destruct (win m d inn 2 2 v1) as [[nv|c p q|] r1]; cbn [fst] in *; auto; try congruence.
  destruct (fd_isr f) as [ii|] eqn:Ei; cbn [fst]; [|auto].
  pose proof (NP ii 1 1 v2 (or_intror (or_intror (or_introl Ei))) eq_refl) as P2.
  destruct (win m d ii 1 1 v2) as [[iv|c p q|] r2]; cbn [fst] in *; auto; try congruence.
  destruct (fd_device f) as [idv|] eqn:Ed; cbn [fst]; [|auto].
  pose proof (NP idv 4 4 v3 (or_intror (or_intror (or_intror Ed))) eq_refl) as P3.
  destruct (win m d idv 4 4 v3) as [[dv'|c p q|] r3]; cbn [fst] in *; auto; try congruence.
Qed.

(* ===================== 4. the `new` monitor holds of the model ===================== *)
(* the descriptive kinds of the reference function are honest: wherever slot_truth says a BAR starts
   (or that the register is unimplemented), the registers there are a well-formed BAR of that description *)
Definition kinds_honest (d : pcifn) : Prop :=
  forall i tr, i <= 5 -> slot_truth (f_bars d) i = Some tr ->
    exists s, spec_ok s /\ placed d i s /\ spec_truth s = tr.

Lemma truth_bar_of m d i tr : fn_ok d -> kinds_honest d -> i <= 5 -> slot_truth (f_bars d) i = Some tr ->
  bar_of m d i = Ok tr /\ (forall ty pf a sz, tr = Some (BarMem ty pf a sz) -> a + sz <= two64).
Proof.
  intros Hok Hk Hi Ht. destruct (Hk i tr Hi Ht) as (s & Hs & Hp & <-). split.
  - apply bar_of_placed; auto.
  - intros ty pf a sz E. destruct (spec_truth_mem s ty pf a sz Hs E) as (k & _ & _ & _ & Hw). exact Hw.
Qed.

Definition zipv (rq : list (N * N)) (vs : list N) : list (N * N * N) :=
  map (fun x => (fst (fst x), snd (fst x), snd x)) (combine rq vs).

(* one window, against the monitor's per-window predicate *)
Lemma win_verdict m d ty c v :
  fn_ok d -> kinds_honest d -> ci_bar c <= 5 -> (exists tr, slot_truth (f_bars d) (ci_bar c) = Some tr) ->
  let r := win m d c (use_size ty) (use_align ty) v in
  match fst r with
  | GOk v' => v' = v /\ exists p s, snd r = [(p, s)] /\ window_ok_b (f_bars d) true (ty, c) (p, s, v) = true
  | GErr code _ _ =>
      snd r = [] \/ (exists p s, snd r = [(p, s)] /\ window_ok_b (f_bars d) false (ty, c) (p, s, v) = true)
  | GPanic => False
  end.
Proof.
  intros Hok Hk Hb (tr & Ht). cbv zeta. unfold win.
  destruct (truth_bar_of m d (ci_bar c) tr Hok Hk Hb Ht) as (Eb & Hw). rewrite Eb, region_check_complete.
  unfold window_ok_b. rewrite Ht. replace (ci_bar c <=? 5) with true by lia.
  destruct tr as [[tyb pf a bsz|a bsz]|]; cbn [fst snd]; auto.
  specialize (Hw tyb pf a bsz eq_refl).
  destruct (a =? 0) eqn:Ea; cbn [fst snd]; auto.
  destruct ((bsz <? ci_off c + ci_len c) || (ci_len c <? use_size ty)) eqn:Eb2; cbn [fst snd]; auto.
  assert (Hlen : 0 < use_size ty) by (unfold use_size; destruct (ty =? CFG_COMMON), (ty =? CFG_NOTIFY), (ty =? CFG_ISR); lia).
  replace (two64 <=? a + ci_off c) with false by (unfold two64 in *; lia).
  assert (Hin : inside_bar_b (Some (BarMem tyb pf a bsz)) (ci_off c) (ci_len c) && (a + ci_off c =? bar_addr (Some (BarMem tyb pf a bsz)) + ci_off c)
                && (ci_len c =? ci_len c) && (use_size ty <=? ci_len c) = true).
  { unfold inside_bar_b. cbn [bar_addr]. rewrite Ea, !N.eqb_refl. cbn [negb andb].
    replace (ci_off c + ci_len c <=? bsz) with true by lia. replace (use_size ty <=? ci_len c) with true by lia. reflexivity. }
  destruct (v mod use_align ty =? 0) eqn:Eal; cbn [fst snd].
  - split; [reflexivity|]. exists (a + ci_off c), (ci_len c). split; [reflexivity|].
    rewrite Hin. reflexivity.
  - right. exists (a + ci_off c), (ci_len c). split; [reflexivity|]. rewrite Hin. reflexivity.
Qed.

Lemma windows_ok_nil bars aa want : windows_ok_b bars aa want [] = true.
Proof. destruct want; reflexivity. Qed.

Definition rc_of_n (r : nres) : N := match r with NOk _ => 0 | NErr _ _ _ => 1 | NPanic => 2 | NDiverge => 4 end.

Lemma wok_cons bars aa w r wt rt :
  windows_ok_b bars aa (w :: wt) (r :: rt) =
  window_ok_b bars (aa || negb (match rt with [] => true | _ => false end)) w r && windows_ok_b bars aa wt rt.
Proof. reflexivity. Qed.
Lemma wok_weaken bars w r : window_ok_b bars true w r = true -> window_ok_b bars false w r = true.
Proof.
  unfold window_ok_b. destruct w as [ty ci], r as [[p s] v]. intros H.
  apply andb_prop in H. destruct H as [H _]. rewrite H. reflexivity.
Qed.

Ltac leaf :=
  cbn [fst snd rc_of_n zipv combine map app N.eqb N.ltb N.compare Pos.compare Pos.compare_cont negb is_some andb];
  repeat rewrite wok_cons; rewrite ?windows_ok_nil; cbn [orb negb andb];
  repeat match goal with
         | K : window_ok_b _ true _ _ = true |- _ => first [rewrite K | rewrite (wok_weaken _ _ _ K)]; clear K
         | K : window_ok_b _ false _ _ = true |- _ => rewrite K; clear K
         end;
  cbn [andb]; try reflexivity.

(* C11: the monitor evaluated on the implementation is a theorem of the model.  For every function in a
   state the C12 theorems cover, whose kinds are honest and whose selected structures name registers
   where slot_truth is defined: what the repaired `new` returns and requests satisfies new_conform_b *)
Theorem new_conforms m d v0 v1 v2 v3 :
  fn_ok d -> kinds_honest d ->
  (forall c, selected (spec_found (cfg_read d) (map cap_off (fst (capabilities 65 (cfg_read d))))) c ->
             exists tr, slot_truth (f_bars d) (ci_bar c) = Some tr) ->
  new_conform_b d (rc_of_n (fst (new FIXED m d v0 v1 v2 v3)))
                (zipv (n_reqs (snd (new FIXED m d v0 v1 v2 v3))) [v0; v1; v2; v3]) = true.
Proof.
  intros Hok Hk Hsel. destruct (new_refines m d v0 v1 v2 v3 Hok) as (R1 & R2 & _). rewrite R1, R2. clear R1 R2.
  unfold new_conform_b, new_pure. cbv zeta.
  destruct (capabilities 65 (cfg_read d)) as [caps fin] eqn:Ecaps. cbn [fst snd] in *.
  destruct fin; cbn [negb]; [|reflexivity].
  change (map (fun c => fst (fst c)) caps) with (map cap_off caps).
  set (f := spec_found (cfg_read d) (map cap_off caps)) in *.
  destruct (spec_found_bars (cfg_read d) (map cap_off caps)) as (B1 & B2 & B3 & B4). fold f in B1, B2, B3, B4.
  clearbody f.
  destruct (negb (w16 (rdw (cfg_read d) 0) =? VIRTIO_VENDOR_ID)); [cbn; apply windows_ok_nil|].
  destruct (device_type _) as [dt|]; [|cbn; apply windows_ok_nil].
  unfold wanted.
  destruct (fd_common f) as [ic|] eqn:Ec; [|cbn; reflexivity].
  pose proof (win_verdict m d CFG_COMMON ic v0 Hok Hk (B1 ic eq_refl) (Hsel ic (or_introl Ec))) as W0. cbv zeta in W0.
  change (use_size CFG_COMMON) with COMMON_SIZE in W0. change (use_align CFG_COMMON) with COMMON_ALIGN in W0.
  destruct (win m d ic COMMON_SIZE COMMON_ALIGN v0) as [[cv|c p q|] r0]; cbn [fst snd] in W0; [| |contradiction].
  2:{ destruct W0 as [->|(p0 & s0 & -> & K)]; leaf. }
  destruct W0 as (-> & p0 & s0 & -> & K0).
  destruct (fd_notify f) as [inn|] eqn:En; [|leaf].
  destruct (fd_mult f mod 2 =? 0) eqn:Em; cbn [negb]; [|leaf].
  pose proof (win_verdict m d CFG_NOTIFY inn v1 Hok Hk (B2 inn eq_refl) (Hsel inn (or_intror (or_introl En)))) as W1.
  cbv zeta in W1. change (use_size CFG_NOTIFY) with 2 in W1. change (use_align CFG_NOTIFY) with 2 in W1.
  destruct (win m d inn 2 2 v1) as [[nv|c p q|] r1]; cbn [fst snd] in W1; [| |contradiction].
  2:{ destruct W1 as [->|(p1 & s1 & -> & K)]; leaf. }
  destruct W1 as (-> & p1 & s1 & -> & K1).
  destruct (fd_isr f) as [ii|] eqn:Ei; [|leaf].
  pose proof (win_verdict m d CFG_ISR ii v2 Hok Hk (B3 ii eq_refl) (Hsel ii (or_intror (or_intror (or_introl Ei))))) as W2.
  cbv zeta in W2. change (use_size CFG_ISR) with 1 in W2. change (use_align CFG_ISR) with 1 in W2.
  destruct (win m d ii 1 1 v2) as [[iv|c p q|] r2]; cbn [fst snd] in W2; [| |contradiction].
  2:{ destruct W2 as [->|(p2 & s2 & -> & K)]; leaf. }
  destruct W2 as (-> & p2 & s2 & -> & K2).
  destruct (fd_device f) as [idv|] eqn:Ed; [|leaf].
  pose proof (win_verdict m d CFG_DEVICE idv v3 Hok Hk (B4 idv eq_refl) (Hsel idv (or_intror (or_intror (or_intror Ed))))) as W3.
  cbv zeta in W3. change (use_size CFG_DEVICE) with 4 in W3. change (use_align CFG_DEVICE) with 4 in W3.
  destruct (win m d idv 4 4 v3) as [[dv'|c p q|] r3]; cbn [fst snd] in W3; [| |contradiction].
  2:{ destruct W3 as [->|(p3 & s3 & -> & K)]; leaf. }
  destruct W3 as (-> & p3 & s3 & -> & K3). leaf.
Qed.

(* ---- slot_truth (the truth the monitors use) agrees with the C12 description of every well-formed BAR ---- *)
Lemma ldiff_low x t n : x mod 2 ^ n = 0 -> t < 2 ^ n -> N.ldiff (x + t) (N.ones n) = x.
Proof.
  intros Hx Ht. rewrite N.ldiff_ones_r, N.shiftl_mul_pow2, N.shiftr_div_pow2.
  assert (H0 : 2 ^ n <> 0) by (apply N.pow_nonzero; discriminate).
  pose proof (N.div_mod x (2 ^ n) H0) as D. rewrite Hx, N.add_0_r in D.
  replace ((x + t) / 2 ^ n) with (x / 2 ^ n).
  - rewrite N.mul_comm. symmetry. exact D.
  - rewrite D at 2. rewrite N.mul_comm, N.div_add_l by exact H0. rewrite (N.div_small t) by exact Ht. lia.
Qed.

(* the lowest clear bit of the hard-wired mask of a decoder with writable bits [k, m) is k: finite sweeps *)
Definition sweep_lc32 (from : N) (n : nat) : bool :=
  forallb (fun k => forallb (fun m => negb (k <? m) ||
      match lowest_clear (fmask k m) from n with Some b => b =? k | None => false end) (seqN from (S n))) (seqN from n).
Definition sweep_lc64 : bool :=
  forallb (fun k => forallb (fun m => negb (k <? m) ||
      match lowest_clear (fmask (N.min k 32) (N.min m 32) + 4294967296 * fmask (k - 32) (m - 32)) 4 60 with
      | Some b => b =? k | None => false end) (seqN 4 61)) (seqN 4 60).
Lemma lc_mem k m : 4 <= k -> k < m -> m <= 32 -> lowest_clear (fmask k m) 4 28 = Some k.
Proof.
  intros Hk Hkm Hm. assert (S : sweep_lc32 4 28 = true) by (vm_compute; reflexivity).
  pose proof (range_forallb _ _ _ S k ltac:(cbn; lia)) as S1. cbv beta in S1.
  pose proof (range_forallb _ _ _ S1 m ltac:(cbn; lia)) as S2. cbv beta in S2.
  replace (k <? m) with true in S2 by lia. cbn [negb orb] in S2.
  destruct (lowest_clear (fmask k m) 4 28); [|discriminate]. apply N.eqb_eq in S2. subst. reflexivity.
Qed.
Lemma lc_io k m : 2 <= k -> k < m -> m <= 32 -> lowest_clear (fmask k m) 2 30 = Some k.
Proof.
  intros Hk Hkm Hm. assert (S : sweep_lc32 2 30 = true) by (vm_compute; reflexivity).
  pose proof (range_forallb _ _ _ S k ltac:(cbn; lia)) as S1. cbv beta in S1.
  pose proof (range_forallb _ _ _ S1 m ltac:(cbn; lia)) as S2. cbv beta in S2.
  replace (k <? m) with true in S2 by lia. cbn [negb orb] in S2.
  destruct (lowest_clear (fmask k m) 2 30); [|discriminate]. apply N.eqb_eq in S2. subst. reflexivity.
Qed.
Lemma lc_mem64 k m : 4 <= k -> k < m -> m <= 64 ->
  lowest_clear (fmask (N.min k 32) (N.min m 32) + 4294967296 * fmask (k - 32) (m - 32)) 4 60 = Some k.
Proof.
  intros Hk Hkm Hm. assert (S : sweep_lc64 = true) by (vm_compute; reflexivity).
  pose proof (range_forallb _ _ _ S k ltac:(cbn; lia)) as S1. cbv beta in S1.
  pose proof (range_forallb _ _ _ S1 m ltac:(cbn; lia)) as S2. cbv beta in S2.
  replace (k <? m) with true in S2 by lia. cbn [negb orb] in S2.
  destruct (lowest_clear _ 4 60); [|discriminate]. apply N.eqb_eq in S2. subst. reflexivity.
Qed.

Lemma testbit3 x ty pf : x mod 16 = 0 -> ty <= 2 -> N.testbit (x + tbits ty pf) 3 = pf.
Proof.
  intros Hx Hty. rewrite N.testbit_eqb. change (2 ^ 3) with 8. unfold tbits. destruct pf; lia.
Qed.

Theorem slot_truth_placed d i s : spec_ok s -> placed d i s -> slot_truth (f_bars d) i = Some (spec_truth s).
Proof.
  intros Hs Hp. unfold slot_truth. fold (bar_at d i). fold (bar_at d (i + 1)).
  destruct s as [|k m a|ty pf k m a|pf k m a]; unfold placed, spec_slots in Hp; cbn [spec_ok spec_truth] in *.
  - destruct Hp as [_ ->]. reflexivity.
  - destruct Hp as [_ ->]. destruct Hs as (Hk & Hkm & Hm & Ha & Hlt). cbn [s_kind s_mask s_val N.eqb Pos.eqb].
    rewrite (lc_io k m Hk Hkm Hm). change 3 with (N.ones 2).
    rewrite (ldiff_low a 1 2) by (try (apply (mod_pow2_le a 2 k); [lia|exact Ha]); reflexivity). reflexivity.
  - destruct Hp as [_ ->]. destruct Hs as (Hty & Hk & Hkm & Hm & Ha & Hlt). cbn [s_kind s_mask s_val].
    assert (Ha16 : a mod 16 = 0) by (apply (mod_pow2_le a 4 k); [lia|exact Ha]).
    assert (Ht : tbits ty pf < 2 ^ 4) by (unfold tbits; change (2 ^ 4) with 16; destruct pf; lia).
    replace (2 + ty =? 0) with false by lia. replace (2 + ty =? 1) with false by lia.
    replace ((2 + ty =? 2) || (2 + ty =? 3)) with true by lia.
    rewrite (lc_mem k m Hk Hkm Hm), (testbit3 a ty pf Ha16) by lia. change 15 with (N.ones 4).
    rewrite (ldiff_low a (tbits ty pf) 4 Ha16 Ht). replace (2 + ty - 2) with ty by lia. reflexivity.
  - destruct Hp as (Hi & -> & ->). destruct Hs as (Hk & Hkm & Hm & Ha & Hlt). cbn [s_kind s_mask s_val N.eqb Pos.eqb orb andb].
    replace (i <? 5) with true by lia. cbn [andb].
    rewrite (lc_mem64 k m Hk Hkm Hm).
    set (alo := a mod 2 ^ 32). set (ahi := a / 2 ^ 32).
    assert (Ha16 : alo mod 16 = 0).
    { unfold alo. apply (mod_mod_pow2 a 32 4). apply (mod_pow2_le a 4 k); [lia|exact Ha]. }
    assert (Ht : tbits 2 pf < 2 ^ 4) by (unfold tbits; change (2 ^ 4) with 16; destruct pf; lia).
    rewrite (testbit3 alo 2 pf Ha16) by lia. change 15 with (N.ones 4).
    rewrite (ldiff_low alo (tbits 2 pf) 4 Ha16 Ht).
    replace (alo + 4294967296 * ahi) with a; [reflexivity|].
    unfold alo, ahi. change (2 ^ 32) with 4294967296. lia.
Qed.

(* hence the well-formed witness of section 6 has honest kinds, and in general: a function has honest kinds
   as soon as slot_truth is only ever defined where a well-formed BAR is placed *)
Lemma kinds_honest_intro d :
  (forall i tr, i <= 5 -> slot_truth (f_bars d) i = Some tr -> exists s, spec_ok s /\ placed d i s) ->
  kinds_honest d.
Proof.
  intros H i tr Hi Ht. destruct (H i tr Hi Ht) as (s & Hs & Hp). exists s. repeat split; auto.
  pose proof (slot_truth_placed d i s Hs Hp) as E. congruence.
Qed.

(* ===================== 5. the operations ===================== *)
(* the windows of a transport, with the lengths the platform mapped *)
Definition wins_of (t : ptrans) (lc ln li : N) : wins :=
  mkWins (t_common t) lc (t_notify t) ln (t_mult t) (t_isr t) li.
(* ... as `new` leaves them: the common window holds the whole structure, the notify slice has
   length / 2 elements, the ISR window at least its byte, the multiplier is even *)
Definition wins_ok (t : ptrans) (lc ln li : N) : Prop :=
  COMMON_SIZE <= lc /\ 2 * t_notify_len t <= ln /\ 1 <= li /\ t_mult t mod 2 = 0.

Lemma addr_eqb c x y : (c + x =? c + y) = (x =? y).
Proof. destruct (N.eqb_spec x y) as [->|H]; [apply N.eqb_refl|]. apply N.eqb_neq. lia. Qed.
Lemma addr_sub c x : c + x - c = x.
Proof. lia. Qed.

Definition dir_ok (d : dir) (wr : bool) : bool := match d with RO => negb wr | RW => true end.
Lemma acc_common_at c lc n ln mu i li wr off width v :
  COMMON_SIZE <= lc -> off + width <= COMMON_SIZE ->
  acc_common_b (mkWins c lc n ln mu i li) (mkM wr (c + off) width v) =
  match clookup off with Some r => (width =? cr_width r) && dir_ok (cr_dir r) wr | None => false end.
Proof.
  intros Hl Ho. unfold acc_common_b, in_window. cbn [m_addr m_width m_write w_common w_common_len].
  rewrite addr_sub. replace (c <=? c + off) with true by lia.
  replace (c + off + width <=? c + lc) with true by lia.
  cbn [andb]. destruct (clookup off) as [r|]; [|reflexivity]. destruct (cr_dir r); reflexivity.
Qed.
Lemma at_c_at c lc n ln mu i li wr off off' width v :
  at_c (mkWins c lc n ln mu i li) off (mkM wr (c + off') width v) = (off' =? off).
Proof. unfold at_c. cbn [m_addr w_common]. apply addr_eqb. Qed.

(* a per-queue field is 2 or 8 bytes wide: a one-byte access is never one *)
Lemma perq_width1 w a : m_width a = 1 -> perq w a = false.
Proof.
  intros Hw. unfold perq, acc_common_b. destruct (in_window _ _ a); cbn [andb]; [|reflexivity].
  destruct (clookup (m_addr a - w_common w)) as [r|] eqn:E; [|reflexivity].
  unfold clookup in E. apply find_some in E. destruct E as [Hin _]. rewrite Hw.
  assert (S : forallb (fun r => negb (cr_perq r) || negb (1 =? cr_width r)) common_table = true) by reflexivity.
  rewrite forallb_forall in S. specialize (S r Hin).
  destruct (cr_perq r); cbn in S |- *; [|apply andb_false_r].
  apply negb_true_iff in S. rewrite S. reflexivity.
Qed.

Definition rc_of (r : outcome N) : N := match r with Ok _ => 0 | Err _ => 1 | Panic => 2 | UB => 3 end.
Definition rv_of (r : outcome N) : N := match r with Ok x => x | Err e => e | _ => 0 end.

(* the argument ranges of the Rust types *)
Definition args_in_range (o : op) : Prop :=
  match o with
  | OWriteDriverFeatures f => f < two64
  | OMaxQueueSize q | ONotify q | OQueueUnset q | OQueueUsed q => q < two16
  | OSetStatus s | OSetGuestPageSize s => s < two32
  | OQueueSet q size desc drv dev => q < two16 /\ size < two32 /\ desc < two64 /\ drv < two64 /\ dev < two64
  | _ => True
  end.

(* the monitor predicate applied to what the model does *)
Definition conforms (m : mode) (t : ptrans) (lc ln li : N) (o : op) (ans : list N) : bool :=
  match op_args o with
  | [a1; a2; a3; a4; a5] =>
      pci_conform_b (wins_of t lc ln li) (op_code o) a1 a2 a3 a4 a5
        (rc_of (fst (exec m t o ans))) (rv_of (fst (exec m t o ans))) (snd (exec m t o ans))
  | _ => false
  end.

Ltac start H := destruct H as (Hlc & Hln & Hli & Hmul); unfold COMMON_SIZE in Hlc; unfold conforms, pci_conform_b;
  cbn [op_args op_code exec fst snd rc_of rv_of]; unfold wins_of, MW, MR,
  c_device_feature_select, c_device_feature, c_driver_feature_select, c_driver_feature, c_device_status,
  c_queue_select, c_queue_size, c_queue_enable, c_queue_notify_off, c_queue_desc, c_queue_driver, c_queue_device.
(* evaluate the monitor on a concrete trace of common-structure accesses: expose the comparisons, decide
   the ones that mention the window base, compute the rest *)
Ltac unfold_mon := unfold table_ok, acc_ok, allowed_b, perq, acc_common_b, acc_notify_b, acc_isr_b, in_window,
  clookup, is_cw, is_cr, at_c, cwvals, crvals, is_enable, no_reads, no_writes, words_ok, notify_ok, drop_ok,
  queue_of, op_ok, in_notify;
  cbn [w_common w_common_len w_notify w_notify_len w_mult w_isr w_isr_len m_write m_addr m_width m_val].
Ltac base_cmp :=
  rewrite ?addr_sub, ?addr_eqb, ?N.eqb_refl;
  repeat match goal with
         | |- context [?a <=? ?b] =>
             first [ progress replace (a <=? b) with true by lia ]
         end.
Ltac decide_common := repeat (progress (unfold_mon; base_cmp; cbn)).

Local Arguments N.modulo : simpl never.
Local Arguments N.mul : simpl never.
Local Arguments N.add : simpl never.
Local Arguments N.land : simpl never.

Lemma conf_nil m t lc ln li o ans : wins_ok t lc ln li ->
  match o with ODeviceType | OSetGuestPageSize _ | ORequiresLegacyLayout | OQueueUnset _ => True | _ => False end ->
  conforms m t lc ln li o ans = true.
Proof. intros H Ho. destruct o; try contradiction; reflexivity. Qed.

Lemma join64 lo hi : lo < two32 -> N.lor lo (N.shiftl hi 32) = lo + two32 * hi.
Proof. intros H. rewrite (lor_shiftl_add lo hi 32 H). change (2 ^ 32) with two32. lia. Qed.
Lemma w32_lt x : w32 x < two32.
Proof. unfold w32, two32. apply N.mod_lt. discriminate. Qed.
Lemma split64 x : x < two64 -> w32 x + two32 * w32 (N.shiftr x 32) = x.
Proof.
  intros H. unfold w32, two32, two64 in *. rewrite N.shiftr_div_pow2. change (2 ^ 32) with 4294967296. lia.
Qed.

Lemma conf_read_features m t lc ln li ans : wins_ok t lc ln li -> conforms m t lc ln li OReadDeviceFeatures ans = true.
Proof.
  intros H. start H. rewrite (join64 (ans32 ans 0) (ans32 ans 1) (w32_lt _)).
  set (lo := ans32 ans 0). set (hi := ans32 ans 1). clearbody lo hi. decide_common. reflexivity.
Qed.
Lemma conf_write_features m t lc ln li f ans : f < two64 -> wins_ok t lc ln li ->
  conforms m t lc ln li (OWriteDriverFeatures f) ans = true.
Proof.
  intros Hf H. start H. pose proof (split64 f Hf) as Hs.
  set (lo := w32 f) in *. set (hi := w32 (N.shiftr f 32)) in *. clearbody lo hi. decide_common.
  apply N.eqb_eq. exact Hs.
Qed.
Lemma conf_max_queue_size m t lc ln li q ans : wins_ok t lc ln li -> conforms m t lc ln li (OMaxQueueSize q) ans = true.
Proof. intros H. start H. set (a := ans16 ans 0). clearbody a. decide_common. reflexivity. Qed.
Lemma conf_get_status m t lc ln li ans : wins_ok t lc ln li -> conforms m t lc ln li OGetStatus ans = true.
Proof.
  intros H. start H. unfold STATUS_NAMED_BITS. set (a := ans8 ans 0). clearbody a. decide_common.
  reflexivity.
Qed.
Lemma conf_set_status m t lc ln li s ans : wins_ok t lc ln li -> conforms m t lc ln li (OSetStatus s) ans = true.
Proof. intros H. start H. unfold w8. decide_common. reflexivity. Qed.
Lemma conf_queue_set m t lc ln li q size desc drv dev ans : wins_ok t lc ln li ->
  conforms m t lc ln li (OQueueSet q size desc drv dev) ans = true.
Proof. intros H. start H. unfold w16. decide_common. reflexivity. Qed.
Lemma conf_queue_used m t lc ln li q ans : wins_ok t lc ln li -> conforms m t lc ln li (OQueueUsed q) ans = true.
Proof. intros H. start H. set (a := ans16 ans 0). clearbody a. decide_common. reflexivity. Qed.

(* --- ack_interrupt: one byte read in the ISR window --- *)
Lemma conf_ack m t lc ln li ans : wins_ok t lc ln li -> conforms m t lc ln li OAckInterrupt ans = true.
Proof.
  intros H. start H. set (a := ans8 ans 0). clearbody a.
  set (w := mkWins (t_common t) lc (t_notify t) ln (t_mult t) (t_isr t) li).
  set (x := mkM false (t_isr t) 1 a).
  assert (Hi : acc_isr_b w x = true).
  { unfold acc_isr_b, in_window, w, x. cbn [w_isr w_isr_len m_addr m_width m_write].
    rewrite !N.eqb_refl. replace (t_isr t <=? t_isr t) with true by lia.
    replace (t_isr t + 1 <=? t_isr t + li) with true by lia. reflexivity. }
  assert (Hp : perq w x = false) by (apply perq_width1; reflexivity).
  unfold table_ok, acc_ok, allowed_b. cbn [forallb qsel_scan enable_scan op_ok queue_of].
  rewrite Hi, Hp. unfold is_cw, is_enable, is_cw. cbn [m_write x andb negb].
  rewrite !orb_true_r. cbn [m_write m_val x]. rewrite ?N.eqb_refl. reflexivity.
Qed.

(* --- notify --- *)
Lemma notify_index off mult : mult mod 2 = 0 -> 2 * (off * mult / 2) = off * mult.
Proof. intros H. lia. Qed.

Lemma conf_notify m t lc ln li q ans : wins_ok t lc ln li -> conforms m t lc ln li (ONotify q) ans = true.
Proof.
  intros H. start H. set (off := ans16 ans 0). clearbody off.
  set (w := mkWins (t_common t) lc (t_notify t) ln (t_mult t) (t_isr t) li).
  set (a1 := mkM true (t_common t + 22) 2 q). set (a2 := mkM false (t_common t + 30) 2 off).
  assert (C1 : acc_common_b w a1 = true).
  { unfold w, a1. rewrite acc_common_at by (unfold COMMON_SIZE; lia). reflexivity. }
  assert (C2 : acc_common_b w a2 = true).
  { unfold w, a2. rewrite acc_common_at by (unfold COMMON_SIZE; lia). reflexivity. }
  assert (S1 : is_cw w S_queue_select a1 = true).
  { unfold is_cw, w, a1. rewrite at_c_at. reflexivity. }
  assert (S2 : is_cw w S_queue_select a2 = false) by reflexivity.
  assert (P2 : perq w a2 = true).
  { unfold perq. rewrite C2. unfold w, a2. cbn [m_addr w_common]. rewrite addr_sub. reflexivity. }
  assert (R1 : is_cr w S_queue_notify_off a1 = false) by reflexivity.
  assert (R2 : is_cr w S_queue_notify_off a2 = true).
  { unfold is_cr, w, a2. rewrite at_c_at. reflexivity. }
  assert (M1 : memN (m_addr a1 - w_common w) (allowed 4) = true).
  { unfold w, a1. cbn [m_addr w_common]. rewrite addr_sub. reflexivity. }
  assert (M2 : memN (m_addr a2 - w_common w) (allowed 4) = true).
  { unfold w, a2. cbn [m_addr w_common]. rewrite addr_sub. reflexivity. }
  destruct (off * t_mult t / 2 <? t_notify_len t) eqn:Ei; cbn [fst snd rc_of rv_of app].
  - set (a3 := mkM true (t_notify t + 2 * (off * t_mult t / 2)) 2 q).
    pose proof (notify_index off (t_mult t) Hmul) as Hix.
    assert (N3 : acc_notify_b w a3 = true).
    { unfold acc_notify_b, in_window, w, a3. cbn [w_notify w_notify_len m_addr m_width m_write].
      rewrite addr_sub.
      replace (t_notify t <=? t_notify t + 2 * (off * t_mult t / 2)) with true by lia.
      replace (t_notify t + 2 * (off * t_mult t / 2) + 2 <=? t_notify t + ln) with true by lia.
      replace (2 * (off * t_mult t / 2) mod 2 =? 0) with true by lia. reflexivity. }
    assert (R3 : is_cr w S_queue_notify_off a3 = false) by reflexivity.
    unfold table_ok, acc_ok, allowed_b. cbn [forallb qsel_scan queue_of N.eqb Pos.eqb orb andb op_ok].
    rewrite C1, C2, N3, S1, S2, P2, M1, M2. cbn [andb orb]. rewrite !orb_true_r.
    change (m_val a1 =? q) with (q =? q). rewrite N.eqb_refl. cbn [andb].
    assert (Q3 : (if is_cw w S_queue_select a3 then (m_val a3 =? q) && true else if perq w a3 then true else true) = true).
    { destruct (is_cw w S_queue_select a3); [|destruct (perq w a3); reflexivity].
      change (m_val a3) with q. rewrite N.eqb_refl. reflexivity. }
    cbn [qsel_scan] in Q3 |- *. rewrite Q3. cbn [andb].
    unfold notify_ok, crvals. cbn [filter]. rewrite R1, R2, R3. cbn [map rev app m_val a2].
    rewrite ?N.eqb_refl. cbn [m_write m_width m_val m_addr a3 forallb andb orb N.eqb Pos.eqb].
    rewrite ?N.eqb_refl, ?C1, ?C2. unfold w. cbn [w_notify w_mult w_notify_len andb orb].
    rewrite ?addr_eqb, ?Hix, ?N.eqb_refl.
    replace (off * t_mult t + 2 <=? ln) with true by lia. reflexivity.
  - unfold table_ok, acc_ok, allowed_b. cbn [forallb qsel_scan queue_of N.eqb Pos.eqb orb andb op_ok].
    rewrite C1, C2, S1, S2, P2, M1, M2. cbn [andb orb].
    change (m_val a1 =? q) with (q =? q). rewrite N.eqb_refl. cbn [andb].
    unfold notify_ok, crvals. cbn [filter]. rewrite R1, R2. cbn [map forallb N.eqb].
    rewrite C1, C2. reflexivity.
Qed.

(* --- drop --- *)
Lemma spin_status_shape c lc n ln mu i li ans :
  COMMON_SIZE <= lc ->
  let w := mkWins c lc n ln mu i li in
  let tr := spin_status (c + 20) ans in
  forallb (is_cr w S_device_status) tr = true
  /\ forallb (acc_common_b w) tr = true
  /\ forallb (fun a => acc_common_b w a && memN (m_addr a - c) [S_device_status]) tr = true
  /\ (exists l pre, rev tr = l :: pre /\ N.land (m_val l) STATUS_FLAGS = 0)
  /\ forallb (fun a => negb (m_write a)) tr = true.
Proof.
  intros Hlc w tr. subst w tr.
  assert (A : forall v, acc_common_b (mkWins c lc n ln mu i li) (MR (c + 20) 1 v) = true).
  { intros v. unfold MR. rewrite acc_common_at by (unfold COMMON_SIZE in *; lia). reflexivity. }
  assert (B : forall v, is_cr (mkWins c lc n ln mu i li) S_device_status (MR (c + 20) 1 v) = true).
  { intros v. unfold is_cr, MR. rewrite at_c_at. reflexivity. }
  assert (M : forall v, memN (m_addr (MR (c + 20) 1 v) - c) [S_device_status] = true).
  { intros v. unfold MR. cbn [m_addr]. rewrite addr_sub. reflexivity. }
  induction ans as [|a t IH]; cbn [spin_status].
  - cbn [forallb]. rewrite A, B, M. repeat split; try reflexivity. exists (MR (c + 20) 1 0), []. split; reflexivity.
  - destruct (N.land (w8 a) STATUS_NAMED_BITS =? 0) eqn:E.
    + cbn [forallb]. rewrite A, B, M. repeat split; try reflexivity.
      exists (MR (c + 20) 1 (w8 a)), []. split; [reflexivity|]. apply N.eqb_eq in E. exact E.
    + destruct IH as (I1 & I2 & I3 & (l & pre & Er & El) & I5).
      cbn [forallb]. rewrite A, B, M, I1, I2, I3, I5. repeat split; try reflexivity.
      cbn [rev]. rewrite Er. exists l, (pre ++ [MR (c + 20) 1 (w8 a)]). split; [reflexivity|exact El].
Qed.

Lemma forallb_impl {A} (f g : A -> bool) l : (forall x, f x = true -> g x = true) -> forallb f l = true -> forallb g l = true.
Proof. intros H. induction l; cbn; auto. intros E. apply andb_prop in E. destruct E. rewrite (H _ H0), IHl; auto. Qed.

Lemma conf_drop m t lc ln li ans : wins_ok t lc ln li -> conforms m t lc ln li ODrop ans = true.
Proof.
  intros H. destruct H as (Hlc & Hln & Hli & Hmul). unfold conforms, pci_conform_b.
  cbn [op_args op_code exec fst snd rc_of rv_of]. unfold wins_of, c_device_status.
  destruct (spin_status_shape (t_common t) lc (t_notify t) ln (t_mult t) (t_isr t) li ans Hlc)
    as (I1 & I2 & I3 & (l & pre & Er & El) & I5). cbv zeta in *.
  set (w := mkWins (t_common t) lc (t_notify t) ln (t_mult t) (t_isr t) li) in *.
  set (sp := spin_status (t_common t + 20) ans) in *.
  set (a0 := MW (t_common t + 20) 1 0).
  assert (C0 : acc_common_b w a0 = true).
  { unfold w, a0, MW. rewrite acc_common_at by (unfold COMMON_SIZE in *; lia). reflexivity. }
  assert (W0 : is_cw w S_device_status a0 = true).
  { unfold is_cw, w, a0, MW. rewrite at_c_at. reflexivity. }
  assert (M0 : memN (m_addr a0 - w_common w) (allowed 14) = true).
  { unfold w, a0, MW. cbn [m_addr w_common]. rewrite addr_sub. reflexivity. }
  (* reads of the status byte: neither a queue_select write, nor per-queue, nor a write *)
  assert (Q : forall oq sel, qsel_scan w oq sel sp = true).
  { intros oq sel. clear Er El. induction sp as [|x r IH]; [reflexivity|].
    cbn [forallb] in I1, I5. apply andb_prop in I1, I5. destruct I1 as [X1 X2]. destruct I5 as [Y1 Y2].
    cbn [forallb] in I2, I3. apply andb_prop in I2, I3. destruct I2 as [Z1 Z2]. destruct I3 as [V1 V2].
    cbn [qsel_scan]. unfold is_cw. apply negb_true_iff in Y1. rewrite Y1. cbn [andb].
    assert (Pq : perq w x = false).
    { unfold perq. rewrite Z1. cbn [andb]. unfold is_cr, at_c in X1. apply andb_prop in X1. destruct X1 as [_ X1].
      apply N.eqb_eq in X1. rewrite X1. unfold w. cbn [w_common]. rewrite addr_sub. reflexivity. }
    rewrite Pq. apply IH; assumption. }
  assert (E : forall wr, enable_scan w wr sp = true).
  { intros wr. clear Er El Q. induction sp as [|x r IH]; [reflexivity|].
    cbn [forallb] in I1, I5. apply andb_prop in I1, I5. destruct I1 as [X1 X2]. destruct I5 as [Y1 Y2].
    cbn [forallb] in I2, I3. apply andb_prop in I2, I3. destruct I2 as [Z1 Z2]. destruct I3 as [V1 V2].
    cbn [enable_scan]. unfold is_enable, is_cw. apply negb_true_iff in Y1. rewrite Y1. cbn [andb].
    apply IH; assumption. }
  unfold table_ok. cbn [forallb qsel_scan enable_scan queue_of op_ok N.eqb Pos.eqb orb].
  unfold acc_ok at 1. rewrite C0. cbn [orb andb].
  rewrite (forallb_impl (acc_common_b w) (acc_ok w) sp) by (intros x Hx; unfold acc_ok; rewrite Hx; reflexivity) || exact I2.
  unfold allowed_b at 1. rewrite C0, M0. cbn [orb andb].
  rewrite (forallb_impl (fun a => acc_common_b w a && memN (m_addr a - t_common t) [S_device_status]) (allowed_b w 14) sp).
  2:{ intros x Hx. unfold allowed_b. unfold w at 2. cbn [w_common allowed]. rewrite Hx. reflexivity. }
  2:{ exact I3. }
  assert (S0 : is_cw w S_queue_select a0 = false).
  { unfold is_cw, w, a0, MW. rewrite at_c_at. reflexivity. }
  assert (P0 : perq w a0 = false).
  { unfold perq. rewrite C0. unfold w, a0, MW. cbn [m_addr w_common]. rewrite addr_sub. reflexivity. }
  assert (E0 : is_enable w a0 = false).
  { unfold is_enable, is_cw, w, a0, MW. rewrite at_c_at. reflexivity. }
  rewrite S0, P0, E0, Q. cbn [m_write a0 MW]. rewrite E. cbn [andb].
  unfold drop_ok. rewrite W0, I1, Er, El. reflexivity.
Qed.

(* C11_ops: for every operation, every argument in the range of its Rust type, every list of device
   answers, every transport whose windows are as `new` leaves them, both profiles: the monitor predicate
   pci_conform_b (every access inside one of the three windows, at a field of the common structure
   with the field's width and a permitted direction / a 16-bit write in the notify window / a read of the
   ISR byte; only the fields the operation may touch; queue_select written with the operation's queue
   before any per-queue field; the enabling write last and after size and the three addresses; the
   per-operation values; notify at queue_notify_off * multiplier or refused without any access outside
   the common structure; drop = reset then reads until no status flag is set) holds of the model *)
Theorem ops_conform m t lc ln li o ans :
  wins_ok t lc ln li -> args_in_range o -> conforms m t lc ln li o ans = true.
Proof.
  intros Hw Ha. destruct o; cbn [args_in_range] in Ha.
  - apply conf_nil; auto.
  - apply conf_read_features; auto.
  - apply conf_write_features; auto.
  - apply conf_max_queue_size; auto.
  - apply conf_notify; auto.
  - apply conf_get_status; auto.
  - apply conf_set_status; auto.
  - apply conf_nil; auto.
  - apply conf_nil; auto.
  - apply conf_queue_set; auto.
  - apply conf_nil; auto.
  - apply conf_queue_used; auto.
  - apply conf_ack; auto.
  - apply conf_drop; auto.
Qed.

Theorem some_transport_delegates m t o ans : some_exec m t o ans = exec m t o ans.
Proof. reflexivity. Qed.

(* ---- what a true verdict means, on ANY trace (in particular an observed one) ---- *)
Lemma clookup_sound off r : clookup off = Some r -> In r common_table /\ cr_off r = off.
Proof. unfold clookup. intros H. apply find_some in H. destruct H as [H1 H2]. apply N.eqb_eq in H2. auto. Qed.

Definition inside (base len : N) (a : macc) : Prop := base <= m_addr a /\ m_addr a + m_width a <= base + len.
Theorem table_ok_sound w tr : table_ok w tr = true ->
  forall a, In a tr ->
    (inside (w_common w) (w_common_len w) a
     /\ exists r, In r common_table /\ m_addr a = w_common w + cr_off r /\ m_width a = cr_width r
                  /\ (m_write a = true -> cr_dir r = RW))
    \/ (inside (w_notify w) (w_notify_len w) a /\ m_write a = true /\ m_width a = 2)
    \/ (inside (w_isr w) (w_isr_len w) a /\ m_write a = false /\ m_width a = 1 /\ m_addr a = w_isr w).
Proof.
  unfold table_ok. intros H a Hin. rewrite forallb_forall in H. specialize (H a Hin).
  unfold acc_ok in H. apply orb_prop in H. destruct H as [H|H]; [apply orb_prop in H; destruct H as [H|H]|].
  - left. unfold acc_common_b, in_window in H. apply andb_prop in H. destruct H as [Hw Hl].
    destruct (clookup (m_addr a - w_common w)) as [r|] eqn:E; [|discriminate].
    destruct (clookup_sound _ _ E) as [Hr Ho]. apply andb_prop in Hl. destruct Hl as [Hwd Hd].
    split; [unfold inside; lia|]. exists r. repeat split; auto; try lia.
    intros Hwr. rewrite Hwr in Hd. destruct (cr_dir r); [discriminate|reflexivity].
  - right. left. unfold acc_notify_b, in_window in H. unfold inside.
    repeat (apply andb_prop in H; destruct H as [H ?]). repeat split; auto; lia.
  - right. right. unfold acc_isr_b, in_window in H. unfold inside.
    repeat (apply andb_prop in H; destruct H as [H ?]). repeat split; try lia.
    destruct (m_write a); [discriminate|reflexivity].
Qed.

(* every access of every operation lies inside one of the windows, with the right width and direction *)
Theorem ops_inside m t lc ln li o ans :
  wins_ok t lc ln li -> args_in_range o ->
  table_ok (wins_of t lc ln li) (snd (exec m t o ans)) = true.
Proof.
  intros Hw Ha. pose proof (ops_conform m t lc ln li o ans Hw Ha) as H. unfold conforms in H.
  destruct o; cbn [op_args] in H; unfold pci_conform_b in H;
    do 5 (apply andb_prop in H; destruct H as [H ?]); exact H.
Qed.

(* ---- exact traces ---- *)
Theorem queue_set_trace m t q size desc drv dev ans :
  exec m t (OQueueSet q size desc drv dev) ans =
  (Ok 0, [MW (t_common t + 22) 2 q; MW (t_common t + 24) 2 (size mod 65536);
          MW (t_common t + 32) 8 desc; MW (t_common t + 40) 8 drv; MW (t_common t + 48) 8 dev;
          MW (t_common t + 28) 2 1]).
Proof. reflexivity. Qed.

(* notify: queue_select := q, read queue_notify_off, then q written at byte offset
   queue_notify_off * multiplier of the notify window, which lies inside it; otherwise a panic after the
   two accesses to the common structure and nothing else *)
Theorem notify_trace m t q ans : t_mult t mod 2 = 0 ->
  let off := ans16 ans 0 in
  let pre := [MW (t_common t + 22) 2 q; MR (t_common t + 30) 2 off] in
  (off * t_mult t + 2 <= 2 * t_notify_len t ->
     exec m t (ONotify q) ans = (Ok 0, pre ++ [MW (t_notify t + off * t_mult t) 2 q]))
  /\ (2 * t_notify_len t < off * t_mult t + 2 -> exec m t (ONotify q) ans = (Panic, pre)).
Proof.
  intros Hm. cbv zeta. cbn [exec]. unfold c_queue_select, c_queue_notify_off.
  pose proof (notify_index (ans16 ans 0) (t_mult t) Hm) as Hix. split; intros H.
  - replace (ans16 ans 0 * t_mult t / 2 <? t_notify_len t) with true by lia. rewrite Hix. reflexivity.
  - replace (ans16 ans 0 * t_mult t / 2 <? t_notify_len t) with false by lia. reflexivity.
Qed.

(* drop: device_status := 0, then the status byte is read until no status flag is set; at least once *)
Theorem drop_trace m t ans :
  exists reads, exec m t ODrop ans = (Ok 0, MW (t_common t + 20) 1 0 :: reads)
    /\ reads <> []
    /\ (forall a, In a reads -> m_write a = false /\ m_addr a = t_common t + 20 /\ m_width a = 1)
    /\ (exists l pre, reads = pre ++ [l] /\ N.land (m_val l) STATUS_FLAGS = 0
                      /\ forall a, In a pre -> N.land (m_val a) STATUS_FLAGS <> 0).
Proof.
  cbn [exec]. unfold c_device_status. exists (spin_status (t_common t + 20) ans). split; [reflexivity|].
  induction ans as [|a r IH]; cbn [spin_status].
  - split; [discriminate|]. split.
    + intros x [<-|[]]. repeat split.
    + exists (MR (t_common t + 20) 1 0), []. repeat split. intros x [].
  - destruct (N.land (w8 a) STATUS_NAMED_BITS =? 0) eqn:E.
    + split; [discriminate|]. split.
      * intros x [<-|[]]. repeat split.
      * exists (MR (t_common t + 20) 1 (w8 a)), []. repeat split; [apply N.eqb_eq in E; exact E|intros x []].
    + destruct IH as (_ & I2 & (l & pre & Er & El & Ep)). split; [discriminate|]. split.
      * intros x [<-|Hin]; [repeat split|apply I2; exact Hin].
      * exists l, (MR (t_common t + 20) 1 (w8 a) :: pre). rewrite Er. repeat split; auto.
        intros x [<-|Hin]; [apply N.eqb_neq in E; exact E|apply Ep; exact Hin].
Qed.

(* only notify can refuse (panic): every other operation returns *)
Theorem ops_outcomes m t o ans :
  match fst (exec m t o ans) with
  | Ok _ => True
  | Panic => exists q, o = ONotify q
  | _ => False
  end.
Proof. destruct o; cbn [exec fst]; auto. destruct (_ <? _); cbn; eauto. Qed.

(* ---- from `new` to the operations: the windows of the returned transport ---- *)
Theorem new_wins m d v0 v1 v2 v3 t s :
  fn_ok d -> new FIXED m d v0 v1 v2 v3 = (NOk t, s) ->
  exists ic inn ii,
    let f := spec_found (cfg_read d) (map cap_off (fst (capabilities 65 (cfg_read d)))) in
    fd_common f = Some ic /\ fd_notify f = Some inn /\ fd_isr f = Some ii
    /\ t_common t = v0 /\ t_notify t = v1 /\ t_isr t = v2
    /\ wins_ok t (ci_len ic) (ci_len inn) (ci_len ii).
Proof.
  intros Hok H.
  destruct (new_refines m d v0 v1 v2 v3 Hok) as (R1 & R2 & R3). rewrite H in R1, R2. cbn [fst snd] in R1, R2.
  destruct (new_pure m d v0 v1 v2 v3) as [r rq] eqn:Ep. cbn [fst snd] in R1, R2. subst r rq.
  apply new_pure_windows in Ep. cbv zeta in Ep.
  destruct Ep as (_ & _ & _ & ic & inn & ii & Ec & En & Ei & Hm & K0 & K1 & K2 & T1 & T2 & T3 & T4 & T5 & _).
  exists ic, inn, ii. cbv zeta. repeat split; auto.
  - destruct K0 as (_ & ty & pf & a & b & _ & _ & _ & Hn & _). exact Hn.
  - rewrite T3. lia.
  - destruct K2 as (_ & ty & pf & a & b & _ & _ & _ & Hn & _). exact Hn.
  - rewrite T4. exact Hm.
Qed.

(* a whole life: new; any operations; drop.  Every access lies in the windows and respects the table, and
   the life ends with the reset and the wait: the session monitor holds of the model *)
Definition opans : Type := (op * list N)%type.
Fixpoint run_ops (m : mode) (t : ptrans) (l : list opans) : list macc :=
  match l with [] => [] | (o, ans) :: r => snd (exec m t o ans) ++ run_ops m t r end.

Lemma table_ok_app w a b : table_ok w (a ++ b) = table_ok w a && table_ok w b.
Proof. apply forallb_app. Qed.

Lemma last_reset_reads w sp acc : forallb (fun x => negb (m_write x)) sp = true -> last_reset w sp acc = acc.
Proof.
  induction sp as [|y u IH]; intros H; [reflexivity|].
  cbn [forallb] in H. apply andb_prop in H. destruct H as [Hy Hu]. cbn [last_reset].
  unfold is_cw. apply negb_true_iff in Hy. rewrite Hy. cbn [andb]. apply IH. exact Hu.
Qed.
Lemma last_reset_app w pre a sp acc :
  is_cw w S_device_status a && (m_val a =? 0) = true ->
  forallb (fun x => negb (m_write x)) sp = true ->
  last_reset w (pre ++ a :: sp) acc = a :: sp.
Proof.
  intros Ha Hsp. revert acc. induction pre as [|x r IH]; intros acc; cbn [app last_reset].
  - rewrite Ha. apply last_reset_reads. exact Hsp.
  - destruct (is_cw w S_device_status x && (m_val x =? 0)); apply IH.
Qed.

Theorem session_conforms m t lc ln li (ops : list opans) ans :
  wins_ok t lc ln li -> Forall (fun x => args_in_range (fst x)) ops ->
  session_conform_b (wins_of t lc ln li) (run_ops m t ops ++ snd (exec m t ODrop ans)) = true.
Proof.
  intros Hw Hops. unfold session_conform_b. rewrite table_ok_app.
  assert (T : table_ok (wins_of t lc ln li) (run_ops m t ops) = true).
  { induction Hops as [|[o a] r Ho Hr IH]; [reflexivity|]. cbn [run_ops]. rewrite table_ok_app, IH.
    rewrite (ops_inside m t lc ln li o a Hw Ho). reflexivity. }
  rewrite T, (ops_inside m t lc ln li ODrop ans Hw I). cbn [andb].
  pose proof (conf_drop m t lc ln li ans Hw) as D. unfold conforms in D. cbn [op_args op_code] in D.
  unfold pci_conform_b in D. do 5 (apply andb_prop in D; destruct D as [D ?]).
  cbn [op_ok] in *. cbn [exec snd] in *.
  match goal with Hd : drop_ok _ _ = true |- _ => rename Hd into Hdrop end.
  rewrite last_reset_app; [exact Hdrop| |].
  - unfold drop_ok in Hdrop. apply andb_prop in Hdrop. destruct Hdrop as [Hd _].
    apply andb_prop in Hd. destruct Hd as [Hd _]. exact Hd.
  - destruct Hw as (Hlc & _).
    destruct (spin_status_shape (t_common t) lc (t_notify t) ln (t_mult t) (t_isr t) li ans Hlc) as (_ & _ & _ & _ & I5).
    exact I5.
Qed.

(* C11, both halves together: every operation on the transport that the repaired `new` returned performs
   only accesses that the monitor accepts for the windows `new` mapped (common: the selected common
   structure's length at v0, notify: the selected notify structure's length at v1, ISR at v2) *)
Theorem new_then_ops m d v0 v1 v2 v3 t s o ans :
  fn_ok d -> new FIXED m d v0 v1 v2 v3 = (NOk t, s) -> args_in_range o ->
  exists ic inn ii,
    let f := spec_found (cfg_read d) (map cap_off (fst (capabilities 65 (cfg_read d)))) in
    fd_common f = Some ic /\ fd_notify f = Some inn /\ fd_isr f = Some ii
    /\ wins_of t (ci_len ic) (ci_len inn) (ci_len ii) = mkWins v0 (ci_len ic) v1 (ci_len inn) (fd_mult f) v2 (ci_len ii)
    /\ conforms m t (ci_len ic) (ci_len inn) (ci_len ii) o ans = true.
Proof.
  intros Hok H Ha.
  destruct (new_windows m d v0 v1 v2 v3 t s Hok H) as (_ & _ & _ & ic' & inn' & ii' & Ec' & En' & Ei' & _ & Tm & _).
  destruct (new_wins m d v0 v1 v2 v3 t s Hok H) as (ic & inn & ii & Ec & En & Ei & T1 & T2 & T3 & Hw).
  cbv zeta in *. exists ic, inn, ii. repeat split; auto.
  - unfold wins_of. rewrite T1, T2, T3, Tm. reflexivity.
  - apply ops_conform; auto.
Qed.

(* ===================== 6. witnesses: the code before the repairs, non-vacuity ===================== *)
Fixpoint assoc_word (l : list (N * N)) (i : N) : N :=
  match l with [] => 0 | (k, v) :: t => if k =? i then v else assoc_word t i end.
(* 64 configuration words from (byte offset, word) pairs *)
Definition regs_of (l : list (N * N)) : list N := map (fun i => assoc_word l (4 * i)) (seqN 0 64).
Definition cap_header (next len ty : N) : N := 9 + 256 * next + 65536 * len + 16777216 * ty.

(* a plain device: id 0x1042 (block), BAR0 = 16 KiB of 32-bit memory at 0xfe000000, the list
   common (0x40) -> ISR (0x58) -> notify (0x70, multiplier 4) *)
Definition wit_caps' (common_off common_len isr_bar isr_off : N) : list (N * N) :=
  [(0, 0x10421af4); (0x34, 0x40);
   (0x40, cap_header 0x58 16 1); (0x44, 0); (0x48, common_off); (0x4c, common_len);
   (0x58, cap_header 0x70 16 3); (0x5c, isr_bar); (0x60, isr_off); (0x64, 1);
   (0x70, cap_header 0 20 2); (0x74, 0); (0x78, 0x3000); (0x7c, 0x100); (0x80, 4)].
Definition wit_caps (common_off common_len isr_bar : N) := wit_caps' common_off common_len isr_bar 0x1000.
Definition wit_fn (regs : list (N * N)) : pcifn :=
  mkFn 6 16 [mkSlot 2 16383 0xfe000000; dslot; dslot; dslot; dslot; dslot] (regs_of regs).
Definition wit_good : pcifn := wit_fn (wit_caps 0 0x38 0).

Lemma wit_fn_ok regs : fn_ok (wit_fn regs).
Proof.
  unfold fn_ok, wit_fn. cbn [f_bars f_cmd]. repeat split; try reflexivity.
  intros j Hj. assert (Hc : j = 0 \/ j = 1 \/ j = 2 \/ j = 3 \/ j = 4 \/ j = 5) by lia.
  destruct Hc as [->|[->|[->|[->|[->| ->]]]]]; vm_compute; reflexivity.
Qed.

(* the theorems are not vacuous: a transport, its three requests inside BAR0, the function untouched *)
Example new_nonvacuous :
  fst (new FIXED Debug wit_good 0x7000 0x8000 0x9000 0) = NOk (mkT 2 0x7000 0x8000 128 4 0x9000 None)
  /\ n_reqs (snd (new FIXED Debug wit_good 0x7000 0x8000 0x9000 0))
     = [(0xfe000000, 0x38); (0xfe003000, 0x100); (0xfe001000, 1)]
  /\ n_fn (snd (new FIXED Debug wit_good 0x7000 0x8000 0x9000 0)) = wit_good
  /\ names_bar wit_good (mkCap 0 0 0x38).
Proof.
  split; [vm_compute; reflexivity|]. split; [vm_compute; reflexivity|]. split; [vm_compute; reflexivity|].
  exists (SMem 0 false 14 32 0xfe000000). split.
  - cbn [spec_ok]. repeat split; try (vm_compute; reflexivity); try (vm_compute; discriminate).
  - unfold placed. cbn [spec_slots ci_bar]. split; [vm_compute; reflexivity|]. vm_compute. reflexivity.
Qed.

(* F4 at the level of `new`: offset 0xfffffff0 + length 0x48 wraps to 0x38 in u32 *)
Definition wit_f4 : pcifn := wit_fn (wit_caps 0xfffffff0 0x48 0).
Theorem new_prefix_refuted_sum :
  fst (new FX_F4 Release wit_f4 0x7000 0x8000 0x9000 0) = NOk (mkT 2 0x7000 0x8000 128 4 0x9000 None)
  /\ n_reqs (snd (new FX_F4 Release wit_f4 0x7000 0x8000 0x9000 0))
     = [(0x1fdfffff0, 0x48); (0xfe003000, 0x100); (0xfe001000, 1)]
  /\ fst (new FX_F4 Debug wit_f4 0x7000 0x8000 0x9000 0) = NPanic
  /\ fst (new FIXED Release wit_f4 0x7000 0x8000 0x9000 0) = NErr PE_BarOffsetOutOfRange 0 0
  /\ fst (new FIXED Debug wit_f4 0x7000 0x8000 0x9000 0) = NErr PE_BarOffsetOutOfRange 0 0.
Proof. vm_compute. repeat split. Qed.

(* F13: a structure with a reserved bar value.  bar = 8 names the register at 0x30 (the expansion ROM base
   address register, plain storage in the reference function): it is sized like a BAR and the ISR window
   is taken from it; bar = 60 makes BAR0_OFFSET + 4 * bar_index overflow u8: a panic in the debug profile *)
Definition FX_F13 : fixes := mkFx true false true.
Definition wit_f13 (bar : N) : pcifn := wit_fn ((0x30, 0xfebd0000) :: wit_caps' 0 0x38 bar 8).
Theorem new_prefix_refuted_bar :
  fst (new FX_F13 Release (wit_f13 8) 0x7000 0x8000 0x9000 0) = NOk (mkT 2 0x7000 0x8000 128 4 0x9000 None)
  /\ n_reqs (snd (new FX_F13 Release (wit_f13 8) 0x7000 0x8000 0x9000 0))
     = [(0xfe000000, 0x38); (0xfe003000, 0x100); (0xfebd0008, 1)]
  /\ fst (new FX_F13 Debug (wit_f13 60) 0x7000 0x8000 0x9000 0) = NPanic
  /\ fst (new FIXED Debug (wit_f13 8) 0x7000 0x8000 0x9000 0) = NErr PE_MissingIsrConfig 0 0
  /\ fst (new FIXED Debug (wit_f13 60) 0x7000 0x8000 0x9000 0) = NErr PE_MissingIsrConfig 0 0.
Proof. vm_compute. repeat split. Qed.

(* F14: a vendor capability at 0xf4 claiming 16 bytes: capability.offset + CAP_LENGTH_OFFSET = 0x100
   overflows u8 (debug: panic; release: the length is read from register 0) *)
Definition FX_F14 : fixes := mkFx true true false.
Definition wit_f14 : pcifn :=
  wit_fn ((0x34, 0xf4) :: (0xf4, cap_header 0x40 16 4) :: (0xf8, 0) :: (0xfc, 0x2000) :: wit_caps 0 0x38 0).
Theorem new_prefix_refuted_overrun :
  fst (new FX_F14 Debug wit_f14 0x7000 0x8000 0x9000 0xa000) = NPanic
  /\ fst (new FX_F14 Release wit_f14 0x7000 0x8000 0x9000 0xa000) = NErr PE_BarOffsetOutOfRange 0 0
  /\ fst (new FIXED Debug wit_f14 0x7000 0x8000 0x9000 0xa000) = NOk (mkT 2 0x7000 0x8000 128 4 0x9000 None)
  /\ fst (new FIXED Release wit_f14 0x7000 0x8000 0x9000 0xa000) = NOk (mkT 2 0x7000 0x8000 128 4 0x9000 None).
Proof. vm_compute. repeat split. Qed.

(* what IS true of the code before the repairs F13 / F14: the loop body coincides with the repaired one
   on every capability with bar <= 5 that lies inside configuration space *)
Theorem scan_cap_prefix_partial fx m rd o id ph f :
  o + w8 ph <= 256 -> w8 (rdw rd (o + 4)) <= 5 ->
  scan_cap (mkFx fx false false) m rd o id ph f = scan_cap FIXED m rd o id ph f.
Proof.
  intros Hfit Hbar. unfold scan_cap. cbn [fx_fit fx_bar FIXED andb].
  destruct (negb (id =? PCI_CAP_ID_VNDR)); [reflexivity|].
  destruct (w8 ph <? 16) eqn:E16; [reflexivity|].
  replace (256 <? o + w8 ph) with false by lia.
  unfold add_u8, CAP_BAR_OFFSET, CAP_BAR_OFFSET_OFFSET, CAP_LENGTH_OFFSET. rewrite !add_w_small by lia.
  cbn [ci_bar]. replace (5 <? w8 (rdw rd (o + 4))) with false by lia. reflexivity.
Qed.

(* observations recorded, not claimed as violations:
   - a structure naming the UPPER half of a 64-bit BAR as a BAR of its own is outside `names_bar`;
   - align_of::<CommonCfg>() = 8 while the specification asks 4-byte alignment of the common structure:
     a common structure at offset 4 mod 8 is refused (Misaligned), which satisfies the property;
   - the 64-bit fields queue_desc / queue_driver / queue_device are written with ONE 8-byte access. *)
Example common_at_offset_4_refused :
  fst (new FIXED Debug (wit_fn (wit_caps 4 0x38 0)) 0x7004 0x8000 0x9000 0) = NErr PE_Misaligned 0x7004 8.
Proof. vm_compute. reflexivity. Qed.

Example wit_good_honest : kinds_honest wit_good.
Proof.
  apply kinds_honest_intro. intros i tr Hi Ht.
  assert (Hc : i = 0 \/ i = 1 \/ i = 2 \/ i = 3 \/ i = 4 \/ i = 5) by lia.
  destruct Hc as [->|[->|[->|[->|[->| ->]]]]].
  - exists (SMem 0 false 14 32 0xfe000000). split.
    + cbn [spec_ok]. repeat split; try (vm_compute; reflexivity); try (vm_compute; discriminate).
    + unfold placed. cbn [spec_slots]. split; vm_compute; reflexivity.
  - exists SUnimpl. split; [exact I|]. unfold placed. cbn [spec_slots]. split; vm_compute; reflexivity.
  - exists SUnimpl. split; [exact I|]. unfold placed. cbn [spec_slots]. split; vm_compute; reflexivity.
  - exists SUnimpl. split; [exact I|]. unfold placed. cbn [spec_slots]. split; vm_compute; reflexivity.
  - exists SUnimpl. split; [exact I|]. unfold placed. cbn [spec_slots]. split; vm_compute; reflexivity.
  - exists SUnimpl. split; [exact I|]. unfold placed. cbn [spec_slots]. split; vm_compute; reflexivity.
Qed.
(* and the monitor is not trivially true: it rejects the window the unrepaired code requests on wit_f4 *)
Example new_conform_b_rejects :
  new_conform_b wit_f4 0 [(0x1fdfffff0, 0x48, 0x7000); (0xfe003000, 0x100, 0x8000); (0xfe001000, 1, 0x9000)] = false
  /\ new_conform_b wit_f4 2 [] = false
  /\ new_conform_b wit_good 0 [(0xfe000000, 0x38, 0x7000); (0xfe003000, 0x100, 0x8000); (0xfe001000, 1, 0x9000)] = true.
Proof. vm_compute. repeat split. Qed.
Example ops_nonvacuous :
  let t := mkT 2 0x7000 0x8000 128 4 0x9000 None in
  wins_ok t 0x38 0x100 1
  /\ exec Debug t (ONotify 3) [5] = (Ok 0, [MW 0x7016 2 3; MR 0x701e 2 5; MW 0x8014 2 3])
  /\ exec Debug t (ONotify 3) [64] = (Panic, [MW 0x7016 2 3; MR 0x701e 2 64])
  /\ exec Debug t ODrop [0x0f; 0x10] = (Ok 0, [MW 0x7014 1 0; MR 0x7014 1 0x0f; MR 0x7014 1 0x10]).
Proof. cbv zeta. split; [unfold wins_ok, COMMON_SIZE; cbn; lia|]. vm_compute. repeat split. Qed.

(* ===================== 7. #[repr(C)] struct CommonCfg against the specification table ===================== *)
Definition wrapper_ro (k : ckind) : bool := match k with KReadPure => true | KReadPureWrite => false end.
Definition dir_ro (d : dir) : bool := match d with RO => true | RW => false end.
(* the sixteen members are at the offsets, and have the widths, of the first sixteen fields of
   virtio_pci_common_cfg (4.1.4.3); the struct is 56 bytes, 8-aligned; a member declared read-only is
   read-only in the specification; the one member declared writable that the specification makes
   read-only for the driver is queue_notify_off (offset 30), which no operation writes (C11_ops) *)
Theorem common_layout_matches_spec :
  map (fun x => (coffset_of (fst (fst x)), snd x)) common_layout
    = map (fun r => (cr_off r, cr_width r)) (firstn 16 common_table)
  /\ COMMON_SIZE = 56 /\ COMMON_ALIGN = 8
  /\ map (fun x => coffset_of (fst (fst x)))
         (filter (fun x => negb (Bool.eqb (wrapper_ro (snd (fst x)))
                                 (match clookup (coffset_of (fst (fst x))) with Some r => dir_ro (cr_dir r) | None => true end)))
                 common_layout) = [30]
  /\ (c_device_feature_select, c_device_feature, c_driver_feature_select, c_driver_feature, c_device_status,
      c_queue_select, c_queue_size, c_queue_enable, c_queue_notify_off, c_queue_desc, c_queue_driver, c_queue_device)
     = (S_device_feature_select, S_device_feature, S_driver_feature_select, S_driver_feature, S_device_status,
        S_queue_select, S_queue_size, S_queue_enable, S_queue_notify_off, S_queue_desc, S_queue_driver, S_queue_device).
Proof. vm_compute. repeat split. Qed.

(* TRANSITIONAL ids and 0x1040 + virtio id: accepted exactly on these, never type 0 *)
Theorem device_type_table id :
  device_type id =
  (if id =? 0x1000 then Some 1 else if id =? 0x1001 then Some 2 else if id =? 0x1002 then Some 13
   else if id =? 0x1003 then Some 3 else if id =? 0x1004 then Some 8 else if id =? 0x1005 then Some 4
   else if id =? 0x1009 then Some 9
   else if (0x1041 <=? id) && (id <=? 0x1059) && negb (id =? 0x104e) && negb (id =? 0x104f)
        then Some (if id =? 0x1045 then 13 else id - 0x1040)
   else None)
  /\ device_type id <> Some 0.
Proof.
  assert (F : forallb (fun i => match device_type i with Some 0 => false | _ => true end) (seqN 0x1000 160) = true) by (vm_compute; reflexivity).
  assert (G : forallb (fun id => match device_type id, (if id =? 0x1000 then Some 1 else if id =? 0x1001 then Some 2 else if id =? 0x1002 then Some 13
     else if id =? 0x1003 then Some 3 else if id =? 0x1004 then Some 8 else if id =? 0x1005 then Some 4
     else if id =? 0x1009 then Some 9
     else if (0x1041 <=? id) && (id <=? 0x1059) && negb (id =? 0x104e) && negb (id =? 0x104f)
          then Some (if id =? 0x1045 then 13 else id - 0x1040) else None) with
     | Some a, Some b => a =? b | None, None => true | _, _ => false end) (seqN 0x1000 160) = true) by (vm_compute; reflexivity).
  destruct (N.lt_ge_cases id 0x1000) as [Hlo|Hlo].
  { unfold device_type, PCI_DEVICE_ID_OFFSET.
    replace (id =? 4096) with false by lia. replace (id =? 4097) with false by lia. replace (id =? 4098) with false by lia.
    replace (id =? 4099) with false by lia. replace (id =? 4100) with false by lia. replace (id =? 4101) with false by lia.
    replace (id =? 4105) with false by lia. replace (4160 <=? id) with false by lia.
    replace (4161 <=? id) with false by lia. cbn [andb]. split; [reflexivity|discriminate]. }
  destruct (N.lt_ge_cases id (0x1000 + 160)) as [Hhi|Hhi].
  - pose proof (range_forallb _ _ _ F id ltac:(cbn; lia)) as F1. pose proof (range_forallb _ _ _ G id ltac:(cbn; lia)) as G1.
    cbv beta in F1, G1. split.
    + destruct (device_type id) as [a|]; destruct (if id =? 4096 then _ else _) as [b|]; try discriminate; auto.
      apply N.eqb_eq in G1. subst. reflexivity.
    + destruct (device_type id) as [[|p]|]; try discriminate. 
  - unfold device_type, PCI_DEVICE_ID_OFFSET.
    replace (id =? 4096) with false by lia. replace (id =? 4097) with false by lia. replace (id =? 4098) with false by lia.
    replace (id =? 4099) with false by lia. replace (id =? 4100) with false by lia. replace (id =? 4101) with false by lia.
    replace (id =? 4105) with false by lia. replace (4160 <=? id) with true by lia.
    replace (id <=? 4185) with false by lia. rewrite andb_false_r. cbn [andb].
    assert (E : Mmio.device_type_of (id - 4160) = None).
    { assert (H : 96 <= id - 4160) by lia. generalize dependent (id - 4160). intros x Hx.
      unfold Mmio.device_type_of. destruct x as [|p]; [lia|].
      do 7 (destruct p as [p|p|]; try reflexivity; try lia). }
    rewrite E. split; [reflexivity|discriminate].
Qed.

(* ===================== 8. what the ordering verdicts mean, on ANY trace ===================== *)
Lemma perq_not_sel w a : perq w a = true -> is_cw w S_queue_select a = false.
Proof.
  unfold perq, is_cw, at_c. intros H. apply andb_prop in H. destruct H as [_ H].
  destruct (m_addr a =? w_common w + S_queue_select) eqn:E; [|apply andb_false_r].
  apply N.eqb_eq in E. rewrite E in H. replace (w_common w + S_queue_select - w_common w) with S_queue_select in H by lia.
  discriminate H.
Qed.

(* a per-queue field is only touched after queue_select has been written, earlier in the same
   operation (with the operation's queue index when it has one) *)
Theorem qsel_scan_sound w oq tr : forall sel,
  qsel_scan w oq sel tr = true ->
  forall pre a post, tr = pre ++ a :: post -> perq w a = true ->
    sel = true \/
    exists p1 s p2, pre = p1 ++ s :: p2 /\ m_write s = true /\ m_addr s = w_common w + S_queue_select /\
                    (forall q, oq = Some q -> m_val s = q).
Proof.
  induction tr as [|x t IH]; intros sel H pre a post E Hp.
  - destruct pre; discriminate E.
  - cbn [qsel_scan] in H. destruct pre as [|y pre'].
    + cbn [app] in E. injection E as -> ->.
      rewrite (perq_not_sel _ _ Hp), Hp in H. apply andb_true_iff in H. left. tauto.
    + cbn [app] in E. injection E as -> ->.
      destruct (is_cw w S_queue_select y) eqn:Ey.
      * apply andb_true_iff in H. destruct H as [Hq H].
        right. destruct (IH true H pre' a post eq_refl Hp) as [_|(p1 & s & p2 & -> & Hs)].
        -- exists [], y, pre'. unfold is_cw, at_c in Ey. apply andb_true_iff in Ey.
           destruct Ey as [E1 E2]. apply N.eqb_eq in E2. repeat split; auto.
           intros q ->. apply N.eqb_eq in Hq. exact Hq.
        -- exists (y :: p1), s, p2. auto.
      * destruct (perq w y).
        -- apply andb_true_iff in H. destruct H as [-> H]. left. reflexivity.
        -- destruct (IH sel H pre' a post eq_refl Hp) as [Hs|(p1 & s & p2 & -> & Hs)]; auto.
           right. exists (y :: p1), s, p2. auto.
Qed.

Lemma is_enable_not_sel w a : is_enable w a = true -> is_cw w S_queue_select a = false.
Proof.
  unfold is_enable, is_cw, at_c. intros H. apply andb_true_iff in H. destruct H as [H _].
  apply andb_true_iff in H. destruct H as [Hw H]. rewrite Hw. cbn [andb].
  apply N.eqb_eq in H. rewrite H. apply N.eqb_neq. unfold S_queue_enable, S_queue_select. lia.
Qed.
Lemma memN_In x l : memN x l = true <-> In x l.
Proof.
  induction l as [|y t IH]; cbn [memN In]; [split; [discriminate|tauto]|].
  rewrite orb_true_iff, IH, N.eqb_eq. split; intros [H|H]; auto.
Qed.

(* the write that enables a queue (queue_enable := non-zero) is the last access of the operation, and the
   size and the three addresses have been written since the queue was selected *)
Theorem enable_scan_sound w tr : forall wr,
  enable_scan w wr tr = true ->
  forall pre a post, tr = pre ++ a :: post -> is_enable w a = true ->
    post = [] /\
    forall p, In p qparams ->
      In p wr \/ exists x, In x pre /\ m_write x = true /\ m_addr x - w_common w = p.
Proof.
  induction tr as [|x t IH]; intros wr H pre a post E He.
  - destruct pre; discriminate E.
  - cbn [enable_scan] in H. destruct pre as [|y pre'].
    + cbn [app] in E. injection E as -> ->.
      rewrite (is_enable_not_sel _ _ He), He in H. apply andb_true_iff in H. destruct H as [H1 H2].
      split; [destruct post; [reflexivity|discriminate]|].
      intros p Hp. left. rewrite forallb_forall in H2. apply memN_In. apply H2. exact Hp.
    + cbn [app] in E. injection E as -> ->.
      destruct (is_cw w S_queue_select y) eqn:Ey.
      * destruct (IH [] H pre' a post eq_refl He) as [Hl Hp]. split; [exact Hl|].
        intros p Hin. destruct (Hp p Hin) as [[]|(z & Hz & Hz')]. right. exists z. cbn; auto.
      * destruct (is_enable w y).
        -- apply andb_true_iff in H. destruct H as [H _]. destruct pre'; discriminate H.
        -- destruct (m_write y) eqn:Ew.
           ++ destruct (IH _ H pre' a post eq_refl He) as [Hl Hp]. split; [exact Hl|].
              intros p Hin. destruct (Hp p Hin) as [[<-|Hw]|(z & Hz & Hz')]; auto.
              ** right. exists y. cbn; auto.
              ** right. exists z. cbn; auto.
           ++ destruct (IH _ H pre' a post eq_refl He) as [Hl Hp]. split; [exact Hl|].
              intros p Hin. destruct (Hp p Hin) as [Hw|(z & Hz & Hz')]; auto.
              right. exists z. cbn; auto.
Qed.

(* ===================== 9. every well-formed BAR layout has honest kinds ===================== *)
From Coq Require Import ZifyNat.
Lemma upper_half_no_truth d i mk a :
  bar_at d i = mkSlot 5 mk a -> slot_truth (f_bars d) i = None.
Proof. intros E. unfold slot_truth. fold (bar_at d i). rewrite E. reflexivity. Qed.

Lemma layout_honest_from d : lenN (f_bars d) = 6 ->
  forall L n, skipn n (f_bars d) = layout_slots L -> Forall spec_ok L ->
  forall i tr, (n <= i)%nat -> slot_truth (f_bars d) (N.of_nat i) = Some tr ->
    (i < 6)%nat -> exists s, spec_ok s /\ placed d (N.of_nat i) s.
Proof.
  intros Hlen. assert (Hlen' : length (f_bars d) = 6%nat) by (unfold lenN in Hlen; lia).
  induction L as [|s L IH]; intros n Hsk Hok i tr Hni Ht Hi6.
  - cbn [layout_slots map concat] in Hsk.
    assert (length (skipn n (f_bars d)) = (6 - n)%nat) by (rewrite skipn_length; lia).
    rewrite Hsk in H. cbn [length] in H. lia.
  - apply Forall_cons_iff in Hok. destruct Hok as [Hs HL].
    unfold layout_slots in Hsk. cbn [map concat] in Hsk. fold (layout_slots L) in Hsk.
    assert (Hstep : exists x r, spec_slots s ++ layout_slots L = x :: r) by (destruct s; cbn; eauto).
    destruct Hstep as (x0 & r0 & Ex). rewrite Ex in Hsk.
    pose proof (skipn_lt _ _ _ _ Hsk) as Hn6. rewrite Hlen' in Hn6.
    (* the BAR is placed at slot n; the rest of the layout starts after it *)
    assert (Hpl : placed d (N.of_nat n) s /\ skipn (n + (if spec_two s then 2 else 1)) (f_bars d) = layout_slots L
                  /\ (spec_two s = true -> exists mk a, bar_at d (N.of_nat (S n)) = mkSlot 5 mk a)).
    { unfold placed, bar_at, nthN. rewrite Nat2N.id.
      destruct s as [|k mm a|ty pf k mm a|pf k mm a]; cbn [spec_slots spec_two app] in *;
        inversion Ex; subst x0 r0;
        destruct (skipn_nth dslot _ _ _ _ Hsk) as [E1 E2].
      1-3: (repeat split; [lia|exact E1|rewrite Nat.add_1_r; exact E2|discriminate]).
      destruct (skipn_nth dslot _ _ _ _ E2) as [E3 E4].
      pose proof (skipn_lt _ _ _ _ E2) as Hn5. rewrite Hlen' in Hn5.
      replace (N.to_nat (N.of_nat n + 1)) with (S n) by lia.
      repeat split; [lia|exact E1|exact E3|replace (n + 2)%nat with (S (S n)) by lia; exact E4|].
      intros _. eexists _, _. rewrite Nat2N.id. exact E3. }
    destruct Hpl as (Hpl & Hsk' & Hup).
    destruct (Nat.eq_dec i n) as [->|Hne]; [exists s; auto|].
    destruct (spec_two s) eqn:E2.
    + destruct (Nat.eq_dec i (S n)) as [->|Hne2].
      * destruct (Hup eq_refl) as (mk & a & Eu).
        rewrite (upper_half_no_truth d _ mk a Eu) in Ht. discriminate.
      * apply (IH (n + 2)%nat Hsk' HL i tr); [lia|exact Ht|lia].
    + apply (IH (n + 1)%nat Hsk' HL i tr); [lia|exact Ht|lia].
Qed.

(* a function whose six BAR registers are any sequence of well-formed BARs (I/O, 32-bit, below 1 MiB,
   64-bit over two registers, unimplemented; any size 2^k, any size-aligned address, zero included) *)
Theorem layout_kinds_honest d L :
  f_bars d = layout_slots L -> lenN (f_bars d) = 6 -> Forall spec_ok L -> kinds_honest d.
Proof.
  intros Hb Hlen Hok. apply kinds_honest_intro. intros i tr Hi Ht.
  destruct (layout_honest_from d Hlen L 0 Hb Hok (N.to_nat i) tr) as (s & Hs & Hp); try lia.
  - rewrite N2Nat.id. exact Ht.
  - exists s. rewrite N2Nat.id in Hp. auto.
Qed.

Lemma spec_slots_lt32 s : spec_ok s -> Forall (fun x => s_val x < 2 ^ 32) (spec_slots s).
Proof.
  destruct s as [|k m a|ty pf k m a|pf k m a]; cbn [spec_ok spec_slots]; intros H.
  - repeat constructor.
  - destruct H as (Hk & Hkm & Hm & Ha & Hlt). repeat constructor. cbn [s_val].
    assert (Hlt32 : a < 2 ^ 32) by (apply N.lt_le_trans with (2 ^ m); [exact Hlt|apply N.pow_le_mono_r; lia]).
    pose proof (aligned_room a k 32 Ha Hlt32 ltac:(lia)) as R.
    assert (4 <= 2 ^ k) by (change 4 with (2 ^ 2); apply N.pow_le_mono_r; lia). lia.
  - destruct H as (Hty & Hk & Hkm & Hm & Ha & Hlt). repeat constructor. cbn [s_val].
    assert (Hlt32 : a < 2 ^ 32) by (apply N.lt_le_trans with (2 ^ m); [exact Hlt|apply N.pow_le_mono_r; lia]).
    pose proof (aligned_room a k 32 Ha Hlt32 ltac:(lia)) as R. pose proof (pow2_le_16 k ltac:(lia)) as P.
    assert (tbits ty pf < 16) by (unfold tbits; destruct pf; lia). lia.
  - destruct H as (Hk & Hkm & Hm & Ha & Hlt). repeat constructor; cbn [s_val].
    + assert (Hm4 : (a mod 2 ^ 32) mod 2 ^ 4 = 0) by (apply mod_mod_pow2; apply (mod_pow2_le a 4 k); [lia|exact Ha]).
      assert (Hl : a mod 2 ^ 32 < 2 ^ 32) by (apply N.mod_lt; discriminate).
      pose proof (aligned_room (a mod 2 ^ 32) 4 32 Hm4 Hl ltac:(lia)) as R. change (2 ^ 4) with 16 in R.
      assert (tbits 2 pf < 16) by (unfold tbits; destruct pf; lia). lia.
    + apply N.div_lt_upper_bound; [discriminate|]. rewrite <- N.pow_add_r.
      apply N.lt_le_trans with (2 ^ m); [exact Hlt|apply N.pow_le_mono_r; lia].
Qed.

(* such a function, with a 16-bit command value, is in the state the theorems above ask for *)
Theorem layout_fn_ok d L :
  f_bars d = layout_slots L -> lenN (f_bars d) = 6 -> Forall spec_ok L -> f_cmd d < 65536 -> fn_ok d.
Proof.
  intros Hb Hlen Hok Hc. repeat split; auto.
  assert (Hall : Forall (fun x => s_val x < 2 ^ 32) (f_bars d)).
  { rewrite Hb. unfold layout_slots. clear Hb Hlen. induction Hok as [|s L Hs HL IH]; cbn [map concat]; [constructor|].
    apply Forall_app. split; [apply spec_slots_lt32; exact Hs|exact IH]. }
  intros j Hj. unfold bar_at, nthN. rewrite Forall_forall in Hall. apply Hall. apply nth_In.
  unfold lenN in Hlen. lia.
Qed.
