(* The console driver of src/device/console.rs and src/device/console/embedded_io.rs as an         *)
(* executable state machine layered on the virtqueue model (Model/Queue.v).                        *)
(* Transcribed function by function: new (from the point where both queues exist), poll_retrieve,  *)
(* finish_receive, ack_interrupt, recv, wait_for_receive, send / send_bytes (add_notify_wait_pop), *)
(* size, emergency_write; ReadReady::read_ready, Read::read, BufRead::fill_buf / consume,          *)
(* Write::write / flush.                                                                            *)
(* Everything the environment decides is an argument: the used ring the device exposes and the     *)
(* bytes the receive buffer holds after the copy-back (a `view`), the address Hal::share answers,  *)
(* the notification-suppression words (ae = avail_event, uf = used flags), the ISR value, config   *)
(* space answers.  Busy-wait loops take the list of views, one per iteration; when the list runs   *)
(* out while the loop condition still holds the result is None ("has not returned").               *)
(* NOT modelled: the transport status handshake of new (C08), Drop (C09), fmt::Write (a wrapper of *)
(* send_bytes that maps the error), the bytes of queue_buf_rx beyond what the device wrote.        *)
From VD Require Import Base.Words Model.Queue.

Definition PAGE : N := 4096.                 (* PAGE_SIZE: queue_buf_rx is [u8; PAGE_SIZE] *)
Definition RXQ : N := 0.                     (* QUEUE_RECEIVEQ_PORT_0 *)
Definition TXQ : N := 1.                     (* QUEUE_TRANSMITQ_PORT_0 *)
Definition QSIZE : N := 2.                   (* QUEUE_SIZE *)
Definition FEAT_SIZE : N := 1.
Definition FEAT_EMERG_WRITE : N := 4.
Definition FEAT_INDIRECT : N := 268435456.   (* 1 << 28 *)
Definition FEAT_EVENT_IDX : N := 536870912.  (* 1 << 29 *)
Definition FEAT_VERSION_1 : N := 4294967296. (* 1 << 32 *)
Definition FEAT_ACCESS_PLATFORM : N := 8589934592. (* 1 << 33 *)
Definition SUPPORTED_FEATURES : N :=
  FEAT_EVENT_IDX + FEAT_INDIRECT + FEAT_SIZE + FEAT_EMERG_WRITE + FEAT_VERSION_1 + FEAT_ACCESS_PLATFORM.

(* usize arithmetic written with plain + and - in the Rust source *)
Definition uadd (m : mode) (a b : N) : outcome N :=
  if a + b <? two64 then Ok (a + b) else match m with Debug => Panic | Release => Ok (w64 (a + b)) end.
Definition usub (m : mode) (a b : N) : outcome N :=
  if b <=? a then Ok (a - b) else match m with Debug => Panic | Release => Ok (a + two64 - b) end.

Inductive cev :=
| CQ (q : N) (e : qev)            (* an effect of the virtqueue code on queue q *)
| CNotify (q : N)                 (* transport.notify(q) *)
| CAckIntr                        (* transport.ack_interrupt() *)
| CReadGen                        (* transport.read_config_generation() *)
| CReadCfg (off len : N)          (* transport.read_config_space at off, len bytes *)
| CWriteCfg (off len v : N).      (* transport.write_config_space *)

Record cstate := mkC {
  c_feats : N;                    (* negotiated_features *)
  c_rxq : qstate;                 (* receiveq *)
  c_txq : qstate;                 (* transmitq *)
  c_buf : list N;                 (* queue_buf_rx[0 .. what the device wrote) *)
  c_cursor : N;
  c_pending : N;                  (* pending_len *)
  c_token : option N }.           (* receive_token *)

(* what the driver reads from device-written memory: the used index, the used ring, and the bytes
   found in queue_buf_rx after a completed request has been popped (copy-back at unshare) *)
Record view := mkView { v_uidx : N; v_ring : list (N * N); v_data : list N }.

Definition used_elem (q : qstate) (v : view) : N * N :=
  nthN (v_ring v) (N.land (q_last_used q) (q_size q - 1)) (0, 0).

(* the one receive buffer: identity 0, PAGE bytes, device-writable *)
Definition rxbuf (addr : N) : ubuf := mkBuf 0 PAGE addr.
(* a transmit buffer: identity 1 *)
Definition txbuf (len addr : N) : ubuf := mkBuf 1 len addr.

Definition set_rx (c : cstate) (q : qstate) (tok : option N) : cstate :=
  mkC (c_feats c) q (c_txq c) (c_buf c) (c_cursor c) (c_pending c) tok.
Definition set_tx (c : cstate) (q : qstate) : cstate :=
  mkC (c_feats c) (c_rxq c) q (c_buf c) (c_cursor c) (c_pending c) (c_token c).
Definition set_cursor (c : cstate) (cu : N) : cstate :=
  mkC (c_feats c) (c_rxq c) (c_txq c) (c_buf c) cu (c_pending c) (c_token c).

Definition bind {A B S E} (r : outcome A * S * list E) (f : A -> S -> outcome B * S * list E)
  : outcome B * S * list E :=
  let '(o, s, e) := r in
  match o with
  | Ok a => let '(o2, s2, e2) := f a s in (o2, s2, e ++ e2)
  | Err x => (Err x, s, e)
  | Panic => (Panic, s, e)
  | UB => (UB, s, e)
  end.

(* ---------- poll_retrieve ---------- *)
Definition poll_retrieve (c : cstate) (addr ae uf : N) : outcome unit * cstate * list cev :=
  match c_token c with
  | None =>
      if c_cursor c =? c_pending c then
        let '(o, q, evs) := add (c_rxq c) [] [rxbuf addr] 0 in
        match o with
        | Ok tok =>
            (Ok tt, set_rx c q (Some tok),
             map (CQ RXQ) evs ++ (if should_notify q ae uf then [CNotify RXQ] else []))
        | Err e => (Err e, set_rx c q None, map (CQ RXQ) evs)
        | Panic => (Panic, set_rx c q None, map (CQ RXQ) evs)
        | UB => (UB, set_rx c q None, map (CQ RXQ) evs)
        end
      else (Ok tt, c, [])
  | Some _ => (Ok tt, c, [])
  end.

(* ---------- finish_receive ---------- *)
Definition finish_receive (c : cstate) (v : view) : outcome bool * cstate * list cev :=
  match c_token c with
  | None => (Ok false, c, [])
  | Some tok =>
      let '(uid, ulen) := used_elem (c_rxq c) v in
      match peek_used (c_rxq c) (v_uidx v) uid with
      | None => (Ok false, c, [])
      | Some t =>
          if negb (t =? tok) then (Ok false, c, [])
          else
            let '(o, q, evs) := pop_used (c_rxq c) tok [] [rxbuf 0] (v_uidx v) uid ulen in
            match o with
            | Ok len =>
                (* the copy-back has happened: the buffer holds the device's bytes *)
                if len =? 0 then                                  (* assert_ne!(len, 0) *)
                  (Panic, mkC (c_feats c) q (c_txq c) (v_data v) (c_cursor c) (c_pending c) (c_token c),
                   map (CQ RXQ) evs)
                else
                  (Ok true, mkC (c_feats c) q (c_txq c) (v_data v) 0 len None, map (CQ RXQ) evs)
            | Err e => (Err e, set_rx c q (c_token c), map (CQ RXQ) evs)
            | Panic => (Panic, set_rx c q (c_token c), map (CQ RXQ) evs)
            | UB => (UB, set_rx c q (c_token c), map (CQ RXQ) evs)
            end
      end
  end.

(* ---------- ack_interrupt ---------- *)
Definition ack_interrupt (c : cstate) (isr : N) (v : view) : outcome bool * cstate * list cev :=
  if N.land isr 1 =? 0 then (Ok false, c, [CAckIntr])
  else let '(o, c', evs) := finish_receive c v in (o, c', CAckIntr :: evs).

(* queue_buf_rx[i]: an index outside the array panics *)
Definition buf_at (c : cstate) (i : N) : option N :=
  if PAGE <=? i then None else Some (nth (N.to_nat i) (c_buf c) 0).
(* &queue_buf_rx[from .. from+k] with from + k <= PAGE already checked *)
Definition buf_slice (c : cstate) (from k : N) : list N :=
  firstn (N.to_nat (N.min k PAGE)) (skipn (N.to_nat (N.min from PAGE)) (c_buf c)).

(* ---------- recv ---------- *)
Definition recv (m : mode) (c : cstate) (pop : bool) (v : view) (addr ae uf : N)
  : outcome (option N) * cstate * list cev :=
  bind (finish_receive c v) (fun _ c1 =>
    if c_cursor c1 =? c_pending c1 then (Ok None, c1, [])
    else match buf_at c1 (c_cursor c1) with
         | None => (Panic, c1, [])
         | Some ch =>
             if pop then
               match uadd m (c_cursor c1) 1 with
               | Ok cu => bind (poll_retrieve (set_cursor c1 cu) addr ae uf) (fun _ c3 => (Ok (Some ch), c3, []))
               | _ => (Panic, c1, [])
               end
             else (Ok (Some ch), c1, [])
         end).

(* ---------- wait_for_receive ---------- *)
(* the loop `while cursor == pending_len { finish_receive()?; spin }`: one view per iteration;
   returns the number of iterations (= spins) performed; None = the views ran out while the loop
   condition still held (the call has not returned) *)
Fixpoint wait_loop (c : cstate) (views : list view) (spins : N) (acc : list cev)
  : option (outcome N) * cstate * list cev :=
  if c_cursor c =? c_pending c then
    match views with
    | [] => (None, c, acc)
    | v :: rest =>
        let '(o, c', evs) := finish_receive c v in
        match o with
        | Ok _ => wait_loop c' rest (spins + 1) (acc ++ evs)
        | Err e => (Some (Err e), c', acc ++ evs)
        | Panic => (Some Panic, c', acc ++ evs)
        | UB => (Some UB, c', acc ++ evs)
        end
    end
  else (Some (Ok spins), c, acc).

Definition wait_for_receive (c : cstate) (addr ae uf : N) (views : list view)
  : option (outcome N) * cstate * list cev :=
  let '(o, c1, e1) := poll_retrieve c addr ae uf in
  match o with
  | Ok _ => wait_loop c1 views 0 e1
  | Err e => (Some (Err e), c1, e1)
  | Panic => (Some Panic, c1, e1)
  | UB => (Some UB, c1, e1)
  end.

(* ---------- embedded_io::ReadReady ---------- *)
Definition read_ready (c : cstate) (v : view) : outcome bool * cstate * list cev :=
  bind (finish_receive c v) (fun _ c1 => (Ok (negb (c_cursor c1 =? c_pending c1)), c1, [])).

(* ---------- embedded_io::Read ---------- *)
(* result: (spins, bytes copied into the caller's buffer); n = buf.len() *)
Definition read (m : mode) (c : cstate) (n addr ae uf : N) (views : list view)
  : option (outcome (N * list N)) * cstate * list cev :=
  if n =? 0 then (Some (Ok (0, [])), c, [])
  else
    match wait_for_receive c addr ae uf views with
    | (None, c1, e1) => (None, c1, e1)
    | (Some (Ok spins), c1, e1) =>
        match usub m (c_pending c1) (c_cursor c1) with
        | Ok avail =>
            let k := N.min n avail in
            match uadd m (c_cursor c1) k with
            | Ok e =>
                (* the slice queue_buf_rx[cursor .. cursor + k] *)
                if (e <? c_cursor c1) || (PAGE <? e) then (Some Panic, c1, e1)
                else (Some (Ok (spins, buf_slice c1 (c_cursor c1) k)), set_cursor c1 e, e1)
            | _ => (Some Panic, c1, e1)
            end
        | _ => (Some Panic, c1, e1)
        end
    | (Some (Err x), c1, e1) => (Some (Err x), c1, e1)
    | (Some Panic, c1, e1) => (Some Panic, c1, e1)
    | (Some UB, c1, e1) => (Some UB, c1, e1)
    end.

(* ---------- embedded_io::BufRead ---------- *)
Definition fill_buf (c : cstate) (addr ae uf : N) (views : list view)
  : option (outcome (N * list N)) * cstate * list cev :=
  match wait_for_receive c addr ae uf views with
  | (None, c1, e1) => (None, c1, e1)
  | (Some (Ok spins), c1, e1) =>
      (* &queue_buf_rx[cursor .. pending_len] *)
      if (c_pending c1 <? c_cursor c1) || (PAGE <? c_pending c1) then (Some Panic, c1, e1)
      else (Some (Ok (spins, buf_slice c1 (c_cursor c1) (c_pending c1 - c_cursor c1))), c1, e1)
  | (Some (Err x), c1, e1) => (Some (Err x), c1, e1)
  | (Some Panic, c1, e1) => (Some Panic, c1, e1)
  | (Some UB, c1, e1) => (Some UB, c1, e1)
  end.

(* consume as repaired (corpus/findings/C15_consume_overflow_fix.diff):
     assert!(amt <= self.pending_len - self.cursor); self.cursor += amt;                *)
Definition consume (m : mode) (c : cstate) (amt : N) : outcome unit * cstate :=
  match usub m (c_pending c) (c_cursor c) with
  | Ok d =>
      if amt <=? d then
        match uadd m (c_cursor c) amt with
        | Ok cu => (Ok tt, set_cursor c cu)
        | _ => (Panic, c)
        end
      else (Panic, c)
  | _ => (Panic, c)
  end.

(* consume as it stood before the repair, kept for the refutation theorem:
     assert!(self.cursor + amt <= self.pending_len); self.cursor += amt;               *)
Definition consume_prefix (m : mode) (c : cstate) (amt : N) : outcome unit * cstate :=
  match uadd m (c_cursor c) amt with
  | Ok s =>
      if s <=? c_pending c then
        match uadd m (c_cursor c) amt with
        | Ok cu => (Ok tt, set_cursor c cu)
        | _ => (Panic, c)
        end
      else (Panic, c)
  | _ => (Panic, c)
  end.

(* ---------- send / send_bytes: VirtQueue::add_notify_wait_pop on the transmit queue ---------- *)
(* obs: the used index seen by each evaluation of `while !can_pop()` *)
Fixpoint tx_wait (q : qstate) (obs : list N) (spins : N) : option N :=
  match obs with
  | [] => None
  | i :: rest => if can_pop q i then Some spins else tx_wait q rest (spins + 1)
  end.

Definition send_bytes (c : cstate) (len addr ae uf : N) (obs : list N) (v : view)
  : option (outcome N) * cstate * list cev :=
  let '(o, q1, e1) := add (c_txq c) [txbuf len addr] [] 0 in
  match o with
  | Ok tok =>
      let e2 := if should_notify q1 ae uf then [CNotify TXQ] else [] in
      match tx_wait q1 obs 0 with
      | None => (None, set_tx c q1, map (CQ TXQ) e1 ++ e2)
      | Some spins =>
          let '(uid, ulen) := used_elem q1 v in
          let '(o3, q3, e3) := pop_used q1 tok [txbuf len 0] [] (v_uidx v) uid ulen in
          let evs := map (CQ TXQ) e1 ++ e2 ++ map (CQ TXQ) e3 in
          match o3 with
          | Ok _ => (Some (Ok spins), set_tx c q3, evs)
          | Err e => (Some (Err e), set_tx c q3, evs)
          | Panic => (Some Panic, set_tx c q3, evs)
          | UB => (Some UB, set_tx c q3, evs)
          end
      end
  | Err e => (Some (Err e), set_tx c q1, map (CQ TXQ) e1)
  | Panic => (Some Panic, set_tx c q1, map (CQ TXQ) e1)
  | UB => (Some UB, set_tx c q1, map (CQ TXQ) e1)
  end.

(* embedded_io::Write::write: an empty buffer is answered without touching the queue *)
Definition io_write (c : cstate) (len addr ae uf : N) (obs : list N) (v : view)
  : option (outcome N) * cstate * list cev :=
  if len =? 0 then (Some (Ok 0), c, [])
  else match send_bytes c len addr ae uf obs v with
       | (Some (Ok _), c', e) => (Some (Ok len), c', e)
       | r => r
       end.

(* ---------- size: read_consistent(cols, rows) ---------- *)
(* one round = generation before, answer for cols (class, value), answer for rows, generation after;
   a failed cols read skips the rows read (the closure returns early) *)
Definition cfg_round := (N * (N * N) * (N * N) * N)%type.
Fixpoint size_rounds (rounds : list cfg_round) (acc : list cev)
  : option (outcome (option (N * N)) * list cev) :=
  match rounds with
  | [] => None
  | (before, (cc, cv), (rc, rv), after) :: rest =>
      let reads := if cc =? 0 then [CReadCfg 0 2; CReadCfg 2 2] else [CReadCfg 0 2] in
      let res : outcome (option (N * N)) :=
        if negb (cc =? 0) then Err cv else if negb (rc =? 0) then Err rv
        else Ok (Some (w16 cv, w16 rv)) in
      let acc' := acc ++ [CReadGen] ++ reads ++ [CReadGen] in
      if before =? after then Some (res, acc') else size_rounds rest acc'
  end.

Definition size (c : cstate) (rounds : list cfg_round) : option (outcome (option (N * N)) * list cev) :=
  if has_flag (c_feats c) FEAT_SIZE then size_rounds rounds [] else Some (Ok None, []).

(* ---------- emergency_write ---------- *)
(* res: what write_config_space answers (0 = Ok, otherwise the error code) *)
Definition emergency_write (c : cstate) (chr res : N) : outcome unit * list cev :=
  if has_flag (c_feats c) FEAT_EMERG_WRITE then
    ((if res =? 0 then Ok tt else Err res), [CWriteCfg 8 4 (w8 chr)])
  else (Err EUnsupported, []).

(* ---------- new (after begin_init and the creation of both queues) ---------- *)
Definition console_new (dev_feats addr ae uf : N) : outcome unit * cstate * list cev :=
  let f := N.land dev_feats SUPPORTED_FEATURES in
  let ind := has_flag f FEAT_INDIRECT in
  let ev := has_flag f FEAT_EVENT_IDX in
  poll_retrieve (mkC f (qnew QSIZE ind ev) (qnew QSIZE ind ev) [] 0 0 None) addr ae uf.
