(* C20 (GPU part): the driver src/device/gpu/mod.rs as an executable model.                           *)
(* Transcribed function by function: the #[repr(C)] request structures as little-endian byte         *)
(* encoders (field lists in declaration order), CtrlHeader::with_type / check_type, request /         *)
(* cursor_request, get_display_info, resource_create_2d, set_scanout, resource_flush,                 *)
(* transfer_to_host_2d, resource_attach_backing, resource_detach_backing, resource_unref,             *)
(* update_cursor, and the public operations new (has_edid only), resolution, get_edid,                *)
(* edid_preferred_resolution, edid_supported_resolutions, setup_framebuffer, change_resolution,       *)
(* flush, setup_cursor, move_cursor, Drop.                                                            *)
(*                                                                                                    *)
(* Environment = arguments: for every request the driver issues, what add_notify_wait_pop answered    *)
(* (an Error, or Ok and then the bytes found in queue_buf_recv), and the address dma_alloc returned.  *)
(* The virtqueue round trip itself (chain layout, notification, token matching) is the business of    *)
(* C01-C05; here one round trip is one event carrying the bytes at the start of queue_buf_send.       *)
(* Effects: ordered list of requests per queue, DMA allocations and releases, transport calls of Drop.*)
(*                                                                                                    *)
(* change_resolution is the code AFTER the repair C20_gpu_fb_size (corpus/findings/C20_gpu_fb_size_fix.diff) (the byte size is computed    *)
(* with checked arithmetic before anything is sent); the code as it stood is change_resolution_prefix.*)
From VD Require Import Base.Words Model.Blk Model.BlkSpec Model.Edid.

(* ---------- constants of mod.rs ---------- *)
Definition CMD_GET_DISPLAY_INFO : N := 256.          (* 0x100 *)
Definition CMD_RESOURCE_CREATE_2D : N := 257.
Definition CMD_RESOURCE_UNREF : N := 258.
Definition CMD_SET_SCANOUT : N := 259.
Definition CMD_RESOURCE_FLUSH : N := 260.
Definition CMD_TRANSFER_TO_HOST_2D : N := 261.
Definition CMD_RESOURCE_ATTACH_BACKING : N := 262.
Definition CMD_RESOURCE_DETACH_BACKING : N := 263.
Definition CMD_GET_EDID : N := 266.                  (* 0x10a *)
Definition CMD_UPDATE_CURSOR : N := 768.             (* 0x300 *)
Definition CMD_MOVE_CURSOR : N := 769.
Definition OK_NODATA : N := 4352.                    (* 0x1100 *)
Definition OK_DISPLAY_INFO : N := 4353.
Definition OK_EDID : N := 4356.                      (* 0x1104 *)
Definition FORMAT_B8G8R8A8UNORM : N := 1.
Definition QUEUE_TRANSMIT : N := 0.
Definition QUEUE_CURSOR : N := 1.
Definition SCANOUT_ID : N := 0.
Definition RESOURCE_ID_FB : N := 47806.              (* 0xbabe *)
Definition RESOURCE_ID_CURSOR : N := 56030.          (* 0xdade *)
Definition CURSOR_W : N := 64.
Definition CURSOR_H : N := 64.
Definition GPU_PAGE_SIZE : N := 4096.
Definition F_EDID : N := 2.                          (* 1 << 1 *)
Definition GPU_FEATURES : N :=
  536870912 + 268435456 + 4294967296 + 8589934592 + 2. (* EVENT_IDX | INDIRECT_DESC | VERSION_1 | ACCESS_PLATFORM | EDID *)

(* ---------- request structures ---------- *)
Inductive greq :=
| RGetDisplayInfo
| RCreate2D (resource_id width height : N)
| RUnref (resource_id : N)
| RSetScanout (x y width height scanout_id resource_id : N)
| RFlush (x y width height resource_id : N)
| RTransfer (x y width height offset resource_id : N)
| RAttach (resource_id addr length : N)
| RDetach (resource_id : N)
| RGetEdid (scanout : N)
| RCursor (is_move : bool) (scanout_id x y resource_id hot_x hot_y : N).

(* a #[repr(C)] struct of integers as (size in bytes, value) in declaration order; IntoBytes on a
   little-endian target is the concatenation of the little-endian fields (no struct here has implicit
   padding: every u64 sits at a multiple of 8) *)
Definition u32f (v : N) : nat * N := (4%nat, v).
Definition u64f (v : N) : nat * N := (8%nat, v).
Definition enc_fields (fs : list (nat * N)) : list N := flat_map (fun f => le_bytes (fst f) (snd f)) fs.

(* CtrlHeader::with_type: hdr_type, flags 0, fence_id 0, ctx_id 0, _padding 0 *)
Definition hdr_fields (t : N) : list (nat * N) := [u32f (t); u32f (0); u64f (0); u32f (0); u32f (0)].
Definition rect_fields (x y w h : N) : list (nat * N) := [u32f (x); u32f (y); u32f (w); u32f (h)].

Definition req_fields (r : greq) : list (nat * N) :=
  match r with
  | RGetDisplayInfo => hdr_fields CMD_GET_DISPLAY_INFO
  | RCreate2D rid w h =>
      hdr_fields CMD_RESOURCE_CREATE_2D ++ [u32f (rid); u32f (FORMAT_B8G8R8A8UNORM); u32f (w); u32f (h)]
  | RUnref rid => hdr_fields CMD_RESOURCE_UNREF ++ [u32f (rid); u32f (0)]
  | RSetScanout x y w h sid rid => hdr_fields CMD_SET_SCANOUT ++ rect_fields x y w h ++ [u32f (sid); u32f (rid)]
  | RFlush x y w h rid => hdr_fields CMD_RESOURCE_FLUSH ++ rect_fields x y w h ++ [u32f (rid); u32f (0)]
  | RTransfer x y w h off rid =>
      hdr_fields CMD_TRANSFER_TO_HOST_2D ++ rect_fields x y w h ++ [u64f (off); u32f (rid); u32f (0)]
  | RAttach rid addr len =>
      hdr_fields CMD_RESOURCE_ATTACH_BACKING ++ [u32f (rid); u32f (1); u64f (addr); u32f (len); u32f (0)]
  | RDetach rid => hdr_fields CMD_RESOURCE_DETACH_BACKING ++ [u32f (rid); u32f (0)]
  | RGetEdid sc => hdr_fields CMD_GET_EDID ++ [u32f (sc); u32f (0)]
  | RCursor mv sid x y rid hx hy =>
      hdr_fields (if mv then CMD_MOVE_CURSOR else CMD_UPDATE_CURSOR)
        ++ [u32f (sid); u32f (x); u32f (y); u32f (0)] ++ [u32f (rid); u32f (hx); u32f (hy); u32f (0)]
  end.

Definition enc_req (r : greq) : list N := enc_fields (req_fields r).

(* ---------- environment answers and effects ---------- *)
Inductive rsp :=
| RQ (e : N)                 (* add_notify_wait_pop returned Err e after the device had the request *)
| RB (bytes : list N).       (* it returned Ok; bytes = queue_buf_recv afterwards (any length modelled) *)

Inductive gev :=
| GCtrl (bytes : list N)     (* one round trip on the control queue: first size_of::<Req>() bytes of the send buffer *)
| GCursor (bytes : list N)   (* one round trip on the cursor queue (no device-writable buffer) *)
| GAlloc (npages paddr : N)   (* Dma::new: H::dma_alloc(pages, DriverToDevice) answered paddr *)
| GDealloc (paddr npages : N) (* Drop of a Dma *)
| GQueueUnset (q : N)
| GReset.                    (* Drop of the transport field *)

Record gstate := mkG {
  g_rect : option (N * N);          (* self.rect: x = y = 0 always, (width, height) *)
  g_fb : option (N * N);            (* frame_buffer_dma: (paddr, pages) *)
  g_cur : option (N * N);           (* cursor_buffer_dma *)
  g_edid : bool }.

Definition set_rect (s : gstate) (r : option (N * N)) : gstate := mkG r (g_fb s) (g_cur s) (g_edid s).
Definition set_fb (s : gstate) (f : option (N * N)) : gstate := mkG (g_rect s) f (g_cur s) (g_edid s).
Definition set_cur (s : gstate) (c : option (N * N)) : gstate := mkG (g_rect s) (g_fb s) c (g_edid s).

(* a computation inside one public operation, in the state of the driver, consuming environment answers:
   None = the answers ran out (the real code would still be waiting); otherwise the result, the state at
   that point (an early return by `?` keeps the assignments made so far), the unconsumed answers and the
   ordered effects *)
Definition gm (A : Type) : Type := gstate -> list rsp -> option (outcome A * gstate * list rsp * list gev).

Definition gret {A} (a : A) : gm A := fun s rs => Some (Ok a, s, rs, []).
Definition gfail {A} (e : N) : gm A := fun s rs => Some (Err e, s, rs, []).
Definition gpanic {A} : gm A := fun s rs => Some (Panic, s, rs, []).
Definition gget : gm gstate := fun s rs => Some (Ok s, s, rs, []).
Definition gset (f : gstate -> gstate) : gm unit := fun s rs => Some (Ok tt, f s, rs, []).
Definition gemit (evs : list gev) : gm unit := fun s rs => Some (Ok tt, s, rs, evs).
Definition glift {A} (o : outcome A) : gm A := fun s rs => Some (o, s, rs, []).

(* sequencing with `?` *)
Definition gbind {A B} (m : gm A) (f : A -> gm B) : gm B :=
  fun s rs =>
    match m s rs with
    | None => None
    | Some (Ok a, s1, t, evs) =>
        match f a s1 t with
        | None => None
        | Some (o, s2, t', evs') => Some (o, s2, t', evs ++ evs')
        end
    | Some (Err e, s1, t, evs) => Some (Err e, s1, t, evs)
    | Some (Panic, s1, t, evs) => Some (Panic, s1, t, evs)
    | Some (UB, s1, t, evs) => Some (UB, s1, t, evs)
    end.
Notation "x <- m ;; k" := (gbind m (fun x => k)) (at level 61, m at next level, right associativity).
Notation "m ;;; k" := (gbind m (fun _ => k)) (at level 61, right associativity).

(* `let dma = Dma::new(pages, ..)?; body`: paddr is what dma_alloc answered (0 = failure -> DmaError).
   The local is dropped (dma_dealloc) when the body is left by an early return or by unwinding; a body that
   ends normally has moved it into self. *)
Definition with_local_dma {A} (npages paddr : N) (body : gm A) : gm A :=
  fun s rs =>
    if paddr =? 0 then Some (Err EDmaError, s, rs, [GAlloc npages 0])
    else
      match body s rs with
      | None => None
      | Some (Ok a, s', t, evs) => Some (Ok a, s', t, GAlloc npages paddr :: evs)
      | Some (o, s', t, evs) => Some (o, s', t, GAlloc npages paddr :: evs ++ [GDealloc paddr npages])
      end.

(* VirtIOGpu::request: write_to_prefix, add_notify_wait_pop([send], [recv]), read_from_prefix *)
Definition ctrl_request (r : greq) : gm (list N) :=
  fun s rs =>
    match rs with
    | [] => None
    | RQ e :: t => Some (Err e, s, t, [GCtrl (enc_req r)])
    | RB b :: t => Some (Ok b, s, t, [GCtrl (enc_req r)])
    end.

(* VirtIOGpu::cursor_request: add_notify_wait_pop([send], []) *)
Definition cursor_request (r : greq) : gm unit :=
  fun s rs =>
    match rs with
    | [] => None
    | RQ e :: t => Some (Err e, s, t, [GCursor (enc_req r)])
    | RB _ :: t => Some (Ok tt, s, t, [GCursor (enc_req r)])
    end.

(* fields of a response as the driver's FromBytes structs read them *)
Definition rdf (off len : nat) (b : list N) : N := le_val (map w8 (firstn len (skipn off b))).
Definition hdr_type (b : list N) : N := rdf 0 4 b.

(* CtrlHeader::check_type *)
Definition check_type (b : list N) (expected : N) : outcome unit :=
  if hdr_type b =? expected then Ok tt else Err EIoError.

Definition ctrl_nodata (r : greq) : gm unit := b <- ctrl_request r ;; glift (check_type b OK_NODATA).

Definition resource_create_2d (rid w h : N) := ctrl_nodata (RCreate2D rid w h).
Definition set_scanout (x y w h sid rid : N) := ctrl_nodata (RSetScanout x y w h sid rid).
Definition resource_flush (w h rid : N) := ctrl_nodata (RFlush 0 0 w h rid).
Definition transfer_to_host_2d (w h off rid : N) := ctrl_nodata (RTransfer 0 0 w h off rid).
Definition resource_attach_backing (rid paddr len : N) := ctrl_nodata (RAttach rid paddr len).
Definition resource_detach_backing (rid : N) := ctrl_nodata (RDetach rid).
Definition resource_unref (rid : N) := ctrl_nodata (RUnref rid).
Definition update_cursor (rid sid x y hx hy : N) (is_move : bool) := cursor_request (RCursor is_move sid x y rid hx hy).

(* RespDisplayInfo { header, rect {x, y, width, height}, enabled, flags }: (width, height) *)
Definition get_display_info : gm (N * N) :=
  b <- ctrl_request RGetDisplayInfo ;; glift (check_type b OK_DISPLAY_INFO) ;;; gret (rdf 32 4 b, rdf 36 4 b).

(* ---------- public operations ---------- *)
(* new: only what the operations below depend on (the handshake is C08, queue creation C06) *)
Definition gpu_new (dev_features : N) : gstate :=
  mkG None None None (negb (N.land (N.land dev_features GPU_FEATURES) F_EDID =? 0)).

Definition resolution : gm (N * N) := get_display_info.

(* get_edid: RespEdid { header, size, _padding, edid: [u8; 1024] } -> Edid { data, size } *)
Definition get_edid (scanout : N) : gm (list N * N) :=
  s <- gget ;;
  if negb (g_edid s) then gfail EUnsupported
  else
    b <- ctrl_request (RGetEdid scanout) ;; glift (check_type b OK_EDID) ;;;
    gret (map w8 (firstn 1024 (skipn 32 b)), rdf 24 4 b).

Definition edid_preferred_resolution : gm (N * N) :=
  e <- get_edid SCANOUT_ID ;; glift (preferred_resolution (fst e) (snd e)).
Definition edid_supported_resolutions : gm (list (N * N)) :=
  e <- get_edid SCANOUT_ID ;; glift (standard_timings (fst e) (snd e)).

Definition gpu_pages (size : N) : N := (size + (GPU_PAGE_SIZE - 1)) / GPU_PAGE_SIZE.   (* usize::div_ceil, size < 2^32 *)

(* "Tear down existing framebuffer if one exists"; the assignment `self.frame_buffer_dma = None` drops it *)
Definition teardown : gm unit :=
  s <- gget ;;
  match g_fb s with
  | None => gret tt
  | Some (pa, pg) =>
      set_scanout 0 0 0 0 SCANOUT_ID 0 ;;;
      resource_detach_backing RESOURCE_ID_FB ;;;
      resource_unref RESOURCE_ID_FB ;;;
      gset (fun s => set_fb s None) ;;; gemit [GDealloc pa pg]
  end.

(* everything of change_resolution after the byte size is known. paddr: the answer of dma_alloc.
   raw_slice() -> vaddr(0) asserts offset < pages * PAGE_SIZE. The result is the length of the slice. *)
Definition change_tail (w h size paddr : N) : gm N :=
  let pg := gpu_pages size in
  with_local_dma pg paddr (
    resource_attach_backing RESOURCE_ID_FB paddr size ;;;
    set_scanout 0 0 w h SCANOUT_ID RESOURCE_ID_FB ;;;
    (if pg =? 0 then gpanic else gret tt) ;;;
    gset (fun s => set_fb s (Some (paddr, pg))) ;;;
    gret (pg * GPU_PAGE_SIZE)).

(* change_resolution after the repair: width * height * 4 is computed first, with checked_mul; a size
   that is zero or does not fit u32 is refused with InvalidParam before anything is sent or changed. *)
Definition change_resolution (w h paddr : N) : gm N :=
  if (two32 <=? w * h * 4) || (w * h * 4 =? 0) then gfail EInvalidParam
  else
    teardown ;;;
    gset (fun s => set_rect s (Some (w, h))) ;;;
    resource_create_2d RESOURCE_ID_FB w h ;;;
    change_tail w h (w * h * 4) paddr.

(* the code as it stood: `let size = width * height * 4;` in u32 AFTER resource_create_2d: a panic in
   the debug profile (overflow checks), the wrapped product in release; a zero size goes all the way to
   the assert in raw_slice *)
Definition change_resolution_prefix (m : mode) (w h paddr : N) : gm N :=
  teardown ;;;
  gset (fun s => set_rect s (Some (w, h))) ;;;
  resource_create_2d RESOURCE_ID_FB w h ;;;
  if two32 <=? w * h * 4 then
    match m with
    | Debug => gpanic
    | Release => change_tail w h (w32 (w * h * 4)) paddr
    end
  else change_tail w h (w * h * 4) paddr.

Definition setup_framebuffer (paddr : N) : gm N :=
  wh <- get_display_info ;; change_resolution (fst wh) (snd wh) paddr.

Definition flush : gm unit :=
  s <- gget ;;
  match g_rect s with
  | None => gfail ENotReady
  | Some (w, h) => transfer_to_host_2d w h 0 RESOURCE_ID_FB ;;; resource_flush w h RESOURCE_ID_FB
  end.

(* setup_cursor: image_len = cursor_image.len(); the image bytes themselves are copied into the new
   DMA buffer before the first request (checked on the implementation by the image monitor).
   `self.cursor_buffer_dma = Some(new)` drops the previous value. *)
Definition CURSOR_SIZE : N := CURSOR_W * CURSOR_H * 4.
Definition setup_cursor (image_len pos_x pos_y hot_x hot_y paddr : N) : gm unit :=
  if negb (image_len =? CURSOR_SIZE) then gfail EInvalidParam
  else
    let pg := gpu_pages CURSOR_SIZE in
    with_local_dma pg paddr (
      resource_create_2d RESOURCE_ID_CURSOR CURSOR_W CURSOR_H ;;;
      resource_attach_backing RESOURCE_ID_CURSOR paddr CURSOR_SIZE ;;;
      transfer_to_host_2d CURSOR_W CURSOR_H 0 RESOURCE_ID_CURSOR ;;;
      update_cursor RESOURCE_ID_CURSOR SCANOUT_ID pos_x pos_y hot_x hot_y false ;;;
      s <- gget ;;
      gset (fun s => set_cur s (Some (paddr, pg))) ;;;
      gemit (match g_cur s with Some (pa, pg0) => [GDealloc pa pg0] | None => [] end)).

Definition move_cursor (pos_x pos_y : N) : gm unit :=
  update_cursor RESOURCE_ID_CURSOR SCANOUT_ID pos_x pos_y 0 0 true.

(* Drop for VirtIOGpu, then the fields in declaration order: transport, rect, frame_buffer_dma,
   cursor_buffer_dma (the queues' own memory is C09's business and not listed) *)
Definition gpu_drop (s : gstate) : list gev :=
  [GQueueUnset QUEUE_TRANSMIT; GQueueUnset QUEUE_CURSOR; GReset]
    ++ (match g_fb s with Some (pa, pg) => [GDealloc pa pg] | None => [] end)
    ++ (match g_cur s with Some (pa, pg) => [GDealloc pa pg] | None => [] end).
