(* C18: the INDEPENDENT abstract specification of the vsock connection manager.                              *)
(* Written from the protocol rules (VirtIO 1.2, 5.10.6 "Device Operation" of the socket device, and the    *)
(* rules in the property text), not from the code: the state is a finite MAP from connection keys            *)
(*      (peer cid, peer port, local port)                                                                  *)
(* to entries, plus a set of listening ports. There is no vector, no index, no find-first and no           *)
(* swap_remove here: entries are only reached through `slookup`, `sset` and `sremove`, and every rule      *)
(* touches at most the one key the operation or packet names.                                              *)
(* Shared with the implementation model (and owned by C17, opaque here): the 44-byte header layout, the     *)
(* `credit` record with its arithmetic, and the API types (events, returned values).                        *)
From VD Require Import Base.Words Model.ConnMgr.

Definition key : Type := N * N * N.   (* peer cid, peer port, local port *)
Definition key_eqb (a b : key) : bool :=
  let '(a1, a2, a3) := a in let '(b1, b2, b3) := b in (a1 =? b1) && (a2 =? b2) && (a3 =? b3).
Definition mk_key (peer : vaddr) (local_port : N) : key := (a_cid peer, a_port peer, local_port).

Record sentry := mkEntry { se_est : bool; se_shut : bool; se_buf : list N; se_cr : credit }.

Definition smap : Type := list (key * sentry).
Fixpoint slookup (k : key) (t : smap) : option sentry :=
  match t with
  | [] => None
  | (k', e) :: rest => if key_eqb k' k then Some e else slookup k rest
  end.
Definition sremove (k : key) (t : smap) : smap := filter (fun p => negb (key_eqb k (fst p))) t.
Definition sset (k : key) (e : sentry) (t : smap) : smap := (k, e) :: sremove k t.

Record spec := mkSpec { sp_cid : N; sp_cap : N; sp_rxsz : N; sp_tab : smap; sp_listen : list N }.
Definition sp_new (cid cap rxsz : N) : spec := mkSpec cid cap rxsz [] [].
Definition sp_with_tab (s : spec) (t : smap) : spec := mkSpec (sp_cid s) (sp_cap s) (sp_rxsz s) t (sp_listen s).
Definition sp_with_listen (s : spec) (l : list N) : spec := mkSpec (sp_cid s) (sp_cap s) (sp_rxsz s) (sp_tab s) l.
Definition sp_put (s : spec) (k : key) (e : sentry) : spec := sp_with_tab s (sset k e (sp_tab s)).
Definition sp_del (s : spec) (k : key) : spec := sp_with_tab s (sremove k (sp_tab s)).

Definition sresult : Type := spec * outcome rval * list pkt.

(* the packet the driver sends on behalf of the connection `k`: addressed from us to the peer, stream type,
   carrying the connection's current buf_alloc / fwd_cnt *)
Definition sp_packet (cid : N) (k : key) (cr : credit) (op len flags : N) (payload : list N) : pkt :=
  let '(pcid, pport, lport) := k in
  (mkHdr cid pcid lport pport len VSOCK_TYPE_STREAM op flags (cr_buf_alloc cr) (cr_fwd_cnt cr), payload).

Definition entry_new (cap : N) : sentry := mkEntry false false [] (credit_new cap).
Definition se_with_cr (e : sentry) (cr : credit) : sentry := mkEntry (se_est e) (se_shut e) (se_buf e) cr.
Definition se_with_buf (e : sentry) (b : list N) : sentry := mkEntry (se_est e) (se_shut e) b (se_cr e).
Definition se_established (e : sentry) : sentry := mkEntry true (se_shut e) (se_buf e) (se_cr e).
Definition se_peer_shut (e : sentry) : sentry := mkEntry (se_est e) true (se_buf e) (se_cr e).

(* a local operation on a connection that must exist *)
Definition with_entry (s : spec) (k : key) (f : sentry -> sresult) : sresult :=
  match slookup k (sp_tab s) with
  | None => (s, Err (serr SE_NotConnected 0), [])
  | Some e => f e
  end.

(* ---- local operations ---- *)
Definition sp_connect (s : spec) (k : key) : sresult :=
  match slookup k (sp_tab s) with
  | Some _ => (s, Err (serr SE_ConnectionExists 0), [])
  | None =>
      let e := entry_new (sp_cap s) in
      (sp_put s k e, Ok VUnit, [sp_packet (sp_cid s) k (se_cr e) VOP_REQUEST 0 0 []])
  end.

Definition sp_send (md : mode) (s : spec) (k : key) (data : list N) : sresult :=
  with_entry s k (fun e =>
    if se_shut e then (s, Err (serr SE_PeerSocketShutdown 0), [])
    else
      match credit_peer_free md (se_cr e) with
      | None => (s, Panic, [])
      | Some free =>
          if lenN data <=? free then
            match credit_add_tx md (se_cr e) (w32 (lenN data)) with
            | None => (s, Panic, [])
            | Some cr' =>
                (sp_put s k (se_with_cr e cr'), Ok VUnit,
                 [sp_packet (sp_cid s) k (se_cr e) VOP_RW (w32 (lenN data)) 0 data])
            end
          else if cr_pending (se_cr e) then (s, Err (serr SE_InsufficientBufferSpaceInPeer 0), [])
          else (sp_put s k (se_with_cr e (credit_set_pending (se_cr e))),
                Err (serr SE_InsufficientBufferSpaceInPeer 0),
                [sp_packet (sp_cid s) k (se_cr e) VOP_CREDIT_REQUEST 0 0 []])
      end).

(* recv hands out the oldest buffered bytes; a connection the peer has shut down is closed with a reset as
   soon as its buffer is drained *)
Definition sp_recv (md : mode) (s : spec) (k : key) (n : N) : sresult :=
  with_entry s k (fun e =>
    let cnt := cntN n (se_buf e) in
    let out := firstn cnt (se_buf e) in
    let rest := skipn cnt (se_buf e) in
    match credit_done_forwarding md (se_cr e) (lenN out) with
    | None => (sp_put s k (se_with_buf e rest), Panic, [])
    | Some cr' =>
        let e' := se_with_cr (se_with_buf e rest) cr' in
        if se_shut e && (lenN rest =? 0) then
          (sp_del s k, Ok (VBytes out), [sp_packet (sp_cid s) k cr' VOP_RST 0 0 []])
        else (sp_put s k e', Ok (VBytes out), [])
    end).

Definition sp_avail (s : spec) (k : key) : sresult :=
  with_entry s k (fun e => (s, Ok (VNum (lenN (se_buf e))), [])).
Definition sp_established (s : spec) (k : key) : sresult :=
  with_entry s k (fun e => (s, Ok (VNum (b2n (se_est e))), [])).
Definition sp_update_credit (s : spec) (k : key) : sresult :=
  with_entry s k (fun e =>
    if se_shut e then (s, Err (serr SE_PeerSocketShutdown 0), [])
    else (s, Ok VUnit, [sp_packet (sp_cid s) k (se_cr e) VOP_CREDIT_UPDATE 0 0 []])).
Definition sp_shutdown (s : spec) (k : key) : sresult :=
  with_entry s k (fun e => (s, Ok VUnit, [sp_packet (sp_cid s) k (se_cr e) VOP_SHUTDOWN 0 3 []])).
Definition sp_force_close (s : spec) (k : key) : sresult :=
  with_entry s k (fun e => (sp_del s k, Ok VUnit, [sp_packet (sp_cid s) k (se_cr e) VOP_RST 0 0 []])).

Definition sp_port_used (s : spec) (p : N) : bool :=
  memN p (sp_listen s) || existsb (fun ke => snd (fst ke) =? p) (sp_tab s).

(* ---- packets from the device ---- *)
(* the operation table of the VirtIO specification *)
Definition sp_etype (op len : N) : etype :=
  if op =? 1 then EtRequest
  else if op =? 2 then EtConnected
  else if op =? 3 then EtDisconnected false
  else if op =? 4 then EtDisconnected true
  else if op =? 5 then EtReceived len
  else if op =? 6 then EtCreditUpdate
  else EtCreditRequest.

(* the peer's flow-control fields of every accepted packet are recorded; a credit update answers a
   pending credit request *)
Definition cr_from_packet (cr : credit) (peer_buf_alloc peer_fwd_cnt : N) (is_credit_update : bool) : credit :=
  mkCredit peer_buf_alloc peer_fwd_cnt (cr_tx_cnt cr) (cr_buf_alloc cr) (cr_fwd_cnt cr)
           (if is_credit_update then false else cr_pending cr).

(* the protocol rules for a well-formed packet, presented as the event it denotes *)
Definition sp_on_packet (s : spec) (ev : event) (body : list N) : sresult :=
  let k : key := (a_cid (ev_src ev), a_port (ev_src ev), a_port (ev_dst ev)) in
  let upd_cr (cr : credit) (is_cu : bool) := cr_from_packet cr (ev_buf_alloc ev) (ev_fwd_cnt ev) is_cu in
  let reported : outcome rval := Ok (VEvent (Some ev)) in
  let silent : outcome rval := Ok (VEvent None) in
  (* not for this guest: ignored *)
  if negb (a_cid (ev_dst ev) =? sp_cid s) then (s, silent, [])
  else
    match slookup k (sp_tab s), ev_type ev with
    (* no such connection: only a request means anything *)
    | None, EtRequest =>
        let cr := upd_cr (credit_new (sp_cap s)) false in
        if memN (a_port (ev_dst ev)) (sp_listen s) then
          (sp_put s k (mkEntry true false [] cr), reported, [sp_packet (sp_cid s) k cr VOP_RESPONSE 0 0 []])
        else (s, silent, [sp_packet (sp_cid s) k cr VOP_RST 0 0 []])
    | None, _ => (s, silent, [])
    (* a known connection *)
    | Some e, EtRequest =>
        let cr := upd_cr (se_cr e) false in
        if memN (a_port (ev_dst ev)) (sp_listen s) then
          (sp_put s k (se_established (se_with_cr e cr)), reported, [sp_packet (sp_cid s) k cr VOP_RESPONSE 0 0 []])
        else (sp_del s k, silent, [sp_packet (sp_cid s) k cr VOP_RST 0 0 []])
    | Some e, EtConnected =>
        (sp_put s k (se_established (se_with_cr e (upd_cr (se_cr e) false))), reported, [])
    | Some e, EtDisconnected shutdown =>
        let cr := upd_cr (se_cr e) false in
        if lenN (se_buf e) =? 0 then
          (sp_del s k, reported, if shutdown then [sp_packet (sp_cid s) k cr VOP_RST 0 0 []] else [])
        else (sp_put s k (se_peer_shut (se_with_cr e cr)), reported, [])       (* data still to be read *)
    | Some e, EtReceived len =>
        let e1 := se_with_cr e (upd_cr (se_cr e) false) in
        if sp_cap s - lenN (se_buf e) <? lenN body then
          (sp_put s k e1, Err (serr SE_OutputBufferTooShort len), [])
        else (sp_put s k (se_with_buf e1 (se_buf e ++ body)), reported, [])
    | Some e, EtCreditRequest =>
        let cr := upd_cr (se_cr e) false in
        (sp_put s k (se_with_cr e cr), silent, [sp_packet (sp_cid s) k cr VOP_CREDIT_UPDATE 0 0 []])
    | Some e, EtCreditUpdate =>
        (sp_put s k (se_with_cr e (upd_cr (se_cr e) true)), reported, [])
    end.

(* a received header: the operation must be one of the seven of the specification, and only OP_RW carries
   data *)
Definition sp_rx (s : spec) (h : vhdr) (body : list N) : sresult :=
  let op := vh_op h in
  if op =? 0 then (s, Err (serr SE_InvalidOperation 0), [])
  else if 7 <? op then (s, Err (serr SE_UnknownOperation op), [])
  else if negb (op =? 5) && negb (vh_len h =? 0) then (s, Err (serr SE_UnexpectedDataInPacket 0), [])
  else
    sp_on_packet s (mkEvent (mkAddr (vh_src_cid h) (vh_src_port h)) (mkAddr (vh_dst_cid h) (vh_dst_port h))
                            (vh_buf_alloc h) (vh_fwd_cnt h) (sp_etype op (vh_len h))) body.

(* one completed receive buffer: the framing checks (shared wire format), then the protocol rules *)
Definition sp_poll (s : spec) (rx : option (N * list N)) : sresult :=
  match rx with
  | None => (s, Ok (VEvent None), [])
  | Some (ulen, bytes) =>
      if sp_rxsz s <? ulen then (s, Err EIoError, [])
      else
        match read_header_and_body (firstn (cntN ulen bytes) bytes) with
        | inr e => (s, Err e, [])
        | inl (h, body) => sp_rx s h body
        end
  end.

Definition sp_step (md : mode) (s : spec) (o : cop) : sresult :=
  match o with
  | OpListen p => (sp_with_listen s (p :: sp_listen s), Ok VUnit, [])
  | OpUnlisten p => (sp_with_listen s (filter (fun x => negb (x =? p)) (sp_listen s)), Ok VUnit, [])
  | OpConnect peer lp => sp_connect s (mk_key peer lp)
  | OpSend peer lp data => sp_send md s (mk_key peer lp) data
  | OpRecv peer lp n => sp_recv md s (mk_key peer lp) n
  | OpAvail peer lp => sp_avail s (mk_key peer lp)
  | OpEstablished peer lp => sp_established s (mk_key peer lp)
  | OpUpdateCredit peer lp => sp_update_credit s (mk_key peer lp)
  | OpShutdown peer lp => sp_shutdown s (mk_key peer lp)
  | OpForceClose peer lp => sp_force_close s (mk_key peer lp)
  | OpPortUsed p => (s, Ok (VNum (b2n (sp_port_used s p))), [])
  | OpPoll rx => sp_poll s rx
  end.

Fixpoint sp_run (md : mode) (s : spec) (ops : list cop) : spec * list (outcome rval * list pkt) :=
  match ops with
  | [] => (s, [])
  | o :: rest =>
      let '(s1, r, tx) := sp_step md s o in
      let '(s2, outs) := sp_run md s1 rest in
      (s2, (r, tx) :: outs)
  end.

(* ---- transmissions that fail ---- *)
(* What the property asks for when the packet an operation has to send cannot be sent (the tx queue returns an    *)
(* error, which the operation passes on), read off its clauses 'packets matching no known connection create no     *)
(* state', 'affect only the connection identified by ...', 'buffered data remains readable and the connection is   *)
(* closed with a reset once drained', 'operations on unknown connections fail with not connected':                 *)
(*  - a LOCAL operation (connect, send, recv, update_credit, shutdown, force_close) has had NO effect: no entry is  *)
(*    created or removed, no credit is consumed, no byte leaves a buffer; it can be tried again;                    *)
(*  - a PACKET whose reply (RESPONSE, RST, CREDIT_UPDATE) cannot be sent creates no entry, removes none,           *)
(*    establishes nothing and is not reported; for a connection that exists, what the packet says about the PEER   *)
(*    is not lost: its flow-control fields are recorded, and the SHUTDOWN of a drained connection - whose RST is    *)
(*    still owed - marks it as shut down by the peer (send is refused, the next recv tries the reset again).       *)
(* Nothing here looks at the code: the rule is 'the effect of sp_step is withheld'.                                *)
Definition sp_packet_failed (s : spec) (ev : event) : spec :=
  let k : key := (a_cid (ev_src ev), a_port (ev_src ev), a_port (ev_dst ev)) in
  if negb (a_cid (ev_dst ev) =? sp_cid s) then s
  else
    match slookup k (sp_tab s) with
    | None => s
    | Some e =>
        let e1 := se_with_cr e (cr_from_packet (se_cr e) (ev_buf_alloc ev) (ev_fwd_cnt ev) false) in
        sp_put s k (match ev_type ev with EtDisconnected true => se_peer_shut e1 | _ => e1 end)
    end.

Definition sp_poll_failed (s : spec) (rx : option (N * list N)) : spec :=
  match rx with
  | None => s
  | Some (ulen, bytes) =>
      match read_header_and_body (firstn (cntN ulen bytes) bytes) with
      | inr _ => s
      | inl (h, _) =>
          sp_packet_failed s (mkEvent (mkAddr (vh_src_cid h) (vh_src_port h)) (mkAddr (vh_dst_cid h) (vh_dst_port h))
                                      (vh_buf_alloc h) (vh_fwd_cnt h) (sp_etype (vh_op h) (vh_len h)))
      end
  end.

(* one step when the transmission (if the step makes one: no step makes two) meets the outcome `ti` *)
Definition sp_step_tx (md : mode) (s : spec) (o : cop) (ti : txin) : sresult :=
  let '(s', r, tx) := sp_step md s o in
  match tx with
  | [] => (s', r, tx)
  | p :: _ =>
      let t := tx_pick ti (snd p) in
      match tx_err t with
      | None => (s', r, tx)
      | Some e => (match o with OpPoll rx => sp_poll_failed s rx | _ => s end, Err e, tx_seen t p)
      end
  end.

Fixpoint sp_run_tx (md : mode) (s : spec) (ops : list (cop * txin)) : spec * list (outcome rval * list pkt) :=
  match ops with
  | [] => (s, [])
  | (o, ti) :: rest =>
      let '(s1, r, tx) := sp_step_tx md s o ti in
      let '(s2, outs) := sp_run_tx md s1 rest in
      (s2, (r, tx) :: outs)
  end.

(* the key an operation or packet is about (None: it is about no connection at all) *)
Definition op_key (cid : N) (o : cop) : option key :=
  match o with
  | OpConnect peer lp | OpSend peer lp _ | OpRecv peer lp _ | OpAvail peer lp | OpEstablished peer lp
  | OpUpdateCredit peer lp | OpShutdown peer lp | OpForceClose peer lp => Some (mk_key peer lp)
  | OpPoll (Some (ulen, bytes)) =>
      match read_header_and_body (firstn (cntN ulen bytes) bytes) with
      | inl (h, _) => if vh_dst_cid h =? cid then Some (vh_src_cid h, vh_src_port h, vh_dst_port h) else None
      | inr _ => None
      end
  | _ => None
  end.
