(* VirtIO input device, configuration queries: the specification side.                              *)
(* Written from VirtIO 1.2 section 5.8 (Input Device) and NOT from the driver source:                *)
(*   5.8.4  struct virtio_input_config {                                                             *)
(*            u8 select; u8 subsel; u8 size; u8 reserved[5];                                         *)
(*            union { char string[128]; u8 bitmap[128];                                              *)
(*                    struct virtio_input_absinfo abs; struct virtio_input_devids ids; } u; };       *)
(*          struct virtio_input_absinfo { le32 min; le32 max; le32 fuzz; le32 flat; le32 res; };     *)
(*          struct virtio_input_devids  { le16 bustype; le16 vendor; le16 product; le16 version; };  *)
(*          enum virtio_input_config_select { UNSET = 0x00, ID_NAME = 0x01, ID_SERIAL = 0x02,       *)
(*            ID_DEVIDS = 0x03, PROP_BITS = 0x10, EV_BITS = 0x11, ABS_INFO = 0x12 };                 *)
(*   5.8.5  To query a specific piece of information the driver sets select and subsel              *)
(*          accordingly, then checks size to see if and how much information is available.           *)
(*          ID_NAME / ID_SERIAL: a string in u.string, subsel zero; ID_DEVIDS: u.ids; PROP_BITS:     *)
(*          u.bitmap, subsel zero; EV_BITS: subsel = event type, u.bitmap, size 0 = not supported;   *)
(*          ABS_INFO: subsel = axis, u.abs.                                                          *)
(* The structure is 3 + 5 + 128 = 136 bytes; select at 0, subsel at 1, size at 2, the union at 8.    *)
(* The boolean predicates below are the monitors evaluated on what the IMPLEMENTATION is observed    *)
(* to do (Extract/InputCfgIO.v): the ordered configuration-space accesses (Model/Config.cacc: tag 0  *)
(* read / 1 write, offset in the window, width, value) and the value handed to the caller.           *)
(* utf8_valid (Model/Config.v, written from Unicode table 3-7) is the only definition shared with a   *)
(* driver-side file.                                                                                 *)
From VD Require Import Base.Words Model.Config.

(* ---------- layout (5.8.4) ---------- *)
Definition ICS_OFF_SELECT : N := 0.
Definition ICS_OFF_SUBSEL : N := 1.
Definition ICS_OFF_SIZE : N := 2.
Definition ICS_OFF_U : N := 8.
Definition ICS_U_LEN : N := 128.
Definition ICS_LEN : N := 136.

Definition ICS_ID_NAME : N := 1.
Definition ICS_ID_SERIAL : N := 2.
Definition ICS_ID_DEVIDS : N := 3.
Definition ICS_PROP_BITS : N := 16.
Definition ICS_EV_BITS : N := 17.
Definition ICS_ABS_INFO : N := 18.

Definition ICS_DEVIDS_LEN : N := 8.      (* 4 x le16 *)
Definition ICS_ABSINFO_LEN : N := 20.    (* 5 x le32 *)

(* ---------- little-endian fields of the union ---------- *)
Fixpoint ics_le (bs : list N) : N :=
  match bs with
  | [] => 0
  | b :: t => b + 256 * ics_le t
  end.
(* the n-byte field at byte offset off of u *)
Definition ics_fld (u : list N) (off n : nat) : N := ics_le (firstn n (skipn off u)).

(* struct virtio_input_devids: bustype, vendor, product, version *)
Definition spec_devids (u : list N) : list N := [ics_fld u 0 2; ics_fld u 2 2; ics_fld u 4 2; ics_fld u 6 2].
(* struct virtio_input_absinfo: min, max, fuzz, flat, res *)
Definition spec_absinfo (u : list N) : list N :=
  [ics_fld u 0 4; ics_fld u 4 4; ics_fld u 8 4; ics_fld u 12 4; ics_fld u 16 4].

(* ---------- the queries ---------- *)
(* QRaw n: `size` and the first bytes of u copied into a caller buffer of n bytes (the raw query);
   QString: u.string[0..size) as text; QBitmap: u.bitmap[0..size); QDevids / QAbsinfo: the structures *)
Inductive icsq := QRaw (out_len : N) | QString | QBitmap | QDevids | QAbsinfo.

(* how many bytes of u a query needs once it knows `size` (a size above 128 cannot describe the union) *)
Definition ics_need (q : icsq) (size : N) : N :=
  if ICS_U_LEN <? size then 0
  else match q with
       | QRaw out_len => N.min size out_len
       | QString | QBitmap => size
       | QDevids => N.min size ICS_DEVIDS_LEN
       | QAbsinfo => N.min size ICS_ABSINFO_LEN
       end.

(* what the caller must be told when the device exposes (size, u) for the selected item:
   raw: size followed by the bytes copied; string: the bytes up to size, refused (IoError) unless
   well-formed UTF-8; bitmap: the bytes up to size; ids / abs: the decoded structure, refused (IoError)
   unless size is the size of the structure; a size above 128 is refused (IoError) *)
Definition spec_query_result (q : icsq) (size : N) (u : list N) : outcome (list N) :=
  if ICS_U_LEN <? size then Err EIoError
  else match q with
       | QRaw out_len => Ok (size :: firstn (N.to_nat (N.min size out_len)) u)
       | QString => let s := firstn (N.to_nat size) u in
                    if utf8_valid (length s) s then Ok s else Err EIoError
       | QBitmap => Ok (firstn (N.to_nat size) u)
       | QDevids => if size =? ICS_DEVIDS_LEN then Ok (spec_devids u) else Err EIoError
       | QAbsinfo => if size =? ICS_ABSINFO_LEN then Ok (spec_absinfo u) else Err EIoError
       end.

(* ---------- monitor 1: the accesses (5.8.4 layout, 5.8.5 protocol) ---------- *)
Definition ics_is (e : cacc) (tag off width : N) : bool :=
  (c_tag e =? tag) && (c_off e =? off) && (c_width e =? width).

(* single-byte reads of u[i], u[i+1], ... in this order *)
Fixpoint ics_data_from (i : N) (tr : list cacc) : bool :=
  match tr with
  | [] => true
  | e :: t => ics_is e 0 (ICS_OFF_U + i) 1 && ics_data_from (i + 1) t
  end.

(* the whole access list of ONE query (sel, sub): select := sel, subsel := sub, then size is read, then
   bytes of u from u[0] on, no more of them than min(size, 128) - so every access lies inside the 136-byte
   structure at a field of 5.8.4, nothing is read before select / subsel are written, and no byte beyond
   what the device announced is looked at. A list that stops early (an access was refused by the transport:
   C13) is accepted as far as it goes. *)
Definition ics_protocol_b (sel sub : N) (tr : list cacc) : bool :=
  match tr with
  | [] => true
  | w1 :: r1 =>
      ics_is w1 1 ICS_OFF_SELECT 1 && (c_val w1 =? sel) &&
      match r1 with
      | [] => true
      | w2 :: r2 =>
          ics_is w2 1 ICS_OFF_SUBSEL 1 && (c_val w2 =? sub) &&
          match r2 with
          | [] => true
          | rs :: data =>
              ics_is rs 0 ICS_OFF_SIZE 1 && (c_val rs <? 256)
              && (lenN data <=? N.min (c_val rs) ICS_U_LEN) && ics_data_from 0 data
              && forallb (fun e => c_val e <? 256) data
          end
      end
  end.

(* every access inside the structure (a consequence of the protocol, stated on its own) *)
Definition ics_inside_b (tr : list cacc) : bool :=
  forallb (fun e => (c_off e + c_width e <=? ICS_LEN) && (1 <=? c_width e)) tr.

(* ---------- monitor 2: the value handed to the caller ---------- *)
Definition ics_transport_error (e : N) : bool := (e =? EConfigSpaceTooSmall) || (e =? EConfigSpaceMissing).

Fixpoint ics_list_eqb (a b : list N) : bool :=
  match a, b with
  | [], [] => true
  | x :: a', y :: b' => (x =? y) && ics_list_eqb a' b'
  | _, _ => false
  end.
Definition ics_res_eqb (a b : outcome (list N)) : bool :=
  match a, b with
  | Ok x, Ok y => ics_list_eqb x y
  | Err x, Err y => x =? y
  | _, _ => false
  end.

(* r: what the query returned; tr: the accesses it was seen to make. What the device exposed for the item is
   read off the trace: size = the answer to the size read, u = the answers to the data reads. Unless the
   transport refused an access (the error of C13, judged there), the query returns what the specification says
   for (size, u), and a value is only returned after exactly the bytes it is made of have been read; panics are
   never accepted. *)
Definition ics_result_b (q : icsq) (r : outcome (list N)) (tr : list cacc) : bool :=
  match r with
  | Panic | UB => false
  | _ =>
      if match r with Err e => ics_transport_error e | _ => false end then true
      else match tr with
           | _ :: _ :: rs :: data =>
               let want := spec_query_result q (c_val rs) (map c_val data) in
               ics_res_eqb r want
               && match want with Ok _ => lenN data =? ics_need q (c_val rs) | _ => true end
           | _ => false
           end
  end.
