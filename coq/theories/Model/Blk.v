(* The block driver src/device/blk.rs on top of the virtqueue model (Model/Queue.v).            *)
(* Transcribed function by function:                                                            *)
(*   VirtIOBlk::new (feature negotiation, read_consistent of the two capacity halves),          *)
(*   capacity, readonly, virt_queue_size, enable/disable_interrupts, peek_used,                 *)
(*   request / request_read / request_write (blocking: add, notify, busy-wait, pop, status),    *)
(*   flush (gated), device_id, read_blocks, write_blocks,                                       *)
(*   read_blocks_nb / write_blocks_nb, complete_read_blocks / complete_write_blocks,            *)
(*   BlkReq::as_bytes (the #[repr(C)] header on a little-endian target), From<RespStatus>.      *)
(* Everything the environment decides is an argument: share addresses, the device's            *)
(* notification-suppression words, every value of the used ring, the status byte the device     *)
(* left at the address of the response buffer, config-space answers.                            *)
From VD Require Import Base.Words Model.Queue.

(* ---------- wire format, driver side ---------- *)
Inductive bop := OpIn | OpOut | OpFlush | OpGetId.

(* #[repr(u32)] enum ReqType *)
Definition op_type (o : bop) : N :=
  match o with OpIn => 0 | OpOut => 1 | OpFlush => 4 | OpGetId => 8 end.

(* n little-endian bytes of x (zerocopy IntoBytes of an integer on a little-endian target) *)
Fixpoint le_bytes (n : nat) (x : N) : list N :=
  match n with
  | O => []
  | S k => (x mod 256) :: le_bytes k (x / 256)
  end.

(* BlkReq { type_: u32, reserved: u32, sector: u64 }.as_bytes(); every constructor in blk.rs
   sets reserved = 0 (explicitly or through Default) *)
Definition enc_req (ty sector : N) : list N :=
  le_bytes 4 ty ++ le_bytes 4 0 ++ le_bytes 8 sector.

(* impl From<RespStatus> for Result *)
Definition status_result (st : N) : outcome unit :=
  if st =? 0 then Ok tt
  else if st =? 1 then Err EIoError
  else if st =? 2 then Err EUnsupported
  else if st =? 3 then Err ENotReady
  else Err EIoError.

(* BlkResp::default() *)
Definition RESP_DEFAULT : N := 3.

(* ---------- features ---------- *)
Definition BF_RO : N := 32.                    (* 1 << 5 *)
Definition BF_FLUSH : N := 512.                (* 1 << 9 *)
Definition BF_INDIRECT : N := 268435456.       (* 1 << 28 *)
Definition BF_EVENT_IDX : N := 536870912.      (* 1 << 29 *)
Definition BF_VERSION_1 : N := 4294967296.     (* 1 << 32 *)
Definition BF_ACCESS_PLATFORM : N := 8589934592. (* 1 << 33 *)
Definition SUPPORTED_FEATURES : N :=
  BF_RO + BF_FLUSH + BF_INDIRECT + BF_EVENT_IDX + BF_VERSION_1 + BF_ACCESS_PLATFORM.
Definition QUEUE_SIZE : N := 16.
Definition SECTOR_SIZE : N := 512.

Definition has_feat (f bit : N) : bool := negb (N.land f bit =? 0).

Record bstate := mkB { b_q : qstate; b_cap : N; b_feat : N }.
Definition setq (s : bstate) (q : qstate) : bstate := mkB q (b_cap s) (b_feat s).

(* ---------- new ---------- *)
(* one iteration of Transport::read_consistent around the closure
     Ok(read(capacity_low)? as u64 | (read(capacity_high)? as u64) << 32):
   generation before, the answers of the two reads (None = the transport returned an error;
   the second read is not performed when the first fails), generation after *)
Record cfg_try := mkTry { t_g1 : N; t_lo : option N; t_hi : option N; t_g2 : N }.

(* transport-level events of new that this model predicts *)
Inductive tev :=
| TSetStatus (v : N)
| TReadFeatures
| TWriteFeatures (v : N)
| TGuestPageSize (v : N)
| TReadGen
| TReadConfig (off len : N).

Definition try_events (t : cfg_try) : list tev :=
  [TReadGen; TReadConfig 0 4]
    ++ (match t_lo t with Some _ => [TReadConfig 4 4] | None => [] end)
    ++ [TReadGen].

Definition try_result (t : cfg_try) : outcome N :=
  match t_lo t, t_hi t with
  | Some lo, Some hi => Ok (N.lor (w32 lo) (N.shiftl (w32 hi) 32))
  | None, _ => Err EConfigSpaceTooSmall
  | _, None => Err EConfigSpaceTooSmall
  end.

(* the loop: retried until the generation is stable; None = the answers ran out (the real loop
   would still be running) *)
Fixpoint read_capacity (tries : list cfg_try) : option (outcome N) * list tev :=
  match tries with
  | [] => (None, [])
  | t :: rest =>
      if w32 (t_g1 t) =? w32 (t_g2 t) then (Some (try_result t), try_events t)
      else let '(r, evs) := read_capacity rest in (r, try_events t ++ evs)
  end.

Definition begin_init_events (dev_features : N) : list tev :=
  [TSetStatus 0; TSetStatus 3; TReadFeatures; TWriteFeatures (N.land dev_features SUPPORTED_FEATURES);
   TSetStatus 11; TGuestPageSize 4096].

(* VirtIOBlk::new with a transport whose VirtQueue::new succeeds (queue creation itself is C06/C08).
   Returns the driver state and the transport events before and after queue creation. *)
Definition blk_new (dev_features : N) (tries : list cfg_try)
  : option (outcome bstate * list tev * list tev) :=
  let feat := N.land dev_features SUPPORTED_FEATURES in
  let '(r, cevs) := read_capacity tries in
  match r with
  | None => None
  | Some (Ok cap) =>
      Some (Ok (mkB (qnew QUEUE_SIZE (has_feat feat BF_INDIRECT) (has_feat feat BF_EVENT_IDX)) cap feat),
            begin_init_events dev_features ++ cevs, [TSetStatus 15])
  | Some (Err e) => Some (Err e, begin_init_events dev_features ++ cevs, [])
  | Some Panic => Some (Panic, begin_init_events dev_features ++ cevs, [])
  | Some UB => Some (UB, begin_init_events dev_features ++ cevs, [])
  end.

Definition blk_capacity (s : bstate) : N := b_cap s.
Definition blk_readonly (s : bstate) : bool := has_feat (b_feat s) BF_RO.
Definition blk_queue_size : N := QUEUE_SIZE.

(* ---------- requests ---------- *)
(* the three caller-side buffers of a request: header (16 bytes), data, status (1 byte) *)
Record breq := mkReq { r_op : bop; r_sector : N; r_hdr : ubuf; r_data : ubuf; r_resp : ubuf }.

(* request: [hdr] / [resp];  request_read: [hdr] / [data, resp];  request_write: [hdr, data] / [resp] *)
Definition req_ins (r : breq) : list ubuf :=
  match r_op r with OpOut => [r_hdr r; r_data r] | _ => [r_hdr r] end.
Definition req_outs (r : breq) : list ubuf :=
  match r_op r with OpIn | OpGetId => [r_data r; r_resp r] | _ => [r_resp r] end.

(* assert_ne!(buf.len(), 0); assert_eq!(buf.len() % SECTOR_SIZE, 0)  (reads and writes only) *)
Definition len_asserts (r : breq) : bool :=
  match r_op r with
  | OpIn | OpOut => negb (b_len (r_data r) =? 0) && (b_len (r_data r) mod SECTOR_SIZE =? 0)
  | _ => true
  end.

Inductive bev :=
| BQ (e : qev)
| BNotify.

(* what is stored into the request header buffer before the add *)
Definition hdr_bytes (r : breq) : list N := enc_req (op_type (r_op r)) (w64 (r_sector r)).

(* the common first half: (asserts), header written, add, should_notify -> notify.
   ae/uf: avail_event and used flags as the device has them at that moment *)
Definition blk_submit (s : bstate) (r : breq) (taddr ae uf : N) : outcome N * bstate * list bev :=
  if negb (len_asserts r) then (Panic, s, [])
  else
    let '(o, q', evs) := add (b_q s) (req_ins r) (req_outs r) taddr in
    match o with
    | Ok tok => (Ok tok, setq s q', map BQ evs ++ (if should_notify q' ae uf then [BNotify] else []))
    | Err e => (Err e, setq s q', map BQ evs)
    | Panic => (Panic, setq s q', map BQ evs)
    | UB => (UB, setq s q', map BQ evs)
    end.

(* the common second half: pop_used with the same buffers, then resp.status.into();
   st: the byte found in the response buffer after pop_used (after the unshare copy-back) *)
Definition blk_complete (s : bstate) (token : N) (r : breq) (u_idx u_id u_len st : N)
  : outcome unit * bstate * list bev :=
  let '(o, q', evs) := pop_used (b_q s) token (req_ins r) (req_outs r) u_idx u_id u_len in
  match o with
  | Ok _ => (status_result (w8 st), setq s q', map BQ evs)
  | Err e => (Err e, setq s q', map BQ evs)
  | Panic => (Panic, setq s q', map BQ evs)
  | UB => (UB, setq s q', map BQ evs)
  end.

(* read_blocks_nb / write_blocks_nb *)
Definition blk_read_nb (s : bstate) (sector : N) (hdr data resp : ubuf) (taddr ae uf : N) :=
  blk_submit s (mkReq OpIn sector hdr data resp) taddr ae uf.
Definition blk_write_nb (s : bstate) (sector : N) (hdr data resp : ubuf) (taddr ae uf : N) :=
  blk_submit s (mkReq OpOut sector hdr data resp) taddr ae uf.
(* complete_read_blocks / complete_write_blocks: the header contents are not looked at *)
Definition blk_complete_read (s : bstate) (token : N) (hdr data resp : ubuf) (u_idx u_id u_len st : N) :=
  blk_complete s token (mkReq OpIn 0 hdr data resp) u_idx u_id u_len st.
Definition blk_complete_write (s : bstate) (token : N) (hdr data resp : ubuf) (u_idx u_id u_len st : N) :=
  blk_complete s token (mkReq OpOut 0 hdr data resp) u_idx u_id u_len st.

Definition blk_peek_used (s : bstate) (u_idx u_id : N) : option N := peek_used (b_q s) u_idx u_id.

Definition blk_set_interrupts (s : bstate) (enable : bool) : bstate * list bev :=
  let '(q', evs) := set_dev_notify (b_q s) enable in (setq s q', map BQ evs).

(* the busy-wait of add_notify_wait_pop: polls = the used index seen by each evaluation of
   can_pop; returns the number of iterations that found nothing and the index that ended the wait *)
Fixpoint wait_loop (q : qstate) (polls : list N) (spins : N) : option (N * N) :=
  match polls with
  | [] => None
  | u :: rest => if can_pop q u then Some (spins, u) else wait_loop q rest (spins + 1)
  end.

(* add_notify_wait_pop followed by the status conversion. None: the wait never ended on these polls *)
Definition blk_request (s : bstate) (r : breq) (taddr ae uf : N) (polls : list N) (u_id u_len st : N)
  : option (outcome unit * bstate * list bev * N) :=
  let '(o, s1, evs) := blk_submit s r taddr ae uf in
  match o with
  | Ok tok =>
      match wait_loop (b_q s1) polls 0 with
      | None => None
      | Some (spins, u_idx) =>
          let '(o2, s2, evs2) := blk_complete s1 tok r u_idx u_id u_len st in
          Some (o2, s2, evs ++ evs2, spins)
      end
  | Err e => Some (Err e, s1, evs, 0)
  | Panic => Some (Panic, s1, evs, 0)
  | UB => Some (UB, s1, evs, 0)
  end.

Definition blk_read_blocks (s : bstate) (sector : N) (hdr data resp : ubuf) :=
  blk_request s (mkReq OpIn sector hdr data resp).
Definition blk_write_blocks (s : bstate) (sector : N) (hdr data resp : ubuf) :=
  blk_request s (mkReq OpOut sector hdr data resp).

(* flush: a request only when FLUSH was negotiated *)
Definition blk_flush (s : bstate) (hdr resp : ubuf) (taddr ae uf : N) (polls : list N) (u_id u_len st : N)
  : option (outcome unit * bstate * list bev * N) :=
  if has_feat (b_feat s) BF_FLUSH
  then blk_request s (mkReq OpFlush 0 hdr (mkBuf 0 0 0) resp) taddr ae uf polls u_id u_len st
  else Some (Ok tt, s, [], 0).

(* id.iter().position(|&x| x == 0).unwrap_or(20) *)
Fixpoint id_length (bytes : list N) : N :=
  match bytes with
  | [] => 0
  | b :: rest => if b =? 0 then 0 else 1 + id_length rest
  end.

(* device_id: idbytes = the 20 bytes found in the caller's array after the request *)
Definition blk_device_id (s : bstate) (hdr data resp : ubuf) (taddr ae uf : N) (polls : list N)
  (u_id u_len st : N) (idbytes : list N) : option (outcome N * bstate * list bev * N) :=
  match blk_request s (mkReq OpGetId 0 hdr data resp) taddr ae uf polls u_id u_len st with
  | None => None
  | Some (Ok _, s', evs, sp) => Some (Ok (id_length (firstn 20 idbytes)), s', evs, sp)
  | Some (Err e, s', evs, sp) => Some (Err e, s', evs, sp)
  | Some (Panic, s', evs, sp) => Some (Panic, s', evs, sp)
  | Some (UB, s', evs, sp) => Some (UB, s', evs, sp)
  end.
