(* C13: device configuration space access and multi-field reads.                               *)
(* Transcribed from                                                                             *)
(*   src/transport/mmio.rs  MmioTransport::{read_config_space, write_config_space,              *)
(*                          read_config_generation}                                             *)
(*   src/transport/pci.rs   PciTransport::{read_config_space, write_config_space,               *)
(*                          read_config_generation}                                             *)
(*   src/transport/mod.rs   Transport::read_consistent                                          *)
(*   src/config.rs          read_help / write_help / read_config! / write_config! (pure         *)
(*                          forwarding to the transport with offset_of!(struct, field))         *)
(*   the closures handed to read_consistent by src/device/{blk,console,virtio_9p}.rs,           *)
(*   src/device/net/dev_raw.rs and src/device/socket/vsock.rs                                   *)
(*   safe-mmio 0.3.1 backend/mmio_ops.rs  MmioOps::{read, write, read_slice, write_slice}       *)
(*   (how a value of size_of::<T>() bytes becomes individual 1/2/4/8-byte accesses).            *)
(* SomeTransport::{Mmio,Pci} forward the three methods unchanged; read_consistent is the        *)
(* provided method of the trait and runs on the wrapper with the wrapper's methods.             *)
(*                                                                                              *)
(* A closure that reads configuration space is a `prog`: a tree of individual register reads    *)
(* whose continuation receives the value the device answered. The device is an argument:        *)
(* either a list of answers (single accesses) or a configuration memory with a generation       *)
(* counter and a schedule saying which updates the device performs immediately before each      *)
(* individual register read of the driver.                                                      *)
From VD Require Import Base.Words.

(* which transport: MMIO legacy / MMIO modern / PCI *)
Inductive tkind := TLegacy | TModern | TPci.

(* the configuration window as the transport holds it.
   MMIO: config_space : UniqueMmioPointer<[u8]>, w_len = number of bytes (mmio_size - 0x100).
   PCI : config_space : Option<UniqueMmioPointer<[u32]>>, w_present = is_some,
         w_len = number of u32 words (capability length / 4).
   w_base = the (virtual) address of the first byte: safe-mmio splits by the alignment of the
   actual pointer. *)
Record window := mkWin { w_present : bool; w_len : N; w_base : N }.

(* one register access: tag 0 = read in the config window, 1 = write in the config window,
   2 = read of the generation register (offset/width of that register in its own block) *)
Record cacc := mkCA { c_tag : N; c_off : N; c_width : N; c_val : N }.

Definition pow256 (k : N) : N := 2 ^ (8 * k).

(* ---------- usize arithmetic as written ---------- *)
(* `a + b` on usize: overflow panics in the debug profile and wraps in release *)
Definition add_usize (m : mode) (a b : N) : outcome N :=
  if a + b <? two64 then Ok (a + b)
  else match m with Debug => Panic | Release => Ok (a + b - two64) end.

(* `a * b` on usize *)
Definition mul_usize (m : mode) (a b : N) : outcome N :=
  if a * b <? two64 then Ok (a * b)
  else match m with Debug => Panic | Release => Ok ((a * b) mod two64) end.

(* usize::checked_add *)
Definition checked_add_usize (a b : N) : option N :=
  if a + b <? two64 then Some (a + b) else None.

(* ---------- the length test ---------- *)
(* bytes of the window as the test computes them: MMIO config_space.len(); PCI
   config_space.len() * size_of::<u32>() *)
Definition window_bytes (m : mode) (tk : tkind) (w : window) : outcome N :=
  match tk with
  | TPci => mul_usize m (w_len w) 4
  | _ => Ok (w_len w)
  end.

(* AFTER the repair (corpus/findings/C13_offset_overflow_fix.diff):
     if offset.checked_add(size_of::<T>()).is_none_or(|end| len < end) { Err(ConfigSpaceTooSmall) } else { access }
   Ok true = in bounds, Ok false = ConfigSpaceTooSmall *)
Definition end_check (m : mode) (tk : tkind) (w : window) (off s : N) : outcome bool :=
  match window_bytes m tk w with
  | Ok len =>
      match checked_add_usize off s with
      | Some e => Ok (e <=? len)
      | None => Ok false
      end
  | Err e => Err e | Panic => Panic | UB => UB
  end.

(* BEFORE the repair: `if len < offset + size_of::<T>() { Err(ConfigSpaceTooSmall) } else { access }`
   with the addition in usize. Kept for the _refuted lemmas. *)
Definition end_check_prefix (m : mode) (tk : tkind) (w : window) (off s : N) : outcome bool :=
  match window_bytes m tk w with
  | Ok len =>
      match add_usize m off s with
      | Ok e => Ok (negb (len <? e))
      | Err e => Err e | Panic => Panic | UB => UB
      end
  | Err e => Err e | Panic => Panic | UB => UB
  end.

(* ---------- safe-mmio: one value of s bytes as individual accesses ---------- *)
(* read_slice / write_slice: the widest of 8/4/2/1 that fits the remaining length and for which
   the CURRENT pointer is aligned *)
Definition chunk_width (addr n : N) : N :=
  if (8 <=? n) && (addr mod 8 =? 0) then 8
  else if (4 <=? n) && (addr mod 4 =? 0) then 4
  else if (2 <=? n) && (addr mod 2 =? 0) then 2
  else 1.

(* (offset in the window, width) of each access; addr = address of the byte at `rel` *)
Fixpoint slice_chunks (fuel : nat) (addr rel n : N) : list (N * N) :=
  match fuel with
  | O => []
  | S k =>
      if n =? 0 then []
      else let w := chunk_width addr n in
           (rel, w) :: slice_chunks k (addr + w) (rel + w) (n - w)
  end.

(* largest size_of::<T>() the executable model splits (each chunk is at least one byte) *)
Definition MAX_T : N := 64.

(* MmioOps::read / write: `match size_of::<T>() { 1 | 2 | 4 | 8 => one access, _ => slices }` *)
Definition chunks (addr rel s : N) : list (N * N) :=
  if (s =? 1) || (s =? 2) || (s =? 4) || (s =? 8) then [(rel, s)]
  else slice_chunks (N.to_nat (N.min s MAX_T)) addr rel s.

(* ---------- closures over configuration space ---------- *)
(* result of a closure: Ok (list of numbers) / Err code / Panic *)
Definition res := outcome (list N).

Inductive prog : Type :=
| Ret (r : res)
| Rd (off w : N) (k : N -> prog).     (* ONE register read of w bytes at window offset off *)

(* little-endian assembly: the chunk read at window offset rel contributes at byte rel - off *)
Fixpoint rd_chunks (cs : list (N * N)) (off acc : N) (k : N -> prog) : prog :=
  match cs with
  | [] => k acc
  | (rel, w) :: t =>
      Rd rel w (fun x => rd_chunks t off (acc + (x mod pow256 w) * pow256 (rel - off)) k)
  end.

Definition check_fn := mode -> tkind -> window -> N -> N -> outcome bool.

(* Transport::read_config_space::<T>(offset) with size_of::<T>() = s, align_of::<T>() = a.
   Both transports: assert!(align_of::<T>() <= 4); assert offset % align_of::<T>() == 0;
   PCI only: config_space.ok_or(ConfigSpaceMissing)?; the length test; then ONE
   read_unsafe of a T at config_space.ptr().byte_add(offset). *)
Definition read_cfg_gen (chk : check_fn) (m : mode) (tk : tkind) (w : window) (s a off : N)
  (k : outcome N -> prog) : prog :=
  if 4 <? a then k Panic
  else if negb (off mod a =? 0) then k Panic
  else if match tk with TPci => negb (w_present w) | _ => false end then k (Err EConfigSpaceMissing)
  else match chk m tk w off s with
       | Ok true => rd_chunks (chunks (w64 (w_base w + off)) off s) off 0 (fun v => k (Ok v))
       | Ok false => k (Err EConfigSpaceTooSmall)
       | Err e => k (Err e)
       | Panic => k Panic
       | UB => k UB
       end.

Definition read_cfg := read_cfg_gen end_check.
Definition read_cfg_prefix := read_cfg_gen end_check_prefix.

(* the `?` operator inside a closure *)
Definition bindq (rd : (outcome N -> prog) -> prog) (f : N -> prog) : prog :=
  rd (fun r => match r with
               | Ok v => f v
               | Err e => Ret (Err e)
               | Panic => Ret Panic
               | UB => Ret UB
               end).

(* ---------- running a closure ---------- *)
(* (a) against a list of answers, consumed in order (an exhausted list answers 0) *)
Fixpoint run_ans (p : prog) (ans : list N) : res * list cacc :=
  match p with
  | Ret r => (r, [])
  | Rd off w k =>
      let x := match ans with [] => 0 | h :: _ => h mod pow256 w end in
      let '(r, tr) := run_ans (k x) (tl ans) in
      (r, mkCA 0 off w x :: tr)
  end.

(* (b) against configuration memory. Bytes beyond the memory read as 0. *)
Definition byte_at (mem : list N) (i : N) : N :=
  if i <? lenN mem then nth (N.to_nat i) mem 0 mod 256 else 0.

Fixpoint le_read (mem : list N) (off : N) (n : nat) : N :=
  match n with
  | O => 0
  | S k => byte_at mem off + 256 * le_read mem (off + 1) k
  end.

Definition mem_read (mem : list N) (off w : N) : N := le_read mem off (N.to_nat (N.min w 8)).

(* the closure evaluated on ONE snapshot of configuration memory *)
Fixpoint eval (p : prog) (mem : list N) : res :=
  match p with
  | Ret r => r
  | Rd off w k => eval (k (mem_read mem off w)) mem
  end.

(* ---------- the single operations, against an answer list ---------- *)
Definition single (r : outcome N) : prog :=
  Ret (match r with Ok v => Ok [v] | Err e => Err e | Panic => Panic | UB => UB end).

Definition res_single (r : res) : outcome N :=
  match r with Ok [v] => Ok v | Ok _ => UB | Err e => Err e | Panic => Panic | UB => UB end.

Definition cfg_read_gen (chk : check_fn) (m : mode) (tk : tkind) (w : window) (s a off : N)
  (ans : list N) : outcome N * list cacc :=
  let '(r, tr) := run_ans (read_cfg_gen chk m tk w s a off single) ans in (res_single r, tr).

Definition cfg_read := cfg_read_gen end_check.
Definition cfg_read_prefix := cfg_read_gen end_check_prefix.

(* write_config_space::<T>(offset, value): same tests, then ONE write_unsafe of the value,
   split like a read; each chunk carries its bytes of the little-endian value *)
Definition wr_chunks (cs : list (N * N)) (off v : N) : list cacc :=
  map (fun c => let '(rel, w) := c in mkCA 1 rel w ((v / pow256 (rel - off)) mod pow256 w)) cs.

Definition cfg_write_gen (chk : check_fn) (m : mode) (tk : tkind) (w : window) (s a off v : N)
  : outcome N * list cacc :=
  if 4 <? a then (Panic, [])
  else if negb (off mod a =? 0) then (Panic, [])
  else if match tk with TPci => negb (w_present w) | _ => false end then (Err EConfigSpaceMissing, [])
  else match chk m tk w off s with
       | Ok true => (Ok 0, wr_chunks (chunks (w64 (w_base w + off)) off s) off v)
       | Ok false => (Err EConfigSpaceTooSmall, [])
       | Err e => (Err e, [])
       | Panic => (Panic, [])
       | UB => (UB, [])
       end.

Definition cfg_write := cfg_write_gen end_check.
Definition cfg_write_prefix := cfg_write_gen end_check_prefix.

(* ---------- the device: configuration memory + generation counter ---------- *)
Record dev := mkDev { d_cfg : list N; d_gen : N }.

(* width of the generation counter: ConfigGeneration is a 32-bit MMIO register, config_generation
   a byte of the PCI common configuration structure. (A legacy MMIO device has none; 32 is a
   placeholder there.) *)
Definition gen_bits (tk : tkind) : N := match tk with TPci => 8 | _ => 32 end.
Definition gen_mod (tk : tkind) : N := 2 ^ gen_bits tk.

(* one configuration change: the memory is replaced atomically and the counter moves on *)
Definition bump (tk : tkind) (d : dev) (image : list N) : dev :=
  mkDev image ((d_gen d + 1) mod gen_mod tk).

Definition apply_updates (tk : tkind) (d : dev) (us : list (list N)) : dev :=
  fold_left (bump tk) us d.

(* the schedule: for each individual register read the driver performs (generation register or
   configuration window), in order, the updates the device makes immediately before it. An
   exhausted schedule means no further change. *)
Definition sched := list (list (list N)).

Definition next_slot (sc : sched) : list (list N) * sched :=
  match sc with [] => ([], []) | h :: t => (h, t) end.

(* running a closure against the device: (result, device, rest of schedule, trace, number of
   updates that happened) *)
Fixpoint run_dev (tk : tkind) (p : prog) (d : dev) (sc : sched)
  : res * dev * sched * list cacc * N :=
  match p with
  | Ret r => (r, d, sc, [], 0)
  | Rd off w k =>
      let '(us, sc') := next_slot sc in
      let d' := apply_updates tk d us in
      let x := mem_read (d_cfg d') off w in
      let '(r, d'', sc'', tr, n) := run_dev tk (k x) d' sc' in
      (r, d'', sc'', mkCA 0 off w x :: tr, lenN us + n)
  end.

(* where the generation lives: MMIO ConfigGeneration at 0x0fc of the register block (32 bits);
   PCI config_generation at byte 21 of virtio_pci_common_cfg (8 bits, widened with .into()) *)
Definition gen_off (tk : tkind) : N := match tk with TPci => 21 | _ => 0xfc end.
Definition gen_width (tk : tkind) : N := match tk with TPci => 1 | _ => 4 end.

(* Transport::read_config_generation. Legacy MMIO: `MmioVersion::Legacy => 0`, no access. *)
Definition read_gen (tk : tkind) (d : dev) (sc : sched) : N * dev * sched * list cacc * N :=
  match tk with
  | TLegacy => (0, d, sc, [], 0)
  | _ =>
      let '(us, sc') := next_slot sc in
      let d' := apply_updates tk d us in
      (d_gen d', d', sc', [mkCA 2 (gen_off tk) (gen_width tk) (d_gen d')], lenN us)
  end.

Definition is_panic (r : res) : bool := match r with Panic => true | UB => true | _ => false end.

(* Transport::read_consistent:
     loop { let before = gen(); let result = f(); let after = gen();
            if before == after { break result; } }
   A panic inside f unwinds through the loop. None = out of fuel. *)
Fixpoint read_consistent (fuel : nat) (tk : tkind) (p : prog) (d : dev) (sc : sched)
  : option (res * dev * sched * list cacc) :=
  match fuel with
  | O => None
  | S f =>
      let '(g1, d1, sc1, t1, _) := read_gen tk d sc in
      let '(r, d2, sc2, t2, _) := run_dev tk p d1 sc1 in
      if is_panic r then Some (r, d2, sc2, t1 ++ t2)
      else
        let '(g2, d3, sc3, t3, _) := read_gen tk d2 sc2 in
        if g1 =? g2 then Some (r, d3, sc3, t1 ++ t2 ++ t3)
        else match read_consistent f tk p d3 sc3 with
             | Some (r', d', sc', t') => Some (r', d', sc', t1 ++ t2 ++ t3 ++ t')
             | None => None
             end
  end.

(* number of updates that fall inside each attempt the loop makes (after its first generation
   read, up to and including its second one) *)
Fixpoint attempt_updates (fuel : nat) (tk : tkind) (p : prog) (d : dev) (sc : sched) : list N :=
  match fuel with
  | O => []
  | S f =>
      let '(g1, d1, sc1, _, _) := read_gen tk d sc in
      let '(r, d2, sc2, _, n2) := run_dev tk p d1 sc1 in
      if is_panic r then [n2]
      else
        let '(g2, d3, sc3, _, n3) := read_gen tk d2 sc2 in
        if g1 =? g2 then [n2 + n3]
        else (n2 + n3) :: attempt_updates f tk p d3 sc3
  end.

(* ---------- the closures of the five drivers ---------- *)
Definition rd (m : mode) (tk : tkind) (w : window) (s a off : N) : (outcome N -> prog) -> prog :=
  read_cfg m tk w s a off.

(* blk.rs VirtIOBlk::new: capacity_low (u32 at 0) | capacity_high (u32 at 4) << 32.
   vsock.rs VirtIOSocket::new: guest_cid_low (u32 at 0) | guest_cid_high (u32 at 4) << 32. *)
Definition p_lo_hi (m : mode) (tk : tkind) (w : window) : prog :=
  bindq (rd m tk w 4 4 0) (fun lo =>
  bindq (rd m tk w 4 4 4) (fun hi =>
  Ret (Ok [N.lor lo (N.shiftl hi 32)]))).

(* console.rs VirtIOConsole::size: Size { columns: cols (u16 at 0), rows: rows (u16 at 2) } *)
Definition p_console_size (m : mode) (tk : tkind) (w : window) : prog :=
  bindq (rd m tk w 2 2 0) (fun cols =>
  bindq (rd m tk w 2 2 2) (fun rows =>
  Ret (Ok [cols; rows]))).

(* net/dev_raw.rs VirtIONetRaw::new: mac ([u8; 6] at 0, alignment 1), as a 48-bit number *)
Definition p_net_mac (m : mode) (tk : tkind) (w : window) : prog :=
  bindq (rd m tk w 6 1 0) (fun mac => Ret (Ok [mac])).

(* String::from_utf8: well-formed UTF-8 (Unicode 15, table 3-7) *)
Definition in_rng (lo hi x : N) : bool := (lo <=? x) && (x <=? hi).
Fixpoint utf8_valid (fuel : nat) (l : list N) : bool :=
  match fuel with
  | O => match l with [] => true | _ => false end
  | S f =>
      match l with
      | [] => true
      | b0 :: t =>
          if b0 <=? 0x7f then utf8_valid f t
          else if in_rng 0xc2 0xdf b0 then
            match t with b1 :: t' => in_rng 0x80 0xbf b1 && utf8_valid f t' | _ => false end
          else if in_rng 0xe0 0xef b0 then
            match t with
            | b1 :: b2 :: t' =>
                in_rng (if b0 =? 0xe0 then 0xa0 else 0x80) (if b0 =? 0xed then 0x9f else 0xbf) b1
                && in_rng 0x80 0xbf b2 && utf8_valid f t'
            | _ => false
            end
          else if in_rng 0xf0 0xf4 b0 then
            match t with
            | b1 :: b2 :: b3 :: t' =>
                in_rng (if b0 =? 0xf0 then 0x90 else 0x80) (if b0 =? 0xf4 then 0x8f else 0xbf) b1
                && in_rng 0x80 0xbf b2 && in_rng 0x80 0xbf b3 && utf8_valid f t'
            | _ => false
            end
          else false
      end
  end.

(* virtio_9p.rs read_mount_tag: tag_len (u16 at 0); 0 -> InvalidParam; then tag_len single bytes
   at 2 + idx; String::from_utf8 (error -> IoError). idx < 2^16, so `2 + idx` cannot overflow. *)
Fixpoint p_tag_bytes (m : mode) (tk : tkind) (w : window) (n : nat) (idx : N) (acc : list N) : prog :=
  match n with
  | O => Ret (if utf8_valid (length acc) (rev acc) then Ok (rev acc) else Err EIoError)
  | S k => bindq (rd m tk w 1 1 (2 + idx)) (fun b => p_tag_bytes m tk w k (idx + 1) (b :: acc))
  end.

Definition p_9p_tag (m : mode) (tk : tkind) (w : window) : prog :=
  bindq (rd m tk w 2 2 0) (fun tag_len =>
    if tag_len =? 0 then Ret (Err EInvalidParam)
    else p_tag_bytes m tk w (N.to_nat (N.min tag_len 65535)) 0 []).

(* a closure reading a given list of fields (size, align, offset) with `?` after each *)
Fixpoint p_seq (m : mode) (tk : tkind) (w : window) (fs : list (N * N * N)) (acc : list N) : prog :=
  match fs with
  | [] => Ret (Ok (rev acc))
  | (s, a, off) :: t => bindq (rd m tk w s a off) (fun v => p_seq m tk w t (v :: acc))
  end.

(* reads performed after read_consistent returned, outside any generation check
   (dev_raw.rs: `read_config!(transport, Config, status)?` right after the MAC): the value is
   discarded, an error replaces the result *)
Fixpoint plain_reads (m : mode) (tk : tkind) (w : window) (fs : list (N * N * N)) (r : res) : prog :=
  match fs with
  | [] => Ret r
  | (s, a, off) :: t => bindq (rd m tk w s a off) (fun _ => plain_reads m tk w t r)
  end.

(* read_consistent(p)? followed by plain reads *)
Definition phase (fuel : nat) (m : mode) (tk : tkind) (w : window) (p : prog)
  (tail : list (N * N * N)) (d : dev) (sc : sched) : option (res * dev * sched * list cacc) :=
  match read_consistent fuel tk p d sc with
  | None => None
  | Some (r, d1, sc1, t1) =>
      match r, tail with
      | Ok _, _ :: _ =>
          let '(r2, d2, sc2, t2, _) := run_dev tk (plain_reads m tk w tail r) d1 sc1 in
          Some (r2, d2, sc2, t1 ++ t2)
      | _, _ => Some (r, d1, sc1, t1)
      end
  end.
