(* The split virtqueue of src/queue.rs in the crate's SECOND build configuration: without the cargo       *)
(* feature `alloc` (`--no-default-features`).  Only the code under `#[cfg(not(feature = "alloc"))]` and   *)
(* the code from which a `#[cfg(feature = "alloc")]` part is compiled out is transcribed here; everything *)
(* else (add_direct, the direct branch of recycle_descriptors, the publication of the ring entry,         *)
(* can_pop, peek_used, should_notify, set_dev_notify, the layout) is the shared code of Model/Queue.v.    *)
(*                                                                                                        *)
(* In that configuration the struct has no `indirect` field and no `indirect_lists`.  The state record of *)
(* Model/Queue.v is reused: the two fields are there but NO alloc-less operation reads them (lemmas       *)
(* na_*_ignores_ind in Proofs/QueueNoAllocProofs.v), `na_new` fills them with `false` / no table, and no  *)
(* operation changes them.                                                                                *)
From VD Require Import Base.Words Model.Queue.

(* ---------- VirtQueue::new ----------
   `indirect` is a parameter of the function in both configurations, but without `alloc` the struct
   literal has no field for it (`#[cfg(feature = "alloc")] indirect, indirect_lists: [NONE; SIZE]`):
   the request is dropped. Everything else (checks, layout, the link stores) is shared. *)
Definition na_new (size : N) (indirect_requested event_idx : bool) : qstate :=
  let t := init_table 0 (N.to_nat size) in
  mkQ size false event_idx 0 0 0 0 t (repeat None (N.to_nat size))
      t 0 0 0 (repeat 0 (N.to_nat size)).

(* ---------- add ----------
        #[cfg(not(feature = "alloc"))]
        if self.num_used as usize + descriptors_needed > SIZE { return Err(Error::QueueFull); }
        #[cfg(not(feature = "alloc"))]
        let head = self.add_direct(inputs, outputs);
   (usize arithmetic on a u16 and a slice length: no overflow) *)
Definition na_capacity_ok (s : qstate) (n : N) : bool := negb (q_size s <? q_num_used s + n).

Definition na_add (s : qstate) (ins outs : list ubuf) : outcome N * qstate * list qev :=
  let bufs := tag_bufs ins outs in
  let n := lenN bufs in
  if n =? 0 then (Err EInvalidParam, s, [])
  else if negb (na_capacity_ok s n) then (Err EQueueFull, s, [])
  else
    let '(o, s1, evs) := add_direct s bufs in
    match o with
    | Ok head =>
        let slot := N.land (q_avail_idx s1) (q_size s1 - 1) in
        let ai := w16 (q_avail_idx s1 + 1) in
        (Ok head, set_avail s1 ai (updN (q_aring s1) slot head),
         evs ++ [QStoreRing slot head; QFence; QStoreIdx ai])
    | _ => (o, s1, evs)
    end.

(* ---------- available_desc ----------  the `if self.indirect { ... }` block is compiled out *)
Definition na_available_desc (s : qstate) : N := q_size s - q_num_used s.

(* ---------- recycle_descriptors / pop_used ----------
   `if head_desc.flags.contains(DescFlags::INDIRECT) { #[cfg(feature = "alloc")] { ... } } else { ... }`:
   without `alloc` the first branch is EMPTY: the function has already done `self.free_head = head` and
   returns, with no unshare, no store, `num_used` unchanged.  (Never taken from a state built by these
   operations: Proofs/QueueNoAllocProofs.v, na_no_indirect_flag.)  The other branch is shared. *)
Definition na_recycle (s : qstate) (head : N) (bufs : list (ubuf * bool))
  : outcome unit * qstate * list qev :=
  let orig := q_free_head s in
  match nthN_error (q_shadow s) head with
  | None => (Panic, s, [])
  | Some hd =>
      if has_flag (d_flags hd) F_INDIRECT then
        (Ok tt, set_core s (q_num_used s) head (q_shadow s) (q_ind s) (q_dtable s), [])
      else
        match recycle_loop bufs (q_shadow s) (q_dtable s) (Some head) orig (q_num_used s) with
        | (Ok (sh, dt, nu), evs) => (Ok tt, set_core s nu head sh (q_ind s) dt, evs)
        | (Err e, evs) => (Err e, s, evs)
        | (Panic, evs) => (Panic, s, evs)
        | (UB, evs) => (UB, s, evs)
        end
  end.

Definition na_pop_used (s : qstate) (token : N) (ins outs : list ubuf) (u_idx u_id u_len : N)
  : outcome N * qstate * list qev :=
  if negb (can_pop s u_idx) then (Err ENotReady, s, [])
  else
    let index := w16 u_id in
    if negb (index =? token) then (Err EWrongToken, s, [])
    else
      let '(o, s1, evs) := na_recycle s index (tag_bufs ins outs) in
      match o with
      | Ok _ =>
          let lu := w16 (q_last_used s1 + 1) in
          if q_event_idx s1 then (Ok (w32 u_len), set_last_used s1 lu lu, evs ++ [QStoreUsedEvent lu])
          else (Ok (w32 u_len), set_last_used s1 lu (q_uevent s1), evs)
      | Err e => (Err e, s1, evs)
      | Panic => (Panic, s1, evs)
      | UB => (UB, s1, evs)
      end.

(* ---------- boolean forms used by the monitors (Extract/QueueNoAllocIO.v) ---------- *)
(* the specification of `add`'s three outcomes when no indirect table is in use: `held` descriptors are
   with outstanding chains, `n` buffers are offered.  class 0 = accepted, 1 = refused; code = error code *)
Definition na_refusal_spec (size held n class code shares : N) : bool :=
  if n =? 0 then (class =? 1) && (code =? EInvalidParam) && (shares =? 0)
  else if held + n <=? size then (class =? 0) && (shares =? n)
  else (class =? 1) && (code =? EQueueFull) && (shares =? 0).

(* no descriptor the device can read carries the INDIRECT flag *)
Definition no_indirect_b (t : list desc) : bool :=
  forallb (fun d => negb (has_flag (d_flags d) F_INDIRECT)) t.

Definition is_table_ev (e : qev) : bool :=
  match e with
  | QShareTable _ _ _ | QUnshareTable _ _ _ => true
  | QStoreDesc _ d => has_flag (d_flags d) F_INDIRECT
  | _ => false
  end.
