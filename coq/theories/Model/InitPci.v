(* C08 on the real PCI transport.                                                                   *)
(*                                                                                                  *)
(* SPECIFICATION side (written from VirtIO 1.2, NOT from src/transport/pci.rs):                      *)
(*  * 4.1.4.3 `struct virtio_pci_common_cfg`: device_feature_select 0, device_feature 4,             *)
(*    driver_feature_select 8, driver_feature 12, msix_config 16, num_queues 18, device_status 20,   *)
(*    config_generation 21, queue_select 22, queue_size 24, queue_msix_vector 26, queue_enable 28,   *)
(*    queue_notify_off 30, queue_desc 32, queue_driver 40, queue_device 48;                          *)
(*  * 4.1.3 / 4.1.3.1: every field is accessed in its natural width; a 64-bit field is two 32-bit    *)
(*    fields, low part first (a single 64-bit access is tolerated by the decoder and recorded as an  *)
(*    observation);                                                                                  *)
(*  * 4.1.4.3.2: the driver MUST configure the other virtqueue fields before enabling the virtqueue  *)
(*    with queue_enable, and MUST NOT write a 0 to queue_enable;                                     *)
(*  * 4.1.4.4 / 4.1.5.2: the notification of queue q is a 16-bit write of q at byte offset           *)
(*    queue_notify_off(q) * notify_off_multiplier of the notification window.                        *)
(* `lift_pci` decodes the accesses to the four windows of a virtio-pci device back into the events   *)
(* of the initialisation automaton `hs_step` (Model/InitSpec.v); `order_ok_pci` is the boolean form  *)
(* of the access rules above. Monitor kind 854 evaluates both on the accesses OBSERVED from the real *)
(* PciTransport under each of the eleven constructors.                                               *)
(*                                                                                                  *)
(* MODEL side: `lower_pci` renders a transport-level trace of Model/Init.v with the per-operation    *)
(* access model of the PCI transport of property C11 (Model/Pci.v `exec`, transcribed from pci.rs)   *)
(* on a canonical transport whose four windows start at multiples of 2^48, plus the two methods C11  *)
(* leaves to C13: read_config_generation (one 8-bit read of config_generation) and read_config_space *)
(* (safe-mmio chunks, Model/Config.v). `construct_pci` is a constructor run on PciTransport.         *)
From VD Require Import Base.Words Model.Layout Model.Init Model.InitSpec.
From VD Require Model.Pci Model.Config.

(* ---------- accesses, attributed to a window ---------- *)
Definition WIN_COMMON : N := 0.
Definition WIN_NOTIFY : N := 1.
Definition WIN_ISR : N := 2.
Definition WIN_DEVICE : N := 3.
(* any other number: an access outside the four windows *)

Record pacc := mkP { p_win : N; p_write : bool; p_off : N; p_width : N; p_val : N }.

(* ================================================================================================ *)
(* the specification's decoder                                                                      *)

(* the registers the device keeps per virtqueue (the halves of the three 64-bit addresses) *)
Record qregs := mkQr { qr_size : option N; qr_dlo : option N; qr_dhi : option N; qr_alo : option N;
                       qr_ahi : option N; qr_ulo : option N; qr_uhi : option N }.
Definition qr0 : qregs := mkQr None None None None None None None.

Fixpoint qget (l : list (N * qregs)) (q : N) : qregs :=
  match l with
  | [] => qr0
  | (i, r) :: t => if i =? q then r else qget t q
  end.

Fixpoint noff_get (l : list (N * N)) (q : N) : option N :=
  match l with
  | [] => None
  | (i, n) :: t => if i =? q then Some n else noff_get t q
  end.

Record pst := mkPst {
  ps_dsel : N; ps_dlo : option N; ps_dhi : option N;    (* device_feature_select; halves read so far *)
  ps_fsel : N; ps_flo : option N; ps_fhi : option N;    (* driver_feature_select; halves written so far *)
  ps_qsel : N;                                          (* queue_select *)
  ps_qs : list (N * qregs);                             (* per-queue registers written since the reset *)
  ps_noff : list (N * N) }.                             (* queue_notify_off as read, per queue *)
Definition pst0 : pst := mkPst 0 None None 0 None None 0 [] [].

Definition val64 (lo hi : option N) : N :=
  match lo, hi with
  | Some l, Some h => l + 4294967296 * h
  | Some l, None => l
  | None, Some h => 4294967296 * h
  | None, None => 0
  end.
Definition both (lo hi : option N) : bool := match lo, hi with Some _, Some _ => true | _, _ => false end.
Definition oval (o : option N) : N := match o with Some v => v | None => 0 end.

Definition set_q (s : pst) (f : qregs -> qregs) : pst :=
  mkPst (ps_dsel s) (ps_dlo s) (ps_dhi s) (ps_fsel s) (ps_flo s) (ps_fhi s) (ps_qsel s)
        ((ps_qsel s, f (qget (ps_qs s) (ps_qsel s))) :: ps_qs s) (ps_noff s).

(* one 32-bit half of the 64-bit feature word selected by `sel` (selectors above 1 address no bits) *)
Definition put_half (sel v : N) (lo hi : option N) : option N * option N :=
  if sel =? 0 then (Some v, hi) else if sel =? 1 then (lo, Some v) else (lo, hi).

(* natural-width reads of the common configuration structure that carry no handshake event *)
Definition plain_read (off width : N) : bool :=
  ((off =? 0) && (width =? 4)) || ((off =? 8) && (width =? 4)) || ((off =? 12) && (width =? 4))
  || ((off =? 16) && (width =? 2)) || ((off =? 18) && (width =? 2)) || ((off =? 20) && (width =? 1))
  || ((off =? 21) && (width =? 1)) || ((off =? 22) && (width =? 2)) || ((off =? 24) && (width =? 2))
  || ((off =? 26) && (width =? 2)) || ((off =? 28) && (width =? 2))
  || ((off =? 32) && ((width =? 8) || (width =? 4))) || ((off =? 36) && (width =? 4))
  || ((off =? 40) && ((width =? 8) || (width =? 4))) || ((off =? 44) && (width =? 4))
  || ((off =? 48) && ((width =? 8) || (width =? 4))) || ((off =? 52) && (width =? 4)).

(* one access to the common configuration structure: new decoder state, handshake events, and
   whether the access respects the rules of 4.1.3.1 / 4.1.4.3 *)
Definition common_step (s : pst) (w : bool) (off width v : N) : pst * list tev * bool :=
  if w then
    if (off =? 0) && (width =? 4) then
      (mkPst v (ps_dlo s) (ps_dhi s) (ps_fsel s) (ps_flo s) (ps_fhi s) (ps_qsel s) (ps_qs s) (ps_noff s), [], true)
    else if (off =? 8) && (width =? 4) then
      (mkPst (ps_dsel s) (ps_dlo s) (ps_dhi s) v (ps_flo s) (ps_fhi s) (ps_qsel s) (ps_qs s) (ps_noff s), [], true)
    else if (off =? 12) && (width =? 4) then
      (* driver_feature: the accepted feature word is complete when both halves have been written *)
      let '(lo, hi) := put_half (ps_fsel s) v (ps_flo s) (ps_fhi s) in
      if both lo hi
      then (mkPst (ps_dsel s) (ps_dlo s) (ps_dhi s) (ps_fsel s) None None (ps_qsel s) (ps_qs s) (ps_noff s),
            [TWriteFeatures (val64 lo hi)], true)
      else (mkPst (ps_dsel s) (ps_dlo s) (ps_dhi s) (ps_fsel s) lo hi (ps_qsel s) (ps_qs s) (ps_noff s), [], true)
    else if (off =? 16) && (width =? 2) then (s, [], true)                 (* msix_config *)
    else if (off =? 20) && (width =? 1) then
      (* device_status; writing 0 resets the device: every register returns to its default *)
      (if v =? 0 then mkPst 0 None None 0 None None 0 [] (ps_noff s) else s, [TSetStatus v], true)
    else if (off =? 22) && (width =? 2) then
      (mkPst (ps_dsel s) (ps_dlo s) (ps_dhi s) (ps_fsel s) (ps_flo s) (ps_fhi s) v (ps_qs s) (ps_noff s), [], true)
    else if (off =? 24) && (width =? 2) then
      (set_q s (fun r => mkQr (Some v) (qr_dlo r) (qr_dhi r) (qr_alo r) (qr_ahi r) (qr_ulo r) (qr_uhi r)), [], true)
    else if (off =? 26) && (width =? 2) then (s, [], true)                 (* queue_msix_vector *)
    else if (off =? 28) && (width =? 2) then
      (* queue_enable: 1 registers the queue as configured so far *)
      let r := qget (ps_qs s) (ps_qsel s) in
      if v =? 1 then
        (s, [TQueueSet (ps_qsel s) (oval (qr_size r)) (val64 (qr_dlo r) (qr_dhi r)) (val64 (qr_alo r) (qr_ahi r))
                       (val64 (qr_ulo r) (qr_uhi r))],
         both (qr_dlo r) (qr_dhi r) && both (qr_alo r) (qr_ahi r) && both (qr_ulo r) (qr_uhi r))
      else (s, [], false)
    else if (off =? 32) && (width =? 8) then
      (set_q s (fun r => mkQr (qr_size r) (Some (w32 v)) (Some (N.shiftr v 32)) (qr_alo r) (qr_ahi r) (qr_ulo r) (qr_uhi r)), [], true)
    else if (off =? 32) && (width =? 4) then
      (set_q s (fun r => mkQr (qr_size r) (Some v) (qr_dhi r) (qr_alo r) (qr_ahi r) (qr_ulo r) (qr_uhi r)), [], true)
    else if (off =? 36) && (width =? 4) then
      (set_q s (fun r => mkQr (qr_size r) (qr_dlo r) (Some v) (qr_alo r) (qr_ahi r) (qr_ulo r) (qr_uhi r)), [], true)
    else if (off =? 40) && (width =? 8) then
      (set_q s (fun r => mkQr (qr_size r) (qr_dlo r) (qr_dhi r) (Some (w32 v)) (Some (N.shiftr v 32)) (qr_ulo r) (qr_uhi r)), [], true)
    else if (off =? 40) && (width =? 4) then
      (set_q s (fun r => mkQr (qr_size r) (qr_dlo r) (qr_dhi r) (Some v) (qr_ahi r) (qr_ulo r) (qr_uhi r)), [], true)
    else if (off =? 44) && (width =? 4) then
      (set_q s (fun r => mkQr (qr_size r) (qr_dlo r) (qr_dhi r) (qr_alo r) (Some v) (qr_ulo r) (qr_uhi r)), [], true)
    else if (off =? 48) && (width =? 8) then
      (set_q s (fun r => mkQr (qr_size r) (qr_dlo r) (qr_dhi r) (qr_alo r) (qr_ahi r) (Some (w32 v)) (Some (N.shiftr v 32))), [], true)
    else if (off =? 48) && (width =? 4) then
      (set_q s (fun r => mkQr (qr_size r) (qr_dlo r) (qr_dhi r) (qr_alo r) (qr_ahi r) (Some v) (qr_uhi r)), [], true)
    else if (off =? 52) && (width =? 4) then
      (set_q s (fun r => mkQr (qr_size r) (qr_dlo r) (qr_dhi r) (qr_alo r) (qr_ahi r) (qr_ulo r) (Some v)), [], true)
    (* a read-only field (device_feature, num_queues, config_generation, queue_notify_off), padding,
       or an access that is not the natural width of a field *)
    else (s, [], false)
  else
    if (off =? 4) && (width =? 4) then
      (* device_feature: the offered word has been read when both halves have been *)
      let '(lo, hi) := put_half (ps_dsel s) v (ps_dlo s) (ps_dhi s) in
      if both lo hi
      then (mkPst (ps_dsel s) None None (ps_fsel s) (ps_flo s) (ps_fhi s) (ps_qsel s) (ps_qs s) (ps_noff s),
            [TReadFeatures (val64 lo hi)], true)
      else (mkPst (ps_dsel s) lo hi (ps_fsel s) (ps_flo s) (ps_fhi s) (ps_qsel s) (ps_qs s) (ps_noff s), [], true)
    else if (off =? 30) && (width =? 2) then
      (mkPst (ps_dsel s) (ps_dlo s) (ps_dhi s) (ps_fsel s) (ps_flo s) (ps_fhi s) (ps_qsel s) (ps_qs s)
             ((ps_qsel s, v) :: ps_noff s), [], true)
    else (s, [], plain_read off width).

(* one access anywhere; `mult` = notify_off_multiplier of the notification capability *)
Definition lift1_pci (mult : N) (s : pst) (a : pacc) : pst * list tev * bool :=
  if p_win a =? WIN_COMMON then common_step s (p_write a) (p_off a) (p_width a) (p_val a)
  else if p_win a =? WIN_NOTIFY then
    (* 4.1.5.2: the queue index, 16 bits wide, at the queue's own offset; the window is write-only *)
    if p_write a then
      (s, [TNotify (p_val a)],
       (p_width a =? 2) && match noff_get (ps_noff s) (p_val a) with
                           | Some n => p_off a =? n * mult
                           | None => false
                           end)
    else (s, [], false)
  else if p_win a =? WIN_ISR then (s, [], negb (p_write a) && (p_width a =? 1) && (p_off a =? 0))
  else if p_win a =? WIN_DEVICE then (s, [], true)
  else (s, [], false).

Fixpoint lift_pci (mult : N) (s : pst) (l : list pacc) : list tev :=
  match l with
  | [] => []
  | a :: t => let '(s', ev, _) := lift1_pci mult s a in ev ++ lift_pci mult s' t
  end.

Fixpoint order_ok_pci (mult : N) (s : pst) (l : list pacc) : bool :=
  match l with
  | [] => true
  | a :: t => let '(s', _, ok) := lift1_pci mult s a in ok && order_ok_pci mult s' t
  end.

(* the monitor (kind 854): the decoded sequence is an accepted initialisation, and every access obeys
   the rules of the PCI layout. Together: no write to the notification window before DRIVER_OK,
   queue_enable := 1 only after the three addresses of that queue and before DRIVER_OK. *)
Definition pci_handshake_b (sup offered mult : N) (returned_ok : bool) (l : list pacc) : bool :=
  hs_accept sup offered returned_ok (lift_pci mult pst0 l) && order_ok_pci mult pst0 l.

(* ================================================================================================ *)
(* the model: a constructor on PciTransport                                                         *)

(* what is specific to the PCI function under the transport *)
Record penv := mkPe {
  pe_nlen : N;              (* notify_region.len(): length of the notification capability / 2 *)
  pe_mult : N;              (* notify_off_multiplier *)
  pe_noff : list N;         (* queue_notify_off of queue 0, 1, ... as the device answers (further queues: 0) *)
  pe_cfg_present : bool;    (* a device-specific configuration capability exists (config_space is Some) *)
  pe_cfg_va : N }.          (* the virtual address of that window (safe-mmio splits by pointer alignment) *)

Fixpoint noff_of (l : list N) (q : N) : N :=
  match l with
  | [] => 0
  | x :: t => if q =? 0 then x else noff_of t (q - 1)
  end.

(* the canonical transport: the four windows 2^48 apart, so that an address names window and offset *)
Definition WB : N := 281474976710656.
Definition canon_t (pe : penv) : Pci.ptrans :=
  Pci.mkT 0 (WIN_COMMON * WB) (WIN_NOTIFY * WB) (pe_nlen pe) (pe_mult pe) (WIN_ISR * WB) (Some (WIN_DEVICE * WB, 0)).
Definition rel (a : Pci.macc) : pacc :=
  mkP (Pci.m_addr a / WB) (Pci.m_write a) (Pci.m_addr a mod WB) (Pci.m_width a) (Pci.m_val a).

Inductive pracc := PAcc (a : pacc) | PKeep (e : tev).

Definition pacc_of (m : mode) (pe : penv) (o : Pci.op) (ans : list N) : list pracc :=
  map (fun a => PAcc (rel a)) (snd (Pci.exec m (canon_t pe) o ans)).

(* PciTransport::read_config_space::<T>(off) inside the window: MmioOps::read of size_of::<T>() bytes at
   config_space.ptr() + off (Model/Config.v `chunks`) *)
Definition cfg_accesses_pci (pe : penv) (cfg : list N) (off len : N) : list pacc :=
  map (fun c => mkP WIN_DEVICE false (fst c) (snd c) (cfg_val cfg (fst c) (snd c)))
      (Config.chunks (pe_cfg_va pe + off) off len).

(* one Transport call as the accesses PciTransport performs for it; `true` when the call panics
   (`self.notify_region.get(index).unwrap()`) *)
Definition lower1_pci (m : mode) (pe : penv) (cfg : list N) (e : tev) : bool * list pracc :=
  match e with
  | TSetStatus s => (false, pacc_of m pe (Pci.OSetStatus s) [])
  | TReadFeatures a => (false, pacc_of m pe Pci.OReadDeviceFeatures [w32 a; N.shiftr a 32])
  | TWriteFeatures f => (false, pacc_of m pe (Pci.OWriteDriverFeatures f) [])
  | TGuestPageSize p => (false, pacc_of m pe (Pci.OSetGuestPageSize p) [])
  | TQueueUsed q a => (false, pacc_of m pe (Pci.OQueueUsed q) [b2n a])
  | TMaxQueueSize q a => (false, pacc_of m pe (Pci.OMaxQueueSize q) [a])
  | TQueueSet q n d a u => (false, pacc_of m pe (Pci.OQueueSet q n d a u) [])
  (* read_config_generation: field_shared!(self.common_cfg, config_generation).read().into() *)
  | TReadGen a => (false, [PAcc (mkP WIN_COMMON false (Config.gen_off Config.TPci) (Config.gen_width Config.TPci) (w8 a))])
  | TReadConfig off len ok => (false, if ok then map PAcc (cfg_accesses_pci pe cfg off len) else [])
  | TWriteConfig _ _ => (false, [])
  | TNotify q =>
      match Pci.exec m (canon_t pe) (Pci.ONotify q) [noff_of (pe_noff pe) q] with
      | (Ok _, tr) => (false, map (fun a => PAcc (rel a)) tr)
      | (_, tr) => (true, map (fun a => PAcc (rel a)) tr)
      end
  | TQueueNew _ _ _ _ | TAlloc _ _ _ _ | TShare _ _ _ => (false, [PKeep e])
  end.

Fixpoint lower_pci (m : mode) (pe : penv) (cfg : list N) (tr : list tev) : bool * list pracc :=
  match tr with
  | [] => (false, [])
  | e :: t =>
      let '(p, l) := lower1_pci m pe cfg e in
      if p then (true, l)
      else let '(p', l') := lower_pci m pe cfg t in (p', l ++ l')
  end.

Definition paccs_of (l : list pracc) : list pacc :=
  concat (map (fun r => match r with PAcc a => [a] | PKeep _ => [] end) l).

(* What the driver sees of the device through PciTransport:
   config_space is a [u32] slice of (capability length / 4) words - read_config_space compares against
   config_space.len() * 4 - or absent; config_generation is 8 bits wide, queue_size 16 bits. *)
Definition pci_cfg_view (pe : penv) (cfg : list N) : list N :=
  if pe_cfg_present pe then firstn (N.to_nat (4 * (lenN cfg / 4))) cfg else [].
Definition qa16 (a : qans) : qans :=
  mkQa (qa_used a) (w16 (qa_max a)) (qa_a1 a) (qa_a2 a) (qa_uflags a) (qa_aevent a).
Definition pci_env (pe : penv) (e : env) : env :=
  mkEnv (e_mode e) TKPci false (e_offered e) (pci_cfg_view pe (e_cfg e)) (map w8 (e_gens e))
        (map qa16 (e_qans e)) (e_p1 e) (e_p2 e) (e_utf8 e).

(* without the capability every read_config_space / write_config_space answers ConfigSpaceMissing where a
   window of length 0 would answer ConfigSpaceTooSmall *)
Definition remap_missing (pe : penv) (o : outcome N) : outcome N :=
  match o with
  | Err c => if negb (pe_cfg_present pe) && (c =? EConfigSpaceTooSmall) then Err EConfigSpaceMissing else o
  | _ => o
  end.

(* a constructor run on the real PciTransport *)
Definition construct_pci (d : driver) (pe : penv) (e : env) : outcome N * list pracc :=
  let e' := pci_env pe e in
  let '(o, tr) := construct d e' in
  let '(p, l) := lower_pci (e_mode e) pe (e_cfg e') tr in
  (if p then Panic else remap_missing pe o, l).

(* the transport-level events the decoder can recover from the accesses *)
Definition core_ev (e : tev) : bool :=
  match e with
  | TSetStatus _ | TReadFeatures _ | TWriteFeatures _ | TQueueSet _ _ _ _ _ | TNotify _ => true
  | _ => false
  end.
Definition core (tr : list tev) : list tev := filter core_ev tr.
