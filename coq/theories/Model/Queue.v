(* The split virtqueue of src/queue.rs as an executable state machine.                 *)
(* Transcribed operation by operation: new, add (add_direct / add_indirect),           *)
(* recycle_descriptors (both branches), pop_used, peek_used, can_pop, available_desc,  *)
(* should_notify, set_dev_notify.  Effects are returned as ordered event lists.        *)
(* Device-written memory (used ring) and platform answers (share addresses) are        *)
(* arguments of each step, never assumptions.                                          *)
From VD Require Import Base.Words.

Record desc := mkDesc { d_addr : N; d_len : N; d_flags : N; d_next : N }.
Definition F_NEXT : N := 1.
Definition F_WRITE : N := 2.
Definition F_INDIRECT : N := 4.
Definition zero_desc : desc := mkDesc 0 0 0 0.
Definition has_flag (f bit : N) : bool := negb (N.land f bit =? 0).

(* a caller buffer: identity (virtual range, named by the harness), length, and the device
   address Hal::share answered for it *)
Record ubuf := mkBuf { b_id : N; b_len : N; b_addr : N }.

Inductive qev :=
| QShare (id len : N) (write : bool) (addr : N)
| QShareTable (head n addr : N)
| QUnshare (addr id len : N) (write : bool)
| QUnshareTable (addr head n : N)
| QStoreDesc (i : N) (d : desc)
| QStoreRing (slot head : N)
| QFence
| QStoreIdx (v : N)
| QStoreFlags (v : N)
| QStoreUsedEvent (v : N).

Record qstate := mkQ {
  q_size : N;
  q_indirect : bool;
  q_event_idx : bool;
  (* private driver state *)
  q_num_used : N;
  q_free_head : N;
  q_avail_idx : N;
  q_last_used : N;
  q_shadow : list desc;
  q_ind : list (option (list desc));   (* indirect_lists: the leaked table per head *)
  (* device-visible, driver-written memory *)
  q_dtable : list desc;
  q_aflags : N;
  q_aidx : N;
  q_uevent : N;
  q_aring : list N }.

(* ---------- new ---------- *)
Fixpoint init_table (i : N) (k : nat) : list desc :=
  match k with
  | O => []
  | S O => [mkDesc 0 0 0 0]
  | S k' => mkDesc 0 0 0 (i + 1) :: init_table (i + 1) k'
  end.

Definition qnew (size : N) (indirect event_idx : bool) : qstate :=
  let t := init_table 0 (N.to_nat size) in
  mkQ size indirect event_idx 0 0 0 0 t (repeat None (N.to_nat size))
      t 0 0 0 (repeat 0 (N.to_nat size)).

(* the verif_set_indices hook: start the free-running indices elsewhere *)
Definition qset_indices (s : qstate) (v : N) : qstate :=
  mkQ (q_size s) (q_indirect s) (q_event_idx s) (q_num_used s) (q_free_head s) v v
      (q_shadow s) (q_ind s) (q_dtable s) (q_aflags s) v v (q_aring s).

(* ---------- add ---------- *)
Definition wflag (w : bool) : N := if w then F_WRITE else 0.

(* the loop of add_direct: returns shadow, dtable, free_head, last, events *)
Fixpoint add_direct_loop (bufs : list (ubuf * bool)) (sh dt : list desc) (fh last : N)
  : outcome (list desc * list desc * N * N) * list qev :=
  match bufs with
  | [] => (Ok (sh, dt, fh, last), [])
  | (b, w) :: rest =>
      if b_len b =? 0 then (Panic, [])
      else match nthN_error sh fh with
           | None => (Panic, [])
           | Some d =>
               if two32 <=? b_len b then (Panic, [QShare (b_id b) (b_len b) w (b_addr b)])
               else
               let d' := mkDesc (b_addr b) (b_len b) (F_NEXT + wflag w) (d_next d) in
               let '(o, evs) := add_direct_loop rest (updN sh fh d') (updN dt fh d') (d_next d) fh in
               (o, QShare (b_id b) (b_len b) w (b_addr b) :: QStoreDesc fh d' :: evs)
           end
  end.

Definition clear_next (d : desc) : desc :=
  mkDesc (d_addr d) (d_len d) (N.ldiff (d_flags d) F_NEXT) (d_next d).

Definition tag_bufs (ins outs : list ubuf) : list (ubuf * bool) :=
  map (fun b => (b, false)) ins ++ map (fun b => (b, true)) outs.

Definition set_core (s : qstate) (nu fh : N) (sh : list desc) (ind : list (option (list desc)))
  (dt : list desc) : qstate :=
  mkQ (q_size s) (q_indirect s) (q_event_idx s) nu fh (q_avail_idx s) (q_last_used s)
      sh ind dt (q_aflags s) (q_aidx s) (q_uevent s) (q_aring s).

Definition add_direct (s : qstate) (bufs : list (ubuf * bool)) : outcome N * qstate * list qev :=
  let head := q_free_head s in
  match add_direct_loop bufs (q_shadow s) (q_dtable s) (q_free_head s) (q_free_head s) with
  | (Ok (sh, dt, fh, last), evs) =>
      match nthN_error sh last with
      | None => (Panic, s, evs)
      | Some dl =>
          let dl' := clear_next dl in
          (Ok head,
           set_core s (q_num_used s + lenN bufs) fh (updN sh last dl') (q_ind s) (updN dt last dl'),
           evs ++ [QStoreDesc last dl'])
      end
  | (Err e, evs) => (Err e, s, evs)
  | (Panic, evs) => (Panic, s, evs)
  | (UB, evs) => (UB, s, evs)
  end.

(* the indirect table built by add_indirect *)
Fixpoint ind_table (bufs : list (ubuf * bool)) (i : N) : list desc :=
  match bufs with
  | [] => []
  | [(b, w)] => [mkDesc (b_addr b) (b_len b) (wflag w) (i + 1)]
  | (b, w) :: rest => mkDesc (b_addr b) (b_len b) (F_NEXT + wflag w) (i + 1) :: ind_table rest (i + 1)
  end.

Definition share_evs (bufs : list (ubuf * bool)) : list qev :=
  map (fun bw => QShare (b_id (fst bw)) (b_len (fst bw)) (snd bw) (b_addr (fst bw))) bufs.

(* taddr: what Hal::share answers for the table *)
Definition add_indirect (s : qstate) (bufs : list (ubuf * bool)) (taddr : N)
  : outcome N * qstate * list qev :=
  let head := q_free_head s in
  if existsb (fun bw => two32 <=? b_len (fst bw)) bufs then (Panic, s, []) else
  let tbl := ind_table bufs 0 in
  match nthN_error (q_ind s) head, nthN_error (q_shadow s) head with
  | Some None, Some d =>
      let n := lenN bufs in
      let d' := mkDesc taddr (16 * n) F_INDIRECT (d_next d) in
      (Ok head,
       set_core s (q_num_used s + 1) (d_next d) (updN (q_shadow s) head d')
                (updN (q_ind s) head (Some tbl)) (updN (q_dtable s) head d'),
       share_evs bufs ++ [QShareTable head n taddr; QStoreDesc head d'])
  | _, _ => (Panic, s, share_evs bufs)
  end.

Definition set_avail (s : qstate) (ai : N) (ring : list N) : qstate :=
  mkQ (q_size s) (q_indirect s) (q_event_idx s) (q_num_used s) (q_free_head s) ai (q_last_used s)
      (q_shadow s) (q_ind s) (q_dtable s) (q_aflags s) ai (q_uevent s) ring.

Definition capacity_ok (s : qstate) (n : N) : bool :=
  negb ((q_size s <? q_num_used s + 1) || (q_size s <? n)
        || (negb (q_indirect s) && (q_size s <? q_num_used s + n))).

Definition add (s : qstate) (ins outs : list ubuf) (taddr : N) : outcome N * qstate * list qev :=
  let bufs := tag_bufs ins outs in
  let n := lenN bufs in
  if n =? 0 then (Err EInvalidParam, s, [])
  else if negb (capacity_ok s n) then (Err EQueueFull, s, [])
  else
    let '(o, s1, evs) :=
      if q_indirect s && (1 <? n) then add_indirect s bufs taddr else add_direct s bufs in
    match o with
    | Ok head =>
        let slot := N.land (q_avail_idx s1) (q_size s1 - 1) in
        let ai := w16 (q_avail_idx s1 + 1) in
        (Ok head, set_avail s1 ai (updN (q_aring s1) slot head),
         evs ++ [QStoreRing slot head; QFence; QStoreIdx ai])
    | _ => (o, s1, evs)
    end.

(* `add` when the platform's heap cannot provide the indirect table: add_indirect starts with
   `<[Descriptor]>::new_box_zeroed_with_elems(n).unwrap()`, before any share, store or change of private state, so a failed
   allocation is a panic out of a queue that is exactly as it was.  `alloc_ok` is the allocator's answer (environment);
   the allocation is only attempted on the indirect path (indirect queue, more than one buffer, capacity test passed). *)
Definition add_wants_table (s : qstate) (ins outs : list ubuf) : bool :=
  let n := lenN (tag_bufs ins outs) in
  negb (n =? 0) && capacity_ok s n && q_indirect s && (1 <? n).
Definition add_af (s : qstate) (ins outs : list ubuf) (taddr : N) (alloc_ok : bool) : outcome N * qstate * list qev :=
  if negb alloc_ok && add_wants_table s ins outs then (Panic, s, []) else add s ins outs taddr.

(* ---------- recycle / pop ---------- *)
Definition unset_buf (d : desc) : desc := mkDesc 0 0 (d_flags d) (d_next d).
Definition set_next (d : desc) (n : N) : desc := mkDesc (d_addr d) (d_len d) (d_flags d) n.

(* direct branch: walk the shadow chain, one caller buffer per descriptor *)
Fixpoint recycle_loop (bufs : list (ubuf * bool)) (sh dt : list desc) (next : option N)
  (orig_fh nu : N) : outcome (list desc * list desc * N) * list qev :=
  match bufs with
  | [] => match next with
          | Some _ => (Panic, [])        (* "Descriptor chain was longer than expected." *)
          | None => (Ok (sh, dt, nu), [])
          end
  | (b, w) :: rest =>
      if b_len b =? 0 then (Panic, [])
      else match next with
           | None => (Panic, [])         (* "Descriptor chain was shorter than expected." *)
           | Some i =>
               match nthN_error sh i with
               | None => (Panic, [])
               | Some d =>
                   if nu =? 0 then (Panic, []) else
                   let d1 := unset_buf d in
                   let nx := if has_flag (d_flags d) F_NEXT then Some (d_next d) else None in
                   let d2 := match nx with None => set_next d1 orig_fh | Some _ => d1 end in
                   let '(o, evs) := recycle_loop rest (updN sh i d2) (updN dt i d2) nx orig_fh (nu - 1) in
                   (o, QStoreDesc i d2 :: QUnshare (d_addr d) (b_id b) (b_len b) w :: evs)
               end
           end
  end.

Fixpoint unshare_ind (bufs : list (ubuf * bool)) (tbl : list desc) : outcome unit * list qev :=
  match bufs with
  | [] => (Ok tt, [])
  | (b, w) :: rest =>
      if b_len b =? 0 then (Panic, [])
      else match tbl with
           | [] => (Panic, [])
           | d :: tbl' =>
               let '(o, evs) := unshare_ind rest tbl' in
               (o, QUnshare (d_addr d) (b_id b) (b_len b) w :: evs)
           end
  end.

Definition recycle (s : qstate) (head : N) (bufs : list (ubuf * bool))
  : outcome unit * qstate * list qev :=
  let orig := q_free_head s in
  match nthN_error (q_shadow s) head with
  | None => (Panic, s, [])
  | Some hd =>
      if has_flag (d_flags hd) F_INDIRECT then
        match nthN_error (q_ind s) head with
        | Some (Some tbl) =>
            if q_num_used s =? 0 then (Panic, s, []) else
            let d' := set_next (unset_buf hd) orig in
            let s1 := set_core s (q_num_used s - 1) head (updN (q_shadow s) head d')
                               (updN (q_ind s) head None) (q_dtable s) in
            let e0 := QUnshareTable (d_addr hd) head (lenN tbl) in
            if negb (lenN tbl =? lenN bufs) then (Panic, s1, [e0])
            else let '(o, evs) := unshare_ind bufs tbl in (o, s1, e0 :: evs)
        | _ => (Panic, s, [])
        end
      else
        match recycle_loop bufs (q_shadow s) (q_dtable s) (Some head) orig (q_num_used s) with
        | (Ok (sh, dt, nu), evs) => (Ok tt, set_core s nu head sh (q_ind s) dt, evs)
        | (Err e, evs) => (Err e, s, evs)
        | (Panic, evs) => (Panic, s, evs)
        | (UB, evs) => (UB, s, evs)
        end
  end.

Definition set_last_used (s : qstate) (lu ue : N) : qstate :=
  mkQ (q_size s) (q_indirect s) (q_event_idx s) (q_num_used s) (q_free_head s) (q_avail_idx s) lu
      (q_shadow s) (q_ind s) (q_dtable s) (q_aflags s) (q_aidx s) ue (q_aring s).

(* u_idx: the used index the device exposes; (u_id, u_len): the used element in slot
   last_used_idx mod size -- all device-written, hence arbitrary *)
Definition can_pop (s : qstate) (u_idx : N) : bool := negb (q_last_used s =? w16 u_idx).

Definition peek_used (s : qstate) (u_idx u_id : N) : option N :=
  if can_pop s u_idx then Some (w16 u_id) else None.

Definition pop_used (s : qstate) (token : N) (ins outs : list ubuf) (u_idx u_id u_len : N)
  : outcome N * qstate * list qev :=
  if negb (can_pop s u_idx) then (Err ENotReady, s, [])
  else
    let index := w16 u_id in
    if negb (index =? token) then (Err EWrongToken, s, [])
    else
      let '(o, s1, evs) := recycle s index (tag_bufs ins outs) in
      match o with
      | Ok _ =>
          let lu := w16 (q_last_used s1 + 1) in
          if q_event_idx s1 then (Ok (w32 u_len), set_last_used s1 lu lu, evs ++ [QStoreUsedEvent lu])
          else (Ok (w32 u_len), set_last_used s1 lu (q_uevent s1), evs)
      | Err e => (Err e, s1, evs)
      | Panic => (Panic, s1, evs)
      | UB => (UB, s1, evs)
      end.

Definition available_desc (s : qstate) : N :=
  if q_indirect s then (if q_num_used s =? q_size s then 0 else q_size s)
  else q_size s - q_num_used s.

(* VirtIO 1.2, 2.7.10 vring_need_event(event_idx, new_idx, old_idx) on 16-bit words *)
Definition need_event (ev new old : N) : bool :=
  sub16 (sub16 new ev) 1 <? sub16 new old.

(* should_notify as written in /repo (see Proofs/NotifyProofs.v for what it must imply).
   u_avail_event, u_flags: device-written *)
Definition should_notify (s : qstate) (u_avail_event u_flags : N) : bool :=
  if q_event_idx s then
    (* avail_idx.wrapping_sub(avail_event.wrapping_add(1)) < 0x8000 *)
    sub16 (q_avail_idx s) (add16 (w16 u_avail_event) 1) <? 32768
  else N.land u_flags 1 =? 0.


(* the comparison as it stood before the repair (fix: commit in /repo), kept for the refutation
   theorem C05_plain_comparison_refuted *)
Definition should_notify_plain (avail_idx u_avail_event : N) : bool :=
  add16 (w16 u_avail_event) 1 <=? avail_idx.

Definition set_dev_notify (s : qstate) (enable : bool) : qstate * list qev :=
  let v := if enable then 0 else 1 in
  if q_event_idx s then (s, [])
  else (mkQ (q_size s) (q_indirect s) (q_event_idx s) (q_num_used s) (q_free_head s) (q_avail_idx s)
            (q_last_used s) (q_shadow s) (q_ind s) (q_dtable s) v (q_aidx s) (q_uevent s) (q_aring s),
        [QStoreFlags v]).

(* ---------- what a device sees: walking a chain from a ring entry ---------- *)
(* element = (addr, len, writable) *)
Fixpoint walk_table (tbl : list desc) (i : N) (fuel : nat) : option (list (N * N * bool)) :=
  match fuel with
  | O => None
  | S f =>
      match nthN_error tbl i with
      | None => None
      | Some d =>
          if has_flag (d_flags d) F_INDIRECT then None
          else
            let e := (d_addr d, d_len d, has_flag (d_flags d) F_WRITE) in
            if has_flag (d_flags d) F_NEXT then
              match walk_table tbl (d_next d) f with
              | Some l => Some (e :: l)
              | None => None
              end
            else Some [e]
      end
  end.

(* mem: what is readable at a device address as an indirect table (the shared bounce copy) *)
Definition walk (dt : list desc) (mem : N -> option (list desc)) (head : N) (size : nat)
  : option (list (N * N * bool)) :=
  match nthN_error dt head with
  | None => None
  | Some d =>
      if has_flag (d_flags d) F_INDIRECT then
        if has_flag (d_flags d) F_NEXT || has_flag (d_flags d) F_WRITE then None
        else match mem (d_addr d) with
             | Some tbl =>
                 if (d_len d =? 16 * lenN tbl) && negb (lenN tbl =? 0)
                 then walk_table tbl 0 (length tbl) else None
             | None => None
             end
      else walk_table dt head size
  end.

Fixpoint readable_first (l : list (N * N * bool)) : bool :=
  match l with
  | [] => true
  | (_, _, false) :: t => readable_first t
  | (_, _, true) :: t => forallb (fun e => snd e) t
  end.
