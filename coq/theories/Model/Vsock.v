(* C17: vsock credit-based flow control and the per-connection receive buffer.                    *)
(* Transcribed from src/device/socket/vsock.rs (ConnectionInfo, new_header, send,                *)
(* check_peer_buffer_is_sufficient, request_credit, credit_update, read_header_and_body,          *)
(* VsockEvent::from_header), src/device/socket/protocol.rs (VirtioVsockHdr, op codes) and         *)
(* src/device/socket/connectionmanager.rs (RingBuffer; the part of poll / recv / update_credit    *)
(* that concerns ONE established connection: credit bookkeeping and byte delivery).               *)
(*                                                                                                *)
(* The definitions without suffix are the code AFTER the two repairs                              *)
(* corpus/findings/C17_F7_counter_wrap_fix.diff (wrapping_add / wrapping_sub for the free-running *)
(* counters) and corpus/findings/C17_F9_credit_underflow_fix.diff (saturating_sub in peer_free).  *)
(* The behaviour of the unrepaired code (plain `-`, `+=`: panic in the debug profile, wrap in     *)
(* release) is kept as the `_prefix` definitions; Proofs/VsockProofs.v refutes the property of     *)
(* those.                                                                                         *)
(*                                                                                                *)
(* NOT modelled here: the connection table and the protocol state machine (C18), the transmit     *)
(* virtqueue itself (a packet is the event `Pkt header payload_length`; that the chain            *)
(* [header, payload] reaches the device intact is C01-C05), the rx OwningQueue (C19).             *)
From VD Require Import Base.Words.

(* ------------------------------------------------------------------------------------------ *)
(* protocol.rs: the packet header                                                              *)
Record hdr := mkHdr {
  h_src_cid : N; h_dst_cid : N; h_src_port : N; h_dst_port : N; h_len : N;
  h_type : N; h_op : N; h_flags : N; h_buf_alloc : N; h_fwd_cnt : N }.

Definition OP_INVALID : N := 0.
Definition OP_REQUEST : N := 1.
Definition OP_RESPONSE : N := 2.
Definition OP_RST : N := 3.
Definition OP_SHUTDOWN : N := 4.
Definition OP_RW : N := 5.
Definition OP_CREDIT_UPDATE : N := 6.
Definition OP_CREDIT_REQUEST : N := 7.
Definition TYPE_STREAM : N := 1.
Definition HDR_SIZE : N := 44.

(* little-endian bytes of x, n of them (zerocopy U16/U32/U64<LittleEndian>) *)
Fixpoint to_le (n : nat) (x : N) : list N :=
  match n with O => [] | S k => (x mod 256) :: to_le k (x / 256) end.
Fixpoint from_le (l : list N) : N :=
  match l with [] => 0 | b :: t => b + 256 * from_le t end.

(* #[repr(C, packed)] VirtioVsockHdr::as_bytes *)
Definition enc_hdr (h : hdr) : list N :=
  to_le 8 (h_src_cid h) ++ to_le 8 (h_dst_cid h) ++ to_le 4 (h_src_port h) ++ to_le 4 (h_dst_port h)
  ++ to_le 4 (h_len h) ++ to_le 2 (h_type h) ++ to_le 2 (h_op h) ++ to_le 4 (h_flags h)
  ++ to_le 4 (h_buf_alloc h) ++ to_le 4 (h_fwd_cnt h).

(* VirtioVsockHdr::read_from_prefix, field after field as the struct declares them *)
Definition take (n : nat) (l : list N) : list N * list N := (firstn n l, skipn n l).
Definition dec_hdr (b : list N) : hdr :=
  let '(f1, r) := take 8 b in let '(f2, r) := take 8 r in let '(f3, r) := take 4 r in
  let '(f4, r) := take 4 r in let '(f5, r) := take 4 r in let '(f6, r) := take 2 r in
  let '(f7, r) := take 2 r in let '(f8, r) := take 4 r in let '(f9, r) := take 4 r in
  let '(f10, _) := take 4 r in
  mkHdr (from_le f1) (from_le f2) (from_le f3) (from_le f4) (from_le f5) (from_le f6) (from_le f7)
        (from_le f8) (from_le f9) (from_le f10).

(* SocketError as Err codes: 1100 + position of the variant in the enum *)
Definition SE_NotConnected : N := 1101.
Definition SE_BufferTooShort : N := 1103.
Definition SE_OutputBufferTooShort : N := 1104.
Definition SE_UnknownOperation : N := 1106.
Definition SE_InvalidOperation : N := 1107.
Definition SE_InvalidNumber : N := 1108.
Definition SE_UnexpectedDataInPacket : N := 1109.
Definition SE_InsufficientBufferSpaceInPeer : N := 1110.

(* vsock.rs read_header_and_body (usize = u64) *)
Definition read_header_and_body (buffer : list N) : outcome (hdr * list N) :=
  if lenN buffer <? HDR_SIZE then Err SE_BufferTooShort
  else
    let h := dec_hdr buffer in
    let body_length := h_len h in
    let data_end := HDR_SIZE + body_length in
    if two64 <=? data_end then Err SE_InvalidNumber                 (* checked_add *)
    else if lenN buffer <? data_end then Err SE_BufferTooShort       (* buffer.get(44..data_end) *)
    else Ok (h, firstn (N.to_nat body_length) (skipn 44 buffer)).

(* ------------------------------------------------------------------------------------------ *)
(* vsock.rs: events                                                                           *)
Inductive evtype :=
| TConnectionRequest | TConnected | TDisconnected (reset : bool) | TReceived (len : N)
| TCreditRequest | TCreditUpdate.

Record event := mkEvent {
  e_src_cid : N; e_src_port : N; e_dst_cid : N; e_dst_port : N;
  e_buf_alloc : N; e_fwd_cnt : N; e_type : evtype }.

(* VsockEvent::from_header *)
Definition from_header (h : hdr) : outcome event :=
  let op := h_op h in
  let mk t := mkEvent (h_src_cid h) (h_src_port h) (h_dst_cid h) (h_dst_port h) (h_buf_alloc h) (h_fwd_cnt h) t in
  let empty (t : evtype) : outcome event :=
    if h_len h =? 0 then Ok (mk t) else Err SE_UnexpectedDataInPacket in
  if 7 <? op then Err SE_UnknownOperation
  else if op =? OP_REQUEST then empty TConnectionRequest
  else if op =? OP_RESPONSE then empty TConnected
  else if op =? OP_CREDIT_UPDATE then empty TCreditUpdate
  else if op =? OP_RST then empty (TDisconnected true)
  else if op =? OP_SHUTDOWN then empty (TDisconnected false)
  else if op =? OP_RW then Ok (mk (TReceived (h_len h)))
  else if op =? OP_CREDIT_REQUEST then empty TCreditRequest
  else Err SE_InvalidOperation.

(* ------------------------------------------------------------------------------------------ *)
(* vsock.rs: ConnectionInfo                                                                    *)
Record conn := mkConn {
  c_dst_cid : N; c_dst_port : N; c_src_port : N;
  c_peer_buf_alloc : N; c_peer_fwd_cnt : N; c_tx_cnt : N;
  c_buf_alloc : N; c_fwd_cnt : N;
  c_pending : bool }.

Definition conn_new (dst_cid dst_port src_port : N) : conn :=
  mkConn dst_cid dst_port src_port 0 0 0 0 0 false.

Definition set_peer (c : conn) (ba fc : N) (p : bool) : conn :=
  mkConn (c_dst_cid c) (c_dst_port c) (c_src_port c) ba fc (c_tx_cnt c) (c_buf_alloc c) (c_fwd_cnt c) p.
Definition set_tx_cnt (c : conn) (v : N) : conn :=
  mkConn (c_dst_cid c) (c_dst_port c) (c_src_port c) (c_peer_buf_alloc c) (c_peer_fwd_cnt c) v
         (c_buf_alloc c) (c_fwd_cnt c) (c_pending c).
Definition set_fwd_cnt (c : conn) (v : N) : conn :=
  mkConn (c_dst_cid c) (c_dst_port c) (c_src_port c) (c_peer_buf_alloc c) (c_peer_fwd_cnt c) (c_tx_cnt c)
         (c_buf_alloc c) v (c_pending c).
Definition set_pending (c : conn) (p : bool) : conn :=
  mkConn (c_dst_cid c) (c_dst_port c) (c_src_port c) (c_peer_buf_alloc c) (c_peer_fwd_cnt c) (c_tx_cnt c)
         (c_buf_alloc c) (c_fwd_cnt c) p.
Definition set_buf_alloc (c : conn) (v : N) : conn :=
  mkConn (c_dst_cid c) (c_dst_port c) (c_src_port c) (c_peer_buf_alloc c) (c_peer_fwd_cnt c) (c_tx_cnt c)
         v (c_fwd_cnt c) (c_pending c).

(* update_for_event *)
Definition update_for_event (c : conn) (e : event) : conn :=
  set_peer c (e_buf_alloc e) (e_fwd_cnt e)
           (match e_type e with TCreditUpdate => false | _ => c_pending c end).

(* VsockEvent::matches_connection *)
Definition matches_connection (e : event) (c : conn) (guest_cid : N) : bool :=
  (e_src_cid e =? c_dst_cid c) && (e_src_port e =? c_dst_port c)
  && (e_dst_cid e =? guest_cid) && (e_dst_port e =? c_src_port c).

(* u32 plain `a - b` and `a + b`: overflow panics in the debug profile and wraps in release *)
Definition psub32 (m : mode) (a b : N) : outcome N :=
  if b <=? a then Ok (a - b) else match m with Debug => Panic | Release => Ok (sub32 a b) end.
Definition padd32 (m : mode) (a b : N) : outcome N :=
  if a + b <? two32 then Ok (a + b) else match m with Debug => Panic | Release => Ok (add32 a b) end.

(* done_forwarding, repaired: self.fwd_cnt = self.fwd_cnt.wrapping_add(length as u32) *)
Definition done_forwarding (c : conn) (length : N) : conn :=
  set_fwd_cnt c (add32 (c_fwd_cnt c) (w32 length)).
(* as found: self.fwd_cnt += length as u32 *)
Definition done_forwarding_prefix (m : mode) (c : conn) (length : N) : outcome conn :=
  match padd32 m (c_fwd_cnt c) (w32 length) with
  | Ok v => Ok (set_fwd_cnt c v) | Err e => Err e | Panic => Panic | UB => UB end.

(* peer_free, repaired:
   self.peer_buf_alloc.saturating_sub(self.tx_cnt.wrapping_sub(self.peer_fwd_cnt)) *)
Definition peer_free (c : conn) : N :=
  c_peer_buf_alloc c - sub32 (c_tx_cnt c) (c_peer_fwd_cnt c).
(* as found: self.peer_buf_alloc - (self.tx_cnt - self.peer_fwd_cnt) *)
Definition peer_free_prefix (m : mode) (c : conn) : outcome N :=
  match psub32 m (c_tx_cnt c) (c_peer_fwd_cnt c) with
  | Ok d => psub32 m (c_peer_buf_alloc c) d
  | o => o
  end.

(* new_header *)
Definition new_header (c : conn) (src_cid : N) : hdr :=
  mkHdr src_cid (c_dst_cid c) (c_src_port c) (c_dst_port c) 0 TYPE_STREAM 0 0 (c_buf_alloc c) (c_fwd_cnt c).
Definition with_op (h : hdr) (op : N) : hdr :=
  mkHdr (h_src_cid h) (h_dst_cid h) (h_src_port h) (h_dst_port h) (h_len h) (h_type h) op (h_flags h)
        (h_buf_alloc h) (h_fwd_cnt h).
Definition with_op_len (h : hdr) (op len : N) : hdr :=
  mkHdr (h_src_cid h) (h_dst_cid h) (h_src_port h) (h_dst_port h) len (h_type h) op (h_flags h)
        (h_buf_alloc h) (h_fwd_cnt h).

(* one packet handed to the transmit queue: the header and the number of payload bytes that follow
   it (the payload is the caller's buffer itself) *)
Inductive pkt := Pkt (h : hdr) (payload_len : N).

(* check_peer_buffer_is_sufficient given the value of peer_free *)
Definition check_with (c : conn) (src_cid buffer_len free : N) : outcome unit * conn * list pkt :=
  if buffer_len <=? free then (Ok tt, c, [])
  else if c_pending c then (Err SE_InsufficientBufferSpaceInPeer, c, [])
  else (Err SE_InsufficientBufferSpaceInPeer, set_pending c true,
        [Pkt (with_op (new_header c src_cid) OP_CREDIT_REQUEST) 0]).

(* VirtIOSocket::send, repaired: connection_info.tx_cnt = connection_info.tx_cnt.wrapping_add(len) *)
Definition send (c : conn) (src_cid buffer_len : N) : outcome unit * conn * list pkt :=
  let '(o, c1, reqs) := check_with c src_cid buffer_len (peer_free c) in
  match o with
  | Ok _ =>
      let len := w32 buffer_len in
      let h := with_op_len (new_header c1 src_cid) OP_RW len in
      (Ok tt, set_tx_cnt c1 (add32 (c_tx_cnt c1) len), [Pkt h buffer_len])
  | _ => (o, c1, reqs)
  end.

(* as found: peer_free with plain subtractions, connection_info.tx_cnt += len. A panic unwinds
   before anything is stored or sent. *)
Definition send_prefix (m : mode) (c : conn) (src_cid buffer_len : N) : outcome unit * conn * list pkt :=
  match peer_free_prefix m c with
  | Ok free =>
      let '(o, c1, reqs) := check_with c src_cid buffer_len free in
      match o with
      | Ok _ =>
          let len := w32 buffer_len in
          let h := with_op_len (new_header c1 src_cid) OP_RW len in
          match padd32 m (c_tx_cnt c1) len with
          | Ok v => (Ok tt, set_tx_cnt c1 v, [Pkt h buffer_len])
          | _ => (Panic, c, [])
          end
      | _ => (o, c1, reqs)
      end
  | _ => (Panic, c, [])
  end.

(* VirtIOSocket::credit_update *)
Definition credit_update (c : conn) (src_cid : N) : list pkt :=
  [Pkt (with_op (new_header c src_cid) OP_CREDIT_UPDATE) 0].

(* ------------------------------------------------------------------------------------------ *)
(* connectionmanager.rs: RingBuffer. `buffer` is the boxed slice, `used` and `start` are usize. *)
(* usize subtractions that underflow (debug: panic, release: wrap) can only occur in states     *)
(* that violate rb_wf; the model answers Panic there in both profiles, and                      *)
(* Proofs/VsockProofs.v shows rb_wf is an invariant, so the simplification is unobservable.     *)
Record ringbuf := mkRB { rb_buf : list N; rb_used : N; rb_start : N }.

Definition rb_cap (rb : ringbuf) : N := lenN (rb_buf rb).
Definition rb_new (cap : N) : ringbuf := mkRB (repeat 0 (N.to_nat cap)) 0 0.
Definition rb_is_empty (rb : ringbuf) : bool := rb_used rb =? 0.

(* l[a .. a+n] as a value; None = the slice index panics *)
Definition slice_get (l : list N) (a n : N) : option (list N) :=
  if a + n <=? lenN l then Some (firstn (N.to_nat n) (skipn (N.to_nat a) l)) else None.
(* l[a .. a+|d|].copy_from_slice(d) *)
Definition slice_put (l : list N) (a : N) (d : list N) : option (list N) :=
  if a + lenN d <=? lenN l
  then Some (firstn (N.to_nat a) l ++ d ++ skipn (N.to_nat (a + lenN d)) l) else None.

(* RingBuffer::add *)
Definition rb_add (rb : ringbuf) (bytes : list N) : outcome bool * ringbuf :=
  let cap := rb_cap rb in
  let len := lenN bytes in
  if cap <? rb_used rb then (Panic, rb)                        (* free(): len() - used *)
  else if cap - rb_used rb <? len then (Ok false, rb)
  else if cap =? 0 then (Panic, rb)                            (* % 0 *)
  else
    let first_available := (rb_start rb + rb_used rb) mod cap in
    let before := N.min len (cap - first_available) in
    match slice_put (rb_buf rb) first_available (firstn (N.to_nat before) bytes) with
    | None => (Panic, rb)
    | Some b1 =>
        (* bytes.get(before..) is Some: before <= len *)
        match slice_put b1 0 (skipn (N.to_nat before) bytes) with
        | None => (Panic, rb)
        | Some b2 => (Ok true, mkRB b2 (rb_used rb + len) (rb_start rb))
        end
    end.

(* RingBuffer::drain: the bytes written to out[0..bytes_read]; the rest of `out` is untouched *)
Definition rb_drain (rb : ringbuf) (out_len : N) : outcome (list N) * ringbuf :=
  let cap := rb_cap rb in
  let bytes_read := N.min (rb_used rb) out_len in
  if cap <? rb_start rb then (Panic, rb)                       (* len() - start *)
  else
    let before := N.min bytes_read (cap - rb_start rb) in
    let after := bytes_read - before in                        (* checked_sub(..).unwrap_or_default() *)
    match slice_get (rb_buf rb) (rb_start rb) before, slice_get (rb_buf rb) 0 after with
    | Some a, Some b =>
        if cap =? 0 then (Panic, rb)                           (* % 0 *)
        else (Ok (a ++ b), mkRB (rb_buf rb) (rb_used rb - bytes_read) ((rb_start rb + bytes_read) mod cap))
    | _, _ => (Panic, rb)
    end.

(* ------------------------------------------------------------------------------------------ *)
(* connectionmanager.rs: one established connection (info + buffer) as far as credit and byte  *)
(* delivery go. Connection::new sets info.buf_alloc = capacity = buffer.len().                  *)
Record vconn := mkV { v_info : conn; v_rb : ringbuf }.

Definition vconn_new (dst_cid dst_port src_port cap : N) : vconn :=
  mkV (set_buf_alloc (conn_new dst_cid dst_port src_port) cap) (rb_new cap).

(* VsockConnectionManager::poll for one received rx buffer, restricted to packets of THIS
   connection with op Response, Rw, CreditUpdate or CreditRequest. None = outside this model
   (other connection, connection set-up / tear-down: C18).
   Result: what poll returns, the new state, the packets sent. *)
Definition poll_packet (v : vconn) (guest_cid : N) (buffer : list N)
  : option (outcome (option event) * vconn * list pkt) :=
  match read_header_and_body buffer with
  | Ok (h, body) =>
      match from_header h with
      | Ok e =>
          if matches_connection e (v_info v) guest_cid then
            let info := update_for_event (v_info v) e in
            match e_type e with
            | TReceived length =>
                let '(r, rb) := rb_add (v_rb v) body in
                match r with
                | Ok true => Some (Ok (Some e), mkV info rb, [])
                | Ok false => Some (Err SE_OutputBufferTooShort, mkV info rb, [])
                | _ => Some (Panic, mkV info rb, [])
                end
            | TConnected => Some (Ok (Some e), mkV info (v_rb v), [])
            | TCreditUpdate => Some (Ok (Some e), mkV info (v_rb v), [])
            | TCreditRequest => Some (Ok None, mkV info (v_rb v), credit_update info guest_cid)
            | _ => None
            end
          else None
      | Err c => Some (Err c, v, [])
      | _ => None
      end
  | Err c => Some (Err c, v, [])
  | _ => None
  end.

(* VsockConnectionManager::recv (peer_requested_shutdown = false), repaired done_forwarding *)
Definition recv (v : vconn) (out_len : N) : outcome (list N) * vconn :=
  let '(r, rb) := rb_drain (v_rb v) out_len in
  match r with
  | Ok bytes => (Ok bytes, mkV (done_forwarding (v_info v) (lenN bytes)) rb)
  | _ => (Panic, mkV (v_info v) rb)
  end.
Definition recv_prefix (m : mode) (v : vconn) (out_len : N) : outcome (list N) * vconn :=
  let '(r, rb) := rb_drain (v_rb v) out_len in
  match r with
  | Ok bytes =>
      match done_forwarding_prefix m (v_info v) (lenN bytes) with
      | Ok info => (Ok bytes, mkV info rb)
      | _ => (Panic, mkV (v_info v) rb)   (* the bytes have left the ring buffer, fwd_cnt is not advanced *)
      end
  | _ => (Panic, mkV (v_info v) rb)
  end.

(* VsockConnectionManager::send / update_credit for this connection *)
Definition vsend (v : vconn) (guest_cid buffer_len : N) : outcome unit * vconn * list pkt :=
  let '(o, c, p) := send (v_info v) guest_cid buffer_len in (o, mkV c (v_rb v), p).
Definition vsend_prefix (m : mode) (v : vconn) (guest_cid buffer_len : N) : outcome unit * vconn * list pkt :=
  let '(o, c, p) := send_prefix m (v_info v) guest_cid buffer_len in (o, mkV c (v_rb v), p).
Definition vupdate_credit (v : vconn) (guest_cid : N) : list pkt := credit_update (v_info v) guest_cid.
