(* The register-block declarations the models restate, projected to what tools/srcconsts.py can regenerate from the source:      *)
(* for each member of `#[repr(C)] struct VirtIOHeader` (src/transport/mmio.rs) and `struct CommonCfg` (src/transport/pci.rs)      *)
(* its size in bytes and its safe-mmio wrapper (1 ReadPure, 2 WriteOnly, 3 ReadPureWrite, 4 none = reserved / plain).             *)
(* The offsets and access directions used by Model/Mmio.v and Model/Pci.v are computed from exactly these two lists.              *)
From VD Require Import Base.Words.
From VD Require Model.Mmio Model.Pci.

Definition mmio_kcode (k : Mmio.fkind) : N :=
  match k with Mmio.KReadPure => 1 | Mmio.KWriteOnly => 2 | Mmio.KReadPureWrite => 3 | Mmio.KReserved => 4 end.
Definition mmio_header_decl : list (N * N) := map (fun x => (snd x, mmio_kcode (snd (fst x)))) Mmio.header_layout.

Definition pci_kcode (k : Pci.ckind) : N := match k with Pci.KReadPure => 1 | Pci.KReadPureWrite => 3 end.
Definition pci_common_decl : list (N * N) := map (fun x => (snd x, pci_kcode (snd (fst x)))) Pci.common_layout.
