(* C11 / C12 / C13: the x86-64 pKVM hypercall PCI transport.  Transcribed from                   *)
(*   src/transport/x86_64.rs            HypPciTransport::new, get_bar_region, impl Transport for     *)
(*                                      HypPciTransport (all seventeen methods; there is NO impl    *)
(*                                      Drop), the configread! / configwrite! macros                 *)
(*   src/transport/x86_64/hypercalls.rs HypIoRegion::{read, write} (the two assertions, one          *)
(*                                      hypercall), hyp_io_read / hyp_io_write                       *)
(*   src/transport/x86_64/cam.rs        HypCam::{read_word, write_word}                              *)
(*   src/transport/some.rs              the SomeTransport::HypPci arms                               *)
(* The capability scan of HypPciTransport::new is, token for token, the loop of an OLDER            *)
(* PciTransport::new: it is `Model.Pci.scan fx` for a `fixes` value saying which of the three       *)
(* repairs F4 / F13 / F14 (here F19 / F20 / F21) the x86_64 copy has.  `bar_info`, the capability   *)
(* iterator and `cam_offset` are the C12 models (Model/PciBus.v).  What differs from pci.rs:        *)
(*   - get_bar_region makes no Hal::mmio_phys_to_virt call: the alignment test is on the PHYSICAL   *)
(*     address and the result is HypIoRegion { paddr, size: length } (bytes, for all four uses);     *)
(*   - every register access is ONE hypercall (is_write, physical address, size, data) guarded by   *)
(*     `assert!(offset + size_of::<T>() <= self.size)` and `assert!(size_of::<T>() <= 8)`;          *)
(*   - notify: `self.notify_region.write(offset_bytes, queue)`: the assertion, not a slice index;    *)
(*   - ack_interrupt uses from_bits_truncate (pci.rs: from_bits_retain);                            *)
(*   - read_config_generation is `configread!(self.common_cfg, config_generation)` in a function    *)
(*     returning u32: T is inferred as u32, i.e. a FOUR-byte read at offset 21 (the field is a u8): *)
(*     switch `hx_gen8` (finding F22);                                                               *)
(*   - read_config_space / write_config_space: one hypercall of size_of::<T>() bytes (no splitting), *)
(*     the region size is in bytes;                                                                  *)
(*   - no Drop: dropping the transport (or the SomeTransport wrapper) performs no hypercall.         *)
(* The environment: the PCI function (configuration space), the values the hypervisor answers to    *)
(* read hypercalls (a list consumed in order).                                                       *)
From VD Require Import Base.Words Model.PciBus Model.Pci Model.PciSpec.

(* which repairs are in: hx_pci: the three of Model/Pci.v (F19 = fx_sum64, F20 = fx_bar, F21 = fx_fit);
   hx_gen8: read_config_generation reads the u8 field and widens it (F22) *)
Record hfixes := mkHx { hx_pci : fixes; hx_gen8 : bool }.
Definition HFIXED : hfixes := mkHx FIXED true.
(* the code as found: a copy of pci.rs from before F4 / F13 / F14 *)
Definition HPREFIX : hfixes := mkHx PREFIX false.

(* HypIoRegion { paddr: u64, size: usize } *)
Record hregion := mkHR { r_paddr : N; r_size : N }.

(* ================= get_bar_region::<T, C> ================= *)
Inductive hgres := HGOk (r : hregion) | HGErr (code p1 p2 : N) | HGPanic.

(* everything after `root.bar_info(device_function, struct_info.bar)` *)
Definition hyp_region_check (fx : fixes) (m : mode) (bi : outcome (option barinfo)) (info : capinfo)
    (size_of_t align_of_t : N) : hgres :=
  match bi with
  | Err e => HGErr PE_Pci e 0
  | Panic | UB => HGPanic
  | Ok None => HGErr PE_BarNotAllocated (ci_bar info) 0
  | Ok (Some (BarIO _ _)) => HGErr PE_UnexpectedIoBar 0 0
  | Ok (Some (BarMem _ _ bar_address bar_size)) =>
      if bar_address =? 0 then HGErr PE_BarNotAllocated (ci_bar info) 0
      else
        (* as found: u64::from(struct_info.offset + struct_info.length), the sum in u32;
           repaired: u64::from(offset) + u64::from(length) *)
        match (if fx_sum64 fx then Some (ci_off info + ci_len info)
               else add_u32 m (ci_off info) (ci_len info)) with
        | None => HGPanic
        | Some sum =>
            if (bar_size <? sum) || (ci_len info <? size_of_t) then HGErr PE_BarOffsetOutOfRange 0 0
            else
              (* bar_address as PhysAddr + struct_info.offset as PhysAddr, in u64 *)
              match add_u64 m bar_address (ci_off info) with
              | None => HGPanic
              | Some paddr =>
                  (* !paddr.is_multiple_of(align_of::<T>() as u64): Misaligned { address: paddr as usize, .. } *)
                  if negb (paddr mod align_of_t =? 0) then HGErr PE_Misaligned paddr align_of_t
                  else HGOk (mkHR paddr (ci_len info))
              end
        end
  end.

(* the state threaded through `new`: Model.Pci.nst with no mmio_phys_to_virt requests (n_reqs stays []) *)
Definition hyp_get_bar_region (fx : fixes) (m : mode) (s : nst) (info : capinfo) (size_of_t align_of_t : N)
  : hgres * nst :=
  let '(bi, d', tr) := bar_info m (n_fn s) (ci_bar info) in
  (hyp_region_check fx m bi info size_of_t align_of_t, mkNst d' (n_log s ++ tr) (n_reqs s)).

(* ================= HypPciTransport ================= *)
Record htrans := mkHT { ht_devtype : N; ht_common : hregion; ht_notify : hregion; ht_mult : N;
                        ht_isr : hregion; ht_cfg : option hregion }.
Inductive hnres := HNOk (t : htrans) | HNErr (code p1 p2 : N) | HNPanic | HNDiverge.

(* HypPciTransport::new: get_bar_region::<CommonCfg>, ::<u16>, ::<u8>, ::<u32> in this order *)
Definition hyp_new (fx : fixes) (m : mode) (d : pcifn) : hnres * nst :=
  let s0 := log_reads (mkNst d [] []) [0] in
  let device_vendor := rdw (cfg_read d) 0 in
  let device_id := w16 (N.shiftr device_vendor 16) in
  let vendor_id := w16 device_vendor in
  if negb (vendor_id =? VIRTIO_VENDOR_ID) then (HNErr PE_InvalidVendorId vendor_id 0, s0)
  else
  match device_type device_id with
  | None => (HNErr PE_InvalidDeviceId device_id 0, s0)
  | Some dt =>
  let s1 := log_reads s0 (snd (scan fx m (cfg_read d))) in
  match fst (scan fx m (cfg_read d)) with
  | SPanic => (HNPanic, s1)
  | SDiverge => (HNDiverge, s1)
  | SFound f =>
  match fd_common f with
  | None => (HNErr PE_MissingCommonConfig 0 0, s1)
  | Some ic =>
  match hyp_get_bar_region fx m s1 ic COMMON_SIZE COMMON_ALIGN with
  | (HGErr c p q, s2) => (HNErr c p q, s2)
  | (HGPanic, s2) => (HNPanic, s2)
  | (HGOk cr, s2) =>
  match fd_notify f with
  | None => (HNErr PE_MissingNotifyConfig 0 0, s2)
  | Some inn =>
  if negb (fd_mult f mod 2 =? 0) then (HNErr PE_InvalidNotifyOffMultiplier (fd_mult f) 0, s2)
  else
  match hyp_get_bar_region fx m s2 inn 2 2 with
  | (HGErr c p q, s3) => (HNErr c p q, s3)
  | (HGPanic, s3) => (HNPanic, s3)
  | (HGOk nr, s3) =>
  match fd_isr f with
  | None => (HNErr PE_MissingIsrConfig 0 0, s3)
  | Some ii =>
  match hyp_get_bar_region fx m s3 ii 1 1 with
  | (HGErr c p q, s4) => (HNErr c p q, s4)
  | (HGPanic, s4) => (HNPanic, s4)
  | (HGOk ir, s4) =>
  match fd_device f with
  | None => (HNOk (mkHT dt cr nr (fd_mult f) ir None), s4)
  | Some idv =>
  match hyp_get_bar_region fx m s4 idv 4 4 with
  | (HGErr c p q, s5) => (HNErr c p q, s5)
  | (HGPanic, s5) => (HNPanic, s5)
  | (HGOk dr, s5) => (HNOk (mkHT dt cr nr (fd_mult f) ir (Some dr)), s5)
  end end end end end end end end end end.

(* ================= HypIoRegion::read / write: one hypercall ================= *)
(* A hypercall is a Model.Pci.macc: (is_write, physical address, size in bytes, data). *)
Definition HYP_IO_MAX : N := 8.

(* `offset + size_of::<T>()` on usize *)
Definition hyp_add_usize := add_u64.

(* assert!(offset + size_of::<T>() <= self.size); assert!(size_of::<T>() <= HYP_IO_MAX);
   hyp_io_read / hyp_io_write (self.paddr + offset as u64, size_of::<T>(), data).  None = a panic. *)
Definition hio (m : mode) (wr : bool) (r : hregion) (off s v : N) : option macc :=
  match hyp_add_usize m off s with
  | None => None
  | Some e =>
      if negb (e <=? r_size r) then None
      else if negb (s <=? HYP_IO_MAX) then None
      else match add_u64 m (r_paddr r) off with
           | None => None
           | Some a => Some (mkM wr a s v)
           end
  end.

(* the accesses of one method, in program order; v of a read = the answer, already cut to s bytes *)
Inductive hreq := HQ (wr : bool) (r : hregion) (off s v : N).
Fixpoint hrun (m : mode) (l : list hreq) : bool * list macc :=
  match l with
  | [] => (true, [])
  | HQ wr r off s v :: t =>
      match hio m wr r off s v with
      | None => (false, [])
      | Some a => let '(ok, tr) := hrun m t in (ok, a :: tr)
      end
  end.
(* the method returns `v` unless one of its accesses panicked *)
Definition hfin (m : mode) (v : N) (l : list hreq) : outcome N * list macc :=
  let '(ok, tr) := hrun m l in (if ok then Ok v else Panic, tr).

(* DeviceStatus / InterruptStatus::from_bits_truncate *)
Definition ISR_NAMED_BITS : N := 3.
(* offset_of!(CommonCfg, config_generation) *)
Definition c_config_generation : N := Eval vm_compute in coffset_of C_config_generation.

(* impl Transport for HypPciTransport (configread!/configwrite! = common_cfg.read/write at
   offset_of!(CommonCfg, field), T from the annotated local / the value written); the same `op` type as
   the PCI transport; ODrop: there is no Drop impl, nothing happens *)
Definition hexec (m : mode) (t : htrans) (o : op) (ans : list N) : outcome N * list macc :=
  let c := ht_common t in
  match o with
  | ODeviceType => (Ok (ht_devtype t), [])
  | OReadDeviceFeatures =>
      let lo := ans32 ans 0 in
      let hi := ans32 ans 1 in
      hfin m (N.lor (N.shiftl hi 32) lo)
        [HQ true c c_device_feature_select 4 0; HQ false c c_device_feature 4 lo;
         HQ true c c_device_feature_select 4 1; HQ false c c_device_feature 4 hi]
  | OWriteDriverFeatures f =>
      hfin m 0 [HQ true c c_driver_feature_select 4 0; HQ true c c_driver_feature 4 (w32 f);
                HQ true c c_driver_feature_select 4 1; HQ true c c_driver_feature 4 (w32 (N.shiftr f 32))]
  | OMaxQueueSize q =>
      let a := ans16 ans 0 in hfin m a [HQ true c c_queue_select 2 q; HQ false c c_queue_size 2 a]
  | ONotify q =>
      let off := ans16 ans 0 in
      (* usize::from(queue_notify_off) * self.notify_off_multiplier as usize: below 2^48 *)
      hfin m 0 [HQ true c c_queue_select 2 q; HQ false c c_queue_notify_off 2 off;
                HQ true (ht_notify t) (off * ht_mult t) 2 q]
  | OGetStatus =>
      let a := ans8 ans 0 in hfin m (N.land a STATUS_NAMED_BITS) [HQ false c c_device_status 1 a]
  | OSetStatus s => hfin m 0 [HQ true c c_device_status 1 (w8 s)]
  | OSetGuestPageSize _ => (Ok 0, [])
  | ORequiresLegacyLayout => (Ok 0, [])
  | OQueueSet q size desc drv dev =>
      hfin m 0 [HQ true c c_queue_select 2 q; HQ true c c_queue_size 2 (w16 size);
                HQ true c c_queue_desc 8 desc; HQ true c c_queue_driver 8 drv; HQ true c c_queue_device 8 dev;
                HQ true c c_queue_enable 2 1]
  | OQueueUnset _ => (Ok 0, [])
  | OQueueUsed q =>
      let a := ans16 ans 0 in
      hfin m (b2n (a =? 1)) [HQ true c c_queue_select 2 q; HQ false c c_queue_enable 2 a]
  | OAckInterrupt =>
      let a := ans8 ans 0 in hfin m (N.land a ISR_NAMED_BITS) [HQ false (ht_isr t) 0 1 a]
  | ODrop => (Ok 0, [])
  end.

(* read_config_generation.  As found: T = u32, four bytes at offset 21 (config_generation, queue_select
   and the low byte of queue_size), the whole word returned; repaired: the u8, widened *)
Definition hyp_read_gen (hx : hfixes) (m : mode) (t : htrans) (ans : list N) : outcome N * list macc :=
  if hx_gen8 hx then let a := ans8 ans 0 in hfin m a [HQ false (ht_common t) c_config_generation 1 a]
  else let a := ans32 ans 0 in hfin m a [HQ false (ht_common t) c_config_generation 4 a].

(* ================= read_config_space / write_config_space ================= *)
(* usize::checked_add *)
Definition hyp_checked_add (a b : N) : option N := if a + b <? two64 then Some (a + b) else None.
(* the low s bytes of a u64 (T::read_from_prefix(data.as_bytes())); a zero-sized T carries nothing *)
Definition cut (s x : N) : N := x mod 2 ^ (8 * N.min s 8).

(* read_config_space::<T>(offset) with size_of::<T>() = s, align_of::<T>() = a:
   assert!(align_of::<T>() <= 4); assert_eq!(offset % align_of::<T>(), 0);
   self.config_space.ok_or(ConfigSpaceMissing)?; offset.checked_add(s).is_none_or(|end| size < end) =>
   ConfigSpaceTooSmall; else config_space.read(offset) *)
Definition hyp_cfg_read (m : mode) (t : htrans) (s a off : N) (ans : N) : outcome N * list macc :=
  if 4 <? a then (Panic, [])
  else if negb (off mod a =? 0) then (Panic, [])
  else match ht_cfg t with
       | None => (Err EConfigSpaceMissing, [])
       | Some r =>
           match hyp_checked_add off s with
           | None => (Err EConfigSpaceTooSmall, [])
           | Some e =>
               if r_size r <? e then (Err EConfigSpaceTooSmall, [])
               else hfin m (cut s ans) [HQ false r off s (cut s ans)]
           end
       end.
(* write_config_space::<T>(offset, value): the value's bytes in the low s bytes of a zeroed u64 *)
Definition hyp_cfg_write (m : mode) (t : htrans) (s a off v : N) : outcome N * list macc :=
  if 4 <? a then (Panic, [])
  else if negb (off mod a =? 0) then (Panic, [])
  else match ht_cfg t with
       | None => (Err EConfigSpaceMissing, [])
       | Some r =>
           match hyp_checked_add off s with
           | None => (Err EConfigSpaceTooSmall, [])
           | Some e =>
               if r_size r <? e then (Err EConfigSpaceTooSmall, [])
               else hfin m 0 [HQ true r off s (cut s v)]
           end
       end.

(* ================= SomeTransport::HypPci ================= *)
(* every method is `Self::HypPci(pci) => pci.method(args)`; dropping the wrapper drops a HypPciTransport,
   which has no Drop impl *)
Definition some_hexec (m : mode) (t : htrans) (o : op) (ans : list N) := hexec m t o ans.
Definition some_hyp_read_gen (hx : hfixes) (m : mode) (t : htrans) (ans : list N) := hyp_read_gen hx m t ans.
Definition some_hyp_cfg_read (m : mode) (t : htrans) (s a off ans : N) := hyp_cfg_read m t s a off ans.
Definition some_hyp_cfg_write (m : mode) (t : htrans) (s a off v : N) := hyp_cfg_write m t s a off v.

(* ================= HypCam ================= *)
(* read_word: let address = self.cam.cam_offset(device_function, register_offset);
   hyp_io_read(self.phys_base + u64::from(address), 4) as u32.  cam_offset: the C12 model (its
   assertions are panics).  ans: the hypervisor's answer, cut to the four bytes asked for *)
Definition hyp_cam_read (m : mode) (ecam : bool) (phys_base bus dev fn reg ans : N) : outcome N * list macc :=
  match cam_offset ecam bus dev fn reg with
  | Ok address =>
      match add_u64 m phys_base address with
      | None => (Panic, [])
      | Some a => (Ok (w32 ans), [MR a 4 (w32 ans)])
      end
  | _ => (Panic, [])
  end.
(* write_word: hyp_io_write(self.phys_base + u64::from(address), 4, data.into()) *)
Definition hyp_cam_write (m : mode) (ecam : bool) (phys_base bus dev fn reg data : N) : outcome N * list macc :=
  match cam_offset ecam bus dev fn reg with
  | Ok address =>
      match add_u64 m phys_base address with
      | None => (Panic, [])
      | Some a => (Ok 0, [MW a 4 (w32 data)])
      end
  | _ => (Panic, [])
  end.

(* ======================================================================================== *)
(* The specification side (monitors).  Written with the predicates of Model/PciSpec.v        *)
(* (VirtIO 1.2, 4.1.4): a hypercall is judged like an MMIO access whose address is the       *)
(* PHYSICAL address: the windows are the regions of the transport.                           *)
(* ======================================================================================== *)
Definition hwins (t : htrans) : wins :=
  mkWins (r_paddr (ht_common t)) (r_size (ht_common t)) (r_paddr (ht_notify t)) (r_size (ht_notify t))
         (ht_mult t) (r_paddr (ht_isr t)) (r_size (ht_isr t)).

(* HypPciTransport::new.  d: the PCI function; rc: 0 = a transport, 1 = an error, 2 = a panic;
   mult, regs: notify_off_multiplier and the regions (paddr, size) of the transport that came back, in the
   order common, notify, ISR, device-specific.  Each region is judged against what the BAR registers ARE
   (slot_truth), with the physical address in the place of the mapped one (alignment). *)
Definition hyp_new_conform_b (d : pcifn) (rc mult : N) (regs : list (N * N)) : bool :=
  let rd := cfg_read d in
  let '(caps, fin) := capabilities 65 rd in
  if negb fin then true      (* a cyclic list: outside the property, never given to the real code *)
  else
    let f := spec_found rd (map (fun c => fst (fst c)) caps) in
    (rc <? 2)
    && (if rc =? 0 then
          is_some (fd_common f) && is_some (fd_notify f) && is_some (fd_isr f)
          && (fd_mult f mod 2 =? 0) && (mult =? fd_mult f)
          && (lenN regs =? lenN (wanted f))
          && windows_ok_b (f_bars d) true (wanted f) (map (fun r => (fst r, snd r, fst r)) regs)
        else is_nil regs).

(* every hypercall lies inside one of the allocated memory BARs the harness knows of: (address, size) *)
Definition in_bars_b (bars : list (N * N)) (tr : list macc) : bool :=
  forallb (fun a => existsb (fun b => (fst b <=? m_addr a) && (m_addr a + m_width a <=? fst b + snd b)) bars) tr.

(* one operation of the transport: operation codes of Model/Pci.v op_code, 13 = read_config_generation.
   ack_interrupt returns the two defined bits; read_config_generation is ONE read of the
   config_generation byte; drop performs nothing (there is no Drop impl) *)
Definition hyp_conform_b (w : wins) (opc a1 a2 a3 a4 a5 rc rv : N) (tr : list macc) : bool :=
  if opc =? 12 then
    table_ok w tr && forallb (allowed_b w 12) tr && (rc =? 0)
    && match tr with [a] => rv =? N.land (m_val a) ISR_NAMED_BITS | _ => false end
  else if opc =? 13 then
    table_ok w tr && (rc =? 0)
    && match tr with [a] => is_cr w S_config_generation a && (rv =? m_val a) | _ => false end
  else if opc =? 14 then is_nil tr && (rc =? 0)
  else pci_conform_b w opc a1 a2 a3 a4 a5 rc rv tr.

(* a whole life: every hypercall respects the table *)
Definition hyp_session_b (w : wins) (tr : list macc) : bool := table_ok w tr.

(* configuration access (C13).  present / base / size: the device-specific region of the transport;
   s, a: size_of / align_of of T; off: the offset asked for; wr, v: write and its value;
   rc / rv: 0 value | 1 error code | 2 panic *)
Definition hyp_cfg_conform_b (present : bool) (base size s a off : N) (wr : bool) (v rc rv : N) (tr : list macc) : bool :=
  let inb := present && (off + s <=? size) in
  let asserts := (a <=? 4) && (off mod a =? 0) in
  if rc =? 0 then
    inb && asserts && (s <=? HYP_IO_MAX)
    && match tr with
       | [x] => Bool.eqb (m_write x) wr && (m_addr x =? base + off) && (m_width x =? s)
                && (if wr then m_val x =? cut s v else rv =? m_val x)
       | _ => false
       end
  else if rc =? 1 then
    is_nil tr && asserts
    && (if present then (rv =? EConfigSpaceTooSmall) && negb (off + s <=? size) else rv =? EConfigSpaceMissing)
  else
    (* a panic: only the documented assertions, and before any hypercall *)
    (rc =? 2) && is_nil tr && (negb asserts || (inb && (HYP_IO_MAX <? s))).

(* HypCam::read_word / write_word: one four-byte hypercall at phys_base + cam_offset, inside the CAM.
   The caller's contract of HypCam::new: the CAM is cam_size bytes of physical address space at phys_base
   (phys_base + cam_size <= 2^64); nothing is claimed outside it *)
Definition hyp_cam_conform_b (ecam : bool) (phys_base bus dev fn reg : N) (wr : bool) (data rc rv : N) (tr : list macc) : bool :=
  if two64 <? phys_base + cam_size ecam then true
  else
  match cam_offset ecam bus dev fn reg with
  | Ok off =>
      (rc =? 0)
      && match tr with
         | [x] => Bool.eqb (m_write x) wr && (m_addr x =? phys_base + off) && (m_width x =? 4)
                  && (off <? cam_size ecam) && (off mod 4 =? 0)
                  && (if wr then m_val x =? data else rv =? m_val x)
         | _ => false
         end
  | _ => (rc =? 2) && is_nil tr
  end.

(* ======================================================================================== *)
(* C12 for HypCam: "addresses configuration space uniquely".  Written from the layout of the  *)
(* two configuration access mechanisms (PCI Firmware 3.x MMIO CAM: 256 bytes per function,     *)
(* 16 MiB; PCI Express ECAM: 4 KiB per function, 256 MiB), NOT from cam_offset: the window of  *)
(* a CAM at physical address `base` is [base, base + cam_size) and the word `reg` of function  *)
(* (bus, dev, fn) lives at base + ((bus * 256 + dev * 8 + fn) * stride + reg), the sum taken in *)
(* the natural numbers (a base that is page-aligned but not aligned to the window size is      *)
(* allowed: `|` in the place of `+` is wrong there).                                           *)
(* ======================================================================================== *)
Definition cam_stride (ecam : bool) : N := if ecam then 4096 else 256.

(* one observed HypCam::read_word / write_word: the request, the result class (0 returned, 2 panicked),
   the number of hypercalls it issued, the physical address and the size of the first one *)
Record camobs := mkCO { co_bus : N; co_dev : N; co_fn : N; co_reg : N;
                        co_cls : N; co_cnt : N; co_addr : N; co_width : N }.

(* what cam_offset asserts: DeviceFunction::valid and a word-aligned register (bus, register are u8) *)
Definition cam_req_valid (o : camobs) : bool :=
  (co_bus o <? 256) && (co_dev o <? 32) && (co_fn o <? 8) && (co_reg o <? 256) && (co_reg o mod 4 =? 0).

Definition cam_spec_addr (ecam : bool) (base : N) (o : camobs) : N :=
  base + ((co_bus o * 256 + co_dev o * 8 + co_fn o) * cam_stride ecam + co_reg o).

(* a valid request: ONE four-byte hypercall at exactly base + offset (in N), wholly inside the window;
   an invalid one: refused (panic) without any hypercall *)
Definition cam_obs_ok (ecam : bool) (base : N) (o : camobs) : bool :=
  if cam_req_valid o then
    (co_cls o =? 0) && (co_cnt o =? 1) && (co_width o =? 4)
    && (co_addr o =? cam_spec_addr ecam base o)
    && (base <=? co_addr o) && (co_addr o + 4 <=? base + cam_size ecam)
  else (co_cls o =? 2) && (co_cnt o =? 0).

Definition cam_same_req (a b : camobs) : bool :=
  (co_bus a =? co_bus b) && (co_dev a =? co_dev b) && (co_fn a =? co_fn b) && (co_reg a =? co_reg b).

(* distinct valid requests were sent to distinct addresses *)
Fixpoint cam_distinct (l : list camobs) : bool :=
  match l with
  | [] => true
  | a :: t =>
      forallb (fun b => negb (cam_req_valid a && cam_req_valid b) || cam_same_req a b
                        || negb (co_addr a =? co_addr b)) t
      && cam_distinct t
  end.

(* the monitor (kind 1257).  The caller's contract of HypCam::new: the window lies inside the physical
   address space (base + cam_size <= 2^64); nothing is claimed otherwise *)
Definition hyp_cam_addrs_b (ecam : bool) (base : N) (l : list camobs) : bool :=
  if two64 <? base + cam_size ecam then true
  else forallb (cam_obs_ok ecam base) l && cam_distinct l.

(* the model's own observation for a request (bus, dev, fn, reg, is_write, answer / data) *)
Definition cam_class (r : outcome N) : N := match r with Ok _ => 0 | Err _ => 1 | Panic => 2 | UB => 3 end.
Definition cam_obs_of (m : mode) (ecam : bool) (base : N) (q : N * N * N * N * bool * N) : camobs :=
  let '(bus, dev, fn, reg, wr, x) := q in
  let r := if wr then hyp_cam_write m ecam base bus dev fn reg x else hyp_cam_read m ecam base bus dev fn reg x in
  mkCO bus dev fn reg (cam_class (fst r)) (lenN (snd r))
       (match snd r with a :: _ => m_addr a | [] => 0 end)
       (match snd r with a :: _ => m_width a | [] => 0 end).
