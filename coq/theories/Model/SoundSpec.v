(* C20 (sound part), the specification side, written from VirtIO 1.2 section 5.14 (Sound Device)    *)
(* and NOT from the driver source:                                                                  *)
(*   5.14.2  virtqueues 0 controlq, 1 eventq, 2 txq, 3 rxq                                          *)
(*   5.14.4  struct virtio_snd_config { le32 jacks; le32 streams; le32 chmaps; }                    *)
(*   5.14.6  enum codes (requests 1,2 / 0x100..0x105 / 0x200, events 0x1000,0x1001 / 0x1100,0x1101, *)
(*           status 0x8000 OK, 0x8001 BAD_MSG, 0x8002 NOT_SUPP, 0x8003 IO_ERR);                     *)
(*           struct virtio_snd_hdr { le32 code; };  struct virtio_snd_event { hdr; le32 data; }     *)
(*   5.14.6.1 struct virtio_snd_query_info { hdr; le32 start_id; le32 count; le32 size; }           *)
(*            struct virtio_snd_info { le32 hda_fn_nid; }; response = hdr ++ count items of `size`  *)
(*   5.14.6.4 struct virtio_snd_jack_hdr { hdr; le32 jack_id; }                                     *)
(*            struct virtio_snd_jack_info { info; le32 features; le32 hda_reg_defconf;              *)
(*                                          le32 hda_reg_caps; u8 connected; u8 padding[7]; }       *)
(*            struct virtio_snd_jack_remap { jack_hdr; le32 association; le32 sequence; }           *)
(*   5.14.6.6 struct virtio_snd_pcm_hdr { hdr; le32 stream_id; }                                    *)
(*            struct virtio_snd_pcm_info { info; le32 features; le64 formats; le64 rates;           *)
(*                                         u8 direction; u8 channels_min; u8 channels_max; u8 padding[5]; } *)
(*            struct virtio_snd_pcm_set_params { pcm_hdr; le32 buffer_bytes; le32 period_bytes;     *)
(*                                         le32 features; u8 channels; u8 format; u8 rate; u8 padding; } *)
(*            (driver: period_bytes MUST be a divider of buffer_bytes)                              *)
(*   5.14.6.8 struct virtio_snd_pcm_xfer { le32 stream_id; } ++ data (device-readable, output);     *)
(*            struct virtio_snd_pcm_status { le32 status; le32 latency_bytes; } (device-writable)   *)
(*   5.14.6.9 struct virtio_snd_chmap_info { info; u8 direction; u8 channels; u8 positions[18]; }   *)
(* Only Base.Words is imported: nothing here refers to the driver model.                            *)
From VD Require Import Base.Words.

(* ---------- codes ---------- *)
Definition SND_R_JACK_INFO : N := 1.
Definition SND_R_JACK_REMAP : N := 2.
Definition SND_R_PCM_INFO : N := 256.
Definition SND_R_PCM_SET_PARAMS : N := 257.
Definition SND_R_PCM_PREPARE : N := 258.
Definition SND_R_PCM_RELEASE : N := 259.
Definition SND_R_PCM_START : N := 260.
Definition SND_R_PCM_STOP : N := 261.
Definition SND_R_CHMAP_INFO : N := 512.
Definition SND_EVT_JACK_CONNECTED : N := 4096.
Definition SND_EVT_JACK_DISCONNECTED : N := 4097.
Definition SND_EVT_PCM_PERIOD_ELAPSED : N := 4352.
Definition SND_EVT_PCM_XRUN : N := 4353.
Definition SND_S_OK : N := 32768.
Definition SND_S_BAD_MSG : N := 32769.
Definition SND_S_NOT_SUPP : N := 32770.
Definition SND_S_IO_ERR : N := 32771.

Definition SND_JACK_INFO_SIZE : N := 24.
Definition SND_PCM_INFO_SIZE : N := 32.
Definition SND_CHMAP_INFO_SIZE : N := 24.
Definition SND_D_OUTPUT : N := 0.
Definition SND_D_INPUT : N := 1.
Definition SND_JACK_F_REMAP : N := 1.

(* ---------- little-endian fields ---------- *)
Fixpoint sle (bs : list N) : N :=
  match bs with
  | [] => 0
  | b :: t => b + 256 * sle t
  end.
(* the n-byte field at byte offset off *)
Definition fld (bs : list N) (off n : nat) : N := sle (firstn n (skipn off bs)).

Fixpoint spec_le (n : nat) (x : N) : list N :=
  match n with
  | O => []
  | S k => (x mod 256) :: spec_le k (x / 256)
  end.

(* ---------- control requests (device-readable part of a controlq message) ---------- *)
Inductive sndreq :=
| RqQuery (code start count size : N)                  (* JACK_INFO / PCM_INFO / CHMAP_INFO *)
| RqJackRemap (jack association sequence : N)
| RqSetParams (stream buffer_bytes period_bytes features channels format rate padding : N)
| RqPcm (code stream : N).                              (* PREPARE / RELEASE / START / STOP *)

Definition is_query_code (c : N) : bool :=
  (c =? SND_R_JACK_INFO) || (c =? SND_R_PCM_INFO) || (c =? SND_R_CHMAP_INFO).
Definition is_pcm_cmd_code (c : N) : bool :=
  (c =? SND_R_PCM_PREPARE) || (c =? SND_R_PCM_RELEASE) || (c =? SND_R_PCM_START) || (c =? SND_R_PCM_STOP).

Definition spec_decode_ctl (bs : list N) : option sndreq :=
  let n := lenN bs in
  if n <? 4 then None else
  let code := fld bs 0 4 in
  if is_query_code code then
    if n =? 16 then Some (RqQuery code (fld bs 4 4) (fld bs 8 4) (fld bs 12 4)) else None
  else if code =? SND_R_JACK_REMAP then
    if n =? 16 then Some (RqJackRemap (fld bs 4 4) (fld bs 8 4) (fld bs 12 4)) else None
  else if code =? SND_R_PCM_SET_PARAMS then
    if n =? 24 then Some (RqSetParams (fld bs 4 4) (fld bs 8 4) (fld bs 12 4) (fld bs 16 4)
                                       (fld bs 20 1) (fld bs 21 1) (fld bs 22 1) (fld bs 23 1))
    else None
  else if is_pcm_cmd_code code then
    if n =? 8 then Some (RqPcm code (fld bs 4 4)) else None
  else None.

(* the size of one item a query for `code` must ask for *)
Definition spec_item_size (code : N) : N :=
  if code =? SND_R_JACK_INFO then SND_JACK_INFO_SIZE
  else if code =? SND_R_PCM_INFO then SND_PCM_INFO_SIZE
  else if code =? SND_R_CHMAP_INFO then SND_CHMAP_INFO_SIZE else 0.

(* 5.14.6.6.3.2: period_bytes must be a (non-zero) divider of buffer_bytes *)
Definition spec_params_ok (buffer period : N) : bool := negb (period =? 0) && (buffer mod period =? 0).

(* ---------- the layout of a control message as the device walks it ---------- *)
(* device-readable request first, then the device-writable response area *)
Definition spec_ctl_shape (els : list (N * bool)) (reqlen : N) : bool :=
  match els with
  | [(l1, false); (l2, true)] => (l1 =? reqlen) && (4 <=? l2)
  | _ => false
  end.

(* ---------- responses (what a device reports) ---------- *)
Record jack_info := mkJack { j_nid : N; j_features : N; j_defconf : N; j_caps : N; j_connected : N }.
Record pcm_info := mkPcm { p_nid : N; p_features : N; p_formats : N; p_rates : N; p_direction : N;
                           p_chmin : N; p_chmax : N }.
Record chmap_info := mkChmap { c_nid : N; c_direction : N; c_channels : N; c_positions : list N }.

(* pad: the padding bytes (7 / 5), whatever the device leaves there *)
Definition spec_enc_jack_info (j : jack_info) (pad : list N) : list N :=
  spec_le 4 (j_nid j) ++ spec_le 4 (j_features j) ++ spec_le 4 (j_defconf j) ++ spec_le 4 (j_caps j)
    ++ [j_connected j] ++ firstn 7 (pad ++ repeat 0 7).
Definition spec_enc_pcm_info (p : pcm_info) (pad : list N) : list N :=
  spec_le 4 (p_nid p) ++ spec_le 4 (p_features p) ++ spec_le 8 (p_formats p) ++ spec_le 8 (p_rates p)
    ++ [p_direction p; p_chmin p; p_chmax p] ++ firstn 5 (pad ++ repeat 0 5).
Definition spec_enc_chmap_info (c : chmap_info) : list N :=
  spec_le 4 (c_nid c) ++ [c_direction c; c_channels c] ++ firstn 18 (c_positions c ++ repeat 0 18).

(* the response to a query: status header followed by the items *)
Definition spec_info_rsp (status : N) (items : list (list N)) : list N := spec_le 4 status ++ concat items.

Definition jack_in_range (j : jack_info) : Prop :=
  j_nid j < two32 /\ j_features j < two32 /\ j_defconf j < two32 /\ j_caps j < two32 /\ j_connected j < 256.
Definition pcm_in_range (p : pcm_info) : Prop :=
  p_nid p < two32 /\ p_features p < two32 /\ p_formats p < two64 /\ p_rates p < two64
  /\ p_direction p < 256 /\ p_chmin p < 256 /\ p_chmax p < 256.
Definition chmap_in_range (c : chmap_info) : Prop :=
  c_nid c < two32 /\ c_direction c < 256 /\ c_channels c < 256 /\ length (c_positions c) = 18%nat.

(* ---------- TX (5.14.6.8): readable = virtio_snd_pcm_xfer ++ data, writable = virtio_snd_pcm_status ---------- *)
Definition spec_decode_tx (readable : list N) (writable_len : N) : option (N * list N) :=
  if (4 <=? lenN readable) && (writable_len =? 8) then Some (fld readable 0 4, skipn 4 readable) else None.

(* the I/O status a device writes *)
Definition spec_enc_status (status latency : N) : list N := spec_le 4 status ++ spec_le 4 latency.

(* ---------- events (5.14.6.?: struct virtio_snd_event) ---------- *)
Definition spec_event_known (code : N) : bool :=
  (code =? SND_EVT_JACK_CONNECTED) || (code =? SND_EVT_JACK_DISCONNECTED)
  || (code =? SND_EVT_PCM_PERIOD_ELAPSED) || (code =? SND_EVT_PCM_XRUN).

(* an event as the device writes it into an eventq buffer: 8 bytes, le32 code then le32 data; a buffer that does not
   hold exactly 8 written bytes holds no event *)
Definition spec_decode_event (bs : list N) : option (N * N) :=
  if lenN bs =? 8 then Some (fld bs 0 4, fld bs 4 4) else None.
(* what the driver owes its caller for the written part of a completed eventq buffer: nothing (no event), the event
   (type, data), or - for a code that is none of the four events of 5.14.6 - an error *)
Definition spec_notification (bs : list N) (err : N) : outcome (option (N * N)) :=
  match spec_decode_event bs with
  | None => Ok None
  | Some (code, data) => if spec_event_known code then Ok (Some (code, data)) else Err err
  end.

(* ---------- configuration layout (5.14.4): le32 jacks at 0, le32 streams at 4, le32 chmaps at 8 ---------- *)
Definition SND_CFG_JACKS_OFF : N := 0.
Definition SND_CFG_STREAMS_OFF : N := 4.
Definition SND_CFG_CHMAPS_OFF : N := 8.
Definition spec_snd_config (cfg : list N) : N * N * N := (fld cfg 0 4, fld cfg 4 4, fld cfg 8 4).

(* ---------- the answer to a PCM_INFO query (5.14.6.1 / 5.14.6.6.2) ---------- *)
(* item i of the answer: the 32 bytes behind the 4-byte status and i earlier items *)
Definition spec_pcm_item (rsp : list N) (i : N) : list N := firstn 32 (skipn (N.to_nat (4 + 32 * i)) rsp).
(* struct virtio_snd_pcm_info { struct virtio_snd_info hdr { le32 hda_fn_nid }; le32 features; le64 formats;
                                le64 rates; u8 direction; u8 channels_min; u8 channels_max; u8 padding[5]; } *)
Definition spec_dec_pcm_info (item : list N) : pcm_info :=
  mkPcm (fld item 0 4) (fld item 4 4) (fld item 8 8) (fld item 16 8) (fld item 24 1) (fld item 25 1) (fld item 26 1).
(* the items 0 .. count-1 *)
Fixpoint spec_pcm_items (rsp : list N) (i : N) (count : nat) : list pcm_info :=
  match count with
  | O => []
  | S k => spec_dec_pcm_info (spec_pcm_item rsp i) :: spec_pcm_items rsp (i + 1) k
  end.

(* ---------- what a device derives from the infos it reported ---------- *)
Fixpoint streams_with_dir (infos : list pcm_info) (dir : N) (i : N) : list N :=
  match infos with
  | [] => []
  | p :: rest => (if p_direction p =? dir then [i] else []) ++ streams_with_dir rest dir (i + 1)
  end.

(* ---------- does a driver result agree with the status the device answered? ---------- *)
(* class 0 = Ok, 1 = Err; anything but SND_S_OK must be an error *)
Definition snd_result_conforms (status class : N) : bool :=
  if status =? SND_S_OK then class =? 0 else class =? 1.

(* ---------- PCM data: what the property asks of the pieces a device receives for one transfer ---------- *)
(* pieces: the data parts of the TX messages, in the order they were made available *)
Definition spec_pieces_ok (period : N) (frames : list N) (pieces : list (list N)) : Prop :=
  concat pieces = frames /\ Forall (fun c => 1 <= lenN c <= period) pieces.

(* ---------- what each stream query must return, given the device's answer to PCM_INFO for `count` streams ---------- *)
(* which: 0 output streams, 1 input streams (ids in ascending order), 2 rates bitmap, 3 formats bitmap,
          4 channels_min, channels_max, 5 features; err: the error for a stream id the device did not report *)
Definition spec_stream_query (rsp : list N) (count : nat) (which sid : N) (err : N) : outcome (list N) :=
  let infos := spec_pcm_items rsp 0 count in
  if which =? 0 then Ok (streams_with_dir infos SND_D_OUTPUT 0)
  else if which =? 1 then Ok (streams_with_dir infos SND_D_INPUT 0)
  else if N.of_nat count <=? sid then Err err
  else let p := spec_dec_pcm_info (spec_pcm_item rsp sid) in
       Ok (if which =? 2 then [p_rates p] else if which =? 3 then [p_formats p]
           else if which =? 4 then [p_chmin p; p_chmax p] else [p_features p]).
