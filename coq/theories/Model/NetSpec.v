(* What a virtio network DEVICE expects and produces, written from the VirtIO 1.2 specification     *)
(* (5.1.6 Device Operation, 5.1.6.1 Legacy Interface, 5.1.6.2 Packet Transmission, 5.1.6.3/4        *)
(* receive buffers / processing of incoming packets) and NOT from the driver: a device-side parser  *)
(* of the header, the header length as a function of the negotiated feature bits, the frame a        *)
(* device takes from a transmit chain and the frame a driver must find in a used receive buffer,     *)
(* and the bookkeeping predicate "every buffer is in exactly one place".                             *)
(* These are the definitions the monitors evaluate on what the implementation is observed to do.     *)
From VD Require Import Base.Words.

(* struct virtio_net_hdr { u8 flags; u8 gso_type; le16 hdr_len; le16 gso_size; le16 csum_start;
                           le16 csum_offset; le16 num_buffers; }
   5.1.6.1: "the legacy driver only presented num_buffers in the struct virtio_net_hdr when
   VIRTIO_NET_F_MRG_RXBUF was negotiated; without that feature the structure was 2 bytes shorter" *)
Definition VIRTIO_F_VERSION_1 : N := 32.
Definition VIRTIO_NET_F_MRG_RXBUF : N := 15.

Definition spec_hdr_len (negotiated : N) : N :=
  if N.testbit negotiated VIRTIO_F_VERSION_1 || N.testbit negotiated VIRTIO_NET_F_MRG_RXBUF
  then 12 else 10.

Definition rd8 (l : list N) (off : nat) : N := nth off l 0.
Definition rd16 (l : list N) (off : nat) : N := nth off l 0 + 256 * nth (S off) l 0.

Record spec_hdr := mkSpecHdr {
  sh_flags : N; sh_gso_type : N; sh_hdr_len : N; sh_gso_size : N;
  sh_csum_start : N; sh_csum_offset : N; sh_num_buffers : N }.

(* the device reads the header from the front of what the chain's readable descriptors hold *)
Definition spec_parse (negotiated : N) (wire : list N) : option (spec_hdr * list N) :=
  let h := spec_hdr_len negotiated in
  if lenN wire <? h then None
  else Some (mkSpecHdr (rd8 wire 0) (rd8 wire 1) (rd16 wire 2) (rd16 wire 4) (rd16 wire 6) (rd16 wire 8)
                       (if h =? 12 then rd16 wire 10 else 0),
             skipn (N.to_nat h) wire).

(* 5.1.6.2 with no checksum / segmentation offload negotiated (this driver negotiates none):
   flags has no NEEDS_CSUM, gso_type is GSO_NONE, num_buffers is zero; "zeroed" = every field 0 *)
Definition hdr_is_zero (h : spec_hdr) : bool :=
  (sh_flags h =? 0) && (sh_gso_type h =? 0) && (sh_hdr_len h =? 0) && (sh_gso_size h =? 0)
  && (sh_csum_start h =? 0) && (sh_csum_offset h =? 0) && (sh_num_buffers h =? 0).

Fixpoint list_eqb (a b : list N) : bool :=
  match a, b with
  | [], [] => true
  | x :: a', y :: b' => (x =? y) && list_eqb a' b'
  | _, _ => false
  end.

(* the frame the device puts on the wire for a transmit chain whose readable bytes are `wire` *)
Definition spec_tx_frame (negotiated : N) (wire : list N) : option (list N) :=
  match spec_parse negotiated wire with
  | Some (h, payload) => if hdr_is_zero h then Some payload else None
  | None => None
  end.

(* transmit monitor: element lengths of the chain as the device walked it (lens), whether any element
   was device-writable (anyw), the bytes it read, and the frame the caller asked to send *)
Definition spec_tx_ok_b (negotiated : N) (lens : list N) (anyw : bool) (wire frame : list N) : bool :=
  negb anyw
  && forallb (fun l => negb (l =? 0)) lens                    (* 2.7.4: no zero-length descriptors *)
  && (fold_right N.add 0 lens =? lenN wire)
  && match spec_tx_frame negotiated wire with Some f => list_eqb f frame | None => false end.

(* 5.1.6.4: the device writes the header followed by the packet into the buffer and reports the total
   in the used element; the frame is what follows the header *)
Definition spec_rx_frame (negotiated : N) (used_len : N) (written : list N) : option (list N) :=
  let h := spec_hdr_len negotiated in
  if (used_len <? h) || (lenN written <? used_len) then None
  else Some (firstn (N.to_nat (N.min (used_len - h) (lenN written))) (skipn (N.to_nat h) written)).

(* receive monitor: what the driver returned (header length, packet length, packet bytes) against what
   the device wrote *)
Definition spec_rx_ok_b (negotiated used_len : N) (written : list N) (hdr_ret plen_ret : N)
  (packet : list N) : bool :=
  match spec_rx_frame negotiated used_len written with
  | Some f => (hdr_ret =? spec_hdr_len negotiated) && (plen_ret + hdr_ret =? used_len)
              && (plen_ret =? lenN f) && list_eqb packet f
  | None => false
  end.

(* ownership: the identities found in the three places a receive buffer can be (posted to the device,
   completed but not yet received, held by the caller) are, together, each of 0 .. size-1 exactly once *)
Fixpoint count_occ_N (l : list N) (x : N) : N :=
  match l with
  | [] => 0
  | y :: t => (if x =? y then 1 else 0) + count_occ_N t x
  end.
Definition each_once_b (size : N) (ids : list N) : bool :=
  (lenN ids =? size) && forallb (fun x => (x <? size) && (count_occ_N ids x =? 1)) ids.

Definition spec_ownership_ok_b (size : N) (posted pending owned : list N) : bool :=
  each_once_b size (posted ++ pending ++ owned).

(* readiness: can_recv iff the device has published a completion the driver has not consumed;
   can_send iff a header + frame chain fits: two free descriptors, or (indirect) one free descriptor
   in a table of at least two *)
Definition spec_can_recv (dev_used_idx drv_consumed : N) : bool := negb (w16 dev_used_idx =? w16 drv_consumed).
Definition spec_can_send (size in_flight_descs : N) (indirect : bool) : bool :=
  if indirect then (in_flight_descs <? size) && (2 <=? size) else in_flight_descs + 2 <=? size.

(* delivery: with a completion pending (device conforming) receive hands out exactly the completed
   buffer; with none pending it reports NotReady (error code 2).  For the raw interface: completing
   the token at the head of the used ring with its own buffer succeeds, anything else is refused. *)
Definition spec_receive_ok_b (pending : bool) (class code id_ret id_exp : N) : bool :=
  if pending then (class =? 0) && (id_ret =? id_exp) else (class =? 1) && (code =? 2).
Definition spec_complete_ok_b (expect_ok : bool) (class : N) : bool := Bool.eqb (class =? 0) expect_ok.
