(* The sound driver src/device/sound.rs on top of the virtqueue model (Model/Queue.v).                *)
(* Transcribed function by function:                                                               *)
(*   request (add_notify_wait_pop on the control queue with the request bytes and the 4096-byte    *)
(*   receive buffer), jack_info / pcm_info / chmap_info (as set_up calls them: start 0, count =    *)
(*   the configured total), set_up, jack_remap, pcm_set_params, pcm_prepare / release / start /    *)
(*   stop, pcm_xfer (the blocking loop with its 32-entry token / buffer / status rings),           *)
(*   pcm_xfer_nb, pcm_xfer_ok, output_streams / input_streams / rates_ / formats_ / features_ /    *)
(*   channel_range_supported; the #[repr(C)] request structures as little-endian byte encoders     *)
(*   (zerocopy IntoBytes on a little-endian target) and the response structures as field readers   *)
(*   (zerocopy FromBytes).                                                                          *)
(* At the end of the file: the three configuration reads of VirtIOSound::new (jacks / streams /    *)
(* chmaps), the event-queue part of new (OwningQueue::new, the conditional notification) and       *)
(* latest_notification (OwningQueue::poll, Model/Owning.v, with the closure that decodes a         *)
(* VirtIOSndEvent), as a state of its own (the event queue shares nothing with the other queues).  *)
(* Not modelled: VirtIOSound::new's handshake (C08) beyond the resulting state, the rx queue       *)
(* (never used by the driver), pcm_states (written, never read), padding bytes of the info         *)
(* structures (stored, never observable), log output.                                              *)
(* Everything the environment decides is an argument: share addresses, the device's notification   *)
(* suppression words, the used-ring words the driver reads, the contents of the receive buffer and *)
(* of a status structure after pop_used.                                                           *)
(* Next to its result every operation returns, for each chain it published, what a device reading  *)
(* device-visible memory at that moment obtains from the chain (dview): this is an observation     *)
(* computed from the queue state and the Hal memory contract, it never feeds back into the driver. *)
From VD Require Import Base.Words Model.Queue Model.Owning Model.Blk Model.BlkSpec Model.SoundSpec.

(* ---------- constants of sound.rs ---------- *)
Definition SND_QUEUE_SIZE : N := 32.
Definition CTL_Q : N := 0.
Definition TX_Q : N := 2.
Definition RECV_SIZE : N := 4096.                 (* PAGE_SIZE: queue_buf_recv *)
(* #[repr(u32)] enum CommandCode *)
Definition CC_RJackInfo : N := 1.
Definition CC_RJackRemap : N := 2.
Definition CC_RPcmInfo : N := 256.
Definition CC_RPcmSetParams : N := 257.
Definition CC_RPcmPrepare : N := 258.
Definition CC_RPcmRelease : N := 259.
Definition CC_RPcmStart : N := 260.
Definition CC_RPcmStop : N := 261.
Definition CC_RChmapInfo : N := 512.
Definition CC_SOk : N := 32768.                   (* = RequestStatusCode::Ok *)
Definition JACK_INFO_SZ : N := 24.                (* size_of::<VirtIOSndJackInfo>() *)
Definition PCM_INFO_SZ : N := 32.
Definition CHMAP_INFO_SZ : N := 24.
Definition SF_INDIRECT : N := 268435456.          (* 1 << 28 *)
Definition SF_EVENT_IDX : N := 536870912.         (* 1 << 29 *)
Definition SF_VERSION_1 : N := 4294967296.        (* 1 << 32 *)
Definition SF_ACCESS_PLATFORM : N := 8589934592.  (* 1 << 33 *)
Definition SND_SUPPORTED : N := SF_INDIRECT + SF_EVENT_IDX + SF_VERSION_1 + SF_ACCESS_PLATFORM.

(* buffer identities (the harness names the driver's buffers the same way) *)
Definition ID_REQ : N := 1.                       (* the request structure (a temporary) *)
Definition ID_RECV : N := 2.                      (* queue_buf_recv *)
Definition ID_SID : N := 3.                       (* stream_id_bytes of pcm_xfer *)
Definition id_status (i : N) : N := 10 + i.       (* statuses[i] of pcm_xfer *)
Definition id_chunk (k : N) : N := 1000 + k.      (* the k-th chunk of the caller's frames *)

(* ---------- request structures: as_bytes() ---------- *)
(* VirtIOSndQueryInfo { hdr, start_id, count, size } *)
Definition enc_query (code start count size : N) : list N :=
  le_bytes 4 code ++ le_bytes 4 start ++ le_bytes 4 count ++ le_bytes 4 size.
(* VirtIOSndPcmHdr { hdr, stream_id } *)
Definition enc_pcm_hdr (code sid : N) : list N := le_bytes 4 code ++ le_bytes 4 sid.
(* VirtIOSndPcmSetParams { hdr: VirtIOSndPcmHdr, buffer_bytes, period_bytes, features, channels, format, rate, _padding: 0 } *)
Definition enc_set_params (sid buffer period features channels format rate : N) : list N :=
  enc_pcm_hdr CC_RPcmSetParams sid ++ le_bytes 4 buffer ++ le_bytes 4 period ++ le_bytes 4 features
    ++ le_bytes 1 channels ++ le_bytes 1 format ++ le_bytes 1 rate ++ le_bytes 1 0.
(* VirtIOSndJackRemap { hdr: VirtIOSndJackHdr { hdr, jack_id }, association, sequence } *)
Definition enc_jack_remap (jack association sequence : N) : list N :=
  le_bytes 4 CC_RJackRemap ++ le_bytes 4 jack ++ le_bytes 4 association ++ le_bytes 4 sequence.
(* stream_id.to_le_bytes() *)
Definition enc_xfer_hdr (sid : N) : list N := le_bytes 4 sid.

(* ---------- response structures: read_from_bytes / read_from_prefix ---------- *)
Definition rd (bs : list N) (off n : nat) : N := le_val (firstn n (skipn off bs)).
Definition parse_jack (b : list N) : jack_info := mkJack (rd b 0 4) (rd b 4 4) (rd b 8 4) (rd b 12 4) (rd b 16 1).
Definition parse_pcm (b : list N) : pcm_info :=
  mkPcm (rd b 0 4) (rd b 4 4) (rd b 8 8) (rd b 16 8) (rd b 24 1) (rd b 25 1) (rd b 26 1).
Definition parse_chmap (b : list N) : chmap_info := mkChmap (rd b 0 4) (rd b 4 1) (rd b 5 1) (firstn 18 (skipn 6 b)).
(* VirtIOSndHdr::read_from_prefix(&queue_buf_recv).0 == RequestStatusCode::Ok.into() *)
Definition hdr_ok (rsp : list N) : bool := rd rsp 0 4 =? CC_SOk.

(* &queue_buf_recv[HDR_SIZE + i * SZ .. HDR_SIZE + (i + 1) * SZ] for i in 0..count:
   a slice end above 4096 panics. n bounds the recursion: items beyond 4096 / 24 can never be read. *)
Definition slice (bs : list N) (off len : N) : list N := firstn (N.to_nat len) (skipn (N.to_nat off) bs).
Fixpoint parse_infos {A} (parse : list N -> A) (size : N) (rsp : list N) (i : N) (n : nat) : outcome (list A) :=
  match n with
  | O => Ok []
  | S n' =>
      if RECV_SIZE <? 4 + (i + 1) * size then Panic
      else match parse_infos parse size rsp (i + 1) n' with
           | Ok l => Ok (parse (slice rsp (4 + i * size) size) :: l)
           | Err e => Err e
           | Panic => Panic
           | UB => UB
           end
  end.
Definition INFO_FUEL : N := 200.
Definition parse_all {A} (parse : list N -> A) (size : N) (rsp : list N) (count : N) : outcome (list A) :=
  parse_infos parse size rsp 0 (N.to_nat (N.min count INFO_FUEL)).

(* ---------- state ---------- *)
(* struct PcmParameters *)
Record pparams := mkPP { pp_setup : bool; pp_buffer : N; pp_period : N; pp_features : N;
                         pp_channels : N; pp_format : N; pp_rate : N }.
Definition pp_default : pparams := mkPP false 0 0 0 0 0 0.

Record sstate := mkSnd {
  s_ctl : qstate;                                (* control_queue *)
  s_tx : qstate;                                 (* tx_queue *)
  s_jacks : N; s_streams : N; s_chmaps : N;
  s_set_up : bool;
  s_jack_infos : option (list jack_info);
  s_pcm_infos : option (list pcm_info);
  s_chmap_infos : option (list chmap_info);
  s_params : list pparams;                       (* pcm_parameters *)
  s_tok_buf : list (N * (N * list N));           (* token_buf: token -> (identity of the Vec, its bytes) *)
  s_tok_rsp : list (N * N) }.                    (* token_rsp: token -> identity of the boxed status *)

Definition set_ctl (s : sstate) (q : qstate) : sstate :=
  mkSnd q (s_tx s) (s_jacks s) (s_streams s) (s_chmaps s) (s_set_up s) (s_jack_infos s) (s_pcm_infos s)
        (s_chmap_infos s) (s_params s) (s_tok_buf s) (s_tok_rsp s).
Definition set_tx (s : sstate) (q : qstate) : sstate :=
  mkSnd (s_ctl s) q (s_jacks s) (s_streams s) (s_chmaps s) (s_set_up s) (s_jack_infos s) (s_pcm_infos s)
        (s_chmap_infos s) (s_params s) (s_tok_buf s) (s_tok_rsp s).
Definition set_infos (s : sstate) (su : bool) (j : option (list jack_info)) (p : option (list pcm_info))
  (c : option (list chmap_info)) : sstate :=
  mkSnd (s_ctl s) (s_tx s) (s_jacks s) (s_streams s) (s_chmaps s) su j p c (s_params s) (s_tok_buf s) (s_tok_rsp s).
Definition set_params (s : sstate) (ps : list pparams) : sstate :=
  mkSnd (s_ctl s) (s_tx s) (s_jacks s) (s_streams s) (s_chmaps s) (s_set_up s) (s_jack_infos s) (s_pcm_infos s)
        (s_chmap_infos s) ps (s_tok_buf s) (s_tok_rsp s).
Definition set_toks (s : sstate) (q : qstate) (tb : list (N * (N * list N))) (tr : list (N * N)) : sstate :=
  mkSnd (s_ctl s) q (s_jacks s) (s_streams s) (s_chmaps s) (s_set_up s) (s_jack_infos s) (s_pcm_infos s)
        (s_chmap_infos s) (s_params s) tb tr.

(* slice indexing with an index of any size: same answers as nthN_error, without building a huge numeral *)
Definition nth_safe {A} (l : list A) (i : N) : option A := if lenN l <=? i then None else nthN_error l i.

(* BTreeMap<u16, _>: insert replaces, remove deletes *)
Definition map_remove {A} (m : list (N * A)) (k : N) : list (N * A) := filter (fun kv => negb (fst kv =? k)) m.
Definition map_insert {A} (m : list (N * A)) (k : N) (v : A) : list (N * A) := (k, v) :: map_remove m k.
Fixpoint map_get {A} (m : list (N * A)) (k : N) : option A :=
  match m with
  | [] => None
  | (k', v) :: t => if k' =? k then Some v else map_get t k
  end.

(* VirtIOSound::new once the handshake and the four VirtQueue::new have succeeded (C06 / C08):
   the state, given the device's feature word and the three configuration values *)
Definition snd_new (dev_features jacks streams chmaps : N) : sstate :=
  let f := N.land dev_features SND_SUPPORTED in
  let ind := has_feat f SF_INDIRECT in
  let ev := has_feat f SF_EVENT_IDX in
  mkSnd (qnew SND_QUEUE_SIZE ind ev) (qnew SND_QUEUE_SIZE ind ev) (w32 jacks) (w32 streams) (w32 chmaps)
        false None None None (repeat pp_default (N.to_nat (w32 streams))) [] [].

(* ---------- events ---------- *)
Inductive sev :=
| SQ (qi : N) (e : qev)
| SNotify (qi : N).
Definition sq (qi : N) (l : list qev) : list sev := map (SQ qi) l.

(* ---------- what a device obtains from a published chain ---------- *)
(* (device-readable bytes in chain order, total device-writable length), read through the chain walk of
   Model/Queue.v and device-visible memory dm; None when the chain is not walkable or a writable element
   precedes a readable one (2.7.4) *)
Definition dview := option (list N * N).
Definition dev_view (q : qstate) (tm : N -> option (list desc)) (tok : N) (dm : amap) : dview :=
  match walk (q_dtable q) tm tok (N.to_nat (q_size q)) with
  | Some els =>
      if readable_first els
      then Some (concat (map (el_bytes dm) (readable_part els)), sumN (map (fun e => snd (fst e)) (writable_part els)))
      else None
  | None => None
  end.
(* right after an add that returned tok: device memory is what Hal::share made of the caller's memory
   (Model/BlkSpec.hal_ev), the indirect table (if any) is readable at the address share answered *)
Definition publish_view (q1 : qstate) (tok : N) (evs : list qev) (caller : amap) (taddr : N) : dview :=
  let w := hal_run (mkW caller (fun _ => [])) evs in
  let tm := fun a => if a =? taddr
                     then match nthN_error (q_ind q1) tok with Some (Some t) => Some t | _ => None end
                     else None in
  dev_view q1 tm tok (w_dev w).

Definition fail_as {A B} (o : outcome A) : outcome B :=
  match o with Ok _ => Panic | Err e => Err e | Panic => Panic | UB => UB end.

(* result of an operation: None = the busy-wait did not end on the given device answers *)
Definition sres (A : Type) : Type := option (outcome A * sstate * list sev * list dview).

(* ---------- request ---------- *)
(* environment of one control request: share answers (request, receive buffer, indirect table), the
   device's suppression words at should_notify, the used index on which the wait ended, the used element,
   and the receive buffer as pop_used left it *)
Record cenv := mkCE { ce_areq : N; ce_arecv : N; ce_taddr : N; ce_ae : N; ce_uf : N;
                      ce_uidx : N; ce_uid : N; ce_ulen : N; ce_rsp : list N }.
Definition ce0 : cenv := mkCE 0 0 0 0 0 0 0 0 [].

(* fn request: control_queue.add_notify_wait_pop(&[req.as_bytes()], &mut [queue_buf_recv], transport)?;
   Ok(VirtIOSndHdr::read_from_prefix(&queue_buf_recv)); the callers go on reading queue_buf_recv, so the
   whole buffer is returned *)
Definition ctl_request (s : sstate) (req : list N) (e : cenv) : sres (list N) :=
  let ins := [mkBuf ID_REQ (lenN req) (ce_areq e)] in
  let outs := [mkBuf ID_RECV RECV_SIZE (ce_arecv e)] in
  let '(o, q1, evs) := add (s_ctl s) ins outs (ce_taddr e) in
  match o with
  | Ok tok =>
      let view := publish_view q1 tok evs (fun id => if id =? ID_REQ then req else []) (ce_taddr e) in
      let nev := if should_notify q1 (ce_ae e) (ce_uf e) then [SNotify CTL_Q] else [] in
      if can_pop q1 (ce_uidx e) then
        let '(o2, q2, evs2) := pop_used q1 tok ins outs (ce_uidx e) (ce_uid e) (ce_ulen e) in
        Some (match o2 with Ok _ => Ok (ce_rsp e) | _ => fail_as o2 end,
              set_ctl s q2, sq CTL_Q evs ++ nev ++ sq CTL_Q evs2, [view])
      else None
  | _ => Some (fail_as o, set_ctl s q1, sq CTL_Q evs, [])
  end.

(* jack_info / pcm_info / chmap_info as called by set_up: (0, total). The guard
   `start + count > total` is then never true and the sum cannot overflow. *)
Definition query_infos {A} (s : sstate) (code count size : N) (parse : list N -> A) (e : cenv) : sres (list A) :=
  match ctl_request s (enc_query code 0 count size) e with
  | None => None
  | Some (Ok rsp, s1, evs, vs) =>
      if hdr_ok rsp then Some (parse_all parse size rsp count, s1, evs, vs)
      else Some (Err EIoError, s1, evs, vs)
  | Some (o, s1, evs, vs) => Some (fail_as o, s1, evs, vs)
  end.

Definition is_fatal {A} (o : outcome A) : bool := match o with Panic | UB => true | _ => false end.

(* fn set_up: a failed jack or chmap query is tolerated (empty list), a failed pcm query is returned *)
Definition snd_set_up (s : sstate) (e1 e2 e3 : cenv) : sres unit :=
  match query_infos s CC_RJackInfo (s_jacks s) JACK_INFO_SZ parse_jack e1 with
  | None => None
  | Some (oj, s1, ev1, v1) =>
      if is_fatal oj then Some (fail_as oj, s1, ev1, v1) else
      let s1' := set_infos s1 (s_set_up s1) (Some (match oj with Ok l => l | _ => [] end)) (s_pcm_infos s1) (s_chmap_infos s1) in
      match query_infos s1' CC_RPcmInfo (s_streams s1') PCM_INFO_SZ parse_pcm e2 with
      | None => None
      | Some (Ok pl, s2, ev2, v2) =>
          let s2' := set_infos s2 (s_set_up s2) (s_jack_infos s2) (Some pl) (s_chmap_infos s2) in
          match query_infos s2' CC_RChmapInfo (s_chmaps s2') CHMAP_INFO_SZ parse_chmap e3 with
          | None => None
          | Some (oc, s3, ev3, v3) =>
              if is_fatal oc then Some (fail_as oc, s3, ev1 ++ ev2 ++ ev3, v1 ++ v2 ++ v3) else
              Some (Ok tt,
                    set_infos s3 (s_set_up s3) (s_jack_infos s3) (s_pcm_infos s3) (Some (match oc with Ok l => l | _ => [] end)),
                    ev1 ++ ev2 ++ ev3, v1 ++ v2 ++ v3)
          end
      | Some (op, s2, ev2, v2) => Some (fail_as op, s2, ev1 ++ ev2, v1 ++ v2)
      end
  end.

(* if !self.set_up { self.set_up()?; self.set_up = true; } then the body k *)
Definition with_set_up {A} (s : sstate) (es : list cenv) (k : sstate -> list cenv -> sres A) : sres A :=
  if s_set_up s then k s es
  else match snd_set_up s (nth 0 es ce0) (nth 1 es ce0) (nth 2 es ce0) with
       | None => None
       | Some (Ok _, s1, evs, vs) =>
           let s1' := set_infos s1 true (s_jack_infos s1) (s_pcm_infos s1) (s_chmap_infos s1) in
           (* a failed pcm query consumed two environments, a complete set_up three *)
           match k s1' (skipn 3 es) with
           | None => None
           | Some (o, s2, evs2, vs2) => Some (o, s2, evs ++ evs2, vs ++ vs2)
           end
       | Some (o, s1, evs, vs) => Some (fail_as o, s1, evs, vs)
       end.

(* ---------- control operations ---------- *)
Definition snd_pcm_set_params (s : sstate) (sid buffer period features channels format rate : N) (es : list cenv)
  : sres unit :=
  with_set_up s es (fun s1 es1 =>
    if (period =? 0) || (buffer <? period) || negb (buffer mod period =? 0)
    then Some (Err EInvalidParam, s1, [], [])
    else match ctl_request s1 (enc_set_params sid buffer period features channels format rate) (nth 0 es1 ce0) with
         | None => None
         | Some (Ok rsp, s2, evs, vs) =>
             if hdr_ok rsp then
               (* self.pcm_parameters[stream_id as usize] = ...: an index out of range panics *)
               if sid <? lenN (s_params s2)
               then Some (Ok tt, set_params s2 (updN (s_params s2) sid (mkPP true buffer period features channels format rate)), evs, vs)
               else Some (Panic, s2, evs, vs)
             else Some (Err EIoError, s2, evs, vs)
         | Some (o, s2, evs, vs) => Some (fail_as o, s2, evs, vs)
         end).

(* pcm_prepare / pcm_release / pcm_start / pcm_stop: code = the request code *)
Definition snd_pcm_cmd (s : sstate) (code sid : N) (es : list cenv) : sres unit :=
  with_set_up s es (fun s1 es1 =>
    match ctl_request s1 (enc_pcm_hdr code sid) (nth 0 es1 ce0) with
    | None => None
    | Some (Ok rsp, s2, evs, vs) => Some (if hdr_ok rsp then Ok tt else Err EIoError, s2, evs, vs)
    | Some (o, s2, evs, vs) => Some (fail_as o, s2, evs, vs)
    end).

(* jack_remap. jack_missing: the result when the stored jack list has no entry jack_id although
   jack_id < jacks (the list is empty after a tolerated failure of the jack query): IoError since the
   repair, a panic (unwrap of None) before it *)
Definition snd_jack_remap_gen (jack_missing : outcome unit) (s : sstate) (jack association sequence : N) (es : list cenv)
  : sres unit :=
  with_set_up s es (fun s1 es1 =>
    if s_jacks s1 =? 0 then Some (Err EInvalidParam, s1, [], [])
    else if s_jacks s1 <=? jack then Some (Err EInvalidParam, s1, [], [])
    else match s_jack_infos s1 with
         | None => Some (Panic, s1, [], [])
         | Some l =>
             match nth_safe l jack with
             | None => Some (jack_missing, s1, [], [])
             | Some j =>
                 if N.land (j_features j) 1 =? 0 then Some (Err EUnsupported, s1, [], [])
                 else match ctl_request s1 (enc_jack_remap jack association sequence) (nth 0 es1 ce0) with
                      | None => None
                      | Some (Ok rsp, s2, evs, vs) => Some (if hdr_ok rsp then Ok tt else Err EUnsupported, s2, evs, vs)
                      | Some (o, s2, evs, vs) => Some (fail_as o, s2, evs, vs)
                      end
             end
         end).
(* the repaired code: `.get(jack_id as usize).ok_or(Error::IoError)?` *)
Definition snd_jack_remap := snd_jack_remap_gen (Err EIoError).
(* the code as it stood before the repair: `.get(jack_id as usize).unwrap()` (kept for the refutation lemma) *)
Definition snd_jack_remap_prefix := snd_jack_remap_gen Panic.

(* ---------- queries answered from the stored stream infos ---------- *)
Fixpoint drv_streams_dir (infos : list pcm_info) (dir : N) (i : N) : list N :=
  match infos with
  | [] => []
  | p :: rest => (if p_direction p =? dir then [w32 i] else []) ++ drv_streams_dir rest dir (i + 1)
  end.

(* which: 0 output_streams, 1 input_streams, 2 rates_supported, 3 formats_supported,
          4 channel_range_supported (min, max), 5 features_supported *)
Definition snd_get (s : sstate) (which sid : N) (es : list cenv) : sres (list N) :=
  with_set_up s es (fun s1 _ =>
    match s_pcm_infos s1 with
    | None => Some (Panic, s1, [], [])
    | Some infos =>
        if which =? 0 then Some (Ok (drv_streams_dir infos 0 0), s1, [], [])
        else if which =? 1 then Some (Ok (drv_streams_dir infos 1 0), s1, [], [])
        else if w32 (lenN infos) <=? sid then Some (Err EInvalidParam, s1, [], [])
        else match nth_safe infos sid with
             | None => Some (Panic, s1, [], [])
             | Some p =>
                 Some (Ok (if which =? 2 then [p_rates p] else if which =? 3 then [p_formats p]
                           else if which =? 4 then [p_chmin p; p_chmax p] else [p_features p]), s1, [], [])
             end
    end).

(* ---------- pcm_xfer ---------- *)
(* frames.chunks(period): consecutive pieces of `period` bytes, the last one possibly shorter *)
Fixpoint chunks_fuel (fuel : nat) (p : nat) (l : list N) : list (list N) :=
  match fuel with
  | O => []
  | S f => match l with
           | [] => []
           | _ => firstn p l :: chunks_fuel f p (skipn p l)
           end
  end.
Definition chunks (period : N) (l : list N) : list (list N) :=
  chunks_fuel (length l) (N.to_nat (N.min period (lenN l))) l.

(* environment of one iteration of the loop: share answers of the add (stream id bytes, chunk, status,
   table), suppression words at should_notify, the used ring as can_pop / pop_used read it, and the
   status word found in statuses[tail] after pop_used *)
Record xenv := mkXE { xe_asid : N; xe_achunk : N; xe_astat : N; xe_taddr : N; xe_ae : N; xe_uf : N;
                      xe_uidx : N; xe_uid : N; xe_ulen : N; xe_st : N }.

(* the locals of the loop *)
Record xst := mkX {
  x_q : qstate;
  x_rem : list (list N);            (* remaining_buffers *)
  x_k : N;                          (* how many chunks have been taken from the iterator *)
  x_head : N; x_tail : N;
  x_tokens : list N;                (* [u16; 32] *)
  x_bufs : list (option (N * N)) }. (* [Option<&[u8]>; 32]: identity and length of the chunk *)

Inductive xres :=
| XCont (x : xst)
| XDone (o : outcome unit) (q : qstate).

Definition wrap32 (i : N) : N := if SND_QUEUE_SIZE <=? i + 1 then 0 else i + 1.

Definition xfer_ins (sid_addr : N) (cid clen caddr : N) : list ubuf := [mkBuf ID_SID 4 sid_addr; mkBuf cid clen caddr].
Definition xfer_outs (i saddr : N) : list ubuf := [mkBuf (id_status i) 8 saddr].

(* the first half of an iteration: add the next chunk if 3 descriptors are available *)
Definition xfer_add (sid : N) (e : xenv) (x : xst) : xres * list sev * list dview :=
  if 3 <=? available_desc (x_q x) then
    match x_rem x with
    | c :: rest =>
        let ins := xfer_ins (xe_asid e) (id_chunk (x_k x)) (lenN c) (xe_achunk e) in
        let outs := xfer_outs (x_head x) (xe_astat e) in
        let '(o, q1, evs) := add (x_q x) ins outs (xe_taddr e) in
        match o with
        | Ok tok =>
            let caller := fun id => if id =? ID_SID then enc_xfer_hdr sid else if id =? id_chunk (x_k x) then c else [] in
            let view := publish_view q1 tok evs caller (xe_taddr e) in
            let nev := if should_notify q1 (xe_ae e) (xe_uf e) then [SNotify TX_Q] else [] in
            (XCont (mkX q1 rest (x_k x + 1) (wrap32 (x_head x)) (x_tail x)
                        (updN (x_tokens x) (x_head x) tok)
                        (updN (x_bufs x) (x_head x) (Some (id_chunk (x_k x), lenN c)))),
             sq TX_Q evs ++ nev, [view])
        | _ => (XDone (fail_as o) q1, sq TX_Q evs, [])
        end
    | [] => if x_head x =? x_tail x then (XDone (Ok tt) (x_q x), [], []) else (XCont x, [], [])
    end
  else (XCont x, [], []).

(* the second half: pop the oldest outstanding transfer if the used ring has something *)
Definition xfer_pop (e : xenv) (x : xst) : xres * list sev :=
  if can_pop (x_q x) (xe_uidx e) then
    match nthN (x_bufs x) (x_tail x) None with
    | None => (XDone Panic (x_q x), [])                          (* buffers[tail].unwrap() *)
    | Some (cid, clen) =>
        let '(o, q1, evs) := pop_used (x_q x) (nthN (x_tokens x) (x_tail x) 0)
                                      (xfer_ins 0 cid clen 0) (xfer_outs (x_tail x) 0)
                                      (xe_uidx e) (xe_uid e) (xe_ulen e) in
        match o with
        | Ok _ =>
            if negb (w32 (xe_st e) =? CC_SOk) then (XDone (Err EIoError) q1, sq TX_Q evs)
            else (XCont (mkX q1 (x_rem x) (x_k x) (x_head x) (wrap32 (x_tail x)) (x_tokens x) (x_bufs x)), sq TX_Q evs)
        | _ => (XDone (fail_as o) q1, sq TX_Q evs)
        end
    end
  else (XCont x, []).

Definition xfer_iter (sid : N) (e : xenv) (x : xst) : xres * list sev * list dview :=
  match xfer_add sid e x with
  | (XCont x1, evs, vs) => let '(r, evs2) := xfer_pop e x1 in (r, evs ++ evs2, vs)
  | r => r
  end.

(* the loop over the environments of its iterations; None: it is still running when they run out *)
Fixpoint xfer_loop (sid : N) (envs : list xenv) (x : xst) : option (outcome unit * qstate * list sev * list dview) :=
  match envs with
  | [] => None
  | e :: rest =>
      match xfer_iter sid e x with
      | (XDone o q, evs, vs) => Some (o, q, evs, vs)
      | (XCont x', evs, vs) =>
          match xfer_loop sid rest x' with
          | None => None
          | Some (o, q, evs', vs') => Some (o, q, evs ++ evs', vs ++ vs')
          end
      end
  end.

Definition xst_init (q : qstate) (period : N) (frames : list N) : xst :=
  mkX q (chunks period frames) 0 0 0 (repeat 0 32) (repeat None 32).

Definition snd_pcm_xfer (s : sstate) (sid : N) (frames : list N) (es : list cenv) (xenvs : list xenv) : sres unit :=
  with_set_up s es (fun s1 _ =>
    match nth_safe (s_params s1) sid with
    | None => Some (Panic, s1, [], [])                           (* self.pcm_parameters[stream_id as usize] *)
    | Some p =>
        if negb (pp_setup p) then Some (Err EIoError, s1, [], [])
        else if pp_period p =? 0 then Some (Panic, s1, [], [])     (* chunks(0); unreachable: see params_wf *)
        else match xfer_loop sid xenvs (xst_init (s_tx s1) (pp_period p) frames) with
             | None => None
             | Some (o, q, evs, vs) => Some (o, set_tx s1 q, evs, vs)
             end
    end).

(* ---------- pcm_xfer_nb / pcm_xfer_ok ---------- *)
Record nenv := mkNE { ne_abuf : N; ne_arsp : N; ne_taddr : N; ne_ae : N; ne_uf : N }.

(* bid / rid: the identities of the freshly allocated Vec and Box *)
Definition snd_pcm_xfer_nb (s : sstate) (sid : N) (frames : list N) (bid rid : N) (es : list cenv) (e : nenv) : sres N :=
  with_set_up s es (fun s1 _ =>
    match nth_safe (s_params s1) sid with
    | None => Some (Panic, s1, [], [])
    | Some p =>
        if negb (pp_setup p) then Some (Err EIoError, s1, [], [])
        else if negb (pp_period p =? lenN frames) then Some (Panic, s1, [], [])   (* assert_eq!(period_size, frames.len()) *)
        else
          let buf := enc_xfer_hdr sid ++ frames in
          let ins := [mkBuf bid (lenN buf) (ne_abuf e)] in
          let outs := [mkBuf rid 8 (ne_arsp e)] in
          let '(o, q1, evs) := add (s_tx s1) ins outs (ne_taddr e) in
          match o with
          | Ok tok =>
              let view := publish_view q1 tok evs (fun id => if id =? bid then buf else []) (ne_taddr e) in
              let nev := if should_notify q1 (ne_ae e) (ne_uf e) then [SNotify TX_Q] else [] in
              Some (Ok tok, set_toks s1 q1 (map_insert (s_tok_buf s1) tok (bid, buf)) (map_insert (s_tok_rsp s1) tok rid),
                    sq TX_Q evs ++ nev, [view])
          | _ => Some (fail_as o, set_tx s1 q1, sq TX_Q evs, [])
          end
    end).

(* check_status: whether the status word the device left is looked at (the repaired code:
   `if rsp.status != CommandCode::SOk.into() { return Err(Error::IoError); }` after the two removes) or not (the
   code as it stood before the repair, which returned Ok(()) unconditionally: kept for the refutation lemma).
   st: the status field of token_rsp[token] after pop_used *)
Definition snd_pcm_xfer_ok_gen (check_status : bool) (s : sstate) (token : N) (u_idx u_id u_len st : N)
  : outcome unit * sstate * list sev :=
  match map_get (s_tok_buf s) token, map_get (s_tok_rsp s) token with
  | Some (bid, buf), Some rid =>
      let '(o, q1, evs) := pop_used (s_tx s) token [mkBuf bid (lenN buf) 0] [mkBuf rid 8 0] u_idx u_id u_len in
      match o with
      | Ok _ =>
          (if check_status && negb (w32 st =? CC_SOk) then Err EIoError else Ok tt,
           set_toks s q1 (map_remove (s_tok_buf s) token) (map_remove (s_tok_rsp s) token), sq TX_Q evs)
      | _ => (fail_as o, set_tx s q1, sq TX_Q evs)
      end
  | _, _ => (Panic, s, [])                                        (* the two assert!(contains_key) *)
  end.
Definition snd_pcm_xfer_ok := snd_pcm_xfer_ok_gen true.
Definition snd_pcm_xfer_ok_prefix := snd_pcm_xfer_ok_gen false.

(* ======================================================================================================= *)
(* VirtIOSound::new: the configuration space                                                               *)
(* #[repr(C)] struct VirtIOSoundConfig { jacks: ReadOnly<u32>, streams: ReadOnly<u32>, chmaps: ReadOnly<u32> }:
   offsets 0, 4, 8.  `let jacks = read_config!(transport, VirtIOSoundConfig, jacks)?;` then streams, then chmaps:
   three Transport::read_config_space::<u32> calls.  a0 a1 a2: what the transport answers to them. *)
Inductive scev := SCRead (off width : N).

Definition snd_read_config (a0 a1 a2 : outcome N) : outcome (N * N * N) * list scev :=
  match a0 with
  | Ok j =>
      match a1 with
      | Ok st =>
          match a2 with
          | Ok c => (Ok (w32 j, w32 st, w32 c), [SCRead 0 4; SCRead 4 4; SCRead 8 4])
          | Err e => (Err e, [SCRead 0 4; SCRead 4 4; SCRead 8 4])
          | Panic => (Panic, [SCRead 0 4; SCRead 4 4; SCRead 8 4])
          | UB => (UB, [SCRead 0 4; SCRead 4 4; SCRead 8 4])
          end
      | Err e => (Err e, [SCRead 0 4; SCRead 4 4])
      | Panic => (Panic, [SCRead 0 4; SCRead 4 4])
      | UB => (UB, [SCRead 0 4; SCRead 4 4])
      end
  | Err e => (Err e, [SCRead 0 4])
  | Panic => (Panic, [SCRead 0 4])
  | UB => (UB, [SCRead 0 4])
  end.

(* pub fn jacks(&self) / streams(&self) / chmaps(&self): the stored fields *)
Definition snd_counters (s : sstate) : N * N * N := (s_jacks s, s_streams s, s_chmaps s).

(* ======================================================================================================= *)
(* the event queue: OwningQueue<H, 32, 8>                                                                  *)
Definition EVT_Q : N := 1.                        (* EVENT_QUEUE_IDX *)
Definition SND_EVENT_SIZE : N := 8.               (* size_of::<VirtIOSndEvent>() *)

(* OwningQueue::new(VirtQueue::new(&mut transport, EVENT_QUEUE_IDX, ..)?)? and, after finish_init,
   `if event_queue.should_notify() { transport.notify(EVENT_QUEUE_IDX); }`.
   start: where the free-running indices of the fresh queue stand (0 in the code; any value, to cover the wrap);
   addrs: the 32 share answers; ae / uf: the device's suppression words when should_notify is asked *)
Definition snd_evq_new (dev_features start : N) (addrs : list N) (ae uf : N) : outcome unit * qstate * list oev :=
  let f := N.land dev_features SND_SUPPORTED in
  let q0 := qset_indices (qnew SND_QUEUE_SIZE (has_feat f SF_INDIRECT) (has_feat f SF_EVENT_IDX)) start in
  let '(o, q, evs) := owning_new_loop addrs 0 SND_EVENT_SIZE q0 in
  match o with
  | Ok _ => (Ok tt, q, map OQ evs ++ (if should_notify q ae uf then [ONotify] else []))
  | _ => (o, q, map OQ evs)
  end.

(* NotificationType::n(value) *)
Definition snd_ntype_known (code : N) : bool :=
  (code =? 4352) || (code =? 4353) || (code =? 4096) || (code =? 4097).

(* the closure handed to poll:
     if let Ok(event) = VirtIOSndEvent::read_from_bytes(buffer) {
         Ok(Some(Notification { notification_type: NotificationType::n(event.hdr.command_code).ok_or(Error::IoError)?, data: event.data }))
     } else { Ok(None) }
   read_from_bytes succeeds iff the slice has exactly size_of::<VirtIOSndEvent>() = 8 bytes. Result: (type code, data) *)
Definition snd_event_handler (buffer : list N) : outcome (option (N * N)) :=
  if lenN buffer =? SND_EVENT_SIZE then
    let code := rd buffer 0 4 in
    if snd_ntype_known code then Ok (Some (code, rd buffer 4 4)) else Err EIoError
  else Ok None.

(* what the device shows and the platform answers during one call: used index, used element (id, len), the
   contents of the completed buffer after the copy-back at unshare, the share answer for the re-posted buffer, the
   suppression words when should_notify is asked *)
Record nview := mkNV { nv_idx : N; nv_id : N; nv_len : N; nv_wr : list N; nv_addr : N; nv_ae : N; nv_uf : N }.

(* pub fn latest_notification(&mut self) = self.event_queue.poll(&mut self.transport, closure): OwningQueue::poll
   (Model/Owning.owning_poll, transcribed again with the closure in place of an abstract handler answer) *)
Definition snd_latest_notification (q : qstate) (v : nview) : outcome (option (N * N)) * qstate * list oev :=
  let '(o, q1, evs) := owning_pop q SND_EVENT_SIZE (nv_idx v) (nv_id v) (nv_len v) in
  match o with
  | Ok (Some (len, token)) =>
      let result := if SND_EVENT_SIZE <? len then Err EIoError
                    else snd_event_handler (firstn (N.to_nat len) (nv_wr v)) in    (* handler(&buffer[0..len]) *)
      let '(o2, q2, evs2) := owning_readd q1 SND_EVENT_SIZE token (nv_addr v) (nv_ae v) (nv_uf v) in
      match o2 with
      | Ok _ => (result, q2, map OQ evs ++ evs2)
      | Err e => (Err e, q2, map OQ evs ++ evs2)
      | Panic => (Panic, q2, map OQ evs ++ evs2)
      | UB => (UB, q2, map OQ evs ++ evs2)
      end
  | Ok None => (Ok None, q1, map OQ evs)
  | Err e => (Err e, q1, map OQ evs)
  | Panic => (Panic, q1, map OQ evs)
  | UB => (UB, q1, map OQ evs)
  end.

(* a run of polls *)
Fixpoint snd_notif_run (q : qstate) (vs : list nview) : list (outcome (option (N * N))) * qstate :=
  match vs with
  | [] => ([], q)
  | v :: r =>
      let '(o, q1, _) := snd_latest_notification q v in
      let '(os, q2) := snd_notif_run q1 r in (o :: os, q2)
  end.
