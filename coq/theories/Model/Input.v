(* VirtIOInput (src/device/input.rs) on top of the virtqueue model (Model/Queue.v): the event-queue    *)
(* part of `new` (the posting loop with its assert_eq!(token, i), finish_init, the conditional         *)
(* notification) and `pop_pending_event`, transcribed statement by statement.  VirtIOInput does NOT    *)
(* use OwningQueue: it posts its 32 InputEvent buffers by hand and re-posts each one itself.           *)
(* Everything the environment decides is an argument: the used ring as the device shows it - read      *)
(* TWICE by pop_pending_event (peek_used, then pop_used reads index and id again) -, the bytes the     *)
(* buffer holds after the copy-back at unshare, the address Hal::share answers, what the platform      *)
(* leaves in the driver-side copy of a buffer while it is shared, the suppression words.               *)
(* NOT modelled: feature negotiation and the two VirtQueue::new calls of `new` (C08, C06), the status  *)
(* queue (created, never used), Drop (C09).                                                            *)
From VD Require Import Base.Words Model.Queue.

Definition IN_QSIZE : N := 32.          (* QUEUE_SIZE *)
Definition IN_QSIZE_nat : nat := 32.
Definition IN_Q_EVENT : N := 0.         (* QUEUE_EVENT *)
Definition IN_Q_STATUS : N := 1.        (* QUEUE_STATUS *)
Definition IN_EV_SIZE : N := 8.         (* size_of::<InputEvent>() *)

Inductive iev :=
| IQ (e : qev)            (* an effect of the virtqueue code on the event queue *)
| IDriverOk               (* transport.finish_init() *)
| INotify (q : N).        (* transport.notify(q) *)

(* InputEvent { event_type: u16, code: u16, value: u32 }, little-endian, repr(C): 8 bytes *)
Record ievent := mkIEv { ie_type : N; ie_code : N; ie_value : N }.

Definition in_byte (l : list N) (i : nat) : N := w8 (nth i l 0).
Definition in_ev_of_bytes (l : list N) : ievent :=
  mkIEv (in_byte l 0 + 256 * in_byte l 1)
        (in_byte l 2 + 256 * in_byte l 3)
        (in_byte l 4 + 256 * in_byte l 5 + 65536 * in_byte l 6 + 16777216 * in_byte l 7).
Definition in_bytes_of_ev (e : ievent) : list N :=
  [ie_type e mod 256; (ie_type e / 256) mod 256;
   ie_code e mod 256; (ie_code e / 256) mod 256;
   ie_value e mod 256; (ie_value e / 256) mod 256; (ie_value e / 65536) mod 256; (ie_value e / 16777216) mod 256].

(* event_buf[i]: identity i, 8 bytes, device-writable; addr is the share answer *)
Definition in_ebuf (i addr : N) : ubuf := mkBuf i IN_EV_SIZE addr.

(* the driver: the event queue and the contents of event_buf as the driver side holds them *)
Record istate := mkIn { in_q : qstate; in_buf : list (list N) }.

(* ---------- new: `for (i, event) in event_buf.iter_mut().enumerate()` ---------- *)
(* k iterations left, i the running index (i < 32, so `i as u16` is i), addrs the share answers in order *)
Fixpoint input_post_loop (k : nat) (i : N) (addrs : list N) (s : qstate)
  : outcome unit * qstate * list qev :=
  match k with
  | O => (Ok tt, s, [])
  | S k' =>
      let '(o, s1, evs) := add s [] [in_ebuf i (hd 0 addrs)] 0 in
      match o with
      | Ok tok =>
          if tok =? i then                                        (* assert_eq!(token, i as u16) *)
            let '(o2, s2, evs2) := input_post_loop k' (i + 1) (tl addrs) s1 in (o2, s2, evs ++ evs2)
          else (Panic, s1, evs)
      | Err e => (Err e, s1, evs)                                 (* `?` *)
      | Panic => (Panic, s1, evs)
      | UB => (UB, s1, evs)
      end
  end.

(* start: where the free-running indices of the fresh queue stand (0 in the code; any value, to cover the
   wrap-around); poison: what the driver-side copy of a buffer holds while the device owns it *)
Definition input_new (ind ev : bool) (start : N) (addrs : list N) (poison : list N) (ae uf : N)
  : outcome unit * istate * list iev :=
  let q0 := qset_indices (qnew IN_QSIZE ind ev) start in
  let '(o, q, evs) := input_post_loop IN_QSIZE_nat 0 addrs q0 in
  match o with
  | Ok _ =>
      (* transport.finish_init(); if event_queue.should_notify() { transport.notify(QUEUE_EVENT) } *)
      (Ok tt, mkIn q (repeat poison IN_QSIZE_nat),
       map IQ evs ++ IDriverOk :: (if should_notify q ae uf then [INotify IN_Q_EVENT] else []))
  | Err e => (Err e, mkIn q (repeat poison IN_QSIZE_nat), map IQ evs)
  | Panic => (Panic, mkIn q (repeat poison IN_QSIZE_nat), map IQ evs)
  | UB => (UB, mkIn q (repeat poison IN_QSIZE_nat), map IQ evs)
  end.

(* ---------- pop_pending_event ---------- *)
(* what the device shows and the platform answers during ONE call *)
Record inview := mkInV {
  iv_idx1 : N; iv_id1 : N;                (* used index and used element id as peek_used reads them *)
  iv_idx2 : N; iv_id2 : N; iv_len : N;    (* ... as pop_used reads them again, with the length *)
  iv_wr : list N;                         (* event_buf[token] after the copy-back at unshare *)
  iv_addr : N;                            (* Hal::share answer for the re-posted buffer *)
  iv_poison : list N;                     (* driver-side copy while shared again *)
  iv_ae : N; iv_uf : N }.                 (* avail_event, used flags at should_notify *)

Definition input_pop (s : istate) (v : inview) : outcome (option ievent) * istate * list iev :=
  match peek_used (in_q s) (iv_idx1 v) (iv_id1 v) with
  | None => (Ok None, s, [])
  | Some token =>
      (* let event = &mut self.event_buf[token as usize]: bounds-checked index of a [InputEvent; 32] *)
      if IN_QSIZE <=? token then (Panic, s, [])
      else
        let '(o, q1, evs) := pop_used (in_q s) token [] [in_ebuf token 0] (iv_idx2 v) (iv_id2 v) (iv_len v) in
        match o with
        | Ok _ =>                                                  (* the length is dropped: .ok()? *)
            (* the copy-back has happened: the buffer holds what the device wrote (8 bytes at most) *)
            let buf1 := updN (in_buf s) token (firstn 8 (iv_wr v)) in
            let saved := nthN buf1 token [] in                     (* let event_saved = *event *)
            let '(o2, q2, evs2) := add q1 [] [in_ebuf token (iv_addr v)] 0 in
            match o2 with
            | Ok new_token =>
                let buf2 := updN buf1 token (iv_poison v) in
                if new_token =? token then                         (* assert_eq!(new_token, token) *)
                  (Ok (Some (in_ev_of_bytes saved)), mkIn q2 buf2,
                   map IQ (evs ++ evs2)
                     ++ (if should_notify q2 (iv_ae v) (iv_uf v) then [INotify IN_Q_EVENT] else []))
                else (Panic, mkIn q2 buf2, map IQ (evs ++ evs2))
            | Err _ => (Ok None, mkIn q2 buf1, map IQ (evs ++ evs2)) (* `if let Ok(..)` fails: falls through to None *)
            | Panic => (Panic, mkIn q2 buf1, map IQ (evs ++ evs2))
            | UB => (UB, mkIn q2 buf1, map IQ (evs ++ evs2))
            end
        | Err _ => (Ok None, mkIn q1 (in_buf s), map IQ evs)      (* .ok()? : NotReady / WrongToken -> None *)
        | Panic => (Panic, mkIn q1 (in_buf s), map IQ evs)
        | UB => (UB, mkIn q1 (in_buf s), map IQ evs)
        end
  end.

(* a run of polls *)
Fixpoint input_run (s : istate) (vs : list inview) : list (outcome (option ievent)) * istate :=
  match vs with
  | [] => ([], s)
  | v :: r =>
      let '(o, s1, _) := input_pop s v in
      let '(os, s2) := input_run s1 r in (o :: os, s2)
  end.

(* ---------- query_config_select(select, subsel, out) at the level of Transport calls ---------- *)
(* offsets in struct Config: select 0, subsel 1, size 2, data 8 (128 bytes).  wr_ok1 / wr_ok2: whether the two
   config writes succeed; size: what the device answers for `size` (None: the read fails); data: the answers of
   the byte reads, in order (None: that read fails).  Result: Ok size and the bytes stored into out[0..n). *)
Inductive icev :=
| ICWrite (off v : N)
| ICRead (off : N).

Fixpoint input_cfg_copy (k : nat) (i : N) (data : list (option N)) : outcome (list N) * list icev :=
  match k with
  | O => (Ok [], [])
  | S k' =>
      match hd None data with
      | None => (Err EConfigSpaceTooSmall, [ICRead (8 + i)])
      | Some b =>
          let '(o, evs) := input_cfg_copy k' (i + 1) (tl data) in
          (match o with Ok l => Ok (w8 b :: l) | Err e => Err e | Panic => Panic | UB => UB end,
           ICRead (8 + i) :: evs)
      end
  end.

Definition IN_CFG_DATA_MAX : N := 128.   (* CONFIG_DATA_MAX_LENGTH: the length of Config::data *)

(* bounded: whether a size above CONFIG_DATA_MAX_LENGTH is refused before any data byte is read
     `if usize::from(size) > CONFIG_DATA_MAX_LENGTH { return Err(Error::IoError); }`
   (the repaired code, corpus/proposals/input_cfg_fix.diff - the same test query_config_select_alloc always had) or not
   (the code as it stood before: kept for the refutation lemma InputCfgProofs.ic_select_prefix_refuted) *)
Definition input_query_config_select_gen (bounded : bool) (select subsel out_len : N) (wr_ok1 wr_ok2 : bool)
  (size : option N) (data : list (option N)) : outcome (N * list N) * list icev :=
  if negb wr_ok1 then (Err EConfigSpaceTooSmall, [ICWrite 0 (w8 select)]) else
  if negb wr_ok2 then (Err EConfigSpaceTooSmall, [ICWrite 0 (w8 select); ICWrite 1 (w8 subsel)]) else
  match size with
  | None => (Err EConfigSpaceTooSmall, [ICWrite 0 (w8 select); ICWrite 1 (w8 subsel); ICRead 2])
  | Some sz =>
      if bounded && (IN_CFG_DATA_MAX <? w8 sz)
      then (Err EIoError, [ICWrite 0 (w8 select); ICWrite 1 (w8 subsel); ICRead 2])
      else
      let n := N.min (w8 sz) out_len in          (* min(usize::from(size), out.len()), size: u8 *)
      let '(o, evs) := input_cfg_copy (N.to_nat n) 0 data in
      (match o with Ok l => Ok (w8 sz, l) | Err e => Err e | Panic => Panic | UB => UB end,
       [ICWrite 0 (w8 select); ICWrite 1 (w8 subsel); ICRead 2] ++ evs)
  end.
Definition input_query_config_select := input_query_config_select_gen true.
Definition input_query_config_select_prefix := input_query_config_select_gen false.
