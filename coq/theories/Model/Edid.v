(* C20 (GPU part): the EDID parser src/device/gpu/edid.rs as total functions on a byte list.        *)
(* Transcribed function by function: AspectRatio::from_bits / v_pixels, StandardTiming::parse,       *)
(* DetailedTiming::parse, Edid::has_base_block / first_detailed_timing / standard_timing /           *)
(* preferred_resolution / standard_timings (filter_map over 0..8, then the stable sort_by on the     *)
(* u64 pixel count, largest first).                                                                   *)
(* `data` is the [u8; 1024] array of the Edid struct: an element is read as a u8 (w8), an index      *)
(* outside the list reads 0 (the constant offsets used, 38..71, are inside a 1024-byte array, so no  *)
(* slice operation of the code can panic); `size` is the u32 the device reported.                     *)
From VD Require Import Base.Words.

Definition NUM_STANDARD_TIMINGS : nat := 8.
Definition DTD1_OFFSET : nat := 54.            (* 0x36 *)
Definition DTD_LEN : nat := 18.
Definition STANDARD_TIMINGS_OFFSET : nat := 38.
Definition STANDARD_TIMING_LEN : nat := 2.

Definition byte (d : list N) (i : nat) : N := w8 (nth i d 0).

(* AspectRatio::from_bits(bits).v_pixels(h): None is the `_ => unreachable!()` arm *)
Definition v_pixels (bits h : N) : option N :=
  if bits =? 0 then Some (h * 10 / 16)
  else if bits =? 1 then Some (h * 3 / 4)
  else if bits =? 2 then Some (h * 4 / 5)
  else if bits =? 3 then Some (h * 9 / 16)
  else None.

(* StandardTiming::parse(&[b0, b1]); Panic = unreachable!() reached *)
Definition st_parse (b0 b1 : N) : outcome (option (N * N)) :=
  if (b0 =? 1) && (b1 =? 1) then Ok None
  else
    let h := (b0 + 31) * 8 in
    match v_pixels (N.land (N.shiftr b1 6) 3) h with
    | Some v => Ok (Some (h, v))
    | None => Panic
    end.

(* DetailedTiming::parse on the 18 bytes starting at off *)
Definition dtd_parse (d : list N) (off : nat) : option (N * N) :=
  let h := N.lor (byte d (off + 2)) (N.shiftl (N.land (byte d (off + 4)) 240) 4) in
  let v := N.lor (byte d (off + 5)) (N.shiftl (N.land (byte d (off + 7)) 240) 4) in
  if (h =? 0) || (v =? 0) then None else Some (h, v).

Definition has_base_block (size : N) : bool := 128 <=? size.

Definition first_detailed_timing (d : list N) (size : N) : option (N * N) :=
  if has_base_block size then dtd_parse d DTD1_OFFSET else None.

Definition standard_timing (d : list N) (index : nat) : outcome (option (N * N)) :=
  let off := (STANDARD_TIMINGS_OFFSET + index * STANDARD_TIMING_LEN)%nat in
  st_parse (byte d off) (byte d (off + 1)).

Definition preferred_resolution (d : list N) (size : N) : outcome (N * N) :=
  match first_detailed_timing d size with
  | Some p => Ok p
  | None => Err EIoError
  end.

(* (i .. i+k).filter_map(|i| self.standard_timing(i)).map(..).collect() *)
Fixpoint collect (d : list N) (i : nat) (k : nat) : outcome (list (N * N)) :=
  match k with
  | O => Ok []
  | S k' =>
      match standard_timing d i with
      | Ok o =>
          match collect d (S i) k' with
          | Ok l => Ok (match o with Some p => p :: l | None => l end)
          | Err e => Err e
          | Panic => Panic
          | UB => UB
          end
      | Err e => Err e
      | Panic => Panic
      | UB => UB
      end
  end.

(* the sort key: b.0 as u64 * b.1 as u64 *)
Definition area (p : N * N) : N := fst p * snd p.

(* slice::sort_by is a stable sort; with the comparator (area b).cmp(area a) the result is ordered by
   decreasing area and entries of equal area keep their order. Insertion from the right gives exactly
   that list. *)
Fixpoint insert_desc (x : N * N) (l : list (N * N)) : list (N * N) :=
  match l with
  | [] => [x]
  | y :: t => if area x <? area y then y :: insert_desc x t else x :: l
  end.
Definition sort_desc (l : list (N * N)) : list (N * N) := fold_right insert_desc [] l.

Definition standard_timings (d : list N) (size : N) : outcome (list (N * N)) :=
  if has_base_block size then
    match collect d 0 NUM_STANDARD_TIMINGS with
    | Ok l => Ok (sort_desc l)
    | Err e => Err e
    | Panic => Panic
    | UB => UB
    end
  else Ok [].
