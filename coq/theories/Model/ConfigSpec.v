(* C13: what the property demands, written from the property text and VirtIO 1.2 (2.5 Device    *)
(* Configuration Space, 4.1.4.3 config_generation, 4.2.2 ConfigGeneration), NOT from the driver. *)
(* All sums are sums of natural numbers: no machine arithmetic appears here.                     *)
(* The boolean predicates are the monitors evaluated on what the IMPLEMENTATION is observed to   *)
(* do (Extract/ConfigIO.v).                                                                      *)
From VD Require Import Base.Words Model.Config.

(* bytes of the device's configuration window the transport may touch *)
Definition spec_window (tk : tkind) (w : window) : N :=
  match tk with TPci => 4 * w_len w | _ => w_len w end.

Inductive verdict := VPanic | VMissing | VTooSmall | VAccess.

(* an access of s bytes with alignment a at offset off:
   - the documented assertions (VirtIO guarantees 4-byte alignment of the window only; the
     offset must be aligned for the type) panic;
   - PCI without a device-specific configuration capability: 'missing';
   - it lies wholly inside the window iff off + s <= window (in N): access; else 'too small'. *)
Definition access_verdict (tk : tkind) (w : window) (s a off : N) : verdict :=
  if (4 <? a) || negb (off mod a =? 0) then VPanic
  else if match tk with TPci => negb (w_present w) | _ => false end then VMissing
  else if off + s <=? spec_window tk w then VAccess
  else VTooSmall.

Definition width_ok (w : N) : bool := (w =? 1) || (w =? 2) || (w =? 4) || (w =? 8).

(* the accesses are all of kind `tag`, start at pos, follow each other without gap or overlap;
   result: where they end *)
Fixpoint cover_from (tag pos : N) (tr : list cacc) : option N :=
  match tr with
  | [] => Some pos
  | e :: t =>
      if (c_tag e =? tag) && (c_off e =? pos) && width_ok (c_width e)
      then cover_from tag (pos + c_width e) t
      else None
  end.

Definition exact_cover_b (tag off s : N) (tr : list cacc) : bool :=
  match cover_from tag off tr with Some e => e =? off + s | None => false end.

(* the bytes an access list touches, in order *)
Definition touched (tr : list cacc) : list N :=
  flat_map (fun e => seqN (c_off e) (N.to_nat (c_width e))) tr.

(* little-endian value assembled from the values read *)
Fixpoint assemble (off : N) (tr : list cacc) : N :=
  match tr with
  | [] => 0
  | e :: t => c_val e * pow256 (c_off e - off) + assemble off t
  end.

Definition vals_in_range (tr : list cacc) : bool :=
  forallb (fun e => c_val e <? pow256 (c_width e)) tr.

(* each access carries its own bytes of the little-endian value written *)
Definition vals_of_value (off v : N) (tr : list cacc) : bool :=
  forallb (fun e => c_val e =? (v / pow256 (c_off e - off)) mod pow256 (c_width e)) tr.

(* every access naturally aligned at its actual address *)
Definition nat_aligned (base : N) (tr : list cacc) : bool :=
  forallb (fun e => (base + c_off e) mod c_width e =? 0) tr.

(* natural alignment of each access is demanded when the type is a primitive integer (a = s) or
   when safe-mmio splits it (it then tests the pointer). A 1/2/4/8-byte type of smaller
   alignment ([u8; 4] at an odd offset) is read with ONE access of its size: that is safe-mmio's
   documented behaviour and outside this property. *)
Definition alignment_demanded (s a : N) : bool := (a =? s) || negb (width_ok s).

Definition isnil {A} (l : list A) : bool := match l with [] => true | _ => false end.

(* read_config_space observed: result class rc (0 Ok / 1 Err / 2 panic / 3 access outside the
   window seen by the platform), rv = value or error code, tr = accesses in the window *)
Definition bounds_read_b (tk : tkind) (w : window) (s a off rc rv : N) (tr : list cacc) : bool :=
  match access_verdict tk w s a off with
  | VPanic => (rc =? 2) && isnil tr
  | VMissing => (rc =? 1) && (rv =? EConfigSpaceMissing) && isnil tr
  | VTooSmall => (rc =? 1) && (rv =? EConfigSpaceTooSmall) && isnil tr
  | VAccess =>
      (rc =? 0) && exact_cover_b 0 off s tr && vals_in_range tr && (rv =? assemble off tr)
      && (negb (alignment_demanded s a) || nat_aligned (w_base w) tr)
  end.

Definition bounds_write_b (tk : tkind) (w : window) (s a off v rc rv : N) (tr : list cacc) : bool :=
  match access_verdict tk w s a off with
  | VPanic => (rc =? 2) && isnil tr
  | VMissing => (rc =? 1) && (rv =? EConfigSpaceMissing) && isnil tr
  | VTooSmall => (rc =? 1) && (rv =? EConfigSpaceTooSmall) && isnil tr
  | VAccess =>
      (rc =? 0) && exact_cover_b 1 off s tr && vals_of_value off v tr
      && (negb (alignment_demanded s a) || nat_aligned (w_base w) tr)
  end.

(* ---------- multi-field reads ---------- *)
Fixpoint list_eqb (a b : list N) : bool :=
  match a, b with
  | [], [] => true
  | x :: a', y :: b' => (x =? y) && list_eqb a' b'
  | _, _ => false
  end.

Definition res_eqb (a b : res) : bool :=
  match a, b with
  | Ok x, Ok y => list_eqb x y
  | Err x, Err y => x =? y
  | Panic, Panic => true
  | UB, UB => true
  | _, _ => false
  end.

(* an observed register read together with the index of the configuration snapshot the device
   was exposing when it answered *)
Definition oev := (cacc * N)%type.

(* l up to its first generation read: (events before it, the generation read, events after it) *)
Fixpoint split_at_gen (l : list oev) : option (list oev * oev * list oev) :=
  match l with
  | [] => None
  | e :: t =>
      if c_tag (fst e) =? 2 then Some ([], e, t)
      else match split_at_gen t with
           | Some (a, g, b) => Some (e :: a, g, b)
           | None => None
           end
  end.

(* The value returned by a multi-field read is untorn: the LAST two generation reads observed
   returned the same number, the device exposed ONE snapshot from the first of them to the second
   (no change in between), and the value is the closure evaluated on that snapshot.
   Legacy MMIO has no generation register: nothing is demanded (see untorn_legacy_refuted). *)
Definition untorn_b (tk : tkind) (p : prog) (snaps : list (list N)) (r : res) (evs : list oev) : bool :=
  match tk with
  | TLegacy => true
  | _ =>
      if is_panic r then true
      else match split_at_gen (rev evs) with
           | Some (_, g2, before) =>
               match split_at_gen before with
               | Some (body, g1, _) =>
                   (c_val (fst g1) =? c_val (fst g2)) && (snd g1 =? snd g2)
                   && forallb (fun e => snd e =? snd g1) body
                   && (snd g1 <? lenN snaps)
                   && res_eqb r (eval p (nth (N.to_nat (N.min (snd g1) (lenN snaps))) snaps []))
               | None => false
               end
           | None => false
           end
  end.

(* the weaker reading of the property text: the value is the closure evaluated on SOME snapshot
   the device exposed *)
Definition some_snapshot_b (p : prog) (snaps : list (list N)) (r : res) : bool :=
  is_panic r || existsb (fun s => res_eqb r (eval p s)) snaps.
