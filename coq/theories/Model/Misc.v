(* C20 (part: the three small command/response drivers), driver side.                                  *)
(*   src/device/rng.rs        VirtIORng::request_entropy                                               *)
(*   src/device/rtc.rs        VirtIORtc::request (private helper), num_clocks, clock_cap, read,        *)
(*                            and the #[repr(C)] request / response structures (also the two that no   *)
(*                            public operation uses yet: cross_cap, read_cross)                        *)
(*   src/device/virtio_9p.rs  VirtIO9p::request, read_mount_tag (as called from VirtIO9p::new)         *)
(* on top of the virtqueue model (Model/Queue.v). All three go through                                *)
(* VirtQueue::add_notify_wait_pop, transcribed here once (anwp).                                       *)
(* Everything the environment decides is an argument: share addresses, the device's                   *)
(* notification-suppression words, the used index seen by every evaluation of can_pop, the used       *)
(* element, the bytes found in a response buffer after pop_used, config-space answers.                *)
(* NOT modelled here: the constructors' handshake (C08), ack_interrupt (a plain delegation to the        *)
(* transport), config-space bounds and torn reads (C13).                                                *)
From VD Require Import Base.Words Model.Queue Model.Blk.
(* from Model/Blk.v: le_bytes (zerocopy as_bytes of an integer on a little-endian target), bev (queue   *)
(* event | notify), wait_loop (the busy-wait of add_notify_wait_pop), tev (transport events)           *)

(* little-endian value of a byte string (zerocopy FromBytes / u32::from_le_bytes) *)
Definition le_num (bs : list N) : N := fold_right (fun b acc => b + 256 * acc) 0 bs.
Definition zeros (n : nat) : list N := repeat 0 n.

(* ---------- VirtQueue::add_notify_wait_pop ---------- *)
(* add; if should_notify then notify; while !can_pop { spin }; pop_used(token, same buffers).
   ae/uf: avail_event / used flags as the device has them when should_notify looks;
   polls: the used index seen by each evaluation of can_pop; (u_id, u_len): the used element at
   last_used_idx when pop_used looks. None: the wait does not end on these polls.
   Result: outcome, state, events, number of busy-wait iterations. *)
Definition anwp (q : qstate) (ins outs : list ubuf) (taddr ae uf : N) (polls : list N) (u_id u_len : N)
  : option (outcome N * qstate * list bev * N) :=
  let '(o, q1, evs) := add q ins outs taddr in
  match o with
  | Ok tok =>
      let nevs := map BQ evs ++ (if should_notify q1 ae uf then [BNotify] else []) in
      match wait_loop q1 polls 0 with
      | None => None
      | Some (spins, u_idx) =>
          let '(o2, q2, evs2) := pop_used q1 tok ins outs u_idx u_id u_len in
          Some (o2, q2, nevs ++ map BQ evs2, spins)
      end
  | Err e => Some (Err e, q1, map BQ evs, 0)
  | Panic => Some (Panic, q1, map BQ evs, 0)
  | UB => Some (UB, q1, map BQ evs, 0)
  end.

(* ====================================== rng.rs ====================================== *)
Definition RNG_QUEUE_SIZE : N := 8.

(* request_entropy(dst): add_notify_wait_pop(&[], &mut [dst]); Ok(num as usize).
   The used length is returned as the device recorded it: it is NOT compared with dst.len()
   (see MiscProofs.rng_length_not_clamped). An empty dst trips the assert in add_direct. *)
Definition rng_request_entropy (q : qstate) (dst : ubuf) (taddr ae uf : N) (polls : list N) (u_id u_len : N)
  : option (outcome N * qstate * list bev * N) :=
  anwp q [] [dst] taddr ae uf polls u_id u_len.

(* enable_interrupts / disable_interrupts: queue.set_dev_notify(true / false) *)
Definition rng_set_interrupts (q : qstate) (enable : bool) : qstate * list bev :=
  let '(q', evs) := set_dev_notify q enable in (q', map BQ evs).

(* ====================================== rtc.rs ====================================== *)
Definition RTC_QUEUE_SIZE : N := 8.

(* invalid_feature_bits: Feature::from_bits_retain(transport.read_device_features()).unknown_bits(), None for 0.
   The bits the rtc Feature type names: 0, 24, 27..30, 32..41, 43 *)
Definition RTC_KNOWN_FEATURES : N := 13191874609153.
Definition rtc_invalid_feature_bits (device_features : N) : N := N.ldiff (w64 device_features) RTC_KNOWN_FEATURES.

Definition VIRTIO_RTC_REQ_READ : N := 1.          (* 0x0001 *)
Definition VIRTIO_RTC_REQ_READ_CROSS : N := 2.    (* 0x0002 *)
Definition VIRTIO_RTC_REQ_CFG : N := 4096.        (* 0x1000 *)
Definition VIRTIO_RTC_REQ_CLOCK_CAP : N := 4097.  (* 0x1001 *)
Definition VIRTIO_RTC_REQ_CROSS_CAP : N := 4098.  (* 0x1002 *)

(* the requests the file defines structures for; the last two are not sent by any public operation *)
Inductive rtc_req :=
| RCfg
| RClockCap (clock_id : N)
| RRead (clock_id : N)
| RCrossCap (clock_id hw_counter : N)
| RReadCross (clock_id hw_counter : N).

(* VirtioRtcReqHead { msg_type: u16, reserved: [u8; 6] }.as_bytes(); reserved comes from Default *)
Definition rtc_head (msg_type : N) : list N := le_bytes 2 msg_type ++ zeros 6.

(* as_bytes() of the #[repr(C)] request structures (no padding: every field is u8 / u16 at an even
   offset); clock_id: u16, hw_counter: u8 are already of their width in Rust, the model reduces them *)
Definition rtc_enc_req (r : rtc_req) : list N :=
  match r with
  | RCfg => rtc_head VIRTIO_RTC_REQ_CFG
  | RClockCap id => rtc_head VIRTIO_RTC_REQ_CLOCK_CAP ++ le_bytes 2 id ++ zeros 6
  | RRead id => rtc_head VIRTIO_RTC_REQ_READ ++ le_bytes 2 id ++ zeros 6
  | RCrossCap id hw => rtc_head VIRTIO_RTC_REQ_CROSS_CAP ++ le_bytes 2 id ++ le_bytes 1 hw ++ zeros 5
  | RReadCross id hw => rtc_head VIRTIO_RTC_REQ_READ_CROSS ++ le_bytes 2 id ++ le_bytes 1 hw ++ zeros 5
  end.

(* size_of of the response structure that goes with each request *)
Definition rtc_resp_size (r : rtc_req) : N :=
  match r with RReadCross _ _ => 24 | _ => 16 end.

(* the match on head.status at the end of VirtIORtc::request *)
Definition rtc_status_result (st : N) : outcome unit :=
  if st =? 0 then Ok tt                                   (* VIRTIO_RTC_S_OK *)
  else if st =? 2 then Err EUnsupported                   (* VIRTIO_RTC_S_EOPNOTSUPP *)
  else if (st =? 3) || (st =? 4) then Err EInvalidParam   (* VIRTIO_RTC_S_ENODEV | VIRTIO_RTC_S_EINVAL *)
  else if st =? 5 then Err EIoError                       (* VIRTIO_RTC_S_EIO *)
  else Err EIoError.                                      (* other *)

(* VirtIORtc::request::<Req, Rsp>: resp = Rsp::new_zeroed(); add_notify_wait_pop(&[req bytes],
   &mut [resp bytes]) (the used length is discarded); head = read_from_prefix(resp).unwrap();
   match head.status. rb: the bytes of `resp` after pop_used (after the unshare copy-back).
   On success the whole response is returned. *)
Definition rtc_request (q : qstate) (r : rtc_req) (req resp : ubuf) (taddr ae uf : N) (polls : list N)
  (u_id u_len : N) (rb : list N) : option (outcome (list N) * qstate * list bev * N) :=
  match anwp q [req] [resp] taddr ae uf polls u_id u_len with
  | None => None
  | Some (Ok _, q2, evs, sp) =>
      if lenN rb <? 8 then Some (Panic, q2, evs, sp)      (* read_from_prefix(..).unwrap(); never: size_of Rsp >= 16 *)
      else match rtc_status_result (hd 0 rb) with
           | Ok _ => Some (Ok rb, q2, evs, sp)
           | Err e => Some (Err e, q2, evs, sp)
           | Panic => Some (Panic, q2, evs, sp)
           | UB => Some (UB, q2, evs, sp)
           end
  | Some (Err e, q2, evs, sp) => Some (Err e, q2, evs, sp)
  | Some (Panic, q2, evs, sp) => Some (Panic, q2, evs, sp)
  | Some (UB, q2, evs, sp) => Some (UB, q2, evs, sp)
  end.

(* the caller-side buffers of a request: the driver's locals, named by the harness *)
Definition rtc_req_buf (r : rtc_req) (id addr : N) : ubuf := mkBuf id (lenN (rtc_enc_req r)) addr.
Definition rtc_resp_buf (r : rtc_req) (id addr : N) : ubuf := mkBuf id (rtc_resp_size r) addr.

Definition field (bs : list N) (off len : nat) : N := le_num (firstn len (skipn off bs)).

(* num_clocks: VirtioRtcRespCfg { head (8), num_clocks: u16, reserved: [u8; 6] } *)
Definition rtc_dec_num_clocks (rb : list N) : N := field rb 8 2.

(* read: VirtioRtcRespRead { head (8), clock_reading: u64 } *)
Definition rtc_dec_read (rb : list N) : N := field rb 8 8.

(* clock_cap: VirtioRtcRespClockCap { head (8), type_: u8, leap_second_smearing: u8, flags: u8, reserved: [u8; 5] }
   result (kind, smearing, alarm): kind = the ClockType discriminant 0..4;
   smearing 0 = None, 1 = Some(NoonLinear), 2 = Some(UtcSls) (the SmearingVariant discriminants) *)
Definition rtc_dec_clock_cap (rb : list N) : outcome (N * N * bool) :=
  let ty := field rb 8 1 in
  let sm := field rb 9 1 in
  let fl := field rb 10 1 in
  if 4 <? ty then Err EUnsupported
  else
    let alarm := negb (N.land fl 1 =? 0) in
    if ty =? 3 then                                   (* kind == ClockType::UtcSmeared *)
      if sm =? 0 then Ok (ty, 0, alarm)               (* VIRTIO_RTC_SMEAR_UNSPECIFIED => None *)
      else if sm =? 2 then Ok (ty, 2, alarm)          (* VIRTIO_RTC_SMEAR_UTC_SLS *)
      else if sm =? 1 then Ok (ty, 1, alarm)          (* VIRTIO_RTC_SMEAR_NOON_LINEAR *)
      else Err EUnsupported
    else Ok (ty, 0, alarm).

(* the three public operations: op 0 num_clocks, 1 clock_cap, 2 read. Flat result [v1; v2; v3] *)
Definition rtc_op_req (op clock_id : N) : rtc_req :=
  if op =? 0 then RCfg else if op =? 1 then RClockCap (w16 clock_id) else RRead (w16 clock_id).

Definition rtc_op_decode (op : N) (rb : list N) : outcome (list N) :=
  if op =? 0 then Ok [rtc_dec_num_clocks rb; 0; 0]
  else if op =? 1 then
    match rtc_dec_clock_cap rb with
    | Ok (k, s, a) => Ok [k; s; b2n a]
    | Err e => Err e | Panic => Panic | UB => UB
    end
  else Ok [rtc_dec_read rb; 0; 0].

Definition rtc_op (q : qstate) (op clock_id : N) (req_id req_addr resp_id resp_addr : N) (taddr ae uf : N)
  (polls : list N) (u_id u_len : N) (rb : list N) : option (outcome (list N) * qstate * list bev * N) :=
  let r := rtc_op_req op clock_id in
  match rtc_request q r (rtc_req_buf r req_id req_addr) (rtc_resp_buf r resp_id resp_addr)
                    taddr ae uf polls u_id u_len rb with
  | None => None
  | Some (Ok rb', q2, evs, sp) => Some (rtc_op_decode op rb', q2, evs, sp)
  | Some (Err e, q2, evs, sp) => Some (Err e, q2, evs, sp)
  | Some (Panic, q2, evs, sp) => Some (Panic, q2, evs, sp)
  | Some (UB, q2, evs, sp) => Some (UB, q2, evs, sp)
  end.

(* ====================================== virtio_9p.rs ====================================== *)
Definition P9_QUEUE_SIZE : N := 16.
Definition P9_HEADER_SIZE : N := 7.

(* request(req, resp): hdr = resp[0..4] after pop_used (the caller's buffer after the copy-back) *)
Definition p9_request (q : qstate) (req resp : ubuf) (taddr ae uf : N) (polls : list N) (u_id u_len : N)
  (hdr : list N) : option (outcome N * qstate * list bev * N) :=
  if (b_len req =? 0) || (b_len resp <? P9_HEADER_SIZE) then Some (Err EInvalidParam, q, [], 0)
  else
    match anwp q [req] [resp] taddr ae uf polls u_id u_len with
    | None => None
    | Some (Ok used_len, q2, evs, sp) =>
        let size := le_num (firstn 4 hdr) in
        if negb (size =? used_len) then Some (Err EIoError, q2, evs, sp)
        else Some (Ok used_len, q2, evs, sp)
    | Some (Err e, q2, evs, sp) => Some (Err e, q2, evs, sp)
    | Some (Panic, q2, evs, sp) => Some (Panic, q2, evs, sp)
    | Some (UB, q2, evs, sp) => Some (UB, q2, evs, sp)
    end.

(* ---------- well-formed UTF-8 (what String::from_utf8 accepts): Unicode 15, table 3-7 ---------- *)
Definition inr (lo hi b : N) : bool := (lo <=? b) && (b <=? hi).
Definition cont (b : N) : bool := inr 128 191 b.

Fixpoint utf8_valid (l : list N) : bool :=
  match l with
  | [] => true
  | b0 :: t0 =>
      if b0 <? 128 then utf8_valid t0
      else match t0 with
           | [] => false
           | b1 :: t1 =>
               if inr 194 223 b0 then cont b1 && utf8_valid t1
               else match t1 with
                    | [] => false
                    | b2 :: t2 =>
                        if b0 =? 224 then inr 160 191 b1 && cont b2 && utf8_valid t2
                        else if inr 225 236 b0 || inr 238 239 b0 then cont b1 && cont b2 && utf8_valid t2
                        else if b0 =? 237 then inr 128 159 b1 && cont b2 && utf8_valid t2
                        else match t2 with
                             | [] => false
                             | b3 :: t3 =>
                                 if b0 =? 240 then inr 144 191 b1 && cont b2 && cont b3 && utf8_valid t3
                                 else if inr 241 243 b0 then cont b1 && cont b2 && cont b3 && utf8_valid t3
                                 else if b0 =? 244 then inr 128 143 b1 && cont b2 && cont b3 && utf8_valid t3
                                 else false
                             end
                    end
           end
  end.

(* ---------- read_mount_tag ---------- *)
(* what the transport answers to one read_config_space call *)
Inductive cans := AOk (v : N) | AErr (e : N).

(* for idx in 0..tag_len { bytes.push(read_config_space::<u8>(2 + idx)?) }
   answers: one per read; None: the answers ran out *)
Fixpoint tag_loop (answers : list cans) (idx remaining : N) {struct answers} : option (outcome (list N) * list tev) :=
  if remaining =? 0 then Some (Ok [], [])
  else match answers with
       | [] => None
       | a :: rest =>
           match a with
           | AErr e => Some (Err e, [TReadConfig (2 + idx) 1])
           | AOk v =>
               match tag_loop rest (idx + 1) (remaining - 1) with
               | None => None
               | Some (Ok bs, evs) => Some (Ok (w8 v :: bs), TReadConfig (2 + idx) 1 :: evs)
               | Some (o, evs) => Some (o, TReadConfig (2 + idx) 1 :: evs)
               end
           end
       end.

(* one evaluation of the closure: tag_len: u16 at offset 0, 0 -> InvalidParam, the bytes, from_utf8 *)
Definition tag_closure (len_ans : cans) (answers : list cans) : option (outcome (list N) * list tev) :=
  match len_ans with
  | AErr e => Some (Err e, [TReadConfig 0 2])
  | AOk l =>
      let tag_len := w16 l in
      if tag_len =? 0 then Some (Err EInvalidParam, [TReadConfig 0 2])
      else match tag_loop answers 0 tag_len with
           | None => None
           | Some (Ok bs, evs) =>
               Some ((if utf8_valid bs then Ok bs else Err EIoError), TReadConfig 0 2 :: evs)
           | Some (o, evs) => Some (o, TReadConfig 0 2 :: evs)
           end
  end.

(* one iteration of Transport::read_consistent: generation before, the closure, generation after *)
Record tag_try := mkTT { tt_g1 : N; tt_len : cans; tt_bytes : list cans; tt_g2 : N }.

(* the loop, repeated until the generation is stable; None = the answers ran out *)
Fixpoint read_mount_tag (tries : list tag_try) : option (outcome (list N) * list tev) :=
  match tries with
  | [] => None
  | t :: rest =>
      match tag_closure (tt_len t) (tt_bytes t) with
      | None => None
      | Some (o, evs) =>
          if w32 (tt_g1 t) =? w32 (tt_g2 t) then Some (o, [TReadGen] ++ evs ++ [TReadGen])
          else match read_mount_tag rest with
               | None => None
               | Some (o', evs') => Some (o', [TReadGen] ++ evs ++ [TReadGen] ++ evs')
               end
      end
  end.
