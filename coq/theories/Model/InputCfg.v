(* VirtIOInput configuration queries (src/device/input.rs): query_config_select,                      *)
(* query_config_select_alloc, query_config_string, name, serial_number, ids, prop_bits, ev_bits,      *)
(* abs_info and the #[repr(C)] struct Config they go through, at the level of the individual          *)
(* configuration-space accesses of the transport (Model/Config.v: read_config_space /                 *)
(* write_config_space of both transports with their window test, safe-mmio's splitting - a u8 is one  *)
(* access).  The reads of one query form a closure-like `prog` (a tree of register reads whose        *)
(* continuation receives the value the device answered), so that the same definition runs             *)
(*   - against a device that answers EVERY read with an arbitrary value (Config.run_ans),             *)
(*   - against configuration memory with scheduled device-side updates (Config.run_dev),              *)
(*   - on one snapshot (Config.eval), and under Transport::read_consistent (Config.read_consistent:   *)
(*     the code does NOT do that; used to state what the proposed repair would give).                 *)
(* struct Config { select: WriteOnly<u8>, subsel: WriteOnly<u8>, size: ReadOnly<u8>,                  *)
(*                 _reserved: [ReadOnly<u8>; 5], data: [ReadOnly<u8>; 128] }: offsets 0, 1, 2, 3, 8.   *)
(* Not modelled: allocation failure of the result buffer (at most 128 bytes).                         *)
From VD Require Import Base.Words Model.Config Model.Input.

Definition IC_OFF_SELECT : N := 0.      (* offset_of!(Config, select) *)
Definition IC_OFF_SUBSEL : N := 1.      (* offset_of!(Config, subsel) *)
Definition IC_OFF_SIZE : N := 2.        (* offset_of!(Config, size) *)
Definition IC_OFF_DATA : N := 8.        (* offset_of!(Config, data) *)

(* #[repr(u8)] enum InputConfigSelect *)
Definition IC_ID_NAME : N := 1.
Definition IC_ID_SERIAL : N := 2.
Definition IC_ID_DEVIDS : N := 3.
Definition IC_PROP_BITS : N := 16.
Definition IC_EV_BITS : N := 17.
Definition IC_ABS_INFO : N := 18.

Definition IC_DEVIDS_SIZE : N := 8.     (* size_of::<DevIDs>() *)
Definition IC_ABSINFO_SIZE : N := 20.   (* size_of::<AbsInfo>() *)

(* ---------- the two writes ---------- *)
(* write_config!(self.transport, Config, select, select as u8)?; write_config!(self.transport, Config, subsel, subsel)?; *)
Definition ic_writes (m : mode) (tk : tkind) (w : window) (select subsel : N) : outcome unit * list cacc :=
  let '(o1, t1) := cfg_write m tk w 1 1 IC_OFF_SELECT (w8 select) in
  match o1 with
  | Ok _ =>
      let '(o2, t2) := cfg_write m tk w 1 1 IC_OFF_SUBSEL (w8 subsel) in
      (match o2 with Ok _ => Ok tt | Err e => Err e | Panic => Panic | UB => UB end, t1 ++ t2)
  | Err e => (Err e, t1)
  | Panic => (Panic, t1)
  | UB => (UB, t1)
  end.

(* ---------- the reads ---------- *)
(* `for i in 0..n { buf[i] = self.transport.read_config_space::<u8>(offset_of!(Config, data) + i * size_of::<u8>())?; }`
   n iterations left, i the running index, acc the bytes read so far (newest first), fin what is made of them *)
Fixpoint p_ic_bytes (m : mode) (tk : tkind) (w : window) (n : nat) (i : N) (acc : list N) (fin : list N -> res) : prog :=
  match n with
  | O => Ret (fin (rev acc))
  | S k => bindq (rd m tk w 1 1 (IC_OFF_DATA + i)) (fun b => p_ic_bytes m tk w k (i + 1) (b :: acc) fin)
  end.

(* query_config_select after its writes: size, [the repair: refuse size > 128,] then min(size, out.len()) bytes.
   Result: size followed by the bytes stored into out[0..n). *)
Definition p_ic_select (bounded : bool) (m : mode) (tk : tkind) (w : window) (out_len : N) : prog :=
  bindq (rd m tk w 1 1 IC_OFF_SIZE) (fun size =>
    if bounded && (IN_CFG_DATA_MAX <? size) then Ret (Err EIoError)
    else p_ic_bytes m tk w (N.to_nat (N.min size out_len)) 0 [] (fun l => Ok (size :: l))).

(* query_config_select_alloc after its writes: size; size > CONFIG_DATA_MAX_LENGTH -> IoError; then size bytes *)
Definition p_ic_alloc (m : mode) (tk : tkind) (w : window) (fin : list N -> res) : prog :=
  bindq (rd m tk w 1 1 IC_OFF_SIZE) (fun size =>
    if IN_CFG_DATA_MAX <? size then Ret (Err EIoError)
    else p_ic_bytes m tk w (N.to_nat size) 0 [] fin).

(* String::from_utf8(..)?  (From<FromUtf8Error> for Error = IoError) *)
Definition ic_string (l : list N) : res := if utf8_valid (length l) l then Ok l else Err EIoError.

(* ---------- the fixed-size structures ---------- *)
(* zerocopy FromBytes / IntoBytes on a little-endian target: a field is the little-endian number of its bytes *)
Fixpoint ic_le (bs : list N) : N :=
  match bs with
  | [] => 0
  | b :: t => b + 256 * ic_le t
  end.
Definition ic_field (bs : list N) (off n : nat) : N := ic_le (firstn n (skipn off bs)).

(* DevIDs { bustype: u16, vendor: u16, product: u16, version: u16 } *)
Definition ic_devids_of_bytes (b : list N) : list N := [ic_field b 0 2; ic_field b 2 2; ic_field b 4 2; ic_field b 6 2].
(* AbsInfo { min: u32, max: u32, fuzz: u32, flat: u32, res: u32 } *)
Definition ic_absinfo_of_bytes (b : list N) : list N :=
  [ic_field b 0 4; ic_field b 4 4; ic_field b 8 4; ic_field b 12 4; ic_field b 16 4].

(* `let mut v = T::default(); let size = self.query_config_select(sel, subsel, v.as_mut_bytes())?;
    if usize::from(size) == size_of::<T>() { Ok(v) } else { Err(Error::IoError) }`
   r: the result of query_config_select (size :: bytes stored); the struct starts as zeroes and its first bytes
   are overwritten *)
Definition ic_struct (len : N) (decode : list N -> list N) (r : res) : res :=
  match r with
  | Ok (size :: l) =>
      if size =? len then Ok (decode (l ++ repeat 0 (N.to_nat len - length l))) else Err EIoError
  | Ok [] => UB                       (* query_config_select always returns a size *)
  | Err e => Err e
  | Panic => Panic
  | UB => UB
  end.

(* ---------- the public queries ---------- *)
Inductive icq :=
| ICSelect (select out_len : N)   (* query_config_select(select, subsel, out) with out.len() = out_len *)
| ICName | ICSerial | ICIds | ICPropBits | ICEvBits | ICAbsInfo.

(* what is written into `select` *)
Definition ic_select_of (q : icq) : N :=
  match q with
  | ICSelect s _ => s
  | ICName => IC_ID_NAME | ICSerial => IC_ID_SERIAL | ICIds => IC_ID_DEVIDS
  | ICPropBits => IC_PROP_BITS | ICEvBits => IC_EV_BITS | ICAbsInfo => IC_ABS_INFO
  end.
(* what is written into `subsel`: the caller's value for query_config_select / ev_bits / abs_info, 0 otherwise *)
Definition ic_subsel_of (q : icq) (subsel : N) : N :=
  match q with
  | ICSelect _ _ | ICEvBits | ICAbsInfo => subsel
  | _ => 0
  end.

Definition ic_reads (bounded : bool) (m : mode) (tk : tkind) (w : window) (q : icq) : prog :=
  match q with
  | ICSelect _ out_len => p_ic_select bounded m tk w out_len
  | ICName | ICSerial => p_ic_alloc m tk w ic_string
  | ICPropBits | ICEvBits => p_ic_alloc m tk w (fun l => Ok l)
  | ICIds => p_ic_select bounded m tk w IC_DEVIDS_SIZE
  | ICAbsInfo => p_ic_select bounded m tk w IC_ABSINFO_SIZE
  end.

Definition ic_finish (q : icq) (r : res) : res :=
  match q with
  | ICIds => ic_struct IC_DEVIDS_SIZE ic_devids_of_bytes r
  | ICAbsInfo => ic_struct IC_ABSINFO_SIZE ic_absinfo_of_bytes r
  | _ => r
  end.

Definition ic_fail {A} (o : outcome A) : res :=
  match o with Ok _ => UB | Err e => Err e | Panic => Panic | UB => UB end.

(* one query against a device that answers every read with the next number of `ans` *)
Definition ic_query_gen (bounded : bool) (m : mode) (tk : tkind) (w : window) (q : icq) (subsel : N) (ans : list N)
  : res * list cacc :=
  let '(o, t1) := ic_writes m tk w (ic_select_of q) (ic_subsel_of q subsel) in
  match o with
  | Ok _ => let '(r, t2) := run_ans (ic_reads bounded m tk w q) ans in (ic_finish q r, t1 ++ t2)
  | _ => (ic_fail o, t1)
  end.
Definition ic_query := ic_query_gen true.
Definition ic_query_prefix := ic_query_gen false.

(* one query against configuration memory that the device changes, per the schedule, immediately before
   individual register reads (the writes consume no slot: a device reacting to select / subsel is the
   first update of the schedule) *)
Definition ic_query_dev (bounded : bool) (m : mode) (tk : tkind) (w : window) (q : icq) (subsel : N)
  (d : dev) (sc : sched) : res * dev * sched * list cacc :=
  let '(o, t1) := ic_writes m tk w (ic_select_of q) (ic_subsel_of q subsel) in
  match o with
  | Ok _ =>
      let '(r, d', sc', t2, _) := run_dev tk (ic_reads bounded m tk w q) d sc in (ic_finish q r, d', sc', t1 ++ t2)
  | _ => (ic_fail o, d, sc, t1)
  end.

(* the repair proposed for the multi-field read (corpus/proposals/input_cfg_untorn_fix.diff, NOT applied): size
   and data read inside Transport::read_consistent *)
Definition ic_query_consistent (fuel : nat) (m : mode) (tk : tkind) (w : window) (q : icq) (subsel : N)
  (d : dev) (sc : sched) : option (res * dev * sched * list cacc) :=
  let '(o, t1) := ic_writes m tk w (ic_select_of q) (ic_subsel_of q subsel) in
  match o with
  | Ok _ =>
      match read_consistent fuel tk (ic_reads true m tk w q) d sc with
      | Some (r, d', sc', t2) => Some (ic_finish q r, d', sc', t1 ++ t2)
      | None => None
      end
  | _ => Some (ic_fail o, d, sc, t1)
  end.
