(* The block driver model run against memory: Model/Blk.v's operations composed with the Hal memory    *)
(* contract of Model/BlkSpec.v. Here the two places where blk.rs itself touches the request buffers    *)
(* become explicit: it stores the header into `req` before the add (the assignment to req / the local      *)
(* in the request functions), and it loads `resp.status` after pop_used. The device is an arbitrary transformer of  *)
(* device-visible memory.                                                                               *)
From VD Require Import Base.Words Model.Queue Model.Blk Model.BlkSpec.

Definition qevs (l : list bev) : list qev :=
  flat_map (fun e => match e with BQ q => [q] | BNotify => [] end) l.

(* the header store happens after the length asserts and before the add, whatever the add answers *)
Definition store_hdr (w : world) (r : breq) : world :=
  if len_asserts r then mkW (aset (w_caller w) (b_id (r_hdr r)) (hdr_bytes r)) (w_dev w) else w.

Definition blk_submit_w (s : bstate) (w : world) (r : breq) (taddr ae uf : N)
  : outcome N * bstate * list bev * world :=
  let '(o, s', evs) := blk_submit s r taddr ae uf in
  (o, s', evs, hal_run (store_hdr w r) (qevs evs)).

(* the status byte is whatever the response buffer holds after pop_used *)
Definition resp_byte (w : world) (r : breq) : N := hd 0 (w_caller w (b_id (r_resp r))).

Definition blk_complete_w (s : bstate) (w : world) (token : N) (r : breq) (u_idx u_id u_len : N)
  : outcome unit * bstate * list bev * world :=
  let '(_, _, qe) := pop_used (b_q s) token (req_ins r) (req_outs r) u_idx u_id u_len in
  let w' := hal_run w qe in
  let '(o, s', evs) := blk_complete s token r u_idx u_id u_len (resp_byte w' r) in
  (o, s', evs, w').

(* a blocking call: the local BlkResp::default() is NOT_READY; the device acts (dev) between the
   submission and the end of the wait *)
Definition blk_request_w (s : bstate) (w : world) (r : breq) (taddr ae uf : N) (dev : amap -> amap)
  (polls : list N) (u_id u_len : N) : option (outcome unit * bstate * list bev * world) :=
  let w0 := mkW (aset (w_caller w) (b_id (r_resp r)) [RESP_DEFAULT]) (w_dev w) in
  let '(o, s1, evs, w1) := blk_submit_w s w0 r taddr ae uf in
  match o with
  | Ok tok =>
      match wait_loop (b_q s1) polls 0 with
      | None => None
      | Some (_, u_idx) =>
          let w2 := mkW (w_caller w1) (dev (w_dev w1)) in
          let '(o2, s2, evs2, w3) := blk_complete_w s1 w2 tok r u_idx u_id u_len in
          Some (o2, s2, evs ++ evs2, w3)
      end
  | Err e => Some (Err e, s1, evs, w1)
  | Panic => Some (Panic, s1, evs, w1)
  | UB => Some (UB, s1, evs, w1)
  end.
