(* C20 (GPU part), the specification side. Written from VirtIO 1.2 section 5.7 (GPU Device) and the   *)
(* VESA E-EDID standard (Release A rev. 2: 3.9 Standard Timings, 3.10.2 Detailed Timing), NOT from     *)
(* the driver source:                                                                                   *)
(*  5.7.6.7  struct virtio_gpu_ctrl_hdr { le32 type; le32 flags; le64 fence_id; le32 ctx_id;           *)
(*                                         u8 ring_idx; u8 padding[3]; }                                 *)
(*  5.7.6.8  GET_DISPLAY_INFO (hdr only; response hdr + pmodes[16] of { rect r; le32 enabled; le32 flags }),*)
(*           GET_EDID { hdr; le32 scanout; le32 padding } -> { hdr; le32 size; le32 padding; u8 edid[1024] },*)
(*           RESOURCE_CREATE_2D { hdr; le32 resource_id, format, width, height },                        *)
(*           RESOURCE_UNREF { hdr; le32 resource_id, padding },                                          *)
(*           SET_SCANOUT { hdr; rect r; le32 scanout_id, resource_id }  (resource_id 0 disables),         *)
(*           RESOURCE_FLUSH { hdr; rect r; le32 resource_id, padding },                                  *)
(*           TRANSFER_TO_HOST_2D { hdr; rect r; le64 offset; le32 resource_id, padding },                *)
(*           RESOURCE_ATTACH_BACKING { hdr; le32 resource_id, nr_entries } + nr_entries *                *)
(*               mem_entry { le64 addr; le32 length; le32 padding },                                     *)
(*           RESOURCE_DETACH_BACKING { hdr; le32 resource_id, padding },                                 *)
(*           rect { le32 x, y, width, height };  VIRTIO_GPU_FORMAT_B8G8R8A8_UNORM = 1                   *)
(*  5.7.6.10 UPDATE_CURSOR / MOVE_CURSOR { hdr; cursor_pos { le32 scanout_id, x, y, padding };           *)
(*               le32 resource_id, hot_x, hot_y, padding }; MOVE_CURSOR uses only pos                    *)
(*  command and response type numbers of 5.7.6.7 (enum virtio_gpu_ctrl_type).                            *)
(* Shared with the driver model: only the little-endian primitive le_val / le_bytes.                     *)
From VD Require Import Base.Words Model.Blk Model.BlkSpec.

Definition sfield (off len : nat) (bs : list N) : N := le_val (firstn len (skipn off bs)).

(* ---------- enum virtio_gpu_ctrl_type ---------- *)
Definition T_GET_DISPLAY_INFO : N := 256.
Definition T_RESOURCE_CREATE_2D : N := 257.
Definition T_RESOURCE_UNREF : N := 258.
Definition T_SET_SCANOUT : N := 259.
Definition T_RESOURCE_FLUSH : N := 260.
Definition T_TRANSFER_TO_HOST_2D : N := 261.
Definition T_RESOURCE_ATTACH_BACKING : N := 262.
Definition T_RESOURCE_DETACH_BACKING : N := 263.
Definition T_GET_EDID : N := 266.
Definition T_UPDATE_CURSOR : N := 768.
Definition T_MOVE_CURSOR : N := 769.
Definition T_RESP_OK_NODATA : N := 4352.
Definition T_RESP_OK_DISPLAY_INFO : N := 4353.
Definition T_RESP_OK_EDID : N := 4356.
Definition FORMAT_B8G8R8A8_UNORM : N := 1.

Record shdr := mkH { h_type : N; h_flags : N; h_fence_id : N; h_ctx_id : N; h_ring_idx : N; h_padding : N }.
Definition dec_hdr (bs : list N) : shdr :=
  mkH (sfield 0 4 bs) (sfield 4 4 bs) (sfield 8 8 bs) (sfield 16 4 bs) (sfield 20 1 bs) (sfield 21 3 bs).

Inductive scmd :=
| SGetDisplayInfo
| SResourceCreate2D (resource_id format width height : N)
| SResourceUnref (resource_id padding : N)
| SSetScanout (x y width height scanout_id resource_id : N)
| SResourceFlush (x y width height resource_id padding : N)
| STransferToHost2D (x y width height offset resource_id padding : N)
| SAttachBacking (resource_id nr_entries : N) (entries : list (N * N * N))   (* (addr, length, padding) *)
| SDetachBacking (resource_id padding : N)
| SGetEdid (scanout padding : N)
| SUpdateCursor (scanout_id x y pos_padding resource_id hot_x hot_y padding : N)
| SMoveCursor (scanout_id x y pos_padding resource_id hot_x hot_y padding : N).

Fixpoint dec_entries (k : nat) (off : nat) (bs : list N) : list (N * N * N) :=
  match k with
  | O => []
  | S k' => (sfield off 8 bs, sfield (off + 8) 4 bs, sfield (off + 12) 4 bs) :: dec_entries k' (off + 16) bs
  end.

(* a device reading a command from the start of the device-readable bytes of a chain; bytes after the
   structure are not part of the command *)
Definition spec_decode (bs : list N) : option (shdr * scmd) :=
  let need (n : N) (c : scmd) := if n <=? lenN bs then Some (dec_hdr bs, c) else None in
  let t := sfield 0 4 bs in
  if lenN bs <? 24 then None
  else if t =? T_GET_DISPLAY_INFO then need 24 SGetDisplayInfo
  else if t =? T_RESOURCE_CREATE_2D then
    need 40 (SResourceCreate2D (sfield 24 4 bs) (sfield 28 4 bs) (sfield 32 4 bs) (sfield 36 4 bs))
  else if t =? T_RESOURCE_UNREF then need 32 (SResourceUnref (sfield 24 4 bs) (sfield 28 4 bs))
  else if t =? T_SET_SCANOUT then
    need 48 (SSetScanout (sfield 24 4 bs) (sfield 28 4 bs) (sfield 32 4 bs) (sfield 36 4 bs) (sfield 40 4 bs) (sfield 44 4 bs))
  else if t =? T_RESOURCE_FLUSH then
    need 48 (SResourceFlush (sfield 24 4 bs) (sfield 28 4 bs) (sfield 32 4 bs) (sfield 36 4 bs) (sfield 40 4 bs) (sfield 44 4 bs))
  else if t =? T_TRANSFER_TO_HOST_2D then
    need 56 (STransferToHost2D (sfield 24 4 bs) (sfield 28 4 bs) (sfield 32 4 bs) (sfield 36 4 bs) (sfield 40 8 bs)
                               (sfield 48 4 bs) (sfield 52 4 bs))
  else if t =? T_RESOURCE_ATTACH_BACKING then
    let nr := sfield 28 4 bs in
    if 16 <? nr then None    (* more entries than this reference decoder looks at *)
    else need (32 + 16 * nr) (SAttachBacking (sfield 24 4 bs) nr (dec_entries (N.to_nat (N.min nr 16)) 32 bs))
  else if t =? T_RESOURCE_DETACH_BACKING then need 32 (SDetachBacking (sfield 24 4 bs) (sfield 28 4 bs))
  else if t =? T_GET_EDID then need 32 (SGetEdid (sfield 24 4 bs) (sfield 28 4 bs))
  else if t =? T_UPDATE_CURSOR then
    need 56 (SUpdateCursor (sfield 24 4 bs) (sfield 28 4 bs) (sfield 32 4 bs) (sfield 36 4 bs) (sfield 40 4 bs)
                           (sfield 44 4 bs) (sfield 48 4 bs) (sfield 52 4 bs))
  else if t =? T_MOVE_CURSOR then
    need 56 (SMoveCursor (sfield 24 4 bs) (sfield 28 4 bs) (sfield 32 4 bs) (sfield 36 4 bs) (sfield 40 4 bs)
                         (sfield 44 4 bs) (sfield 48 4 bs) (sfield 52 4 bs))
  else None.

(* an unfenced 2D command: flags, fence_id, ctx_id, ring_idx and padding are zero *)
Definition plain_hdr (h : shdr) : bool :=
  (h_flags h =? 0) && (h_fence_id h =? 0) && (h_ctx_id h =? 0) && (h_ring_idx h =? 0) && (h_padding h =? 0).

(* ---------- flat form, for comparison ---------- *)
Definition flat_entry (e : N * N * N) : list N := [fst (fst e); snd (fst e); snd e].
Definition flat_cmd (c : scmd) : list N :=
  match c with
  | SGetDisplayInfo => [T_GET_DISPLAY_INFO]
  | SResourceCreate2D a b c d => [T_RESOURCE_CREATE_2D; a; b; c; d]
  | SResourceUnref a b => [T_RESOURCE_UNREF; a; b]
  | SSetScanout a b c d e f => [T_SET_SCANOUT; a; b; c; d; e; f]
  | SResourceFlush a b c d e f => [T_RESOURCE_FLUSH; a; b; c; d; e; f]
  | STransferToHost2D a b c d e f g => [T_TRANSFER_TO_HOST_2D; a; b; c; d; e; f; g]
  | SAttachBacking a n es => [T_RESOURCE_ATTACH_BACKING; a; n] ++ flat_map flat_entry es
  | SDetachBacking a b => [T_RESOURCE_DETACH_BACKING; a; b]
  | SGetEdid a b => [T_GET_EDID; a; b]
  | SUpdateCursor a b c d e f g h => [T_UPDATE_CURSOR; a; b; c; d; e; f; g; h]
  | SMoveCursor a b c d e f g h => [T_MOVE_CURSOR; a; b; c; d; e; f; g; h]
  end.

Fixpoint lN_eqb (a b : list N) : bool :=
  match a, b with
  | [], [] => true
  | x :: a', y :: b' => (x =? y) && lN_eqb a' b'
  | _, _ => false
  end.
Definition cmd_eqb (a b : scmd) : bool := lN_eqb (flat_cmd a) (flat_cmd b).

(* a command as it travels: on the cursor queue (true) or the control queue (false) *)
Definition qcmd : Type := bool * scmd.
Definition qcmd_eqb (a b : qcmd) : bool := Bool.eqb (fst a) (fst b) && cmd_eqb (snd a) (snd b).
Fixpoint qcmds_eqb (a b : list qcmd) : bool :=
  match a, b with
  | [], [] => true
  | x :: a', y :: b' => qcmd_eqb x y && qcmds_eqb a' b'
  | _, _ => false
  end.

(* ---------- responses, device side ---------- *)
Definition resp_hdr (t : N) : list N := le_bytes 4 t ++ le_bytes 4 0 ++ le_bytes 8 0 ++ le_bytes 4 0 ++ [0] ++ [0; 0; 0].
(* one pmodes[] entry: (x, y, width, height, enabled, flags) *)
Definition display_one (m : N * N * N * N * N * N) : list N :=
  let '(x, y, w, h, en, fl) := m in
  le_bytes 4 x ++ le_bytes 4 y ++ le_bytes 4 w ++ le_bytes 4 h ++ le_bytes 4 en ++ le_bytes 4 fl.
Definition resp_display_info (t : N) (modes : list (N * N * N * N * N * N)) : list N :=
  resp_hdr t ++ flat_map display_one modes.
Definition resp_edid (t size : N) (blob : list N) : list N := resp_hdr t ++ le_bytes 4 size ++ le_bytes 4 0 ++ blob.

(* the success type a driver must find for each command; None: the command has no response structure
   (cursor queue) *)
Definition expected_ok (c : scmd) : option N :=
  match c with
  | SGetDisplayInfo => Some T_RESP_OK_DISPLAY_INFO
  | SGetEdid _ _ => Some T_RESP_OK_EDID
  | SUpdateCursor _ _ _ _ _ _ _ _ | SMoveCursor _ _ _ _ _ _ _ _ => None
  | _ => Some T_RESP_OK_NODATA
  end.

(* "returns an error for any response that is not the expected success type": the commands an
   operation issued, what came back for each (None: the transport itself failed; Some t: response type,
   ignored for cursor commands), and the class of the operation's result (0 Ok, 1 Err, 2 panic).
   The first unexpected answer must end the operation with an error, with no further command. *)
Fixpoint resp_ok (cmds : list qcmd) (rvs : list (option N)) (class : N) : bool :=
  match cmds, rvs with
  | [], [] => true
  | (q, c) :: cs, rv :: rs =>
      let good := match rv, (if q then None else expected_ok c) with
                  | None, _ => false
                  | Some _, None => true
                  | Some t, Some e => t =? e
                  end in
      if good then resp_ok cs rs class
      (* an answer that is not the expected one: the operation must end in an error. (As first written this also demanded
         that such an answer belongs to the LAST request of the operation; the property only says "returns an error for any
         response that is not the expected success type": a driver that cleans up with further commands after the error
         answer and then returns the error satisfies it.) *)
      else (class =? 1) && resp_ok cs rs class
  | _, _ => false
  end.

(* ---------- operation sequences (5.7.6.1: create a resource, attach backing, set scanout;          *)
(*            transfer to host, then flush) ---------- *)
Inductive sop :=
| OChange (had_fb : bool) (old_rid w h paddr : N)  (* a scanout resource old_rid exists; new size; dma address *)
| OFlush (rid w h : N)                             (* the resource on scanout 0 and its size; rid 0: none *)
| OSetupCursor (x y hot_x hot_y paddr : N)
| OMove (x y : N)
| OResolution
| OGetEdid (scanout : N).

Definition first_create (cmds : list qcmd) : N :=
  match find (fun qc => match snd qc with SResourceCreate2D _ _ _ _ => true | _ => false end) cmds with
  | Some (_, SResourceCreate2D rid _ _ _) => rid
  | _ => 0
  end.

Definition ctl (c : scmd) : qcmd := (false, c).
Definition cur (c : scmd) : qcmd := (true, c).

(* what the operation must emit when every answer is the expected success; None: the parameters
   cannot be expressed in the structures (4*w*h does not fit le32 length, or there is no memory to attach)
   and the operation must refuse without emitting anything. rid: the id the driver chose for the new resource *)
Definition expected_cmds (o : sop) (rid : N) : option (list qcmd) :=
  match o with
  | OChange had old w h paddr =>
      if (two32 <=? 4 * w * h) || (4 * w * h =? 0) then None
      else Some ((if had then [ctl (SSetScanout 0 0 0 0 0 0); ctl (SDetachBacking old 0); ctl (SResourceUnref old 0)] else [])
                 ++ [ctl (SResourceCreate2D rid FORMAT_B8G8R8A8_UNORM w h);
                     ctl (SAttachBacking rid 1 [(paddr, 4 * w * h, 0)]);
                     ctl (SSetScanout 0 0 w h 0 rid)])
  | OFlush r w h =>
      if r =? 0 then None   (* nothing has been set up: the operation must refuse *)
      else Some [ctl (STransferToHost2D 0 0 w h 0 r 0); ctl (SResourceFlush 0 0 w h r 0)]
  | OSetupCursor x y hx hy paddr =>
      Some [ctl (SResourceCreate2D rid FORMAT_B8G8R8A8_UNORM 64 64);
            ctl (SAttachBacking rid 1 [(paddr, 16384, 0)]);
            ctl (STransferToHost2D 0 0 64 64 0 rid 0);
            cur (SUpdateCursor 0 x y 0 rid hx hy 0)]
  | OMove x y => Some [cur (SMoveCursor 0 x y 0 0 0 0 0)]
  | OResolution => Some [ctl SGetDisplayInfo]
  | OGetEdid sc => Some [ctl (SGetEdid sc 0)]
  end.

(* MOVE_CURSOR: resource_id, hot_x, hot_y are not used by the device *)
Definition norm_cmd (qc : qcmd) : qcmd :=
  match qc with
  | (q, SMoveCursor s x y p _ _ _ pad) => (q, SMoveCursor s x y p 0 0 0 pad)
  | _ => qc
  end.

Definition seq_ok (o : sop) (class : N) (cmds : list qcmd) : bool :=
  let rid := first_create cmds in
  match expected_cmds o rid with
  | None => (class =? 1) && (match cmds with [] => true | _ => false end)
  | Some exp =>
      (class =? 0) && qcmds_eqb (map norm_cmd cmds) exp
      && (match o with OChange _ old _ _ _ => negb (rid =? 0) | OSetupCursor _ _ _ _ _ => negb (rid =? 0) | _ => true end)
  end.

(* ---------- backing memory ---------- *)
(* what happens to device resources and DMA regions, in order *)
Inductive bev :=
| BCreate (rid w h : N)
| BAttach (rid addr len : N)
| BDetach (rid : N)
| BUnref (rid : N)
| BTransfer (rid : N)
| BAlloc (pages paddr : N)
| BDealloc (paddr pages : N)
| BReset.

(* a device resource: id, width, height, attached backing (addr, length) *)
Record bres := mkR { r_id : N; r_w : N; r_h : N; r_back : option (N * N) }.
Record bst := mkBS { b_res : list bres; b_live : list (N * N) }.   (* live regions: (paddr, pages) *)
Definition bst0 : bst := mkBS [] [].

Definition find_res (l : list bres) (rid : N) : option bres := find (fun r => r_id r =? rid) l.
Definition del_res (l : list bres) (rid : N) : list bres := filter (fun r => negb (r_id r =? rid)) l.
Definition covers (reg : N * N) (addr len : N) : bool :=
  (fst reg <=? addr) && (addr + len <=? fst reg + snd reg * 4096).
Definition reg_inside (reg : N * N) (addr : N) : bool := (fst reg <=? addr) && (addr <? fst reg + N.max 1 (snd reg) * 4096).
Definition reg_eqb (a b : N * N) : bool := (fst a =? fst b) && (snd a =? snd b).
Fixpoint remove_reg (l : list (N * N)) (r : N * N) : list (N * N) :=
  match l with [] => [] | x :: t => if reg_eqb x r then t else x :: remove_reg t r end.

(* one event against the property:
   attach: the range lies in a live DMA region (it "covers the advertised length") and is large enough
           for the resource it backs;
   dealloc: the region is live and no device resource is still backed by memory reg_inside it;
   transfer: the resource has backing *)
Definition bstep (st : bst) (e : bev) : option bst :=
  match e with
  | BCreate rid w h => Some (mkBS (mkR rid w h None :: del_res (b_res st) rid) (b_live st))
  | BAttach rid addr len =>
      match find_res (b_res st) rid with
      | Some r =>
          if existsb (fun reg => covers reg addr len) (b_live st) && (4 * r_w r * r_h r <=? len)
          then Some (mkBS (mkR rid (r_w r) (r_h r) (Some (addr, len)) :: del_res (b_res st) rid) (b_live st))
          else None
      | None => None
      end
  | BDetach rid =>
      match find_res (b_res st) rid with
      | Some r => Some (mkBS (mkR rid (r_w r) (r_h r) None :: del_res (b_res st) rid) (b_live st))
      | None => None
      end
  | BUnref rid => Some (mkBS (del_res (b_res st) rid) (b_live st))
  | BTransfer rid =>
      match find_res (b_res st) rid with
      | Some r => match r_back r with Some _ => Some st | None => None end
      | None => None
      end
  | BAlloc pg pa => if pa =? 0 then Some st else Some (mkBS (b_res st) ((pa, pg) :: b_live st))
  | BDealloc pa pg =>
      if existsb (reg_eqb (pa, pg)) (b_live st)
         && negb (existsb (fun r => match r_back r with Some (a, _) => reg_inside (pa, pg) a | None => false end) (b_res st))
      then Some (mkBS (b_res st) (remove_reg (b_live st) (pa, pg)))
      else None
  | BReset => Some (mkBS [] (b_live st))
  end.

Fixpoint brun (st : bst) (evs : list bev) : option bst :=
  match evs with
  | [] => Some st
  | e :: t => match bstep st e with Some st' => brun st' t | None => None end
  end.
Definition backing_ok (evs : list bev) : bool := match brun bst0 evs with Some _ => true | None => false end.

(* the effect of a successfully answered command on resources *)
Definition bev_of_cmd (c : scmd) : list bev :=
  match c with
  | SResourceCreate2D rid _ w h => [BCreate rid w h]
  | SAttachBacking rid _ [(addr, len, _)] => [BAttach rid addr len]
  | SDetachBacking rid _ => [BDetach rid]
  | SResourceUnref rid _ => [BUnref rid]
  | STransferToHost2D _ _ _ _ _ rid _ => [BTransfer rid]
  | _ => []
  end.

(* ---------- EDID (VESA E-EDID) ---------- *)
(* 3.10.2: horizontal addressable pixels = byte 2 (low 8 bits) + upper nibble of byte 4 (high 4 bits);
           vertical addressable lines   = byte 5 + upper nibble of byte 7 *)
Definition spec_active (lo nib : N) : N := lo + 256 * (nib / 16).
(* 3.9: byte 0 = (horizontal addressable pixels / 8) - 31; byte 1 bits 7..6 = image aspect ratio
   00 16:10, 01 4:3, 10 5:4, 11 16:9; 01h 01h = unused *)
Definition spec_ratio (code : N) : N * N :=
  if code =? 0 then (16, 10) else if code =? 1 then (4, 3) else if code =? 2 then (5, 4) else (16, 9).
Definition spec_std (b0 b1 : N) : option (N * N) :=
  if (b0 =? 1) && (b1 =? 1) then None
  else let h := 8 * (b0 + 31) in
       let '(rh, rv) := spec_ratio (b1 / 64) in
       Some (h, h * rv / rh).
Definition ebyte (d : list N) (i : nat) : N := nth i d 0 mod 256.
(* base block: detailed timing #1 at 36h, standard timings at 26h..35h *)
Definition spec_preferred (d : list N) (size : N) : option (N * N) :=
  if size <? 128 then None
  else let h := spec_active (ebyte d 56) (ebyte d 58) in
       let v := spec_active (ebyte d 59) (ebyte d 61) in
       if (h =? 0) || (v =? 0) then None else Some (h, v).
Definition spec_std_list (d : list N) : list (N * N) :=
  flat_map (fun i => match spec_std (ebyte d (38 + 2 * i)) (ebyte d (39 + 2 * i)) with Some p => [p] | None => [] end)
           (seq 0 8).
Definition pixels (p : N * N) : N := fst p * snd p.
