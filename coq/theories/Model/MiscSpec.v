(* C20 (rng / rtc / 9p), the specification side: written from the VirtIO text and NOT from the driver    *)
(* source. Nothing of Model/Misc.v is imported.                                                          *)
(*   Entropy device (VirtIO 1.2, 5.4.6): the driver places one or more device-writable buffers into the  *)
(*     queue; the device fills them (completely or partially) with random data and records how much in   *)
(*     the used length.                                                                                   *)
(*   RTC device (VirtIO 1.4 draft, "Device Operation: requestq" as rtc.rs documents it):                 *)
(*     struct virtio_rtc_req_head  { le16 msg_type; u8 reserved[6]; };                                    *)
(*     struct virtio_rtc_resp_head { u8 status; u8 reserved[7]; };                                        *)
(*     status: S_OK 0, S_EOPNOTSUPP 2, S_ENODEV 3, S_EINVAL 4, S_EIO 5                                    *)
(*     REQ_READ       0x0001  req { head; le16 clock_id; u8 reserved[6]; }                                *)
(*                            resp { head; le64 clock_reading; }                                          *)
(*     REQ_READ_CROSS 0x0002  req { head; le16 clock_id; u8 hw_counter; u8 reserved[5]; }                 *)
(*                            resp { head; le64 clock_reading; le64 counter_cycles; }                     *)
(*     REQ_CFG        0x1000  req { head; }   resp { head; le16 num_clocks; u8 reserved[6]; }             *)
(*     REQ_CLOCK_CAP  0x1001  req { head; le16 clock_id; u8 reserved[6]; }                                *)
(*                            resp { head; u8 type; u8 leap_second_smearing; u8 flags; u8 reserved[5]; }  *)
(*     REQ_CROSS_CAP  0x1002  req { head; le16 clock_id; u8 hw_counter; u8 reserved[5]; }                 *)
(*                            resp { head; u8 flags; u8 reserved[7]; }                                    *)
(*     clock types: UTC 0, TAI 1, MONOTONIC 2, UTC_SMEARED 3, UTC_MAYBE_SMEARED 4;                        *)
(*     smearing: UNSPECIFIED 0, NOON_LINEAR 1, UTC_SLS 2 (meaningful for UTC_SMEARED);                    *)
(*     FLAG_ALARM_CAP = bit 0 of the clock-cap flags.                                                     *)
(*     Requests are device-readable, responses device-writable, one request per descriptor chain.        *)
(*   9P transport (device id 9; layout as used by Linux/QEMU virtio-9p): config { le16 tag_len; u8 tag[]; }, *)
(*     a request is the device-readable T-message followed by the device-writable area for the            *)
(*     R-message; every 9P message starts with size[4] (little endian, the length of the whole message    *)
(*     including the field itself), type[1], tag[2]: 7 bytes.                                             *)
(*   UTF-8: Unicode, definition D92 (encoding of scalar values).                                          *)
From VD Require Import Base.Words.

(* ---------- reading fields at fixed positions ---------- *)
Definition byte_at (bs : list N) (i : nat) : N := nth i bs 0.
Definition le16_at (bs : list N) (i : nat) : N := byte_at bs i + 256 * byte_at bs (i + 1).
Definition le32_at (bs : list N) (i : nat) : N :=
  byte_at bs i + 256 * byte_at bs (i + 1) + 65536 * byte_at bs (i + 2) + 16777216 * byte_at bs (i + 3).
Definition le64_at (bs : list N) (i : nat) : N := le32_at bs i + 4294967296 * le32_at bs (i + 4).
Definition zero_range (bs : list N) (from n : nat) : bool := forallb (fun i => byte_at bs i =? 0) (seq from n).
Definition all_bytes (bs : list N) : bool := forallb (fun b => b <? 256) bs.

(* ====================================== RTC ====================================== *)
Inductive sreq :=
| SCfg
| SClockCap (clock_id : N)
| SRead (clock_id : N)
| SCrossCap (clock_id hw_counter : N)
| SReadCross (clock_id hw_counter : N).

(* what a device makes of the device-readable bytes of a request; reserved bytes must be zero *)
Definition spec_dec_req (bs : list N) : option sreq :=
  if negb (all_bytes bs) then None
  else if lenN bs <? 8 then None
  else if negb (zero_range bs 2 6) then None
  else
    let ty := le16_at bs 0 in
    let n := lenN bs in
    if ty =? 4096 then (if (n =? 8) then Some SCfg else None)
    else if ty =? 4097 then (if (n =? 16) && zero_range bs 10 6 then Some (SClockCap (le16_at bs 8)) else None)
    else if ty =? 1 then (if (n =? 16) && zero_range bs 10 6 then Some (SRead (le16_at bs 8)) else None)
    else if ty =? 4098 then
      (if (n =? 16) && zero_range bs 11 5 then Some (SCrossCap (le16_at bs 8) (byte_at bs 10)) else None)
    else if ty =? 2 then
      (if (n =? 16) && zero_range bs 11 5 then Some (SReadCross (le16_at bs 8) (byte_at bs 10)) else None)
    else None.

Definition spec_req_size (r : sreq) : N := match r with SCfg => 8 | _ => 16 end.
Definition spec_resp_size (r : sreq) : N := match r with SReadCross _ _ => 24 | _ => 16 end.
(* the chain of a request: (length, device-writable) *)
Definition spec_rtc_shape (r : sreq) : list (N * bool) := [(spec_req_size r, false); (spec_resp_size r, true)].

(* ---- the device's answers ---- *)
Definition z (n : nat) : list N := repeat 0 n.
Definition b8 (x : N) (k : N) : N := (x / 256 ^ k) mod 256.
Definition spec_head (status : N) : list N := status :: z 7.
Definition spec_resp_cfg (status num_clocks : N) : list N :=
  spec_head status ++ [b8 num_clocks 0; b8 num_clocks 1] ++ z 6.
Definition spec_resp_clock_cap (status ty smearing flags : N) : list N :=
  spec_head status ++ [ty; smearing; flags] ++ z 5.
Definition spec_resp_read (status reading : N) : list N :=
  spec_head status ++ [b8 reading 0; b8 reading 1; b8 reading 2; b8 reading 3;
                       b8 reading 4; b8 reading 5; b8 reading 6; b8 reading 7].

Inductive rstat := ROk | ROpNotSupp | RNoDev | RInval | RIo | RUndefined.
Definition spec_rtc_status (st : N) : rstat :=
  if st =? 0 then ROk else if st =? 2 then ROpNotSupp else if st =? 3 then RNoDev
  else if st =? 4 then RInval else if st =? 5 then RIo else RUndefined.

(* does a driver result (class 0 = Ok, 1 = Err code) agree with the status byte the device wrote?
   A status the specification does not define must at least not be reported as success. *)
Definition rtc_result_conforms (st class code : N) : bool :=
  match spec_rtc_status st with
  | ROk => class =? 0
  | ROpNotSupp => (class =? 1) && (code =? EUnsupported)
  | RNoDev | RInval => (class =? 1) && (code =? EInvalidParam)
  | RIo => (class =? 1) && (code =? EIoError)
  | RUndefined => class =? 1
  end.

(* the meaning of a clock-cap response: (clock type, smearing variant, alarm capability);
   None: a type / variant the specification does not define (not to be reported as a capability) *)
Definition spec_clock_cap (ty smearing flags : N) : option (N * N * bool) :=
  if 4 <? ty then None
  else if ty =? 3 then (if 2 <? smearing then None else Some (ty, smearing, N.testbit flags 0))
  else Some (ty, 0, N.testbit flags 0).

(* ====================================== 9P ====================================== *)
Definition P9_MIN : N := 7.   (* size[4] type[1] tag[2] *)
Definition spec_p9_shape (req_len resp_len : N) : list (N * bool) := [(req_len, false); (resp_len, true)].
Definition spec_p9_size (resp : list N) : N := le32_at resp 0.

(* struct virtio_9p_config { le16 tag_len; u8 tag[tag_len]; }: the tag a device exposes, if the config
   space really holds it *)
Definition spec_tag (cfg : list N) : option (list N) :=
  if lenN cfg <? 2 then None
  else
    let n := le16_at cfg 0 in
    if n =? 0 then None
    else if 2 + n <=? lenN cfg then Some (firstn (N.to_nat n) (skipn 2 cfg)) else None.

(* ---------- UTF-8, Unicode D92 ---------- *)
Definition scalar (cp : N) : bool := (cp <? 55296) || ((57344 <=? cp) && (cp <? 1114112)).
Definition utf8_enc (cp : N) : list N :=
  if cp <? 128 then [cp]
  else if cp <? 2048 then [192 + cp / 64; 128 + cp mod 64]
  else if cp <? 65536 then [224 + cp / 4096; 128 + (cp / 64) mod 64; 128 + cp mod 64]
  else [240 + cp / 262144; 128 + (cp / 4096) mod 64; 128 + (cp / 64) mod 64; 128 + cp mod 64].
Definition utf8_string (cps : list N) : list N := flat_map utf8_enc cps.
