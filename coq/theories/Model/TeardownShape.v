(* The part of the per-driver data of Model/Teardown.v that is a transcription of DECLARATIONS (not of code): for the value the   *)
(* constructor returns, the order of its resource-owning fields and the queue_unset calls of its Drop impl.                      *)
(* tools/srcconsts.py regenerates the same two lists from the struct and `impl Drop` items of the source on every run            *)
(* (SrcConsts.v: src_shape_<Struct>, src_unsets_<Struct>) and coqc compares them (ConstsTie.v): the drop order that DESIGN 2.7 /   *)
(* 5 lists as "transcribed by hand" is thereby tied to the declarations it was transcribed from.                                 *)
(* kinds: 1 = the transport, 2 = a virtqueue (VirtQueue / OwningQueue), 3 = an Option<Dma<H>>; other fields are left out (their   *)
(* order relative to these is irrelevant to C09's quiescing clause only in so far as they own no DMA memory; the heap buffers    *)
(* posted to the device are covered by the correspondence and monitor 951).                                                      *)
From VD Require Import Base.Words Model.Layout Model.Teardown.

Definition local_kind (p : list cstep) (x : N) : N :=
  fold_left (fun acc c =>
    match c with
    | CQueue y _ _ | COwnQueue y _ _ => if y =? x then 2 else acc
    | CWrapOwn y _ _ _ => if y =? x then 2 else acc
    | CLocal y _ => if y =? x then 4 else acc
    | CBuild y _ _ => if y =? x then 5 else acc
    | _ => acc
    end) p 0.

Definition fref_kind (p : list cstep) (f : fref) : N :=
  match f with
  | FTransport => 1
  | FLocal x => local_kind p x
  | FNew (LNone _ :: _) => 3
  | FNew _ => 4
  end.

(* the struct built under the name x: (kinds of its transport / queue / Option<Dma> fields in declaration order, unsets) *)
Definition shape_of (p : list cstep) (x : N) : list N * list N :=
  fold_left (fun acc c =>
    match c with
    | CBuild y unsets fields =>
        if y =? x then (filter (fun k => (1 <=? k) && (k <=? 3)) (map (fref_kind p) fields), unsets) else acc
    | _ => acc
    end) p ([], []).

Definition shape (d : N) : list N * list N := shape_of (prog d 4) 9.
(* VirtIONetRaw is the struct built under the name 8 inside the buffered driver's program *)
Definition shape_netraw_inner : list N * list N := shape_of (prog D_NETBUF 4) 8.
