(* C05: the blocking helper add_notify_wait_pop against a specification-following, notification-driven
   device, as a product transition system at the granularity of single loads and stores (sequentially
   consistent interleavings).  The driver steps are those of src/queue.rs (add ... store idx; load
   avail_event / flags; conditional notify; spin on used.idx); the device is written from VirtIO 1.2
   2.7.7 / 2.7.10: it processes available entries, and before sleeping it publishes where it stopped and
   looks at the available index once more. *)
From VD Require Import Base.Words Model.Queue.

Inductive drv_pc :=
| D0                    (* before the add *)
| D1                    (* index stored, suppression data not yet loaded *)
| D2 (loaded : N)       (* suppression data loaded (avail_event, or the flags word), decision pending *)
| D3                    (* decided (notified or not); spinning on the used index *)
| D4.                   (* saw the completion: popped, returned *)

Inductive dev_pc :=
| R_read                (* about to read the available index *)
| R_publish             (* found nothing new: about to publish its suppression data *)
| R_recheck             (* published; about to look at the available index once more *)
| Sleep.                (* waits for a notification *)

Record wstate := mkW {
  w_event_idx : bool;
  w_a0 : N;              (* available index before the request *)
  w_idx : N;             (* avail.idx in memory *)
  w_used : N;            (* used.idx in memory *)
  w_ev : N;              (* avail_event (event-idx) / device flags word (otherwise) in memory *)
  w_seen : N;            (* the device's own cursor *)
  w_notif : bool;        (* a notification is on its way *)
  w_drv : drv_pc;
  w_dev : dev_pc }.

(* the driver's decision, exactly Queue.should_notify on the loaded word *)
Definition decide (event_idx : bool) (avail_idx loaded : N) : bool :=
  if event_idx then sub16 avail_idx (add16 (w16 loaded) 1) <? 32768
  else N.land loaded 1 =? 0.

(* what a sleeping device leaves in memory: "tell me about entry `seen`" / "do not suppress" *)
Definition armed_word (event_idx : bool) (seen : N) : N := if event_idx then seen else 0.

Definition upd_drv (s : wstate) (idx : N) (notif : bool) (pc : drv_pc) : wstate :=
  mkW (w_event_idx s) (w_a0 s) idx (w_used s) (w_ev s) (w_seen s) notif pc (w_dev s).
Definition upd_dev (s : wstate) (used ev seen : N) (notif : bool) (pc : dev_pc) : wstate :=
  mkW (w_event_idx s) (w_a0 s) (w_idx s) used ev seen notif (w_drv s) pc.

Inductive step : wstate -> wstate -> Prop :=
(* driver *)
| S_add s : w_drv s = D0 -> step s (upd_drv s (w16 (w_a0 s + 1)) (w_notif s) D1)
| S_load s : w_drv s = D1 -> step s (upd_drv s (w_idx s) (w_notif s) (D2 (w_ev s)))
| S_decide s l : w_drv s = D2 l ->
    step s (upd_drv s (w_idx s) (w_notif s || decide (w_event_idx s) (w_idx s) l) D3)
| S_spin_wait s : w_drv s = D3 -> w_used s = w_a0 s -> step s s
| S_spin_done s : w_drv s = D3 -> w_used s <> w_a0 s -> step s (upd_drv s (w_idx s) (w_notif s) D4)
(* device *)
| S_dev_process s : w_dev s = R_read -> w_idx s <> w_seen s ->
    step s (upd_dev s (w16 (w_used s + 1)) (w_ev s) (w16 (w_seen s + 1)) (w_notif s) R_read)
| S_dev_idle s : w_dev s = R_read -> w_idx s = w_seen s ->
    step s (upd_dev s (w_used s) (w_ev s) (w_seen s) (w_notif s) R_publish)
| S_dev_publish s : w_dev s = R_publish ->
    step s (upd_dev s (w_used s) (armed_word (w_event_idx s) (w_seen s)) (w_seen s) (w_notif s) R_recheck)
| S_dev_recheck_more s : w_dev s = R_recheck -> w_idx s <> w_seen s ->
    step s (upd_dev s (w_used s) (w_ev s) (w_seen s) (w_notif s) R_read)
| S_dev_sleep s : w_dev s = R_recheck -> w_idx s = w_seen s ->
    step s (upd_dev s (w_used s) (w_ev s) (w_seen s) (w_notif s) Sleep)
| S_dev_wake s : w_dev s = Sleep -> w_notif s = true ->
    step s (upd_dev s (w_used s) (w_ev s) (w_seen s) false R_read).

(* initial states: nothing outstanding (used = idx = seen = a0), no notification in flight; the device is
   anywhere in its loop; if it is about to sleep or asleep it has published its suppression data; otherwise the
   word in memory is arbitrary (stale) *)
Definition init (s : wstate) : Prop :=
  w_a0 s < two16 /\ w_idx s = w_a0 s /\ w_used s = w_a0 s /\ w_seen s = w_a0 s /\ w_notif s = false
  /\ w_drv s = D0
  /\ (w_dev s = R_recheck \/ w_dev s = Sleep -> w_ev s = armed_word (w_event_idx s) (w_seen s)).

Inductive reach : wstate -> Prop :=
| reach_init s : init s -> reach s
| reach_step s s' : reach s -> step s s' -> reach s'.

(* the lost wake-up: the driver waits, the request is unserved, the device sleeps and nobody will wake it *)
Definition stuck (s : wstate) : Prop :=
  w_drv s = D3 /\ w_used s = w_a0 s /\ w_dev s = Sleep /\ w_notif s = false.
