(* C08, the specification side. Written from VirtIO 1.2 section 3.1.1 (Driver Requirements:        *)
(* Device Initialization), 2.2 (feature bits), 6.1 (VERSION_1 must be accepted when offered) and    *)
(* 4.2.2 / 4.2.4 (MMIO registers, through the table of Model/MmioSpec.v) - NOT from the drivers.    *)
(*  * `hs_step`: the initialisation sequence as an automaton over transport-level events; it is     *)
(*    (a) proved to accept the trace of every constructor model for every environment               *)
(*    (Proofs/InitProofs.v) and (b) evaluated on the event log observed from the implementation     *)
(*    (monitor kinds 850, 851).                                                                     *)
(*  * `flags_ok_b`, `gate_ok_b`: "optional mechanisms only if negotiated" as predicates over what    *)
(*    was observed (monitor kinds 852, 853).                                                         *)
(*  * `lower`: a transport-level trace rendered as MMIO register accesses with the transport model   *)
(*    of C10 (Model/Mmio.v `exec`); `lift`: register accesses decoded back into handshake events by  *)
(*    the register table of the specification.                                                       *)
From VD Require Import Base.Words Model.Layout Model.Init Model.Mmio Model.MmioSpec.

Definition has (s b : N) : bool := negb (N.land s b =? 0).
Definition subset (a b : N) : bool := N.land a b =? a.

(* ---------- 3.1.1: the initialisation sequence ---------- *)
Record hs := mkHs {
  h_reset : bool;       (* the device has been reset by this driver *)
  h_status : N;         (* the status bits written last *)
  h_fread : bool;       (* the offered features have been read *)
  h_fwritten : bool }.  (* the accepted subset has been written *)

Definition hs0 : hs := mkHs false 0 false false.

Definition hs_step (sup offered : N) (h : hs) (e : tev) : option hs :=
  match e with
  | TSetStatus s =>
      (* step 1: reset. Writing 0 resets at any time and starts over. *)
      if s =? 0 then Some (mkHs true 0 false false)
      else if negb (h_reset h) then None
      (* only ACKNOWLEDGE, DRIVER, FEATURES_OK, DRIVER_OK; bits are added, never cleared *)
      else if negb (subset s 15) then None
      else if negb (subset (h_status h) s) then None
      (* steps 2,3: ACKNOWLEDGE no later than DRIVER; step 5: FEATURES_OK after the feature
         subset has been written; step 8: DRIVER_OK after FEATURES_OK *)
      else if has s ST_DRIVER && negb (has s ST_ACK) then None
      else if has s ST_FEATURES_OK && negb (has s ST_DRIVER && h_fwritten h) then None
      else if has s ST_DRIVER_OK && negb (has s ST_FEATURES_OK) then None
      else Some (mkHs true s (h_fread h) (h_fwritten h))
  | TReadFeatures _ =>
      (* step 4, first half: after DRIVER *)
      if has (h_status h) ST_DRIVER then Some (mkHs (h_reset h) (h_status h) true (h_fwritten h)) else None
  | TWriteFeatures f =>
      (* step 4, second half: a subset of the offered bits the driver understands, before FEATURES_OK;
         6.1: VERSION_1 accepted when offered *)
      if has (h_status h) ST_DRIVER && negb (has (h_status h) ST_FEATURES_OK) && h_fread h
         && subset f offered && subset f sup && implb (bit offered B_VERSION_1) (bit f B_VERSION_1)
      then Some (mkHs (h_reset h) (h_status h) (h_fread h) true) else None
  | TQueueSet _ _ _ _ _ =>
      (* step 7: virtqueue set-up between FEATURES_OK and DRIVER_OK *)
      if has (h_status h) ST_FEATURES_OK && negb (has (h_status h) ST_DRIVER_OK) then Some h else None
  | TNotify _ =>
      (* 3.1.1: "The driver MUST NOT send any buffer available notifications to the device before
         setting DRIVER_OK" *)
      if has (h_status h) ST_DRIVER_OK then Some h else None
  | _ => Some h
  end.

Fixpoint hs_scan (sup offered : N) (h : hs) (tr : list tev) : option hs :=
  match tr with
  | [] => Some h
  | e :: t => match hs_step sup offered h e with
              | Some h' => hs_scan sup offered h' t
              | None => None
              end
  end.

(* the whole monitor: the sequence is legal, and a constructor that returned Ok left the device live *)
Definition hs_accept (sup offered : N) (returned_ok : bool) (tr : list tev) : bool :=
  match hs_scan sup offered hs0 tr with
  | Some h => implb returned_ok (h_status h =? 15)
  | None => false
  end.

(* the same sequence without the rule on notifications (used for the partial statement about the
   input driver before its repair) *)
Definition drop_notify (tr : list tev) : list tev :=
  filter (fun e => match e with TNotify _ => false | _ => true end) tr.

(* the status bits written last in a trace (0 before any write) *)
Fixpoint last_status (acc : N) (tr : list tev) : N :=
  match tr with
  | [] => acc
  | TSetStatus s :: t => last_status s t
  | _ :: t => last_status acc t
  end.

(* ---------- optional mechanisms only if negotiated ---------- *)
(* what was observed of queue creation and of the platform calls: each VirtQueue::new with its three
   flags, and the access_platform argument of every dma_alloc / share *)
Definition flags_ok_ev (f : N) (e : tev) : bool :=
  match e with
  | TQueueNew _ i v a =>
      Bool.eqb i (bit f B_INDIRECT) && Bool.eqb v (bit f B_EVENT_IDX) && Bool.eqb a (bit f B_ACCESS_PLATFORM)
  | TAlloc _ _ _ a | TShare _ _ a => Bool.eqb a (bit f B_ACCESS_PLATFORM)
  | _ => true
  end.
Definition flags_ok_b (f : N) (tr : list tev) : bool := forallb (flags_ok_ev f) tr.

(* the queues a driver sets up when it succeeds: (index, size) in program order *)
Definition queues_of (tr : list tev) : list (N * N) :=
  concat (map (fun e => match e with TQueueSet q n _ _ _ => [(q, n)] | _ => [] end) tr).

Definition expected_queues (d : driver) (p1 : N) : list (N * N) :=
  match d with
  | DBlk => [(0, 16)] | DConsole => [(0, 2); (1, 2)] | DGpu => [(0, 2); (1, 2)]
  | DInput => [(0, 32); (1, 32)] | DNetRaw | DNet => [(1, p1); (0, p1)]
  | DRng => [(0, 8)] | DRtc => [(0, 8)] | DSocket => [(0, 8); (1, 8); (2, 8)]
  | DSound => [(0, 32); (1, 32); (2, 32); (3, 32)] | D9p => [(0, 16)]
  end.

(* an operation of a constructed driver, as observed: result class and value, its events, whether the
   reference device saw an INDIRECT descriptor, and the used_event word afterwards *)
Definition is_share (e : tev) : bool := match e with TShare _ _ _ => true | _ => false end.
Definition is_cfg (e : tev) : bool :=
  match e with TReadConfig _ _ _ | TWriteConfig _ _ | TReadGen _ => true | _ => false end.
Definition is_notify (e : tev) : bool := match e with TNotify _ => true | _ => false end.

(* a share of a whole number of 16-byte descriptors, device-readable, following at least two other
   shares of the same request: the indirect table *)
Definition table_shared (tr : list tev) : bool :=
  match rev (filter is_share tr) with
  | TShare l d _ :: _ :: _ :: _ => (d =? DIR_TO_DEV) && (l mod 16 =? 0) && (l =? 16 * (lenN (filter is_share tr) - 1))
  | _ => false
  end.

Definition first_share_len (tr : list tev) : N :=
  match filter is_share tr with TShare l _ _ :: _ => l | _ => 0 end.

(* opcode: 1 blk readonly, 2 blk flush, 3 console size, 4 console emergency_write, 5 gpu get_edid,
   6 net header, 7 net send, 8 rng request, 9 / 10 gpu edid_preferred_resolution / edid_supported_resolutions,
   11 offset of a received frame in its buffer (buffered net driver) *)
Definition gate_ok_b (f opc rc rv : N) (saw_indirect : bool) (used_event : N) (tr : list tev) : bool :=
  (* common to every operation: indirect descriptors and the event index only if negotiated *)
  implb (saw_indirect || table_shared tr) (bit f B_INDIRECT)
  && implb (negb (used_event =? 0)) (bit f B_EVENT_IDX)
  && forallb (flags_ok_ev f) tr
  && match opc with
     | 1 => (rc =? 0) && (rv =? b2n (bit f 5))                          (* VIRTIO_BLK_F_RO *)
     | 2 => implb (existsb is_share tr || existsb is_notify tr) (bit f 9)   (* a flush request only with VIRTIO_BLK_F_FLUSH *)
     | 3 => implb (existsb is_cfg tr || negb (rv =? 0)) (bit f 0)       (* cols/rows only with VIRTIO_CONSOLE_F_SIZE *)
            && implb (bit f 0 && (rc =? 0)) (negb (rv =? 0))
     | 4 => implb (existsb is_cfg tr) (bit f 2)                         (* emerg_wr only with VIRTIO_CONSOLE_F_EMERG_WRITE *)
            && implb (negb (bit f 2)) ((rc =? 1) && (rv =? EUnsupported))
     | 5 | 9 | 10 => implb (existsb is_share tr || existsb is_notify tr) (bit f 1)   (* GET_EDID only with VIRTIO_GPU_F_EDID, through every entry point *)
            && implb (negb (bit f 1)) ((rc =? 1) && (rv =? EUnsupported))
     | 6 => (rc =? 0) && (rv =? (if bit f B_VERSION_1 then 12 else 10))   (* 5.1.6: num_buffers present iff VERSION_1 (MRG_RXBUF never negotiated) *)
     | 7 => first_share_len tr =? (if bit f B_VERSION_1 then 12 else 10)
     | 11 => (rc =? 0) && (rv =? (if bit f B_VERSION_1 then 12 else 10))    (* received frames are found behind the header of the negotiated form *)
     | 12 => true   (* the verdict depends on the buffer length: checked by gate_tx_len_b below *)
     | 13 => true   (* a nearly full queue: the common clause above (an indirect table only if negotiated) is the point *)
     | _ => true
     end.

(* operation 12: a transmit buffer is accepted exactly when it can hold the header of the negotiated form *)
Definition gate_tx_len_b (f len rc : N) : bool :=
  Bool.eqb (rc =? 0) ((if bit f B_VERSION_1 then 12 else 10) <=? len).

(* ---------- rendering on the MMIO transport (Model/Mmio.v) ---------- *)
Inductive racc := RAcc (a : access) | RKeep (e : tev).

(* safe-mmio backend/mmio_ops.rs `read`: one access for 1/2/4/8 bytes, otherwise read_slice, which
   takes the widest naturally aligned chunk that fits, repeatedly *)
Fixpoint read_slice (fuel : nat) (cfg : list N) (off len : N) : list access :=
  match fuel with
  | O => []
  | S k =>
      let p := CONFIG_SPACE_OFFSET + off in
      if (8 <=? len) && (p mod 8 =? 0) then mkAcc false p 8 (cfg_val cfg off 8) :: read_slice k cfg (off + 8) (len - 8)
      else if (4 <=? len) && (p mod 4 =? 0) then mkAcc false p 4 (cfg_val cfg off 4) :: read_slice k cfg (off + 4) (len - 4)
      else if (2 <=? len) && (p mod 2 =? 0) then mkAcc false p 2 (cfg_val cfg off 2) :: read_slice k cfg (off + 2) (len - 2)
      else if 1 <=? len then mkAcc false p 1 (cfg_val cfg off 1) :: read_slice k cfg (off + 1) (len - 1)
      else []
  end.

Definition cfg_accesses (cfg : list N) (off len : N) : list access :=
  if (len =? 1) || (len =? 2) || (len =? 4) || (len =? 8)
  then [mkAcc false (CONFIG_SPACE_OFFSET + off) len (cfg_val cfg off len)]
  else read_slice (N.to_nat (N.min len 4096)) cfg off len.

Definition acc_of (m : mode) (v : version) (o : op) (ans : list N) : list racc :=
  map RAcc (snd (exec m v 0 o ans)).

(* one Transport call as the register accesses MmioTransport performs for it; `true` when the call
   panics (the asserts of the legacy queue_set) *)
Definition lower1 (m : mode) (v : version) (cfg : list N) (e : tev) : bool * list racc :=
  match e with
  | TSetStatus s => (false, acc_of m v (OSetStatus s) [])
  | TReadFeatures a => (false, acc_of m v OReadDeviceFeatures [w32 a; N.shiftr a 32])
  | TWriteFeatures f => (false, acc_of m v (OWriteDriverFeatures f) [])
  | TGuestPageSize p => (false, acc_of m v (OSetGuestPageSize p) [])
  | TQueueUsed q a => (false, acc_of m v (OQueueUsed q) [b2n a])
  | TMaxQueueSize q a => (false, acc_of m v (OMaxQueueSize q) [a])
  | TQueueSet q n d a u =>
      match exec m v 0 (OQueueSet q n d a u) [] with
      | (Ok _, tr) => (false, map RAcc tr)
      | (_, tr) => (true, map RAcc tr)
      end
  | TReadGen a => (false, acc_of m v OReadConfigGeneration [a])
  | TReadConfig off len ok => (false, if ok then map RAcc (cfg_accesses cfg off len) else [])
  | TWriteConfig _ _ => (false, [])
  | TNotify q => (false, acc_of m v (ONotify q) [])
  | TQueueNew _ _ _ _ | TAlloc _ _ _ _ | TShare _ _ _ => (false, [RKeep e])
  end.

Fixpoint lower (m : mode) (v : version) (cfg : list N) (tr : list tev) : bool * list racc :=
  match tr with
  | [] => (false, [])
  | e :: t =>
      let '(p, l) := lower1 m v cfg e in
      if p then (true, l)
      else let '(p', l') := lower m v cfg t in (p', l ++ l')
  end.

Definition accesses_of (l : list racc) : list access :=
  concat (map (fun r => match r with RAcc a => [a] | RKeep _ => [] end) l).

Definition mmio_version (t : tkind) : version :=
  match t with TKMmioLegacy => Legacy | _ => Modern end.

(* a constructor run on the real MmioTransport *)
Definition construct_mmio (d : driver) (e : env) : outcome N * list racc :=
  let '(o, tr) := construct d e in
  let '(p, l) := lower (e_mode e) (mmio_version (e_tk e)) (e_cfg e) tr in
  (if p then Panic else o, l).

(* ---------- decoding MMIO register accesses into handshake events (4.2.2 / 4.2.4) ---------- *)
Record lst := mkLst { l_fsel : N; l_flow : N; l_qsel : N }.
Definition lst0 : lst := mkLst 0 0 0.

Definition lift1 (s : lst) (a : access) : lst * list tev :=
  let off := a_off a in
  let v := a_val a in
  if a_write a then
    if off =? S_Status then (s, [TSetStatus v])
    else if off =? S_DriverFeaturesSel then (mkLst v (l_flow s) (l_qsel s), [])
    else if off =? S_DriverFeatures then
      if l_fsel s =? 0 then (mkLst (l_fsel s) v (l_qsel s), [])
      else (s, [TWriteFeatures (l_flow s + 4294967296 * v)])
    else if off =? S_QueueSel then (mkLst (l_fsel s) (l_flow s) v, [])
    else if (off =? S_QueueReady) || (off =? S_QueuePFN) then
      if v =? 0 then (s, []) else (s, [TQueueSet (l_qsel s) 0 0 0 0])
    else if off =? S_QueueNotify then (s, [TNotify v])
    else (s, [])
  else if off =? S_DeviceFeatures then (s, [TReadFeatures v])
  else (s, []).

Fixpoint lift (s : lst) (l : list access) : list tev :=
  match l with
  | [] => []
  | a :: t => let '(s', ev) := lift1 s a in ev ++ lift s' t
  end.
