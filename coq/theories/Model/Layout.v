(* C06: queue layout arithmetic, allocation, registration and release.       *)
(* Transcribed from src/lib.rs (align_up, pages), src/queue.rs               *)
(* (queue_part_sizes, allocate_legacy, allocate_flexible, VirtQueue::new,    *)
(* field order of VirtQueueLayout for drop) and src/hal.rs (Dma::new/drop).  *)
From VD Require Import Base.Words.

Definition PAGE : N := 4096.

(* src/lib.rs: (size + PAGE_SIZE) & !(PAGE_SIZE - 1)  -- as written *)
Definition align_up (x : N) : N := N.ldiff (x + PAGE) 4095.
(* src/lib.rs: size.div_ceil(PAGE_SIZE) *)
Definition pages (x : N) : N := (x + 4095) / PAGE.
(* the specification's ALIGN(x) (VirtIO 1.2, 2.7.2) *)
Definition ALIGN (x : N) : N := ((x + 4095) / PAGE) * PAGE.

(* src/queue.rs queue_part_sizes *)
Definition desc_size (n : N) : N := 16 * n.
Definition avail_size (n : N) : N := 2 * (3 + n).
Definition used_size (n : N) : N := 6 + 8 * n.

(* BufferDirection *)
Definition DIR_TO_DEV : N := 0.
Definition DIR_FROM_DEV : N := 1.
Definition DIR_BOTH : N := 2.

Inductive ev :=
| EvAlloc (pages dir paddr : N)
| EvDealloc (paddr pages : N)
| EvQueueSet (idx size desc drv dev : N).

Record layout := mkLayout {
  l_legacy : bool;
  l_a1 : N; l_p1 : N;      (* first (or only) DMA region: paddr, pages *)
  l_a2 : N; l_p2 : N;      (* second region (modern only) *)
  l_avail_off : N;
  l_used_off : N }.         (* legacy only *)

Definition desc_paddr (l : layout) : N := l_a1 l.
Definition driver_paddr (l : layout) : N := l_a1 l + l_avail_off l.
Definition device_paddr (l : layout) : N :=
  if l_legacy l then l_a1 l + l_used_off l else l_a2 l.

Definition legacy_pages (n : N) : N :=
  (align_up (desc_size n + avail_size n) + align_up (used_size n)) / PAGE.

(* answers a1 a2: what Hal::dma_alloc returns for the first / second call (0 = failure) *)
Definition allocate (legacy : bool) (n a1 a2 : N) : outcome layout * list ev :=
  if legacy then
    let p := legacy_pages n in
    if N.eqb a1 0 then (Err EDmaError, [EvAlloc p DIR_BOTH 0])
    else (Ok (mkLayout true a1 p 0 0 (desc_size n) (align_up (desc_size n + avail_size n))),
          [EvAlloc p DIR_BOTH a1])
  else
    let p1 := pages (desc_size n + avail_size n) in
    let p2 := pages (used_size n) in
    if N.eqb a1 0 then (Err EDmaError, [EvAlloc p1 DIR_TO_DEV 0])
    else if N.eqb a2 0 then
      (Err EDmaError, [EvAlloc p1 DIR_TO_DEV a1; EvAlloc p2 DIR_FROM_DEV 0; EvDealloc a1 p1])
    else (Ok (mkLayout false a1 p1 a2 p2 (desc_size n) 0),
          [EvAlloc p1 DIR_TO_DEV a1; EvAlloc p2 DIR_FROM_DEV a2]).

(* VirtQueue::new up to and including queue_set *)
Definition queue_new (legacy : bool) (n idx : N) (in_use : bool) (maxsz a1 a2 : N)
  : outcome layout * list ev :=
  if in_use then (Err EAlreadyUsed, [])
  else if N.ltb maxsz n then (Err EInvalidParam, [])
  else match allocate legacy n a1 a2 with
       | (Ok l, evs) =>
           (Ok l, evs ++ [EvQueueSet idx n (desc_paddr l) (driver_paddr l) (device_paddr l)])
       | (o, evs) => (o, evs)
       end.

(* dropping the queue: VirtQueueLayout's Dma fields in declaration order *)
Definition queue_drop (l : layout) : list ev :=
  if l_legacy l then [EvDealloc (l_a1 l) (l_p1 l)]
  else [EvDealloc (l_a1 l) (l_p1 l); EvDealloc (l_a2 l) (l_p2 l)].

(* ---- flat encodings for the correspondence check ---- *)
Definition enc_ev (e : ev) : list N :=
  match e with
  | EvAlloc p d a => [1; p; d; a]
  | EvDealloc a p => [2; a; p]
  | EvQueueSet i s d a u => [3; i; s; d; a; u]
  end.
Definition enc_evs (l : list ev) : list N := concat (map enc_ev l).

(* kind 610: inputs [legacy; n; idx; in_use; maxsz; a1; a2]
   outputs: result class/code, events of new, 99, events of drop (if constructed) *)
Definition run_queue_new (ins : list N) : list N :=
  match ins with
  | [legacy; n; idx; in_use; maxsz; a1; a2] =>
      match queue_new (n2b legacy) n idx (n2b in_use) maxsz a1 a2 with
      | (Ok l, evs) => [0; 0] ++ enc_evs evs ++ [99] ++ enc_evs (queue_drop l)
      | (Err e, evs) => [1; e] ++ enc_evs evs ++ [99]
      | (_, evs) => [2; 0] ++ enc_evs evs ++ [99]
      end
  | _ => [77777]
  end.

(* ---- the property as a boolean monitor over what queue_set was given ---- *)
(* regions_ok n desc drv dev (region list as (base,pages,dir)) *)
Definition inside (a len base pgs : N) : bool :=
  N.leb base a && N.leb (a + len) (base + pgs * PAGE).

Definition disjoint (a la b lb : N) : bool := N.leb (a + la) b || N.leb (b + lb) a.

Definition regions_ok_b (legacy : bool) (n desc drv dev a1 p1 a2 p2 : N) : bool :=
  N.eqb (desc mod 16) 0 && N.eqb (drv mod 2) 0 && N.eqb (dev mod 4) 0
  && disjoint desc (desc_size n) drv (avail_size n)
  && disjoint desc (desc_size n) dev (used_size n)
  && disjoint drv (avail_size n) dev (used_size n)
  && inside desc (desc_size n) a1 p1
  && inside drv (avail_size n) a1 p1
  && (if legacy then inside dev (used_size n) a1 p1 && N.eqb (a1 mod PAGE) 0
                     && N.eqb drv (desc + desc_size n)
                     && N.eqb dev (a1 + ALIGN (desc_size n + avail_size n))
      else inside dev (used_size n) a2 p2).
